/-
Schema 2.x crate contents refine Spec.Members.

`absM d`: live crates = Playlist ids, live tracks, pairs = (listId, trackId) of the PlaylistEntity rows of the
library's OWN database, in row order.  Entries of other databases (uuid tag ≠ 0) may sit in any list — they are
nobody's membership here, and no operation of the crate API may confuse them with the library's tracks.
`MemInv`: every own entry refers to a live playlist and a live track; track ids are a key within the counter
(no (list, database, track) triple twice: `ChInv.pairs`).
`MStep`: the Spec.Members judge, driven by the Model's answer and the Spec forest, accepts the step and tracks
`absM`; `MemInv` is kept.  Histories: `memOp` (the crate / track API interleaved with table-level additions of
foreign entries).
-/
import Proofs.V2Rep

set_option linter.dupNamespace false
set_option linter.unusedSimpArgs false

namespace EngineModel.Db.V2

open EngineModel.Db.Chain EngineModel.Spec EngineModel.ListAux

structure MemInv (d : Db) : Prop where
  live : ∀ c ∈ cores d.pe, c.2.2.uuid = 0 → c.2.1 ∈ ids d.pl ∧ c.2.2.track ∈ d.tracks
  tracks_nodup : d.tracks.Nodup
  tracks_seq : ∀ t ∈ d.tracks, 0 < t ∧ t ≤ d.trSeq
  trSeq0 : 0 ≤ d.trSeq

theorem memInv_empty : MemInv Db.empty := by
  refine ⟨?_, ?_, ?_, ?_⟩ <;> simp [Db.empty, cores]

theorem absM_pairs (d : Db) : (absM d).pairs = ((cores d.pe).filter own).map pairOf := rfl

theorem own_iff {c : Int × Int × Ent} : own c = true ↔ c.2.2.uuid = 0 := by simp [own]

/-- On entries of the own database, "is the entry (t, own)" is "has track id t". -/
theorem ent_beq_own {v : Ent} (t : Int) (hu : v.uuid = 0) : (v == (⟨t, 0⟩ : Ent)) = (v.track == t) := by
  cases v with
  | mk a b =>
    simp only at hu
    subst hu
    by_cases h : a = t
    · subst h; simp
    · have h1 : (a == t) = false := by simpa using h
      have h2 : ((⟨a, 0⟩ : Ent) == ⟨t, 0⟩) = false := by
        apply beq_false_of_ne
        intro e; exact h (by injection e)
      rw [h1, h2]

/-- Filtering the rows by a condition that, on own entries, only depends on (list, track). -/
theorem pairs_filter (cs : List (Int × Int × Ent)) (q : Int × Int × Ent → Bool) (q' : Int × Int → Bool)
    (hq : ∀ c ∈ cs, own c = true → q c = q' (pairOf c)) :
    ((cs.filter q).filter own).map pairOf = ((cs.filter own).map pairOf).filter q' := by
  rw [List.filter_map, List.filter_filter, List.filter_filter]
  congr 1
  apply List.filter_congr
  intro c hc
  by_cases ho : own c = true
  · simp [ho, hq c hc ho, Function.comp]
  · have : own c = false := by simpa using ho
    simp [this]

theorem peFind_isSome_iff {d : Db} {l t : Int} : (peFind d l t 0).isSome = true ↔ (l, t) ∈ (absM d).pairs := by
  rw [absM_pairs]
  constructor
  · intro h
    cases hg : peFind d l t 0 with
    | none => rw [hg] at h; simp at h
    | some e =>
      obtain ⟨h1, _, h3, h4⟩ := lookup_core hg
      refine List.mem_map.mpr ⟨core e, List.mem_filter.mpr ⟨h1, by simp [own, core, h4]⟩, ?_⟩
      simp [pairOf, core, h3, h4]
  · intro h
    obtain ⟨c, hc, e⟩ := List.mem_map.mp h
    obtain ⟨hc1, hc2⟩ := List.mem_filter.mp hc
    cases hg : peFind d l t 0 with
    | some e' => rfl
    | none =>
      exfalso
      simp only [pairOf, Prod.mk.injEq] at e
      exact lookup_none hg c hc1 ⟨e.1, ent_eq.mpr ⟨e.2, own_iff.mp hc2⟩⟩

theorem peFind_none_iff {d : Db} {l t : Int} : peFind d l t 0 = none ↔ (l, t) ∉ (absM d).pairs := by
  rw [← peFind_isSome_iff]
  cases peFind d l t 0 <;> simp

/-! ### one step against Spec.Members -/

/-- What `step` does to the membership abstraction. -/
structure MStep (d : Db) (op : Op) : Prop where
  judge : judgeM (absM d) (absF d) op (step d op).2 = some (absM (step d op).1)
  inv : MemInv (step d op).1
  /-- through the crate API every new entry carries the library's own uuid -/
  own_kept : apiOp op = true → (∀ c ∈ cores d.pe, c.2.2.uuid = 0) → ∀ c ∈ cores (step d op).1.pe, c.2.2.uuid = 0

theorem judgeM_throw_nil {d : Db} {op : Op} {e : Exn} (h : step d op = (d, .throw e))
    (hops : membersOps (absF d) op (.throw e) = []) :
    judgeM (absM d) (absF d) op (step d op).2 = some (absM (step d op).1) := by
  rw [h]; simp [judgeM, outcome, hops]

theorem absM_congr_pl {d d' : Db} (h1 : ids d'.pl = ids d.pl) (h2 : d'.pe = d.pe) (h3 : d'.tracks = d.tracks) : absM d' = absM d := by
  simp [absM, h1, h2, h3]

theorem MemInv.congr {d d' : Db} (h : MemInv d) (h1 : ids d'.pl = ids d.pl) (h2 : d'.pe = d.pe) (h3 : d'.tracks = d.tracks)
    (h4 : d'.trSeq = d.trSeq) : MemInv d' := by
  refine ⟨?_, by rw [h3]; exact h.tracks_nodup, by rw [h3, h4]; exact h.tracks_seq, by rw [h4]; exact h.trSeq0⟩
  rw [h2, h1, h3]; exact h.live

/-- A change that only filters the entity rows keeps `live` and "all own". -/
theorem live_of_filter {d : Db} (hM : MemInv d) {pe' : Table Ent} {q : Int × Int × Ent → Bool}
    (h : cores pe' = (cores d.pe).filter q) :
    ∀ c ∈ cores pe', c.2.2.uuid = 0 → c.2.1 ∈ ids d.pl ∧ c.2.2.track ∈ d.tracks := by
  intro c hc; rw [h] at hc; exact hM.live c (List.mem_filter.mp hc).1

theorem own_of_filter {pe pe' : Table Ent} {q : Int × Int × Ent → Bool} (h : cores pe' = (cores pe).filter q)
    (ho : ∀ c ∈ cores pe, c.2.2.uuid = 0) : ∀ c ∈ cores pe', c.2.2.uuid = 0 := by
  intro c hc; rw [h] at hc; exact ho c (List.mem_filter.mp hc).1

/-! ### operations on the Playlist table alone -/

def isPlOnly : Op → Bool
  | .createRoot _ | .createRootAfter _ _ | .createSub _ _ | .createSubAfter _ _ _ | .rename _ _ | .setParent _ _ => true
  | _ => false

def Frame (d d' : Db) : Prop := d'.pe = d.pe ∧ d'.peSeq = d.peSeq ∧ d'.tracks = d.tracks ∧ d'.trSeq = d.trSeq

theorem Frame.refl (d : Db) : Frame d d := ⟨rfl, rfl, rfl, rfl⟩

theorem plAdd_frame (d : Db) (n : Bytes) (k b : Int) : Frame d (plAdd d n k b).1 := by
  cases hv : Forest.validName n with
  | true => rw [plAdd_valid d k b hv]; exact ⟨rfl, rfl, rfl, rfl⟩
  | false => rw [plAdd_invalid d k b hv]; exact Frame.refl d

theorem plUpdate_frame (d : Db) (i : Int) (n : Bytes) (k b : Int) : Frame d (plUpdate d i n k b).1 := by
  unfold plUpdate
  split
  · exact Frame.refl d
  · exact Frame.refl d
  · split
    · exact Frame.refl d
    · split
      · split
        · exact Frame.refl d
        · exact ⟨rfl, rfl, rfl, rfl⟩
      · split
        · exact Frame.refl d
        · exact ⟨rfl, rfl, rfl, rfl⟩

theorem step_pl_frame {d : Db} {op : Op} (h : isPlOnly op = true) : Frame d (step d op).1 := by
  cases op <;> simp only [isPlOnly] at h <;> simp only [step] <;> (repeat' split) <;>
    first | exact Frame.refl d | exact plAdd_frame d _ _ _ | exact plUpdate_frame d _ _ _ _ | simp at h

theorem membersOps_create {f : Forest.Forest} {op : Op} (hc : isCreate op = true) (n : Int) :
    membersOps f op (.ok (some n)) = [.newCrate n] := by
  cases op <;> simp [isCreate] at hc <;> simp [membersOps, outcome, newIdOf]

theorem membersOps_create_throw {f : Forest.Forest} {op : Op} (hc : isPlOnly op = true) (e : Exn) :
    membersOps f op (.throw e) = [] := by
  cases op <;> simp [isPlOnly] at hc <;> simp [membersOps, outcome]

theorem membersOps_noncreate {f : Forest.Forest} {op : Op} (hp : isPlOnly op = true) (hc : isCreate op = false) (res : Res Out) :
    membersOps f op res = [] := by
  cases op <;> simp [isPlOnly] at hp <;> simp [isCreate] at hc <;> simp [membersOps]

theorem absM_of {d d' : Db} (hf : Frame d d') : absM d' = ⟨ids d'.pl, d.tracks, ((cores d.pe).filter own).map pairOf⟩ := by
  simp [absM, hf.1, hf.2.2.1]

theorem mstep_plOnly {d : Db} (hM : MemInv d) (hP : PlInv d) {op : Op} (h : isPlOnly op = true) : MStep d op := by
  have hfr := step_pl_frame (d := d) h
  have hown : apiOp op = true → (∀ c ∈ cores d.pe, c.2.2.uuid = 0) → ∀ c ∈ cores (step d op).1.pe, c.2.2.uuid = 0 := by
    intro _ ho; rw [hfr.1]; exact ho
  cases fstep hP.wf op with
  | throws e hs _ =>
    exact ⟨judgeM_throw_nil hs (membersOps_create_throw h e), by rw [hs]; exact hM, hown⟩
  | okF out fop h2 hf hacc hnew hseq =>
    have hids := Forest.step_accept_ids_eq fop _ hacc
    rw [absF_ids, absF_ids] at hids
    have hcr := forestOp_isCreate hf
    cases hc : isCreate op with
    | true =>
      have hout := hnew hc
      subst hout
      have hids' : ids (step d op).1.pl = ids d.pl ++ [d.plSeq + 1] := by
        rw [hc] at hcr
        cases fop <;> simp [Forest.Op.isCreate] at hcr <;> simpa [newIdOf] using hids
      refine ⟨?_, ?_, hown⟩
      · rw [h2]
        simp only [judgeM, outcome, membersOps_create hc, List.foldlM_cons, List.foldlM_nil, judgeM1, Members.step,
          Members.Verdict.next]
        rw [absM_of hfr, hids']
        rfl
      · refine ⟨?_, by rw [hfr.2.2.1]; exact hM.tracks_nodup,
          by rw [hfr.2.2.1, hfr.2.2.2]; exact hM.tracks_seq, by rw [hfr.2.2.2]; exact hM.trSeq0⟩
        rw [hfr.1, hfr.2.2.1, hids']
        intro c hcm ho
        exact ⟨List.mem_append_left _ (hM.live c hcm ho).1, (hM.live c hcm ho).2⟩
    | false =>
      have hids' : ids (step d op).1.pl = ids d.pl := by
        rw [hc] at hcr
        cases fop <;> simp [Forest.Op.isCreate] at hcr
        · exact hids
        · exact hids
        · cases op <;> simp [forestOp] at hf <;> simp [isPlOnly] at h
      refine ⟨?_, hM.congr hids' hfr.1 hfr.2.2.1 hfr.2.2.2, hown⟩
      rw [h2]
      simp only [judgeM, outcome, membersOps_noncreate h hc, List.foldlM_nil]
      rw [absM_congr_pl hids' hfr.1 hfr.2.2.1]
      rfl
  | okN out h2 hf _ _ => cases op <;> simp [forestOp] at hf <;> simp [isPlOnly] at h

/-! ### remove_crate -/

theorem mstep_removeCrate {S : Ord} {d : Db} (hM : MemInv d) (hP : PlInv d) (hC : ChInv S d) (c : Int) :
    MStep d (.removeCrate c) := by
  by_cases he : plExists d c = true
  · obtain ⟨ds, hds, hmem⟩ := descendantIds_ok hP.wf c
    have hG : IsGone d c (c :: ds) := isGone_cons hmem
    have hstep : step d (.removeCrate c) = (plRemove d (c :: ds), .ok none) := by simp [step, he, hds]
    have hn := hC.rk.ids_nodup
    have hpl : cores (plRemove d (c :: ds)).pl = (cores d.pl).filter (fun k => !(c :: descSet d c).contains k.1) :=
      cores_plRemove_pl hn hC.rk.id_pos (plExists_iff.mp he) hG
    have hpe : cores (plRemove d (c :: ds)).pe = (cores d.pe).filter (fun k => !(c :: descSet d c).contains k.2.1) := by
      have : cores (plRemove d (c :: ds)).pe = (cores d.pe).filter (fun k => !(c :: ds).contains k.2.1) :=
        cores_foldl_clearKey hC.re.ids_nodup _
      rw [this]
      apply List.filter_congr
      intro k _
      rw [hG.contains]
    have hids : ids (plRemove d (c :: ds)).pl = (ids d.pl).filter (fun x => !(c :: descSet d c).contains x) := by
      rw [ids_eq_cores, hpl, ids_eq_cores, List.filter_map]
      rfl
    have htr : (plRemove d (c :: ds)).tracks = d.tracks := rfl
    have hlive : (absF d).live c = true := by rw [← plExists_eq_live]; exact he
    refine ⟨?_, ?_, fun _ ho => by rw [hstep]; exact own_of_filter hpe ho⟩
    · rw [hstep]
      simp only [judgeM, outcome, membersOps, hlive, beq_self_eq_true, Bool.and_self, if_true, List.foldlM_cons,
        List.foldlM_nil, judgeM1, Members.step, Members.Verdict.next]
      simp only [absM, hids, hpe, htr]
      rw [pairs_filter (cores d.pe) (fun k => !(c :: descSet d c).contains k.2.1)
        (fun p => !(c :: descSet d c).contains p.1) (fun _ _ _ => rfl)]
      rfl
    · rw [hstep]
      refine ⟨?_, hM.tracks_nodup, hM.tracks_seq, hM.trSeq0⟩
      intro k hk ho
      rw [hpe] at hk
      obtain ⟨hk1, hk2⟩ := List.mem_filter.mp hk
      refine ⟨?_, (hM.live k hk1 ho).2⟩
      rw [hids]
      exact List.mem_filter.mpr ⟨(hM.live k hk1 ho).1, hk2⟩
  · have he' : plExists d c = false := by simpa using he
    have hstep : step d (.removeCrate c) = (d, .throw .invalid_argument) := by simp [step, he']
    exact ⟨judgeM_throw_nil hstep (by simp [membersOps, outcome]), by rw [hstep]; exact hM, fun _ ho => by rw [hstep]; exact ho⟩

/-! ### tracks and contents -/

theorem mstep_createTrack {d : Db} (hM : MemInv d) : MStep d .createTrack := by
  have hstep : step d .createTrack = ({ d with tracks := d.tracks ++ [d.trSeq + 1], trSeq := d.trSeq + 1 }, .ok (some (d.trSeq + 1))) := rfl
  have hfresh : d.trSeq + 1 ∉ d.tracks := by
    intro h; have := (hM.tracks_seq _ h).2; omega
  refine ⟨?_, ?_, fun _ ho => by rw [hstep]; exact ho⟩
  · rw [hstep]
    have : (absM d).tracks.contains (d.trSeq + 1) = false := by simpa [absM] using hfresh
    simp only [judgeM, outcome, membersOps, newIdOf, List.foldlM_cons, List.foldlM_nil, judgeM1, this, Members.step,
      Members.Verdict.next]
    rfl
  · rw [hstep]
    refine ⟨?_, ?_, ?_, by have := hM.trSeq0; show 0 ≤ d.trSeq + 1; omega⟩
    · intro c hc ho
      exact ⟨(hM.live c hc ho).1, List.mem_append_left _ (hM.live c hc ho).2⟩
    · refine List.nodup_append.mpr ⟨hM.tracks_nodup, by simp, ?_⟩
      intro a ha b hb
      simp only [List.mem_singleton] at hb
      subst hb
      intro e; subst e; exact hfresh ha
    · intro t ht
      simp only [List.mem_append, List.mem_singleton] at ht
      show 0 < t ∧ t ≤ d.trSeq + 1
      rcases ht with ht | ht
      · have := hM.tracks_seq t ht; omega
      · have := hM.trSeq0; omega

theorem mstep_removeTrack {S : Ord} {d : Db} (hM : MemInv d) (hC : ChInv S d) (t : Int) : MStep d (.removeTrack t) := by
  by_cases hc : t ∈ d.tracks
  · have hct : d.tracks.contains t = true := List.contains_iff_mem.mpr hc
    have hstep : step d (.removeTrack t) = ({ d with
        pe := (ids d.pl).foldl (rmTrackIn t) d.pe, tracks := d.tracks.filter (· != t) }, .ok none) := by
      show (if d.tracks.contains t then _ else _) = _
      rw [if_pos hct]
    have hpe : cores (step d (.removeTrack t)).1.pe
        = (cores d.pe).filter (fun c => !((ids d.pl).contains c.2.1 && c.2.2 == (⟨t, 0⟩ : Ent))) := by
      rw [hstep]
      exact cores_foldl_removeTrack t (ids d.pl) d.pe hC.pairs
    have h3 : (step d (.removeTrack t)).1.tracks = d.tracks.filter (· != t) := by rw [hstep]
    have h4 : (step d (.removeTrack t)).1.pl = d.pl := by rw [hstep]
    have h5 : (step d (.removeTrack t)).1.trSeq = d.trSeq := by rw [hstep]
    refine ⟨?_, ?_, fun _ ho => own_of_filter hpe ho⟩
    · have h2 : (step d (.removeTrack t)).2 = .ok none := by rw [hstep]
      have hct' : (absM d).tracks.contains t = true := hct
      rw [h2]
      simp only [judgeM, outcome, membersOps, List.foldlM_cons, List.foldlM_nil, judgeM1, Members.step, hct',
        Bool.not_true, Bool.false_eq_true, if_false, Members.Verdict.next]
      simp only [absM, hpe, h3, h4]
      rw [pairs_filter (cores d.pe) _ (fun p => p.2 != t)]
      · rfl
      · intro c hcm ho
        have hl : (ids d.pl).contains c.2.1 = true := List.contains_iff_mem.mpr (hM.live c hcm (own_iff.mp ho)).1
        rw [hl, Bool.true_and, ent_beq_own t (own_iff.mp ho)]
        rfl
    · refine ⟨?_, ?_, ?_, by rw [h5]; exact hM.trSeq0⟩
      · intro c hcm ho
        rw [hpe] at hcm
        obtain ⟨h1, h2⟩ := List.mem_filter.mp hcm
        rw [h4, h3]
        obtain ⟨hl1, hl2⟩ := hM.live c h1 ho
        refine ⟨hl1, List.mem_filter.mpr ⟨hl2, ?_⟩⟩
        have hl : (ids d.pl).contains c.2.1 = true := List.contains_iff_mem.mpr hl1
        rw [hl, Bool.true_and] at h2
        have hne : c.2.2 ≠ (⟨t, 0⟩ : Ent) := by simpa using h2
        have : c.2.2.track ≠ t := fun e => hne (ent_eq.mpr ⟨e, ho⟩)
        simpa using this
      · rw [h3]; exact List.Nodup.sublist List.filter_sublist hM.tracks_nodup
      · rw [h3, h5]; intro x hx; exact hM.tracks_seq x (List.mem_filter.mp hx).1
  · have hstep : step d (.removeTrack t) = (d, .throw .invalid_argument) := by simp [step, hc]
    have hct' : (absM d).tracks.contains t = false := by simpa [absM] using hc
    refine ⟨?_, by rw [hstep]; exact hM, fun _ ho => by rw [hstep]; exact ho⟩
    rw [hstep]
    have hnm : t ∉ (absM d).tracks := hc
    simp [judgeM, outcome, membersOps, judgeM1, Members.step, hct', hnm, Members.Verdict.next]

theorem filter_own_append (cs : List (Int × Int × Ent)) (x : Int × Int × Ent) :
    (cs ++ [x]).filter own = if own x then cs.filter own ++ [x] else cs.filter own := by
  rw [List.filter_append]
  by_cases h : own x = true
  · simp [h]
  · have : own x = false := by simpa using h
    simp [this]

/-- add_back of a new entry (either through crate::add_track, own uuid, or at table level). -/
theorem memInv_addBack {d : Db} (hM : MemInv d) {l t u : Int}
    (hlive : u = 0 → l ∈ ids d.pl ∧ t ∈ d.tracks) :
    MemInv { d with pe := appendBack d.pe (d.peSeq + 1) l ⟨t, u⟩, peSeq := d.peSeq + 1 } := by
  refine ⟨?_, hM.tracks_nodup, hM.tracks_seq, hM.trSeq0⟩
  show ∀ k ∈ cores (appendBack d.pe (d.peSeq + 1) l ⟨t, u⟩), k.2.2.uuid = 0 → k.2.1 ∈ ids d.pl ∧ k.2.2.track ∈ d.tracks
  rw [cores_appendBack]
  intro k hk ho
  simp only [List.mem_append, List.mem_singleton] at hk
  rcases hk with hk | rfl
  · exact hM.live k hk ho
  · exact hlive ho

theorem mstep_addTrack {d : Db} (hM : MemInv d) (c t : Int) : MStep d (.addTrack c t) := by
  by_cases he : plExists d c = true
  · by_cases ht : t ∈ d.tracks
    · have hstep0 : step d (.addTrack c t) = peAddBack d c t 0 false := by simp [step, he, ht]
      have hcm : c ∈ (absM d).crates := plExists_iff.mp he
      have htm : t ∈ (absM d).tracks := ht
      cases hg : peFind d c t 0 with
      | some e =>
        have hstep : step d (.addTrack c t) = (d, .ok (some e.id)) := by rw [hstep0]; simp [peAddBack, hg]
        have hp : (c, t) ∈ (absM d).pairs := peFind_isSome_iff.mp (by rw [hg]; rfl)
        refine ⟨?_, by rw [hstep]; exact hM, fun _ ho => by rw [hstep]; exact ho⟩
        rw [hstep]
        simp [judgeM, outcome, membersOps, judgeM1, Members.step, hcm, htm, hp, Members.Verdict.next]
      | none =>
        have hstep : step d (.addTrack c t) =
            ({ d with pe := appendBack d.pe (d.peSeq + 1) c ⟨t, 0⟩, peSeq := d.peSeq + 1 }, .ok (some (d.peSeq + 1))) := by
          rw [hstep0]; simp [peAddBack, hg]
        have hp : (c, t) ∉ (absM d).pairs := peFind_none_iff.mp hg
        refine ⟨?_, ?_, ?_⟩
        · rw [hstep]
          simp [judgeM, outcome, membersOps, judgeM1, Members.step, hcm, htm, hp, Members.Verdict.next]
          simp [absM, cores_appendBack, filter_own_append, own, pairOf]
        · rw [hstep]
          exact memInv_addBack hM (fun _ => ⟨plExists_iff.mp he, ht⟩)
        · intro _ ho
          rw [hstep]
          show ∀ k ∈ cores (appendBack d.pe (d.peSeq + 1) c ⟨t, 0⟩), k.2.2.uuid = 0
          rw [cores_appendBack]
          intro k hk
          simp only [List.mem_append, List.mem_singleton] at hk
          rcases hk with hk | rfl
          · exact ho k hk
          · rfl
    · have hstep : step d (.addTrack c t) = (d, .throw (exn "track_deleted")) := by simp [step, he, ht]
      have hcm : c ∈ (absM d).crates := plExists_iff.mp he
      have htm : t ∉ (absM d).tracks := ht
      refine ⟨?_, by rw [hstep]; exact hM, fun _ ho => by rw [hstep]; exact ho⟩
      rw [hstep]
      simp [judgeM, outcome, membersOps, judgeM1, Members.step, hcm, htm, Members.Verdict.next]
  · have he' : plExists d c = false := by simpa using he
    have hstep : step d (.addTrack c t) = (d, .throw (exn "crate_deleted")) := by simp [step, he']
    have hcm : c ∉ (absM d).crates := fun h => he (plExists_iff.mpr h)
    refine ⟨?_, by rw [hstep]; exact hM, fun _ ho => by rw [hstep]; exact ho⟩
    rw [hstep]
    simp [judgeM, outcome, membersOps, judgeM1, Members.step, hcm, Members.Verdict.next]

theorem state_eq_of_pairs {s : Members.State} {p : List (Int × Int)} (h : p = s.pairs) :
    ({ s with pairs := p } : Members.State) = s := by
  subst h; rfl

theorem mstep_removeTrackFrom {S : Ord} {d : Db} (hM : MemInv d) (hC : ChInv S d) (c t : Int) :
    MStep d (.removeTrackFrom c t) := by
  cases hg : peFind d c t 0 with
  | some e =>
    have hstep : step d (.removeTrackFrom c t) = ({ d with pe := deleteKeyed fires d.pe c e.id }, .ok none) := by
      simp [step, hg]
    have hcores := cores_delete_pair hC.pairs (l := c) (t := t) (u := 0) hg
    obtain ⟨hce, _, hel, hev⟩ := lookup_core hg
    have hcm : c ∈ (absM d).crates := hel ▸ (hM.live _ hce (by simp [core, hev])).1
    refine ⟨?_, ?_, fun _ ho => by rw [hstep]; exact own_of_filter hcores ho⟩
    · rw [hstep]
      simp [judgeM, outcome, membersOps, judgeM1, Members.step, hcm, Members.Verdict.next]
      simp only [absM, hcores]
      congr 1
      rw [pairs_filter (cores d.pe) _ (fun p => p != (c, t))]
      intro k hk ho
      rw [ent_beq_own t (own_iff.mp ho)]
      rfl
    · rw [hstep]
      exact ⟨live_of_filter hM hcores, hM.tracks_nodup, hM.tracks_seq, hM.trSeq0⟩
  | none =>
    have hstep : step d (.removeTrackFrom c t) = (d, .ok none) := by simp [step, hg]
    have hp : (c, t) ∉ (absM d).pairs := peFind_none_iff.mp hg
    refine ⟨?_, by rw [hstep]; exact hM, fun _ ho => by rw [hstep]; exact ho⟩
    rw [hstep]
    by_cases hcm : c ∈ (absM d).crates
    · simp [judgeM, outcome, membersOps, judgeM1, Members.step, hcm, Members.Verdict.next]
      apply state_eq_of_pairs
      apply List.filter_eq_self.mpr
      intro p hpm
      simp only [bne_iff_ne, ne_eq]
      intro e; exact hp (e ▸ hpm)
    · simp [judgeM, outcome, membersOps, judgeM1, Members.step, hcm, Members.Verdict.next]

theorem mstep_clearTracks {S : Ord} {d : Db} (hM : MemInv d) (hC : ChInv S d) (c : Int) : MStep d (.clearTracks c) := by
  have hstep : step d (.clearTracks c) = ({ d with pe := clearKey fires d.pe c }, .ok none) := rfl
  have hcores := cores_clearKey fires hC.re.ids_nodup c
  refine ⟨?_, ?_, fun _ ho => by rw [hstep]; exact own_of_filter hcores ho⟩
  · rw [hstep]
    have hpf := pairs_filter (cores d.pe) (fun k => k.2.1 != c) (fun p => p.1 != c) (fun _ _ _ => rfl)
    by_cases hcm : c ∈ (absM d).crates
    · simp [judgeM, outcome, membersOps, judgeM1, Members.step, hcm, Members.Verdict.next]
      simp only [absM, hcores]
      congr 1
      exact hpf.symm
    · simp [judgeM, outcome, membersOps, judgeM1, Members.step, hcm, Members.Verdict.next]
      simp only [absM, hcores]
      congr 1
      rw [hpf]
      symm
      apply List.filter_eq_self.mpr
      intro p hp
      obtain ⟨k, hk, rfl⟩ := List.mem_map.mp hp
      obtain ⟨hk1, hk2⟩ := List.mem_filter.mp hk
      simp only [bne_iff_ne, ne_eq, pairOf]
      intro e
      exact hcm (e ▸ (hM.live k hk1 (own_iff.mp hk2)).1)
  · rw [hstep]
    exact ⟨live_of_filter hM hcores, hM.tracks_nodup, hM.tracks_seq, hM.trSeq0⟩

/-- Table level: an entry of ANOTHER database is added to some list — no membership of this library changes. -/
theorem mstep_foreignAdd {d : Db} (hM : MemInv d) (l t u : Int) (f : Bool) (hu : u ≠ 0) :
    MStep d (.peAddBack l t u f) := by
  have hstep0 : step d (.peAddBack l t u f) = peAddBack d l t u f := rfl
  refine ⟨?_, ?_, fun ha _ => by simp [apiOp] at ha⟩
  · unfold peAddBack at hstep0
    cases hg : peFind d l t u with
    | some e =>
      rw [hg] at hstep0
      cases f with
      | true => rw [hstep0]; simp [judgeM, outcome, membersOps]
      | false =>
        simp only [Bool.false_eq_true, if_false] at hstep0
        rw [hstep0]; simp [judgeM, outcome, membersOps]
    | none =>
      rw [hg] at hstep0
      simp only at hstep0
      rw [hstep0]
      have hno : own (d.peSeq + 1, l, (⟨t, u⟩ : Ent)) = false := by simp [own, hu]
      simp [judgeM, outcome, membersOps]
      simp [absM, cores_appendBack, filter_own_append, hno]
  · unfold peAddBack at hstep0
    cases hg : peFind d l t u with
    | some e =>
      rw [hg] at hstep0
      cases f with
      | true => rw [hstep0]; exact hM
      | false => simp only [Bool.false_eq_true, if_false] at hstep0; rw [hstep0]; exact hM
    | none =>
      rw [hg] at hstep0
      simp only at hstep0
      rw [hstep0]
      exact memInv_addBack hM (fun e => absurd e hu)

/-- Every operation of the crate / track API (and every table-level addition of a foreign entry) is accepted by
the membership Spec and keeps `MemInv`. -/
theorem mstep {S : Ord} {d : Db} (hM : MemInv d) (hP : PlInv d) (hC : ChInv S d) (op : Op) (hm : memOp op = true) :
    MStep d op := by
  cases op with
  | createRoot n => exact mstep_plOnly hM hP rfl
  | createRootAfter n a => exact mstep_plOnly hM hP rfl
  | createSub p n => exact mstep_plOnly hM hP rfl
  | createSubAfter p n a => exact mstep_plOnly hM hP rfl
  | rename c n => exact mstep_plOnly hM hP rfl
  | setParent c p => exact mstep_plOnly hM hP rfl
  | removeCrate c => exact mstep_removeCrate hM hP hC c
  | createTrack => exact mstep_createTrack hM
  | removeTrack t => exact mstep_removeTrack hM hC t
  | addTrack c t => exact mstep_addTrack hM c t
  | removeTrackFrom c t => exact mstep_removeTrackFrom hM hC c t
  | clearTracks c => exact mstep_clearTracks hM hC c
  | peAddBack l t u f =>
    simp only [memOp, Bool.and_eq_true, decide_eq_true_eq] at hm
    exact mstep_foreignAdd hM l t u f hm.1
  | peRemove l e => simp [memOp] at hm
  | peClear l => simp [memOp] at hm

/-! ### all invariants together -/

structure Inv (S : Ord) (d : Db) : Prop where
  ch : ChInv S d
  pl : PlInv d
  mem : MemInv d

theorem inv_empty : Inv Ord.empty Db.empty := ⟨chInv_empty, plInv_empty, memInv_empty⟩

theorem okOp_of_memOp {op : Op} (h : memOp op = true) : okOp op = true := by
  cases op <;> simp [memOp] at h <;> simp [okOp, h]

theorem memOp_of_apiOp {op : Op} (h : apiOp op = true) : memOp op = true := by
  cases op <;> simp [apiOp] at h <;> rfl

theorem okOp_of_apiOp {op : Op} (h : apiOp op = true) : okOp op = true := okOp_of_memOp (memOp_of_apiOp h)

theorem inv_step {S : Ord} {d : Db} (hI : Inv S d) (op : Op) (hm : memOp op = true) :
    Inv (ordStep S d op) (step d op).1 :=
  ⟨chInv_step hI.ch hI.pl op (okOp_of_memOp hm), plInv_step hI.pl op, (mstep hI.mem hI.pl hI.ch op hm).inv⟩

/-- The three Spec judges (forest, memberships, ordered lists), driven by the Model's answers only, never object
along a history, and the states they track are the abstractions of the Model state. -/
theorem inv_run {S : Ord} {d : Db} (hI : Inv S d) (ops : List Op) (hm : ops.all memOp = true) :
    ∃ S', specRunO d (absF d) S ops = some (absF (run d ops), S') ∧ Inv S' (run d ops) ∧
      specRunM d (absF d) (absM d) ops = some (absF (run d ops), absM (run d ops)) := by
  induction ops generalizing S d with
  | nil => exact ⟨S, rfl, hI, rfl⟩
  | cons op ops ih =>
    simp only [List.all_cons, Bool.and_eq_true] at hm
    obtain ⟨S', h1, h2, h3⟩ := ih (inv_step hI op hm.1) hm.2
    refine ⟨S', ?_, h2, ?_⟩
    · simp only [specRunO, run]
      rw [judgeF_of_fstep hI.pl (fstep hI.pl.wf op)]
      exact h1
    · simp only [specRunM, run]
      rw [judgeF_of_fstep hI.pl (fstep hI.pl.wf op), (mstep hI.mem hI.pl hI.ch op hm.1).judge]
      exact h3

/-- Through the crate / track API alone every entry carries the library's own uuid. -/
def AllOwn (d : Db) : Prop := ∀ c ∈ cores d.pe, c.2.2.uuid = 0

theorem allOwn_empty : AllOwn Db.empty := by simp [AllOwn, Db.empty, cores]

theorem allOwn_step {S : Ord} {d : Db} (hI : Inv S d) (ho : AllOwn d) (op : Op) (ha : apiOp op = true) :
    AllOwn (step d op).1 :=
  (mstep hI.mem hI.pl hI.ch op (memOp_of_apiOp ha)).own_kept ha ho

theorem all_memOp_of_apiOp {ops : List Op} (h : ops.all apiOp = true) : ops.all memOp = true := by
  rw [List.all_eq_true] at h ⊢
  exact fun op hop => memOp_of_apiOp (h op hop)

theorem inv_allOwn_run {S : Ord} {d : Db} (hI : Inv S d) (ho : AllOwn d) (ops : List Op) (ha : ops.all apiOp = true) :
    ∃ S', Inv S' (run d ops) ∧ AllOwn (run d ops) := by
  induction ops generalizing S d with
  | nil => exact ⟨S, hI, ho⟩
  | cons op ops ih =>
    simp only [List.all_cons, Bool.and_eq_true] at ha
    exact ih (inv_step hI op (memOp_of_apiOp ha.1)) (allOwn_step hI ho op ha.1) ha.2

end EngineModel.Db.V2
