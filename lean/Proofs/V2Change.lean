/-
C09: across every operation each ordered listing changes exactly as the property
prescribes (`Ordered.Change.holds`, the predicate the oracle of the tie evaluates on
the real library's listings): insert-after position, a moved crate among its new
siblings, removal keeps the rest in order, every other listing untouched.
-/
import Proofs.V2Rep

set_option linter.dupNamespace false
set_option linter.unusedSimpArgs false

namespace EngineModel.Db.V2

open EngineModel.Db.Chain EngineModel.Spec EngineModel.Spec.Ordered EngineModel.ListAux

theorem holds_same (l : List Int) : Change.same.holds l l = true := by simp [Change.holds]

theorem erase_append_self {l : List Int} {i : Int} (h : i ∉ l) : (l ++ [i]).erase i = l := by
  rw [List.erase_append_right _ h]; simp

theorem holds_inserted {l : List Int} {i : Int} (h : i ∉ l) : (Change.inserted i).holds l (l ++ [i]) = true := by
  simp [Change.holds, h, erase_append_self h]

theorem holds_insertedAfter {l : List Int} {a i : Int} (hi : i ∉ l) (ha : a ∈ l) :
    (Change.insertedAfter a i).holds l (Ordered.insertAfter a i l) = true := by
  simp [Change.holds, hi, ha]

theorem holds_erased (l : List Int) (c : Int) : (Change.erased c).holds l (l.erase c) = true := by
  simp [Change.holds]

theorem holds_dropped (l : List Int) : Change.dropped.holds l [] = true := by simp [Change.holds]

theorem holds_appended {l : List Int} {e : Int} (h : e ∉ l) : (Change.appended e).holds l (l ++ [e]) = true := by
  simp [Change.holds, h]

theorem not_mem_of_nodup_append {l : List Int} {i : Int} (h : (l ++ [i]).Nodup) : i ∉ l := by
  intro hi
  have := (List.nodup_append.mp h).2.2 i hi i (by simp)
  exact this rfl

/-! ### what a successful creation "after" tells -/

theorem plAdd_ok {d : Db} {name : Bytes} {k b : Int} {out : Out} (h : (plAdd d name k b).2 = .ok out) :
    out = some (d.plSeq + 1) := by
  cases hv : Forest.validName name with
  | true => rw [plAdd_valid d k b hv] at h; simp at h; exact h.symm
  | false => rw [plAdd_invalid d k b hv] at h; simp at h

theorem step_createRoot_ok {d : Db} {n : Bytes} {out : Out} (h : (step d (.createRoot n)).2 = .ok out) :
    out = some (d.plSeq + 1) := by
  simp only [step] at h
  split at h
  · simp at h
  · exact plAdd_ok h

theorem step_createSub_ok {d : Db} {p : Int} {n : Bytes} {out : Out} (h : (step d (.createSub p n)).2 = .ok out) :
    out = some (d.plSeq + 1) := by
  simp only [step] at h
  split at h
  · simp at h
  · split at h
    · simp at h
    · exact plAdd_ok h

theorem step_createRootAfter_ok {d : Db} {n : Bytes} {a : Int} {out : Out}
    (h : (step d (.createRootAfter n a)).2 = .ok out) :
    out = some (d.plSeq + 1) ∧ ∃ row, get d.pl a = some row ∧ row.key = 0 := by
  simp only [step] at h
  split at h
  · simp at h
  · cases hg : get d.pl a with
    | none => simp [hg] at h
    | some row =>
      simp only [hg] at h
      split at h
      · simp at h
      · rename_i hk
        exact ⟨plAdd_ok h, row, rfl, by simpa using hk⟩

theorem step_createSubAfter_ok {d : Db} {p : Int} {n : Bytes} {a : Int} {out : Out}
    (h : (step d (.createSubAfter p n a)).2 = .ok out) :
    out = some (d.plSeq + 1) ∧ ∃ row, get d.pl a = some row ∧ row.key = p := by
  simp only [step] at h
  split at h
  · simp at h
  · split at h
    · simp at h
    · cases hg : get d.pl a with
      | none => simp [hg] at h
      | some row =>
        simp only [hg] at h
        split at h
        · simp at h
        · rename_i hk
          exact ⟨plAdd_ok h, row, rfl, by simpa using hk⟩

theorem fresh_pl {S : Ord} {d : Db} (hI : ChInv S d) (k : Int) : d.plSeq + 1 ∉ S.kids k := by
  apply hI.rk.not_mem_of_fresh
  intro h; have := hI.plSeq _ h; omega

theorem mem_kids_of_get {S : Ord} {d : Db} (hI : ChInv S d) {a : Int} {row : Row Bytes} (hg : get d.pl a = some row) :
    a ∈ S.kids row.key := by
  obtain ⟨hr, hid⟩ := get_some hg
  exact hid ▸ hI.rk.mem row hr

/-- Sibling listings: each changes as prescribed. -/
theorem kids_change {S : Ord} {d : Db} (hI : ChInv S d) (op : Op) (k : Int) :
    (kidsChange d op k).holds (S.kids k) ((ordStep S d op).kids k) = true := by
  unfold kidsChange ordStep
  cases hres : (step d op).2 with
  | throw e => exact holds_same _
  | ub u => exact holds_same _
  | ok out =>
    simp only
    cases op with
    | createRoot n =>
      have := step_createRoot_ok hres
      subst this
      simp only [kidsChangeOk, ordOk]
      by_cases hk : k = 0
      · subst hk; rw [if_pos rfl, setKey_same]; exact holds_inserted (fresh_pl hI 0)
      · rw [if_neg hk, setKey_other _ _ hk]; exact holds_same _
    | createRootAfter n a =>
      obtain ⟨h1, row, hg, hrk⟩ := step_createRootAfter_ok hres
      subst h1
      simp only [kidsChangeOk, ordOk]
      by_cases hk : k = 0
      · subst hk; rw [if_pos rfl, setKey_same]
        exact holds_insertedAfter (fresh_pl hI 0) (hrk ▸ mem_kids_of_get hI hg)
      · rw [if_neg hk, setKey_other _ _ hk]; exact holds_same _
    | createSub p n =>
      have := step_createSub_ok hres
      subst this
      simp only [kidsChangeOk, ordOk]
      by_cases hk : k = p
      · subst hk; rw [if_pos rfl, setKey_same]; exact holds_inserted (fresh_pl hI k)
      · rw [if_neg hk, setKey_other _ _ hk]; exact holds_same _
    | createSubAfter p n a =>
      obtain ⟨h1, row, hg, hrk⟩ := step_createSubAfter_ok hres
      subst h1
      simp only [kidsChangeOk, ordOk]
      by_cases hk : k = p
      · subst hk; rw [if_pos rfl, setKey_same]
        exact holds_insertedAfter (fresh_pl hI k) (hrk ▸ mem_kids_of_get hI hg)
      · rw [if_neg hk, setKey_other _ _ hk]; exact holds_same _
    | rename c n => cases out <;> exact holds_same _
    | setParent c p =>
      simp only [kidsChangeOk, ordOk]
      cases hg : get d.pl c with
      | none => exact holds_same _
      | some row =>
        simp only
        by_cases hkk : (row.key != keyOf p) = true
        · rw [if_pos hkk, if_pos hkk]
          have hne : keyOf p ≠ row.key := by intro e; simp [e] at hkk
          simp only [moveKid]
          by_cases hk : k = keyOf p
          · subst hk
            rw [if_pos rfl, setKey_same, setKey_other _ _ hne]
            apply holds_inserted
            intro hc
            exact hne (hI.rk.key_unique hc (mem_kids_of_get hI hg))
          · rw [if_neg hk, setKey_other _ _ hk]
            by_cases hk2 : k = row.key
            · subst hk2; rw [if_pos rfl, setKey_same]; exact holds_erased _ _
            · rw [if_neg hk2, setKey_other _ _ hk2]; exact holds_same _
        · rw [if_neg hkk, if_neg hkk]; exact holds_same _
    | removeCrate c =>
      simp only [kidsChangeOk, ordOk]
      cases hg : get d.pl c with
      | none => exact holds_same _
      | some row =>
        simp only [clearKeys]
        by_cases hk : (c :: descendantIds d.pl c).contains k = true
        · rw [if_pos hk, if_pos hk]; exact holds_dropped _
        · rw [if_neg hk, if_neg hk]
          by_cases hk2 : k = row.key
          · subst hk2; rw [if_pos rfl, setKey_same]; exact holds_erased _ _
          · rw [if_neg hk2, setKey_other _ _ hk2]; exact holds_same _
    | createTrack => cases out <;> exact holds_same _
    | removeTrack t => cases out <;> exact holds_same _
    | addTrack c t =>
      cases out with
      | none => exact holds_same _
      | some e => simp only [kidsChangeOk, ordOk]; split <;> exact holds_same _
    | removeTrackFrom c t =>
      simp only [kidsChangeOk, ordOk]
      cases peGet d c t <;> exact holds_same _
    | clearTracks c => cases out <;> exact holds_same _
    | peAddBack l t u f =>
      cases out with
      | none => exact holds_same _
      | some e => simp only [kidsChangeOk, ordOk]; split <;> exact holds_same _
    | peRemove l e => cases out <;> exact holds_same _
    | peClear l => cases out <;> exact holds_same _

theorem fresh_pe {S : Ord} {d : Db} (hI : ChInv S d) (k : Int) : d.peSeq + 1 ∉ S.ents k := by
  apply hI.re.not_mem_of_fresh
  intro h; have := hI.peSeq _ h; omega

theorem peAddBack_new {d : Db} {l t u : Int} {f : Bool} {out : Out} (hn : peFind d l t u = none)
    (h : (peAddBack d l t u f).2 = .ok out) : out = some (d.peSeq + 1) := by
  unfold peAddBack at h
  rw [hn] at h
  simp at h
  exact h.symm

theorem step_addTrack_ok {d : Db} {c t : Int} {out : Out} (h : (step d (.addTrack c t)).2 = .ok out) :
    (peAddBack d c t 0 false).2 = .ok out := by
  simp only [step] at h
  split at h
  · simp at h
  · split at h
    · simp at h
    · exact h

/-- Entry listings: each changes as prescribed. -/
theorem ents_change {S : Ord} {d : Db} (hI : ChInv S d) (op : Op) (l : Int) :
    (entsChange d op l).holds (S.ents l) ((ordStep S d op).ents l) = true := by
  unfold entsChange ordStep
  cases hres : (step d op).2 with
  | throw e => exact holds_same _
  | ub u => exact holds_same _
  | ok out =>
    simp only
    cases op with
    | createRoot n => cases out <;> exact holds_same _
    | createRootAfter n a => cases out <;> exact holds_same _
    | createSub p n => cases out <;> exact holds_same _
    | createSubAfter p n a => cases out <;> exact holds_same _
    | rename c n => cases out <;> exact holds_same _
    | setParent c p =>
      simp only [entsChangeOk, ordOk]
      cases get d.pl c with
      | none => exact holds_same _
      | some row => simp only; split <;> exact holds_same _
    | removeCrate c =>
      simp only [entsChangeOk, ordOk]
      cases hg : get d.pl c with
      | none =>
        have : plExists d c = false := by
          cases he : plExists d c with
          | false => rfl
          | true => exact absurd (plExists_iff.mp he) (get_none hg)
        simp only [this, Bool.false_and, Bool.false_eq_true, if_false]
        exact holds_same _
      | some row =>
        have : plExists d c = true := plExists_iff.mpr (get_isSome_iff.mp (by rw [hg]; rfl))
        simp only [this, Bool.true_and, clearKeys]
        split
        · exact holds_dropped _
        · exact holds_same _
    | createTrack => cases out <;> exact holds_same _
    | removeTrack t =>
      simp only [entsChangeOk, ordOk]
      split
      · cases peGet d l t with
        | none => exact holds_same _
        | some e => exact holds_erased _ _
      · exact holds_same _
    | addTrack c t =>
      cases out with
      | none => exact holds_same _
      | some e =>
        simp only [entsChangeOk, ordOk]
        cases hg : peFind d c t 0 with
        | some e0 => simp only [Option.isNone_some, Bool.and_false, Bool.false_eq_true, if_false]; exact holds_same _
        | none =>
          have he := peAddBack_new hg (step_addTrack_ok hres)
          simp only [Option.some.injEq] at he
          subst he
          simp only [Option.isNone_none, Bool.and_true, if_true]
          by_cases hl : l = c
          · subst hl
            simp only [decide_true, if_true, setKey_same]
            exact holds_appended (fresh_pe hI l)
          · simp only [hl, decide_false, Bool.false_eq_true, if_false, setKey_other _ _ hl]
            exact holds_same _
    | removeTrackFrom c t =>
      simp only [entsChangeOk, ordOk]
      cases peGet d c t with
      | none => exact holds_same _
      | some e =>
        simp only
        by_cases hl : l = c
        · subst hl; rw [if_pos rfl, setKey_same]; exact holds_erased _ _
        · rw [if_neg hl, setKey_other _ _ hl]; exact holds_same _
    | clearTracks c =>
      simp only [entsChangeOk, ordOk]
      by_cases hl : l = c
      · subst hl; rw [if_pos rfl, setKey_same]; exact holds_dropped _
      · rw [if_neg hl, setKey_other _ _ hl]; exact holds_same _
    | peAddBack c t u f =>
      cases out with
      | none => exact holds_same _
      | some e =>
        simp only [entsChangeOk, ordOk]
        cases hg : peFind d c t u with
        | some e0 => simp only [Option.isNone_some, Bool.and_false, Bool.false_eq_true, if_false]; exact holds_same _
        | none =>
          have he := peAddBack_new hg (f := f) hres
          simp only [Option.some.injEq] at he
          subst he
          simp only [Option.isNone_none, Bool.and_true, if_true]
          by_cases hl : l = c
          · subst hl
            simp only [decide_true, if_true, setKey_same]
            exact holds_appended (fresh_pe hI l)
          · simp only [hl, decide_false, Bool.false_eq_true, if_false, setKey_other _ _ hl]
            exact holds_same _
    | peRemove c e =>
      simp only [entsChangeOk, ordOk]
      by_cases hl : l = c
      · subst hl; rw [if_pos rfl, setKey_same]; exact holds_erased _ _
      · rw [if_neg hl, setKey_other _ _ hl]; exact holds_same _
    | peClear c =>
      simp only [entsChangeOk, ordOk]
      by_cases hl : l = c
      · subst hl; rw [if_pos rfl, setKey_same]; exact holds_dropped _
      · rw [if_neg hl, setKey_other _ _ hl]; exact holds_same _

end EngineModel.Db.V2
