/-
C09: across every operation each ordered listing changes exactly as the property
prescribes (`Ordered.Change.holds`, the predicate the oracle of the tie evaluates on
the real library's listings): insert-after position, a moved crate among its new
siblings, removal keeps the rest in order, every other listing untouched.
-/
import Proofs.V2Rep

set_option linter.dupNamespace false
set_option linter.unusedSimpArgs false

namespace EngineModel.Db.V2

open EngineModel.Db.Chain EngineModel.Spec EngineModel.Spec.Ordered EngineModel.ListAux

theorem holds_same (l : List Int) : Change.same.holds l l = true := by simp [Change.holds]

theorem erase_append_self {l : List Int} {i : Int} (h : i ∉ l) : (l ++ [i]).erase i = l := by
  rw [List.erase_append_right _ h]; simp

theorem holds_inserted {l : List Int} {i : Int} (h : i ∉ l) : (Change.inserted i).holds l (l ++ [i]) = true := by
  simp [Change.holds, h, erase_append_self h]

theorem holds_insertedAfter {l : List Int} {a i : Int} (hi : i ∉ l) (ha : a ∈ l) :
    (Change.insertedAfter a i).holds l (Ordered.insertAfter a i l) = true := by
  simp [Change.holds, hi, ha]

theorem holds_erased (l : List Int) (c : Int) : (Change.erased c).holds l (l.erase c) = true := by
  simp [Change.holds]

theorem holds_dropped (l : List Int) : Change.dropped.holds l [] = true := by simp [Change.holds]

theorem holds_appended {l : List Int} {e : Int} (h : e ∉ l) : (Change.appended e).holds l (l ++ [e]) = true := by
  simp [Change.holds, h]

theorem not_mem_of_nodup_append {l : List Int} {i : Int} (h : (l ++ [i]).Nodup) : i ∉ l := by
  intro hi
  have := (List.nodup_append.mp h).2.2 i hi i (by simp)
  exact this rfl

/-! ### what a successful creation "after" tells -/

theorem plAdd_ok {d : Db} {name : Bytes} {k b : Int} {out : Out} (h : (plAdd d name k b).2 = .ok out) :
    out = some (d.plSeq + 1) := by
  cases hv : Forest.validName name with
  | true => rw [plAdd_valid d k b hv] at h; simp at h; exact h.symm
  | false => rw [plAdd_invalid d k b hv] at h; simp at h

theorem step_createRoot_ok {d : Db} {n : Bytes} {out : Out} (h : (step d (.createRoot n)).2 = .ok out) :
    out = some (d.plSeq + 1) := by
  simp only [step] at h
  split at h
  · simp at h
  · exact plAdd_ok h

theorem step_createSub_ok {d : Db} {p : Int} {n : Bytes} {out : Out} (h : (step d (.createSub p n)).2 = .ok out) :
    out = some (d.plSeq + 1) := by
  simp only [step] at h
  split at h
  · simp at h
  · split at h
    · simp at h
    · exact plAdd_ok h

theorem step_createRootAfter_ok {d : Db} {n : Bytes} {a : Int} {out : Out}
    (h : (step d (.createRootAfter n a)).2 = .ok out) :
    out = some (d.plSeq + 1) ∧ ∃ row, get d.pl a = some row ∧ row.key = 0 := by
  simp only [step] at h
  split at h
  · simp at h
  · cases hg : get d.pl a with
    | none => simp [hg] at h
    | some row =>
      simp only [hg] at h
      split at h
      · simp at h
      · rename_i hk
        exact ⟨plAdd_ok h, row, rfl, by simpa using hk⟩

theorem step_createSubAfter_ok {d : Db} {p : Int} {n : Bytes} {a : Int} {out : Out}
    (h : (step d (.createSubAfter p n a)).2 = .ok out) :
    out = some (d.plSeq + 1) ∧ ∃ row, get d.pl a = some row ∧ row.key = p := by
  simp only [step] at h
  split at h
  · simp at h
  · split at h
    · simp at h
    · cases hg : get d.pl a with
      | none => simp [hg] at h
      | some row =>
        simp only [hg] at h
        split at h
        · simp at h
        · rename_i hk
          exact ⟨plAdd_ok h, row, rfl, by simpa using hk⟩

theorem fresh_pl {S : Ord} {d : Db} (hI : ChInv S d) (k : Int) : d.plSeq + 1 ∉ S.kids k := by
  apply hI.rk.not_mem_of_fresh
  intro h; have := hI.plSeq _ h; omega

theorem mem_kids_of_get {S : Ord} {d : Db} (hI : ChInv S d) {a : Int} {row : Row Bytes} (hg : get d.pl a = some row) :
    a ∈ S.kids row.key := by
  obtain ⟨hr, hid⟩ := get_some hg
  exact hid ▸ hI.rk.mem row hr

theorem row_of_live {d : Db} {c : Int} (h : (absF d).live c = true) : ∃ row, get d.pl c = some row := by
  cases hg : get d.pl c with
  | none => rw [live_false_of_get hg] at h; simp at h
  | some row => exact ⟨row, rfl⟩

/-- Sibling listings: each changes as prescribed (a crate created without a position, or moved to a new parent,
is the LAST of its new siblings). -/
theorem kids_change {S : Ord} {d : Db} (hI : ChInv S d) (op : Op) (k : Int) :
    (kidsChange (absF d) op (step d op).2 k).holds (S.kids k) ((ordStep S d op).kids k) = true := by
  unfold kidsChange ordStep ordNext
  cases hres : (step d op).2 with
  | throw e => exact holds_same _
  | ub u => exact holds_same _
  | ok out =>
    simp only
    cases op with
    | createRoot n =>
      have := step_createRoot_ok hres
      subst this
      simp only [kidsChangeOk, ordOk]
      by_cases hk : k = 0
      · subst hk; rw [if_pos rfl, setKey_same]; exact holds_appended (fresh_pl hI 0)
      · rw [if_neg hk, setKey_other _ _ hk]; exact holds_same _
    | createRootAfter n a =>
      obtain ⟨h1, row, hg, hrk⟩ := step_createRootAfter_ok hres
      subst h1
      simp only [kidsChangeOk, ordOk]
      by_cases hk : k = 0
      · subst hk; rw [if_pos rfl, setKey_same]
        exact holds_insertedAfter (fresh_pl hI 0) (hrk ▸ mem_kids_of_get hI hg)
      · rw [if_neg hk, setKey_other _ _ hk]; exact holds_same _
    | createSub p n =>
      have := step_createSub_ok hres
      subst this
      simp only [kidsChangeOk, ordOk]
      by_cases hk : k = p
      · subst hk; rw [if_pos rfl, setKey_same]; exact holds_appended (fresh_pl hI k)
      · rw [if_neg hk, setKey_other _ _ hk]; exact holds_same _
    | createSubAfter p n a =>
      obtain ⟨h1, row, hg, hrk⟩ := step_createSubAfter_ok hres
      subst h1
      simp only [kidsChangeOk, ordOk]
      by_cases hk : k = p
      · subst hk; rw [if_pos rfl, setKey_same]
        exact holds_insertedAfter (fresh_pl hI k) (hrk ▸ mem_kids_of_get hI hg)
      · rw [if_neg hk, setKey_other _ _ hk]; exact holds_same _
    | rename c n => cases out <;> exact holds_same _
    | setParent c p =>
      simp only [kidsChangeOk, ordOk]
      by_cases hcond : ((absF d).live c && keyOf ((absF d).parentOf c) != keyOf p) = true
      · rw [if_pos hcond, if_pos hcond]
        simp only [Bool.and_eq_true] at hcond
        obtain ⟨row, hg⟩ := row_of_live hcond.1
        have hpk : keyOf ((absF d).parentOf c) = row.key := by rw [absF_parentOf_get hg, keyOf_parentOpt]
        rw [hpk] at hcond ⊢
        have hne : keyOf p ≠ row.key := by intro e; simp [e] at hcond
        simp only [moveKid]
        by_cases hk : k = keyOf p
        · subst hk
          rw [if_pos rfl, setKey_same, setKey_other _ _ hne]
          apply holds_appended
          intro hc
          exact hne (hI.rk.key_unique hc (mem_kids_of_get hI hg))
        · rw [if_neg hk, setKey_other _ _ hk]
          by_cases hk2 : k = row.key
          · subst hk2; rw [if_pos rfl, setKey_same]; exact holds_erased _ _
          · rw [if_neg hk2, setKey_other _ _ hk2]; exact holds_same _
      · rw [if_neg hcond, if_neg hcond]; exact holds_same _
    | removeCrate c =>
      simp only [kidsChangeOk, ordOk]
      by_cases hl : (absF d).live c = true
      · rw [if_pos hl, if_pos hl]
        simp only [clearKeys]
        by_cases hk : (c :: (absF d).descendants c).contains k = true
        · rw [if_pos hk, if_pos hk]; exact holds_dropped _
        · rw [if_neg hk, if_neg hk]
          by_cases hk2 : k = keyOf ((absF d).parentOf c)
          · subst hk2; rw [if_pos rfl, setKey_same]; exact holds_erased _ _
          · rw [if_neg hk2, setKey_other _ _ hk2]; exact holds_same _
      · rw [if_neg hl, if_neg hl]; exact holds_same _
    | createTrack => cases out <;> exact holds_same _
    | removeTrack t => cases out <;> exact holds_same _
    | addTrack c t =>
      cases out with
      | none => exact holds_same _
      | some e => simp only [kidsChangeOk, ordOk]; split <;> exact holds_same _
    | removeTrackFrom c t =>
      simp only [kidsChangeOk, ordOk]
      cases S.find c t 0 <;> exact holds_same _
    | clearTracks c => cases out <;> exact holds_same _
    | peAddBack l t u f =>
      cases out with
      | none => exact holds_same _
      | some e => simp only [kidsChangeOk, ordOk]; split <;> exact holds_same _
    | peRemove l e => cases out <;> exact holds_same _
    | peClear l => cases out <;> exact holds_same _

theorem fresh_pe {S : Ord} {d : Db} (hI : ChInv S d) (k : Int) : d.peSeq + 1 ∉ S.entIds k := by
  apply hI.re.not_mem_of_fresh
  intro h; have := hI.peSeq _ h; omega

theorem peAddBack_new {d : Db} {l t u : Int} {f : Bool} {out : Out} (hn : peFind d l t u = none)
    (h : (peAddBack d l t u f).2 = .ok out) : out = some (d.peSeq + 1) := by
  unfold peAddBack at h
  rw [hn] at h
  simp at h
  exact h.symm

theorem step_addTrack_ok {d : Db} {c t : Int} {out : Out} (h : (step d (.addTrack c t)).2 = .ok out) :
    (peAddBack d c t 0 false).2 = .ok out := by
  simp only [step] at h
  split at h
  · simp at h
  · split at h
    · simp at h
    · exact h

theorem peFind_none_of_find {S : Ord} {d : Db} (hI : ChInv S d) {l t u : Int} (h : S.find l t u = none) :
    peFind d l t u = none := by
  cases hf : peFind d l t u with
  | none => rfl
  | some e => rw [hI.find_some hf] at h; simp at h

theorem entIds_setKeyE_at (E : Int → List (Int × Ent)) (c : Int) (L : List (Int × Ent)) (l : Int) :
    (setKeyE E c L l).map (·.1) = if l = c then L.map (·.1) else (E l).map (·.1) := by
  by_cases h : l = c
  · subst h; simp [setKeyE]
  · simp [setKeyE, h]

/-- Entry listings (entity ids in order): each changes as prescribed. -/
theorem ents_change {S : Ord} {d : Db} (hI : ChInv S d) (op : Op) (l : Int) :
    (entsChange S (absF d) op (step d op).2 l).holds (S.entIds l) ((ordStep S d op).entIds l) = true := by
  unfold entsChange ordStep ordNext
  cases hres : (step d op).2 with
  | throw e => exact holds_same _
  | ub u => exact holds_same _
  | ok out =>
    simp only
    cases op with
    | createRoot n => cases out <;> exact holds_same _
    | createRootAfter n a => cases out <;> exact holds_same _
    | createSub p n => cases out <;> exact holds_same _
    | createSubAfter p n a => cases out <;> exact holds_same _
    | rename c n => cases out <;> exact holds_same _
    | setParent c p =>
      simp only [entsChangeOk, ordOk]
      split <;> exact holds_same _
    | removeCrate c =>
      simp only [entsChangeOk, ordOk]
      by_cases hl : (absF d).live c = true
      · rw [if_pos hl]
        simp only [hl, Bool.true_and, Ord.entIds, clearKeysE]
        split
        · exact holds_dropped _
        · exact holds_same _
      · rw [if_neg hl]
        have : (absF d).live c = false := by simpa using hl
        simp only [this, Bool.false_and, Bool.false_eq_true, if_false]
        exact holds_same _
    | createTrack => cases out <;> exact holds_same _
    | removeTrack t =>
      simp only [entsChangeOk, ordOk, Ord.entIds]
      split
      · cases hf : S.find l t 0 with
        | none => exact holds_same _
        | some p =>
          simp only
          rw [map_fst_dropEnt (hI.re.nodup l)]
          exact holds_erased _ _
      · exact holds_same _
    | addTrack c t =>
      cases out with
      | none => exact holds_same _
      | some e =>
        simp only [entsChangeOk, ordOk]
        cases hg : S.find c t 0 with
        | some e0 => simp only [Option.isNone_some, Bool.and_false, Bool.false_eq_true, if_false]; exact holds_same _
        | none =>
          have he := peAddBack_new (peFind_none_of_find hI hg) (step_addTrack_ok hres)
          simp only [Option.some.injEq] at he
          subst he
          simp only [Option.isNone_none, Bool.and_true, if_true, Ord.entIds, entIds_setKeyE_at]
          by_cases hl : l = c
          · subst hl
            simp only [decide_true, if_true, List.map_append, List.map_cons, List.map_nil]
            exact holds_appended (fresh_pe hI l)
          · simp only [hl, decide_false, Bool.false_eq_true, if_false]
            exact holds_same _
    | removeTrackFrom c t =>
      simp only [entsChangeOk, ordOk]
      cases hf : S.find c t 0 with
      | none => exact holds_same _
      | some p =>
        simp only [Ord.entIds, entIds_setKeyE_at]
        by_cases hl : l = c
        · subst hl; rw [if_pos rfl, if_pos rfl, map_fst_dropEnt (hI.re.nodup l)]; exact holds_erased _ _
        · rw [if_neg hl, if_neg hl]; exact holds_same _
    | clearTracks c =>
      simp only [entsChangeOk, ordOk, Ord.entIds, entIds_setKeyE_at]
      by_cases hl : l = c
      · subst hl; rw [if_pos rfl, if_pos rfl]; exact holds_dropped _
      · rw [if_neg hl, if_neg hl]; exact holds_same _
    | peAddBack c t u f =>
      cases out with
      | none => exact holds_same _
      | some e =>
        simp only [entsChangeOk, ordOk]
        cases hg : S.find c t u with
        | some e0 => simp only [Option.isNone_some, Bool.and_false, Bool.false_eq_true, if_false]; exact holds_same _
        | none =>
          have he := peAddBack_new (peFind_none_of_find hI hg) (f := f) hres
          simp only [Option.some.injEq] at he
          subst he
          simp only [Option.isNone_none, Bool.and_true, if_true, Ord.entIds, entIds_setKeyE_at]
          by_cases hl : l = c
          · subst hl
            simp only [decide_true, if_true, List.map_append, List.map_cons, List.map_nil]
            exact holds_appended (fresh_pe hI l)
          · simp only [hl, decide_false, Bool.false_eq_true, if_false]
            exact holds_same _
    | peRemove c e =>
      simp only [entsChangeOk, ordOk, Ord.entIds, entIds_setKeyE_at]
      by_cases hl : l = c
      · subst hl; rw [if_pos rfl, if_pos rfl, map_fst_dropEnt (hI.re.nodup l)]; exact holds_erased _ _
      · rw [if_neg hl, if_neg hl]; exact holds_same _
    | peClear c =>
      simp only [entsChangeOk, ordOk, Ord.entIds, entIds_setKeyE_at]
      by_cases hl : l = c
      · subst hl; rw [if_pos rfl, if_pos rfl]; exact holds_dropped _
      · rw [if_neg hl, if_neg hl]; exact holds_same _

end EngineModel.Db.V2
