/-
Transfer of the C02 / C03 / C05 statements about the schema-1.x payload codecs from the
hand model `Impl.V1.*` to the model regenerated from the C++ sources (`Gen.ImplV1.*`,
tools/tr_blobs_v1.py), through the equalities of Proofs/ImplV1Gen.lean:

* `gen_v1_*_spec`  (C02): the regenerated decoder returns exactly the verdict of the independent
  Spec decoder of Format/V1.lean (`ofOpt`: the Spec's value, or `invalid_argument`) — so the
  `runtime_error` "internal error" branches of the C++ are unreachable in the regenerated code too;
* `gen_v1_*_safe`  (C05): no byte string makes the regenerated decoder produce an undefined-behaviour
  outcome — including the checked `int64_t` / `int` arithmetic, `ptr += n`, `resize` / `reserve`;
* `gen_v1_track_readback`, `gen_v1_track_total` (C03): on the *regenerated pair* `track_data::encode` /
  `decode`, decode (encode v) is the format's reading `normTrack v` of `v` (identity when no optional
  field holds zero), and the encoder never fails.

The size hypotheses are those of the equalities (see Proofs/ImplV1Gen.lean).
-/
import Proofs.ImplV1Gen
import Proofs.ImplV1
import Proofs.ImplV1Lists
import Proofs.ImplV1Roundtrip

namespace EngineModel.Gen.ImplV1
open Codec Cur EngineModel.V1Proofs

theorem gen_v1_track_spec (bs : Bytes) : decodeTrack bs = ofOpt (V1.decodeTrack bs) := by
  rw [decodeTrack_eq, V1Proofs.decodeTrack_eq]
theorem gen_v1_ovw_spec_partial (bs : Bytes) (hb : bs.length < 4611686018427387904) :
    decodeOvw bs = ofOpt (V1.decodeOvw bs) := by
  rw [decodeOvw_eq_partial bs hb, V1Proofs.decodeOvw_eq bs (by unfold maxCount; omega)]
theorem gen_v1_hires_spec_partial (bs : Bytes) (hb : bs.length < 9223372036854775808) :
    decodeHires bs = ofOpt (V1.decodeHires bs) := by
  rw [decodeHires_eq_partial bs hb, V1Proofs.decodeHires_eq bs (by unfold maxCount; omega)]
theorem gen_v1_cues_spec_partial (bs : Bytes) (hb : bs.length < 1152921504606846976) :
    decodeCues bs = ofOpt (V1.decodeCues bs) := by
  rw [decodeCues_eq_partial bs hb, V1Proofs.decodeCues_eq]
theorem gen_v1_loops_spec_partial (bs : Bytes) (hb : bs.length < 2305843009213693952) :
    decodeLoops bs = ofOpt (V1.decodeLoops bs) := by
  rw [decodeLoops_eq_partial bs hb, V1Proofs.decodeLoops_eq]

theorem gen_v1_track_safe (bs : Bytes) (u : Ub) : decodeTrack bs ≠ .ub u := by
  rw [gen_v1_track_spec]; exact ofOpt_never_ub _ _
theorem gen_v1_ovw_safe_partial (bs : Bytes) (hb : bs.length < 4611686018427387904) (u : Ub) :
    decodeOvw bs ≠ .ub u := by
  rw [gen_v1_ovw_spec_partial bs hb]; exact ofOpt_never_ub _ _
theorem gen_v1_hires_safe_partial (bs : Bytes) (hb : bs.length < 9223372036854775808) (u : Ub) :
    decodeHires bs ≠ .ub u := by
  rw [gen_v1_hires_spec_partial bs hb]; exact ofOpt_never_ub _ _
theorem gen_v1_cues_safe_partial (bs : Bytes) (hb : bs.length < 1152921504606846976) (u : Ub) :
    decodeCues bs ≠ .ub u := by
  rw [gen_v1_cues_spec_partial bs hb]; exact ofOpt_never_ub _ _
theorem gen_v1_loops_safe_partial (bs : Bytes) (hb : bs.length < 2305843009213693952) (u : Ub) :
    decodeLoops bs ≠ .ub u := by
  rw [gen_v1_loops_spec_partial bs hb]; exact ofOpt_never_ub _ _

/-- C03 on the regenerated pair of `track_data`: what decode (encode v) is, for every value. -/
theorem gen_v1_track_readback (v : Impl.V1.Track) :
    ∃ b, encodeTrack v = .ok b ∧ decodeTrack b = .ok (normTrack v) := by
  refine ⟨_, by rw [encodeTrack_eq]; exact encodeTrack_ok v, ?_⟩
  rw [gen_v1_track_spec, spec_track_roundtrip]; rfl

theorem gen_v1_track_total (v : Impl.V1.Track) : ∃ b, encodeTrack v = .ok b :=
  ⟨_, by rw [encodeTrack_eq]; exact encodeTrack_ok v⟩

/-! ### non-vacuity of the size hypotheses -/

example : (List.replicate 27 (0 : UInt8)).length < 4611686018427387904 := by decide
example : decodeOvw (List.replicate 27 (0 : UInt8)) = .ok ⟨0, []⟩ := by decide
example : decodeHires (List.replicate 30 (0 : UInt8)) = .ok ⟨0, []⟩ := by decide
example : decodeLoops [0, 0, 0, 0, 0, 0, 0, 0] = .ok [] := by decide
example : decodeCues (List.replicate 25 (0 : UInt8)) = .ok ⟨[], 0, 0⟩ := by decide

end EngineModel.Gen.ImplV1
