/-
The link between the two Spec normalisations (C01 `normFields` on a snapshot, C06 `normField` on
one setter argument) and the exact difference between the acceptance of the two entry points.
-/
import EngineModel.TracksV1.SpecLink
import Proofs.TracksV1RoundTrip
import Proofs.TracksV1Lens

namespace EngineModel.TracksV1

open Impl.V1 (GMarker HotCue LoopV Entry Wave Beat Cues Loops)

set_option linter.unusedSimpArgs false
set_option linter.unusedVariables false

theorem slotOf_le (i : UInt32) (n m k : Nat) (h : Spec.slotOf i n = some k) (hnm : n ≤ m) : Spec.slotOf i m = some k := by
  unfold Spec.slotOf at h ⊢
  simp only at h ⊢
  split at h
  · rename_i hh
    have : 0 ≤ Prim.s32 i ∧ Prim.s32 i < (m : Int) := ⟨hh.1, by omega⟩
    rw [if_pos this]; exact h
  · cases h

theorem slotOf_inRange (i : UInt32) (n k : Nat) (h : Spec.slotOf i n = some k) (hn : n ≤ 8) : Spec.slotInRange i = true :=
  slotOf_8 i k (slotOf_le i n 8 k h hn)

theorem pad8_map_getElem? {α} (g : Option α → Option α) (l : List (Option α)) (k : Nat) (q : Option α)
    (h : l[k]? = some q) : (Spec.pad8 (l.map g))[k]? = some (g q) := by
  unfold Spec.pad8
  have hk : k < l.length := by
    rcases Nat.lt_or_ge k l.length with h' | h'
    · exact h'
    · rw [List.getElem?_eq_none_iff.mpr h'] at h; cases h
  rw [List.getElem?_append_left (by rw [List.length_map]; exact hk), List.getElem?_map, h]
  rfl

/-- **The link.**  For a snapshot the snapshot path accepts, every value it holds — each of the 24 fields
that have a setter, and every cue / loop slot — is acceptable to that field's setter Spec, and the
setter's normalisation of it is what the snapshot normalisation puts into that field. -/
theorem normField_fieldOf (s : Schema) (x : Snap) (ha : Spec.accepted x = true) (f : Field) (v : f.ty)
    (hv : Spec.fieldOf x f = some v) :
    ∃ w, Spec.normField f v = some w ∧ Spec.fieldOf (Spec.normFields s x) f = some w := by
  obtain ⟨⟨path, hpath⟩, hc8, hcok, hl8, hlok, hgrid, _⟩ := accepted_unpack x ha
  cases f with
  | album | artist | comment | composer | genre | publisher | title | averageLoudness | mainCue | sampleRate | bpm
  | bitrate | key | trackNumber | year | rating | duration | lastPlayedAt | sampleCount | waveform =>
    simp only [Spec.fieldOf] at hv
    cases hv
    exact ⟨_, rfl, rfl⟩
  | relativePath =>
    simp only [Spec.fieldOf] at hv
    exact ⟨v, rfl, hv⟩
  | beatgrid =>
    simp only [Spec.fieldOf] at hv
    cases hv
    exact ⟨x.beatgrid, by simp [Spec.normField, hgrid], rfl⟩
  | hotCues =>
    simp only [Spec.fieldOf] at hv
    cases hv
    exact ⟨Spec.pad8 (x.hotCues.map Spec.normCue), by simp [Spec.normField, hc8, hcok], rfl⟩
  | loops =>
    simp only [Spec.fieldOf] at hv
    cases hv
    exact ⟨Spec.pad8 (x.loops.map Spec.normLoop), by simp [Spec.normField, hl8, hlok], rfl⟩
  | hotCueAt i =>
    simp only [Spec.fieldOf] at hv
    cases hs : Spec.slotOf i x.hotCues.length with
    | none => rw [hs] at hv; cases hv
    | some k =>
      rw [hs] at hv
      simp only [Option.bind_some] at hv
      have hin := slotOf_inRange i _ k hs hc8
      have hmem : v ∈ x.hotCues := List.mem_of_getElem? hv
      have hok : Spec.cueOk v = true := List.all_eq_true.mp hcok v hmem
      refine ⟨Spec.normCue v, by simp [Spec.normField, hin, hok], ?_⟩
      simp only [Spec.fieldOf, Spec.normFields]
      have hlen : (Spec.pad8 (x.hotCues.map Spec.normCue)).length = 8 :=
        Spec.pad8_length _ (by rw [List.length_map]; exact hc8)
      rw [hlen, slotOf_le i _ 8 k hs hc8]
      simp only [Option.bind_some]
      exact pad8_map_getElem? Spec.normCue _ k v hv
  | loopAt i =>
    simp only [Spec.fieldOf] at hv
    cases hs : Spec.slotOf i x.loops.length with
    | none => rw [hs] at hv; cases hv
    | some k =>
      rw [hs] at hv
      simp only [Option.bind_some] at hv
      have hin := slotOf_inRange i _ k hs hl8
      have hmem : v ∈ x.loops := List.mem_of_getElem? hv
      have hok : Spec.loopOk v = true := List.all_eq_true.mp hlok v hmem
      refine ⟨Spec.normLoop v, by simp [Spec.normField, hin, hok], ?_⟩
      simp only [Spec.fieldOf, Spec.normFields]
      have hlen : (Spec.pad8 (x.loops.map Spec.normLoop)).length = 8 :=
        Spec.pad8_length _ (by rw [List.length_map]; exact hl8)
      rw [hlen, slotOf_le i _ 8 k hs hl8]
      simp only [Option.bind_some]
      exact pad8_map_getElem? Spec.normLoop _ k v hv

theorem isSome_ite {α} (c : Prop) [Decidable c] (a : α) : (if c then some a else none).isSome = true ↔ c := by
  by_cases h : c <;> simp [h]

/-- **Acceptance of the two entry points compared.**  The snapshot path accepts a snapshot exactly when it
names a path, the three list-valued fields are acceptable to their setters' Spec, and the one cross-field
condition holds (a waveform needs sample count and rate); every other field is acceptable to both. -/
theorem accepted_iff_fields (x : Snap) :
    Spec.accepted x = true ↔
      (x.relativePath.isSome = true ∧ (Spec.normField .hotCues x.hotCues).isSome = true ∧
       (Spec.normField .loops x.loops).isSome = true ∧ (Spec.normField .beatgrid x.beatgrid).isSome = true ∧
       Spec.waveformStorable x = true) := by
  have e1 : (Spec.normField .hotCues x.hotCues).isSome = true ↔
      (decide (x.hotCues.length ≤ 8) && x.hotCues.all Spec.cueOk) = true := isSome_ite _ _
  have e2 : (Spec.normField .loops x.loops).isSome = true ↔
      (decide (x.loops.length ≤ 8) && x.loops.all Spec.loopOk) = true := isSome_ite _ _
  have e3 : (Spec.normField .beatgrid x.beatgrid).isSome = true ↔ Spec.gridOk x.beatgrid = true := isSome_ite _ _
  rw [e1, e2, e3]
  unfold Spec.accepted Spec.waveformStorable
  simp only [Bool.and_eq_true, decide_eq_true_eq]
  constructor
  · intro ⟨⟨⟨⟨⟨⟨h1, h2⟩, h3⟩, h4⟩, h5⟩, h6⟩, h7⟩
    exact ⟨h1, ⟨h2, h3⟩, ⟨h4, h5⟩, h6, h7⟩
  · intro ⟨h1, ⟨h2, h3⟩, ⟨h4, h5⟩, h6, h7⟩
    exact ⟨⟨⟨⟨⟨⟨h1, h2⟩, h3⟩, h4⟩, h5⟩, h6⟩, h7⟩

end EngineModel.TracksV1
