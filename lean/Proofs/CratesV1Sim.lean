/-
Per-operation simulation for the schema-1.x crate model: from a state satisfying
`Inv`, every operation (any arguments: removed handles, invalid names, cycles)
  * preserves `Inv`,
  * never has undefined behaviour,
  * has exactly the outcome class `Spec.Forest.step` allows on the abstract
    forest, and the abstract forest afterwards is the one the Spec prescribes
    (`forestNext`).
-/
import Proofs.CratesV1Query
import EngineModel.Api.CratesV1Sim

namespace EngineModel.Api.CratesV1
open EngineModel.Pure.Detect EngineModel.Spec

variable {db : Db}

/-- What one step establishes. -/
def StepOk (s : Schema) (db : Db) (op : Op) : Prop :=
  Inv (step s db op).1 ∧ (step s db op).2.isUb = false ∧
  forestNext (absForest db) op (step s db op).2 = some (absForest (step s db op).1)

theorem validName_cases (n : Name) : Forest.validName n = true ∨ Forest.validName n = false := by
  cases Forest.validName n <;> simp

theorem sim_createRoot (s : Schema) (h : Inv db) (n : Name) : StepOk s db (.createRoot n) := by
  unfold StepOk
  show Inv (createRootCrate s db n).1 ∧ (createRootCrate s db n).2.isUb = false ∧
    forestNext (absForest db) (.createRoot n) (createRootCrate s db n).2 = some (absForest (createRootCrate s db n).1)
  rcases validName_cases n with hv | hv
  · by_cases hd : RootNamed db n
    · rw [createRoot_dup s db hv hd]
      refine ⟨h, rfl, ?_⟩
      have := (nameTaken_root_iff h.toFInv n).mpr hd
      simp [forestNext, forestOp, Forest.step, hv, this, Forest.Verdict.next, Res.isOk]
    · rw [createRoot_ok s db hv hd]
      refine ⟨inv_createRoot s h hv, rfl, ?_⟩
      have : (absForest db).nameTaken none n = false := by
        rw [← Bool.not_eq_true, nameTaken_root_iff h.toFInv]; exact hd
      simp [forestNext, forestOp, Forest.step, hv, this, Forest.Verdict.next, Res.isOk, outId,
        abs_afterCreateRoot s h.toFInv n]
  · rw [createRoot_invalid s db hv]
    refine ⟨h, rfl, ?_⟩
    simp [forestNext, forestOp, Forest.step, hv, Forest.Verdict.next, Res.isOk]

theorem sim_createSub (s : Schema) (h : Inv db) (c : Id) (n : Name) : StepOk s db (.createSub c n) := by
  unfold StepOk
  show Inv (createSubCrate s db c n).1 ∧ (createSubCrate s db c n).2.isUb = false ∧
    forestNext (absForest db) (.createSub c n) (createSubCrate s db c n).2 = some (absForest (createSubCrate s db c n).1)
  have hrej : ∀ e, (absForest db).live c = false ∨ Forest.validName n = false ∨ (absForest db).nameTaken (some c) n = true →
      forestNext (absForest db) (.createSub c n) (.throw e) = some (absForest db) := by
    intro e hor
    rcases hor with h1 | h1 | h1
    · simp [forestNext, forestOp, Forest.step, h1, Forest.Verdict.next, Res.isOk]
    · cases hl : (absForest db).live c <;>
        simp [forestNext, forestOp, Forest.step, h1, hl, Forest.Verdict.next, Res.isOk]
    · cases hl : (absForest db).live c <;> cases hv : Forest.validName n <;>
        simp [forestNext, forestOp, Forest.step, h1, hl, hv, Forest.Verdict.next, Res.isOk]
  rcases validName_cases n with hv | hv
  · by_cases hd : SubNamed db c n
    · rw [createSub_dup s db c hv hd]
      exact ⟨h, rfl, hrej _ (Or.inr (Or.inr ((nameTaken_sub_iff h.toFInv c n).mpr hd)))⟩
    · by_cases hc : c ∈ ids db
      · rw [createSub_ok s h.idsNodup hv hd hc]
        refine ⟨inv_createSub s h hv hc, rfl, ?_⟩
        have h1 : (absForest db).nameTaken (some c) n = false := by
          rw [← Bool.not_eq_true, nameTaken_sub_iff h.toFInv]; exact hd
        simp [forestNext, forestOp, Forest.step, hv, h1, abs_live_true db hc, Forest.Verdict.next, Res.isOk, outId,
          abs_afterCreateSub s h.toFInv hc n]
      · rw [createSub_dead s db hv hd hc]
        exact ⟨h, rfl, hrej _ (Or.inl (abs_live_false db hc))⟩
  · rw [createSub_invalid s db c hv]
    exact ⟨h, rfl, hrej _ (Or.inr (Or.inl hv))⟩

theorem ids_afterSetName (db : Db) (c : Id) (n : Name) : ids (afterSetName db c n) = ids db := by
  have : ids (afterSetName db c n) = ids (dbTitle db c n) := ids_of_keys (setPaths_keys _ _ _)
  rw [this, ids_setTitle]

theorem sim_rename (s : Schema) (h : Inv db) (c : Id) (n : Name) : StepOk s db (.rename c n) := by
  unfold StepOk
  show Inv (setName s db c n).1 ∧ (setName s db c n).2.isUb = false ∧
    forestNext (absForest db) (.rename c n) (setName s db c n).2 = some (absForest (setName s db c n).1)
  rcases validName_cases n with hv | hv
  · by_cases hc : c ∈ ids db
    · rw [setName_ok s h.toFInv hv hc]
      refine ⟨inv_setName h hv hc, rfl, ?_⟩
      cases ht : (absForest db).nameTaken ((absForest db).parentOf c) n (some c) <;>
        simp [forestNext, forestOp, Forest.step, hv, ht, abs_live_true db hc, Forest.Verdict.next, Res.isOk,
          abs_afterSetName]
    · rw [setName_dead s db hv hc]
      refine ⟨h, rfl, ?_⟩
      simp [forestNext, forestOp, Forest.step, abs_live_false db hc, Forest.Verdict.next, Res.isOk]
  · rw [setName_invalid s db c hv]
    refine ⟨h, rfl, ?_⟩
    cases hl : (absForest db).live c <;>
      simp [forestNext, forestOp, Forest.step, hv, hl, Forest.Verdict.next, Res.isOk]

theorem sim_setParent (s : Schema) (h : Inv db) (c : Id) (parent : Option Id) : StepOk s db (.setParent c parent) := by
  unfold StepOk
  show Inv (setParent s db c parent).1 ∧ (setParent s db c parent).2.isUb = false ∧
    forestNext (absForest db) (.setParent c parent) (setParent s db c parent).2
      = some (absForest (setParent s db c parent).1)
  by_cases hself : parent = some c
  · subst hself
    rw [setParent_self]
    refine ⟨h, rfl, ?_⟩
    cases hl : (absForest db).live c <;>
      simp [forestNext, forestOp, Forest.step, hl, Forest.Verdict.next, Res.isOk]
  · by_cases hc : c ∈ ids db
    · obtain ⟨nm, hnm⟩ := abs_nameOf_live h.toFInv hc
      cases parent with
      | none =>
        have hok : ReparentOk db c none := ⟨hc, fun q hq => by cases hq⟩
        rw [setParent_ok s h.toFInv hok]
        refine ⟨inv_setParent h hok, rfl, ?_⟩
        cases ht : (absForest db).nameTaken none nm (some c) <;>
          simp [forestNext, forestOp, Forest.step, ht, hnm, abs_live_true db hc, Forest.Verdict.next, Res.isOk,
            abs_afterSetParent db c none hself]
      | some q =>
        have hqc : q ≠ c := fun e => hself (by rw [e])
        have hqc' : (q == c) = false := by simpa using hqc
        by_cases hq : q ∈ ids db
        · by_cases hcyc : (c, q) ∈ db.ch
          · rw [setParent_cycle s h.idsNodup hqc hc hq hcyc]
            refine ⟨h, rfl, ?_⟩
            have := (isAncestor_iff h.toFInv c q).mpr hcyc
            simp [forestNext, forestOp, Forest.step, hqc', this, abs_live_true db hc, abs_live_true db hq,
              Forest.Verdict.next, Res.isOk]
          · have hok : ReparentOk db c (some q) := ⟨hc, fun q' hq' => by cases hq'; exact ⟨hq, hqc, hcyc⟩⟩
            rw [setParent_ok s h.toFInv hok]
            refine ⟨inv_setParent h hok, rfl, ?_⟩
            have hna : (absForest db).isAncestor c q = false := by
              rw [← Bool.not_eq_true, isAncestor_iff h.toFInv]; exact hcyc
            cases ht : (absForest db).nameTaken (some q) nm (some c) <;>
              simp [forestNext, forestOp, Forest.step, hqc', hna, ht, hnm, abs_live_true db hc, abs_live_true db hq,
                Forest.Verdict.next, Res.isOk, abs_afterSetParent db c (some q) hself]
        · rw [setParent_dead_parent s h.idsNodup hqc hc hq]
          refine ⟨h, rfl, ?_⟩
          simp [forestNext, forestOp, Forest.step, hqc', abs_live_true db hc, abs_live_false db hq,
            Forest.Verdict.next, Res.isOk]
    · rw [setParent_dead s db hself hc]
      refine ⟨h, rfl, ?_⟩
      simp [forestNext, forestOp, Forest.step, abs_live_false db hc, Forest.Verdict.next, Res.isOk]

theorem sim_removeCrate (s : Schema) (h : Inv db) (c : Id) : StepOk s db (.removeCrate c) := by
  unfold StepOk
  show Inv (removeCrate s db c).1 ∧ (removeCrate s db c).2.isUb = false ∧
    forestNext (absForest db) (.removeCrate c) (removeCrate s db c).2 = some (absForest (removeCrate s db c).1)
  rw [removeCrate_eq s h c]
  refine ⟨inv_remove h c, rfl, ?_⟩
  by_cases hc : c ∈ ids db
  · simp [forestNext, forestOp, Forest.step, abs_live_true db hc, Forest.Verdict.next, Res.isOk,
      abs_afterRemove h.toFInv c]
  · simp [forestNext, forestOp, Forest.step, abs_live_false db hc, Forest.Verdict.next, Res.isOk,
      afterRemove_dead h hc]

/-- Operations that leave the crate tables alone leave the abstract forest alone. -/
theorem abs_of_crates_eq {db db' : Db} (h1 : db'.crate = db.crate) (h2 : db'.cpl = db.cpl) : absForest db' = absForest db := by
  apply forest_ext
  rw [abs_crates, abs_crates, h1]
  apply List.map_congr_left
  intro r _
  rw [parentOf_congr h2]

theorem sim_addTrack (s : Schema) (h : Inv db) (c t : Id) : StepOk s db (.addTrack c t) := by
  unfold StepOk
  show Inv (addTrack s db c t).1 ∧ (addTrack s db c t).2.isUb = false ∧
    forestNext (absForest db) (.addTrack c t) (addTrack s db c t).2 = some (absForest (addTrack s db c t).1)
  by_cases hc : c ∈ ids db
  · by_cases ht : liveTrack db t
    · rw [addTrack_ok s h hc ht]
      exact ⟨inv_addTrack h hc ht, rfl, by rw [abs_of_crates_eq (db := db) rfl rfl]; rfl⟩
    · rw [addTrack_dead_track s h.idsNodup hc ht]
      exact ⟨h, rfl, rfl⟩
  · rw [addTrack_dead s db t hc]
    exact ⟨h, rfl, rfl⟩

theorem sim_removeTrackFrom (s : Schema) (h : Inv db) (c t : Id) : StepOk s db (.removeTrackFrom c t) := by
  unfold StepOk
  show Inv (removeTrackFrom s db c t).1 ∧ (removeTrackFrom s db c t).2.isUb = false ∧
    forestNext (absForest db) (.removeTrackFrom c t) (removeTrackFrom s db c t).2
      = some (absForest (removeTrackFrom s db c t).1)
  rw [removeTrackFrom_eq s h]
  exact ⟨inv_filterCtl h _, rfl, by rw [abs_of_crates_eq (db := db) rfl rfl]; rfl⟩

theorem sim_clearTracks (s : Schema) (h : Inv db) (c : Id) : StepOk s db (.clearTracks c) := by
  unfold StepOk
  show Inv (clearTracks s db c).1 ∧ (clearTracks s db c).2.isUb = false ∧
    forestNext (absForest db) (.clearTracks c) (clearTracks s db c).2 = some (absForest (clearTracks s db c).1)
  rw [clearTracks_eq s h]
  exact ⟨inv_filterCtl h _, rfl, by rw [abs_of_crates_eq (db := db) rfl rfl]; rfl⟩

theorem sim_createTrack (s : Schema) (h : Inv db) : StepOk s db .createTrack := by
  unfold StepOk
  show Inv (createTrack s db).1 ∧ (createTrack s db).2.isUb = false ∧
    forestNext (absForest db) .createTrack (createTrack s db).2 = some (absForest (createTrack s db).1)
  obtain ⟨id, seq, e, hid⟩ := createTrack_spec s db
  rw [e]
  exact ⟨inv_createTrack h hid, rfl, by rw [abs_of_crates_eq (db := db) rfl rfl]; rfl⟩

theorem sim_removeTrack (s : Schema) (h : Inv db) (t : Id) : StepOk s db (.removeTrack t) := by
  unfold StepOk
  show Inv (removeTrack s db t).1 ∧ (removeTrack s db t).2.isUb = false ∧
    forestNext (absForest db) (.removeTrack t) (removeTrack s db t).2 = some (absForest (removeTrack s db t).1)
  obtain ⟨e0, e1, e2, _⟩ := removeTrack_spec s h t
  refine ⟨inv_removeTrack s h t, by rw [e0]; rfl, ?_⟩
  rw [abs_of_crates_eq e1 e2]; rfl

theorem step_ok (s : Schema) (h : Inv db) (op : Op) : StepOk s db op := by
  cases op with
  | createRoot n => exact sim_createRoot s h n
  | createSub c n => exact sim_createSub s h c n
  | rename c n => exact sim_rename s h c n
  | setParent c p => exact sim_setParent s h c p
  | removeCrate c => exact sim_removeCrate s h c
  | addTrack c t => exact sim_addTrack s h c t
  | removeTrackFrom c t => exact sim_removeTrackFrom s h c t
  | clearTracks c => exact sim_clearTracks s h c
  | createTrack => exact sim_createTrack s h
  | removeTrack t => exact sim_removeTrack s h t

/-! ### histories -/

theorem run_cons (s : Schema) (db : Db) (op : Op) (ops : List Op) :
    run s db (op :: ops) = run s (step s db op).1 ops := rfl

theorem run_append (s : Schema) (db : Db) (ops ops' : List Op) : run s db (ops ++ ops') = run s (run s db ops) ops' := by
  unfold run; rw [List.foldl_append]

theorem inv_run (s : Schema) : ∀ (ops : List Op) {db : Db}, Inv db → Inv (run s db ops) := by
  intro ops
  induction ops with
  | nil => intro db h; exact h
  | cons op ops ih => intro db h; rw [run_cons]; exact ih (step_ok s h op).1

theorem forestTrace_run (s : Schema) : ∀ (ops : List Op) {db : Db}, Inv db →
    forestTrace s db (absForest db) ops = some (absForest (run s db ops)) := by
  intro ops
  induction ops with
  | nil => intro db _; rfl
  | cons op ops ih =>
    intro db h
    obtain ⟨h1, _, h3⟩ := step_ok s h op
    unfold forestTrace
    rw [h3]
    simp only
    rw [run_cons]
    exact ih h1

end EngineModel.Api.CratesV1
