/-
The invariant `TDb.Wf` of the `track_table` model (row ids bounded by the
AUTOINCREMENT counter, typed origin columns) is kept by every well-typed
operation, hence holds after every history (property C18, lifting the
single-step theorems of Proofs/TableTrack.lean to all histories).
-/
import Proofs.TableTrackTyped
namespace EngineModel
namespace Table

theorem tInsert_fail {d d' : TDb} {l : List (TCol × Val)} {res : Res Int} (h : tInsert d l = (d', res))
    (hne : ∀ i, res ≠ .ok i) : d' = d := by
  unfold tInsert at h
  simp only at h
  split at h
  · simp only [Prod.mk.injEq] at h; exact h.1.symm
  · split at h
    · simp only [Prod.mk.injEq] at h; exact h.1.symm
    · simp only [Prod.mk.injEq] at h
      exact absurd h.2.symm (hne _)

theorem applyFix_typed {uuid : Val} (hu : uuidTyped uuid = true) {raw : Raw TCol} (h : originTyped raw = true) :
    originTyped (applyFix uuid raw) = true := by
  unfold applyFix
  split
  · simp only [originTyped, fixOrigin, Bool.and_eq_true]
    constructor
    · rw [setCol_other _ _ (by decide), setCol_same]
    · rw [setCol_same]
      cases uuid <;> first | rfl | (simp only [uuidTyped, Bool.false_eq_true] at hu)
  · exact h

theorem stampRow_typed (st : Option Int) {raw : Raw TCol} (h : originTyped raw = true) :
    originTyped (stampRow st raw) = true := by
  simp only [originTyped] at h ⊢
  rw [stampRow_other _ _ (by decide), stampRow_other _ _ (by decide)]
  exact h

/-- The origin columns an aligned write stores are typed. -/
theorem written_typed {s : Schema2} {ps : List (WB TCol TField)} {r : Row TField} {l : List (TCol × Val)}
    (hps : alignedW tSpec (TField.writable s) [] ps = true) (he : evalParams r ps = .ok l)
    (hr : wtRowT r) (base : Raw TCol) : originTyped (assign base l) = true := by
  have hot : TField.origin_track_id ∈ TField.writable s := TField.mem_writable.mpr ⟨by decide, rfl⟩
  have hou : TField.origin_database_uuid ∈ TField.writable s := TField.mem_writable.mpr ⟨by decide, rfl⟩
  obtain ⟨x1, hx1, hc1⟩ := assign_evalParams hps he base hot
  obtain ⟨x2, hx2, hc2⟩ := assign_evalParams hps he base hou
  obtain ⟨k, _, hk2⟩ := written_i64 (hr .origin_track_id) rfl hx1
  obtain ⟨u, _, hu2⟩ := written_str (hr .origin_database_uuid) rfl hx2
  subst hk2 hu2
  simp only [originTyped, Bool.and_eq_true]
  rw [show assign base l .originTrackId = .int k from hc1, show assign base l .originDatabaseUuid = .text u from hc2]
  exact ⟨rfl, rfl⟩

theorem mem_updRow {t : Rows TCol} {i : Int} {f : Raw TCol → Raw TCol} {r : Raw TCol}
    (h : r ∈ updRow .id t i f) : r ∈ t ∨ ∃ o ∈ t, rowId .id o = i ∧ r = f o := by
  unfold updRow at h
  obtain ⟨o, ho, hro⟩ := List.mem_map.mp h
  split at hro
  · rename_i hi
    right; exact ⟨o, ho, by simpa using hi, hro.symm⟩
  · left; rw [← hro]; exact ho

theorem wf_add {s : Schema2} {st : TStmts} (ha : alignedT s st = true) {d : TDb} (hwf : d.Wf)
    {r : Row TField} (hr : wtRowT r) : (tAdd st d r).1.Wf := by
  cases hres : tAdd st d r with
  | mk d' res =>
    cases res with
    | ok i =>
      simp only [alignedT, Bool.and_eq_true] at ha
      obtain ⟨⟨⟨⟨⟨⟨_, hins⟩, _⟩, _⟩, _⟩, _⟩, _⟩ := ha
      obtain ⟨_, l, he, hi⟩ := tAdd_ok hres
      obtain ⟨hi1, hd'⟩ := tInsert_ok hi
      subst hi1 hd'
      have hid : rowId .id (applyFix d.uuid (assign (setCol nullRaw .id (.int (d.seq + 1))) l)) = d.seq + 1 := by
        have := rowId_written hins he d.uuid (setCol nullRaw .id (.int (d.seq + 1))) none
        simp only [stampRow] at this
        rw [this]; simp [rowId, setCol, readInt]
      refine ⟨?_, ?_, hwf.uuid, ?_, hwf.clk⟩
      · intro x hx
        simp only [List.mem_append, List.mem_singleton] at hx
        rcases hx with hx | hx
        · have := hwf.ids x hx; show rowId TCol.id x ≤ d.seq + 1; omega
        · subst hx; show rowId TCol.id _ ≤ d.seq + 1; rw [hid]; omega
      · intro x hx
        simp only [List.mem_append, List.mem_singleton] at hx
        rcases hx with hx | hx
        · exact hwf.typed x hx
        · subst hx; exact applyFix_typed hwf.uuid (written_typed hins he hr _)
      · intro x hx
        simp only [List.mem_append, List.mem_singleton] at hx
        rcases hx with hx | hx
        · exact hwf.cols x hx
        · subst hx
          rw [rowTypedT_iff]
          refine RowTyped.applyFix hwf.uuid (RowTyped.written hins he hr ?_)
          intro f hf
          rcases not_writable hf with h | h
          · subst h; rfl
          · cases f <;> first | rfl | (exact Bool.noConfusion h)
    | throw e =>
      have : d' = d := by
        unfold tAdd at hres
        split at hres
        · simp only [Prod.mk.injEq] at hres; exact hres.1.symm
        · cases he : evalParams r st.ins with
          | ok l => rw [he] at hres; exact tInsert_fail hres (by intro i; simp)
          | throw e' => rw [he] at hres; simp only [Prod.mk.injEq] at hres; exact hres.1.symm
          | ub u => rw [he] at hres; simp only [Prod.mk.injEq] at hres; exact hres.1.symm
      subst this; exact hwf
    | ub u =>
      have : d' = d := by
        unfold tAdd at hres
        split at hres
        · simp only [Prod.mk.injEq] at hres; exact hres.1.symm
        · cases he : evalParams r st.ins with
          | ok l => rw [he] at hres; exact tInsert_fail hres (by intro i; simp)
          | throw e' => rw [he] at hres; simp only [Prod.mk.injEq] at hres; exact hres.1.symm
          | ub u => rw [he] at hres; simp only [Prod.mk.injEq] at hres; exact hres.1.symm
      subst this; exact hwf

/-- `UPDATE … WHERE id = ?` keeps the invariant when the row it leaves is typed. -/
theorem wf_updateWhereId {s : Schema2} {d : TDb} (hwf : d.Wf) {i : Int} {l : List (TCol × Val)}
    (hidcol : TCol.id ∉ l.map (·.1))
    (htyped : ∀ old ∈ d.rows, originTyped (assign old l) = true)
    (hcols : ∀ old ∈ d.rows, RowTyped (assign old l)) : (tUpdateWhereId s d i l).1.Wf := by
  cases hres : tUpdateWhereId s d i l with
  | mk d' res =>
    cases res with
    | ok n =>
      rcases tUpdateWhereId_ok hres with ⟨_, hd, _⟩ | ⟨old, hold, _, hd'⟩
      · subst hd; exact hwf
      · subst hd'
        obtain ⟨hmem, hrid⟩ := findRow_some hold
        have hnew : rowId .id (afterUpdate s d (l.map (·.1)) (assign old l)) = i := by
          unfold afterUpdate
          rw [rowId_stampRow, rowId_applyFix]
          unfold rowId
          rw [assign_not_mem _ _ _ hidcol]; exact hrid
        refine ⟨?_, ?_, hwf.uuid, ?_, hwf.clk⟩
        · intro x hx
          rcases mem_updRow hx with hx | ⟨o, ho, hoi, hxo⟩
          · exact hwf.ids x hx
          · show rowId TCol.id x ≤ d.seq
            rw [hxo, hnew, ← hoi]; exact hwf.ids o ho
        · intro x hx
          rcases mem_updRow hx with hx | ⟨o, ho, _, hxo⟩
          · exact hwf.typed x hx
          · rw [hxo]; unfold afterUpdate
            exact stampRow_typed _ (applyFix_typed hwf.uuid (htyped old hmem))
        · intro x hx
          rcases mem_updRow hx with hx | ⟨o, ho, _, hxo⟩
          · exact hwf.cols x hx
          · rw [hxo, rowTypedT_iff]; unfold afterUpdate
            refine RowTyped.stampRow (RowTyped.applyFix hwf.uuid (hcols old hmem)) _ ?_
            intro t ht
            unfold stampOf at ht
            split at ht
            · cases ht; exact hwf.clk
            · cases ht
    | throw e => rw [tUpdateWhereId_fail hres]; exact hwf
    | ub u => exact absurd (by rw [hres]) (tUpdateWhereId_no_ub (s := s) (d := d) (i := i) (l := l) (u := u))


theorem wf_update {s : Schema2} {st : TStmts} (ha : alignedT s st = true) {d : TDb} (hwf : d.Wf)
    {r : Row TField} (hr : wtRowT r) : (tUpdate s st d r).1.Wf := by
  simp only [alignedT, Bool.and_eq_true] at ha
  obtain ⟨⟨⟨⟨⟨⟨_, _⟩, hupd⟩, _⟩, _⟩, _⟩, _⟩ := ha
  unfold tUpdate
  split
  · exact hwf
  · cases he : evalParams r st.upd with
    | throw e => exact hwf
    | ub u => exact hwf
    | ok l =>
      simp only
      cases hrid : r .id with
      | int i =>
        simp only
        have := wf_updateWhereId (s := s) hwf (i := i) (l := l) (id_not_written hupd he)
          (fun old _ => written_typed hupd he hr old)
          (fun old hold => RowTyped.written hupd he hr
            (fun f _ => (rowTypedT_iff old).mp (hwf.cols old hold) f))
        cases hu : tUpdateWhereId s d i l with
        | mk d2 res =>
          rw [hu] at this
          cases res <;> exact this
      | _ => exact hwf

theorem wf_setc {s : Schema2} {st : TStmts} (ha : alignedT s st = true) {d : TDb} (hwf : d.Wf)
    {f : TField} (hf : f ≠ .id) {i : Int} {v : FVal} (hv : wtv f.accTy v = true) : (tSetc s st d f i v).1.Wf := by
  simp only [alignedT, Bool.and_eq_true] at ha
  obtain ⟨⟨⟨⟨⟨⟨_, _⟩, _⟩, _⟩, _⟩, hsetters⟩, _⟩ := ha
  obtain ⟨a, hfa, _, hcol, hty, _⟩ := findAcc_aligned hsetters hf
  unfold tSetc
  rw [hfa]
  simp only
  split
  · exact hwf
  · cases hw : wconv a.ty.wconv v with
    | throw e => exact hwf
    | ub u => exact hwf
    | ok x =>
      simp only
      rw [hty] at hw
      rw [hcol]
      have := wf_updateWhereId (s := s) hwf (i := i) (l := [(f.col, x)])
        (by
          simp only [List.map_cons, List.map_nil, List.mem_singleton]
          exact fun hc => hf (TField.col_inj (f := f) (g := .id) hc.symm))
        (fun old hold => originTyped_setCol (hwf.typed old hold) hv hw)
        (fun old hold => RowTyped.setCol ((rowTypedT_iff old).mp (hwf.cols old hold)) hv hw)
      cases hu : tUpdateWhereId s d i [(f.col, x)] with
      | mk d2 res =>
        rw [hu] at this
        cases res with
        | ok n => simp only; split <;> exact this
        | throw e => exact this
        | ub u => exact this

theorem wf_remove {st : TStmts} {d : TDb} (hwf : d.Wf) (i : Int) : (tRemove st d i).1.Wf := by
  unfold tRemove
  cases findRow .id d.rows i with
  | none => simp only; split <;> exact hwf
  | some _ =>
    refine ⟨?_, ?_, hwf.uuid, ?_, hwf.clk⟩
    · intro x hx; exact hwf.ids x (List.mem_filter.mp hx).1
    · intro x hx; exact hwf.typed x (List.mem_filter.mp hx).1
    · intro x hx; exact hwf.cols x (List.mem_filter.mp hx).1

theorem TDb.empty_wf (uuid : Val) (clock : Int) (hu : uuidTyped uuid = true)
    (hclk : in64 (clock * 1000000000) = true) :
    ({ TDb.empty with uuid := uuid, clock := clock } : TDb).Wf :=
  ⟨fun _ h => (by cases h), fun _ h => (by cases h), hu, fun _ h => (by cases h), hclk⟩

/-- **Histories.**  Every well-typed operation keeps the invariant … -/
theorem wf_step {s : Schema2} {st : TStmts} (ha : alignedT s st = true) {d : TDb} (hwf : d.Wf)
    {op : TOp} (hop : wtOp op) : (tStep s st d op).Wf := by
  cases op with
  | add r => exact wf_add ha hwf hop
  | update r => exact wf_update ha hwf hop
  | remove i => exact wf_remove hwf i
  | setc f i v => exact wf_setc ha hwf hop.1 hop.2

/-- … so it holds after every history of add / update / set_<member> / remove. -/
theorem wf_run {s : Schema2} {st : TStmts} (ha : alignedT s st = true) {d : TDb} (hwf : d.Wf)
    (ops : List TOp) (hops : ∀ op ∈ ops, wtOp op) : (tRun s st d ops).Wf := by
  induction ops generalizing d with
  | nil => exact hwf
  | cons op ops ih =>
    exact ih (wf_step ha hwf (hops op List.mem_cons_self)) (fun o ho => hops o (List.mem_cons_of_mem _ ho))

end Table
end EngineModel

namespace EngineModel
namespace Table

/-- `add` leaves every other row as it was. -/
theorem track_add_frame {s : Schema2} {st : TStmts} (ha : alignedT s st = true) {d d' : TDb}
    {r : Row TField} {i : Int} (h : tAdd st d r = (d', .ok i)) (j : Int) (hj : j ≠ i) :
    findRow .id d'.rows j = findRow .id d.rows j := by
  simp only [alignedT, Bool.and_eq_true] at ha
  obtain ⟨⟨⟨⟨⟨⟨_, hins⟩, _⟩, _⟩, _⟩, _⟩, _⟩ := ha
  obtain ⟨_, l, he, hi⟩ := tAdd_ok h
  obtain ⟨hi1, hd'⟩ := tInsert_ok hi
  subst hi1 hd'
  have hid : rowId .id (applyFix d.uuid (assign (setCol nullRaw .id (.int (d.seq + 1))) l)) = d.seq + 1 := by
    have := rowId_written hins he d.uuid (setCol nullRaw .id (.int (d.seq + 1))) none
    simp only [stampRow] at this
    rw [this]; simp [rowId, setCol, readInt]
  show findRow .id (d.rows ++ [_]) j = _
  unfold findRow
  rw [List.find?_append]
  cases hf : d.rows.find? (fun r => rowId TCol.id r == j) with
  | some x => rfl
  | none =>
    simp only [Option.none_or, List.find?_cons, List.find?_nil, hid]
    have : (d.seq + 1 == j) = false := by simp; omega
    rw [this]

end Table
end EngineModel
