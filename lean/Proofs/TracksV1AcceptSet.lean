/-
C06 1.x, acceptance side, part 2: every setter against its explicit guard.

  * `set_perfStable`  — a setter that returns normally leaves every blob of the
                        PerformanceData row in a form that passes the guard again;
  * `set_ok_accepts`  — it returned normally only if `acceptsRow` holds;
  * `accepts_set_ok`  — on `Clean` rows, under the float law, `acceptsRow` suffices.
-/
import Proofs.TracksV1Accept

namespace EngineModel.TracksV1

open Impl.V1 (GMarker HotCue LoopV Entry Wave Beat Cues Loops)
open Fl (FOps)

set_option linter.unusedSimpArgs false
set_option linter.unusedVariables false

/-! ### `Clean`, unpacked -/

def PerfStable (r : TrackRows) : Prop := ∀ p, r.perf = some p → stablePerf p = true

structure CleanP (r : TrackRows) : Prop where
  inv : InvP r
  perf : PerfStable r

theorem clean_iff (r : TrackRows) : Clean r = true ↔ CleanP r := by
  unfold Clean
  rw [Bool.and_eq_true, inv_iff]
  constructor
  · intro ⟨h1, h2⟩
    refine ⟨h1, ?_⟩
    intro p hp
    rw [hp] at h2
    exact h2
  · intro ⟨h1, h2⟩
    refine ⟨h1, ?_⟩
    cases hp : r.perf with
    | none => rfl
    | some p => exact h2 p hp

structure StableP (p : PerfRow) : Prop where
  track : stableTrack p.trackData = true
  beat : stableBeat p.beat = true
  cues : stableCues p.cues = true
  loops : stableLoops p.loops = true
  hires : stableWave p.hires = true
  ovw : stableWave p.overview = true

theorem stablePerf_iff (p : PerfRow) : stablePerf p = true ↔ StableP p := by
  unfold stablePerf
  simp only [Bool.and_eq_true]
  constructor
  · intro ⟨⟨⟨⟨⟨a, b⟩, c⟩, d⟩, e⟩, f⟩; exact ⟨a, b, c, d, e, f⟩
  · intro ⟨a, b, c, d, e, f⟩; exact ⟨⟨⟨⟨⟨a, b⟩, c⟩, d⟩, e⟩, f⟩

/-! ### each single-column update keeps the blobs stable -/

theorem PerfStable.of_eq {r r' : TrackRows} (h : PerfStable r) (he : r'.perf = r.perf) : PerfStable r' := by
  intro p hp; rw [he] at hp; exact h p hp

theorem setTrackCol_stable (r r' : TrackRows) (v : Impl.V1.Track) (hs : PerfStable r)
    (h : setTrackCol r v = .ok r') : PerfStable r' := by
  obtain ⟨hv, p, hp, hr⟩ := (setTrackCol_iff r r' v).mp h
  subst hr
  intro q hq
  cases hq
  obtain ⟨a, b, c, d, e, f⟩ := (stablePerf_iff p).mp (hs p hp)
  exact (stablePerf_iff _).mpr ⟨hv, b, c, d, e, f⟩

theorem setBeatCol_stable (r r' : TrackRows) (v : Beat) (hs : PerfStable r)
    (h : setBeatCol r v = .ok r') : PerfStable r' := by
  obtain ⟨hv, p, hp, hr⟩ := (setBeatCol_iff r r' v).mp h
  subst hr
  intro q hq
  cases hq
  obtain ⟨a, b, c, d, e, f⟩ := (stablePerf_iff p).mp (hs p hp)
  exact (stablePerf_iff _).mpr ⟨a, hv, c, d, e, f⟩

theorem setCuesCol_stable (r r' : TrackRows) (v : Cues) (hs : PerfStable r)
    (h : setCuesCol r v = .ok r') : PerfStable r' := by
  obtain ⟨hv, p, hp, hr⟩ := (setCuesCol_iff r r' v).mp h
  subst hr
  intro q hq
  cases hq
  obtain ⟨a, b, c, d, e, f⟩ := (stablePerf_iff p).mp (hs p hp)
  exact (stablePerf_iff _).mpr ⟨a, b, hv, d, e, f⟩

theorem setLoopsCol_stable (r r' : TrackRows) (v : Loops) (hs : PerfStable r)
    (h : setLoopsCol r v = .ok r') : PerfStable r' := by
  obtain ⟨hv, p, hp, hr⟩ := (setLoopsCol_iff r r' v).mp h
  subst hr
  intro q hq
  cases hq
  obtain ⟨a, b, c, d, e, f⟩ := (stablePerf_iff p).mp (hs p hp)
  exact (stablePerf_iff _).mpr ⟨a, b, c, hv, e, f⟩

theorem setHiresCol_stable (r r' : TrackRows) (v : Wave) (hs : PerfStable r)
    (h : setHiresCol r v = .ok r') : PerfStable r' := by
  obtain ⟨hv, p, hp, hr⟩ := (setHiresCol_iff r r' v).mp h
  subst hr
  intro q hq
  cases hq
  obtain ⟨a, b, c, d, e, f⟩ := (stablePerf_iff p).mp (hs p hp)
  exact (stablePerf_iff _).mpr ⟨a, b, c, d, hv, f⟩

theorem setOvwCol_stable (r r' : TrackRows) (v : Wave) (hs : PerfStable r)
    (h : setOvwCol r v = .ok r') : PerfStable r' := by
  obtain ⟨hv, p, hp, hr⟩ := (setOvwCol_iff r r' v).mp h
  subst hr
  intro q hq
  cases hq
  obtain ⟨a, b, c, d, e, f⟩ := (stablePerf_iff p).mp (hs p hp)
  exact (stablePerf_iff _).mpr ⟨a, b, c, d, e, hv⟩

/-- **Every setter that returns normally leaves blobs that pass the guard again.** -/
theorem set_perfStable (o : FOps) (r r' : TrackRows) (f : Field) (v : f.ty) (hs : PerfStable r)
    (h : set o r f v = .ok r') : PerfStable r' := by
  cases f with
  | album | artist | comment | composer | genre | publisher | title | bitrate | duration | lastPlayedAt | rating
  | relativePath | trackNumber | year =>
    simp only [set, Res.ok.injEq] at h
    subst h
    exact hs.of_eq rfl
  | bpm =>
    simp only [set] at h
    obtain ⟨c, _, h⟩ := bind_ok_inv h
    simp only [Res.pure_eq, pure, Res.ok.injEq] at h
    subst h
    exact hs.of_eq rfl
  | averageLoudness => exact setTrackCol_stable _ _ _ hs h
  | beatgrid => exact setBeatCol_stable _ _ _ hs h
  | hotCues => exact setCuesCol_stable _ _ _ hs h
  | mainCue => exact setCuesCol_stable _ _ _ hs h
  | hotCueAt i =>
    simp only [set] at h
    obtain ⟨k, _, h⟩ := Res.bind_eq_ok h
    exact setCuesCol_stable _ _ _ hs h
  | loopAt i =>
    simp only [set] at h
    obtain ⟨k, _, h⟩ := Res.bind_eq_ok h
    exact setLoopsCol_stable _ _ _ hs h
  | loops =>
    simp only [set] at h
    split at h
    · cases h
    · exact setLoopsCol_stable _ _ _ hs h
  | key =>
    simp only [set] at h
    obtain ⟨r1, h1, h⟩ := Res.bind_eq_ok h
    simp only [Res.ok.injEq] at h
    subst h
    exact (setTrackCol_stable _ _ _ hs h1).of_eq rfl
  | sampleCount =>
    simp only [set] at h
    obtain ⟨secs, _, h⟩ := bind_ok_inv h
    obtain ⟨r2, h2, h⟩ := bind_ok_inv h
    obtain ⟨r3, h3, h⟩ := bind_ok_inv h
    have s1 : PerfStable { r with track := { r.track with lengthCalculated := secs } } := hs.of_eq rfl
    have s2 := setBeatCol_stable _ _ _ s1 h2
    have s3 := setTrackCol_stable _ _ _ s2 h3
    split at h
    · simp only [Res.pure_eq, pure, Res.ok.injEq] at h
      subst h; exact s3
    · obtain ⟨e, _, h⟩ := bind_ok_inv h
      exact setOvwCol_stable _ _ _ s3 h
  | sampleRate =>
    simp only [set] at h
    obtain ⟨secs, _, h⟩ := bind_ok_inv h
    obtain ⟨r2, h2, h⟩ := bind_ok_inv h
    obtain ⟨r3, h3, h⟩ := bind_ok_inv h
    obtain ⟨r4, h4, h⟩ := bind_ok_inv h
    have s1 : PerfStable { r with track := { r.track with lengthCalculated := secs } } := hs.of_eq rfl
    have s2 := setBeatCol_stable _ _ _ s1 h2
    have s3 := setTrackCol_stable _ _ _ s2 h3
    have s4 : PerfStable r4 := by
      split at h4
      · simp only [Res.pure_eq, pure, Res.ok.injEq] at h4
        subst h4; exact s3
      · obtain ⟨e, _, h4⟩ := bind_ok_inv h4
        exact setHiresCol_stable _ _ _ s3 h4
    split at h
    · simp only [Res.pure_eq, pure, Res.ok.injEq] at h
      subst h; exact s4
    · obtain ⟨e, _, h⟩ := bind_ok_inv h
      exact setOvwCol_stable _ _ _ s4 h
  | waveform =>
    simp only [set] at h
    obtain ⟨⟨ov, hi⟩, _, h⟩ := bind_ok_inv h
    simp only at h
    obtain ⟨r1, h1, h⟩ := bind_ok_inv h
    exact setHiresCol_stable _ _ _ (setOvwCol_stable _ _ _ hs h1) h

theorem set_cleanP (o : FOps) (r r' : TrackRows) (f : Field) (v : f.ty) (hc : CleanP r)
    (h : set o r f v = .ok r') : CleanP r' :=
  ⟨set_inv o .s1_6_0 r r' f v hc.inv h, set_perfStable o r r' f v hc.perf h⟩

/-! ### small value facts -/

theorem isNaN_of_isZero (a : Bits) (h : F64.isZero a = true) : F64.isNaN a = false := by
  rcases (isZero_iff a).mp h with h | h <;> subst h <;> decide

theorem numOpt_loud (v : Option Bits) :
    numOpt (if F64.isZero (v.getD F64.zero) then none else v) = finOpt v := by
  cases v with
  | none => simp [numOpt, finOpt]
  | some a =>
    simp only [Option.getD_some]
    by_cases hz : F64.isZero a = true
    · simp [numOpt, finOpt, hz, isNaN_of_isZero a hz]
    · simp [numOpt, finOpt, hz]

theorem numOpt_znf (v : Option Bits) : numOpt (zeroNoneF v) = finOpt v := by
  cases v with
  | none => rfl
  | some a =>
    unfold zeroNoneF
    simp only [Option.bind_some]
    by_cases hz : F64.isZero a = true
    · simp [numOpt, finOpt, hz, isNaN_of_isZero a hz]
    · simp [numOpt, finOpt, hz]

theorem isNaN_getD (v : Option Bits) : (!F64.isNaN (v.getD F64.zero)) = finOpt v := by
  cases v with
  | none => simp [finOpt]; decide
  | some a => simp [finOpt]

theorem all_padTo8 {α} (p : Option α → Bool) (hp : p none = true) (l : List (Option α)) :
    (padTo8 l).all p = l.all p := by
  unfold padTo8
  rw [List.all_append]
  have : (List.replicate (8 - l.length) (none : Option α)).all p = true := by
    rw [List.all_eq_true]; intro a ha; rw [List.eq_of_mem_replicate ha]; exact hp
  rw [this, Bool.and_true]

theorem padTo8_len_iff {α} (l : List (Option α)) : (padTo8 l).length = 8 ↔ l.length ≤ 8 := by
  unfold padTo8
  simp only [List.length_append, List.length_replicate]
  omega

theorem all_set_iff {α} (p : α → Bool) (l : List α) (k : Nat) (a : α) (hk : k < l.length) (hl : l.all p = true) :
    (l.set k a).all p = p a := by
  cases hpa : p a with
  | true =>
    rw [List.all_eq_true]
    intro x hx
    rcases List.mem_or_eq_of_mem_set hx with h | h
    · exact List.all_eq_true.mp hl x h
    · rw [h]; exact hpa
  | false =>
    cases hall : (l.set k a).all p with
    | false => rfl
    | true =>
      have := List.all_eq_true.mp hall a (mem_set_self l k a hk)
      rw [hpa] at this; cases this

theorem slotOf_8_iff (i : UInt32) : (∃ k, Spec.slotOf i 8 = some k) ↔ Spec.slotInRange i = true := by
  unfold Spec.slotOf Spec.slotInRange
  simp only [decide_eq_true_eq]
  constructor
  · intro ⟨k, h⟩
    split at h
    · rename_i hh; exact ⟨hh.1, by omega⟩
    · cases h
  · intro ⟨h1, h2⟩
    have : 0 ≤ Prim.s32 i ∧ Prim.s32 i < ((8 : Nat) : Int) := ⟨h1, by omega⟩
    exact ⟨_, if_pos this⟩

theorem gridNum_spec (g : List GMarker) (h : gridNum g = true) : ∀ m ∈ g, F64.isNaN m.off = false := by
  intro m hm
  have := List.all_eq_true.mp h m hm
  simpa using this

/-! ### a setter returned normally only if its guard holds -/

section OkAccepts
variable (o : FOps) (r r' : TrackRows)

theorem oka_averageLoudness (v : Option Bits) (h : set o r .averageLoudness v = .ok r') :
    acceptsRow r .averageLoudness v = true := by
  simp only [set] at h
  obtain ⟨hv, p, hp, _⟩ := (setTrackCol_iff _ _ _).mp h
  unfold stableTrack at hv
  simp only [Bool.and_eq_true] at hv
  have := hv.1.2
  rw [numOpt_loud] at this
  simp [acceptsRow, Field.blobSetter, valueOk, hp, this]

theorem oka_beatgrid (v : List GMarker) (h : set o r .beatgrid v = .ok r') : acceptsRow r .beatgrid v = true := by
  simp only [set] at h
  obtain ⟨hv, p, hp, _⟩ := (setBeatCol_iff _ _ _).mp h
  unfold stableBeat at hv
  simp only [Bool.and_eq_true] at hv
  have hn := hv.2
  have hg : Spec.gridOk v = true := by
    rw [← validGrid_eq_gridOk v (gridNum_spec v hn)]; exact hv.1.1.2
  simp [acceptsRow, Field.blobSetter, valueOk, hp, hn, hg]

theorem oka_hotCues (v : List (Option HotCue)) (h : set o r .hotCues v = .ok r') : acceptsRow r .hotCues v = true := by
  simp only [set] at h
  obtain ⟨hv, p, hp, _⟩ := (setCuesCol_iff _ _ _).mp h
  unfold stableCues at hv
  simp only [Bool.and_eq_true, decide_eq_true_eq] at hv
  have h8 := (padTo8_len_iff v).mp hv.1.1.1
  have hall := hv.1.1.2
  rw [all_padTo8 cueStored rfl] at hall
  simp [acceptsRow, Field.blobSetter, valueOk, hp, h8, hall]

theorem oka_mainCue (v : Option Bits) (h : set o r .mainCue v = .ok r') : acceptsRow r .mainCue v = true := by
  simp only [set] at h
  obtain ⟨hv, p, hp, _⟩ := (setCuesCol_iff _ _ _).mp h
  unfold stableCues at hv
  simp only [Bool.and_eq_true] at hv
  have := hv.2
  rw [isNaN_getD] at this
  simp [acceptsRow, Field.blobSetter, valueOk, hp, this]

theorem slotIndex_8 {α} (i : UInt32) (l : List α) (k : Nat) (hlen : l.length = 8) (hk : slotIndex i l = .ok k) :
    Spec.slotOf i 8 = some k := by
  rw [slotIndex_eq, hlen] at hk
  cases hs : Spec.slotOf i 8 with
  | none => rw [hs] at hk; cases hk
  | some k' => rw [hs] at hk; cases hk; rfl

theorem oka_hotCueAt (hinv : InvP r) (i : UInt32) (v : Option HotCue) (h : set o r (.hotCueAt i) v = .ok r') :
    acceptsRow r (.hotCueAt i) v = true := by
  simp only [set] at h
  obtain ⟨k, hk, h⟩ := Res.bind_eq_ok h
  obtain ⟨hv, p, hp, _⟩ := (setCuesCol_iff _ _ _).mp h
  have hlen : (colCues r).cues.length = 8 := by simp [colCues, hp, hinv.cues p hp]
  have hk' := slotIndex_8 i _ k hlen hk
  have hin := (slotOf_8_iff i).mp ⟨k, hk'⟩
  unfold stableCues at hv
  simp only [Bool.and_eq_true, decide_eq_true_eq] at hv
  have hq : cueStored v = true := by
    have hlt : k < (colCues r).cues.length := by rw [hlen]; exact slotOf_lt _ _ _ hk'
    have hmem : v ∈ (setAt (colCues r).cues k v) := mem_set_self _ _ _ hlt
    exact List.all_eq_true.mp hv.1.1.2 v hmem
  simp [acceptsRow, Field.blobSetter, valueOk, hp, hin, hq]

theorem oka_loopAt (hinv : InvP r) (i : UInt32) (v : Option LoopV) (h : set o r (.loopAt i) v = .ok r') :
    acceptsRow r (.loopAt i) v = true := by
  simp only [set] at h
  obtain ⟨k, hk, h⟩ := Res.bind_eq_ok h
  obtain ⟨hv, p, hp, _⟩ := (setLoopsCol_iff _ _ _).mp h
  have hlen : (colLoops r).length = 8 := by simp [colLoops, hp, hinv.loops p hp]
  have hk' := slotIndex_8 i _ k hlen hk
  have hin := (slotOf_8_iff i).mp ⟨k, hk'⟩
  unfold stableLoops at hv
  have hq : loopStored v = true := by
    have hlt : k < (colLoops r).length := by rw [hlen]; exact slotOf_lt _ _ _ hk'
    have hmem : v ∈ (setAt (colLoops r) k v) := mem_set_self _ _ _ hlt
    exact List.all_eq_true.mp hv v hmem
  simp [acceptsRow, Field.blobSetter, valueOk, hp, hin, hq]

theorem oka_loops (v : List (Option LoopV)) (h : set o r .loops v = .ok r') : acceptsRow r .loops v = true := by
  simp only [set] at h
  split at h
  · cases h
  · rename_i h8
    obtain ⟨hv, p, hp, _⟩ := (setLoopsCol_iff _ _ _).mp h
    unfold stableLoops at hv
    rw [all_padTo8 loopStored rfl] at hv
    have : v.length ≤ 8 := by omega
    simp [acceptsRow, Field.blobSetter, valueOk, hp, this, hv]

theorem oka_key (v : Option UInt32) (h : set o r .key v = .ok r') : acceptsRow r .key v = true := by
  simp only [set] at h
  obtain ⟨r1, h1, _⟩ := Res.bind_eq_ok h
  obtain ⟨_, p, hp, _⟩ := (setTrackCol_iff _ _ _).mp h1
  simp [acceptsRow, Field.blobSetter, valueOk, hp]

theorem oka_sampleCount (v : Option UInt64) (h : set o r .sampleCount v = .ok r') :
    acceptsRow r .sampleCount v = true := by
  simp only [set] at h
  obtain ⟨secs, _, h⟩ := bind_ok_inv h
  obtain ⟨r2, h2, h⟩ := bind_ok_inv h
  obtain ⟨_, p, hp, _⟩ := (setBeatCol_iff _ _ _).mp h2
  simp only at hp
  simp [acceptsRow, Field.blobSetter, valueOk, hp]

theorem oka_sampleRate (v : Option Bits) (h : set o r .sampleRate v = .ok r') :
    acceptsRow r .sampleRate v = true := by
  simp only [set] at h
  obtain ⟨secs, _, h⟩ := bind_ok_inv h
  obtain ⟨r2, h2, h⟩ := bind_ok_inv h
  obtain ⟨hv, p, hp, _⟩ := (setBeatCol_iff _ _ _).mp h2
  simp only at hp
  unfold stableBeat at hv
  simp only [Bool.and_eq_true] at hv
  have := hv.1.1.1.1.1
  rw [numOpt_znf] at this
  simp [acceptsRow, Field.blobSetter, valueOk, hp, this]

theorem oka_waveform (v : List Entry) (h : set o r .waveform v = .ok r') : acceptsRow r .waveform v = true := by
  simp only [set] at h
  obtain ⟨⟨ov, hi⟩, _, h⟩ := bind_ok_inv h
  simp only at h
  obtain ⟨r1, h1, h⟩ := bind_ok_inv h
  obtain ⟨_, p, hp, _⟩ := (setOvwCol_iff _ _ _).mp h1
  simp [acceptsRow, Field.blobSetter, valueOk, hp]

end OkAccepts

theorem set_ok_accepts (o : FOps) (r r' : TrackRows) (f : Field) (v : f.ty) (hinv : InvP r)
    (h : set o r f v = .ok r') : acceptsRow r f v = true := by
  cases f with
  | album | artist | comment | composer | genre | publisher | title | bitrate | duration | lastPlayedAt | rating
  | relativePath | trackNumber | year | bpm => rfl
  | averageLoudness => exact oka_averageLoudness o r r' v h
  | beatgrid => exact oka_beatgrid o r r' v h
  | hotCues => exact oka_hotCues o r r' v h
  | mainCue => exact oka_mainCue o r r' v h
  | hotCueAt i => exact oka_hotCueAt o r r' hinv i v h
  | loopAt i => exact oka_loopAt o r r' hinv i v h
  | loops => exact oka_loops o r r' v h
  | key => exact oka_key o r r' v h
  | sampleCount => exact oka_sampleCount o r r' v h
  | sampleRate => exact oka_sampleRate o r r' v h
  | waveform => exact oka_waveform o r r' v h

/-! ### on clean rows, under the float law, the guard suffices -/

theorem isOk_bind {α β} {x : Res α} {f : α → Res β} (a : α) (hx : x = .ok a) (hf : ∃ b, f a = .ok b) :
    ∃ b, (x >>= f) = .ok b := by
  subst hx; exact hf

theorem isOk_bind_P {α β} {x : Res α} {f : α → Res β} (P : α → Prop) (hx : ∃ a, x = .ok a ∧ P a)
    (hf : ∀ a, P a → ∃ b, f a = .ok b) : ∃ b, (x >>= f) = .ok b := by
  obtain ⟨a, hx, hp⟩ := hx
  subst hx; exact hf a hp

theorem ovwExtents_num (o : FOps) (hl : FloatLaw o) (n : UInt64) (r : Bits) (e : Nat × Bits)
    (h : ovwExtents o n r = .ok e) : F64.isNaN e.2 = false := by
  obtain ⟨v, hv⟩ := extentsRate_toI64 r
  obtain ⟨q, hq, hin⟩ := qn_some o (extentsRate r) v hv
  unfold ovwExtents Gen.TrackUtils.calculate_overview_waveform_extents at h
  rw [hq] at h
  simp only [Option.bind_eq_bind, Option.bind_some, Option.pure_def] at h
  by_cases hz : (decide (n.toNat = Cxx.u64OfInt 0) || decide (q = 0)) = true
  · simp [hz, liftUb] at h
    rw [← h]
    exact hl.ofI64_num 0
  · have hq0 : q ≠ 0 := by
      intro h; apply hz; simp [h]
    have hu := u64OfInt_ne_zero q hq0 hin
    simp [hz, liftUb, Cxx.U64.div, hu] at h
    rw [← h]
    exact hl.div_num _

theorem hiresExtents_num (o : FOps) (hl : FloatLaw o) (n : UInt64) (r : Bits) (e : Nat × Bits)
    (h : hiresExtents o n r = .ok e) : F64.isNaN e.2 = false := by
  obtain ⟨v, hv⟩ := extentsRate_toI64 r
  obtain ⟨q, hq, hin⟩ := qn_some o (extentsRate r) v hv
  unfold hiresExtents Gen.TrackUtils.calculate_high_resolution_waveform_extents at h
  rw [hq] at h
  simp only [Option.bind_eq_bind, Option.bind_some, Option.pure_def] at h
  by_cases hz : (decide (n.toNat = Cxx.u64OfInt 0) || decide (q = 0)) = true
  · simp [hz, liftUb] at h
    rw [← h]
    exact hl.ofI64_num 0
  · have hq0 : q ≠ 0 := by
      intro h; apply hz; simp [h]
    have hu := u64OfInt_ne_zero q hq0 hin
    simp [hz, liftUb, Cxx.U64.div, hu] at h
    rw [← h]
    exact hl.ofI64_num _

theorem numOpt_count (o : FOps) (hl : FloatLaw o) (n0 : Option UInt64) :
    numOpt ((n0.bind fun x => if x = 0 then none else some x).map fun k => o.ofU64 k.toNat) = true := by
  cases n0 with
  | none => rfl
  | some x =>
    by_cases hx : x = 0
    · simp [hx, numOpt]
    · have hpos : 0 < x.toNat := by
        have : x.toNat ≠ 0 := fun h => hx (by
          apply UInt64.toNat_inj.mp; rw [h]; rfl)
        omega
      have hlt : x.toNat < 18446744073709551616 := x.toNat_lt
      simp [hx, numOpt, hl.ofU64_num, hl.ofU64_pos _ hpos hlt]

section AcceptsOk
variable (o : FOps) (r : TrackRows)

/-- what `acceptsRow` says for a blob setter -/
theorem acceptsRow_blob (f : Field) (v : f.ty) (hb : f.blobSetter = true) (h : acceptsRow r f v = true) :
    (∃ p, r.perf = some p) ∧ valueOk f v = true := by
  unfold acceptsRow at h
  simp only [hb, Bool.not_true, Bool.false_or, Bool.and_eq_true] at h
  cases hp : r.perf with
  | none => rw [hp] at h; simp at h
  | some p => exact ⟨⟨p, rfl⟩, h.2⟩

theorem aok_averageLoudness (hc : CleanP r) (v : Option Bits) (h : acceptsRow r .averageLoudness v = true) :
    ∃ r', set o r .averageLoudness v = .ok r' := by
  obtain ⟨⟨p, hp⟩, hv⟩ := acceptsRow_blob r .averageLoudness v rfl h
  have hs := (stablePerf_iff p).mp (hc.perf p hp)
  simp only [set]
  refine ⟨_, (setTrackCol_iff _ _ _).mpr ⟨?_, p, hp, rfl⟩⟩
  have ht := hs.track
  unfold stableTrack at ht ⊢
  simp only [Bool.and_eq_true] at ht ⊢
  simp only [colTrack, hp, Option.map_some, Option.getD_some]
  refine ⟨⟨⟨ht.1.1.1, ht.1.1.2⟩, ?_⟩, ht.2⟩
  rw [numOpt_loud]; exact hv

theorem aok_beatgrid (hc : CleanP r) (v : List GMarker) (h : acceptsRow r .beatgrid v = true) :
    ∃ r', set o r .beatgrid v = .ok r' := by
  obtain ⟨⟨p, hp⟩, hv⟩ := acceptsRow_blob r .beatgrid v rfl h
  have hs := (stablePerf_iff p).mp (hc.perf p hp)
  simp only [valueOk, Bool.and_eq_true] at hv
  simp only [set]
  refine ⟨_, (setBeatCol_iff _ _ _).mpr ⟨?_, p, hp, rfl⟩⟩
  have ht := hs.beat
  unfold stableBeat at ht ⊢
  simp only [Bool.and_eq_true] at ht ⊢
  simp only [colBeat, hp, Option.map_some, Option.getD_some]
  have hg : Impl.V1.validGrid v = true := by
    rw [validGrid_eq_gridOk v (gridNum_spec v hv.2)]; exact hv.1
  exact ⟨⟨⟨⟨⟨ht.1.1.1.1.1, ht.1.1.1.1.2⟩, hg⟩, hg⟩, hv.2⟩, hv.2⟩

theorem aok_hotCues (hc : CleanP r) (v : List (Option HotCue)) (h : acceptsRow r .hotCues v = true) :
    ∃ r', set o r .hotCues v = .ok r' := by
  obtain ⟨⟨p, hp⟩, hv⟩ := acceptsRow_blob r .hotCues v rfl h
  have hs := (stablePerf_iff p).mp (hc.perf p hp)
  simp only [valueOk, Bool.and_eq_true, decide_eq_true_eq] at hv
  simp only [set]
  refine ⟨_, (setCuesCol_iff _ _ _).mpr ⟨?_, p, hp, rfl⟩⟩
  have ht := hs.cues
  unfold stableCues at ht ⊢
  simp only [Bool.and_eq_true, decide_eq_true_eq] at ht ⊢
  simp only [colCues, hp, Option.map_some, Option.getD_some]
  refine ⟨⟨⟨(padTo8_len_iff v).mpr hv.1, ?_⟩, ht.1.2⟩, ht.2⟩
  rw [all_padTo8 cueStored rfl]; exact hv.2

theorem aok_mainCue (hc : CleanP r) (v : Option Bits) (h : acceptsRow r .mainCue v = true) :
    ∃ r', set o r .mainCue v = .ok r' := by
  obtain ⟨⟨p, hp⟩, hv⟩ := acceptsRow_blob r .mainCue v rfl h
  have hs := (stablePerf_iff p).mp (hc.perf p hp)
  simp only [valueOk] at hv
  simp only [set]
  refine ⟨_, (setCuesCol_iff _ _ _).mpr ⟨?_, p, hp, rfl⟩⟩
  have ht := hs.cues
  unfold stableCues at ht ⊢
  simp only [Bool.and_eq_true, decide_eq_true_eq] at ht ⊢
  simp only [colCues, hp, Option.map_some, Option.getD_some]
  rw [isNaN_getD]
  exact ⟨⟨⟨ht.1.1.1, ht.1.1.2⟩, hv⟩, hv⟩

theorem aok_hotCueAt (hc : CleanP r) (i : UInt32) (v : Option HotCue) (h : acceptsRow r (.hotCueAt i) v = true) :
    ∃ r', set o r (.hotCueAt i) v = .ok r' := by
  obtain ⟨⟨p, hp⟩, hv⟩ := acceptsRow_blob r (.hotCueAt i) v rfl h
  have hs := (stablePerf_iff p).mp (hc.perf p hp)
  simp only [valueOk, Bool.and_eq_true] at hv
  have hlen : (colCues r).cues.length = 8 := by simp [colCues, hp, hc.inv.cues p hp]
  obtain ⟨k, hk⟩ := (slotOf_8_iff i).mpr hv.1
  have hidx : slotIndex i (colCues r).cues = .ok k := by rw [slotIndex_eq, hlen, hk]
  simp only [set]
  rw [hidx]
  refine ⟨_, (setCuesCol_iff _ _ _).mpr ⟨?_, p, hp, rfl⟩⟩
  have ht := hs.cues
  unfold stableCues at ht ⊢
  simp only [Bool.and_eq_true, decide_eq_true_eq] at ht ⊢
  have hcol : (colCues r) = p.cues := by simp [colCues, hp]
  rw [hcol] at hlen ⊢
  have hlt : k < p.cues.cues.length := by rw [hlen]; exact slotOf_lt _ _ _ hk
  refine ⟨⟨⟨?_, ?_⟩, ht.1.2⟩, ht.2⟩
  · unfold setAt; rw [List.length_set]; exact hlen
  · unfold setAt; rw [all_set_iff cueStored _ k v hlt ht.1.1.2]; exact hv.2

theorem aok_loopAt (hc : CleanP r) (i : UInt32) (v : Option LoopV) (h : acceptsRow r (.loopAt i) v = true) :
    ∃ r', set o r (.loopAt i) v = .ok r' := by
  obtain ⟨⟨p, hp⟩, hv⟩ := acceptsRow_blob r (.loopAt i) v rfl h
  have hs := (stablePerf_iff p).mp (hc.perf p hp)
  simp only [valueOk, Bool.and_eq_true] at hv
  have hlen : (colLoops r).length = 8 := by simp [colLoops, hp, hc.inv.loops p hp]
  obtain ⟨k, hk⟩ := (slotOf_8_iff i).mpr hv.1
  have hidx : slotIndex i (colLoops r) = .ok k := by rw [slotIndex_eq, hlen, hk]
  simp only [set]
  rw [hidx]
  refine ⟨_, (setLoopsCol_iff _ _ _).mpr ⟨?_, p, hp, rfl⟩⟩
  have ht := hs.loops
  unfold stableLoops at ht ⊢
  have hcol : (colLoops r) = p.loops := by simp [colLoops, hp]
  rw [hcol] at hlen ⊢
  have hlt : k < p.loops.length := by rw [hlen]; exact slotOf_lt _ _ _ hk
  unfold setAt; rw [all_set_iff loopStored _ k v hlt ht]; exact hv.2

theorem aok_loops (hc : CleanP r) (v : List (Option LoopV)) (h : acceptsRow r .loops v = true) :
    ∃ r', set o r .loops v = .ok r' := by
  obtain ⟨⟨p, hp⟩, hv⟩ := acceptsRow_blob r .loops v rfl h
  simp only [valueOk, Bool.and_eq_true, decide_eq_true_eq] at hv
  simp only [set]
  have : ¬ 8 < v.length := by omega
  rw [if_neg this]
  refine ⟨_, (setLoopsCol_iff _ _ _).mpr ⟨?_, p, hp, rfl⟩⟩
  unfold stableLoops
  rw [all_padTo8 loopStored rfl]; exact hv.2

theorem aok_key (hc : CleanP r) (v : Option UInt32) (h : acceptsRow r .key v = true) :
    ∃ r', set o r .key v = .ok r' := by
  obtain ⟨⟨p, hp⟩, _⟩ := acceptsRow_blob r .key v rfl h
  have hs := (stablePerf_iff p).mp (hc.perf p hp)
  simp only [set]
  have hst : stableTrack { (colTrack r) with key := v.bind fun x => if x = 0 then none else some x } = true := by
    have ht := hs.track
    unfold stableTrack at ht ⊢
    simp only [Bool.and_eq_true] at ht ⊢
    simp only [colTrack, hp, Option.map_some, Option.getD_some]
    refine ⟨⟨⟨ht.1.1.1, ht.1.1.2⟩, ht.1.2⟩, ?_⟩
    cases v with
    | none => rfl
    | some x => by_cases hx : x = 0 <;> simp [hx]
  rw [(setTrackCol_iff _ _ _).mpr ⟨hst, p, hp, rfl⟩]
  exact ⟨_, rfl⟩

theorem aok_sampleCount (hc : CleanP r) (hl : FloatLaw o) (v : Option UInt64)
    (h : acceptsRow r .sampleCount v = true) : ∃ r', set o r .sampleCount v = .ok r' := by
  obtain ⟨⟨p, hp⟩, _⟩ := acceptsRow_blob r .sampleCount v rfl h
  have hs := (stablePerf_iff p).mp (hc.perf p hp)
  simp only [set]
  obtain ⟨secs, hsecs⟩ := lengthCalculated_ok (v.bind fun x => if x = 0 then none else some x) (colTrack r).sampleRate
  refine isOk_bind secs hsecs ?_
  have hbeat : stableBeat { (colBeat r) with
      sampleCount := (v.bind fun x => if x = 0 then none else some x).map fun k => o.ofU64 k.toNat } = true := by
    have ht := hs.beat
    unfold stableBeat at ht ⊢
    simp only [Bool.and_eq_true] at ht ⊢
    simp only [colBeat, hp, Option.map_some, Option.getD_some]
    exact ⟨⟨⟨⟨⟨ht.1.1.1.1.1, numOpt_count o hl v⟩, ht.1.1.1.2⟩, ht.1.1.2⟩, ht.1.2⟩, ht.2⟩
  refine isOk_bind _ ((setBeatCol_iff _ _ _).mpr ⟨hbeat, p, hp, rfl⟩) ?_
  have htrack : stableTrack { (colTrack r) with
      sampleCount := (v.bind fun x => if x = 0 then none else some x) } = true := by
    have ht := hs.track
    unfold stableTrack at ht ⊢
    simp only [Bool.and_eq_true] at ht ⊢
    simp only [colTrack, hp, Option.map_some, Option.getD_some]
    refine ⟨⟨⟨ht.1.1.1, ?_⟩, ht.1.2⟩, ht.2⟩
    cases v with
    | none => rfl
    | some x => by_cases hx : x = 0 <;> simp [hx]
  refine isOk_bind _ ((setTrackCol_iff _ _ _).mpr ⟨htrack, _, rfl, rfl⟩) ?_
  split
  · exact ⟨_, rfl⟩
  · obtain ⟨e, he⟩ := ovwExtents_ok o ((v.bind fun x => if x = 0 then none else some x).getD 0)
      ((colTrack r).sampleRate.getD F64.zero)
    refine isOk_bind e he ?_
    refine ⟨_, (setOvwCol_iff _ _ _).mpr ⟨?_, _, rfl, rfl⟩⟩
    unfold stableWave
    simp only [ovwExtents_num o hl _ _ e he, Bool.not_false]

theorem aok_sampleRate (hc : CleanP r) (hl : FloatLaw o) (v : Option Bits)
    (h : acceptsRow r .sampleRate v = true) : ∃ r', set o r .sampleRate v = .ok r' := by
  obtain ⟨⟨p, hp⟩, hv⟩ := acceptsRow_blob r .sampleRate v rfl h
  have hs := (stablePerf_iff p).mp (hc.perf p hp)
  simp only [valueOk] at hv
  simp only [set]
  obtain ⟨secs, hsecs⟩ := lengthCalculated_ok (colTrack r).sampleCount (zeroNoneF v)
  refine isOk_bind secs hsecs ?_
  have hbeat : stableBeat { (colBeat r) with sampleRate := zeroNoneF v } = true := by
    have ht := hs.beat
    unfold stableBeat at ht ⊢
    simp only [Bool.and_eq_true] at ht ⊢
    simp only [colBeat, hp, Option.map_some, Option.getD_some]
    refine ⟨⟨⟨⟨⟨?_, ht.1.1.1.1.2⟩, ht.1.1.1.2⟩, ht.1.1.2⟩, ht.1.2⟩, ht.2⟩
    rw [numOpt_znf]; exact hv
  refine isOk_bind _ ((setBeatCol_iff _ _ _).mpr ⟨hbeat, p, hp, rfl⟩) ?_
  have htrack : stableTrack { (colTrack r) with sampleRate := zeroNoneF v } = true := by
    have ht := hs.track
    unfold stableTrack at ht ⊢
    simp only [Bool.and_eq_true] at ht ⊢
    simp only [colTrack, hp, Option.map_some, Option.getD_some]
    refine ⟨⟨⟨?_, ht.1.1.2⟩, ht.1.2⟩, ht.2⟩
    rw [numOpt_znf]; exact hv
  refine isOk_bind _ ((setTrackCol_iff _ _ _).mpr ⟨htrack, _, rfl, rfl⟩) ?_
  refine isOk_bind_P (fun r4 : TrackRows => ∃ p4, r4.perf = some p4) ?_ ?_
  · split
    · exact ⟨_, rfl, _, rfl⟩
    · obtain ⟨e, he⟩ := hiresExtents_ok o ((colTrack r).sampleCount.getD 0) ((zeroNoneF v).getD F64.zero)
      have hw : stableWave { (colHires r) with spe := e.2 } = true := by
        unfold stableWave
        simp only [hiresExtents_num o hl _ _ e he, Bool.not_false]
      rw [he]
      simp only [bind, Res.bind]
      exact ⟨_, (setHiresCol_iff _ _ _).mpr ⟨hw, _, rfl, rfl⟩, _, rfl⟩
  · intro r4 ⟨p4, hp4⟩
    split
    · exact ⟨_, rfl⟩
    · obtain ⟨e, he⟩ := ovwExtents_ok o ((colTrack r).sampleCount.getD 0) ((zeroNoneF v).getD F64.zero)
      refine isOk_bind e he ?_
      refine ⟨_, (setOvwCol_iff _ _ _).mpr ⟨?_, p4, hp4, rfl⟩⟩
      unfold stableWave
      simp only [ovwExtents_num o hl _ _ e he, Bool.not_false]

theorem aok_waveform (hc : CleanP r) (hl : FloatLaw o) (v : List Entry)
    (h : acceptsRow r .waveform v = true) : ∃ r', set o r .waveform v = .ok r' := by
  obtain ⟨⟨p, hp⟩, _⟩ := acceptsRow_blob r .waveform v rfl h
  simp only [set]
  have hpair : ∃ ov hi : Wave, stableWave ov = true ∧ stableWave hi = true ∧
      (if v.isEmpty = true then (pure ((⟨F64.zero, []⟩ : Wave), (⟨F64.zero, []⟩ : Wave)) : Res (Wave × Wave)) else do
        let oe ← ovwExtents o ((colTrack r).sampleCount.getD 0) ((colTrack r).sampleRate.getD F64.zero)
        let es ← resample v oe.1
        let he ← hiresExtents o ((colTrack r).sampleCount.getD 0) ((colTrack r).sampleRate.getD F64.zero)
        pure ((⟨oe.2, es⟩ : Wave), (⟨he.2, v⟩ : Wave))) = .ok (ov, hi) := by
    split
    · exact ⟨_, _, by decide, by decide, rfl⟩
    · rename_i hw
      have hne : v ≠ [] := by intro h; apply hw; rw [h]; rfl
      obtain ⟨oe, hoe⟩ := ovwExtents_ok o ((colTrack r).sampleCount.getD 0) ((colTrack r).sampleRate.getD F64.zero)
      obtain ⟨es, hes⟩ := resample_ok v oe.1 hne
      obtain ⟨he, hhe⟩ := hiresExtents_ok o ((colTrack r).sampleCount.getD 0) ((colTrack r).sampleRate.getD F64.zero)
      refine ⟨⟨oe.2, es⟩, ⟨he.2, v⟩, ?_, ?_, ?_⟩
      · unfold stableWave; simp only [ovwExtents_num o hl _ _ oe hoe, Bool.not_false]
      · unfold stableWave; simp only [hiresExtents_num o hl _ _ he hhe, Bool.not_false]
      · rw [hoe]; simp only [bind, Res.bind]; rw [hes]; simp only [Res.bind]; rw [hhe]; rfl
  obtain ⟨ov, hi, hov, hhi, hpair⟩ := hpair
  refine isOk_bind (ov, hi) hpair ?_
  simp only
  refine isOk_bind _ ((setOvwCol_iff _ _ _).mpr ⟨hov, p, hp, rfl⟩) ?_
  exact ⟨_, (setHiresCol_iff _ _ _).mpr ⟨hhi, _, rfl, rfl⟩⟩

end AcceptsOk

/-- **Acceptance.**  On rows as the library builds them, under the float law: a setter returns normally
exactly when its explicit guard holds. -/
theorem acceptsRow_iff (o : FOps) (r : TrackRows) (hc : CleanP r) (hl : FloatLaw o) (f : Field) (v : f.ty) :
    acceptsRow r f v = true ↔ ∃ r', set o r f v = .ok r' := by
  constructor
  · intro h
    cases f with
    | album | artist | comment | composer | genre | publisher | title | bitrate | duration | lastPlayedAt | rating
    | relativePath | trackNumber | year => exact ⟨_, rfl⟩
    | bpm =>
      have hd := ceiledBpm_defined o hl.ceil v
      simp only [set]
      cases hcb : ceiledBpm o v with
      | ok c => exact ⟨_, rfl⟩
      | throw e => unfold ceiledBpm at hcb; split at hcb <;> (try split at hcb) <;> (try split at hcb) <;> cases hcb
      | ub u => exact absurd hcb (hd u)
    | averageLoudness => exact aok_averageLoudness o r hc v h
    | beatgrid => exact aok_beatgrid o r hc v h
    | hotCues => exact aok_hotCues o r hc v h
    | mainCue => exact aok_mainCue o r hc v h
    | hotCueAt i => exact aok_hotCueAt o r hc i v h
    | loopAt i => exact aok_loopAt o r hc i v h
    | loops => exact aok_loops o r hc v h
    | key => exact aok_key o r hc v h
    | sampleCount => exact aok_sampleCount o r hc hl v h
    | sampleRate => exact aok_sampleRate o r hc hl v h
    | waveform => exact aok_waveform o r hc hl v h
  · intro ⟨r', h⟩
    exact set_ok_accepts o r r' f v hc.inv h

end EngineModel.TracksV1
