/-
Bit-level facts about the guards of the 1.x track code: inside the guard
`fabs(x) < 2^63` (resp. `1 <= x < 2^63`) the cast `static_cast<int64_t>(x)`
is defined (resp. defined and at least 1).
-/
import EngineModel.TracksV1.Float

namespace EngineModel.TracksV1.Fl

open EngineModel

theorem fabs_toNat (x : Bits) : (fabs x).toNat = x.toNat % 9223372036854775808 := by
  unfold fabs signBit
  have h := x.toNat_lt
  simp [UInt64.toNat_ofNat]
  omega

/-- Inside `fabs(x) < 2^63` the biased exponent is at most 1085. -/
theorem absLt63_exp (x : Bits) (h : absLt63 x = true) : F64.expOf x ≤ 1085 := by
  unfold absLt63 F64.lt at h
  simp only [Bool.and_eq_true, Bool.not_eq_true', decide_eq_true_eq] at h
  obtain ⟨⟨_, _⟩, hk⟩ := h
  have hf := fabs_toNat x
  have hx := x.toNat_lt
  unfold F64.key at hk
  have h63 : two63.toNat = 4890909195324358656 := by decide
  rw [h63, hf] at hk
  simp only [show (4890909195324358656 : Nat) < 9223372036854775808 by decide, if_true] at hk
  have hlt : x.toNat % 9223372036854775808 < 9223372036854775808 := Nat.mod_lt _ (by decide)
  simp only [hlt, if_true] at hk
  unfold F64.expOf
  omega

theorem pow_le_1024 (k : Nat) (h : k ≤ 10) : 2 ^ k ≤ 1024 := by
  have : 2 ^ k ≤ 2 ^ 10 := Nat.pow_le_pow_right (by decide) h
  simpa using this

/-- The magnitude computed by `toI64` is below 2^63 when the exponent is at most 1085. -/
theorem mag_lt (m e : Nat) (hm : m < 4503599627370496) (he : e ≤ 1085) :
    (if e = 0 then 0
      else if e ≥ 1075 then (m + 4503599627370496) * 2 ^ (e - 1075)
      else (m + 4503599627370496) / 2 ^ (1075 - e)) < 9223372036854775808 := by
  split
  · decide
  · split
    · have hp : 2 ^ (e - 1075) ≤ 1024 := pow_le_1024 _ (by omega)
      have h1 : (m + 4503599627370496) * 2 ^ (e - 1075) ≤ (m + 4503599627370496) * 1024 :=
        Nat.mul_le_mul_left _ hp
      omega
    · have : (m + 4503599627370496) / 2 ^ (1075 - e) ≤ m + 4503599627370496 := Nat.div_le_self _ _
      omega

theorem toI64_some_of_absLt63 (x : Bits) (h : absLt63 x = true) : ∃ v, toI64 x = some v := by
  have he := absLt63_exp x h
  have hm : F64.manOf x < 4503599627370496 := by unfold F64.manOf; exact Nat.mod_lt _ (by decide)
  have hmag := mag_lt (F64.manOf x) (F64.expOf x) hm he
  unfold toI64
  simp only
  have hne : ¬ F64.expOf x = 2047 := by omega
  rw [if_neg hne]
  generalize hM : (if F64.expOf x = 0 then 0
      else if F64.expOf x ≥ 1075 then (F64.manOf x + 4503599627370496) * 2 ^ (F64.expOf x - 1075)
      else (F64.manOf x + 4503599627370496) / 2 ^ (1075 - F64.expOf x)) = M at hmag ⊢
  have hin : Cxx.inI64 (if F64.signOf x = true then -(M : Int) else (M : Int)) = true := by
    unfold Cxx.inI64 Cxx.i64Min Cxx.i64Max
    simp only [decide_eq_true_eq]
    split <;> omega
  rw [if_pos hin]
  exact ⟨_, rfl⟩

/-- `extentsRate`'s result can always be cast. -/
theorem toI64_zero : toI64 F64.zero = some 0 := by decide

/-- Inside `1 <= x < 2^63` the cast is defined and at least 1. -/
theorem toI64_pos_of_rateDivisible (x : Bits) (h : rateDivisible x = true) : ∃ d, toI64 x = some d ∧ 1 ≤ d := by
  unfold rateDivisible at h
  simp only [Bool.and_eq_true] at h
  obtain ⟨h1, h2⟩ := h
  -- x >= 1: not NaN, key x >= key one > 0, so the sign bit is clear and the exponent is >= 1023
  unfold F64.le at h1
  simp only [Bool.and_eq_true, Bool.not_eq_true', decide_eq_true_eq] at h1
  obtain ⟨⟨_, hnan⟩, hk1⟩ := h1
  unfold F64.lt at h2
  simp only [Bool.and_eq_true, Bool.not_eq_true', decide_eq_true_eq] at h2
  obtain ⟨_, hk2⟩ := h2
  have hx := x.toNat_lt
  have hone : F64.key F64.one = 4607182418800017408 := by decide
  have h63 : F64.key two63 = 4890909195324358656 := by decide
  rw [hone] at hk1
  rw [h63] at hk2
  have hpos : x.toNat < 9223372036854775808 := by
    unfold F64.key at hk1
    split at hk1
    · assumption
    · omega
  have hkx : F64.key x = (x.toNat : Int) := by unfold F64.key; rw [if_pos hpos]
  rw [hkx] at hk1 hk2
  have hsign : F64.signOf x = false := by unfold F64.signOf; simp; omega
  have helo : 1023 ≤ F64.expOf x := by unfold F64.expOf; omega
  have hehi : F64.expOf x ≤ 1085 := by unfold F64.expOf; omega
  have hm : F64.manOf x < 4503599627370496 := by unfold F64.manOf; exact Nat.mod_lt _ (by decide)
  have hmag := mag_lt (F64.manOf x) (F64.expOf x) hm hehi
  unfold toI64
  simp only
  have hne : ¬ F64.expOf x = 2047 := by omega
  rw [if_neg hne]
  have hne0 : ¬ F64.expOf x = 0 := by omega
  rw [if_neg hne0] at hmag ⊢
  rw [hsign]
  simp only [Bool.false_eq_true, if_false]
  generalize hM : (if F64.expOf x ≥ 1075 then (F64.manOf x + 4503599627370496) * 2 ^ (F64.expOf x - 1075)
      else (F64.manOf x + 4503599627370496) / 2 ^ (1075 - F64.expOf x)) = M at hmag ⊢
  have hM1 : 1 ≤ M := by
    rw [← hM]
    split
    · have : 1 ≤ 2 ^ (F64.expOf x - 1075) := Nat.one_le_two_pow
      have : 4503599627370496 ≤ (F64.manOf x + 4503599627370496) * 2 ^ (F64.expOf x - 1075) := by
        calc 4503599627370496 ≤ F64.manOf x + 4503599627370496 := by omega
          _ = (F64.manOf x + 4503599627370496) * 1 := by omega
          _ ≤ _ := Nat.mul_le_mul_left _ this
      omega
    · have hp : 2 ^ (1075 - F64.expOf x) ≤ 2 ^ 52 := Nat.pow_le_pow_right (by decide) (by omega)
      have hp' : 2 ^ (1075 - F64.expOf x) ≤ 4503599627370496 := by simpa using hp
      have hpos2 : 0 < 2 ^ (1075 - F64.expOf x) := Nat.two_pow_pos _
      exact (Nat.one_le_div_iff hpos2).mpr (by omega)
  have hin : Cxx.inI64 (M : Int) = true := by
    unfold Cxx.inI64 Cxx.i64Min Cxx.i64Max
    simp only [decide_eq_true_eq]
    omega
  rw [if_pos hin]
  exact ⟨_, rfl, by omega⟩

end EngineModel.TracksV1.Fl
