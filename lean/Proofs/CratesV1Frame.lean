/-
What each operation of the schema-1.x model does to the stored membership rows
(from a state satisfying `Inv`), and the frame property of C08 derived from it.
-/
import Proofs.CratesV1MemSim

namespace EngineModel.Api.CratesV1
open EngineModel.Pure.Detect EngineModel.Spec

variable {db : Db}

/-- The membership table after one step. -/
def CtlShape (db : Db) (op : Op) (ctl' : List (Id × Id)) : Prop :=
  match op with
  | .addTrack c t => ctl' = db.ctl ∨ ctl' = db.ctl.filter (fun r => !(r.1 == c && r.2 == t)) ++ [(c, t)]
  | .removeTrackFrom c t => ctl' = db.ctl.filter (fun r => !(r.1 == c && r.2 == t))
  | .clearTracks c => ctl' = db.ctl.filter (fun r => !(r.1 == c))
  | .removeTrack t => ctl' = db.ctl.filter (fun r => !(r.2 == t))
  | .removeCrate c => ∀ p, p ∈ ctl' ↔ (p ∈ db.ctl ∧ ¬ Sub db c p.1)
  | _ => ctl' = db.ctl

theorem ctl_step (s : Schema) (h : Inv db) (op : Op) : CtlShape db op (step s db op).1.ctl := by
  cases op with
  | createRoot n =>
    show (createRootCrate s db n).1.ctl = db.ctl
    rcases validName_cases n with hv | hv
    · by_cases hd : RootNamed db n
      · rw [createRoot_dup s db hv hd]
      · rw [createRoot_ok s db hv hd]; rfl
    · rw [createRoot_invalid s db hv]
  | createSub c n =>
    show (createSubCrate s db c n).1.ctl = db.ctl
    rcases validName_cases n with hv | hv
    · by_cases hd : SubNamed db c n
      · rw [createSub_dup s db c hv hd]
      · by_cases hc : c ∈ ids db
        · rw [createSub_ok s h.idsNodup hv hd hc]; rfl
        · rw [createSub_dead s db hv hd hc]
    · rw [createSub_invalid s db c hv]
  | rename c n =>
    show (setName s db c n).1.ctl = db.ctl
    rcases validName_cases n with hv | hv
    · by_cases hc : c ∈ ids db
      · rw [setName_ok s h.toFInv hv hc]; rfl
      · rw [setName_dead s db hv hc]
    · rw [setName_invalid s db c hv]
  | setParent c parent =>
    show (setParent s db c parent).1.ctl = db.ctl
    by_cases hself : parent = some c
    · subst hself; rw [setParent_self]
    · by_cases hc : c ∈ ids db
      · cases parent with
        | none => rw [setParent_ok s h.toFInv ⟨hc, fun q hq => by cases hq⟩]; rfl
        | some q =>
          have hqc : q ≠ c := fun e => hself (by rw [e])
          by_cases hq : q ∈ ids db
          · by_cases hcyc : (c, q) ∈ db.ch
            · rw [setParent_cycle s h.idsNodup hqc hc hq hcyc]
            · rw [setParent_ok s h.toFInv ⟨hc, fun q' hq' => by cases hq'; exact ⟨hq, hqc, hcyc⟩⟩]; rfl
          · rw [setParent_dead_parent s h.idsNodup hqc hc hq]
      · rw [setParent_dead s db hself hc]
  | removeCrate c =>
    show ∀ p, p ∈ (removeCrate s db c).1.ctl ↔ _
    rw [removeCrate_eq s h c]
    exact mem_ctl_afterRemove db c
  | addTrack c t =>
    show (addTrack s db c t).1.ctl = db.ctl ∨ (addTrack s db c t).1.ctl = _
    by_cases hc : c ∈ ids db
    · by_cases ht : liveTrack db t
      · rw [addTrack_ok s h hc ht]; exact Or.inr rfl
      · rw [addTrack_dead_track s h.idsNodup hc ht]; exact Or.inl rfl
    · rw [addTrack_dead s db t hc]; exact Or.inl rfl
  | removeTrackFrom c t =>
    show (removeTrackFrom s db c t).1.ctl = _
    rw [removeTrackFrom_eq s h]; rfl
  | clearTracks c =>
    show (clearTracks s db c).1.ctl = _
    rw [clearTracks_eq s h]; rfl
  | createTrack =>
    show (createTrack s db).1.ctl = db.ctl
    obtain ⟨id, seq, e, _⟩ := createTrack_spec s db
    rw [e]
  | removeTrack t =>
    exact (removeTrack_spec s h t).2.2.2.2.1

/-- C08's frame property on the stored rows. -/
theorem frame_ctl (s : Schema) (h : Inv db) (op : Op) (p : Id × Id) (hp : touches (absForest db) op p = false) :
    p ∈ (step s db op).1.ctl ↔ p ∈ db.ctl := by
  have hshape := ctl_step s h op
  cases op with
  | addTrack c t =>
    rcases hshape with e | e
    · rw [e]
    · rw [e, List.mem_append, List.mem_filter, List.mem_singleton]
      have hp' : (p.1 == c && p.2 == t) = false := hp
      have hne : p ≠ (c, t) := by
        rw [← not_pair_iff, hp']; rfl
      constructor
      · rintro (⟨hm, _⟩ | e)
        · exact hm
        · exact absurd e hne
      · intro hm; exact Or.inl ⟨hm, (not_pair_iff p c t).mpr hne⟩
  | removeTrackFrom c t =>
    have e : (step s db (.removeTrackFrom c t)).1.ctl = _ := hshape
    rw [e, List.mem_filter]
    have hp' : (p.1 == c && p.2 == t) = false := hp
    have : (!(p.1 == c && p.2 == t)) = true := by rw [hp']; rfl
    exact ⟨fun hm => hm.1, fun hm => ⟨hm, this⟩⟩
  | clearTracks c =>
    have e : (step s db (.clearTracks c)).1.ctl = _ := hshape
    rw [e, List.mem_filter]
    have : (!(p.1 == c)) = true := by simpa [touches] using hp
    exact ⟨fun hm => hm.1, fun hm => ⟨hm, this⟩⟩
  | removeTrack t =>
    have e : (step s db (.removeTrack t)).1.ctl = _ := hshape
    rw [e, List.mem_filter]
    have : (!(p.2 == t)) = true := by simpa [touches] using hp
    exact ⟨fun hm => hm.1, fun hm => ⟨hm, this⟩⟩
  | removeCrate c =>
    have e : ∀ p, p ∈ (step s db (.removeCrate c)).1.ctl ↔ _ := hshape
    rw [e]
    have hns : ¬ Sub db c p.1 := by
      rw [sub_iff_abs h.toFInv]
      simp only [touches, Bool.or_eq_false_iff, beq_eq_false_iff_ne, ne_eq] at hp
      rintro (e | e)
      · exact hp.1 e
      · rw [hp.2] at e; cases e
    exact ⟨fun hm => hm.1, fun hm => ⟨hm, hns⟩⟩
  | createRoot n => have e : (step s db (.createRoot n)).1.ctl = db.ctl := hshape; rw [e]
  | createSub c n => have e : (step s db (.createSub c n)).1.ctl = db.ctl := hshape; rw [e]
  | rename c n => have e : (step s db (.rename c n)).1.ctl = db.ctl := hshape; rw [e]
  | setParent c q => have e : (step s db (.setParent c q)).1.ctl = db.ctl := hshape; rw [e]
  | createTrack => have e : (step s db .createTrack).1.ctl = db.ctl := hshape; rw [e]

end EngineModel.Api.CratesV1
