/-
Round-trip lemmas for the lossless SQL lexer of `EngineModel/Spec/SqlCanon.lean`:

* `unlex_lex`   : `unlex (lex s) = s`                         (lossless)
* `lex_wf`      : `LexWf (lex s)`                             (image is well formed)
* `lex_unlex`   : `LexWf ls → lex (unlex ls) = ls`            (bijection onto `LexWf`)
* `canon_unlex`, `canon_render`, `canon_tokWf`                (canonical rendering)
-/
import EngineModel.Spec.SqlCanon

namespace EngineModel.Spec.SqlCanon

/-! ### list helpers -/

theorem dropWhile_head_false {p : Char → Bool} {l : List Char} {x : Char} {r : List Char}
    (h : l.dropWhile p = x :: r) : p x = false := by
  induction l with
  | nil => simp at h
  | cons a l ih =>
    rw [List.dropWhile_cons] at h
    split at h
    · exact ih h
    · next hn =>
      injection h with h1 h2
      subst h1
      simpa using hn

theorem dropWhile_nil_all {p : Char → Bool} {l : List Char}
    (h : l.dropWhile p = []) : l.all p = true := by
  induction l with
  | nil => rfl
  | cons a l ih =>
    rw [List.dropWhile_cons] at h
    split at h
    · next hp => simp [hp, ih h]
    · simp at h

theorem all_dropWhile_nil {p : Char → Bool} {l : List Char}
    (h : l.all p = true) : l.dropWhile p = [] := by
  induction l with
  | nil => rfl
  | cons a l ih =>
    simp only [List.all_cons, Bool.and_eq_true] at h
    rw [List.dropWhile_cons, if_pos h.1]
    exact ih h.2

theorem all_takeWhile_self {p : Char → Bool} {l : List Char}
    (h : l.all p = true) : l.takeWhile p = l := by
  induction l with
  | nil => rfl
  | cons a l ih =>
    simp only [List.all_cons, Bool.and_eq_true] at h
    rw [List.takeWhile_cons, if_pos h.1, ih h.2]

theorem takeWhile_all (p : Char → Bool) (l : List Char) : (l.takeWhile p).all p = true := by
  induction l with
  | nil => rfl
  | cons a l ih =>
    rw [List.takeWhile_cons]
    split
    · next hp => simp [hp, ih]
    · rfl

theorem headIs_dropWhile (p : Char → Bool) (l : List Char) :
    headIs p (l.dropWhile p) = false := by
  cases h : l.dropWhile p with
  | nil => rfl
  | cons x r => exact dropWhile_head_false h

theorem takeWhile_app {p : Char → Bool} {cs r : List Char}
    (hc : cs.all p = true) (hr : headIs p r = false) : (cs ++ r).takeWhile p = cs := by
  induction cs with
  | nil =>
    cases r with
    | nil => rfl
    | cons x r => simp only [headIs] at hr; simp [hr]
  | cons a cs ih =>
    simp only [List.all_cons, Bool.and_eq_true] at hc
    rw [List.cons_append, List.takeWhile_cons, if_pos hc.1, ih hc.2]

theorem dropWhile_app {p : Char → Bool} {cs r : List Char}
    (hc : cs.all p = true) (hr : headIs p r = false) : (cs ++ r).dropWhile p = r := by
  induction cs with
  | nil =>
    cases r with
    | nil => rfl
    | cons x r => simp only [headIs] at hr; simp [hr]
  | cons a cs ih =>
    simp only [List.all_cons, Bool.and_eq_true] at hc
    rw [List.cons_append, List.dropWhile_cons, if_pos hc.1, ih hc.2]

/-! ### character classes -/

theorem isWs_cases {c : Char} (h : isWs c = true) :
    c = ' ' ∨ c = '\t' ∨ c = '\n' ∨ c = '\r' ∨ c = '\x0b' ∨ c = '\x0c' := by
  simpa only [isWs, Bool.or_eq_true, beq_iff_eq, or_assoc] using h

theorem not_ws_of_word {c : Char} (h : isWordChar c = true) : isWs c = false := by
  cases hw : isWs c with
  | false => rfl
  | true =>
    rcases isWs_cases hw with rfl | rfl | rfl | rfl | rfl | rfl <;> revert h <;> decide

theorem twoOp_fst {c d : Char} (h : twoOp c d = true) :
    c = '|' ∨ c = '<' ∨ c = '>' ∨ c = '=' ∨ c = '!' := by
  simp only [twoOp, Bool.or_eq_true, Bool.and_eq_true, beq_iff_eq] at h
  rcases h with (((h | h) | h) | h) | h
  · exact .inl h.1
  · exact .inr (.inl h.1)
  · exact .inr (.inr (.inl h.1))
  · exact .inr (.inr (.inr (.inl h.1)))
  · exact .inr (.inr (.inr (.inr h.1)))

theorem twoOp_ne_minus {c d : Char} (h : twoOp c d = true) : c ≠ '-' ∧ c ≠ '/' := by
  rcases twoOp_fst h with rfl | rfl | rfl | rfl | rfl <;> decide

theorem symChar_spec {c : Char} (h : isSymChar c = true) :
    isWs c = false ∧ isWordChar c = false ∧ c ≠ '[' ∧ c ≠ '"' ∧ c ≠ '`' ∧ c ≠ '\'' := by
  simp only [isSymChar, isQuoteStart, Bool.and_eq_true, Bool.not_eq_true', Bool.or_eq_false_iff,
    beq_eq_false_iff_ne] at h
  obtain ⟨⟨h1, h2⟩, ⟨⟨h3, h4⟩, h5⟩, h6⟩ := h
  exact ⟨h1, h2, h3, h4, h5, h6⟩

theorem symChar_of {c : Char} (h1 : ¬ isWs c = true) (h2 : ¬ isWordChar c = true)
    (h3 : c ≠ '[') (h4 : c ≠ '"') (h5 : c ≠ '`') (h6 : c ≠ '\'') : isSymChar c = true := by
  simp [isSymChar, isQuoteStart, h1, h2, h3, h4, h5, h6]

/-! ### `escQ` / `scanQ` -/

@[simp] theorem escQ_nil (q : Char) : escQ q [] = [] := rfl

theorem escQ_cons (q a : Char) (c : List Char) :
    escQ q (a :: c) = (if a = q then [q, q] else [a]) ++ escQ q c := by
  simp [escQ]

theorem scanQ_sound (q : Char) : ∀ (s : List Char) {c r : List Char},
    scanQ q s = some (c, r) → escQ q c ++ q :: r = s ∧ headIs (· == q) r = false
  | [], _, _, h => by simp [scanQ] at h
  | [a], c, r, h => by
    simp only [scanQ] at h
    split at h
    · next ha =>
      injection h with h; injection h with h1 h2
      subst h1 h2 ha
      exact ⟨rfl, rfl⟩
    · simp at h
  | a :: d :: t, c, r, h => by
    by_cases ha : a = q
    · by_cases hd : d = q
      · rw [scanQ, if_pos ha, if_pos hd] at h
        cases hs : scanQ q t with
        | none => rw [hs] at h; simp at h
        | some p =>
          obtain ⟨c', r'⟩ := p
          rw [hs] at h
          simp only [Option.map_some, Option.some.injEq, Prod.mk.injEq] at h
          obtain ⟨rfl, rfl⟩ := h
          obtain ⟨e, hh⟩ := scanQ_sound q t hs
          refine ⟨?_, hh⟩
          rw [escQ_cons, if_pos rfl, ← e, ha, hd]
          rfl
      · rw [scanQ, if_pos ha, if_neg hd] at h
        simp only [Option.some.injEq, Prod.mk.injEq] at h
        obtain ⟨rfl, rfl⟩ := h
        refine ⟨by rw [ha]; rfl, ?_⟩
        simp [headIs, hd]
    · rw [scanQ, if_neg ha] at h
      cases hs : scanQ q (d :: t) with
      | none => rw [hs] at h; simp at h
      | some p =>
        obtain ⟨c', r'⟩ := p
        rw [hs] at h
        simp only [Option.map_some, Option.some.injEq, Prod.mk.injEq] at h
        obtain ⟨rfl, rfl⟩ := h
        obtain ⟨e, hh⟩ := scanQ_sound q (d :: t) hs
        refine ⟨?_, hh⟩
        rw [escQ_cons, if_neg ha, ← e]
        rfl

theorem scanQ_cons_ne {q a : Char} (h : a ≠ q) (t : List Char) :
    scanQ q (a :: t) = (scanQ q t).map fun p => (a :: p.1, p.2) := by
  cases t with
  | nil => simp [scanQ, h]
  | cons d t => simp [scanQ, h]

theorem scanQ_complete (q : Char) {r : List Char} (hr : headIs (· == q) r = false) :
    ∀ c : List Char, scanQ q (escQ q c ++ q :: r) = some (c, r)
  | [] => by
    cases r with
    | nil => simp [scanQ]
    | cons d r =>
      have hd : d ≠ q := by simpa [headIs] using hr
      simp [scanQ, hd]
  | a :: c => by
    have ih := scanQ_complete q hr c
    rw [escQ_cons]
    by_cases ha : a = q
    · subst ha
      simp [scanQ, ih]
    · rw [if_neg ha]
      show scanQ q (a :: (escQ q c ++ q :: r)) = _
      rw [scanQ_cons_ne ha, ih]
      rfl

/-! ### `scanBC` / `noSS` -/

theorem scanBC_fst_head (d : Char) (r : List Char) :
    (scanBC (d :: r)).1 = [] ∨ ∃ b, (scanBC (d :: r)).1 = d :: b := by
  cases r with
  | nil => exact .inr ⟨[], rfl⟩
  | cons e r =>
    simp only [scanBC]
    split
    · exact .inl rfl
    · exact .inr ⟨_, rfl⟩

theorem scanBC_sound : ∀ s : List Char,
    ((scanBC s).1 ++ (if (scanBC s).2.1 then ['*', '/'] else []) ++ (scanBC s).2.2 = s) ∧
    noSS (scanBC s).1 = true ∧ ((scanBC s).2.1 = false → (scanBC s).2.2 = [])
  | [] => by simp [scanBC, noSS]
  | [c] => by simp [scanBC, noSS]
  | c :: d :: r => by
    obtain ⟨ih1, ih2, ih3⟩ := scanBC_sound (d :: r)
    simp only [scanBC]
    split
    · next hcd =>
      obtain ⟨rfl, rfl⟩ := hcd
      simp [noSS]
    · next hcd =>
      refine ⟨?_, ?_, ih3⟩
      · simp only [List.cons_append]
        rw [ih1]
      · rcases scanBC_fst_head d r with h0 | ⟨b, hb⟩
        · simp only [h0, noSS]
        · rw [hb] at ih2 ⊢
          simp only [noSS, if_neg hcd]
          exact ih2

theorem scanBC_closed (r : List Char) : ∀ b : List Char, noSS b = true →
    scanBC (b ++ '*' :: '/' :: r) = (b, true, r)
  | [], _ => by simp [scanBC]
  | [c], _ => by simp [scanBC]
  | c :: d :: b, h => by
    simp only [noSS] at h
    split at h
    · simp at h
    · next hcd =>
      have ih := scanBC_closed r (d :: b) h
      simp only [List.cons_append] at ih ⊢
      simp only [scanBC, if_neg hcd, ih]

theorem scanBC_open : ∀ b : List Char, noSS b = true → scanBC b = (b, false, [])
  | [], _ => rfl
  | [c], _ => rfl
  | c :: d :: b, h => by
    simp only [noSS] at h
    split at h
    · simp at h
    · next hcd =>
      have ih := scanBC_open (d :: b) h
      simp only [scanBC, if_neg hcd, ih]

/-! ### one lexeme -/

theorem unlex_nil : unlex [] = [] := rfl

theorem unlex_cons (l : Lexeme) (ls : List Lexeme) : unlex (l :: ls) = raw l ++ unlex ls := by
  simp [unlex]

theorem lexOne_spec {s : List Char} {l : Lexeme} {r : List Char} (h : lexOne s = some (l, r)) :
    raw l ++ r = s ∧ wfL l = true ∧ compat l r = true := by
  cases s with
  | nil => simp [lexOne] at h
  | cons c cs =>
    simp only [lexOne] at h
    split at h
    · next hws =>
      injection h with h; injection h with h1 h2
      subst h1 h2
      refine ⟨?_, ?_, ?_⟩
      · simp [raw, List.takeWhile_append_dropWhile]
      · simp [wfL, hws]
      · simp [compat, headIs_dropWhile]
    split at h
    · next hws hwc =>
      injection h with h; injection h with h1 h2
      subst h1 h2
      refine ⟨?_, ?_, ?_⟩
      · simp [raw, List.takeWhile_append_dropWhile]
      · simp [wfL, hwc]
      · simp [compat, headIs_dropWhile]
    split at h
    · next hws hwc hc =>
      subst hc
      split at h
      · next hd =>
        injection h with h; injection h with h1 h2
        subst h1 h2
        refine ⟨by simp [raw], ?_, rfl⟩
        simp only [wfL, beq_self_eq_true, Bool.true_and, dropWhile_nil_all hd, Bool.true_or]
      · next x r' hd =>
        injection h with h; injection h with h1 h2
        subst h1 h2
        have hx : x = ']' := by simpa using dropWhile_head_false hd
        subst hx
        refine ⟨?_, ?_, rfl⟩
        · have := List.takeWhile_append_dropWhile (p := (· != ']')) (l := cs)
          rw [hd] at this
          simp [raw, rawQuoted, this]
        · simp only [wfL, takeWhile_all]
    split at h
    · next hws hwc hc1 hc =>
      subst hc
      split at h
      · next content r' hs =>
        injection h with h; injection h with h1 h2
        subst h1 h2
        obtain ⟨e, hh⟩ := scanQ_sound _ _ hs
        refine ⟨?_, rfl, ?_⟩
        · simp [raw, rawQuoted, e]
        · simp only [compat, hh, Bool.not_false]
      · next hs =>
        injection h with h; injection h with h1 h2
        subst h1 h2
        refine ⟨by simp [raw], ?_, rfl⟩
        simp [wfL, hs]
    split at h
    · next hws hwc hc1 hc2 hc =>
      subst hc
      split at h
      · next content r' hs =>
        injection h with h; injection h with h1 h2
        subst h1 h2
        obtain ⟨e, hh⟩ := scanQ_sound _ _ hs
        refine ⟨?_, rfl, ?_⟩
        · simp [raw, rawQuoted, e]
        · simp only [compat, hh, Bool.not_false]
      · next hs =>
        injection h with h; injection h with h1 h2
        subst h1 h2
        refine ⟨by simp [raw], ?_, rfl⟩
        simp [wfL, hs]
    split at h
    · next hws hwc hc1 hc2 hc3 hc =>
      subst hc
      split at h
      · next content r' hs =>
        injection h with h; injection h with h1 h2
        subst h1 h2
        obtain ⟨e, hh⟩ := scanQ_sound _ _ hs
        refine ⟨?_, rfl, ?_⟩
        · simp [raw, e]
        · simp only [compat, hh, Bool.not_false]
      · next hs =>
        injection h with h; injection h with h1 h2
        subst h1 h2
        refine ⟨by simp [raw], ?_, rfl⟩
        simp [wfL, hs]
    next hws hwc hc1 hc2 hc3 hc4 =>
    have hsym : isSymChar c = true := symChar_of hws hwc hc1 hc2 hc3 hc4
    split at h
    · injection h with h; injection h with h1 h2
      subst h1 h2
      exact ⟨rfl, by simp only [wfL, hsym], rfl⟩
    · next d r0 =>
      split at h
      · next hcd =>
        obtain ⟨rfl, rfl⟩ := hcd
        have htd := List.takeWhile_append_dropWhile (p := (· != '\n')) (l := r0)
        split at h
        · next hd =>
          injection h with h; injection h with h1 h2
          subst h1 h2
          rw [hd] at htd
          refine ⟨?_, ?_, rfl⟩
          · simpa [raw] using htd
          · simp only [wfL, takeWhile_all]
        · next x r' hd =>
          injection h with h; injection h with h1 h2
          subst h1 h2
          have hx : x = '\n' := by simpa using dropWhile_head_false hd
          subst hx
          rw [hd] at htd
          refine ⟨?_, ?_, rfl⟩
          · simpa [raw] using htd
          · simp only [wfL, takeWhile_all]
      split at h
      · next hcd1 hcd =>
        obtain ⟨rfl, rfl⟩ := hcd
        injection h with h; injection h with h1 h2
        subst h1 h2
        obtain ⟨e1, e2, e3⟩ := scanBC_sound r0
        refine ⟨?_, ?_, ?_⟩
        · simp only [raw, List.cons_append, List.append_assoc] at e1 ⊢
          rw [e1]
        · simpa only [wfL] using e2
        · simp only [compat]
          cases hb : (scanBC r0).2.1 with
          | true => rfl
          | false => simp [e3 hb]
      split at h
      · next hcd1 hcd2 htwo =>
        injection h with h; injection h with h1 h2
        subst h1 h2
        exact ⟨rfl, by simp only [wfL, hsym, htwo, Bool.and_self], rfl⟩
      · next hcd1 hcd2 htwo =>
        injection h with h; injection h with h1 h2
        subst h1 h2
        refine ⟨rfl, by simp only [wfL, hsym], ?_⟩
        simp only [compat, headIs, pairs]
        simp only [not_and] at hcd1 hcd2
        simp [htwo]
        refine ⟨?_, ?_⟩
        · rcases Classical.em (c = '-') with hc | hc
          · exact .inr (hcd1 hc)
          · exact .inl hc
        · rcases Classical.em (c = '/') with hc | hc
          · exact .inr (hcd2 hc)
          · exact .inl hc

theorem raw_ne_nil {l : Lexeme} (hw : wfL l = true) : raw l ≠ [] := by
  cases l with
  | ws cs => cases cs <;> simp_all [wfL, raw]
  | lineComment b nl => simp [raw]
  | blockComment b cl => simp [raw]
  | bare cs => cases cs <;> simp_all [wfL, raw]
  | quoted st c => cases st <;> simp [raw, rawQuoted]
  | str c => simp [raw]
  | sym cs =>
    cases cs with
    | nil => simp [wfL] at hw
    | cons a cs => simp [raw]
  | junk cs =>
    cases cs with
    | nil => simp [wfL] at hw
    | cons a cs => simp [raw]

theorem lexOne_sound {s : List Char} {l : Lexeme} {r : List Char} (h : lexOne s = some (l, r)) :
    raw l ++ r = s ∧ r.length < s.length := by
  obtain ⟨e, hw, _⟩ := lexOne_spec h
  refine ⟨e, ?_⟩
  have hne := raw_ne_nil hw
  have hlen : 0 < (raw l).length := List.length_pos_iff.mpr hne
  rw [← e, List.length_append]
  omega

theorem lexOne_wf {s : List Char} {l : Lexeme} {r : List Char} (h : lexOne s = some (l, r)) :
    wfL l = true ∧ compat l r = true :=
  (lexOne_spec h).2

theorem lexOne_none {s : List Char} (h : lexOne s = none) : s = [] := by
  cases s with
  | nil => rfl
  | cons c cs =>
    exfalso
    simp only [lexOne] at h
    repeat' split at h
    all_goals simp at h

/-! ### Milestone A: lossless -/

theorem unlex_lexF : ∀ (n : Nat) (s : List Char), s.length ≤ n → unlex (lexF n s) = s
  | 0, s, h => by
    have : s = [] := List.eq_nil_of_length_eq_zero (by omega)
    subst this; rfl
  | n + 1, s, h => by
    simp only [lexF]
    cases hl : lexOne s with
    | none => simp only [unlex_nil]; exact (lexOne_none hl).symm
    | some p =>
      obtain ⟨l, r⟩ := p
      obtain ⟨e, hlen⟩ := lexOne_sound hl
      simp only [unlex_cons]
      rw [unlex_lexF n r (by omega), e]

theorem unlex_lex (s : List Char) : unlex (lex s) = s :=
  unlex_lexF _ s (Nat.le_refl _)

/-! ### Milestone B: the image of `lex` is well formed -/

theorem lexF_wf : ∀ (n : Nat) (s : List Char), s.length ≤ n → LexWf (lexF n s) = true
  | 0, s, h => rfl
  | n + 1, s, h => by
    simp only [lexF]
    cases hl : lexOne s with
    | none => rfl
    | some p =>
      obtain ⟨l, r⟩ := p
      obtain ⟨e, hlen⟩ := lexOne_sound hl
      obtain ⟨hw, hc⟩ := lexOne_wf hl
      have hr : r.length ≤ n := by omega
      simp only [LexWf, unlex_lexF n r hr, hw, hc, lexF_wf n r hr, Bool.and_self]

theorem lex_wf (s : List Char) : LexWf (lex s) = true :=
  lexF_wf _ s (Nat.le_refl _)

/-! ### Milestone C: `lex` is a bijection onto the well-formed lexeme lists -/

theorem lexOne_cons (c : Char) (cs : List Char) :
    lexOne (c :: cs) =
      if isWs c then some (.ws (c :: cs.takeWhile isWs), cs.dropWhile isWs)
      else if isWordChar c then
        some (.bare (c :: cs.takeWhile isWordChar), cs.dropWhile isWordChar)
      else if c = '[' then
        match cs.dropWhile (· != ']') with
        | [] => some (.junk (c :: cs), [])
        | _ :: r => some (.quoted .bracket (cs.takeWhile (· != ']')), r)
      else if c = '"' then
        match scanQ '"' cs with
        | some (content, r) => some (.quoted .dquote content, r)
        | none => some (.junk (c :: cs), [])
      else if c = '`' then
        match scanQ '`' cs with
        | some (content, r) => some (.quoted .backtick content, r)
        | none => some (.junk (c :: cs), [])
      else if c = '\'' then
        match scanQ '\'' cs with
        | some (content, r) => some (.str content, r)
        | none => some (.junk (c :: cs), [])
      else
        match cs with
        | [] => some (.sym [c], [])
        | d :: r =>
          if c = '-' ∧ d = '-' then
            match r.dropWhile (· != '\n') with
            | [] => some (.lineComment (r.takeWhile (· != '\n')) false, [])
            | _ :: r' => some (.lineComment (r.takeWhile (· != '\n')) true, r')
          else if c = '/' ∧ d = '*' then
            some (.blockComment (scanBC r).1 (scanBC r).2.1, (scanBC r).2.2)
          else if twoOp c d then some (.sym [c, d], r)
          else some (.sym [c], d :: r) := by
  cases cs <;> rfl

theorem lexOne_sym_nil {c : Char} (hs : isSymChar c = true) :
    lexOne [c] = some (.sym [c], []) := by
  obtain ⟨h1, h2, h3, h4, h5, h6⟩ := symChar_spec hs
  rw [lexOne_cons, if_neg (show ¬ isWs c = true by simp [h1]),
    if_neg (show ¬ isWordChar c = true by simp [h2]), if_neg h3, if_neg h4, if_neg h5, if_neg h6]

theorem lexOne_sym {c : Char} (hs : isSymChar c = true) (d : Char) (r : List Char) :
    lexOne (c :: d :: r) =
      if c = '-' ∧ d = '-' then
        match r.dropWhile (· != '\n') with
        | [] => some (.lineComment (r.takeWhile (· != '\n')) false, [])
        | _ :: r' => some (.lineComment (r.takeWhile (· != '\n')) true, r')
      else if c = '/' ∧ d = '*' then
        some (.blockComment (scanBC r).1 (scanBC r).2.1, (scanBC r).2.2)
      else if twoOp c d then some (.sym [c, d], r)
      else some (.sym [c], d :: r) := by
  obtain ⟨h1, h2, h3, h4, h5, h6⟩ := symChar_spec hs
  rw [lexOne_cons, if_neg (show ¬ isWs c = true by simp [h1]),
    if_neg (show ¬ isWordChar c = true by simp [h2]), if_neg h3, if_neg h4, if_neg h5, if_neg h6]

theorem lexOne_raw {l : Lexeme} {r : List Char} (hw : wfL l = true) (hc : compat l r = true) :
    lexOne (raw l ++ r) = some (l, r) := by
  cases l with
  | ws cs =>
    cases cs with
    | nil => simp [wfL] at hw
    | cons c cs =>
      simp only [wfL, List.isEmpty_cons, Bool.not_false, Bool.true_and, List.all_cons,
        Bool.and_eq_true] at hw
      have hr : headIs isWs r = false := by simpa [compat] using hc
      rw [raw, List.cons_append, lexOne_cons, if_pos hw.1, takeWhile_app hw.2 hr,
        dropWhile_app hw.2 hr]
  | bare cs =>
    cases cs with
    | nil => simp [wfL] at hw
    | cons c cs =>
      simp only [wfL, List.isEmpty_cons, Bool.not_false, Bool.true_and, List.all_cons,
        Bool.and_eq_true] at hw
      have hr : headIs isWordChar r = false := by simpa [compat] using hc
      rw [raw, List.cons_append, lexOne_cons,
        if_neg (show ¬ isWs c = true by simp [not_ws_of_word hw.1]), if_pos hw.1,
        takeWhile_app hw.2 hr, dropWhile_app hw.2 hr]
  | lineComment b nl =>
    have hb : b.all (· != '\n') = true := hw
    cases nl with
    | true =>
      have e : raw (.lineComment b true) ++ r = '-' :: '-' :: (b ++ '\n' :: r) := by simp [raw]
      have hh : headIs (· != '\n') ('\n' :: r) = false := by simp [headIs]
      rw [e, lexOne_sym (show isSymChar '-' = true by decide), if_pos ⟨rfl, rfl⟩,
        dropWhile_app hb hh, takeWhile_app hb hh]
    | false =>
      have hr : r = [] := by simpa [compat] using hc
      subst hr
      have e : raw (.lineComment b false) ++ [] = '-' :: '-' :: b := by simp [raw]
      rw [e, lexOne_sym (show isSymChar '-' = true by decide), if_pos ⟨rfl, rfl⟩,
        all_dropWhile_nil hb, all_takeWhile_self hb]
  | blockComment b cl =>
    have hb : noSS b = true := hw
    cases cl with
    | true =>
      have e : raw (.blockComment b true) ++ r = '/' :: '*' :: (b ++ '*' :: '/' :: r) := by
        simp [raw]
      rw [e, lexOne_sym (show isSymChar '/' = true by decide),
        if_neg (show ¬ ('/' = '-' ∧ '*' = '-') by decide), if_pos ⟨rfl, rfl⟩,
        scanBC_closed r b hb]
    | false =>
      have hr : r = [] := by simpa [compat] using hc
      subst hr
      have e : raw (.blockComment b false) ++ [] = '/' :: '*' :: b := by simp [raw]
      rw [e, lexOne_sym (show isSymChar '/' = true by decide),
        if_neg (show ¬ ('/' = '-' ∧ '*' = '-') by decide), if_pos ⟨rfl, rfl⟩,
        scanBC_open b hb]
  | quoted st c =>
    cases st with
    | bracket =>
      have hb : c.all (· != ']') = true := hw
      have e : raw (.quoted .bracket c) ++ r = '[' :: (c ++ ']' :: r) := by
        simp [raw, rawQuoted]
      have hh : headIs (· != ']') (']' :: r) = false := by simp [headIs]
      rw [e, lexOne_cons, if_neg (show ¬ isWs '[' = true by decide),
        if_neg (show ¬ isWordChar '[' = true by decide), if_pos rfl,
        dropWhile_app hb hh, takeWhile_app hb hh]
    | dquote =>
      have hr : headIs (· == '"') r = false := by simpa [compat] using hc
      have e : raw (.quoted .dquote c) ++ r = '"' :: (escQ '"' c ++ '"' :: r) := by
        simp [raw, rawQuoted]
      rw [e, lexOne_cons, if_neg (show ¬ isWs '"' = true by decide),
        if_neg (show ¬ isWordChar '"' = true by decide),
        if_neg (show ¬ '"' = '[' by decide), if_pos rfl, scanQ_complete '"' hr c]
    | backtick =>
      have hr : headIs (· == '`') r = false := by simpa [compat] using hc
      have e : raw (.quoted .backtick c) ++ r = '`' :: (escQ '`' c ++ '`' :: r) := by
        simp [raw, rawQuoted]
      rw [e, lexOne_cons, if_neg (show ¬ isWs '`' = true by decide),
        if_neg (show ¬ isWordChar '`' = true by decide),
        if_neg (show ¬ '`' = '[' by decide), if_neg (show ¬ '`' = '"' by decide),
        if_pos rfl, scanQ_complete '`' hr c]
  | str c =>
    have hr : headIs (· == '\'') r = false := by simpa [compat] using hc
    have e : raw (.str c) ++ r = '\'' :: (escQ '\'' c ++ '\'' :: r) := by simp [raw]
    rw [e, lexOne_cons, if_neg (show ¬ isWs '\'' = true by decide),
      if_neg (show ¬ isWordChar '\'' = true by decide),
      if_neg (show ¬ '\'' = '[' by decide), if_neg (show ¬ '\'' = '"' by decide),
      if_neg (show ¬ '\'' = '`' by decide), if_pos rfl, scanQ_complete '\'' hr c]
  | sym cs =>
    match cs, hw, hc with
    | [], hw, _ => simp [wfL] at hw
    | [c], hw, hc =>
      have hs : isSymChar c = true := hw
      cases r with
      | nil => exact lexOne_sym_nil hs
      | cons d r =>
        have hp : pairs c d = false := by simpa [compat, headIs] using hc
        have h1 : ¬ (c = '-' ∧ d = '-') := by
          rintro ⟨rfl, rfl⟩; exact absurd hp (by decide)
        have h2 : ¬ (c = '/' ∧ d = '*') := by
          rintro ⟨rfl, rfl⟩; exact absurd hp (by decide)
        have h3 : ¬ twoOp c d = true := by
          intro h; simp [pairs, h] at hp
        show lexOne (c :: d :: r) = _
        rw [lexOne_sym hs, if_neg h1, if_neg h2, if_neg h3]
    | [c, d], hw, _ =>
      simp only [wfL, Bool.and_eq_true] at hw
      obtain ⟨hs, ht⟩ := hw
      have hne := twoOp_ne_minus ht
      show lexOne (c :: d :: r) = _
      rw [lexOne_sym hs, if_neg (fun h => hne.1 h.1), if_neg (fun h => hne.2 h.1), if_pos ht]
    | _ :: _ :: _ :: _, hw, _ => simp [wfL] at hw
  | junk cs =>
    cases cs with
    | nil => simp [wfL] at hw
    | cons q rest =>
      have hr : r = [] := by simpa [compat] using hc
      subst hr
      simp only [wfL, Bool.or_eq_true, Bool.and_eq_true, beq_iff_eq] at hw
      rcases hw with ⟨rfl, ha⟩ | ⟨(rfl | rfl) | rfl, hn⟩
      · rw [raw, List.append_nil, lexOne_cons, if_neg (show ¬ isWs '[' = true by decide),
          if_neg (show ¬ isWordChar '[' = true by decide), if_pos rfl, all_dropWhile_nil ha]
      · rw [raw, List.append_nil, lexOne_cons, if_neg (show ¬ isWs '"' = true by decide),
          if_neg (show ¬ isWordChar '"' = true by decide),
          if_neg (show ¬ '"' = '[' by decide), if_pos rfl, Option.isNone_iff_eq_none.mp hn]
      · rw [raw, List.append_nil, lexOne_cons, if_neg (show ¬ isWs '`' = true by decide),
          if_neg (show ¬ isWordChar '`' = true by decide),
          if_neg (show ¬ '`' = '[' by decide), if_neg (show ¬ '`' = '"' by decide),
          if_pos rfl, Option.isNone_iff_eq_none.mp hn]
      · rw [raw, List.append_nil, lexOne_cons, if_neg (show ¬ isWs '\'' = true by decide),
          if_neg (show ¬ isWordChar '\'' = true by decide),
          if_neg (show ¬ '\'' = '[' by decide), if_neg (show ¬ '\'' = '"' by decide),
          if_neg (show ¬ '\'' = '`' by decide), if_pos rfl, Option.isNone_iff_eq_none.mp hn]

theorem lexF_unlex : ∀ (ls : List Lexeme) (n : Nat), LexWf ls = true →
    (unlex ls).length ≤ n → lexF n (unlex ls) = ls
  | [], n, _, _ => by cases n <;> simp [lexF, unlex_nil, lexOne]
  | l :: ls, n, h, hn => by
    simp only [LexWf, Bool.and_eq_true] at h
    obtain ⟨⟨hw, hc⟩, hls⟩ := h
    have hpos : 0 < (raw l).length := List.length_pos_iff.mpr (raw_ne_nil hw)
    rw [unlex_cons, List.length_append] at hn
    cases n with
    | zero => omega
    | succ n =>
      simp only [unlex_cons, lexF, lexOne_raw hw hc, lexF_unlex ls n hls (by omega)]

theorem lex_unlex {ls : List Lexeme} (h : LexWf ls = true) : lex (unlex ls) = ls :=
  lexF_unlex ls _ h (Nat.le_refl _)

theorem canon_unlex {ls : List Lexeme} (h : LexWf ls = true) :
    canonChars (unlex ls) = ls.filterMap strip := by
  simp only [canonChars, lex_unlex h]

/-! ### Milestone D: canonical rendering -/

theorem strip_tokLexeme (t : Token) : strip (tokLexeme t) = some t := by
  cases t with
  | word cs => simp only [tokLexeme]; split <;> rfl
  | str cs => rfl
  | sym cs => rfl
  | junk cs => rfl

theorem filterMap_toLex : ∀ ts : List Token, (toLex ts).filterMap strip = ts
  | [] => rfl
  | [t] => by simp [toLex, strip_tokLexeme]
  | t :: t' :: ts => by
    have ih := filterMap_toLex (t' :: ts)
    have e : strip (.ws [' ']) = none := rfl
    show (tokLexeme t :: Lexeme.ws [' '] :: toLex (t' :: ts)).filterMap strip = _
    simp only [List.filterMap_cons, strip_tokLexeme, e, ih]

theorem wfL_word (cs : List Char) : wfL (tokLexeme (.word cs)) = true := by
  simp only [tokLexeme]
  split
  · next h => exact h
  · rfl

theorem wfL_of_wfTok {t : Token} (h : wfTok t = true) : wfL (tokLexeme t) = true := by
  cases t with
  | junk cs => simp [wfTok] at h
  | word cs => exact h
  | str cs => exact h
  | sym cs => exact h

theorem compat_nil (l : Lexeme) : compat l [] = true := by
  cases l with
  | ws cs => rfl
  | lineComment b nl => simp [compat]
  | blockComment b cl => simp [compat]
  | bare cs => rfl
  | quoted st c => cases st <;> rfl
  | str c => rfl
  | sym cs =>
    match cs with
    | [] => rfl
    | [c] => rfl
    | _ :: _ :: _ => rfl
  | junk cs => rfl

theorem pairs_space (c : Char) : pairs c ' ' = false := by
  have h1 : (' ' == '|') = false := by decide
  have h2 : (' ' == '=') = false := by decide
  have h3 : (' ' == '>') = false := by decide
  have h4 : (' ' == '<') = false := by decide
  have h5 : (' ' == '-') = false := by decide
  have h6 : (' ' == '*') = false := by decide
  simp only [pairs, twoOp, h1, h2, h3, h4, h5, h6, Bool.and_false, Bool.or_self]

theorem compat_space {t : Token} (hw : wfTok t = true) (r : List Char) :
    compat (tokLexeme t) (' ' :: r) = true := by
  cases t with
  | junk cs => simp [wfTok] at hw
  | word cs =>
    simp only [tokLexeme]
    split
    · show (!isWordChar ' ') = true
      decide
    · show (!(' ' == '"')) = true
      decide
  | str cs =>
    show (!(' ' == '\'')) = true
    decide
  | sym cs =>
    match cs with
    | [] => rfl
    | [c] =>
      show (!pairs c ' ') = true
      rw [pairs_space]; rfl
    | _ :: _ :: _ => rfl

theorem head_not_ws {t : Token} (hw : wfL (tokLexeme t) = true) (r : List Char) :
    headIs isWs (raw (tokLexeme t) ++ r) = false := by
  cases t with
  | word cs =>
    simp only [tokLexeme] at hw ⊢
    split
    · next hb =>
      cases cs with
      | nil => simp [isBareable] at hb
      | cons c cs =>
        simp only [isBareable, List.isEmpty_cons, Bool.not_false, Bool.true_and, List.all_cons,
          Bool.and_eq_true] at hb
        exact not_ws_of_word hb.1
    · show isWs '"' = false
      decide
  | str cs =>
    show isWs '\'' = false
    decide
  | sym cs =>
    match cs, hw with
    | [], hw => simp [tokLexeme, wfL] at hw
    | [c], hw => exact (symChar_spec hw).1
    | [c, d], hw =>
      simp only [tokLexeme, wfL, Bool.and_eq_true] at hw
      exact (symChar_spec hw.1).1
    | _ :: _ :: _ :: _, hw => simp [tokLexeme, wfL] at hw
  | junk cs =>
    cases cs with
    | nil => simp [tokLexeme, wfL] at hw
    | cons q rest =>
      simp only [tokLexeme, wfL, Bool.or_eq_true, Bool.and_eq_true, beq_iff_eq] at hw
      show isWs q = false
      rcases hw with ⟨rfl, _⟩ | ⟨(rfl | rfl) | rfl, _⟩ <;> decide

theorem unlex_toLex_head : ∀ ts : List Token, TokWf ts = true → ts ≠ [] →
    headIs isWs (unlex (toLex ts)) = false
  | [], _, h => absurd rfl h
  | [t], hw, _ => by
    simp only [toLex, unlex_cons]
    exact head_not_ws hw _
  | t :: t' :: ts, hw, _ => by
    simp only [TokWf, Bool.and_eq_true] at hw
    simp only [toLex, unlex_cons]
    exact head_not_ws (wfL_of_wfTok hw.1) _

theorem toLex_wf' : ∀ ts : List Token, TokWf ts = true → LexWf (toLex ts) = true
  | [], _ => rfl
  | [t], hw => by
    have hw' : wfL (tokLexeme t) = true := hw
    simp only [toLex, LexWf, unlex_nil, hw', compat_nil, Bool.and_self]
  | t :: t' :: ts, hw => by
    simp only [TokWf, Bool.and_eq_true] at hw
    obtain ⟨h1, h2⟩ := hw
    have ih := toLex_wf' (t' :: ts) h2
    have hh := unlex_toLex_head (t' :: ts) h2 (List.cons_ne_nil _ _)
    have e : unlex (Lexeme.ws [' '] :: toLex (t' :: ts)) = ' ' :: unlex (toLex (t' :: ts)) := by
      rw [unlex_cons]; rfl
    have hws : wfL (.ws [' ']) = true := by decide
    have hcs : compat (.ws [' ']) (unlex (toLex (t' :: ts))) = true := by
      simp only [compat, hh, Bool.not_false]
    simp only [toLex, LexWf, e, wfL_of_wfTok h1, compat_space h1, hws, hcs, ih, Bool.and_self]

theorem toLex_wf {ts : List Token} (h : TokWf ts = true) : LexWf (toLex ts) = true :=
  toLex_wf' ts h

theorem canon_render {ts : List Token} (h : TokWf ts = true) : canonChars (render ts) = ts := by
  rw [render, canon_unlex (toLex_wf h), filterMap_toLex]

theorem LexWf_unlex_nil {ls : List Lexeme} (h : LexWf ls = true) (hu : unlex ls = []) :
    ls = [] := by
  cases ls with
  | nil => rfl
  | cons l ls =>
    exfalso
    simp only [LexWf, Bool.and_eq_true] at h
    rw [unlex_cons] at hu
    exact raw_ne_nil h.1.1 (List.append_eq_nil_iff.mp hu).1

theorem TokWf_cons_of {t : Token} {ts : List Token} (h1 : wfL (tokLexeme t) = true)
    (h2 : ts ≠ [] → wfTok t = true) (h3 : TokWf ts = true) : TokWf (t :: ts) = true := by
  cases ts with
  | nil => exact h1
  | cons t' ts =>
    simp only [TokWf, Bool.and_eq_true]
    exact ⟨h2 (List.cons_ne_nil _ _), h3⟩

theorem LexWf_strip : ∀ ls : List Lexeme, LexWf ls = true → TokWf (ls.filterMap strip) = true
  | [], _ => rfl
  | l :: ls, h => by
    have h0 := h
    simp only [LexWf, Bool.and_eq_true] at h
    obtain ⟨⟨hw, hc⟩, hls⟩ := h
    have ih := LexWf_strip ls hls
    cases l with
    | ws cs => simpa only [List.filterMap_cons, strip] using ih
    | lineComment b nl => simpa only [List.filterMap_cons, strip] using ih
    | blockComment b cl => simpa only [List.filterMap_cons, strip] using ih
    | bare cs =>
      simp only [List.filterMap_cons, strip]
      exact TokWf_cons_of (wfL_word cs) (fun _ => wfL_word cs) ih
    | quoted st c =>
      simp only [List.filterMap_cons, strip]
      exact TokWf_cons_of (wfL_word c) (fun _ => wfL_word c) ih
    | str c =>
      simp only [List.filterMap_cons, strip]
      exact TokWf_cons_of rfl (fun _ => rfl) ih
    | sym cs =>
      simp only [List.filterMap_cons, strip]
      exact TokWf_cons_of hw (fun _ => hw) ih
    | junk cs =>
      simp only [List.filterMap_cons, strip]
      refine TokWf_cons_of hw (fun hne => ?_) ih
      exfalso
      have hu : unlex ls = [] := by simpa [compat] using hc
      rw [LexWf_unlex_nil hls hu] at hne
      exact hne rfl

theorem canon_tokWf (s : List Char) : TokWf (canonChars s) = true :=
  LexWf_strip _ (lex_wf s)

end EngineModel.Spec.SqlCanon
