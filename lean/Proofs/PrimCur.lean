/-
The regenerated primitives, as cursor actions / byte writers, ARE the primitives the hand models read and
write through (`Cur.rd Codec.u*`, `Codec.u*.enc`).  Same statement names as Proofs/CxxPrimsLemmas.lean.
-/
import EngineModel.Impl.PrimCur
import Proofs.PrimGen

namespace EngineModel
namespace PrimCur
open Codec Cur EngineModel.PrimGenProofs

theorem ofGen_eq_rd {α} (d : List UInt8 → Option (α × List UInt8)) (c : Codec α) (h : ∀ bs, d bs = c.dec bs) :
    ofGen d = rd c := by
  funext bs
  unfold ofGen rd
  rw [h]
  cases c.dec bs with
  | none => rfl
  | some p => obtain ⟨a, r⟩ := p; rfl

theorem decode_uint8_eq : decode_uint8 = rd u8 := ofGen_eq_rd _ _ PrimGenProofs.decode_uint8_eq
theorem decode_int32_le_eq : decode_int32_le = rd u32le := ofGen_eq_rd _ _ PrimGenProofs.decode_int32_le_eq
theorem decode_int32_be_eq : decode_int32_be = rd u32be := ofGen_eq_rd _ _ PrimGenProofs.decode_int32_be_eq
theorem decode_int64_le_eq : decode_int64_le = rd u64le := ofGen_eq_rd _ _ PrimGenProofs.decode_int64_le_eq
theorem decode_int64_be_eq : decode_int64_be = rd u64be := ofGen_eq_rd _ _ PrimGenProofs.decode_int64_be_eq
theorem decode_double_le_eq : decode_double_le = rd u64le := ofGen_eq_rd _ _ PrimGenProofs.decode_double_le_eq
theorem decode_double_be_eq : decode_double_be = rd u64be := ofGen_eq_rd _ _ PrimGenProofs.decode_double_be_eq

theorem encode_uint8_eq (v : UInt8) : encode_uint8 v = u8.enc v := PrimGenProofs.encode_uint8_eq v
theorem encode_int32_le_eq (v : UInt32) : encode_int32_le v = u32le.enc v := PrimGenProofs.encode_int32_le_eq v
theorem encode_int32_be_eq (v : UInt32) : encode_int32_be v = u32be.enc v := PrimGenProofs.encode_int32_be_eq v
theorem encode_int64_le_eq (v : UInt64) : encode_int64_le v = u64le.enc v := by
  show Gen.Prim.encode_int64_le v = _
  rw [PrimGenProofs.encode_int64_le_eq]; rfl
theorem encode_int64_be_eq (v : UInt64) : encode_int64_be v = u64be.enc v := by
  show Gen.Prim.encode_int64_be v = _
  rw [PrimGenProofs.encode_int64_be_eq]; rfl
theorem encode_double_le_eq (v : UInt64) : encode_double_le v = u64le.enc v := by
  show Gen.Prim.encode_double_le v = _
  rw [PrimGenProofs.encode_double_le_eq]; rfl
theorem encode_double_be_eq (v : UInt64) : encode_double_be v = u64be.enc v := by
  show Gen.Prim.encode_double_be v = _
  rw [PrimGenProofs.encode_double_be_eq]; rfl

end PrimCur
end EngineModel
