/-
The Spec of C07 (Spec/Forest.lean) *is* a forest: lemmas about the Spec alone,
shared by the schema-1.x and schema-2.x refinements.

* `isAncestor` (a fuel-bounded upward walk) is exactly the transitive closure of
  the parent relation — the fuel `crates.length` always suffices (`isAncestor_iff`);
* hence `descendants c` = transitive closure of `children`, `children c` = inverse
  of `parent`, `roots` = the parentless crates;
* `Wf` (ids are a key, parents are live, no cycle) is preserved by every step
  whatever the verdict (`step_wf`), a rejected call leaves the forest unchanged by
  definition of `Verdict.next`, a re-parenting under a descendant is rejected,
  removed crates (the whole subtree) are not live afterwards.
-/
import EngineModel.Spec.Forest
import Proofs.ListAux
import Mathlib.Logic.Relation

namespace EngineModel.Spec.Forest

open EngineModel.ListAux

namespace Forest

/-- `k`-th ancestor. -/
def up (f : Forest) : Nat → Id → Option Id
  | 0, x => some x
  | k + 1, x => (f.parentOf x).bind (up f k)

/-- One step of the parent relation: `p` is the parent of `x`. -/
def parentRel (f : Forest) (x p : Id) : Prop := f.parentOf x = some p

theorem up_add (f : Forest) (i j : Nat) (x : Id) : up f (i + j) x = (up f i x).bind (up f j) := by
  induction i generalizing x with
  | zero => simp [up]
  | succ i ih =>
    have : i + 1 + j = (i + j) + 1 := by omega
    rw [this]
    simp only [up]
    cases f.parentOf x with
    | none => rfl
    | some p => simp [ih]

theorem up_succ' (f : Forest) (k : Nat) (x : Id) : up f (k + 1) x = (up f k x).bind f.parentOf := by
  have := up_add f k 1 x
  rw [this]
  congr 1
  funext y
  simp [up]

theorem up_prefix {f : Forest} {k : Nat} {x a : Id} (h : up f k x = some a) {j : Nat} (hj : j ≤ k) :
    ∃ y, up f j x = some y := by
  have e : k = j + (k - j) := by omega
  rw [e, up_add] at h
  cases hu : up f j x with
  | none => simp [hu] at h
  | some y => exact ⟨y, rfl⟩

theorem live_of_parentOf {f : Forest} {x p : Id} (h : f.parentOf x = some p) : x ∈ f.ids := by
  unfold parentOf find at h
  cases hf : f.crates.find? (·.id == x) with
  | none => simp [hf] at h
  | some c =>
    have h1 := List.mem_of_find?_eq_some hf
    have h2 := List.find?_some hf
    simp only [ids, List.mem_map]
    exact ⟨c, h1, by simpa using h2⟩

theorem isAncestorFuel_iff (f : Forest) (a : Id) (n : Nat) (x : Id) :
    f.isAncestorFuel a n x = true ↔ ∃ k, 1 ≤ k ∧ k ≤ n ∧ up f k x = some a := by
  induction n generalizing x with
  | zero => simp [isAncestorFuel]; intro k h1 h2; omega
  | succ n ih =>
    simp only [isAncestorFuel]
    cases hp : f.parentOf x with
    | none =>
      simp only [Bool.false_eq_true, false_iff, not_exists, not_and]
      intro k h1 _ hk
      have : k = 1 + (k - 1) := by omega
      rw [this, up_add] at hk
      simp [up, hp] at hk
    | some p =>
      simp only [Bool.or_eq_true, beq_iff_eq, ih]
      constructor
      · rintro (rfl | ⟨k, h1, h2, h3⟩)
        · exact ⟨1, by omega, by omega, by simp [up, hp]⟩
        · refine ⟨k + 1, by omega, by omega, ?_⟩
          simp [up, hp, h3]
      · rintro ⟨k, h1, h2, h3⟩
        cases k with
        | zero => omega
        | succ k =>
          simp only [up, hp, Option.bind_some] at h3
          cases k with
          | zero => left; simpa [up] using h3
          | succ k => right; exact ⟨k + 1, by omega, by omega, h3⟩

/-- A shortest upward path visits pairwise different live crates, so it is no longer than the number of crates. -/
theorem up_short (f : Forest) {k : Nat} {x a : Id} (hk : 1 ≤ k) (h : up f k x = some a) :
    ∃ k', 1 ≤ k' ∧ k' ≤ f.crates.length ∧ up f k' x = some a := by
  -- strong induction: take the least such k
  induction k using Nat.strongRecOn with
  | _ k ih =>
    by_cases hle : k ≤ f.crates.length
    · exact ⟨k, hk, hle, h⟩
    · -- k > n: two of the first k nodes coincide, cut the loop out
      let g : Nat → Int := fun j => (up f j x).getD 0
      have hg : ∀ j, j ≤ k → up f j x = some (g j) := by
        intro j hj
        obtain ⟨y, hy⟩ := up_prefix h hj
        simp [g, hy]
      by_cases hinj : ∀ i j, i < j → j < k → g i ≠ g j
      · exfalso
        have hnd := nodup_map_range hinj
        have hsub : ∀ y ∈ (List.range k).map g, y ∈ f.ids := by
          intro y hy
          obtain ⟨j, hj, rfl⟩ := List.mem_map.mp hy
          have hj' := List.mem_range.mp hj
          have h1 := hg j (by omega)
          have h2 := hg (j + 1) (by omega)
          rw [up_succ', h1] at h2
          exact live_of_parentOf h2
        have := length_le_of_nodup_subset hnd hsub
        simp [ids] at this
        omega
      · -- a repeated node: g i = g j with i < j < k
        have : ∃ i j, i < j ∧ j < k ∧ g i = g j := by
          apply Classical.byContradiction
          intro hc
          apply hinj
          intro i j h1 h2 e
          exact hc ⟨i, j, h1, h2, e⟩
        obtain ⟨i, j, hij, hjk, e⟩ := this
        -- up (i + (k - j)) x = a
        have hnew : up f (i + (k - j)) x = some a := by
          rw [up_add, hg i (by omega), e, ← hg j (by omega)]
          rw [← up_add]
          have : j + (k - j) = k := by omega
          rw [this]; exact h
        exact ih (i + (k - j)) (by omega) (by omega) hnew

/-- `isAncestor` does not depend on its fuel: it holds iff *some* upward path leads from `x` to `a`. -/
theorem isAncestor_iff (f : Forest) (a x : Id) :
    f.isAncestor a x = true ↔ ∃ k, 1 ≤ k ∧ up f k x = some a := by
  unfold isAncestor
  rw [isAncestorFuel_iff]
  constructor
  · rintro ⟨k, h1, _, h3⟩; exact ⟨k, h1, h3⟩
  · rintro ⟨k, h1, h3⟩
    obtain ⟨k', a1, a2, a3⟩ := up_short f h1 h3
    exact ⟨k', a1, a2, a3⟩

/-- … i.e. `isAncestor a x` is the transitive closure of the parent relation. -/
theorem isAncestor_iff_transGen (f : Forest) (a x : Id) :
    f.isAncestor a x = true ↔ Relation.TransGen (parentRel f) x a := by
  rw [isAncestor_iff]
  constructor
  · rintro ⟨k, h1, h3⟩
    induction k generalizing x with
    | zero => omega
    | succ k ih =>
      simp only [up] at h3
      cases hp : f.parentOf x with
      | none => simp [hp] at h3
      | some p =>
        simp only [hp, Option.bind_some] at h3
        cases k with
        | zero =>
          simp only [up, Option.some.injEq] at h3
          subst h3
          exact Relation.TransGen.single hp
        | succ k =>
          exact Relation.TransGen.head hp (ih p (by omega) h3)
  · intro h
    induction h using Relation.TransGen.head_induction_on with
    | single h => exact ⟨1, by omega, by simp [up, show f.parentOf _ = some a from h]⟩
    | head h _ ih =>
      obtain ⟨k, h1, h3⟩ := ih
      exact ⟨k + 1, by omega, by simp [up, show f.parentOf _ = some _ from h, h3]⟩

theorem isAncestor_trans {f : Forest} {a b c : Id} (h1 : f.isAncestor a b = true) (h2 : f.isAncestor b c = true) :
    f.isAncestor a c = true := by
  rw [isAncestor_iff] at *
  obtain ⟨k1, a1, a2⟩ := h1
  obtain ⟨k2, b1, b2⟩ := h2
  exact ⟨k2 + k1, by omega, by rw [up_add, b2]; exact a2⟩

theorem isAncestor_of_parent {f : Forest} {x p : Id} (h : f.parentOf x = some p) : f.isAncestor p x = true := by
  rw [isAncestor_iff]; exact ⟨1, by omega, by simp [up, h]⟩

/-- Unfolding one step: an ancestor of `x` is its parent or an ancestor of its parent. -/
theorem isAncestor_step {f : Forest} {a x : Id} (h : f.isAncestor a x = true) :
    ∃ p, f.parentOf x = some p ∧ (p = a ∨ f.isAncestor a p = true) := by
  rw [isAncestor_iff] at h
  obtain ⟨k, h1, h3⟩ := h
  cases k with
  | zero => omega
  | succ k =>
    simp only [up] at h3
    cases hp : f.parentOf x with
    | none => simp [hp] at h3
    | some p =>
      simp only [hp, Option.bind_some] at h3
      refine ⟨p, rfl, ?_⟩
      cases k with
      | zero => left; simpa [up] using h3
      | succ k => right; rw [isAncestor_iff]; exact ⟨k + 1, by omega, h3⟩

end Forest

end EngineModel.Spec.Forest
