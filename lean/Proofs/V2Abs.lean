/-
Schema 2.x crates: how the Model state (Db/V2Crates.lean) is read as a Spec state,
and how the Spec is *driven* by a Model history.

The executable Specs (Spec/Forest.lean, Spec/Members.lean, Spec/Ordered.lean) are
judges: they are told which operation was called and what came back (returned /
threw, the reported new id) and say whether that is allowed and what the abstract
state is afterwards.  In the tie the real library's answers are fed to them
(Driver/Cmds/CratesV2Spec.lean); here the Model's answers are, by the functions
`judgeF`, `judgeM`, `ordStep` below — the theorems of Properties/C07V2, C08V2, C09
say that for every history the judges never object and the abstract state they
track is exactly the abstraction (`absF`, `absM`, `ChInv`) of the Model state.

The judges see NOTHING of the Model but its answers: every guard and every prescription
below is computed from the Spec state (the forest `f`, the membership state, the ordered
lists with the payload of every entry) and the arguments of the call.
-/
import Proofs.ChainCore
import EngineModel.Db.V2Crates
import EngineModel.Db.V2Wf
import EngineModel.Spec.Forest
import EngineModel.Spec.Members

namespace EngineModel.Db.V2

open EngineModel.Db.Chain EngineModel.Spec

/-! ### abstraction functions -/

/-- parentListId 0 = no parent. -/
def parentOpt (k : Int) : Option Int := if k = 0 then none else some k

def keyOf : Option Int → Int
  | none => 0
  | some p => p

def crateOf (c : Int × Int × Bytes) : Forest.Crate := ⟨c.1, c.2.2, parentOpt c.2.1⟩

/-- The Playlist table read as a forest: one crate per row, in row order. -/
def absF (d : Db) : Forest.Forest := ⟨(cores d.pl).map crateOf⟩

def pairOf (c : Int × Int × Ent) : Int × Int := (c.2.1, c.2.2.track)

/-- Entries of the library's own database (uuid tag 0): the memberships of its tracks.  Entries of other
databases (a playlist may reference tracks on another drive) are nobody's membership here. -/
def own (c : Int × Int × Ent) : Bool := c.2.2.uuid == 0

/-- Playlist / Track / PlaylistEntity read as a membership state: live crates, live tracks, (list, track) per
entity row of this database. -/
def absM (d : Db) : Members.State := ⟨ids d.pl, d.tracks, ((cores d.pe).filter own).map pairOf⟩

/-! ### outcomes -/

/-- returned (`true`) / threw a std::exception (`false`); undefined behaviour is neither. -/
def outcome : Res Out → Option Bool
  | .ok _ => some true
  | .throw _ => some false
  | .ub _ => none

def newIdOf : Res Out → Int
  | .ok (some i) => i
  | _ => 0

/-! ### C07: the forest judge -/

def forestOp : Op → Option Forest.Op
  | .createRoot n => some (.createRoot n)
  | .createRootAfter n _ => some (.createRoot n)
  | .createSub p n => some (.createSub p n)
  | .createSubAfter p n _ => some (.createSub p n)
  | .rename c n => some (.rename c n)
  | .setParent c p => some (.setParent c p)
  | .removeCrate c => some (.remove c)
  | _ => none

def isCreate : Op → Bool
  | .createRoot _ | .createRootAfter _ _ | .createSub _ _ | .createSubAfter _ _ _ => true
  | _ => false

/-- `create_*_crate_after(…, a)`: is `a` one of the siblings-to-be?  If not the property does not
say what must happen (the verdict `accept` is weakened to `either`). -/
def afterOk (f : Forest.Forest) : Op → Bool
  | .createRootAfter _ a => f.roots.contains a
  | .createSubAfter p _ a => (f.children p).contains a
  | _ => true

def downgrade : Forest.Verdict → Forest.Verdict
  | .accept f' => .either f'
  | v => v

def verdictF (f : Forest.Forest) (op : Op) (fop : Forest.Op) (newId : Int) : Forest.Verdict :=
  if afterOk f op then Forest.step f fop newId else downgrade (Forest.step f fop newId)

/-- One operation and its result against Spec.Forest: the forest afterwards, `none` = the Spec objects
(outcome not allowed by the verdict, undefined behaviour, or a new id that is not fresh / not positive). -/
def judgeF (f : Forest.Forest) (op : Op) (res : Res Out) : Option Forest.Forest :=
  match forestOp op with
  | none => some f
  | some fop =>
    match outcome res with
    | none => none
    | some ok =>
      if ok && isCreate op && !(Forest.freshId f (newIdOf res) && decide (0 < newIdOf res)) then none
      else (verdictF f op fop (newIdOf res)).next f ok

/-- The Spec forest after a Model history, driven by the Model's own answers. -/
def specRunF : Db → Forest.Forest → List Op → Option Forest.Forest
  | _, f, [] => some f
  | d, f, op :: ops =>
    match judgeF f op (step d op).2 with
    | none => none
    | some f' => specRunF (step d op).1 f' ops

/-! ### C08: the membership judge -/

/-- The membership-level reading of an operation, from the Spec forest before the call, the call and its
result (the same translation as the oracle of the tie performs on the real library's answers). -/
def membersOps (f : Forest.Forest) (op : Op) (res : Res Out) : List Members.Op :=
  match op with
  | .createRoot _ | .createRootAfter _ _ | .createSub _ _ | .createSubAfter _ _ _ =>
    if outcome res == some true then [.newCrate (newIdOf res)] else []
  | .removeCrate c =>
    if outcome res == some true && f.live c then [.dropCrates (c :: f.descendants c)] else []
  | .createTrack => [.newTrack (newIdOf res)]
  | .removeTrack t => [.dropTrack t]
  | .addTrack c t => [.add c t]
  | .removeTrackFrom c t => [.remove c t]
  | .clearTracks c => [.clear c]
  | _ => []

def judgeM1 (s : Members.State) (mop : Members.Op) (ok : Bool) : Option Members.State :=
  match mop with
  | .newTrack t => if s.tracks.contains t then none else (Members.step s mop).next s ok
  | _ => (Members.step s mop).next s ok

def judgeM (s : Members.State) (f : Forest.Forest) (op : Op) (res : Res Out) : Option Members.State :=
  match outcome res with
  | none => none
  | some ok => (membersOps f op res).foldlM (fun s mop => judgeM1 s mop ok) s

/-- The crate / track API (what C07, C08 and C11 quantify over); the `pe*` operations are the
table-level playlist_entity_table interface. -/
def apiOp : Op → Bool
  | .peAddBack _ _ _ _ | .peRemove _ _ | .peClear _ => false
  | _ => true

/-- Histories C08 is stated for: the crate / track API, interleaved with entries of OTHER databases
(uuid tag ≠ 0, positive track id) being added to any list at table level — what other software sharing
the library does.  (Table-level removal, or table-level entries of the own database for lists / tracks
that do not exist, are outside what "added to a crate" means.) -/
def memOp : Op → Bool
  | .peAddBack _ t u _ => decide (u ≠ 0) && decide (0 < t)
  | .peRemove _ _ | .peClear _ => false
  | _ => true

def specRunM : Db → Forest.Forest → Members.State → List Op → Option (Forest.Forest × Members.State)
  | _, f, s, [] => some (f, s)
  | d, f, s, op :: ops =>
    match judgeF f op (step d op).2, judgeM s f op (step d op).2 with
    | some f', some s' => specRunM (step d op).1 f' s' ops
    | _, _ => none

/-! ### C09: the ordered lists -/

/-- One duplicate-free ordered list per key: siblings per parent (0 = the roots); entries per playlist,
each with its payload (track id, database). -/
structure Ord where
  kids : Int → List Int
  ents : Int → List (Int × Ent)

def Ord.empty : Ord := ⟨fun _ => [], fun _ => []⟩

/-- The entity ids of the entries of a list, in order. -/
def Ord.entIds (S : Ord) : Int → List Int := fun l => (S.ents l).map (·.1)

/-- The entry of list `l` for track `t` of database `u`, looked up in the Spec's own listing. -/
def Ord.find (S : Ord) (l t u : Int) : Option (Int × Ent) :=
  (S.ents l).find? (fun p => p.2.track == t && p.2.uuid == u)

/-- The entry with entity id `e` leaves a listing, the rest stays in order. -/
def dropEnt (L : List (Int × Ent)) (e : Int) : List (Int × Ent) := L.filter (fun p => p.1 != e)

def setKeyE (E : Int → List (Int × Ent)) (k : Int) (L : List (Int × Ent)) : Int → List (Int × Ent) :=
  fun k' => if k' = k then L else E k'

/-- The listings of the keys `ks` are dropped. -/
def clearKeys (A : Int → List Int) (ks : List Int) : Int → List Int :=
  fun k => if ks.contains k then [] else A k

def clearKeysE (E : Int → List (Int × Ent)) (ks : List Int) : Int → List (Int × Ent) :=
  fun k => if ks.contains k then [] else E k

/-- `c` leaves the list of `ok` and is appended to the list of `nk`. -/
def moveKid (A : Int → List Int) (ok nk c : Int) : Int → List Int :=
  setKey (setKey A ok ((A ok).erase c)) nk (setKey A ok ((A ok).erase c) nk ++ [c])

/-- One successful operation on the ordered lists, using nothing but the list operations of Spec/Ordered
(`insertAfter`, append, `erase` / drop of one entry, drop of a listing), the Spec forest `f` before the call
(who is whose parent, who is live, the subtree of a crate) and the answer of the call (`out`: the new id). -/
def ordOk (S : Ord) (f : Forest.Forest) (op : Op) (out : Out) : Ord :=
    match op, out with
    | .createRoot _, some i => { S with kids := setKey S.kids 0 (S.kids 0 ++ [i]) }
    | .createRootAfter _ a, some i => { S with kids := setKey S.kids 0 (Ordered.insertAfter a i (S.kids 0)) }
    | .createSub p _, some i => { S with kids := setKey S.kids p (S.kids p ++ [i]) }
    | .createSubAfter p _ a, some i => { S with kids := setKey S.kids p (Ordered.insertAfter a i (S.kids p)) }
    | .setParent c p, _ =>
      if f.live c && keyOf (f.parentOf c) != keyOf p then { S with kids := moveKid S.kids (keyOf (f.parentOf c)) (keyOf p) c }
      else S
    | .removeCrate c, _ =>
      if f.live c then
        let gone := c :: f.descendants c
        { kids := clearKeys (setKey S.kids (keyOf (f.parentOf c)) ((S.kids (keyOf (f.parentOf c))).erase c)) gone,
          ents := clearKeysE S.ents gone }
      else S
    | .removeTrack t, _ =>
      { S with ents := fun l =>
          if f.ids.contains l then
            match S.find l t 0 with
            | some p => dropEnt (S.ents l) p.1
            | none => S.ents l
          else S.ents l }
    | .addTrack c t, some e =>
      if (S.find c t 0).isNone then { S with ents := setKeyE S.ents c (S.ents c ++ [(e, ⟨t, 0⟩)]) } else S
    | .peAddBack l t u _, some e =>
      if (S.find l t u).isNone then { S with ents := setKeyE S.ents l (S.ents l ++ [(e, ⟨t, u⟩)]) } else S
    | .removeTrackFrom c t, _ =>
      match S.find c t 0 with
      | some p => { S with ents := setKeyE S.ents c (dropEnt (S.ents c) p.1) }
      | none => S
    | .clearTracks c, _ => { S with ents := setKeyE S.ents c [] }
    | .peRemove l e, _ => { S with ents := setKeyE S.ents l (dropEnt (S.ents l) e) }
    | .peClear l, _ => { S with ents := setKeyE S.ents l [] }
    | _, _ => S

/-- … driven by the result of the call: a call that threw changes nothing. -/
def ordNext (S : Ord) (f : Forest.Forest) (op : Op) (res : Res Out) : Ord :=
  match res with
  | .ok out => ordOk S f op out
  | _ => S

/-- The Spec forest and the Spec lists after a Model history, driven by the Model's answers only. -/
def specRunO : Db → Forest.Forest → Ord → List Op → Option (Forest.Forest × Ord)
  | _, f, S, [] => some (f, S)
  | d, f, S, op :: ops =>
    match judgeF f op (step d op).2 with
    | none => none
    | some f' => specRunO (step d op).1 f' (ordNext S f op (step d op).2) ops

/-- Table-level `add_back` with a non-positive track id is outside the domain of C09's theorem
(recorded finding: the schema's delete trigger is declared `WHEN OLD.trackId > 0`). -/
def okOp : Op → Bool
  | .peAddBack _ t _ _ => decide (0 < t)
  | _ => true

/-- What the property prescribes for the sibling listing of key `k` across one successful operation
(same table as the oracle of the tie): from the Spec forest before the call and the call. -/
def kidsChangeOk (f : Forest.Forest) (op : Op) (out : Out) (k : Int) : Ordered.Change :=
    match op, out with
    | .createRoot _, some i => if k = 0 then .appended i else .same
    | .createRootAfter _ a, some i => if k = 0 then .insertedAfter a i else .same
    | .createSub p _, some i => if k = p then .appended i else .same
    | .createSubAfter p _ a, some i => if k = p then .insertedAfter a i else .same
    | .setParent c p, _ =>
      if f.live c && keyOf (f.parentOf c) != keyOf p then
        (if k = keyOf p then .appended c else if k = keyOf (f.parentOf c) then .erased c else .same)
      else .same
    | .removeCrate c, _ =>
      if f.live c then
        (if (c :: f.descendants c).contains k then .dropped
         else if k = keyOf (f.parentOf c) then .erased c else .same)
      else .same
    | _, _ => .same

def kidsChange (f : Forest.Forest) (op : Op) (res : Res Out) (k : Int) : Ordered.Change :=
  match res with
  | .ok out => kidsChangeOk f op out k
  | _ => .same

/-- … and for the entry listing (entity row ids) of playlist `l`: from the Spec forest and the Spec lists
before the call, and the call. -/
def entsChangeOk (S : Ord) (f : Forest.Forest) (op : Op) (out : Out) (l : Int) : Ordered.Change :=
    match op, out with
    | .removeCrate c, _ => if f.live c && (c :: f.descendants c).contains l then .dropped else .same
    | .removeTrack t, _ =>
      if f.ids.contains l then
        match S.find l t 0 with
        | some p => .erased p.1
        | none => .same
      else .same
    | .addTrack c t, some e => if l = c && (S.find c t 0).isNone then .appended e else .same
    | .peAddBack c t u _, some e => if l = c && (S.find c t u).isNone then .appended e else .same
    | .removeTrackFrom c t, _ =>
      match S.find c t 0 with
      | some p => if l = c then .erased p.1 else .same
      | none => .same
    | .clearTracks c, _ => if l = c then .dropped else .same
    | .peRemove c e, _ => if l = c then .erased e else .same
    | .peClear c, _ => if l = c then .dropped else .same
    | _, _ => .same

def entsChange (S : Ord) (f : Forest.Forest) (op : Op) (res : Res Out) (l : Int) : Ordered.Change :=
  match res with
  | .ok out => entsChangeOk S f op out l
  | _ => .same

end EngineModel.Db.V2
