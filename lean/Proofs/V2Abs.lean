/-
Schema 2.x crates: how the Model state (Db/V2Crates.lean) is read as a Spec state,
and how the Spec is *driven* by a Model history.

The executable Specs (Spec/Forest.lean, Spec/Members.lean, Spec/Ordered.lean) are
judges: they are told which operation was called and what came back (returned /
threw, the reported new id) and say whether that is allowed and what the abstract
state is afterwards.  In the tie the real library's answers are fed to them
(Driver/Cmds/CratesV2Spec.lean); here the Model's answers are, by the functions
`judgeF`, `judgeM`, `ordStep` below — the theorems of Properties/C07V2, C08V2, C09
say that for every history the judges never object and the abstract state they
track is exactly the abstraction (`absF`, `absM`, `Rep`) of the Model state.
-/
import Proofs.ChainCore
import EngineModel.Db.V2Crates
import EngineModel.Db.V2Wf
import EngineModel.Spec.Forest
import EngineModel.Spec.Members

namespace EngineModel.Db.V2

open EngineModel.Db.Chain EngineModel.Spec

/-! ### abstraction functions -/

/-- parentListId 0 = no parent. -/
def parentOpt (k : Int) : Option Int := if k = 0 then none else some k

def keyOf : Option Int → Int
  | none => 0
  | some p => p

def crateOf (c : Int × Int × Bytes) : Forest.Crate := ⟨c.1, c.2.2, parentOpt c.2.1⟩

/-- The Playlist table read as a forest: one crate per row, in row order. -/
def absF (d : Db) : Forest.Forest := ⟨(cores d.pl).map crateOf⟩

def pairOf (c : Int × Int × Ent) : Int × Int := (c.2.1, c.2.2.track)

/-- Playlist / Track / PlaylistEntity read as a membership state: live crates, live tracks, (list, track) per entity row. -/
def absM (d : Db) : Members.State := ⟨ids d.pl, d.tracks, (cores d.pe).map pairOf⟩

/-! ### outcomes -/

/-- returned (`true`) / threw a std::exception (`false`); undefined behaviour is neither. -/
def outcome : Res Out → Option Bool
  | .ok _ => some true
  | .throw _ => some false
  | .ub _ => none

def newIdOf : Res Out → Int
  | .ok (some i) => i
  | _ => 0

/-! ### C07: the forest judge -/

def forestOp : Op → Option Forest.Op
  | .createRoot n => some (.createRoot n)
  | .createRootAfter n _ => some (.createRoot n)
  | .createSub p n => some (.createSub p n)
  | .createSubAfter p n _ => some (.createSub p n)
  | .rename c n => some (.rename c n)
  | .setParent c p => some (.setParent c p)
  | .removeCrate c => some (.remove c)
  | _ => none

def isCreate : Op → Bool
  | .createRoot _ | .createRootAfter _ _ | .createSub _ _ | .createSubAfter _ _ _ => true
  | _ => false

/-- `create_*_crate_after(…, a)`: is `a` one of the siblings-to-be?  If not the property does not
say what must happen (the verdict `accept` is weakened to `either`). -/
def afterOk (f : Forest.Forest) : Op → Bool
  | .createRootAfter _ a => f.roots.contains a
  | .createSubAfter p _ a => (f.children p).contains a
  | _ => true

def downgrade : Forest.Verdict → Forest.Verdict
  | .accept f' => .either f'
  | v => v

def verdictF (f : Forest.Forest) (op : Op) (fop : Forest.Op) (newId : Int) : Forest.Verdict :=
  if afterOk f op then Forest.step f fop newId else downgrade (Forest.step f fop newId)

/-- One operation and its result against Spec.Forest: the forest afterwards, `none` = the Spec objects
(outcome not allowed by the verdict, undefined behaviour, or a new id that is not fresh / not positive). -/
def judgeF (f : Forest.Forest) (op : Op) (res : Res Out) : Option Forest.Forest :=
  match forestOp op with
  | none => some f
  | some fop =>
    match outcome res with
    | none => none
    | some ok =>
      if ok && isCreate op && !(Forest.freshId f (newIdOf res) && decide (0 < newIdOf res)) then none
      else (verdictF f op fop (newIdOf res)).next f ok

/-- The Spec forest after a Model history, driven by the Model's own answers. -/
def specRunF : Db → Forest.Forest → List Op → Option Forest.Forest
  | _, f, [] => some f
  | d, f, op :: ops =>
    match judgeF f op (step d op).2 with
    | none => none
    | some f' => specRunF (step d op).1 f' ops

/-! ### C08: the membership judge -/

/-- The membership-level reading of an operation, given the state before and the result
(the same translation as the oracle of the tie performs on the real library's answers). -/
def membersOps (d : Db) (op : Op) (res : Res Out) : List Members.Op :=
  match op with
  | .createRoot _ | .createRootAfter _ _ | .createSub _ _ | .createSubAfter _ _ _ =>
    if outcome res == some true then [.newCrate (newIdOf res)] else []
  | .removeCrate c =>
    if outcome res == some true && plExists d c then [.dropCrates (c :: descendantIds d.pl c)] else []
  | .createTrack => [.newTrack (newIdOf res)]
  | .removeTrack t => [.dropTrack t]
  | .addTrack c t => [.add c t]
  | .removeTrackFrom c t => [.remove c t]
  | .clearTracks c => [.clear c]
  | _ => []

def judgeM1 (s : Members.State) (mop : Members.Op) (ok : Bool) : Option Members.State :=
  match mop with
  | .newTrack t => if s.tracks.contains t then none else (Members.step s mop).next s ok
  | _ => (Members.step s mop).next s ok

def judgeM (s : Members.State) (d : Db) (op : Op) (res : Res Out) : Option Members.State :=
  match outcome res with
  | none => none
  | some ok => (membersOps d op res).foldlM (fun s mop => judgeM1 s mop ok) s

/-- The crate / track API (what C07, C08 and C11 quantify over); the `pe*` operations are the
table-level playlist_entity_table interface (C09 only). -/
def apiOp : Op → Bool
  | .peAddBack _ _ _ _ | .peRemove _ _ | .peClear _ => false
  | _ => true

def specRunM : Db → Members.State → List Op → Option Members.State
  | _, s, [] => some s
  | d, s, op :: ops =>
    match judgeM s d op (step d op).2 with
    | none => none
    | some s' => specRunM (step d op).1 s' ops

/-! ### C09: the ordered lists -/

/-- One duplicate-free ordered list per key: siblings per parent (0 = the roots), entries per playlist. -/
structure Ord where
  kids : Int → List Int
  ents : Int → List Int

def Ord.empty : Ord := ⟨fun _ => [], fun _ => []⟩

/-- The listings of the keys `ks` are dropped. -/
def clearKeys (A : Int → List Int) (ks : List Int) : Int → List Int :=
  fun k => if ks.contains k then [] else A k

/-- `c` leaves the list of `ok` and is appended to the list of `nk`. -/
def moveKid (A : Int → List Int) (ok nk c : Int) : Int → List Int :=
  setKey (setKey A ok ((A ok).erase c)) nk (setKey A ok ((A ok).erase c) nk ++ [c])

/-- One operation on the ordered lists, using nothing but the list operations of Spec/Ordered
(`insertAfter`, append, `erase`, drop), driven by the Model's answer. -/
def ordOk (S : Ord) (d : Db) (op : Op) (out : Out) : Ord :=
    match op, out with
    | .createRoot _, some i => { S with kids := setKey S.kids 0 (S.kids 0 ++ [i]) }
    | .createRootAfter _ a, some i => { S with kids := setKey S.kids 0 (Ordered.insertAfter a i (S.kids 0)) }
    | .createSub p _, some i => { S with kids := setKey S.kids p (S.kids p ++ [i]) }
    | .createSubAfter p _ a, some i => { S with kids := setKey S.kids p (Ordered.insertAfter a i (S.kids p)) }
    | .setParent c p, _ =>
      match get d.pl c with
      | some row =>
        if row.key != keyOf p then { S with kids := moveKid S.kids row.key (keyOf p) c }
        else S
      | none => S
    | .removeCrate c, _ =>
      match get d.pl c with
      | some row =>
        let gone := c :: descendantIds d.pl c
        { kids := clearKeys (setKey S.kids row.key ((S.kids row.key).erase c)) gone,
          ents := clearKeys S.ents gone }
      | none => S
    | .removeTrack t, _ =>
      { S with ents := fun l =>
          if (ids d.pl).contains l then
            match peGet d l t with
            | some e => (S.ents l).erase e.id
            | none => S.ents l
          else S.ents l }
    | .addTrack c t, some e => if (peFind d c t 0).isNone then { S with ents := setKey S.ents c (S.ents c ++ [e]) } else S
    | .peAddBack l t u _, some e => if (peFind d l t u).isNone then { S with ents := setKey S.ents l (S.ents l ++ [e]) } else S
    | .removeTrackFrom c t, _ =>
      match peGet d c t with
      | some e => { S with ents := setKey S.ents c ((S.ents c).erase e.id) }
      | none => S
    | .clearTracks c, _ => { S with ents := setKey S.ents c [] }
    | .peRemove l e, _ => { S with ents := setKey S.ents l ((S.ents l).erase e) }
    | .peClear l, _ => { S with ents := setKey S.ents l [] }
    | _, _ => S

def ordStep (S : Ord) (d : Db) (op : Op) : Ord :=
  match (step d op).2 with
  | .ok out => ordOk S d op out
  | _ => S

def ordRun : Db → Ord → List Op → Ord
  | _, S, [] => S
  | d, S, op :: ops => ordRun (step d op).1 (ordStep S d op) ops

/-- Table-level `add_back` with a non-positive track id is outside the domain of C09's theorem
(recorded finding: the schema's delete trigger is declared `WHEN OLD.trackId > 0`). -/
def okOp : Op → Bool
  | .peAddBack _ t _ _ => decide (0 < t)
  | _ => true

/-- What the property prescribes for the sibling listing of key `k` across one operation
(same table as the oracle of the tie). -/
def kidsChangeOk (d : Db) (op : Op) (out : Out) (k : Int) : Ordered.Change :=
    match op, out with
    | .createRoot _, some i => if k = 0 then .inserted i else .same
    | .createRootAfter _ a, some i => if k = 0 then .insertedAfter a i else .same
    | .createSub p _, some i => if k = p then .inserted i else .same
    | .createSubAfter p _ a, some i => if k = p then .insertedAfter a i else .same
    | .setParent c p, _ =>
      match get d.pl c with
      | some row =>
        if row.key != keyOf p then
          (if k = keyOf p then .inserted c else if k = row.key then .erased c else .same)
        else .same
      | none => .same
    | .removeCrate c, _ =>
      match get d.pl c with
      | some row =>
        if (c :: descendantIds d.pl c).contains k then .dropped
        else if k = row.key then .erased c else .same
      | none => .same
    | _, _ => .same

def kidsChange (d : Db) (op : Op) (k : Int) : Ordered.Change :=
  match (step d op).2 with
  | .ok out => kidsChangeOk d op out k
  | _ => .same

/-- … and for the entry listing (entity row ids) of playlist `l`. -/
def entsChangeOk (d : Db) (op : Op) (out : Out) (l : Int) : Ordered.Change :=
    match op, out with
    | .removeCrate c, _ => if plExists d c && (c :: descendantIds d.pl c).contains l then .dropped else .same
    | .removeTrack t, _ =>
      if (ids d.pl).contains l then
        match peGet d l t with
        | some e => .erased e.id
        | none => .same
      else .same
    | .addTrack c t, some e => if l = c && (peFind d c t 0).isNone then .appended e else .same
    | .peAddBack c t u _, some e => if l = c && (peFind d c t u).isNone then .appended e else .same
    | .removeTrackFrom c t, _ =>
      match peGet d c t with
      | some e => if l = c then .erased e.id else .same
      | none => .same
    | .clearTracks c, _ => if l = c then .dropped else .same
    | .peRemove c e, _ => if l = c then .erased e else .same
    | .peClear c, _ => if l = c then .dropped else .same
    | _, _ => .same

def entsChange (d : Db) (op : Op) (l : Int) : Ordered.Change :=
  match (step d op).2 with
  | .ok out => entsChangeOk d op out l
  | _ => .same

end EngineModel.Db.V2
