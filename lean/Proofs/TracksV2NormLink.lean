/-
The normalisation the setters' Spec applies field by field is the normalisation
of the snapshot write (C01's `Spec.normalize`).
-/
import Proofs.TracksV2Get

namespace EngineModel
namespace TracksV2
namespace Spec

/-- the setter call that writes field `f` of the snapshot `x` (no setter exists for `file_bytes`; the path must be present) -/
def setterOf (x : Snap) : Field → Option Setter
  | .album => some (.album x.album) | .artist => some (.artist x.artist)
  | .averageLoudness => some (.averageLoudness x.averageLoudness) | .beatgrid => some (.beatgrid x.beatgrid)
  | .bitrate => some (.bitrate x.bitrate) | .bpm => some (.bpm x.bpm) | .comment => some (.comment x.comment)
  | .composer => some (.composer x.composer) | .duration => some (.duration x.duration) | .fileBytes => none
  | .genre => some (.genre x.genre) | .hotCues => some (.hotCues x.hotCues) | .key => some (.key x.key)
  | .lastPlayedAt => some (.lastPlayedAt x.lastPlayedAt) | .loops => some (.loops x.loops)
  | .mainCue => some (.mainCue x.mainCue) | .publisher => some (.publisher x.publisher)
  | .rating => some (.rating x.rating) | .relativePath => x.relativePath.map .relativePath
  | .sampleCount => some (.sampleCount x.sampleCount) | .sampleRate => some (.sampleRate x.sampleRate)
  | .title => some (.title x.title) | .trackNumber => some (.trackNumber x.trackNumber)
  | .waveform => some (.waveform x.waveform) | .year => some (.year x.year)

/-- **The setters normalise exactly as the snapshot write does.**  If `create_track` / `update` accept `x` and
store `y = normalize x`, then setting any single field to `x`'s value (on any track; for the waveform: one with
`x`'s sample count and rate) must leave that field holding `y`'s value. -/
theorem newValue_eq_normalize (s : Schema) (x y : Snap) (h : normalize s x = some y) (f : Field) (σ : Setter)
    (hσ : setterOf x f = some σ) (y0 : Snap)
    (hw : f = .waveform → y0.sampleCount = x.sampleCount ∧ y0.sampleRate = x.sampleRate) :
    newValue σ y0 = some (fieldOf y f) := by
  unfold normalize at h
  cases hp : x.relativePath with
  | none => simp [hp] at h
  | some p =>
    simp only [hp] at h
    split at h
    · cases h
    · split at h
      · cases h
      · split at h
        · cases h
        · split at h
          · cases h
          · cases hnw : normWaveform x.waveform x.sampleCount x.sampleRate with
            | none => simp [hnw] at h
            | some wv =>
              simp only [hnw, Option.some.injEq] at h
              subst h
              cases f <;> simp only [setterOf, Option.some.injEq, hp, Option.map_some] at hσ <;>
                first
                | (subst hσ; rfl)
                | (subst hσ; simp only [newValue, fieldOf]
                   obtain ⟨h1, h2⟩ := hw rfl
                   rw [h1, h2, hnw]; rfl)
                | cases hσ

end Spec
end TracksV2
end EngineModel
