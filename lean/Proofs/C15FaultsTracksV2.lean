/-
Helper lemmas for Properties/C15FaultsTracks.lean, schema 2.x tracks.

1. C14 side: a track call executed as its statement program under any fault plan ends on the prior table or on the
   table of the statement-level call `TDb.step` (`C14_shape_sound` + `topStmts_atomic`).
2. The BRIDGE between the statement-level table `TDb` (where the programs live) and the API model of the C15 track
   theorems (`Api/C15TracksV2.step` over the row store `TracksV2.Db`): on every table satisfying the structural
   invariant `SInv`, `TDb.step` IS `C15TracksV2.step` on the projection `view`, state and outcome (`step_view`).
3. Hence the invariants (`Inv` of C11, `dbOk` of C15) survive every history with failures, the state after such a
   history is a state of the fault-free C15 model (the run of the calls that took effect), and a removed track stays
   removed.
-/
import EngineModel.Api.FaultsTracksV2
import Properties.C14
import Proofs.TracksV2Proj
import Proofs.TracksV2Gone
import Proofs.NoUbGuardsV2
import Proofs.NoUbStaleTracksV2

namespace EngineModel.Proofs.C15FaultsTracksV2
open EngineModel EngineModel.TracksV2 EngineModel.Api.C15TracksV2 EngineModel.Api.GuardedTracksV2
open EngineModel.Api.FaultsTracksV2 EngineModel.Spec.Txn EngineModel.Spec.Stmts EngineModel.Properties.C14

/-! ### C14: all-or-nothing of the program -/

/-- **a raised run restores the prior table**, whatever made it raise (an injected fault at any position, or a
statement refusing by itself), with or without SQLite's own rollback -/
theorem raised_restores (ops : FOps) (s : Schema) (d : TDb) (op : TOp) (fault : Option Nat) (auto : Bool)
    (hr : (call fault auto (topStmts ops s d op) d).raised = true) :
    (call fault auto (topStmts ops s d op) d).conn = Conn.idle d :=
  (C14_shape_sound (topStmts ops s d op) (topStmts_atomic ops s d op) fault auto d).1 hr

/-- the table after a call under any plan: the prior one or `TDb.step`'s -/
theorem callF_state (ops : FOps) (s : Schema) (d : TDb) (op : TOp) (plan : Option Plan) :
    (callF ops s d op plan).1 = d ∨ (callF ops s d op plan).1 = (d.step ops s op).1 := by
  cases plan with
  | none => right; rfl
  | some p =>
    simp only [callF]
    split
    · right; rfl
    · split
      · rename_i hr
        left
        have := raised_restores ops s d op (some p.k) p.auto hr
        show (progRun ops s d op p).conn.view = d
        unfold progRun; rw [this]; rfl
      · right; rfl

/-- the outcome of a call under a plan is `TDb.step`'s outcome or the exception of the failing statement -/
theorem callF_outcome (ops : FOps) (s : Schema) (d : TDb) (op : TOp) (plan : Option Plan) :
    (callF ops s d op plan).2 = (d.step ops s op).2 ∨ (callF ops s d op plan).2 = .throw .sqlite_error := by
  cases plan with
  | none => left; rfl
  | some p =>
    simp only [callF]
    split
    · left; rfl
    · split
      · right; rfl
      · left; rfl

/-- a fault position inside the call: the call throws and the table is exactly the prior one -/
theorem callF_fault_inside (ops : FOps) (s : Schema) (d : TDb) (op : TOp) (p : Plan)
    (hk : p.k < positions ops s d op) (hu : ∀ u, (d.step ops s op).2 ≠ .ub u) :
    callF ops s d op (some p) = (d, .throw .sqlite_error) := by
  have h := C14_tracks_v2_all_or_nothing ops s d op p.k p.auto hk
  have hr : (progRun ops s d op p).raised = true := h.1
  have hc : (progRun ops s d op p).conn = Conn.idle d := h.2
  unfold callF
  cases hs : (d.step ops s op).2 with
  | ub u' => exact absurd hs (hu u')
  | ok o => simp only [hr, if_true, hc]; rfl
  | throw e => simp only [hr, if_true, hc]; rfl

/-- **a call that does not return normally leaves the table exactly as it was** — whether a statement failed
(injected fault, constraint) or the call threw by itself -/
theorem callF_failed_unchanged (ops : FOps) (s : Schema) {d : TDb} (hs : SInv d) (op : TOp) (plan : Option Plan)
    (hfail : ¬ ∃ v, (callF ops s d op plan).2 = .ok v) : (callF ops s d op plan).1 = d := by
  cases plan with
  | none => exact step_failed_unchanged ops s op hs hfail
  | some p =>
    simp only [callF] at hfail ⊢
    split
    · rename_i u hu
      exact step_failed_unchanged ops s op hs fun ⟨v, hv⟩ => by rw [hv] at hu; cases hu
    · split
      · rename_i hr
        have := raised_restores ops s d op (some p.k) p.auto hr
        show (progRun ops s d op p).conn.view = d
        unfold progRun; rw [this]; rfl
      · rename_i hnu hr
        refine step_failed_unchanged ops s op hs fun hv => hfail ?_
        split
        · rename_i u hu; exact absurd hu (hnu u)
        · simp only [hr]; exact hv

/-! ### the bridge: `TDb.step` is `C15TracksV2.step` on the projection -/

theorem view_eq (d : TDb) : view d = d.toDb := rfl
theorem view_get (d : TDb) (id : Nat) : (view d).get id = (d.find id).map (·.row) := toDb_get d id
theorem view_pathTaken (d : TDb) (id : Nat) (p : Bytes) : (view d).pathTaken id p = pathTaken' d id p :=
  toDb_pathTaken d id p
theorem view_rep (d : TDb) (t : TRow) (r : Row) : view (d.rep t r) = (view d).put t.id r := toDb_rep d t r

theorem snd_bind_pure {α β} (m : M α) (b : β) (db : TDb) :
    ((m >>= fun _ => (pure b : M β)) db).2 = mapRes (fun _ => b) (m db).2 := by
  rw [M.bind_apply]
  rcases m db with ⟨db', r⟩
  cases r <;> rfl

theorem lift_snd {α} (db : Db) (r : Res α) (f : α → Out) : (lift db r f).2 = mapRes f r := by
  cases r <;> rfl

theorem callCreate_eq (ops : FOps) (s : Schema) (x : Snap) {d : TDb} (hs : SInv d) :
    callCreate ops s x d =
      match writeStore ops s x with
      | .ok r =>
        if pathTaken' d 0 r.path then (d, .throw .sqlite_error)
        else ({ d with rows := d.rows ++ [d.created r], seq := d.seq + 1 }, .ok (d.seq + 1))
      | .throw e => (d, .throw e)
      | .ub u => (d, .ub u) := by
  unfold callCreate
  rw [M.lift_bind]
  cases writeStore ops s x with
  | throw e => rfl
  | ub u => rfl
  | ok r =>
    simp only []
    unfold M.stmt
    simp only [insertStmt_eq hs]
    cases pathTaken' d 0 r.path <;> rfl

theorem callUpdate_eq (ops : FOps) (s : Schema) (id : Nat) (x : Snap) {d : TDb} (hs : SInv d) :
    callUpdate ops s id x d =
      match writeStore ops s x with
      | .ok r =>
        match d.find id with
        | none => (d, .throw (.dj "track_deleted"))
        | some t => if pathTaken' d id r.path then (d, .throw .sqlite_error) else (d.rep t r, .ok ())
      | .throw e => (d, .throw e)
      | .ub u => (d, .ub u) := by
  unfold callUpdate
  rw [M.lift_bind]
  cases writeStore ops s x with
  | throw e => rfl
  | ub u => rfl
  | ok r =>
    simp only []
    rw [M.bind_apply]
    unfold M.stmt
    cases hf : d.find id with
    | none => simp only [updateStmt_none hf]; rfl
    | some t =>
      simp only [updateStmt_whole hs hf]
      cases pathTaken' d id r.path <;> rfl

theorem filter_len_zero_iff (d : TDb) (id : Nat) :
    (d.rows.filter fun e => e.id == id).length = 0 ↔ d.find id = none := by
  unfold TDb.find
  rw [List.length_eq_zero_iff, List.filter_eq_nil_iff, List.find?_eq_none]

theorem view_filter (d : TDb) (id : Nat) :
    view { d with rows := d.rows.filter fun e => !(e.id == id) } =
      { view d with rows := (view d).rows.filter fun e => !(e.1 == id) } := by
  unfold view
  simp only [Db.mk.injEq, and_true]
  rw [List.filter_map]
  rfl

/-- **The bridge.**  On a table satisfying the structural invariant, every public mutating track call of the
statement-level model is — on the row store the getters read — exactly the call of the C15 API model: the same
table afterwards and the same outcome (`create` answers the new id). -/
theorem step_view (ops : FOps) (s : Schema) {d : TDb} (hs : SInv d) (op : TOp) :
    view (d.step ops s op).1 = (step ops s (view d) (toOp op)).1 ∧
    (step ops s (view d) (toOp op)).2 = mapRes (outOf op) (d.step ops s op).2 := by
  cases op with
  | create x =>
    show view (callCreate ops s x d).1 = (step ops s (view d) (.create x)).1 ∧
      (step ops s (view d) (.create x)).2 = mapRes (outOf (.create x)) (callCreate ops s x d).2
    rw [callCreate_eq ops s x hs]
    simp only [step, Db.create, lift_fst, lift_snd]
    cases writeStore ops s x with
    | throw e => exact ⟨rfl, rfl⟩
    | ub u => exact ⟨rfl, rfl⟩
    | ok r =>
      simp only []
      rw [view_pathTaken]
      cases pathTaken' d 0 r.path with
      | true => exact ⟨rfl, rfl⟩
      | false =>
        refine ⟨?_, rfl⟩
        simp [view, TDb.created]
  | update id x =>
    show view ((callUpdate ops s id x >>= fun _ => (pure 0 : M Nat)) d).1 = (step ops s (view d) (.update id x)).1 ∧
      (step ops s (view d) (.update id x)).2 =
        mapRes (outOf (.update id x)) ((callUpdate ops s id x >>= fun _ => (pure 0 : M Nat)) d).2
    rw [fst_bind_pure, snd_bind_pure, callUpdate_eq ops s id x hs]
    have hstep : step ops s (view d) (.update id x) =
        lift ((view d).update ops s id x).1 ((view d).update ops s id x).2 fun _ => Out.unit := by
      simp only [step]; split <;> rfl
    rw [hstep, lift_fst, lift_snd]
    unfold Db.update
    cases writeStore ops s x with
    | throw e => exact ⟨rfl, rfl⟩
    | ub u => exact ⟨rfl, rfl⟩
    | ok r =>
      simp only []
      rw [view_get, view_pathTaken]
      cases hf : d.find id with
      | none => exact ⟨rfl, rfl⟩
      | some t =>
        obtain ⟨_, hid⟩ := find_mem hf
        simp only [Option.map_some, Option.isNone_some, Bool.false_eq_true, if_false]
        cases pathTaken' d id r.path with
        | true => exact ⟨rfl, rfl⟩
        | false =>
          refine ⟨?_, rfl⟩
          simp only [Bool.false_eq_true, if_false]
          rw [view_rep, hid]
  | set id σ =>
    show view ((callSet ops id σ >>= fun _ => (pure 0 : M Nat)) d).1 = (step ops s (view d) (.set id σ)).1 ∧
      (step ops s (view d) (.set id σ)).2 =
        mapRes (outOf (.set id σ)) ((callSet ops id σ >>= fun _ => (pure 0 : M Nat)) d).2
    rw [fst_bind_pure, snd_bind_pure]
    obtain ⟨h1, h2⟩ := callSet_toDb ops id σ hs
    simp only [step, lift_fst, lift_snd]
    rw [view_eq, view_eq, h1, h2]
    refine ⟨rfl, ?_⟩
    cases (d.toDb.set ops id σ).2 <;> rfl
  | remove id =>
    show view ((callRemove id >>= fun _ => (pure 0 : M Nat)) d).1 = (step ops s (view d) (.remove id)).1 ∧
      (step ops s (view d) (.remove id)).2 =
        mapRes (outOf (.remove id)) ((callRemove id >>= fun _ => (pure 0 : M Nat)) d).2
    rw [fst_bind_pure, snd_bind_pure, callRemove_eq]
    have hv : isValid (view d) id = (d.find id).isSome := by
      unfold isValid; rw [view_get]; cases d.find id <;> rfl
    simp only [step, lift_fst, lift_snd, remove, hv]
    by_cases hz : (d.rows.filter fun e => e.id == id).length = 0
    · have hf := (filter_len_zero_iff d id).mp hz
      simp only [hz, if_true, hf, Option.isSome_none, Bool.false_eq_true, if_false]
      exact ⟨trivial, rfl⟩
    · have hf : (d.find id).isSome = true := by
        cases h : d.find id with
        | none => exact absurd ((filter_len_zero_iff d id).mpr h) hz
        | some t => rfl
      simp only [hz, if_false, hf, if_true]
      exact ⟨view_filter d id, rfl⟩

/-! ### invariants along histories with failures -/

/-- the invariant of the composition: the structural invariant of the Track table (C11: ids, paths and origin
columns are keys / agree, derived columns follow the path) and the invariant of the C15 track theorems on the row
store (every stored `length` scales back to milliseconds inside `int64_t`) -/
structure FInv (d : TDb) : Prop where
  inv : Inv d
  ok : dbOk (view d) = true

theorem finv_empty (uuid : Bytes) : FInv (TDb.empty uuid) := ⟨inv_empty uuid, rfl⟩

theorem finv_step (ops : FOps) (s : Schema) {d : TDb} (h : FInv d) (op : TOp) : FInv (d.step ops s op).1 :=
  ⟨inv_step ops s op h.inv, by rw [(step_view ops s h.inv.s op).1]; exact step_dbOk ops s _ h.ok _⟩

theorem finv_callF (ops : FOps) (s : Schema) {d : TDb} (h : FInv d) (op : TOp) (plan : Option Plan) :
    FInv (callF ops s d op plan).1 := by
  rcases callF_state ops s d op plan with e | e
  · rw [e]; exact h
  · rw [e]; exact finv_step ops s h op

theorem finv_runF (ops : FOps) (s : Schema) (hist : List FCall) : ∀ {d : TDb}, FInv d → FInv (runF ops s d hist) := by
  induction hist with
  | nil => intro d h; exact h
  | cons c t ih => intro d h; exact ih (finv_callF ops s h c.1 c.2)

theorem step_defined' (ops : FOps) (s : Schema) {d : TDb} (h : FInv d) (op : TOp) (u : Ub) :
    (d.step ops s op).2 ≠ .ub u := by
  intro hu
  have h2 := (step_view ops s h.inv.s op).2
  rw [hu] at h2
  exact step_defined ops s (view d) h.ok (toOp op) u h2

theorem callF_defined (ops : FOps) (s : Schema) {d : TDb} (h : FInv d) (op : TOp) (plan : Option Plan) (u : Ub) :
    (callF ops s d op plan).2 ≠ .ub u := by
  rcases callF_outcome ops s d op plan with e | e
  · rw [e]; exact step_defined' ops s h op u
  · rw [e]; intro hh; cases hh

theorem outcomesF_defined (ops : FOps) (s : Schema) (hist : List FCall) :
    ∀ {d : TDb}, FInv d → ∀ r ∈ outcomesF ops s d hist, ∀ u, r ≠ .ub u := by
  induction hist with
  | nil => intro d _ r hr; cases hr
  | cons c t ih =>
    intro d h r hr u
    simp only [outcomesF, List.mem_cons] at hr
    rcases hr with e | e
    · rw [e]; exact callF_defined ops s h c.1 c.2 u
    · exact ih (finv_callF ops s h c.1 c.2) r e u

/-! ### the state after a history with failures is a state of the fault-free C15 model -/

/-- the calls of the history that took effect (those that failed are dropped) -/
def effective (ops : FOps) (s : Schema) (d : TDb) : List FCall → List Op
  | [] => []
  | c :: t =>
    if (callF ops s d c.1 c.2).1 = d then effective ops s d t
    else toOp c.1 :: effective ops s (callF ops s d c.1 c.2).1 t

theorem effective_sublist (ops : FOps) (s : Schema) (hist : List FCall) :
    ∀ d : TDb, (effective ops s d hist).Sublist (hist.map fun c => toOp c.1) := by
  induction hist with
  | nil => intro d; exact List.Sublist.slnil
  | cons c t ih =>
    intro d
    simp only [effective, List.map_cons]
    split
    · exact List.Sublist.cons _ (ih d)
    · exact List.Sublist.cons_cons _ (ih _)

/-- **reachability**: the row store after any history with failures is the row store the FAULT-FREE C15 model
reaches by the calls of the history that took effect, in order -/
theorem view_runF (ops : FOps) (s : Schema) (hist : List FCall) : ∀ {d : TDb}, FInv d →
    view (runF ops s d hist) = run ops s (view d) (effective ops s d hist) := by
  induction hist with
  | nil => intro d _; rfl
  | cons c t ih =>
    intro d h
    simp only [runF, effective]
    split
    · rename_i e
      have := ih (d := (callF ops s d c.1 c.2).1) (finv_callF ops s h c.1 c.2)
      rw [this, e]
    · rename_i ne
      have e : (callF ops s d c.1 c.2).1 = (d.step ops s c.1).1 := by
        rcases callF_state ops s d c.1 c.2 with e | e
        · exact absurd e ne
        · exact e
      rw [ih (finv_callF ops s h c.1 c.2)]
      simp only [run]
      rw [← (step_view ops s h.inv.s c.1).1, e]

/-! ### removed tracks stay removed -/

theorem gone_callF (ops : FOps) (s : Schema) {d : TDb} (h : FInv d) {id : Nat} (hg : Gone d id) (op : TOp)
    (plan : Option Plan) : Gone (callF ops s d op plan).1 id := by
  rcases callF_state ops s d op plan with e | e
  · rw [e]; exact hg
  · rw [e]; exact gone_step ops s op h.inv hg

theorem gone_runF (ops : FOps) (s : Schema) (hist : List FCall) :
    ∀ {d : TDb}, FInv d → ∀ {id : Nat}, Gone d id → Gone (runF ops s d hist) id := by
  induction hist with
  | nil => intro d _ id hg; exact hg
  | cons c t ih => intro d h id hg; exact ih (finv_callF ops s h c.1 c.2) (gone_callF ops s h hg c.1 c.2)

/-- a `remove_track` that RETURNED NORMALLY (whatever its plan) has removed the track for good -/
theorem gone_of_removed (ops : FOps) (s : Schema) {d : TDb} (h : FInv d) (id : Nat) (plan : Option Plan) (v : Nat)
    (hv : (callF ops s d (.remove id) plan).2 = .ok v) : Gone (callF ops s d (.remove id) plan).1 id := by
  -- the call returned normally: it is `TDb.step`
  have hstep : callF ops s d (.remove id) plan = d.step ops s (.remove id) := by
    cases plan with
    | none => rfl
    | some p =>
      simp only [callF] at hv ⊢
      split
      · rfl
      · split
        · rename_i hr; simp only [hr, if_true] at hv
          cases hv
        · rfl
  rw [hstep] at hv ⊢
  have h1 : (d.step ops s (.remove id)).1 = (callRemove id d).1 := fst_bind_pure _ _ _
  have h2 : (d.step ops s (.remove id)).2 = mapRes (fun _ => 0) (callRemove id d).2 := snd_bind_pure _ _ _
  cases hf : d.find id with
  | none =>
    exfalso
    rw [h2, callRemove_eq, if_pos ((filter_len_zero_iff d id).mpr hf)] at hv
    cases hv
  | some t =>
    rw [h1]
    exact (gone_of_remove h.inv hf).2

theorem view_get_of_gone {d : TDb} {id : Nat} (hg : Gone d id) : (view d).get id = none := by
  rw [view_eq, toDb_get, hg.1]; rfl

end EngineModel.Proofs.C15FaultsTracksV2
