/-
Composite 2.x library: the executable `libInv` (what the driver evaluates on the REAL dump) is exactly the
proof-level `LibInv` — so (a) every reachable state passes the executable check, and (b) ANY library whose dump
passes it (a loaded one, not grown from the empty library) satisfies the proof-level invariant and keeps it.
-/
import Proofs.Lib2Step

namespace EngineModel.Lib.V2
open EngineModel EngineModel.Db.Chain EngineModel.TracksV2
open EngineModel.Table (Schema2)

theorem trackExists_iff (L : Lib2) (i : Int) : trackExists L i = true ↔ i ∈ L.crates.tracks := by
  unfold trackExists nat?
  show _ ↔ i ∈ L.tdb.rows.map (fun t => (t.id : Int))
  by_cases h : 0 ≤ i
  · simp only [h, if_true]
    rw [find_isSome_iff]
    simp only [List.mem_map]
    constructor
    · rintro ⟨x, hx, e⟩; exact ⟨x, hx, by omega⟩
    · rintro ⟨x, hx, e⟩; exact ⟨x, hx, by omega⟩
  · simp only [h, if_false]
    constructor
    · intro hh; cases hh
    · intro hh
      obtain ⟨x, _, e⟩ := List.mem_map.mp hh
      omega

theorem plAny_iff (L : Lib2) (k : Int) : (L.pl.any fun p => p.id == k) = true ↔ k ∈ ids L.pl := by
  simp [ids, List.any_eq_true]

theorem allOwn_iff (L : Lib2) : allOwn L = true ↔ EngineModel.Db.V2.AllOwn L.crates := by
  unfold allOwn EngineModel.Db.V2.AllOwn
  rw [List.all_eq_true]
  constructor
  · intro h c hc
    obtain ⟨r, hr, rfl⟩ := mem_cores.mp hc
    simpa [core] using h r hr
  · intro h e he
    have := h (core e) (mem_cores.mpr ⟨e, he, rfl⟩)
    simpa [core] using this

/-- proof-level ⇒ executable -/
theorem libInv_of_LibInv {s : Schema2} {L : Lib2} (h : LibInv s L) : libInv s L = true := by
  obtain ⟨S, hS⟩ := h.cr
  unfold libInv libChecks
  simp only [List.all_cons, List.all_nil, Bool.and_true, Bool.and_eq_true]
  refine ⟨tracksWf_of_inv h.tr, EngineModel.Db.V2.wfRaw_of_inv hS h.own, (allOwn_iff L).mpr h.own, ?_, ?_, ?_, ?_⟩
  · unfold entityRefsOk
    rw [List.all_eq_true]
    intro e he
    have hu := h.own (core e) (mem_cores.mpr ⟨e, he, rfl⟩)
    obtain ⟨h1, h2⟩ := hS.mem.live (core e) (mem_cores.mpr ⟨e, he, rfl⟩) hu
    simp only [core] at h1 h2 hu
    simp only [Bool.or_eq_true, Bool.and_eq_true]
    right
    exact ⟨(trackExists_iff L _).mpr h2, (plAny_iff L _).mpr h1⟩
  · unfold logOk
    simp only [Bool.and_eq_true, Bool.or_eq_true, List.all_eq_true, decide_eq_true_eq]
    refine ⟨⟨⟨?_, distinctBy_of _ _ h.logIds.1⟩, h.logIds.2⟩, ?_⟩
    · cases hc : hasChangeLog s
      · right; rw [h.logNone hc]; rfl
      · left; rfl
    · intro r hr
      cases ht : r.track with
      | none => rfl
      | some t =>
        simp only [Lib2.trackLive]
        exact (find_isSome_iff L.tdb t).mpr (h.logLive r hr t ht)
  · unfold artOk
    simp only [Bool.and_eq_true, List.all_eq_true, List.contains_iff_mem]
    refine ⟨⟨h.art.1, h.art.2⟩, ?_⟩
    intro r hr
    cases ht : r.track with
    | none => rfl
    | some t =>
      simp only [Lib2.trackLive]
      exact (find_isSome_iff L.tdb t).mpr (h.prep r hr t ht)
  · unfold infoOk; rw [h.ver]; simp

/-- executable ⇒ proof-level: any library whose dump passes the check (not only one grown from the empty one) -/
theorem LibInv_of_libInv {s : Schema2} {L : Lib2} (h : libInv s L = true) : LibInv s L := by
  unfold libInv libChecks at h
  simp only [List.all_cons, List.all_nil, Bool.and_true, Bool.and_eq_true] at h
  obtain ⟨h1, h2, h3, _, h5, h6, h7⟩ := h
  unfold logOk at h5
  simp only [Bool.and_eq_true, Bool.or_eq_true, List.all_eq_true, decide_eq_true_eq] at h5
  obtain ⟨⟨⟨h5a, h5b⟩, h5c⟩, h5d⟩ := h5
  unfold artOk at h6
  simp only [Bool.and_eq_true, List.all_eq_true, List.contains_iff_mem] at h6
  exact {
    tr := inv_of_tracksWf h1
    cr := ⟨_, EngineModel.Db.V2.inv_of_wfRaw h2⟩
    own := (allOwn_iff L).mp h3
    logNone := by
      intro hc
      rcases h5a with e | e
      · rw [hc] at e; cases e
      · exact List.isEmpty_iff.mp e
    logIds := ⟨nodup_of_distinctBy _ _ h5b, h5c⟩
    logLive := by
      intro r hr t ht
      have := h5d r hr
      rw [ht] at this
      exact (find_isSome_iff L.tdb t).mp this
    art := h6.1
    prep := by
      intro r hr t ht
      have := h6.2 r hr
      rw [ht] at this
      exact (find_isSome_iff L.tdb t).mp this
    ver := by unfold infoOk at h7; simpa using h7 }

theorem libInv_iff (s : Schema2) (L : Lib2) : libInv s L = true ↔ LibInv s L :=
  ⟨LibInv_of_libInv, libInv_of_LibInv⟩

end EngineModel.Lib.V2
