/-
C15, schema 1.x tracks: with the guards the C++ source has today (`Gen.C15Guards`, regenerated on every
run) no index, optional dereference, double→int conversion or division of the 1.x track call paths is
reached outside its domain: `siteG Guards.source … = ok ()`, hence the guarded dispatcher `stepG` is the
dispatcher `C15TracksV1.step`.
-/
import EngineModel.Api.GuardedTracksV1
import Proofs.NoUbGuardsGen
import Proofs.C15GuardValues
import Proofs.NoUbTracksV1

namespace EngineModel.Api.GuardedTracksV1
open EngineModel EngineModel.TracksV1 EngineModel.Api.C15TracksV1 EngineModel.Gen
open Fl (FOps)

set_option linter.unusedSimpArgs false

/-! ### the per-slot accessors -/

theorem s32_bounds (i : UInt32) : -2147483648 ≤ Prim.s32 i ∧ Prim.s32 i < 2147483648 := by
  have := i.toNat_lt
  unfold Prim.s32; split <;> omega

theorem isRange_hotCueAt : C15Guards.IsRange Guards.source.hotCueAt := C15Guards.v1_track_hot_cue_at_range_isRange
theorem isRange_setHotCueAt : C15Guards.IsRange Guards.source.setHotCueAt := C15Guards.v1_track_set_hot_cue_at_range_isRange
theorem isRange_loopAt : C15Guards.IsRange Guards.source.loopAt := C15Guards.v1_track_loop_at_range_isRange
theorem isRange_setLoopAt : C15Guards.IsRange Guards.source.setLoopAt := C15Guards.v1_track_set_loop_at_range_isRange

theorem slotSiteG_ok {α : Type} {guard : Int → Nat → Bool} (hg : C15Guards.IsRange guard) (l : List α) (i : UInt32) :
    slotSiteG guard l i = .ok () := by
  unfold slotSiteG
  obtain ⟨h1, h2⟩ := s32_bounds i
  cases hv : guard (Prim.s32 i) l.length with
  | true => rfl
  | false =>
    have hn : ¬ (Prim.s32 i < 0 ∨ (l.length : Int) ≤ Prim.s32 i) := by
      intro hh; rw [(hg _ _ h1 h2).mpr hh] at hv; cases hv
    simp only [Bool.false_eq_true, if_false]
    unfold indexAt
    have h0 : 0 ≤ Prim.s32 i := by omega
    have hlt : (Prim.s32 i).toNat < l.length := by omega
    simp only [h0, if_true, List.getElem?_eq_getElem hlt, Res.bind]

/-! ### the conversions -/

theorem lengthCalcNone_eq (a b c e : Bool) :
    Guards.source.lengthCalcNone a b c e = ((((!a) || (!b)) || (!c)) || (!e)) := C15Guards.v1_length_calc_none_eq a b c e
theorem bpmFieldsInRange_eq (a b : Bool) : Guards.source.bpmFieldsInRange a b = (a && b) := C15Guards.v1_bpm_fields_inrange_eq a b
theorem setBpmInRange_eq (a b : Bool) : Guards.source.setBpmInRange a b = (a && b) := C15Guards.v1_set_bpm_inrange_eq a b
theorem extentsRateOut_eq (a : Bool) : Guards.source.extentsRateOut a = (!a) := C15Guards.v1_extents_rate_out_eq a
theorem overviewAbsent_eq (a b : Bool) : Guards.source.overviewAbsent a b = ((!a) || (!b)) := C15Guards.v1_overview_absent_eq a b
theorem overviewNonEmpty_eq (a : Bool) : Guards.source.overviewNonEmpty a = (!a) := C15Guards.v1_overview_nonempty_eq a
theorem hiresAbsent_eq (a b c e : Bool) : Guards.source.hiresAbsent a b c e = ((((!a) || b) || (!c)) || e) := C15Guards.v1_hires_absent_eq a b c e
theorem overviewLoop_iff (i size : Nat) : Guards.source.overviewLoop i size = true ↔ i < size := C15Guards.v1_overview_loop_iff i size

theorem lengthCalcSiteG_ok (c : Option UInt64) (r : Option Fl.Bits) : lengthCalcSiteG Guards.source c r = .ok () := by
  unfold lengthCalcSiteG
  simp only [lengthCalcNone_eq]
  cases c with
  | none => simp
  | some n =>
    cases r with
    | none => simp
    | some x =>
      simp only [Option.isSome_some, Bool.not_true, Bool.false_or]
      by_cases h : ((!F64.le F64.one x) || (!F64.lt x Fl.two63)) = true
      · rw [if_pos h]
      · rw [if_neg h]
        have hd : Fl.rateDivisible x = true := by
          unfold Fl.rateDivisible
          simp only [Bool.or_eq_true, Bool.not_eq_true', not_or, Bool.not_eq_false] at h
          simp [h.1, h.2]
        obtain ⟨dv, hdv, hpos⟩ := Fl.toI64_pos_of_rateDivisible x hd
        obtain ⟨q, hq⟩ := i64div_pos (Prim.s64 n) dv (inI64_s64 n) hpos
        simp [deref, Res.bind, hdv, hq]

theorem bpmFieldsSiteG_ok (b : Option Fl.Bits) : bpmFieldsSiteG Guards.source b = .ok () := by
  unfold bpmFieldsSiteG
  simp only [bpmFieldsInRange_eq]
  cases b with
  | none => simp
  | some x =>
    simp only [Option.isSome_some, Bool.true_and]
    by_cases h : Fl.absLt63 x = true
    · rw [if_pos h]
      obtain ⟨v, hv⟩ := Fl.toI64_some_of_absLt63 x h
      simp [deref, Res.bind, hv]
    · rw [if_neg h]

theorem setBpmSiteG_ok (o : FOps) (hc : CeilInRange o) (b : Option Fl.Bits) : setBpmSiteG Guards.source o b = .ok () := by
  unfold setBpmSiteG
  simp only [setBpmInRange_eq]
  cases b with
  | none => simp
  | some x =>
    simp only [Option.isSome_some, Bool.true_and]
    by_cases h : Fl.absLt63 x = true
    · rw [if_pos h]
      obtain ⟨v, hv⟩ := hc x h
      simp [deref, Res.bind, hv]
    · rw [if_neg h]

theorem extentsRateG_eq (r : Fl.Bits) : extentsRateG Guards.source r = extentsRate r := by
  unfold extentsRateG extentsRate
  rw [extentsRateOut_eq]
  cases Fl.absLt63 r <;> rfl

theorem overviewLoopG_ok (w : List Impl.V1.Entry) (hw : w ≠ []) (size : Nat) :
    ∀ (fuel i : Nat), size - i < fuel → overviewLoopG Guards.source w size fuel i = .ok () := by
  intro fuel
  induction fuel with
  | zero => intro i h; omega
  | succ f ih =>
    intro i h
    unfold overviewLoopG
    cases hg : Guards.source.overviewLoop i size with
    | false => rfl
    | true =>
      have hi : i < size := (overviewLoop_iff i size).mp hg
      simp only [if_true]
      have hlen : 0 < w.length := List.length_pos_iff.mpr hw
      have hne : ¬ (2 * size = 0) := by omega
      unfold Cxx.U64.div
      rw [if_neg hne]
      have hidx : w.length * (2 * i + 1) / (2 * size) < w.length := by
        apply Nat.div_lt_of_lt_mul
        have : 2 * i + 1 < 2 * size := by omega
        calc w.length * (2 * i + 1) < w.length * (2 * size) := Nat.mul_lt_mul_of_pos_left this hlen
          _ = 2 * size * w.length := Nat.mul_comm _ _
      unfold indexAt
      simp only [Int.natCast_nonneg, if_true, Int.toNat_natCast, List.getElem?_eq_getElem hidx, Res.bind]
      exact ih (i + 1) (by omega)

theorem overviewSiteG_ok (o : FOps) (c : Option UInt64) (r : Option Fl.Bits) (w : List Impl.V1.Entry) :
    overviewSiteG Guards.source o c r w = .ok () := by
  unfold overviewSiteG
  rw [overviewAbsent_eq, overviewNonEmpty_eq]
  cases c with
  | none => simp
  | some n =>
    cases r with
    | none => simp
    | some x =>
      simp only [Option.isSome_some, Bool.not_true, Bool.or_self, Bool.false_eq_true, if_false, deref, Res.bind]
      rw [extentsRateG_eq]
      obtain ⟨v, hv⟩ := extentsRate_toI64 x
      have hu : GuardedUtils.extentsSiteG Guards.source.utilOvwZero Fl.toI64 n.toNat (extentsRate x) = .ok () :=
        TrackUtils.extentsSiteG_ok _ (fun n qn r h => (C15Guards.util_ovw_zero_iff n qn r).mpr (Or.inr h))
          Fl.toI64 n.toNat (extentsRate x) v hv (toI64_inI64 _ v hv)
      rw [hu]
      simp only [Res.bind]
      obtain ⟨size, spe, hg, _⟩ :=
        TrackUtils.gen_ovw_some o.cxx n.toNat (extentsRate x) v hv (toI64_inI64 _ v hv)
      rw [hg]
      simp only
      by_cases hw : w.isEmpty = true
      · simp [hw]
      · have hw' : (!w.isEmpty) = true := by simpa using hw
        rw [if_pos hw']
        have hne : w ≠ [] := by
          intro e; apply hw; rw [e]; rfl
        exact overviewLoopG_ok w hne size (size + 1) 0 (by omega)

theorem hiresSiteG_ok (o : FOps) (c : Option UInt64) (r : Option Fl.Bits) : hiresSiteG Guards.source o c r = .ok () := by
  unfold hiresSiteG
  simp only [hiresAbsent_eq]
  cases c with
  | none => simp
  | some n =>
    cases r with
    | none => simp
    | some x =>
      simp only [Option.isSome_some, Bool.not_true, Bool.false_or, deref, Res.bind]
      split
      · rfl
      · rw [extentsRateG_eq]
        obtain ⟨v, hv⟩ := extentsRate_toI64 x
        have hu : GuardedUtils.extentsSiteG Guards.source.utilHiresZero Fl.toI64 n.toNat (extentsRate x) = .ok () :=
          TrackUtils.extentsSiteG_ok _ (fun n qn r h => (C15Guards.util_hires_zero_iff n qn r).mpr (Or.inr h))
            Fl.toI64 n.toNat (extentsRate x) v hv (toI64_inI64 _ v hv)
        rw [hu]
        simp only [Res.bind]
        obtain ⟨e, he⟩ := TrackUtils.gen_hires_some o.cxx n.toNat (extentsRate x) v hv (toI64_inI64 _ v hv)
        rw [he]

theorem snapSiteG_ok (o : FOps) (x : Snap) : snapSiteG Guards.source o x = .ok () := by
  unfold snapSiteG
  cases x.relativePath with
  | none => rfl
  | some p => simp only [lengthCalcSiteG_ok, bpmFieldsSiteG_ok, overviewSiteG_ok, hiresSiteG_ok, Res.bind]

/-! ### the dispatcher -/

theorem siteG_ok (o : FOps) (hc : CeilInRange o) (d : Db) (op : Op) : siteG Guards.source o d op = .ok () := by
  cases op with
  | create x => exact snapSiteG_ok o x
  | update id x => exact snapSiteG_ok o x
  | get id f =>
    cases f with
    | hotCueAt i => exact slotSiteG_ok isRange_hotCueAt _ i
    | loopAt i => exact slotSiteG_ok isRange_loopAt _ i
    | _ => rfl
  | set id f v =>
    cases f with
    | hotCueAt i => exact slotSiteG_ok isRange_setHotCueAt _ i
    | loopAt i => exact slotSiteG_ok isRange_setLoopAt _ i
    | bpm =>
      simp only [siteG]
      split
      · exact setBpmSiteG_ok o hc v
      · rfl
    | _ => rfl
  | snapshot id => rfl
  | getDerived id g => rfl
  | remove id => rfl
  | isValid id => rfl
  | handleId id => rfl
  | handleCopy id => rfl

/-- **The guarded dispatcher is the dispatcher.** -/
theorem stepG_eq (o : FOps) (hc : CeilInRange o) (d : Db) (op : Op) : stepG o d op = step o d op := by
  unfold stepG stepGW
  rw [siteG_ok o hc d op]

theorem outcomesG_eq (o : FOps) (hc : CeilInRange o) (l : List Op) : ∀ d, outcomesG o d l = outcomes o d l := by
  induction l with
  | nil => intro d; rfl
  | cons op t ih => intro d; simp only [outcomesG, outcomes, stepG_eq o hc, ih]

/-! ### the whole public alphabet -/

theorem callG_fst (o : FOps) (hc : CeilInRange o) (d : Db) (c : Call) :
    (callG o d c).1 = match c with | .op op => (step o d op).1 | _ => d := by
  cases c with
  | op op => simp only [callG, callGW]; exact congrArg Prod.fst (stepG_eq o hc d op)
  | _ => rfl

theorem callG_defined (o : FOps) (hc : CeilInRange o) (d : Db) (hd : DbInv d) (c : Call) (u : Ub) :
    (callG o d c).2 ≠ .ub u := by
  cases c with
  | op op =>
    simp only [callG, callGW]
    have h : (stepGW Guards.source o d op).2 = (step o d op).2 := congrArg Prod.snd (stepG_eq o hc d op)
    rw [h]
    cases hr : (step o d op).2 with
    | ok a => intro hh; cases hh
    | throw e => intro hh; cases hh
    | ub u' => exact absurd hr (step_defined o hc d hd op u')
  | dbTracks => intro hh; cases hh
  | dbTrackById id => intro hh; cases hh
  | dbTracksByPath p => intro hh; cases hh
  | dbUuid => intro hh; cases hh
  | dbVersionName => intro hh; cases hh
  | dbDirectory => intro hh; cases hh
  | dbVerify => intro hh; cases hh

theorem callG_inv (o : FOps) (hc : CeilInRange o) (d : Db) (hd : DbInv d) (c : Call) : DbInv (callG o d c).1 := by
  rw [callG_fst o hc]
  cases c with
  | op op => exact step_inv o d hd op
  | _ => exact hd

theorem callOutcomes_defined (o : FOps) (hc : CeilInRange o) (l : List Call) :
    ∀ d, DbInv d → ∀ r ∈ callOutcomes o d l, ∀ u, r ≠ .ub u := by
  induction l with
  | nil => intro d _ r hr; cases hr
  | cons c t ih =>
    intro d hd r hr u
    simp only [callOutcomes, List.mem_cons] at hr
    rcases hr with e | e
    · rw [e]; exact callG_defined o hc d hd c u
    · exact ih _ (callG_inv o hc d hd c) r e u

end EngineModel.Api.GuardedTracksV1
