/-
The full invariant `Inv` of the schema-1.x crate tables, the exact outcome of
every operation on a state satisfying it, and its preservation.
-/
import Proofs.CratesV1Struct

namespace EngineModel.Api.CratesV1
open EngineModel.Pure.Detect EngineModel.Spec

/-- `path` column of the row with id `p` ("" when there is none). -/
def rowPath (db : Db) (p : Id) : Name := ((db.crate.find? (·.id == p)).map (·.path)).getD []

def liveTrack (db : Db) (t : Id) : Prop := ∃ r ∈ db.track, r.id = t ∧ r.hasPath = true

structure Inv (db : Db) : Prop extends FInv db where
  namesValid : ∀ r ∈ db.crate, Forest.validName r.title = true
  pathStep : ∀ r ∈ db.crate, ∀ p, (r.id, p) ∈ db.cpl →
    r.path = (if p = r.id then [] else rowPath db p) ++ r.title ++ [semicolon]
  ctlNodup : db.ctl.Nodup
  ctlLive : ∀ r ∈ db.ctl, r.1 ∈ ids db ∧ liveTrack db r.2
  trackNodup : (db.track.map (·.id)).Nodup

theorem inv_empty : Inv Db.empty := by
  refine ⟨⟨?_, ?_, ?_, ?_, ?_, ?_, ?_, ?_⟩, ?_, ?_, ?_, ?_, ?_⟩ <;> simp [Db.empty, ids, Par]

/-! ### rows with unique ids -/
section rows
variable {db : Db}

theorem find_of_mem (h : (ids db).Nodup) {r : CrateRow} (hr : r ∈ db.crate) :
    db.crate.find? (·.id == r.id) = some r := by
  rcases filter_id_of_nodup h r.id with h0 | ⟨r', hr', hrc, hf⟩
  · rw [List.filter_eq_nil_iff] at h0
    exact absurd (by simp) (h0 r hr)
  · have : r' = r := List.inj_on_of_nodup_map h hr' hr hrc
    subst this
    rw [← List.head?_filter, hf]; rfl

theorem filter_of_mem (h : (ids db).Nodup) {r : CrateRow} (hr : r ∈ db.crate) :
    db.crate.filter (·.id == r.id) = [r] := by
  rcases filter_id_of_nodup h r.id with h0 | ⟨r', hr', hrc, hf⟩
  · rw [List.filter_eq_nil_iff] at h0
    exact absurd (by simp) (h0 r hr)
  · have : r' = r := List.inj_on_of_nodup_map h hr' hr hrc
    subst this; exact hf

theorem filter_of_dead {c : Id} (hc : c ∉ ids db) : db.crate.filter (·.id == c) = [] := by
  rw [List.filter_eq_nil_iff]
  intro r hr he
  simp only [beq_iff_eq] at he
  exact hc (he ▸ List.mem_map_of_mem (f := (·.id)) hr)

theorem exists_row {c : Id} (hc : c ∈ ids db) : ∃ r ∈ db.crate, r.id = c := by
  unfold ids at hc
  rw [List.mem_map] at hc
  exact hc

theorem rowPath_of_mem (h : (ids db).Nodup) {r : CrateRow} (hr : r ∈ db.crate) : rowPath db r.id = r.path := by
  unfold rowPath; rw [find_of_mem h hr]; rfl

theorem crateIsValid_live (h : (ids db).Nodup) {c : Id} (hc : c ∈ ids db) : crateIsValid db c = .ok true := by
  obtain ⟨r, hr, rfl⟩ := exists_row hc
  unfold crateIsValid; rw [filter_of_mem h hr]; rfl

theorem crateIsValid_dead {c : Id} (hc : c ∉ ids db) : crateIsValid db c = .ok false := by
  unfold crateIsValid; rw [filter_of_dead hc]; rfl

theorem requireValid_live (h : (ids db).Nodup) {c : Id} (hc : c ∈ ids db) : requireValid db c = .ok () := by
  unfold requireValid; rw [crateIsValid_live h hc]; rfl

theorem requireValid_dead {c : Id} (hc : c ∉ ids db) : requireValid db c = .throw exCrateDeleted := by
  unfold requireValid; rw [crateIsValid_dead hc]; rfl

theorem crateName_of_mem (h : (ids db).Nodup) {r : CrateRow} (hr : r ∈ db.crate) : crateName db r.id = .ok r.title := by
  unfold crateName; rw [filter_of_mem h hr]; rfl

theorem crateName_dead {c : Id} (hc : c ∉ ids db) : crateName db c = .throw exCrateDeleted := by
  unfold crateName; rw [filter_of_dead hc]; rfl

theorem selectOwnPath_of_mem (h : (ids db).Nodup) {r : CrateRow} (hr : r ∈ db.crate) :
    selectOwnPath db r.id = .ok r.path := by
  unfold selectOwnPath; rw [filter_of_mem h hr]; rfl

theorem selectOwnPath_dead {c : Id} (hc : c ∉ ids db) : selectOwnPath db c = .throw exCrateDeleted := by
  unfold selectOwnPath; rw [filter_of_dead hc]; rfl

end rows

/-! ### name checks -/
theorem sem_eq : Forest.semicolon = semicolon := rfl

theorem ensureValidName_ok {n : Name} (h : Forest.validName n = true) : ensureValidName n = .ok () := by
  unfold Forest.validName at h
  rw [sem_eq] at h
  unfold ensureValidName
  simp only [Bool.and_eq_true, Bool.not_eq_eq_eq_not, Bool.not_true] at h
  rw [if_neg (by simp [h.1]), if_neg (by simp only [h.2]; simp)]

theorem ensureValidName_throw {n : Name} (h : Forest.validName n = false) :
    ensureValidName n = .throw exInvalidName := by
  unfold Forest.validName at h
  rw [sem_eq] at h
  unfold ensureValidName
  by_cases h1 : n.isEmpty = true
  · rw [if_pos h1]
  · have h2 : n.contains semicolon = true := by
      simp only [Bool.not_eq_true] at h1
      rw [h1] at h
      simpa only [Bool.not_false, Bool.true_and, Bool.not_eq_eq_eq_not, Bool.not_false] using h
    rw [if_neg h1, if_pos h2]

theorem lastById_isSome (l : List Id) : (lastById l).isSome = !l.isEmpty := by
  unfold lastById
  have hp := List.mergeSort_perm l (fun a b => decide (a ≤ b))
  cases hl : l with
  | nil => simp [sortIds]
  | cons a t =>
    have hne : sortIds (a :: t) ≠ [] := by
      intro he
      have := hp.length_eq
      rw [hl] at this
      unfold sortIds at he
      rw [he] at this
      simp at this
    cases hs : sortIds (a :: t) with
    | nil => exact absurd hs hne
    | cons b u => simp [List.getLast?_cons_cons, List.getLast?_isSome]

/-- Some root crate is called `n`. -/
def RootNamed (db : Db) (n : Name) : Prop := ∃ r ∈ db.crate, r.title = n ∧ (r.id, r.id) ∈ db.cpl

/-- Some child of `c` is called `n`. -/
def SubNamed (db : Db) (c : Id) (n : Name) : Prop := ∃ r ∈ db.crate, r.title = n ∧ Par db r.id c

theorem rootCrateByName_isSome (db : Db) (n : Name) : (rootCrateByName db n).isSome = true ↔ RootNamed db n := by
  unfold rootCrateByName RootNamed
  rw [lastById_isSome]
  simp only [Bool.not_eq_eq_eq_not, Bool.not_true]
  rw [List.isEmpty_eq_false_iff_exists_mem]
  simp only [List.mem_flatMap, List.mem_filter, List.mem_map, beq_iff_eq, Bool.and_eq_true]
  constructor
  · rintro ⟨x, cr, ⟨hcr, ht⟩, ⟨row, ⟨hrow, h1, h2⟩, _⟩⟩
    refine ⟨cr, hcr, ht, ?_⟩
    have : row = (cr.id, cr.id) := Prod.ext h1 (by rw [← h2, h1])
    rw [← this]; exact hrow
  · rintro ⟨cr, hcr, ht, hrow⟩
    exact ⟨cr.id, cr, ⟨hcr, ht⟩, ⟨(cr.id, cr.id), ⟨hrow, rfl, rfl⟩, rfl⟩⟩

theorem subCrateByName_isSome (db : Db) (c : Id) (n : Name) :
    (subCrateByName db c n).isSome = true ↔ SubNamed db c n := by
  unfold subCrateByName SubNamed Par
  rw [lastById_isSome]
  simp only [Bool.not_eq_eq_eq_not, Bool.not_true]
  rw [List.isEmpty_eq_false_iff_exists_mem]
  simp only [List.mem_flatMap, List.mem_filter, List.mem_map, beq_iff_eq, Bool.and_eq_true, bne_iff_ne, ne_eq]
  constructor
  · rintro ⟨x, cr, ⟨hcr, ht⟩, ⟨row, ⟨hrow, ⟨h1, h2⟩, h3⟩, _⟩⟩
    refine ⟨cr, hcr, ht, ?_, ?_⟩
    · have : row = (cr.id, c) := Prod.ext h1 h2
      rw [← this]; exact hrow
    · intro e; exact h3 (by rw [h1, h2, e])
  · rintro ⟨cr, hcr, ht, hrow, hne⟩
    exact ⟨cr.id, cr, ⟨hcr, ht⟩, ⟨(cr.id, c), ⟨hrow, ⟨rfl, rfl⟩, fun e => hne e.symm⟩, rfl⟩⟩

/-! ### create_root_crate -/

def afterCreateRoot (s : Schema) (db : Db) (n : Name) : Db :=
  { db with crate := db.crate ++ [⟨newCrateId s db, n, n ++ [semicolon]⟩],
            cpl := db.cpl ++ [(newCrateId s db, newCrateId s db)] }

theorem insertCrate_fresh (s : Schema) (db : Db) (r : CrateRow) (h : r.id ∉ ids db) :
    insertCrate s db r = .ok { db with crate := db.crate ++ [r] } := by
  unfold insertCrate
  have : db.crate.any (·.id == r.id) = false := by
    rw [List.any_eq_false]
    intro x hx he
    simp only [beq_iff_eq] at he
    exact h (he ▸ List.mem_map_of_mem (f := (·.id)) hx)
  rw [this]; rfl

theorem createRoot_invalid (s : Schema) (db : Db) {n : Name} (hv : Forest.validName n = false) :
    createRootCrate s db n = (db, .throw exInvalidName) := by
  unfold createRootCrate; rw [ensureValidName_throw hv]

theorem createRoot_dup (s : Schema) (db : Db) {n : Name} (hv : Forest.validName n = true) (hd : RootNamed db n) :
    createRootCrate s db n = (db, .throw exAlreadyExists) := by
  unfold createRootCrate
  rw [ensureValidName_ok hv]
  simp [transaction, (rootCrateByName_isSome db n).mpr hd]

theorem createRoot_ok (s : Schema) (db : Db) {n : Name} (hv : Forest.validName n = true) (hd : ¬ RootNamed db n) :
    createRootCrate s db n = (afterCreateRoot s db n, .ok (.id (newCrateId s db))) := by
  unfold createRootCrate
  rw [ensureValidName_ok hv]
  have h0 : (rootCrateByName db n).isSome = false := by
    rw [← Bool.not_eq_true, rootCrateByName_isSome]; exact hd
  simp only [transaction, h0, Bool.false_eq_true, if_false]
  rw [insertCrate_fresh s db _ (newCrateId_fresh s db)]
  rfl

theorem rowPath_append {db db' : Db} {l : List CrateRow} (hc : db'.crate = db.crate ++ l) {p : Id} (hp : p ∈ ids db) :
    rowPath db' p = rowPath db p := by
  obtain ⟨r, hr, rfl⟩ := exists_row hp
  unfold rowPath
  rw [hc, List.find?_append]
  cases hf : db.crate.find? (·.id == r.id) with
  | some x => rfl
  | none =>
    rw [List.find?_eq_none] at hf
    exact absurd (by simp) (hf r hr)

theorem liveTrack_congr {db db' : Db} (h : db'.track = db.track) (t : Id) : liveTrack db' t ↔ liveTrack db t := by
  unfold liveTrack; rw [h]

theorem inv_createRoot (s : Schema) {db : Db} (h : Inv db) {n : Name} (hv : Forest.validName n = true) :
    Inv (afterCreateRoot s db n) := by
  have hf := newCrateId_fresh s db
  have hids : ids (afterCreateRoot s db n) = ids db ++ [newCrateId s db] := by simp [ids, afterCreateRoot]
  refine ⟨h.toFInv.add_root hf hids rfl rfl, ?_, ?_, h.ctlNodup, ?_, h.trackNodup⟩
  · intro r hr
    simp only [afterCreateRoot, List.mem_append, List.mem_singleton] at hr
    rcases hr with hr | rfl
    · exact h.namesValid r hr
    · exact hv
  · intro r hr p hp
    simp only [afterCreateRoot, List.mem_append, List.mem_singleton] at hr hp
    rcases hr with hr | rfl
    · have hrl : r.id ∈ ids db := List.mem_map_of_mem (f := (·.id)) hr
      rcases hp with hp | hp
      · have := h.pathStep r hr p hp
        rw [this]
        by_cases hpe : p = r.id
        · simp [hpe]
        · simp only [hpe, if_false]
          rw [rowPath_append (db := db) (db' := afterCreateRoot s db n) rfl (h.cplParentLive _ hp)]
      · exact absurd ((Prod.mk.inj hp).1 ▸ hrl) hf
    · rcases hp with hp | hp
      · exact absurd ((h.cplTotal _).mp (List.mem_map_of_mem (f := (·.1)) hp)) hf
      · simp [(Prod.mk.inj hp).2]
  · intro r hr
    rw [hids]
    have := h.ctlLive r hr
    exact ⟨List.mem_append_left _ this.1, (liveTrack_congr rfl _).mpr this.2⟩

/-! ### create_sub_crate -/

def afterCreateSub (s : Schema) (db : Db) (c : Id) (n : Name) : Db :=
  { db with crate := db.crate ++ [⟨newCrateId s db, n, rowPath db c ++ n ++ [semicolon]⟩],
            cpl := db.cpl ++ [(newCrateId s db, c)],
            ch := db.ch ++ hierarchyRowsFor db.ch (newCrateId s db) c }

theorem createSub_invalid (s : Schema) (db : Db) (c : Id) {n : Name} (hv : Forest.validName n = false) :
    createSubCrate s db c n = (db, .throw exInvalidName) := by
  unfold createSubCrate; rw [ensureValidName_throw hv]

theorem createSub_dup (s : Schema) (db : Db) (c : Id) {n : Name} (hv : Forest.validName n = true)
    (hd : SubNamed db c n) : createSubCrate s db c n = (db, .throw exAlreadyExists) := by
  unfold createSubCrate
  rw [ensureValidName_ok hv]
  simp [transaction, (subCrateByName_isSome db c n).mpr hd]

theorem createSub_dead (s : Schema) (db : Db) {c : Id} {n : Name} (hv : Forest.validName n = true)
    (hd : ¬ SubNamed db c n) (hc : c ∉ ids db) : createSubCrate s db c n = (db, .throw exCrateDeleted) := by
  unfold createSubCrate
  rw [ensureValidName_ok hv]
  have h0 : (subCrateByName db c n).isSome = false := by
    rw [← Bool.not_eq_true, subCrateByName_isSome]; exact hd
  simp [transaction, h0, selectOwnPath_dead hc]

theorem createSub_ok (s : Schema) {db : Db} (h : (ids db).Nodup) {c : Id} {n : Name} (hv : Forest.validName n = true)
    (hd : ¬ SubNamed db c n) (hc : c ∈ ids db) :
    createSubCrate s db c n = (afterCreateSub s db c n, .ok (.id (newCrateId s db))) := by
  unfold createSubCrate
  rw [ensureValidName_ok hv]
  have h0 : (subCrateByName db c n).isSome = false := by
    rw [← Bool.not_eq_true, subCrateByName_isSome]; exact hd
  obtain ⟨r, hr, rfl⟩ := exists_row hc
  simp only [transaction, h0, Bool.false_eq_true, if_false, selectOwnPath_of_mem h hr, Res.bind_ok]
  rw [insertCrate_fresh s db _ (newCrateId_fresh s db)]
  simp only [Res.bind_ok, Res.pure_eq, afterCreateSub, rowPath_of_mem h hr]

theorem inv_createSub (s : Schema) {db : Db} (h : Inv db) {c : Id} {n : Name} (hv : Forest.validName n = true)
    (hc : c ∈ ids db) : Inv (afterCreateSub s db c n) := by
  have hf := newCrateId_fresh s db
  have hids : ids (afterCreateSub s db c n) = ids db ++ [newCrateId s db] := by simp [ids, afterCreateSub]
  have hcn : c ≠ newCrateId s db := fun e => hf (e ▸ hc)
  refine ⟨h.toFInv.add_leaf hf hc hids rfl rfl, ?_, ?_, h.ctlNodup, ?_, h.trackNodup⟩
  · intro r hr
    simp only [afterCreateSub, List.mem_append, List.mem_singleton] at hr
    rcases hr with hr | rfl
    · exact h.namesValid r hr
    · exact hv
  · intro r hr p hp
    simp only [afterCreateSub, List.mem_append, List.mem_singleton] at hr hp
    rcases hr with hr | rfl
    · have hrl : r.id ∈ ids db := List.mem_map_of_mem (f := (·.id)) hr
      rcases hp with hp | hp
      · have := h.pathStep r hr p hp
        rw [this]
        by_cases hpe : p = r.id
        · simp [hpe]
        · simp only [hpe, if_false]
          rw [rowPath_append (db := db) (db' := afterCreateSub s db c n) rfl (h.cplParentLive _ hp)]
      · exact absurd ((Prod.mk.inj hp).1 ▸ hrl) hf
    · rcases hp with hp | hp
      · exact absurd ((h.cplTotal _).mp (List.mem_map_of_mem (f := (·.1)) hp)) hf
      · have hpc : p = c := (Prod.mk.inj hp).2
        subst hpc
        simp only [hcn, if_false]
        rw [rowPath_append (db := db) (db' := afterCreateSub s db p n) rfl hc]
  · intro r hr
    rw [hids]
    have := h.ctlLive r hr
    exact ⟨List.mem_append_left _ this.1, (liveTrack_congr rfl _).mpr this.2⟩

end EngineModel.Api.CratesV1
