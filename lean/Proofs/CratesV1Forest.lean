/-
The structural invariant of the schema-1.x crate tables (`FInv`) and what
follows from it: the parent list is a well-founded forest, the flattened
hierarchy is its strict transitive closure (stated locally as a fixpoint +
irreflexivity, which pins it down uniquely), and the Spec's fuel-bounded
ancestor walk agrees with the hierarchy table.
-/
import Proofs.CratesV1Sql
import EngineModel.Api.CratesV1Wf
import Mathlib.Data.List.Perm.Basic

namespace EngineModel.Api.CratesV1
open EngineModel.Pure.Detect EngineModel.Spec

def ids (db : Db) : List Id := db.crate.map (·.id)

/-- `p` is the proper parent of `c` (a root is its own parent in the table). -/
def Par (db : Db) (c p : Id) : Prop := (c, p) ∈ db.cpl ∧ p ≠ c

structure FInv (db : Db) : Prop where
  idsNodup : (ids db).Nodup
  cplNodup : (db.cpl.map (·.1)).Nodup
  cplTotal : ∀ c, c ∈ db.cpl.map (·.1) ↔ c ∈ ids db
  cplParentLive : ∀ r ∈ db.cpl, r.2 ∈ ids db
  chNodup : db.ch.Nodup
  chLive : ∀ r ∈ db.ch, r.1 ∈ ids db ∧ r.2 ∈ ids db
  chStep : ∀ a c, (a, c) ∈ db.ch ↔ ∃ p, Par db c p ∧ (a = p ∨ (a, p) ∈ db.ch)
  chIrrefl : ∀ c, (c, c) ∉ db.ch

theorem FInv.congr {db db' : Db} (h : FInv db) (h1 : ids db' = ids db) (h2 : db'.cpl = db.cpl) (h3 : db'.ch = db.ch) :
    FInv db' := by
  constructor
  · rw [h1]; exact h.idsNodup
  · rw [h2]; exact h.cplNodup
  · rw [h1, h2]; exact h.cplTotal
  · rw [h1, h2]; exact h.cplParentLive
  · rw [h3]; exact h.chNodup
  · rw [h1, h3]; exact h.chLive
  · intro a c; unfold Par; rw [h2, h3]; exact h.chStep a c
  · rw [h3]; exact h.chIrrefl

namespace FInv
variable {db : Db}

theorem par_unique (h : FInv db) {c p p' : Id} (h1 : Par db c p) (h2 : Par db c p') : p = p' := by
  have := List.inj_on_of_nodup_map h.cplNodup h1.1 h2.1 rfl
  exact (Prod.mk.inj this).2

theorem cpl_unique (h : FInv db) {c p p' : Id} (h1 : (c, p) ∈ db.cpl) (h2 : (c, p') ∈ db.cpl) : p = p' := by
  have := List.inj_on_of_nodup_map h.cplNodup h1 h2 rfl
  exact (Prod.mk.inj this).2

theorem par_live (h : FInv db) {c p : Id} (hp : Par db c p) : c ∈ ids db ∧ p ∈ ids db :=
  ⟨(h.cplTotal c).mp (List.mem_map_of_mem (f := (·.1)) hp.1), h.cplParentLive _ hp.1⟩

theorem live_has_row (h : FInv db) {c : Id} (hc : c ∈ ids db) : ∃ p, (c, p) ∈ db.cpl := by
  have := (h.cplTotal c).mpr hc
  rw [List.mem_map] at this
  obtain ⟨⟨a, b⟩, hab, rfl⟩ := this
  exact ⟨b, hab⟩

/-- strict ancestors of `c`, as listed by the hierarchy table -/
def _root_.EngineModel.Api.CratesV1.anc (db : Db) (c : Id) : List Id := (db.ch.filter (·.2 == c)).map (·.1)

def _root_.EngineModel.Api.CratesV1.depth (db : Db) (c : Id) : Nat := (anc db c).length

theorem mem_anc {a c : Id} : a ∈ anc db c ↔ (a, c) ∈ db.ch := by
  unfold anc
  simp only [List.mem_map, List.mem_filter, beq_iff_eq]
  constructor
  · rintro ⟨⟨x, y⟩, ⟨hm, rfl⟩, rfl⟩; exact hm
  · intro hm; exact ⟨(a, c), ⟨hm, rfl⟩, rfl⟩

theorem anc_nodup (h : FInv db) (c : Id) : (anc db c).Nodup := by
  unfold anc
  apply List.Nodup.map_on _ (h.chNodup.filter _)
  intro x hx y hy hxy
  simp only [List.mem_filter, beq_iff_eq] at hx hy
  exact Prod.ext hxy (hx.2.trans hy.2.symm)

theorem ch_of_par (h : FInv db) {c p : Id} (hp : Par db c p) : (p, c) ∈ db.ch :=
  (h.chStep p c).mpr ⟨p, hp, Or.inl rfl⟩

theorem ch_up (h : FInv db) {a c p : Id} (hp : Par db c p) : (a, c) ∈ db.ch ↔ a = p ∨ (a, p) ∈ db.ch := by
  rw [h.chStep a c]
  constructor
  · rintro ⟨p', hp', hor⟩
    rw [h.par_unique hp hp']; exact hor
  · intro hor; exact ⟨p, hp, hor⟩

theorem no_par_no_anc (h : FInv db) {c : Id} (hn : ∀ p, ¬ Par db c p) (a : Id) : (a, c) ∉ db.ch := by
  intro hm
  obtain ⟨p, hp, _⟩ := (h.chStep a c).mp hm
  exact hn p hp

theorem depth_par (h : FInv db) {c p : Id} (hp : Par db c p) : depth db c = depth db p + 1 := by
  unfold depth
  have hperm : (anc db c).Perm (p :: anc db p) := by
    rw [List.perm_ext_iff_of_nodup (h.anc_nodup c)]
    · intro a
      rw [List.mem_cons, mem_anc, mem_anc, h.ch_up hp]
    · rw [List.nodup_cons]
      exact ⟨fun hm => h.chIrrefl p (mem_anc.mp hm), h.anc_nodup p⟩
  rw [hperm.length_eq, List.length_cons]

/-- Induction along the parent relation (well-founded because the hierarchy table is finite and irreflexive). -/
theorem par_induction (h : FInv db) {P : Id → Prop} (step : ∀ c, (∀ p, Par db c p → P p) → P c) : ∀ c, P c := by
  have : ∀ n c, depth db c = n → P c := by
    intro n
    induction n using Nat.strongRecOn with
    | _ n ih =>
      intro c hc
      apply step
      intro p hp
      exact ih (depth db p) (by rw [← hc, h.depth_par hp]; omega) p rfl
  intro c
  exact this _ c rfl

theorem ch_trans (h : FInv db) : ∀ c a b, (a, b) ∈ db.ch → (b, c) ∈ db.ch → (a, c) ∈ db.ch := by
  apply h.par_induction (P := fun c => ∀ a b, (a, b) ∈ db.ch → (b, c) ∈ db.ch → (a, c) ∈ db.ch)
  intro c ih a b hab hbc
  obtain ⟨p, hp, hor⟩ := (h.chStep b c).mp hbc
  rw [h.ch_up hp]
  rcases hor with rfl | hbp
  · exact Or.inr hab
  · exact Or.inr (ih p hp a b hab hbp)

/-- Downward unfolding: the descendants of `x` are its children and their descendants. -/
theorem ch_down (h : FInv db) (x : Id) : ∀ y, (x, y) ∈ db.ch ↔ ∃ k, Par db k x ∧ (y = k ∨ (k, y) ∈ db.ch) := by
  apply h.par_induction (P := fun y => (x, y) ∈ db.ch ↔ ∃ k, Par db k x ∧ (y = k ∨ (k, y) ∈ db.ch))
  intro y ih
  constructor
  · intro hxy
    obtain ⟨p, hp, hor⟩ := (h.chStep x y).mp hxy
    rcases hor with rfl | hxp
    · exact ⟨y, hp, Or.inl rfl⟩
    · obtain ⟨k, hk, hor⟩ := (ih p hp).mp hxp
      refine ⟨k, hk, Or.inr ?_⟩
      rw [h.ch_up hp]
      rcases hor with rfl | hkp
      · exact Or.inl rfl
      · exact Or.inr hkp
  · rintro ⟨k, hk, hor⟩
    have hxk := h.ch_of_par hk
    rcases hor with rfl | hky
    · exact hxk
    · exact h.ch_trans y x k hxk hky

theorem not_anc_self_par (h : FInv db) {c p : Id} (hp : Par db c p) : (c, p) ∉ db.ch := by
  intro hm
  exact h.chIrrefl c (h.ch_trans c c p hm (h.ch_of_par hp))

theorem depth_lt (h : FInv db) {c : Id} (hc : c ∈ ids db) : depth db c < db.crate.length := by
  have hnd : (c :: anc db c).Nodup := by
    rw [List.nodup_cons]
    exact ⟨fun hm => h.chIrrefl c (mem_anc.mp hm), h.anc_nodup c⟩
  have hsub : (c :: anc db c) ⊆ ids db := by
    intro x hx
    rw [List.mem_cons] at hx
    rcases hx with rfl | hx
    · exact hc
    · exact (h.chLive _ (mem_anc.mp hx)).1
  have := (List.subperm_of_subset hnd hsub).length_le
  simp only [List.length_cons, ids, List.length_map] at this
  unfold depth
  omega

end FInv

/-! ### the abstraction function -/

theorem parentOf_eq_some (h : FInv db) {c p : Id} : parentOf db c = some p ↔ Par db c p := by
  unfold parentOf Par
  constructor
  · intro hp
    split at hp
    · rename_i r hf
      have hm := List.mem_of_find?_eq_some hf
      have hr1 : r.1 = c := by simpa using List.find?_some hf
      split at hp
      · cases hp
      · rename_i hne
        cases hp
        refine ⟨by rw [← hr1]; exact hm, by simpa using hne⟩
    · cases hp
  · rintro ⟨hm, hne⟩
    have : ∃ r, db.cpl.find? (·.1 == c) = some r := by
      cases hf : db.cpl.find? (·.1 == c) with
      | some r => exact ⟨r, rfl⟩
      | none =>
        rw [List.find?_eq_none] at hf
        exact absurd (by simp) (hf _ hm)
    obtain ⟨r, hf⟩ := this
    have hrm := List.mem_of_find?_eq_some hf
    have hr1 : r.1 = c := by simpa using List.find?_some hf
    have : r = (c, p) := by
      have := h.cpl_unique (p := r.2) (p' := p) (c := c) (by rw [← hr1]; exact hrm) hm
      exact Prod.ext hr1 this
    rw [hf, this]
    simp [hne]

theorem parentOf_eq_none (h : FInv db) {c : Id} : parentOf db c = none ↔ ∀ p, ¬ Par db c p := by
  constructor
  · intro hn p hp
    rw [(parentOf_eq_some h).mpr hp] at hn
    cases hn
  · intro hn
    cases hp : parentOf db c with
    | none => rfl
    | some p => exact absurd ((parentOf_eq_some h).mp hp) (hn p)

theorem abs_crates (db : Db) : (absForest db).crates = db.crate.map fun r => ⟨r.id, r.title, parentOf db r.id⟩ := rfl

theorem abs_ids (db : Db) : (absForest db).ids = ids db := by
  simp [Forest.Forest.ids, absForest, ids, List.map_map, Function.comp_def]

theorem abs_live (db : Db) (c : Id) : (absForest db).live c = true ↔ c ∈ ids db := by
  simp [Forest.Forest.live, abs_ids]

theorem abs_find_of_mem (h : FInv db) {r : CrateRow} (hr : r ∈ db.crate) :
    (absForest db).find r.id = some ⟨r.id, r.title, parentOf db r.id⟩ := by
  unfold Forest.Forest.find
  rw [abs_crates, List.find?_map]
  have : db.crate.find? ((fun x : Forest.Crate => x.id == r.id) ∘ fun r => ⟨r.id, r.title, parentOf db r.id⟩) = some r := by
    rw [List.find?_eq_some_iff_append]
    obtain ⟨l1, l2, hsplit⟩ := List.append_of_mem hr
    refine ⟨by simp, l1, l2, hsplit, ?_⟩
    intro x hx
    simp only [Function.comp_apply, Bool.not_eq_eq_eq_not, Bool.not_true, beq_eq_false_iff_ne, ne_eq]
    intro hxe
    have hnd := h.idsNodup
    unfold ids at hnd
    rw [hsplit, List.map_append, List.map_cons, List.nodup_append] at hnd
    exact hnd.2.2 x.id (List.mem_map_of_mem hx) r.id (by simp) hxe
  rw [this]
  rfl

theorem abs_find_none {c : Id} (hc : c ∉ ids db) : (absForest db).find c = none := by
  unfold Forest.Forest.find
  rw [List.find?_eq_none]
  intro x hx
  rw [abs_crates, List.mem_map] at hx
  obtain ⟨r, hr, rfl⟩ := hx
  simp only [beq_iff_eq]
  intro he
  exact hc (by rw [← he]; exact List.mem_map_of_mem hr)

theorem abs_parentOf (h : FInv db) (c : Id) : (absForest db).parentOf c = parentOf db c := by
  unfold Forest.Forest.parentOf
  by_cases hc : c ∈ ids db
  · unfold ids at hc
    rw [List.mem_map] at hc
    obtain ⟨r, hr, rfl⟩ := hc
    rw [abs_find_of_mem h hr]; rfl
  · rw [abs_find_none hc]
    symm
    show parentOf db c = none
    rw [parentOf_eq_none h]
    intro p hp
    exact hc (h.par_live hp).1

theorem isAncestorFuel_iff (h : FInv db) (a : Id) :
    ∀ n c, depth db c ≤ n → ((absForest db).isAncestorFuel a n c = true ↔ (a, c) ∈ db.ch) := by
  intro n
  induction n with
  | zero =>
    intro c hd
    simp only [Forest.Forest.isAncestorFuel, Bool.false_eq_true, false_iff]
    intro hm
    have : a ∈ anc db c := FInv.mem_anc.mpr hm
    unfold depth at hd
    have := List.length_pos_of_mem this
    omega
  | succ n ih =>
    intro c hd
    unfold Forest.Forest.isAncestorFuel
    rw [abs_parentOf h]
    cases hp : parentOf db c with
    | none =>
      simp only [Bool.false_eq_true, false_iff]
      exact h.no_par_no_anc ((parentOf_eq_none h).mp hp) a
    | some p =>
      have hpar := (parentOf_eq_some h).mp hp
      have hdp := h.depth_par hpar
      simp only [Bool.or_eq_true, beq_iff_eq]
      rw [ih p (by omega), h.ch_up hpar]
      constructor
      · rintro (rfl | hm)
        · exact Or.inl rfl
        · exact Or.inr hm
      · rintro (rfl | hm)
        · exact Or.inl rfl
        · exact Or.inr hm

theorem abs_length (db : Db) : (absForest db).crates.length = db.crate.length := by
  simp [abs_crates]

theorem isAncestor_iff (h : FInv db) (a c : Id) : (absForest db).isAncestor a c = true ↔ (a, c) ∈ db.ch := by
  unfold Forest.Forest.isAncestor
  by_cases hc : c ∈ ids db
  · apply isAncestorFuel_iff h
    rw [abs_length]
    exact Nat.le_of_lt (h.depth_lt hc)
  · have hno : (a, c) ∉ db.ch := fun hm => hc (h.chLive _ hm).2
    have hd : depth db c = 0 := by
      unfold depth
      rw [List.length_eq_zero_iff, List.eq_nil_iff_forall_not_mem]
      intro x hx
      exact hc (h.chLive _ (FInv.mem_anc.mp hx)).2
    exact isAncestorFuel_iff h a _ c (by omega)

end EngineModel.Api.CratesV1
