/-
`LibInv s L → libInvRaw s (raw L) = true`: the executable whole-library check that the driver evaluates on the
REAL dump holds of the raw projection of every model state satisfying the invariant — conjunct by conjunct,
among them `fkViolationsAll (raw L) = []` (what `PRAGMA foreign_key_check` reports over all declared keys).
-/
import Proofs.Lib1Inv
import Proofs.CratesV1WfConv
import Proofs.CratesV1Suffix
import Proofs.CratesV1MemSim

namespace EngineModel.Lib.V1
open EngineModel.Api
open EngineModel.Api.CratesV1 (liveTrack trackAutoinc)
open EngineModel.TracksV1 (Snap Field TrackRows aget aset TableOk DbInv KeysDistinct)

theorem contains_iff {l : List Int} {x : Int} : l.contains x = true ↔ x ∈ l := by simp

theorem live_of_key {s : VSchema} {L : Lib1} (h : LibInv s L) {e : Int × TrackRows} (he : e ∈ L.tr.tracks) :
    liveTrack L.cr e.1 := (h.coupled e.1).mpr (mem_rows_isSome _ e he)

theorem liveIds_raw (L : Lib1) : liveIds (raw L) = (L.cr.track.filter (·.hasPath)).map (·.id) := rfl

theorem key_in_live {s : VSchema} {L : Lib1} (h : LibInv s L) {e : Int × TrackRows} (he : e ∈ L.tr.tracks) :
    (liveIds (raw L)).contains e.1 = true := by
  rw [contains_iff, liveIds_raw, CratesV1.mem_liveIds]; exact live_of_key h he

theorem key_in_tids {s : VSchema} {L : Lib1} (h : LibInv s L) {e : Int × TrackRows} (he : e ∈ L.tr.tracks) :
    (L.cr.track.map (·.id)).contains e.1 = true := by
  rw [contains_iff]
  obtain ⟨r, hr, hre, _⟩ := live_of_key h he
  exact List.mem_map.mpr ⟨r, hr, hre⟩

/-- **`PRAGMA foreign_key_check` over every declared key of the 1.x schemas reports nothing.** -/
theorem fkAll_clean {s : VSchema} {L : Lib1} (h : LibInv s L) : fkViolationsAll (raw L) = [] := by
  unfold fkViolationsAll
  have h1 : CratesV1.fkViolations (raw L).cr = [] := CratesV1.fk_clean h.crates
  have h2 : (raw L).metaStr.filter (fun m => !((raw L).cr.track.map (·.id)).contains m.1) = [] := by
    rw [List.filter_eq_nil_iff]
    intro m hm
    obtain ⟨e, he, hm'⟩ := List.mem_flatMap.mp hm
    obtain ⟨x, _, rfl⟩ := List.mem_map.mp hm'
    have := key_in_tids h he
    show ¬ (!(L.cr.track.map (·.id)).contains e.1) = true
    rw [this]; simp
  have h3 : (raw L).metaInt.filter (fun m => !((raw L).cr.track.map (·.id)).contains m.1) = [] := by
    rw [List.filter_eq_nil_iff]
    intro m hm
    obtain ⟨e, he, hm'⟩ := List.mem_flatMap.mp hm
    obtain ⟨x, _, rfl⟩ := List.mem_map.mp hm'
    have := key_in_tids h he
    show ¬ (!(L.cr.track.map (·.id)).contains e.1) = true
    rw [this]; simp
  have h4 : (raw L).trackArt.filterMap (fun t => match t.2 with
      | some a => if (raw L).albumArt.contains a then none else some ("Track", t.1, a)
      | none => none) = [] := by
    rw [List.filterMap_eq_nil_iff]
    intro t ht
    obtain ⟨r, hr, rfl⟩ := List.mem_map.mp ht
    simp only
    cases hrow : L.tr.rows r.id with
    | none => simp
    | some x =>
      have := h.art r.id x hrow
      simp only [Option.bind_some, this]
      have ha : (raw L).albumArt = [1] := h.albumArt
      rw [ha]; simp
  have h5 : (raw L).otherTrackRefs = [] := rfl
  simp only
  rw [h1, h2, h3, h5]
  simp only [List.filter_nil, List.map_nil, List.append_nil, List.nil_append]
  exact h4

theorem libInvRaw_of_libInv {s : VSchema} {L : Lib1} (h : LibInv s L) : libInvRaw s (raw L) = true := by
  unfold libInvRaw libChecks
  simp only [List.all_cons, List.all_nil, Bool.and_true, Bool.and_eq_true]
  refine ⟨CratesV1.wfRaw_of_inv h.crates, ?_, ?_, ?_, ?_, ?_, ?_, ?_, ?_, ?_, ?_, ?_⟩
  · rw [fkAll_clean h]; rfl
  · rw [List.all_eq_true]
    intro m hm
    obtain ⟨e, he, hm'⟩ := List.mem_flatMap.mp hm
    obtain ⟨x, _, rfl⟩ := List.mem_map.mp hm'
    exact key_in_live h he
  · rw [List.all_eq_true]
    intro m hm
    obtain ⟨e, he, hm'⟩ := List.mem_flatMap.mp hm
    obtain ⟨x, _, rfl⟩ := List.mem_map.mp hm'
    exact key_in_live h he
  · rw [List.all_eq_true]
    intro i hi
    obtain ⟨e, he, hi'⟩ := List.mem_filterMap.mp hi
    cases hp : e.2.perf with
    | none => rw [hp] at hi'; cases hi'
    | some p =>
      rw [hp] at hi'
      simp only [Option.map_some, Option.some.injEq] at hi'
      subst hi'
      exact key_in_live h he
  · rw [CratesV1.nodupB_iff]
    have hk : (L.tr.tracks.map (·.1)).Nodup := h.table.keys
    have hsub : ((raw L).perf).Sublist (L.tr.tracks.map (·.1)) := by
      show (L.tr.tracks.filterMap fun e => e.2.perf.map fun _ => e.1).Sublist _
      generalize L.tr.tracks = l
      induction l with
      | nil => exact List.Sublist.slnil
      | cons a t ih =>
        cases hp : a.2.perf with
        | none => simp only [List.filterMap_cons, hp, Option.map_none, List.map_cons]; exact ih.cons _
        | some p => simp only [List.filterMap_cons, hp, Option.map_some, List.map_cons]; exact ih.cons_cons _
    exact hk.sublist hsub
  · show ((L.cr.track.map fun r => (r.id, ((L.tr.rows r.id).bind fun x => x.track.idAlbumArt))).map (·.1) ==
      L.cr.track.map (·.id)) = true
    rw [List.map_map]
    exact beq_self_eq_true _
  · rw [List.all_eq_true]
    intro t ht
    obtain ⟨r, hr, rfl⟩ := List.mem_map.mp ht
    simp only [Bool.or_eq_true, Bool.not_eq_true']
    by_cases hl : (liveIds (raw L)).contains r.id = true
    · right
      rw [contains_iff, liveIds_raw, CratesV1.mem_liveIds] at hl
      have hs := (h.coupled r.id).mp hl
      cases hrow : L.tr.rows r.id with
      | none => rw [hrow] at hs; cases hs
      | some x =>
        have := h.art r.id x hrow
        simp only [Option.bind_some, this]
        have ha : (raw L).albumArt = [1] := h.albumArt
        rw [ha]; rfl
    · left; simpa using hl
  · cases ha : trackAutoinc (toDetect s) with
    | true => rfl
    | false =>
      simp only [Bool.false_or]
      rw [List.all_eq_true]
      exact h.noPlaceholder ha
  · rfl
  · show ([L.infoM].length == 1) = true ∧ ([L.infoM].all fun i => i.version == (toDetect s).version) = true
    simp only [List.length_singleton, List.all_cons, List.all_nil, Bool.and_true, h.infoM]
    simp
  · show ([L.infoP].length == 1) = true ∧ ([L.infoP].all fun i => i.version == (toDetect s).version) = true
    simp only [List.length_singleton, List.all_cons, List.all_nil, Bool.and_true, h.infoP]
    simp

end EngineModel.Lib.V1
