/-
Soundness of the static SQL-site analyses of `EngineModel/Spec/SqlSites.lean`
against the transaction theory of `EngineModel/Spec/Txn.lean`.
-/
import EngineModel.Spec.SqlSites

namespace EngineModel.Proofs.SqlSites
open EngineModel.Spec.Txn hiding Ev
open EngineModel.Spec.SqlSites

/-! ### sets -/

theorem mem_union {a b : SS} {s : ShapeSt} : s ∈ union a b ↔ s ∈ a ∨ s ∈ b := by
  unfold union
  constructor
  · intro h
    rcases List.mem_append.mp h with h | h
    · exact Or.inl h
    · exact Or.inr (List.mem_filter.mp h).1
  · intro h
    rcases h with h | h
    · exact List.mem_append.mpr (Or.inl h)
    · by_cases ha : s ∈ a
      · exact List.mem_append.mpr (Or.inl ha)
      · exact List.mem_append.mpr (Or.inr (List.mem_filter.mpr ⟨h, by simpa using ha⟩))

theorem subset_iff {a b : SS} : subset a b = true ↔ ∀ s ∈ a, s ∈ b := by
  simp [subset]

/-! ### the automaton on events -/

theorem evRun_append {xs ys : List Ev} : ∀ {s s1 : ShapeSt}, evRun s xs = some s1 → evRun s (xs ++ ys) = evRun s1 ys := by
  induction xs with
  | nil => intro s s1 h; simp [evRun] at h; subst h; rfl
  | cons e r ih =>
    intro s s1 h
    simp only [evRun, List.cons_append] at h ⊢
    split at h
    · exact ih h
    · cases h

theorem evRun_single {s t : ShapeSt} {e : Ev} (h : evStep s e = some t) : evRun s [e] = some t := by
  simp [evRun, h]

theorem stepAll_mem {e : Ev} : ∀ {S T : SS}, stepAll e S = some T → ∀ s ∈ S, ∃ t, evStep s e = some t ∧ t ∈ T := by
  intro S
  induction S with
  | nil => intro T _ s hs; cases hs
  | cons x r ih =>
    intro T h s hs
    simp only [stepAll] at h
    split at h
    · rename_i s' r' h1 h2
      cases h
      rcases List.mem_cons.mp hs with hx | hs
      · subst hx
        exact ⟨s', h1, mem_union.mpr (Or.inl (List.mem_singleton.mpr rfl))⟩
      · obtain ⟨t, ht, hm⟩ := ih h2 s hs
        exact ⟨t, ht, mem_union.mpr (Or.inr hm)⟩
    · cases h

/-! ### loops -/

theorem starIter_spec (f : SS → Option (SS × SS)) : ∀ (fuel : Nat) (S I A : SS), starIter f fuel S = some (I, A) →
    ∃ N' A', f I = some (N', A') ∧ subset N' I = true ∧ (∀ s ∈ S, s ∈ I) ∧ A = union I A' := by
  intro fuel
  induction fuel with
  | zero => intro S I A h; simp [starIter] at h
  | succ n ih =>
    intro S I A h
    simp only [starIter] at h
    split at h
    · cases h
    · rename_i N A0 hf
      split at h
      · rename_i hsub
        cases h
        exact ⟨N, A0, hf, hsub, fun s hs => hs, rfl⟩
      · obtain ⟨N', A', h1, h2, h3, h4⟩ := ih _ _ _ h
        exact ⟨N', A', h1, h2, fun s hs => h3 s (mem_union.mpr (Or.inl hs)), h4⟩

theorem star_fix {a : Sk} {I N' A' : SS} (h1 : post a I = some (N', A')) (h2 : subset N' I = true) :
    post (.star a) I = some (I, union I A') := by
  simp [post, starIter, h1, h2]

/-! ### every start state is an abort state -/

theorem post_start : ∀ (sk : Sk) {S N A : SS}, post sk S = some (N, A) → ∀ s ∈ S, s ∈ A := by
  intro sk
  induction sk with
  | eps => intro S N A h s hs; simp [post] at h; rw [← h.2]; exact hs
  | ev e =>
    intro S N A h s hs
    simp only [post] at h
    split at h
    · cases h; exact hs
    · cases h
  | seq a b iha ihb =>
    intro S N A h s hs
    simp only [post] at h
    split at h
    · cases h
    · rename_i N1 A1 h1
      split at h
      · cases h
      · cases h
        exact mem_union.mpr (Or.inl (iha h1 s hs))
  | alt a b iha ihb =>
    intro S N A h s hs
    simp only [post] at h
    split at h
    · rename_i N1 A1 N2 A2 h1 h2
      cases h
      exact mem_union.mpr (Or.inl (iha h1 s hs))
    · cases h
  | star a _ =>
    intro S N A h s hs
    simp only [post] at h
    obtain ⟨N', A', _, _, h3, h4⟩ := starIter_spec _ _ _ _ _ h
    rw [h4]
    exact mem_union.mpr (Or.inl (h3 s hs))
  | scope a _ =>
    intro S N A h s hs
    simp only [post] at h
    split at h
    · cases h
    · split at h
      · cases h
      · split at h
        · cases h
          exact mem_union.mpr (Or.inl hs)
        · cases h
  | ret a iha =>
    intro S N A h s hs
    simp only [post] at h
    split at h
    · cases h
    · rename_i N1 A1 h1
      cases h
      exact iha h1 s hs

/-! ### soundness of `post` -/

theorem post_sound {sk : Sk} {evs : List Ev} {f : Bool} (hr : Run sk evs f) :
    ∀ (S N A : SS), post sk S = some (N, A) → ∀ s ∈ S,
      ∃ s', evRun s evs = some s' ∧ (f = false → s' ∈ N) ∧ (f = true → s' ∈ A) := by
  induction hr with
  | abort a =>
    intro S N A h s hs
    exact ⟨s, rfl, by simp, fun _ => post_start a h s hs⟩
  | eps =>
    intro S N A h s hs
    simp [post] at h
    exact ⟨s, rfl, fun _ => h.1 ▸ hs, by simp⟩
  | ev e =>
    intro S N A h s hs
    simp only [post] at h
    split at h
    · rename_i N0 h0
      cases h
      obtain ⟨t, ht, hm⟩ := stepAll_mem h0 s hs
      exact ⟨t, evRun_single ht, fun _ => hm, by simp⟩
    · cases h
  | @seqN a b xs ys f _ _ iha ihb =>
    intro S N A h s hs
    simp only [post] at h
    split at h
    · cases h
    · rename_i N1 A1 h1
      split at h
      · cases h
      · rename_i N2 A2 h2
        cases h
        obtain ⟨s1, hs1, hn1, _⟩ := iha S N1 A1 h1 s hs
        obtain ⟨s2, hs2, hn2, ha2⟩ := ihb N1 N A2 h2 s1 (hn1 rfl)
        exact ⟨s2, by rw [evRun_append hs1]; exact hs2, hn2, fun hf => mem_union.mpr (Or.inr (ha2 hf))⟩
  | @seqA a b xs _ iha =>
    intro S N A h s hs
    simp only [post] at h
    split at h
    · cases h
    · rename_i N1 A1 h1
      split at h
      · cases h
      · cases h
        obtain ⟨s1, hs1, _, ha1⟩ := iha S N1 A1 h1 s hs
        exact ⟨s1, hs1, by simp, fun _ => mem_union.mpr (Or.inl (ha1 rfl))⟩
  | @altL a b xs f _ iha =>
    intro S N A h s hs
    simp only [post] at h
    split at h
    · rename_i N1 A1 N2 A2 h1 h2
      cases h
      obtain ⟨s1, hs1, hn, ha⟩ := iha S N1 A1 h1 s hs
      exact ⟨s1, hs1, fun hf => mem_union.mpr (Or.inl (hn hf)), fun hf => mem_union.mpr (Or.inl (ha hf))⟩
    · cases h
  | @altR a b xs f _ ihb =>
    intro S N A h s hs
    simp only [post] at h
    split at h
    · rename_i N1 A1 N2 A2 h1 h2
      cases h
      obtain ⟨s1, hs1, hn, ha⟩ := ihb S N2 A2 h2 s hs
      exact ⟨s1, hs1, fun hf => mem_union.mpr (Or.inr (hn hf)), fun hf => mem_union.mpr (Or.inr (ha hf))⟩
    · cases h
  | @starNil a =>
    intro S N A h s hs
    simp only [post] at h
    obtain ⟨N', A', _, _, h3, _⟩ := starIter_spec _ _ _ _ _ h
    exact ⟨s, rfl, fun _ => h3 s hs, by simp⟩
  | @starN a xs ys f _ _ iha ihs =>
    intro S N A h s hs
    simp only [post] at h
    obtain ⟨N', A', h1, h2, h3, h4⟩ := starIter_spec _ _ _ _ _ h
    obtain ⟨s1, hs1, hn1, _⟩ := iha N N' A' h1 s (h3 s hs)
    have hfix := star_fix h1 h2
    obtain ⟨s2, hs2, hn2, ha2⟩ := ihs N N (union N A') hfix s1 (subset_iff.mp h2 s1 (hn1 rfl))
    exact ⟨s2, by rw [evRun_append hs1]; exact hs2, hn2, fun hf => h4 ▸ ha2 hf⟩
  | @starA a xs _ iha =>
    intro S N A h s hs
    simp only [post] at h
    obtain ⟨N', A', h1, _, h3, h4⟩ := starIter_spec _ _ _ _ _ h
    obtain ⟨s1, hs1, _, ha1⟩ := iha N N' A' h1 s (h3 s hs)
    exact ⟨s1, hs1, by simp, fun _ => h4 ▸ mem_union.mpr (Or.inr (ha1 rfl))⟩
  | @scope a xs f _ iha =>
    intro S N A h s hs
    simp only [post] at h
    split at h
    · cases h
    · rename_i S1 hS1
      split at h
      · cases h
      · rename_i N0 A0 h0
        split at h
        · rename_i N' A' hN' hA'
          cases h
          obtain ⟨t, ht, htm⟩ := stepAll_mem hS1 s hs
          obtain ⟨s1, hs1, hn1, ha1⟩ := iha S1 N0 A0 h0 t htm
          have hrun : ∀ s2, evStep s1 .scopeClose = some s2 →
              evRun s (.scopeOpen :: xs ++ [.scopeClose]) = some s2 := by
            intro s2 h2
            simp only [evRun, List.cons_append, ht]
            rw [evRun_append hs1]
            exact evRun_single h2
          cases f with
          | false =>
            obtain ⟨s2, h2, hm2⟩ := stepAll_mem hN' s1 (hn1 rfl)
            exact ⟨s2, hrun s2 h2, fun _ => hm2, by simp⟩
          | true =>
            obtain ⟨s2, h2, hm2⟩ := stepAll_mem hA' s1 (ha1 rfl)
            exact ⟨s2, hrun s2 h2, by simp, fun _ => mem_union.mpr (Or.inr hm2)⟩
        · cases h
  | @ret a xs f _ iha =>
    intro S N A h s hs
    simp only [post] at h
    split at h
    · cases h
    · rename_i N1 A1 h1
      cases h
      obtain ⟨s1, hs1, hn, ha⟩ := iha S N1 A h1 s hs
      refine ⟨s1, hs1, fun _ => ?_, by simp⟩
      cases f with
      | false => exact mem_union.mpr (Or.inl (hn rfl))
      | true => exact mem_union.mpr (Or.inr (ha rfl))
  | @retA a xs _ iha =>
    intro S N A h s hs
    simp only [post] at h
    split at h
    · cases h
    · rename_i N1 A1 h1
      cases h
      obtain ⟨s1, hs1, _, ha⟩ := iha S N1 A h1 s hs
      exact ⟨s1, hs1, by simp, fun _ => ha rfl⟩

/-! ### events → statement kinds -/

/-- live uncommitted scope objects in a monitor state -/
def live (s : ShapeSt) : Nat := if s.inTxn then 1 else 0

theorem step_read {s t : ShapeSt} (h : evStep s .read = some t) : shapeStep s .read = some t ∧ live t = live s := by
  simp only [evStep] at h
  refine ⟨h, ?_⟩
  simp [shapeStep, faultable] at h
  subst h; rfl

theorem step_write {s t : ShapeSt} (h : evStep s .write = some t) : shapeStep s .write = some t ∧ live t = live s := by
  simp only [evStep] at h
  refine ⟨h, ?_⟩
  rcases s with ⟨i, p, e⟩
  cases i <;> cases e <;> simp [shapeStep, faultable] at h <;> subst h <;> rfl

theorem step_commit {s t : ShapeSt} (h : evStep s .commit = some t) :
    shapeStep s .commit = some t ∧ live t = live s - 1 := by
  simp only [evStep] at h
  refine ⟨h, ?_⟩
  rcases s with ⟨i, p, e⟩
  cases i <;> cases e <;> simp [shapeStep, faultable] at h <;> subst h <;> rfl

theorem step_open {s t : ShapeSt} (h : evStep s .scopeOpen = some t) :
    shapeStep s .begin = some t ∧ live t = live s + 1 := by
  simp only [evStep] at h
  refine ⟨h, ?_⟩
  rcases s with ⟨i, p, e⟩
  cases i <;> cases e <;> simp [shapeStep, faultable] at h <;> subst h <;> rfl

theorem step_close {s t : ShapeSt} (h : evStep s .scopeClose = some t) :
    (live s = 0 ∧ t = s) ∨ (live s ≠ 0 ∧ shapeStep s .rollback = some t ∧ live t = live s - 1) := by
  rcases s with ⟨i, p, e⟩
  cases i
  · left
    simp [evStep] at h
    exact ⟨rfl, h.symm⟩
  · right
    simp only [evStep, if_true] at h
    refine ⟨by simp [live], h, ?_⟩
    simp [shapeStep, faultable] at h
    subst h; rfl

theorem evRun_conc : ∀ (evs : List Ev) (s s' : ShapeSt), evRun s evs = some s' →
    shapeRun s (conc (live s) evs) = some s' := by
  intro evs
  induction evs with
  | nil => intro s s' h; simpa [evRun, conc, shapeRun] using h
  | cons e r ih =>
    intro s s' h
    simp only [evRun] at h
    split at h
    · rename_i t ht
      have := ih t s' h
      cases e with
      | read =>
        obtain ⟨h1, h2⟩ := step_read ht
        simp only [conc, shapeRun, h1]; rw [← h2]; exact this
      | write =>
        obtain ⟨h1, h2⟩ := step_write ht
        simp only [conc, shapeRun, h1]; rw [← h2]; exact this
      | commit =>
        obtain ⟨h1, h2⟩ := step_commit ht
        simp only [conc, shapeRun, h1]; rw [← h2]; exact this
      | scopeOpen =>
        obtain ⟨h1, h2⟩ := step_open ht
        simp only [conc, shapeRun, h1]; rw [← h2]; exact this
      | scopeClose =>
        rcases step_close ht with ⟨h0, heq⟩ | ⟨hne, h1, h2⟩
        · subst heq
          simp only [conc, h0, if_true]
          rw [h0] at this; exact this
        · simp only [conc, hne, if_false, shapeRun, h1]; rw [← h2]; exact this
    · cases h

theorem closedAll_mem {S : SS} (h : closedAll S = true) {s : ShapeSt} (hs : s ∈ S) : s.inTxn = false := by
  have := List.all_eq_true.mp h s hs
  simpa using this

/-- **Soundness of the static C14 predicate**: every event trace of an accepted
skeleton — any branch, any loop count, aborted by an exception or an early
return anywhere, or complete — is, as a sequence of statement kinds, an atomic
shape of `Spec/Txn.lean`. -/
theorem staticAtomic_sound (sk : Sk) (h : staticAtomic sk = true) {evs : List Ev} {f : Bool} (hr : Run sk evs f) :
    atomicShape (conc 0 evs) = true := by
  unfold staticAtomic at h
  split at h
  · rename_i N A hp
    have hNA := Bool.and_eq_true_iff.mp h
    obtain ⟨s', hs', hN, hA⟩ := post_sound hr _ _ _ hp ShapeSt.init (List.mem_singleton.mpr rfl)
    have hc := evRun_conc _ _ _ hs'
    have hl : live ShapeSt.init = 0 := rfl
    rw [hl] at hc
    unfold atomicShape
    rw [hc]
    cases f with
    | false => simp [closedAll_mem hNA.1 (hN rfl)]
    | true => simp [closedAll_mem hNA.2 (hA rfl)]
  · cases h

/-! ### no write / read only -/

theorem noWrite_run {sk : Sk} {evs : List Ev} {f : Bool} (hr : Run sk evs f) (h : sk.noWrite = true) :
    ∀ e ∈ evs, e ≠ .write := by
  induction hr with
  | abort a => intro e he; cases he
  | eps => intro e he; cases he
  | ev e0 =>
    intro e he
    rw [List.mem_singleton.mp he]
    simpa [Sk.noWrite] using h
  | seqN _ _ iha ihb =>
    simp only [Sk.noWrite, Bool.and_eq_true] at h
    intro e he
    rcases List.mem_append.mp he with he | he
    · exact iha h.1 e he
    · exact ihb h.2 e he
  | seqA _ iha =>
    simp only [Sk.noWrite, Bool.and_eq_true] at h
    exact iha h.1
  | altL _ iha =>
    simp only [Sk.noWrite, Bool.and_eq_true] at h
    exact iha h.1
  | altR _ ihb =>
    simp only [Sk.noWrite, Bool.and_eq_true] at h
    exact ihb h.2
  | starNil => intro e he; cases he
  | starN _ _ iha ihs =>
    intro e he
    rcases List.mem_append.mp he with he | he
    · exact iha (by simpa [Sk.noWrite] using h) e he
    · exact ihs h e he
  | starA _ iha => exact iha (by simpa [Sk.noWrite] using h)
  | scope _ iha =>
    intro e he
    rcases List.mem_cons.mp he with rfl | he
    · intro hc; cases hc
    · rcases List.mem_append.mp he with he | he
      · exact iha (by simpa [Sk.noWrite] using h) e he
      · rw [List.mem_singleton.mp he]
        intro hc; cases hc
  | ret _ iha => exact iha (by simpa [Sk.noWrite] using h)
  | retA _ iha => exact iha (by simpa [Sk.noWrite] using h)

theorem conc_noWrite : ∀ (evs : List Ev) (n : Nat), (∀ e ∈ evs, e ≠ .write) → ∀ k ∈ conc n evs, k ≠ .write := by
  intro evs
  induction evs with
  | nil => intro n _ k hk; cases hk
  | cons e r ih =>
    intro n h k hk
    have hr : ∀ e ∈ r, e ≠ .write := fun x hx => h x (List.mem_cons_of_mem _ hx)
    cases e with
    | read =>
      simp only [conc, List.mem_cons] at hk
      rcases hk with rfl | hk
      · intro hc; cases hc
      · exact ih _ hr k hk
    | write => exact absurd rfl (h .write (List.mem_cons_self ..))
    | commit =>
      simp only [conc, List.mem_cons] at hk
      rcases hk with rfl | hk
      · intro hc; cases hc
      · exact ih _ hr k hk
    | scopeOpen =>
      simp only [conc, List.mem_cons] at hk
      rcases hk with rfl | hk
      · intro hc; cases hc
      · exact ih _ hr k hk
    | scopeClose =>
      simp only [conc] at hk
      split at hk
      · exact ih _ hr k hk
      · simp only [List.mem_cons] at hk
        rcases hk with rfl | hk
        · intro hc; cases hc
        · exact ih _ hr k hk

theorem readOnly_run {sk : Sk} {evs : List Ev} {f : Bool} (hr : Run sk evs f) (h : sk.readOnly = true) :
    ∀ e ∈ evs, e = .read := by
  induction hr with
  | abort a => intro e he; cases he
  | eps => intro e he; cases he
  | ev e0 =>
    intro e he
    rw [List.mem_singleton.mp he]
    cases e0 <;> simp [Sk.readOnly, Ev.isRead] at h ⊢
  | seqN _ _ iha ihb =>
    simp only [Sk.readOnly, Bool.and_eq_true] at h
    intro e he
    rcases List.mem_append.mp he with he | he
    · exact iha h.1 e he
    · exact ihb h.2 e he
  | seqA _ iha =>
    simp only [Sk.readOnly, Bool.and_eq_true] at h
    exact iha h.1
  | altL _ iha =>
    simp only [Sk.readOnly, Bool.and_eq_true] at h
    exact iha h.1
  | altR _ ihb =>
    simp only [Sk.readOnly, Bool.and_eq_true] at h
    exact ihb h.2
  | starNil => intro e he; cases he
  | starN _ _ iha ihs =>
    intro e he
    rcases List.mem_append.mp he with he | he
    · exact iha (by simpa [Sk.readOnly] using h) e he
    · exact ihs h e he
  | starA _ iha => exact iha (by simpa [Sk.readOnly] using h)
  | scope _ _ => simp [Sk.readOnly] at h
  | ret _ iha => exact iha (by simpa [Sk.readOnly] using h)
  | retA _ iha => exact iha (by simpa [Sk.readOnly] using h)

theorem conc_readOnly : ∀ (evs : List Ev) (n : Nat), (∀ e ∈ evs, e = .read) → readOnlyShape (conc n evs) = true := by
  intro evs
  induction evs with
  | nil => intro n _; rfl
  | cons e r ih =>
    intro n h
    have he := h e (List.mem_cons_self ..)
    subst he
    have := ih n (fun x hx => h x (List.mem_cons_of_mem _ hx))
    simp only [readOnlyShape, conc, List.all_cons] at this ⊢
    simpa using this

end EngineModel.Proofs.SqlSites
