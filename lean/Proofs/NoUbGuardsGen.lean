/-
C15: the extents arithmetic of src/djinterop/engine/track_utils.hpp, as REGENERATED from the source
(`Gen.TrackUtils`, tools/tr_trackutils.py), never divides by zero and never overflows a signed
integer once its argument can be converted to `int64_t` — for any double arithmetic `ops`.
(These proofs unfold the generated definitions: a change of the `qn == 0` guard in the C++ breaks them.)
-/
import EngineModel.Gen.TrackUtilsGen
import EngineModel.Api.GuardedUtils

namespace EngineModel.Gen.TrackUtils
open EngineModel

variable {F : Type}

/-- `(x / 210) * 2` stays inside `int64_t`. -/
theorem gen_qn_some (ops : Cxx.FloatOps F) (x : F) (v : Int) (h : ops.toI64 x = some v) (hin : Cxx.inI64 v = true) :
    ∃ q, waveform_quantisation_number ops x = some q ∧ Cxx.inI64 q = true := by
  unfold Cxx.inI64 Cxx.i64Min Cxx.i64Max at hin
  simp only [decide_eq_true_eq] at hin
  have hdiv : Cxx.I64.div v 210 = some (v.tdiv 210) ∧ (v.tdiv 210) * 2 ≤ 9223372036854775807 ∧
      -9223372036854775808 ≤ (v.tdiv 210) * 2 := by
    by_cases h0 : 0 ≤ v
    · have he := Int.tdiv_eq_ediv_of_nonneg (b := 210) h0
      unfold Cxx.I64.div Cxx.chk64 Cxx.inI64 Cxx.i64Min Cxx.i64Max
      rw [he]
      have : (decide (-9223372036854775808 ≤ v / 210 ∧ v / 210 ≤ 9223372036854775807)) = true := by
        simp only [decide_eq_true_eq]; omega
      simp [this]
      omega
    · have hn : 0 ≤ -v := by omega
      have he := Int.tdiv_eq_ediv_of_nonneg (b := 210) hn
      rw [Int.neg_tdiv] at he
      have hv : v.tdiv 210 = -((-v) / 210) := by omega
      unfold Cxx.I64.div Cxx.chk64 Cxx.inI64 Cxx.i64Min Cxx.i64Max
      rw [hv]
      have : (decide (-9223372036854775808 ≤ -((-v) / 210) ∧ -((-v) / 210) ≤ 9223372036854775807)) = true := by
        simp only [decide_eq_true_eq]; omega
      simp [this]
      omega
  obtain ⟨hd, hhi, hlo⟩ := hdiv
  have hm : Cxx.I64.mul (v.tdiv 210) 2 = some (v.tdiv 210 * 2) := by
    unfold Cxx.I64.mul Cxx.chk64 Cxx.inI64 Cxx.i64Min Cxx.i64Max
    have : decide (-9223372036854775808 ≤ v.tdiv 210 * 2 ∧ v.tdiv 210 * 2 ≤ 9223372036854775807) = true := by
      simp only [decide_eq_true_eq]; omega
    simp [this]
  refine ⟨v.tdiv 210 * 2, ?_, ?_⟩
  · unfold waveform_quantisation_number
    simp [h, hd, hm]
  · unfold Cxx.inI64 Cxx.i64Min Cxx.i64Max
    simp only [decide_eq_true_eq]; omega

theorem gen_u64OfInt_ne_zero (q : Int) (hq : q ≠ 0) (hin : Cxx.inI64 q = true) : Cxx.u64OfInt q ≠ 0 := by
  unfold Cxx.inI64 Cxx.i64Min Cxx.i64Max at hin
  simp only [decide_eq_true_eq] at hin
  unfold Cxx.u64OfInt Cxx.two64
  omega

/-- `calculate_overview_waveform_extents` is defined, and its size is 0 or 1024. -/
theorem gen_ovw_some (ops : Cxx.FloatOps F) (n : Nat) (x : F) (v : Int) (h : ops.toI64 x = some v)
    (hin : Cxx.inI64 v = true) :
    ∃ size spe, calculate_overview_waveform_extents ops n x = some (size, spe) ∧ (size = 0 ∨ size = 1024) := by
  obtain ⟨q, hq, hqin⟩ := gen_qn_some ops x v h hin
  unfold calculate_overview_waveform_extents
  rw [hq]
  simp only [Option.bind_eq_bind, Option.bind_some, Option.pure_def]
  by_cases hz : (decide (n = Cxx.u64OfInt 0) || decide (q = 0)) = true
  · simp only [hz, if_true]; exact ⟨_, _, rfl, Or.inl (by decide)⟩
  · have hq0 : q ≠ 0 := by
      intro h0; apply hz; simp [h0]
    have hu := gen_u64OfInt_ne_zero q hq0 hqin
    simp only [hz, Bool.false_eq_true, if_false, Cxx.U64.div, hu, Option.bind_some]
    exact ⟨_, _, rfl, Or.inr rfl⟩

/-- `calculate_high_resolution_waveform_extents` is defined. -/
theorem gen_hires_some (ops : Cxx.FloatOps F) (n : Nat) (x : F) (v : Int) (h : ops.toI64 x = some v)
    (hin : Cxx.inI64 v = true) :
    ∃ e, calculate_high_resolution_waveform_extents ops n x = some e := by
  obtain ⟨q, hq, hqin⟩ := gen_qn_some ops x v h hin
  unfold calculate_high_resolution_waveform_extents
  rw [hq]
  simp only [Option.bind_eq_bind, Option.bind_some, Option.pure_def]
  by_cases hz : (decide (n = Cxx.u64OfInt 0) || decide (q = 0)) = true
  · simp only [hz, if_true]; exact ⟨_, rfl⟩
  · have hq0 : q ≠ 0 := by
      intro h0; apply hz; simp [h0]
    have hu := gen_u64OfInt_ne_zero q hq0 hqin
    simp only [hz, Bool.false_eq_true, if_false, Cxx.U64.div, hu, Option.bind_some]
    exact ⟨_, rfl⟩

/-- the arithmetic of `waveform_quantisation_number` on an in-range integer -/
theorem qn_arith (v : Int) (hin : Cxx.inI64 v = true) :
    ∃ q, ((Cxx.I64.div v 210).bind fun d => Cxx.I64.mul d 2) = some q ∧ Cxx.inI64 q = true := by
  -- reuse `gen_qn_some` with the identity conversion
  obtain ⟨q, hq, hqin⟩ := gen_qn_some (⟨fun x => some x, id, fun n => (n : Int), fun a _ => a⟩ : Cxx.FloatOps Int) v v rfl hin
  refine ⟨q, ?_, hqin⟩
  unfold waveform_quantisation_number at hq
  simpa using hq

/-- `GuardedUtils.extentsSiteG` never ends in `ub` when the rate converts to `int64_t` and the "no extents"
test covers a zero quantisation number. -/
theorem extentsSiteG_ok (zero : Nat → Int → F64.Bits → Bool)
    (hz : ∀ n qn r, qn = 0 → zero n qn r = true)
    (toI64 : F64.Bits → Option Int) (n : Nat) (r : F64.Bits) (t : Int) (ht : toI64 r = some t)
    (hin : Cxx.inI64 t = true) : Api.GuardedUtils.extentsSiteG zero toI64 n r = .ok () := by
  obtain ⟨q, hq, hqin⟩ := qn_arith t hin
  unfold Api.GuardedUtils.extentsSiteG
  rw [ht]
  simp only [hq]
  by_cases h0 : q = 0
  · rw [if_pos (hz n q r h0)]
  · split
    · rfl
    · have hu := gen_u64OfInt_ne_zero q h0 hqin
      simp [Cxx.U64.div, hu]

end EngineModel.Gen.TrackUtils
