import EngineModel.Pure.Cxx
namespace EngineModel.Cxx

theorem I64.div_natCast (a b : Nat) (ha : a ≤ 9223372036854775807) (hb : 0 < b) :
    I64.div (a : Int) (b : Int) = some ((a / b : Nat) : Int) := by
  have hle : a / b ≤ a := Nat.div_le_self a b
  have e : Int.tdiv (a : Int) (b : Int) = ((a / b : Nat) : Int) := by
    rw [Int.tdiv_eq_ediv_of_nonneg (by omega)]; simp
  unfold I64.div
  rw [if_neg (by omega : ¬ ((b : Int) = 0)), e]
  unfold chk64 inI64 i64Min i64Max
  generalize a / b = q at hle
  have : (-9223372036854775808 ≤ (q : Int) ∧ (q : Int) ≤ 9223372036854775807) := by
    omega
  rw [decide_eq_true this]; rfl

theorem I64.mul_natCast (a b : Nat) (h : a * b ≤ 9223372036854775807) :
    I64.mul (a : Int) (b : Int) = some ((a * b : Nat) : Int) := by
  have e : (a : Int) * (b : Int) = ((a * b : Nat) : Int) := by simp
  unfold I64.mul
  rw [e]
  unfold chk64 inI64 i64Min i64Max
  generalize a * b = q at h
  have : (-9223372036854775808 ≤ (q : Int) ∧ (q : Int) ≤ 9223372036854775807) := by
    omega
  rw [decide_eq_true this]; rfl

theorem u64OfInt_natCast (n : Nat) (h : n < 18446744073709551616) : u64OfInt (n : Int) = n := by
  unfold u64OfInt two64; omega

theorem u64OfInt_zero : u64OfInt 0 = 0 := by unfold u64OfInt two64; omega
theorem u64OfInt_one : u64OfInt 1 = 1 := by unfold u64OfInt two64; omega

theorem U64.add_small (a b : Nat) (h : a + b < 18446744073709551616) : U64.add a b = a + b := by
  unfold U64.add two64; omega

theorem U64.sub_small (a b : Nat) (h : b ≤ a) (ha : a < 18446744073709551616) : U64.sub a b = a - b := by
  unfold U64.sub two64; omega

theorem U64.mul_small (a b : Nat) (h : a * b < 18446744073709551616) : U64.mul a b = a * b := by
  unfold U64.mul two64; exact Nat.mod_eq_of_lt h

theorem U64.div_pos (a b : Nat) (h : b ≠ 0) : U64.div a b = some (a / b) := by
  unfold U64.div; simp [h]

end EngineModel.Cxx

namespace EngineModel.Cxx

theorem U64.mod_pos (a b : Nat) (h : b ≠ 0) : U64.mod a b = some (a % b) := by
  unfold U64.mod; simp [h]

/-- `(n − 1) / q + 1` is the same ceiling division as `(n + q − 1) / q`. -/
theorem ceil_div_alt (n q : Nat) (hn : 0 < n) (hq : 0 < q) : (n - 1) / q + 1 = (n + q - 1) / q := by
  have e : n + q - 1 = (n - 1) + q := by omega
  rw [e, Nat.add_div_right _ hq]

/-- `n − n % q` is `n` rounded down to a multiple of `q`. -/
theorem round_down_alt (n q : Nat) : n - n % q = n / q * q := by
  have := Nat.div_add_mod n q
  rw [Nat.mul_comm] at this
  omega

end EngineModel.Cxx
