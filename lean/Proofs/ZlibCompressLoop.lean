/-
Completeness of the `zlib_compress` loops over any deflate oracle that honours
an explicit call contract (a structure parameter — not an assumption of the
development): with enough fuel the loops return, the blob is the length prefix
followed by every byte every `deflate()` call produced, every payload byte was
consumed, and the last call was a `Z_FINISH` call answering `Z_STREAM_END`.
Also: the inner-loop condition `while (strm.avail_in != 0)` is wrong.
-/
import EngineModel.Impl.ZlibCompress
set_option linter.unusedVariables false

namespace EngineModel.Impl.Zlib

/-- The part of zlib.h's contract for `deflate()` the compress loops rely on.

* `live s` — the stream is initialised and has not yet entered zlib's
  `FINISH_STATE` (no `Z_FINISH` call has taken all of its input yet).  Needed
  because the two "drained" laws below are only true of such streams (or of a
  finished stream that is handed no further input): zlib answers
  `Z_BUF_ERROR`/`Z_STREAM_ERROR`, consuming nothing, when a finished stream is
  given more input or a non-`Z_FINISH` flush.
* `pot s a` bounds the number of bytes the stream can still produce from state
  `s` when `a` more input bytes are available, finishing (last block, trailer)
  included; `b` further input bytes add at most `ratio * b` (`pot_input`),
  and more input never lowers the bound (`pot_mono`).
* `step_ok` — every call consumes at most the window, produces at most
  `avail_out`, and pays for its output out of `pot`.
* `consume_all` — a call on a live stream that did not fill the output buffer
  consumed its whole window (deflate only leaves input behind when it runs
  out of output space).
* `finish_end` — a `Z_FINISH` call (on a live stream, or on any stream with an
  empty window) that did not fill the output buffer returned `Z_STREAM_END`
  (zlib returns `Z_OK` from a `Z_FINISH` call only while output is pending,
  and output is pending only if `avail_out` dropped to 0).
* `live_noFlush` — a `Z_NO_FLUSH` call keeps the stream live.
* `live_finish` — a `Z_FINISH` call that left input behind keeps the stream
  live (`FINISH_STATE` is entered only once all input has been taken). -/
structure DContract {σ : Type} (o : DOracle σ) where
  live : σ → Prop
  pot : σ → Nat → Nat
  ratio : Nat
  pot_mono : ∀ s a b, pot s a ≤ pot s (a + b)
  pot_input : ∀ s a b, pot s (a + b) ≤ pot s a + ratio * b
  step_ok : ∀ s win n f,
    (o.step s win n f).2.1 ≤ win.length ∧
    (o.step s win n f).2.2.1.length ≤ n ∧
    pot (o.step s win n f).2.2.2 (win.length - (o.step s win n f).2.1)
        + (o.step s win n f).2.2.1.length
      ≤ pot s win.length
  consume_all : ∀ s win n f, live s →
    (o.step s win n f).2.2.1.length < n → (o.step s win n f).2.1 = win.length
  finish_end : ∀ s win n, (live s ∨ win = []) →
    (o.step s win n .finish).2.2.1.length < n → (o.step s win n .finish).1 = .streamEnd
  live_noFlush : ∀ s win n, live s → live (o.step s win n .noFlush).2.2.2
  live_finish : ∀ s win n, live s →
    (o.step s win n .finish).2.1 < win.length → live (o.step s win n .finish).2.2.2

/-- Steps still needed from a loop position. -/
def cmeasure {σ} {o : DOracle σ} (c : DContract o) (len : Nat) (s : σ) (ptr : Nat) : CPhase → Nat
  | .outer => c.pot s 0 + (c.ratio + 3) * (len - ptr) + 2
  | .inner win .noFlush => c.pot s win.length + (c.ratio + 3) * (len - ptr) + 3
  | .inner win .finish => c.pot s win.length + 1

/-- What holds of the stream state at a loop position: the stream is live,
except that inside the final (`Z_FINISH`) inner loop it may have finished once
the window is exhausted; the final inner loop runs with `ptr` at the end. -/
def CInv {σ} {o : DOracle σ} (c : DContract o) (len : Nat) (s : σ) (ptr : Nat) : CPhase → Prop
  | .outer => c.live s
  | .inner _ .noFlush => c.live s
  | .inner win .finish => (c.live s ∨ win = []) ∧ ptr = len

/-- Input bytes handed to the current inner loop and not yet consumed. -/
def winLen : CPhase → Nat
  | .outer => 0
  | .inner win _ => win.length

theorem getLast?_cons_of_some {α} (d : α) {l : List α} {c : α} (h : l.getLast? = some c) :
    (d :: l).getLast? = some c := by
  cases l with
  | nil => simp at h
  | cons x xs => rw [List.getLast?_cons_cons]; exact h

/-- The loop invariant, from any position: the loops return; what they return
is the accumulator extended by the output of every further call, in order, and
the log extended by those calls; the further calls consume exactly the rest of
the current window plus the rest of the buffer; the last one is a `Z_FINISH`
call answering `Z_STREAM_END`. -/
theorem cloop_complete {σ} (o : DOracle σ) (c : DContract o) (buf : Bytes) :
    ∀ (fuel : Nat) (s : σ) (ptr : Nat) (ph : CPhase) (acc : Bytes) (log : List DCall),
      ptr ≤ buf.length → CInv c buf.length s ptr ph → cmeasure c buf.length s ptr ph ≤ fuel →
      ∃ calls : List DCall,
        cloop o buf fuel s ptr ph acc log
          = .ok (acc ++ calls.flatMap (·.out), log.reverse ++ calls) ∧
        (calls.map (·.consumed)).sum = winLen ph + (buf.length - ptr) ∧
        ∃ d, calls.getLast? = some d ∧ d.flush = .finish ∧ d.ret = .streamEnd := by
  intro fuel
  induction fuel with
  | zero =>
    intro s ptr ph acc log hp hinv hm
    cases ph with
    | outer => simp [cmeasure] at hm
    | inner win f => cases f <;> simp [cmeasure] at hm
  | succ fuel ih =>
    intro s ptr ph acc log hp hinv hm
    have hchunk : chunk = 16384 := rfl
    cases ph with
    | outer =>
      simp only [cloop]
      by_cases hmore : ptr + chunk < buf.length
      · simp only [hmore, decide_true, if_true]
        have hwl : ((buf.drop ptr).take chunk).length = chunk := by
          simp only [List.length_take, List.length_drop]; omega
        have hm' : cmeasure c buf.length s (ptr + chunk)
            (.inner ((buf.drop ptr).take chunk) .noFlush) ≤ fuel := by
          simp only [cmeasure, hwl] at hm ⊢
          have h1 := c.pot_input s 0 chunk
          simp only [Nat.zero_add] at h1
          have h3 : buf.length - ptr = (buf.length - (ptr + chunk)) + chunk := by omega
          have h4 : (c.ratio + 3) * (buf.length - ptr)
              = (c.ratio + 3) * (buf.length - (ptr + chunk)) + (c.ratio * chunk + 3 * chunk) := by
            rw [h3, Nat.mul_add, Nat.add_mul c.ratio 3 chunk]
          generalize (c.ratio + 3) * (buf.length - (ptr + chunk)) = X at *
          generalize c.ratio * chunk = Y at *
          omega
        obtain ⟨calls, h1, h2, h3⟩ :=
          ih s (ptr + chunk) (.inner ((buf.drop ptr).take chunk) .noFlush) acc log
            (by omega) hinv hm'
        refine ⟨calls, h1, ?_, h3⟩
        simp only [winLen, hwl] at h2 ⊢
        omega
      · simp only [hmore, decide_false, if_false, Bool.false_eq_true]
        have hwl : ((buf.drop ptr).take (buf.length - ptr)).length = buf.length - ptr := by
          simp only [List.length_take, List.length_drop]; omega
        have hm' : cmeasure c buf.length s (ptr + (buf.length - ptr))
            (.inner ((buf.drop ptr).take (buf.length - ptr)) .finish) ≤ fuel := by
          simp only [cmeasure, hwl] at hm ⊢
          have h1 := c.pot_input s 0 (buf.length - ptr)
          simp only [Nat.zero_add] at h1
          have h4 : (c.ratio + 3) * (buf.length - ptr)
              = c.ratio * (buf.length - ptr) + 3 * (buf.length - ptr) := by
            rw [Nat.add_mul]
          generalize c.ratio * (buf.length - ptr) = Y at *
          omega
        obtain ⟨calls, h1, h2, h3⟩ :=
          ih s (ptr + (buf.length - ptr)) (.inner ((buf.drop ptr).take (buf.length - ptr)) .finish)
            acc log (by omega) ⟨Or.inl hinv, by omega⟩ hm'
        refine ⟨calls, h1, ?_, h3⟩
        simp only [winLen, hwl] at h2 ⊢
        omega
    | inner win flush =>
      rw [cloop]
      have hs := c.step_ok s win chunk flush
      have hca := c.consume_all s win chunk flush
      have hfe : flush = .finish → (c.live s ∨ win = []) →
          (o.step s win chunk flush).2.2.1.length < chunk →
          (o.step s win chunk flush).1 = .streamEnd := by
        intro h; subst h; exact c.finish_end s win chunk
      have hln : flush = .noFlush → c.live s → c.live (o.step s win chunk flush).2.2.2 := by
        intro h; subst h; exact c.live_noFlush s win chunk
      have hlf : flush = .finish → c.live s → (o.step s win chunk flush).2.1 < win.length →
          c.live (o.step s win chunk flush).2.2.2 := by
        intro h; subst h; exact c.live_finish s win chunk
      generalize o.step s win chunk flush = r at hs hca hfe hln hlf ⊢
      obtain ⟨ret, consumed, out, s'⟩ := r
      obtain ⟨hc, ho, hpot⟩ := hs
      dsimp only at hc ho hpot hca hfe hln hlf ⊢
      by_cases hfull : out.length = chunk
      · -- the call filled the buffer: once more, with what is left of the window
        simp only [hfull, if_true]
        have hinv' : CInv c buf.length s' ptr (.inner (win.drop consumed) flush) := by
          cases flush with
          | noFlush => exact hln rfl hinv
          | finish =>
            refine ⟨?_, hinv.2⟩
            by_cases hlt : consumed < win.length
            · rcases hinv.1 with hl | hnil
              · exact Or.inl (hlf rfl hl hlt)
              · subst hnil; simp at hlt
            · exact Or.inr (List.drop_eq_nil_iff.mpr (by omega))
        have hm' : cmeasure c buf.length s' ptr (.inner (win.drop consumed) flush) ≤ fuel := by
          cases flush <;> simp only [cmeasure, List.length_drop] at hm ⊢ <;> omega
        obtain ⟨calls, h1, h2, h3⟩ :=
          ih s' ptr (.inner (win.drop consumed) flush) (acc ++ out)
            (⟨flush, win.length, consumed, out, ret⟩ :: log) hp hinv' hm'
        obtain ⟨d, hd1, hd2⟩ := h3
        refine ⟨⟨flush, win.length, consumed, out, ret⟩ :: calls, ?_, ?_,
          d, getLast?_cons_of_some _ hd1, hd2⟩
        · rw [h1]
          simp only [List.flatMap_cons, List.reverse_cons, List.append_assoc, List.singleton_append]
        · simp only [List.map_cons, List.sum_cons, winLen, List.length_drop] at h2 ⊢
          omega
      · simp only [hfull, if_false]
        have hlt : out.length < chunk := by omega
        cases flush with
        | finish =>
          simp only [if_true]
          have hret := hfe rfl hinv.1 hlt
          have hcons : consumed = win.length := by
            rcases hinv.1 with hl | hnil
            · exact hca hl hlt
            · subst hnil; simpa using hc
          refine ⟨[⟨.finish, win.length, consumed, out, ret⟩], ?_, ?_, _, rfl, rfl, hret⟩
          · simp only [List.flatMap_cons, List.flatMap_nil, List.append_nil, List.reverse_cons]
          · simp only [List.map_cons, List.map_nil, List.sum_cons, List.sum_nil, winLen]
            have := hinv.2
            omega
        | noFlush =>
          simp only [reduceCtorEq, if_false]
          have hcons : consumed = win.length := hca hinv hlt
          have hm' : cmeasure c buf.length s' ptr .outer ≤ fuel := by
            simp only [cmeasure] at hm ⊢
            have := c.pot_mono s' 0 (win.length - consumed)
            simp only [Nat.zero_add] at this
            omega
          obtain ⟨calls, h1, h2, h3⟩ :=
            ih s' ptr .outer (acc ++ out)
              (⟨.noFlush, win.length, consumed, out, ret⟩ :: log) hp (hln rfl hinv) hm'
          obtain ⟨d, hd1, hd2⟩ := h3
          refine ⟨⟨.noFlush, win.length, consumed, out, ret⟩ :: calls, ?_, ?_,
            d, getLast?_cons_of_some _ hd1, hd2⟩
          · rw [h1]
            simp only [List.flatMap_cons, List.reverse_cons, List.append_assoc,
              List.singleton_append]
          · simp only [List.map_cons, List.sum_cons, winLen] at h2 ⊢
            omega

/-- Explicit fuel bound: linear in the payload length. -/
def cFuelBound {σ} {o : DOracle σ} (c : DContract o) (s0 : σ) (n : Nat) : Nat :=
  c.pot s0 0 + (c.ratio + 3) * n + 2

/-- `zlib_compress`, for every oracle honouring the contract, every live start
state, every payload and enough fuel: returns; the blob is the prefix followed
by all output of all calls in order; the calls consumed the whole payload; the
last call is a `Z_FINISH` call that answered `Z_STREAM_END`. -/
theorem compress_complete {σ} (o : DOracle σ) (c : DContract o) (s0 : σ) (hs0 : c.live s0)
    (buf : Bytes) (hne : buf ≠ []) (fuel : Nat) (hf : cFuelBound c s0 buf.length ≤ fuel) :
    ∃ blob log, compress o s0 fuel buf = .ok (blob, log) ∧
      blob = lenPrefix buf.length ++ log.flatMap (·.out) ∧
      (log.map (·.consumed)).sum = buf.length ∧
      ∃ d, log.getLast? = some d ∧ d.flush = .finish ∧ d.ret = .streamEnd := by
  obtain ⟨calls, h1, h2, h3⟩ :=
    cloop_complete o c buf fuel s0 0 .outer [] [] (Nat.zero_le _) hs0
      (by simpa [cmeasure, cFuelBound] using hf)
  refine ⟨lenPrefix buf.length ++ calls.flatMap (·.out), calls, ?_, rfl, ?_, h3⟩
  · unfold compress
    have hl : ¬ buf.length = 0 := by simpa [List.length_eq_zero_iff] using hne
    rw [if_neg hl, h1]
    simp only [List.nil_append, List.reverse_nil]
  · simpa [winLen] using h2

theorem compress_ok {σ} (o : DOracle σ) (c : DContract o) (s0 : σ) (hs0 : c.live s0)
    (buf : Bytes) (hne : buf ≠ []) (fuel : Nat) (hf : cFuelBound c s0 buf.length ≤ fuel) :
    ∃ blob log, compress o s0 fuel buf = .ok (blob, log) := by
  obtain ⟨blob, log, h, _⟩ := compress_complete o c s0 hs0 buf hne fuel hf
  exact ⟨blob, log, h⟩

theorem compress_output {σ} (o : DOracle σ) (c : DContract o) (s0 : σ) (hs0 : c.live s0)
    (buf : Bytes) (hne : buf ≠ []) (fuel : Nat) (hf : cFuelBound c s0 buf.length ≤ fuel)
    (blob : Bytes) (log : List DCall) (h : compress o s0 fuel buf = .ok (blob, log)) :
    blob = lenPrefix buf.length ++ log.flatMap (·.out) := by
  obtain ⟨blob', log', h', hb, _⟩ := compress_complete o c s0 hs0 buf hne fuel hf
  rw [h] at h'
  injection h' with h'
  injection h' with e1 e2
  subst e1; subst e2; exact hb

theorem compress_consumed {σ} (o : DOracle σ) (c : DContract o) (s0 : σ) (hs0 : c.live s0)
    (buf : Bytes) (hne : buf ≠ []) (fuel : Nat) (hf : cFuelBound c s0 buf.length ≤ fuel)
    (blob : Bytes) (log : List DCall) (h : compress o s0 fuel buf = .ok (blob, log)) :
    (log.map (·.consumed)).sum = buf.length := by
  obtain ⟨blob', log', h', _, hc, _⟩ := compress_complete o c s0 hs0 buf hne fuel hf
  rw [h] at h'
  injection h' with h'
  injection h' with e1 e2
  subst e1; subst e2; exact hc

theorem compress_finished {σ} (o : DOracle σ) (c : DContract o) (s0 : σ) (hs0 : c.live s0)
    (buf : Bytes) (hne : buf ≠ []) (fuel : Nat) (hf : cFuelBound c s0 buf.length ≤ fuel)
    (blob : Bytes) (log : List DCall) (h : compress o s0 fuel buf = .ok (blob, log)) :
    ∃ d, log.getLast? = some d ∧ d.flush = .finish ∧ d.ret = .streamEnd := by
  obtain ⟨blob', log', h', _, _, hd⟩ := compress_complete o c s0 hs0 buf hne fuel hf
  rw [h] at h'
  injection h' with h'
  injection h' with e1 e2
  subst e1; subst e2; exact hd

/-- The empty payload: `&uncompressed[0]` on an empty vector (see `compress`). -/
theorem compress_empty {σ} (o : DOracle σ) (s0 : σ) (fuel : Nat) : compress o s0 fuel [] = .ub .oob_index := rfl

/-! ### the contract is satisfiable (non-vacuity) -/

/-- A stored-like pass-through stream: it buffers nothing, every call copies as
much of the window as fits into the output buffer, and a `Z_FINISH` call
answers `Z_STREAM_END` exactly when it empties the window with room to spare. -/
def storeOracle : DOracle Unit where
  step _ win n f :=
    (if f = .finish ∧ win.length < n then .streamEnd else .ok,
     min win.length n, win.take (min win.length n), ())

def storeContract : DContract storeOracle where
  live _ := True
  pot _ a := a
  ratio := 1
  pot_mono := by intros; omega
  pot_input := by intros; omega
  step_ok := by
    intro s win n f
    simp only [storeOracle, List.length_take]
    omega
  consume_all := by
    intro s win n f _ h
    simp only [storeOracle, List.length_take] at h ⊢
    omega
  finish_end := by
    intro s win n _ h
    simp only [storeOracle, List.length_take] at h ⊢
    have : win.length < n := by omega
    simp only [this, and_self, if_true]
  live_noFlush := by intros; trivial
  live_finish := by intros; trivial

example : cFuelBound storeContract () 100000 = 400002 := by decide

/-- The theorems above instantiated: compressing through the pass-through
stream with the explicit fuel always succeeds and ends the stream. -/
example (buf : Bytes) (hne : buf ≠ []) :
    ∃ blob log, compress storeOracle () (4 * buf.length + 2) buf = .ok (blob, log) ∧
      blob = lenPrefix buf.length ++ log.flatMap (·.out) ∧
      (log.map (·.consumed)).sum = buf.length ∧
      ∃ d, log.getLast? = some d ∧ d.flush = .finish ∧ d.ret = .streamEnd :=
  compress_complete storeOracle storeContract () trivial buf hne _
    (by simp only [cFuelBound, storeContract]; omega)

/-! ### `while (strm.avail_in != 0)` is the wrong inner-loop condition -/

/-- `cloop` with the inner loop repeating `while (strm.avail_in != 0)` — i.e.
iff the call left input behind — instead of `while (strm.avail_out == 0)`. -/
def cloopBad {σ} (o : DOracle σ) (buf : Bytes) :
    Nat → σ → Nat → CPhase → Bytes → List DCall → Res (Bytes × List DCall)
  | 0, _, _, _, _, _ => .ub .nontermination
  | fuel + 1, s, ptr, .outer, acc, log =>
    let more := decide (ptr + chunk < buf.length)
    let avail := if more then chunk else buf.length - ptr
    let flush := if more then Flush.noFlush else Flush.finish
    cloopBad o buf fuel s (ptr + avail) (.inner ((buf.drop ptr).take avail) flush) acc log
  | fuel + 1, s, ptr, .inner win flush, acc, log =>
    match o.step s win chunk flush with
    | (ret, consumed, out, s') =>
      let acc' := acc ++ out
      let log' := (⟨flush, win.length, consumed, out, ret⟩ : DCall) :: log
      if consumed < win.length then cloopBad o buf fuel s' ptr (.inner (win.drop consumed) flush) acc' log'   -- avail_in != 0
      else if flush = .finish then .ok (acc', log'.reverse)
      else cloopBad o buf fuel s' ptr .outer acc' log'

/-- With the `avail_in` condition the loops can stop before the stream is
finished, for an oracle that honours the whole contract (`storeContract`): on a
payload of exactly one chunk the single `Z_FINISH` call takes all input and
fills the output buffer, so it answers `Z_OK` (the end of the stream is still
pending) — and the changed loop leaves, never asking for the rest. -/
theorem compress_avail_in_condition_counterexample (fuel : Nat) :
    ∃ d, cloopBad storeOracle (List.replicate chunk 0) (fuel + 2) () 0 .outer [] []
        = .ok (List.replicate chunk 0, [d]) ∧
      d.flush = .finish ∧ d.consumed = chunk ∧ d.ret = .ok ∧ d.ret ≠ .streamEnd := by
  refine ⟨⟨.finish, chunk, chunk, List.replicate chunk 0, .ok⟩, ?_, rfl, rfl, rfl, by decide⟩
  simp [cloopBad, storeOracle]

/-! ### a second instance, with a real `live` predicate, and lost output -/

/-- State of `bufOracle`: the bytes taken in and not yet written out, and
whether a `Z_FINISH` call has been made (zlib's `FINISH_STATE`). -/
structure BufState where
  pending : Bytes
  fin : Bool

/-- A buffering pass-through stream: `Z_NO_FLUSH` calls take the whole window
and write nothing; a `Z_FINISH` call takes the whole window and writes as much
of the buffered data as fits, answering `Z_STREAM_END` when it all fitted with
room to spare.  Like zlib, a finished stream refuses further input
(`Z_BUF_ERROR`) and non-`Z_FINISH` calls (`Z_STREAM_ERROR`), consuming and
producing nothing. -/
def bufOracle : DOracle BufState where
  step s win n f :=
    if s.fin = true ∧ (win ≠ [] ∨ f = .noFlush) then
      (if f = .noFlush then .streamError else .bufError, 0, [], s)
    else match f with
      | .noFlush => (.ok, win.length, [], ⟨s.pending ++ win, false⟩)
      | .finish =>
        (if (s.pending ++ win).length < n then .streamEnd else .ok, win.length,
         (s.pending ++ win).take n, ⟨(s.pending ++ win).drop n, true⟩)

def bufContract : DContract bufOracle where
  live s := s.fin = false
  pot s a := s.pending.length + a
  ratio := 1
  pot_mono := by intros; omega
  pot_input := by intros; omega
  step_ok := by
    intro s win n f
    unfold bufOracle
    dsimp only
    split
    · simp
    · cases f <;> simp <;> omega
  consume_all := by
    intro s win n f hl h
    unfold bufOracle at h ⊢
    dsimp only at h ⊢
    simp only [hl, Bool.false_eq_true, false_and, if_false] at h ⊢
    cases f <;> rfl
  finish_end := by
    intro s win n hl h
    unfold bufOracle at h ⊢
    dsimp only at h ⊢
    have hc : ¬ (s.fin = true ∧ (win ≠ [] ∨ Flush.finish = Flush.noFlush)) := by
      rcases hl with hl | hl
      · simp [hl]
      · simp [hl]
    simp only [hc, if_false, List.length_take] at h ⊢
    have : (s.pending ++ win).length < n := by omega
    simp only [this, if_true]
  live_noFlush := by
    intro s win n hl
    unfold bufOracle
    dsimp only
    simp only [hl, Bool.false_eq_true, false_and, if_false]
  live_finish := by
    intro s win n hl h
    unfold bufOracle at h
    dsimp only at h
    simp only [hl, Bool.false_eq_true, false_and, if_false] at h
    omega

/-- With the `avail_in` condition and the buffering stream (which honours the
whole contract, `bufContract`), a payload of one chunk plus one byte: the
`Z_FINISH` call takes its one input byte, fills the output buffer with the
first `chunk` buffered bytes and answers `Z_OK`; the changed loop leaves.  The
stream is unfinished and the last payload byte was never written. -/
theorem compress_avail_in_condition_drops_output (fuel : Nat) :
    ∃ acc d1 d2, cloopBad bufOracle (List.replicate (chunk + 1) 0) (fuel + 4) ⟨[], false⟩ 0 .outer [] []
        = .ok (acc, [d1, d2]) ∧
      acc.length = chunk ∧ d1.consumed + d2.consumed = chunk + 1 ∧
      d2.flush = .finish ∧ d2.ret = .ok := by
  refine ⟨List.replicate chunk 0,
    ⟨.noFlush, chunk, chunk, [], .ok⟩, ⟨.finish, 1, 1, List.replicate chunk 0, .ok⟩,
    ?_, by simp, rfl, rfl, rfl⟩
  have h0 : chunk ≠ 0 := by decide
  simp [cloopBad, bufOracle, h0]

/-- For contrast: the unchanged loops on the same stream and payload finish. -/
example (fuel : Nat) (hf : cFuelBound bufContract ⟨[], false⟩ (chunk + 1) ≤ fuel) :
    ∃ blob log, compress bufOracle ⟨[], false⟩ fuel (List.replicate (chunk + 1) 0) = .ok (blob, log) ∧
      blob = lenPrefix (chunk + 1) ++ log.flatMap (·.out) ∧
      (log.map (·.consumed)).sum = chunk + 1 ∧
      ∃ d, log.getLast? = some d ∧ d.flush = .finish ∧ d.ret = .streamEnd := by
  have := compress_complete bufOracle bufContract ⟨[], false⟩ rfl (List.replicate (chunk + 1) 0) (by decide) fuel
    (by simpa using hf)
  simpa using this

end EngineModel.Impl.Zlib
