/-
Cross-family facts about tracks in the composite model: `is_valid()` / `track_by_id` decide `liveTrack`; a removed
track stays removed until `create_track` re-issues its id (rowid schemas), and never comes back on the AUTOINCREMENT
schemas' own allocation rule as long as no creation reports it.
-/
import Proofs.Lib1Proj
import Proofs.CratesV1MemSim
import Proofs.CratesV1Suffix

namespace EngineModel.Lib.V1
open EngineModel.Api
open EngineModel.Api.CratesV1 (liveTrack trackAutoinc)
open EngineModel.TracksV1 (Snap Field TrackRows aget aset TableOk DbInv KeysDistinct dbCreate)
open EngineModel.TracksV1.Fl (FOps)

theorem filter_key_le_one {α} (f : α → Int) (p : α → Bool) (t : Int) : ∀ (l : List α), (l.map f).Nodup →
    (l.filter (fun r => f r == t && p r)).length ≤ 1 := by
  intro l
  induction l with
  | nil => intro _; simp
  | cons a l ih =>
    intro h
    simp only [List.map_cons, List.nodup_cons] at h
    by_cases hat : f a = t
    · have hnil : l.filter (fun r => f r == t && p r) = [] := by
        rw [List.filter_eq_nil_iff]
        intro r hr hc
        simp only [Bool.and_eq_true, beq_iff_eq] at hc
        exact h.1 (List.mem_map.mpr ⟨r, hr, hc.1.trans hat.symm⟩)
      rw [List.filter_cons]
      split
      · rw [hnil]; simp
      · rw [hnil]; simp
    · rw [List.filter_cons]
      have : (f a == t && p a) = false := by simp [hat]
      rw [this]
      exact ih h.2

theorem trackIsValid_live {db : CratesV1.Db} (hn : (db.track.map (·.id)).Nodup) (t : Id) :
    (liveTrack db t → CratesV1.trackIsValid db t = .ok true) ∧
    (¬ liveTrack db t → CratesV1.trackIsValid db t = .ok false) := by
  have hle := filter_key_le_one (fun r : CratesV1.TrackRow => r.id) (fun r => r.hasPath) t db.track hn
  constructor
  · intro hl
    have hpos := (CratesV1.liveTrack_iff_count db t).mpr hl
    have : (db.track.filter (fun r => r.id == t && r.hasPath)).length = 1 := by omega
    unfold CratesV1.trackIsValid
    simp [this]
  · intro hl
    have : ¬ (db.track.filter (fun r => r.id == t && r.hasPath)).length > 0 :=
      fun hp => hl ((CratesV1.liveTrack_iff_count db t).mp hp)
    have : (db.track.filter (fun r => r.id == t && r.hasPath)).length = 0 := by omega
    unfold CratesV1.trackIsValid
    simp [this]

/-- `is_valid()` of the composite = the tracks package's "the rows exist". -/
theorem trackLive_iff_rows {s : VSchema} {L : Lib1} (h : LibInv s L) (t : Id) :
    trackLive L t = .ok (L.tr.rows t).isSome := by
  unfold trackLive
  obtain ⟨h1, h2⟩ := trackIsValid_live h.crates.trackNodup t
  cases hr : (L.tr.rows t).isSome with
  | true => exact h1 ((h.coupled t).mpr hr)
  | false => exact h2 (fun hl => by have := (h.coupled t).mp hl; rw [hr] at this; cases this)

/-! ### a removed track stays removed until its id is re-issued -/

theorem viaCrates_tr (s : VSchema) (L : Lib1) (op : CratesV1.Op) : (viaCrates s L op).1.tr = L.tr := rfl

/-- One call from a state where track `t` has no rows: it still has none afterwards, unless the call is a `create_track`
that reports the id `t`. -/
theorem absent_step (o : FOps) {s : VSchema} {L : Lib1} (h : LibInv s L) (t : Id) (ht : L.tr.rows t = none) (c : Call)
    (hno : reissuesTrack o s L [c] t = false) : (step o s L c).1.tr.rows t = none := by
  by_cases hc : c.isObserver = true
  · rw [step_observer o s L c hc]; exact ht
  · cases c with
    | createTrack x =>
      obtain ⟨id, seq, hcr, hmax⟩ := CratesV1.createTrack_spec (toDetect s) L.cr
      have hno' : (Out.newId (createTrack o s L x).2 == some t) = false := by
        have : reissuesTrack o s L [.createTrack x] t = ((Out.newId (step o s L (.createTrack x)).2 == some t) || false) := rfl
        rw [this, Bool.or_false] at hno
        exact hno
      show (createTrack o s L x).1.tr.rows t = none
      unfold createTrack at hno' ⊢
      rw [hcr] at hno' ⊢
      simp only at hno' ⊢
      cases hd : dbCreate o L.tr x with
      | throw e => exact ht
      | ub u => exact ht
      | ok p =>
        obtain ⟨d', id0⟩ := p
        rw [hd] at hno'
        simp only [Out.newId] at hno'
        have hne : t ≠ id := by
          intro e; subst e; simp at hno'
        obtain ⟨rows, hw, hd'⟩ := TracksV1.dbCreate_rows o L.tr d' x id0 hd
        have hid0 := dbCreate_id o L.tr d' x id0 hd
        have h0 : ∀ e ∈ L.tr.tracks, e.1 ≠ id0 := by
          intro e he; rw [hid0]; have := TracksV1.nextId_fresh L.tr e he; omega
        subst hd'
        simp only
        rw [relabel_append L.tr id0 id rows h0]
        show aget t (L.tr.tracks ++ [(id, rows)]) = none
        rw [TracksV1.aget_append_other _ _ _ _ hne]; exact ht
    | removeTrack u =>
      show (TracksV1.dbRemove L.tr u).rows t = none
      by_cases hu : t = u
      · subst hu; exact TracksV1.aget_filter_ne _ _
      · have : (TracksV1.dbRemove L.tr u).rows t = L.tr.rows t := TracksV1.aget_filter_other _ _ _ hu
        rw [this]; exact ht
    | update u x =>
      show (viaTracks L (TracksV1.dbUpdate o L.tr u x)).1.tr.rows t = none
      cases hu : TracksV1.dbUpdate o L.tr u x with
      | throw e => exact ht
      | ub e => exact ht
      | ok d' =>
        obtain ⟨prior, rows, hp, _, hd'⟩ := TracksV1.dbUpdate_rows o L.tr d' x u hu
        have hne : t ≠ u := by intro e; subst e; rw [ht] at hp; cases hp
        subst hd'
        show aget t (aset u rows L.tr.tracks) = none
        rw [TracksV1.aget_aset_other _ _ _ _ hne]; exact ht
    | set u f v =>
      show (viaTracks L (TracksV1.dbSet o L.tr u f v)).1.tr.rows t = none
      cases hu : TracksV1.dbSet o L.tr u f v with
      | throw e => exact ht
      | ub e => exact ht
      | ok d' =>
        obtain ⟨r, r', hr, _, hd'⟩ := TracksV1.dbSet_ok o L.tr d' u f v hu
        have hne : t ≠ u := by intro e; subst e; rw [ht] at hr; cases hr
        subst hd'
        show aget t (aset u r' L.tr.tracks) = none
        rw [TracksV1.aget_aset_other _ _ _ _ hne]; exact ht
    | createRootCrate n => exact ht
    | createRootCrateAfter n a => exact ht
    | removeCrate c => exact ht
    | addTrack c u => exact ht
    | crateRemoveTrack c u => exact ht
    | clearTracks c => exact ht
    | createSubCrate c n => exact ht
    | createSubCrateAfter c n a => exact ht
    | setName c n => exact ht
    | setParent c p => exact ht
    | _ => exact absurd rfl hc

theorem reissuesTrack_cons (o : FOps) (s : VSchema) (L : Lib1) (c : Call) (cs : List Call) (y : Id) :
    reissuesTrack o s L (c :: cs) y = (reissuesTrack o s L [c] y || reissuesTrack o s (step o s L c).1 cs y) := by
  simp only [reissuesTrack, Bool.or_false]

theorem absent_suffix (o : FOps) {s : VSchema} (t : Id) : ∀ (cs : List Call) {L : Lib1}, LibInv s L → L.tr.rows t = none →
    reissuesTrack o s L cs t = false → (run o s L cs).tr.rows t = none := by
  intro cs
  induction cs with
  | nil => intro L _ ht _; exact ht
  | cons c cs ih =>
    intro L h ht hno
    rw [reissuesTrack_cons, Bool.or_eq_false_iff] at hno
    rw [run_cons]
    exact ih (libInv_step o h c) (absent_step o h t ht c hno.1) hno.2

/-! ### a removed crate stays removed until its id is re-issued (the crates package's `dead_step`, on the composite) -/

theorem newId_mapRes (r : Res CratesV1.Out) (y : Id) :
    (Out.newId (mapRes convOut r) == some y) = false → r ≠ .ok (.id y) := by
  intro h e
  subst e
  simp [mapRes, convOut, Out.newId] at h

theorem reissuesCrate_cons (o : FOps) (s : VSchema) (L : Lib1) (c : Call) (cs : List Call) (y : Id) :
    reissuesCrate o s L (c :: cs) y = (reissuesCrate o s L [c] y || reissuesCrate o s (step o s L c).1 cs y) := by
  simp only [reissuesCrate, Bool.or_false]

theorem crateDead_step (o : FOps) {s : VSchema} {L : Lib1} (h : LibInv s L) (y : Id) (hy : y ∉ CratesV1.ids L.cr) (c : Call)
    (hno : reissuesCrate o s L [c] y = false) : y ∉ CratesV1.ids (step o s L c).1.cr := by
  have hi := h.crates
  have viaOp : ∀ op, ¬ ((CratesV1.step (toDetect s) L.cr op).2 = .ok (.id y) ∧ CratesV1.forestOp op ≠ none) →
      y ∉ CratesV1.ids (CratesV1.step (toDetect s) L.cr op).1 := fun op hop => CratesV1.dead_step (toDetect s) hi hy hop
  have hno' : ∀ op, (Out.newId (viaCrates s L op).2 == some y) = false →
      ¬ ((CratesV1.step (toDetect s) L.cr op).2 = .ok (.id y) ∧ CratesV1.forestOp op ≠ none) :=
    fun op hh hc => newId_mapRes _ y hh hc.1
  by_cases hc : c.isObserver = true
  · rw [step_observer o s L c hc]; exact hy
  · cases c with
    | createRootCrate n =>
      have : reissuesCrate o s L [.createRootCrate n] y = ((Out.newId (viaCrates s L (.createRoot n)).2 == some y) || false) := rfl
      rw [this, Bool.or_false] at hno
      exact viaOp _ (hno' _ hno)
    | createRootCrateAfter n a =>
      have : reissuesCrate o s L [.createRootCrateAfter n a] y = ((Out.newId (viaCrates s L (.createRoot n)).2 == some y) || false) := rfl
      rw [this, Bool.or_false] at hno
      exact viaOp _ (hno' _ hno)
    | createSubCrate p n =>
      have : reissuesCrate o s L [.createSubCrate p n] y = ((Out.newId (viaCrates s L (.createSub p n)).2 == some y) || false) := rfl
      rw [this, Bool.or_false] at hno
      exact viaOp _ (hno' _ hno)
    | createSubCrateAfter p n a =>
      have : reissuesCrate o s L [.createSubCrateAfter p n a] y = ((Out.newId (viaCrates s L (.createSub p n)).2 == some y) || false) := rfl
      rw [this, Bool.or_false] at hno
      exact viaOp _ (hno' _ hno)
    | removeCrate c =>
      refine viaOp (.removeCrate c) ?_
      rintro ⟨e, _⟩
      have e' : (CratesV1.removeCrate (toDetect s) L.cr c).2 = .ok (.id y) := e
      rw [CratesV1.removeCrate_eq (toDetect s) hi c] at e'; cases e'
    | setName c n =>
      refine viaOp (.rename c n) ?_
      rintro ⟨e, _⟩
      have e' : (CratesV1.setName (toDetect s) L.cr c n).2 = .ok (.id y) := e
      rcases CratesV1.C15.setName_cases (toDetect s) hi.toFInv c n with e1 | e1 | ⟨_, e1⟩ <;> rw [e1] at e' <;> cases e'
    | setParent c p =>
      refine viaOp (.setParent c p) ?_
      rintro ⟨e, _⟩
      have e' : (CratesV1.setParent (toDetect s) L.cr c p).2 = .ok (.id y) := e
      rcases CratesV1.C15.setParent_cases (toDetect s) hi.toFInv c p with e1 | e1 | ⟨_, e1⟩ <;> rw [e1] at e' <;> cases e'
    | addTrack c t => exact viaOp (.addTrack c t) (fun hc => hc.2 rfl)
    | crateRemoveTrack c t => exact viaOp (.removeTrackFrom c t) (fun hc => hc.2 rfl)
    | clearTracks c => exact viaOp (.clearTracks c) (fun hc => hc.2 rfl)
    | removeTrack t => exact viaOp (.removeTrack t) (fun hc => hc.2 rfl)
    | createTrack x =>
      rw [step_cr]
      cases hcr : crOp o L (.createTrack x) with
      | none => exact hy
      | some op =>
        have : op = .createTrack := by
          have hcr' : (if (dbCreate o L.tr x).isOk then some CratesV1.Op.createTrack else none) = some op := hcr
          split at hcr'
          · cases hcr'; rfl
          · cases hcr'
        subst this
        exact viaOp .createTrack (fun hc => hc.2 rfl)
    | update t x => rw [show (step o s L (.update t x)).1.cr = L.cr from viaTracks_cr L _]; exact hy
    | set t f v => rw [show (step o s L (.set t f v)).1.cr = L.cr from viaTracks_cr L _]; exact hy
    | _ => exact absurd rfl hc

theorem crateDead_suffix (o : FOps) {s : VSchema} (y : Id) : ∀ (cs : List Call) {L : Lib1}, LibInv s L →
    y ∉ CratesV1.ids L.cr → reissuesCrate o s L cs y = false → y ∉ CratesV1.ids (run o s L cs).cr := by
  intro cs
  induction cs with
  | nil => intro L _ hy _; exact hy
  | cons c cs ih =>
    intro L h hy hno
    rw [reissuesCrate_cons, Bool.or_eq_false_iff] at hno
    rw [run_cons]
    exact ih (libInv_step o h c) (crateDead_step o h y hy c hno.1) hno.2

end EngineModel.Lib.V1
