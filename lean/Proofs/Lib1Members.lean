/-
Cross-family facts about tracks in the composite model: `is_valid()` / `track_by_id` decide `liveTrack`; a removed
track stays removed until `create_track` re-issues its id (rowid schemas), and never comes back on the AUTOINCREMENT
schemas' own allocation rule as long as no creation reports it.
-/
import Proofs.Lib1Proj
import Proofs.CratesV1MemSim

namespace EngineModel.Lib.V1
open EngineModel.Api
open EngineModel.Api.CratesV1 (liveTrack trackAutoinc)
open EngineModel.TracksV1 (Snap Field TrackRows aget aset TableOk DbInv KeysDistinct dbCreate)
open EngineModel.TracksV1.Fl (FOps)

theorem filter_key_le_one {α} (f : α → Int) (p : α → Bool) (t : Int) : ∀ (l : List α), (l.map f).Nodup →
    (l.filter (fun r => f r == t && p r)).length ≤ 1 := by
  intro l
  induction l with
  | nil => intro _; simp
  | cons a l ih =>
    intro h
    simp only [List.map_cons, List.nodup_cons] at h
    by_cases hat : f a = t
    · have hnil : l.filter (fun r => f r == t && p r) = [] := by
        rw [List.filter_eq_nil_iff]
        intro r hr hc
        simp only [Bool.and_eq_true, beq_iff_eq] at hc
        exact h.1 (List.mem_map.mpr ⟨r, hr, hc.1.trans hat.symm⟩)
      rw [List.filter_cons]
      split
      · rw [hnil]; simp
      · rw [hnil]; simp
    · rw [List.filter_cons]
      have : (f a == t && p a) = false := by simp [hat]
      rw [this]
      exact ih h.2

theorem trackIsValid_live {db : CratesV1.Db} (hn : (db.track.map (·.id)).Nodup) (t : Id) :
    (liveTrack db t → CratesV1.trackIsValid db t = .ok true) ∧
    (¬ liveTrack db t → CratesV1.trackIsValid db t = .ok false) := by
  have hle := filter_key_le_one (fun r : CratesV1.TrackRow => r.id) (fun r => r.hasPath) t db.track hn
  constructor
  · intro hl
    have hpos := (CratesV1.liveTrack_iff_count db t).mpr hl
    have : (db.track.filter (fun r => r.id == t && r.hasPath)).length = 1 := by omega
    unfold CratesV1.trackIsValid
    simp [this]
  · intro hl
    have : ¬ (db.track.filter (fun r => r.id == t && r.hasPath)).length > 0 :=
      fun hp => hl ((CratesV1.liveTrack_iff_count db t).mp hp)
    have : (db.track.filter (fun r => r.id == t && r.hasPath)).length = 0 := by omega
    unfold CratesV1.trackIsValid
    simp [this]

/-- `is_valid()` of the composite = the tracks package's "the rows exist". -/
theorem trackLive_iff_rows {s : VSchema} {L : Lib1} (h : LibInv s L) (t : Id) :
    trackLive L t = .ok (L.tr.rows t).isSome := by
  unfold trackLive
  obtain ⟨h1, h2⟩ := trackIsValid_live h.crates.trackNodup t
  cases hr : (L.tr.rows t).isSome with
  | true => exact h1 ((h.coupled t).mpr hr)
  | false => exact h2 (fun hl => by have := (h.coupled t).mp hl; rw [hr] at this; cases this)

/-! ### a removed track stays removed until its id is re-issued -/

theorem viaCrates_tr (s : VSchema) (L : Lib1) (op : CratesV1.Op) : (viaCrates s L op).1.tr = L.tr := rfl

/-- One call from a state where track `t` has no rows: it still has none afterwards, unless the call is a `create_track`
that reports the id `t`. -/
theorem absent_step (o : FOps) {s : VSchema} {L : Lib1} (h : LibInv s L) (t : Id) (ht : L.tr.rows t = none) (c : Call)
    (hno : reissuesTrack o s L [c] t = false) : (step o s L c).1.tr.rows t = none := by
  by_cases hc : c.isObserver = true
  · rw [step_observer o s L c hc]; exact ht
  · cases c with
    | createTrack x =>
      obtain ⟨id, seq, hcr, hmax⟩ := CratesV1.createTrack_spec (toDetect s) L.cr
      have hno' : (Out.newId (createTrack o s L x).2 == some t) = false := by
        have : reissuesTrack o s L [.createTrack x] t = ((Out.newId (step o s L (.createTrack x)).2 == some t) || false) := rfl
        rw [this, Bool.or_false] at hno
        exact hno
      show (createTrack o s L x).1.tr.rows t = none
      unfold createTrack at hno' ⊢
      rw [hcr] at hno' ⊢
      simp only at hno' ⊢
      cases hd : dbCreate o L.tr x with
      | throw e => exact ht
      | ub u => exact ht
      | ok p =>
        obtain ⟨d', id0⟩ := p
        rw [hd] at hno'
        simp only [Out.newId] at hno'
        have hne : t ≠ id := by
          intro e; subst e; simp at hno'
        obtain ⟨rows, hw, hd'⟩ := TracksV1.dbCreate_rows o L.tr d' x id0 hd
        have hid0 := dbCreate_id o L.tr d' x id0 hd
        have h0 : ∀ e ∈ L.tr.tracks, e.1 ≠ id0 := by
          intro e he; rw [hid0]; have := TracksV1.nextId_fresh L.tr e he; omega
        subst hd'
        simp only
        rw [relabel_append L.tr id0 id rows h0]
        show aget t (L.tr.tracks ++ [(id, rows)]) = none
        rw [TracksV1.aget_append_other _ _ _ _ hne]; exact ht
    | removeTrack u =>
      show (TracksV1.dbRemove L.tr u).rows t = none
      by_cases hu : t = u
      · subst hu; exact TracksV1.aget_filter_ne _ _
      · have : (TracksV1.dbRemove L.tr u).rows t = L.tr.rows t := TracksV1.aget_filter_other _ _ _ hu
        rw [this]; exact ht
    | update u x =>
      show (viaTracks L (TracksV1.dbUpdate o L.tr u x)).1.tr.rows t = none
      cases hu : TracksV1.dbUpdate o L.tr u x with
      | throw e => exact ht
      | ub e => exact ht
      | ok d' =>
        obtain ⟨prior, rows, hp, _, hd'⟩ := TracksV1.dbUpdate_rows o L.tr d' x u hu
        have hne : t ≠ u := by intro e; subst e; rw [ht] at hp; cases hp
        subst hd'
        show aget t (aset u rows L.tr.tracks) = none
        rw [TracksV1.aget_aset_other _ _ _ _ hne]; exact ht
    | set u f v =>
      show (viaTracks L (TracksV1.dbSet o L.tr u f v)).1.tr.rows t = none
      cases hu : TracksV1.dbSet o L.tr u f v with
      | throw e => exact ht
      | ub e => exact ht
      | ok d' =>
        obtain ⟨r, r', hr, _, hd'⟩ := TracksV1.dbSet_ok o L.tr d' u f v hu
        have hne : t ≠ u := by intro e; subst e; rw [ht] at hr; cases hr
        subst hd'
        show aget t (aset u r' L.tr.tracks) = none
        rw [TracksV1.aget_aset_other _ _ _ _ hne]; exact ht
    | createRootCrate n => exact ht
    | createRootCrateAfter n a => exact ht
    | removeCrate c => exact ht
    | addTrack c u => exact ht
    | crateRemoveTrack c u => exact ht
    | clearTracks c => exact ht
    | createSubCrate c n => exact ht
    | createSubCrateAfter c n a => exact ht
    | setName c n => exact ht
    | setParent c p => exact ht
    | _ => exact absurd rfl hc

theorem reissuesTrack_cons (o : FOps) (s : VSchema) (L : Lib1) (c : Call) (cs : List Call) (y : Id) :
    reissuesTrack o s L (c :: cs) y = (reissuesTrack o s L [c] y || reissuesTrack o s (step o s L c).1 cs y) := by
  simp only [reissuesTrack, Bool.or_false]

theorem absent_suffix (o : FOps) {s : VSchema} (t : Id) : ∀ (cs : List Call) {L : Lib1}, LibInv s L → L.tr.rows t = none →
    reissuesTrack o s L cs t = false → (run o s L cs).tr.rows t = none := by
  intro cs
  induction cs with
  | nil => intro L _ ht _; exact ht
  | cons c cs ih =>
    intro L h ht hno
    rw [reissuesTrack_cons, Bool.or_eq_false_iff] at hno
    rw [run_cons]
    exact ih (libInv_step o h c) (absent_step o h t ht c hno.1) hno.2

end EngineModel.Lib.V1
