/-
The schema-1.x storage bindings REGENERATED from the working tree of /repo
(`Gen/BindingsV1.lean`, tools/tr_v1bindings.py) are aligned, and equal to the tables the hand
model uses (`TracksV1/Bindings.lean`).  Everything here is decided by the kernel (`decide`) on the
regenerated data: a transposed operand, a getter reading the neighbouring enumerator, a swapped
SELECT column or a changed enumerator value in the source makes this file fail to build.

"Resolution" composes the chain the C++ goes through:
   `?` of the SQL text  →  operand of the `<<` chain (parameter by INDEX)  →  argument of the call in
   engine_track_impl.cpp  →  snapshot member / helper result / constant.
Parameter and lambda-parameter NAMES are never looked at.
-/
import EngineModel.Gen.BindingsV1
import EngineModel.TracksV1.Bindings

namespace EngineModel.Proofs.BindingsV1
open EngineModel EngineModel.TracksV1 EngineModel.TracksV1.Bind

/-! ### resolution -/

abbrev Locals := List (String × String × List String × Option Int)
abbrev Consts := List (String × Option Int)

def resolveSrc (locals : Locals) (consts : Consts) : Src → Option RVal
  | .id => some .id
  | .snap m => some (.snap m)
  | .loc n mem =>
    (locals.lookup n).map fun e =>
      match e.2.2, mem with
      | some v, none => .const (some v)
      | _, _ => .derived e.1 mem e.2.1
  | .const n => (consts.lookup n).map .const

def resolveOpnd (args : List Src) (locals : Locals) (consts : Consts) : Opnd → Option RVal
  | .param i _ => (args[i]?).bind (resolveSrc locals consts)
  | .encode i _ => (args[i]?).bind (resolveSrc locals consts)
  | .localNull _ => some (.const none)
  | .null => some (.const none)
  | .text t => some (.text t)
  | .int n => some (.const (some n))
  | _ => none

def enumVal : Opnd → Option Int
  | .enumStr e => Gen.BindingsV1.strEnum.lookup e
  | .enumInt e => Gen.BindingsV1.intEnum.lookup e
  | _ => none

def optAll {α β} (f : α → Option β) : List α → Option (List β)
  | [] => some []
  | a :: l => match f a, optAll f l with
    | some b, some r => some (b :: r)
    | _, _ => none

/-- one bulk statement: every tuple is `(the track id, an enumerator, a value)` → `(type number, value source)` -/
def bulkResolved (args : List Src) (locals : Locals) (rows : List (Opnd × Opnd × Opnd)) : Option (List (Int × RVal)) :=
  optAll (fun row =>
    match resolveOpnd args locals Gen.BindingsV1.constants row.1, enumVal row.2.1,
          resolveOpnd args locals Gen.BindingsV1.constants row.2.2 with
    | some .id, some n, some v => some (n, v)
    | _, _, _ => none) rows

/-- a single-row statement: `(column, value source)` -/
def rowResolved (args : List Src) (locals : Locals) (row : List (String × Opnd)) : Option (List (String × RVal)) :=
  optAll (fun cv => (resolveOpnd args locals Gen.BindingsV1.constants cv.2).map fun v => (cv.1, v)) row

def sameSet {α} [DecidableEq α] (a b : List α) : Bool :=
  a.length == b.length && a.all (fun x => b.contains x) && b.all (fun x => a.contains x)

def forS {α} (tbl : List (String × α)) (s : Schema) : Option α := tbl.lookup s.name

/-! ### the enumerator numbers -/

theorem enums_eq_hand :
    Gen.BindingsV1.strEnum = strEnumHand ∧ Gen.BindingsV1.intEnum = intEnumHand := by decide

theorem meta_types_injective :
    (Gen.BindingsV1.strEnum.map (·.2)).Nodup ∧ (Gen.BindingsV1.strEnum.map (·.1)).Nodup ∧
    (Gen.BindingsV1.intEnum.map (·.2)).Nodup ∧ (Gen.BindingsV1.intEnum.map (·.1)).Nodup := by decide

/-- the hand model's field codes are the header's numbers of the enumerators of the same name -/
theorem field_codes_eq :
    (∀ f : StrField, Gen.BindingsV1.strEnum.lookup f.name = some f.code) ∧
    (∀ f : IntField, Gen.BindingsV1.intEnum.lookup f.enumerator = some f.code) := by
  constructor <;> intro f <;> cases f <;> decide

/-! ### the bulk MetaData / MetaDataInteger statements (create_track and update) -/

def bulkStrOk (s : Schema) : Bool :=
  ((forS Gen.BindingsV1.metaBulk s).bind
      (bulkResolved Gen.BindingsV1.createTrackMetaArgs Gen.BindingsV1.createTrackLocals) == some (bulkStr s)) &&
  ((forS Gen.BindingsV1.metaBulk s).bind
      (bulkResolved Gen.BindingsV1.updateMetaArgs Gen.BindingsV1.updateLocals) == some (bulkStr s))

def bulkIntOk (s : Schema) : Bool :=
  ((forS Gen.BindingsV1.metaIntBulk s).bind
      (bulkResolved Gen.BindingsV1.createTrackMetaIntArgs Gen.BindingsV1.createTrackLocals) == some (bulkInt s)) &&
  ((forS Gen.BindingsV1.metaIntBulk s).bind
      (bulkResolved Gen.BindingsV1.updateMetaIntArgs Gen.BindingsV1.updateLocals) == some (bulkInt s))

theorem bulk_str_eq (s : Schema) : bulkStrOk s = true := by cases s <;> decide
theorem bulk_int_eq (s : Schema) : bulkIntOk s = true := by cases s <;> decide

/-- each type number is written at most once per statement -/
theorem bulk_types_nodup (s : Schema) : ((bulkStr s).map (·.1)).Nodup ∧ ((bulkInt s).map (·.1)).Nodup := by
  cases s <;> decide

/-! ### the Track row: INSERT, UPDATE, SELECT -/

/-- column `c` is bound to the parameter at `idx`, and the struct member at that position (shifted by
`shift` for the leading `id` of update_track) is the member the naming table gives for `c` -/
def positional (members : List String) (naming : List (String × String)) (shift : Nat) (cv : String × Opnd) : Bool :=
  match cv.2 with
  | .param i _ => decide (shift ≤ i) && (members[i - shift]? == naming.lookup cv.1)
  | .encode i _ => decide (shift ≤ i) && (members[i - shift]? == naming.lookup cv.1)
  | _ => false

def isIdWhere (w : List (String × Opnd)) : Bool :=
  match w with
  | [("id", .param 0 _)] => true
  | _ => false

def trackWriteOk (s : Schema) : Bool :=
  match forS Gen.BindingsV1.trackInsert s, forS Gen.BindingsV1.trackUpdate s, forS Gen.BindingsV1.trackUpdateWhere s with
  | some ins, some upd, some w =>
    -- end to end: every column gets the source the hand model gives it, from both callers
    ((rowResolved Gen.BindingsV1.createTrackTrackArgs Gen.BindingsV1.createTrackLocals ins).map
        (sameSet (trackCols s)) == some true) &&
    ((rowResolved Gen.BindingsV1.updateTrackArgs Gen.BindingsV1.updateLocals upd).map
        (sameSet (trackCols s)) == some true) &&
    -- each column once; parameter position = position of the struct member of that column
    decide ((ins.map (·.1)).Nodup) && decide ((upd.map (·.1)).Nodup) &&
    ins.all (positional Gen.BindingsV1.trackRowMembers trackColMember 0) &&
    upd.all (positional Gen.BindingsV1.trackRowMembers trackColMember 1) &&
    isIdWhere w
  | _, _, _ => false

def trackSelectOk (s : Schema) : Bool :=
  match forS Gen.BindingsV1.trackSelect s, forS Gen.BindingsV1.trackSelectDefaults s,
        forS Gen.BindingsV1.trackSelectWhere s with
  | some sel, some dflt, some w =>
    -- every column lands in the member of its own name, unconverted; the columns are exactly the written ones;
    -- the members without a column are exactly the remaining ones
    sel.all (fun e => trackColMember.contains (e.1, e.2.1) && e.2.2 == "direct") &&
    sameSet (sel.map (·.1)) ((trackCols s).map (·.1)) &&
    sameSet (sel.map (·.2.1) ++ dflt) Gen.BindingsV1.trackRowMembers &&
    isIdWhere w
  | _, _, _ => false

theorem track_write_aligned (s : Schema) : trackWriteOk s = true := by cases s <;> decide
theorem track_select_aligned (s : Schema) : trackSelectOk s = true := by cases s <;> decide

/-! ### the PerformanceData row -/

def blobCols : List String :=
  ["trackData", "highResolutionWaveFormData", "overviewWaveFormData", "beatData", "quickCues", "loops"]

def isEncode : Opnd → Bool
  | .encode _ _ => true
  | _ => false

def perfWriteOk (s : Schema) : Bool :=
  match forS Gen.BindingsV1.perfInsert s with
  | some ins =>
    ((rowResolved Gen.BindingsV1.createTrackPerfArgs Gen.BindingsV1.createTrackLocals ins).map
        (sameSet (perfCols s)) == some true) &&
    ((rowResolved Gen.BindingsV1.updatePerfArgs Gen.BindingsV1.updateLocals ins).map
        (sameSet (perfCols s)) == some true) &&
    decide ((ins.map (·.1)).Nodup) &&
    ins.all (positional Gen.BindingsV1.perfRowMembers perfColMember 0) &&
    -- exactly the six blob columns go through `encode()`
    ins.all (fun cv => isEncode cv.2 == blobCols.contains cv.1)
  | none => false

def perfSelectOk (s : Schema) : Bool :=
  match forS Gen.BindingsV1.perfSelect s, forS Gen.BindingsV1.perfSelectDefaults s with
  | some sel, some dflt =>
    sel.all (fun e => perfColMember.contains (e.1, e.2.1) &&
      e.2.2 == (if blobCols.contains e.1 then "decode" else "direct")) &&
    sameSet (sel.map (·.1)) ((perfCols s).map (·.1)) &&
    sameSet (sel.map (·.2.1) ++ dflt) Gen.BindingsV1.perfRowMembers
  | _, _ => false

theorem perf_write_aligned (s : Schema) : perfWriteOk s = true := by cases s <;> decide
theorem perf_select_aligned (s : Schema) : perfSelectOk s = true := by cases s <;> decide

theorem perf_clear_aligned :
    (match Gen.BindingsV1.perfClear with
     | ("delete", "PerformanceData", [("id", .param 0 _)]) => true
     | _ => false) = true := by decide

/-! ### the single-row statements of get_/set_meta_data(_integer) -/

/-- every single-row statement binds `(id, type, value)` to its parameters 0, 1, 2 (or NULL for the value)
and every query selects on `(id, type)` bound to parameters 0, 1 -/
def singleOk (e : String × String × String × List (String × Opnd) × List (String × Opnd)) : Bool :=
  let val := if e.2.1 == "MetaData" then "text" else "value"
  match e.2.2.1, e.2.2.2.1, e.2.2.2.2 with
  | "replace", [("id", .param 0 _), ("type", .param 1 _), (v, .param 2 _)], [] => v == val
  | "replace", [("id", .param 0 _), ("type", .param 1 _), (v, .null)], [] => v == val
  | "select", [], [("id", .param 0 _), ("type", .param 1 _), (v, .sql "IS NOT NULL")] => v == val
  | _, _, _ => false

theorem meta_singles_aligned :
    Gen.BindingsV1.metaSingles.all singleOk = true ∧
    sameSet (Gen.BindingsV1.metaSingles.map fun e => (e.1, e.2.1))
      [("set_meta_data", "MetaData"), ("set_meta_data", "MetaData"), ("set_meta_data_integer", "MetaDataInteger"),
       ("get_meta_data", "MetaData"), ("get_meta_data_integer", "MetaDataInteger")] = true := by decide

/-! ### getters, setters, snapshot() of engine_track_impl.cpp -/

def isWrite : Acc → Bool
  | .setStr _ | .setInt _ | .setCol _ | .setPerf _ => true
  | _ => false

def subset {α} [DecidableEq α] (a b : List α) : Bool := a.all fun x => b.contains x

/-- the getter reads exactly the locations of the hand model's getter; the setter writes exactly the
locations of the hand model's setter (order and repetition do not matter) -/
def accessorOk (f : Field) : Bool :=
  match Gen.BindingsV1.accessors.lookup (cxxName f), Gen.BindingsV1.accessors.lookup ("set_" ++ cxxName f) with
  | some g, some st =>
    subset g (fieldReads f) && subset (fieldReads f) g &&
    subset (st.filter isWrite) (fieldWrites f) && subset (fieldWrites f) (st.filter isWrite)
  | _, _ => false

theorem accessors_eq_hand : Field.reps.all accessorOk = true := by decide

/-- `filename()` / `file_extension()` derive from the `path` column only -/
theorem derived_getters :
    Gen.BindingsV1.accessors.lookup "filename" = some [.getCol "path"] ∧
    Gen.BindingsV1.accessors.lookup "file_extension" = some [.getCol "path"] := by decide

/-- every field is written and read under the SAME type number: the bulk statement, the single-field setter,
the single-field getter and `snapshot()` name the same enumerator for it -/
def sameTypeStr (f : StrField) : Bool :=
  Gen.BindingsV1.snapshotStr.contains (f.name, f.name, ["value"]) &&
  (Gen.BindingsV1.accessors.lookup f.name == some [.getStr f.name]) &&
  (Gen.BindingsV1.accessors.lookup ("set_" ++ f.name) == some [.setStr f.name]) &&
  Schema.all.all fun s => (bulkStr s).contains (f.code, .snap f.name)

def sameTypeInt (f : IntField) : Bool :=
  Gen.BindingsV1.snapshotInt.contains (f.enumerator, f.name, ["value"]) &&
  (Gen.BindingsV1.accessors.lookup f.name == some [.getInt f.enumerator]) &&
  ((Gen.BindingsV1.accessors.lookup ("set_" ++ f.name)).any fun l => l.contains (.setInt f.enumerator))

theorem same_type_read_write :
    StrField.all.all sameTypeStr = true ∧ IntField.all.all sameTypeInt = true ∧
    Gen.BindingsV1.snapshotStr.length = 7 ∧ Gen.BindingsV1.snapshotInt.length = 3 := by decide

/-- `snapshot()`: the members assigned from `Track` columns read the `track_row` member of that column;
those assigned from PerformanceData read the blob of the hand model's column and the named member of it -/
def snapTrackPairs : List (String × String) :=
  Gen.BindingsV1.snapshotReads.flatMap fun e => (e.2.filter fun p => p.1 == "track_row").map fun p => (p.2, e.1)

def snapPerfTriples : List (String × String × String) :=
  Gen.BindingsV1.snapshotReads.filterMap fun e =>
    match e.2 with
    | [("performance_data_row", m), (_, sub)] => some (e.1, m, sub)
    | _ => none

/-- snapshot member ← (PerformanceData column, member of the decoded blob) in the hand model's `readSnap` -/
def perfReadsH : List (String × PCol × String) :=
  [("beatgrid", .beatData, "adjusted_beatgrid"), ("main_cue", .quickCues, "adjusted_main_cue"),
   ("average_loudness", .trackData, "average_loudness"), ("hot_cues", .quickCues, "hot_cues"),
   ("key", .trackData, "key"), ("loops", .loops, "loops"), ("sample_count", .trackData, "sample_count"),
   ("sample_rate", .trackData, "sample_rate"), ("waveform", .hires, "waveform")]

theorem snapshot_reads_eq_hand :
    sameSet snapTrackPairs ((trackReadsH .s1_18_0_os).map fun p => (p.1.member, p.2)) = true ∧
    sameSet snapPerfTriples (perfReadsH.map fun p => (p.1, p.2.1.member, p.2.2)) = true ∧
    snapTrackPairs.length + snapPerfTriples.length =
      (Gen.BindingsV1.snapshotReads.map (·.2.length)).sum - snapPerfTriples.length ∧
    Gen.BindingsV1.snapshotCalls =
      ["get_track", "get_all_meta_data", "get_all_meta_data_integer", "get_performance_data"] := by decide

end EngineModel.Proofs.BindingsV1
