/-
Laws of the cursor monad and run-lemmas for the combinators of
Impl/CursorCxx.lean, used to relate the generated decoders (Gen/ImplV2Gen.lean)
to the hand-written ones.
-/
import EngineModel.Impl.CursorCxx
import EngineModel.Format.V2
import Proofs.CursorLemmas
set_option linter.unusedSimpArgs false

namespace EngineModel
namespace Cur
open Codec

theorem pure_bind' {α β} (a : α) (f : α → Cur β) : (pure a >>= f) = f a := rfl

theorem bind_assoc' {α β γ} (m : Cur α) (f : α → Cur β) (g : β → Cur γ) :
    (m >>= f) >>= g = m >>= fun a => f a >>= g := by
  funext bs
  simp only [bind_run]
  cases m bs with
  | ok p => rfl
  | throw e => rfl
  | ub u => rfl

theorem bind_pure' {α} (m : Cur α) : (m >>= fun a => pure a) = m := by
  funext bs
  simp only [bind_run]
  cases m bs with
  | ok p => rfl
  | throw e => rfl
  | ub u => rfl

/-- Reading a pair is reading its components in order. -/
theorem rd_pair {α β} (c : Codec α) (d : Codec β) :
    rd (pair c d) = (rd c >>= fun a => rd d >>= fun b => pure (a, b)) := by
  funext bs
  simp only [rd, pair, bind_run]
  cases c.dec bs with
  | none => rfl
  | some p =>
    obtain ⟨a, r⟩ := p
    simp only []
    cases d.dec r with
    | none => rfl
    | some q => rfl

theorem rd_map {α β} (f : α → β) (g : β → α) (c : Codec α) :
    rd (map f g c) = (rd c >>= fun a => pure (f a)) := by
  funext bs
  simp only [rd, map, bind_run]
  cases c.dec bs with
  | none => rfl
  | some p => rfl

@[simp] theorem orElse_pure_run (a : Bool) (m : Cur Bool) (bs : Bytes) :
    orElse (pure a) m bs = if a then .ok (true, bs) else m bs := by
  cases a <;> rfl

@[simp] theorem andAlso_pure_run (a : Bool) (m : Cur Bool) (bs : Bytes) :
    andAlso (pure a) m bs = if a then m bs else .ok (false, bs) := by
  cases a <;> rfl

theorem chkI64_run {x : Int} (h1 : -9223372036854775808 ≤ x) (h2 : x ≤ 9223372036854775807) (bs : Bytes) :
    chkI64 x bs = .ok (x, bs) := by
  have : Cxx.inI64 x = true := by simp [Cxx.inI64, Cxx.i64Min, Cxx.i64Max, h1, h2]
  simp [chkI64, this]

theorem chkI32_run {x : Int} (h1 : -2147483648 ≤ x) (h2 : x ≤ 2147483647) (bs : Bytes) :
    chkI32 x bs = .ok (x, bs) := by
  have : Cxx.inI32 x = true := by simp [Cxx.inI32, Cxx.i32Min, Cxx.i32Max, h1, h2]
  simp [chkI32, this]

theorem reserve_run {n e : Nat} (h : n ≤ 9223372036854775807 / e) (bs : Bytes) :
    reserve n e bs = .ok ((), bs) := by
  have : ¬ (9223372036854775807 / e < n) := by omega
  simp [reserve, this]

/-- `s.assign(ptr, n); ptr += n;` is taking `n` bytes. -/
theorem peek_advance {β} (n : Nat) (f : Bytes → Cur β) :
    (peekN n >>= fun s => advance n >>= fun _ => f s) = (takeN n >>= f) := by
  funext bs
  simp only [bind_run, peekN, advance, takeN]
  by_cases h : n ≤ bs.length <;> simp [h]

theorem takeN_zero (bs : Bytes) : takeN 0 bs = .ok ([], bs) := by simp [takeN]

@[simp] theorem forCount_eq {α} (body : Cur α) (n : Int) : forCount body n = forN body n.toNat := rfl
@[simp] theorem forEach_eq {α} (body : Cur α) (n : Nat) : forEach body n = forN body n := rfl

end Cur

/-! ### integers -/

theorem s64_inj {a b : UInt64} : Prim.s64 a = Prim.s64 b ↔ a = b := by
  constructor
  · intro h
    have := congrArg Prim.u64OfInt h
    rwa [Prim.u64OfInt_s64, Prim.u64OfInt_s64] at this
  · intro h; rw [h]

theorem s64_toNat_of_nonneg {k : UInt64} (h : ¬ Prim.s64 k < 0) : (Prim.s64 k).toNat = k.toNat := by
  have := k.toNat_lt
  unfold Prim.s64 at *
  split at h <;> split <;> omega

theorem u64OfInt_s64_of_nonneg {k : UInt64} (h : ¬ Prim.s64 k < 0) : Cxx.u64OfInt (Prim.s64 k) = k.toNat := by
  have := k.toNat_lt
  unfold Prim.s64 at *
  unfold Cxx.u64OfInt Cxx.two64
  split at h
  · split
    · omega
    · omega
  · omega

end EngineModel
