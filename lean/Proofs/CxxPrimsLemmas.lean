/-
The C++ primitive readers / writers (Impl/CxxPrims.lean: shifts, masks and ors,
as in encode_decode_utils.hpp) agree with the Spec's primitive codecs
(Format/Codec.lean, Basic/Prim.lean: div / mod arithmetic): same byte order,
same widths, same composition of 64-bit values from 32-bit halves.
-/
import EngineModel.Impl.CxxPrims
import Proofs.CursorLemmas
set_option linter.unusedSimpArgs false

namespace EngineModel
namespace CxxPrims
open Codec Cur

theorem and255 (n : Nat) : n &&& 255 = n % 256 := Nat.and_two_pow_sub_one_eq_mod n 8

theorem or_mul_pow (x y k : Nat) (h : x < 2 ^ k) : x ||| y * 2 ^ k = y * 2 ^ k + x := by
  rw [Nat.or_comm, Nat.mul_comm, ← Nat.two_pow_add_eq_or_of_lt h]

theorem mul_pow_or (x y k : Nat) (h : x < 2 ^ k) : y * 2 ^ k ||| x = y * 2 ^ k + x := by
  rw [Nat.mul_comm, ← Nat.two_pow_add_eq_or_of_lt h]

theorem rd_pair' {α β} (c : Codec α) (d : Codec β) :
    rd (pair c d) = (rd c >>= fun a => rd d >>= fun b => pure (a, b)) := by
  funext bs
  simp only [rd, pair, bind_run]
  cases c.dec bs with
  | none => rfl
  | some p =>
    obtain ⟨a, r⟩ := p
    simp only []
    cases d.dec r with
    | none => rfl
    | some q => rfl

theorem rd_map' {α β} (f : α → β) (g : β → α) (c : Codec α) :
    rd (map f g c) = (rd c >>= fun a => pure (f a)) := by
  funext bs
  simp only [rd, map, bind_run]
  cases c.dec bs with
  | none => rfl
  | some p => rfl

/-! ### 32-bit values -/

theorem bytes_i32_le_eq (v : UInt32) : bytes_i32_le v = Prim.encU32LE v := by
  simp only [bytes_i32_le, Prim.encU32LE, List.cons.injEq, and_true]
  have h := v.toNat_lt
  refine ⟨?_, ?_, ?_, ?_⟩ <;> apply UInt8.toNat_inj.mp <;>
    simp [UInt32.toNat_and, UInt32.toNat_shiftRight, and255, Nat.shiftRight_eq_div_pow, Nat.toUInt8] <;> omega

theorem bytes_i32_be_eq (v : UInt32) : bytes_i32_be v = Prim.encU32BE v := by
  simp only [bytes_i32_be, Prim.encU32BE, List.cons.injEq, and_true]
  have h := v.toNat_lt
  refine ⟨?_, ?_, ?_, ?_⟩ <;> apply UInt8.toNat_inj.mp <;>
    simp [UInt32.toNat_and, UInt32.toNat_shiftRight, and255, Nat.shiftRight_eq_div_pow, Nat.toUInt8] <;> omega

theorem i32_of_le_eq (a b c d : UInt8) : i32_of_le a b c d = Prim.decU32LE a b c d := by
  simp only [i32_of_le, Prim.decU32LE, Prim.decU32BE]
  apply UInt32.toNat_inj.mp
  have ha := a.toNat_lt; have hb := b.toNat_lt; have hc := c.toNat_lt; have hd := d.toNat_lt
  simp [UInt32.toNat_or, UInt32.toNat_shiftLeft, Nat.shiftLeft_eq]
  rw [Nat.mod_eq_of_lt (by omega : b.toNat * 256 < 4294967296),
      Nat.mod_eq_of_lt (by omega : c.toNat * 65536 < 4294967296),
      Nat.mod_eq_of_lt (by omega : d.toNat * 16777216 < 4294967296)]
  have o1 : a.toNat ||| b.toNat * 256 = b.toNat * 256 + a.toNat := or_mul_pow _ _ 8 (by omega)
  have o2 : (b.toNat * 256 + a.toNat) ||| c.toNat * 65536 = c.toNat * 65536 + (b.toNat * 256 + a.toNat) :=
    or_mul_pow _ _ 16 (by omega)
  have o3 : (c.toNat * 65536 + (b.toNat * 256 + a.toNat)) ||| d.toNat * 16777216 =
      d.toNat * 16777216 + (c.toNat * 65536 + (b.toNat * 256 + a.toNat)) := or_mul_pow _ _ 24 (by omega)
  rw [o1, o2, o3]
  omega

theorem i32_of_be_eq (a b c d : UInt8) : i32_of_be a b c d = Prim.decU32BE a b c d := by
  simp only [i32_of_be, Prim.decU32BE]
  apply UInt32.toNat_inj.mp
  have ha := a.toNat_lt; have hb := b.toNat_lt; have hc := c.toNat_lt; have hd := d.toNat_lt
  simp [UInt32.toNat_or, UInt32.toNat_shiftLeft, Nat.shiftLeft_eq]
  rw [Nat.mod_eq_of_lt (by omega : a.toNat * 16777216 < 4294967296),
      Nat.mod_eq_of_lt (by omega : b.toNat * 65536 < 4294967296),
      Nat.mod_eq_of_lt (by omega : c.toNat * 256 < 4294967296)]
  have o1 : a.toNat * 16777216 ||| b.toNat * 65536 = (a.toNat * 256 + b.toNat) * 65536 := by
    have := mul_pow_or (b.toNat * 65536) a.toNat 24 (by omega)
    simp only [Nat.reducePow] at this
    rw [this]; omega
  have o2 : (a.toNat * 256 + b.toNat) * 65536 ||| c.toNat * 256 = ((a.toNat * 256 + b.toNat) * 256 + c.toNat) * 256 := by
    have := mul_pow_or (c.toNat * 256) (a.toNat * 256 + b.toNat) 16 (by omega)
    simp only [Nat.reducePow] at this
    rw [this]; omega
  have o3 : ((a.toNat * 256 + b.toNat) * 256 + c.toNat) * 256 ||| d.toNat =
      ((a.toNat * 256 + b.toNat) * 256 + c.toNat) * 256 + d.toNat := by
    have := mul_pow_or d.toNat ((a.toNat * 256 + b.toNat) * 256 + c.toNat) 8 (by omega)
    simpa only [Nat.reducePow] using this
  rw [o1, o2, o3]
  omega

/-! ### 64-bit values: two 32-bit halves -/

theorem i64_of_le_eq (e1 e2 : UInt32) : i64_of_le e1 e2 = Prim.join64 e2 e1 := by
  simp only [i64_of_le, Prim.join64]
  apply UInt64.toNat_inj.mp
  have h1 := e1.toNat_lt; have h2 := e2.toNat_lt
  simp [UInt64.toNat_or, UInt64.toNat_shiftLeft, Nat.shiftLeft_eq]
  rw [Nat.mod_eq_of_lt (by omega : e2.toNat * 4294967296 < 18446744073709551616)]
  have := or_mul_pow e1.toNat e2.toNat 32 (by omega)
  simp only [Nat.reducePow] at this
  rw [this]
  omega

theorem i64_of_be_eq (e1 e2 : UInt32) : i64_of_be e1 e2 = Prim.join64 e1 e2 := by
  simp only [i64_of_be, Prim.join64]
  apply UInt64.toNat_inj.mp
  have h1 := e1.toNat_lt; have h2 := e2.toNat_lt
  simp [UInt64.toNat_or, UInt64.toNat_shiftLeft, Nat.shiftLeft_eq]
  rw [Nat.mod_eq_of_lt (by omega : e1.toNat * 4294967296 < 18446744073709551616)]
  have := mul_pow_or e2.toNat e1.toNat 32 (by omega)
  simp only [Nat.reducePow] at this
  rw [this]
  omega

theorem toUInt32_eq_lo32 (v : UInt64) : v.toUInt32 = Prim.lo32 v := by
  apply UInt32.toNat_inj.mp
  simp [Prim.lo32, UInt32.toNat_ofNat]

theorem shr32_eq_hi32 (v : UInt64) : (v >>> 32).toUInt32 = Prim.hi32 v := by
  apply UInt32.toNat_inj.mp
  have h := v.toNat_lt
  simp [Prim.hi32, UInt32.toNat_ofNat, UInt64.toNat_shiftRight, Nat.shiftRight_eq_div_pow]

/-! ### writers = Spec encoders -/

theorem encode_uint8_eq (v : UInt8) : encode_uint8 v = u8.enc v := rfl
theorem encode_int32_le_eq (v : UInt32) : encode_int32_le v = u32le.enc v := bytes_i32_le_eq v
theorem encode_int32_be_eq (v : UInt32) : encode_int32_be v = u32be.enc v := bytes_i32_be_eq v
theorem encode_int64_le_eq (v : UInt64) : encode_int64_le v = u64le.enc v := by
  simp only [encode_int64_le, encode_int32_le, bytes_i32_le_eq, shr32_eq_hi32]
  simp only [toUInt32_eq_lo32]
  rfl
theorem encode_int64_be_eq (v : UInt64) : encode_int64_be v = u64be.enc v := by
  simp only [encode_int64_be, encode_int32_be, bytes_i32_be_eq, shr32_eq_hi32]
  simp only [toUInt32_eq_lo32]
  rfl
theorem encode_double_le_eq (v : UInt64) : encode_double_le v = u64le.enc v := encode_int64_le_eq v
theorem encode_double_be_eq (v : UInt64) : encode_double_be v = u64be.enc v := encode_int64_be_eq v

/-! ### readers = unchecked reads of the Spec decoders -/

theorem decode_uint8_eq : decode_uint8 = rd u8 := by
  funext bs
  cases bs <;> rfl

theorem decode_int32_le_eq : decode_int32_le = rd u32le := by
  funext bs
  match bs with
  | [] | [_] | [_, _] | [_, _, _] => rfl
  | a :: b :: c :: d :: r => simp [decode_int32_le, rd, u32le, i32_of_le_eq]

theorem decode_int32_be_eq : decode_int32_be = rd u32be := by
  funext bs
  match bs with
  | [] | [_] | [_, _] | [_, _, _] => rfl
  | a :: b :: c :: d :: r => simp [decode_int32_be, rd, u32be, i32_of_be_eq]

theorem decode_int64_le_eq : decode_int64_le = rd u64le := by
  unfold decode_int64_le u64le
  rw [decode_int32_le_eq, rd_map', rd_pair']
  funext bs
  simp only [bind_run]
  cases rd u32le bs with
  | ok p =>
    obtain ⟨a, r⟩ := p
    simp only []
    cases rd u32le r with
    | ok q => obtain ⟨b, r'⟩ := q; simp [i64_of_le_eq]
    | throw e => rfl
    | ub u => rfl
  | throw e => rfl
  | ub u => rfl

theorem decode_int64_be_eq : decode_int64_be = rd u64be := by
  unfold decode_int64_be u64be
  rw [decode_int32_be_eq, rd_map', rd_pair']
  funext bs
  simp only [bind_run]
  cases rd u32be bs with
  | ok p =>
    obtain ⟨a, r⟩ := p
    simp only []
    cases rd u32be r with
    | ok q => obtain ⟨b, r'⟩ := q; simp [i64_of_be_eq]
    | throw e => rfl
    | ub u => rfl
  | throw e => rfl
  | ub u => rfl

theorem decode_double_le_eq : decode_double_le = rd u64le := decode_int64_le_eq
theorem decode_double_be_eq : decode_double_be = rd u64be := decode_int64_be_eq

end CxxPrims
end EngineModel
