/-
The derived-columns invariant of the schema-2.x Track table is kept by every
public call of the statement-level model — whatever the call's outcome — and
implies the executable well-formedness predicate `Spec.tracksWf`.
-/
import Proofs.TracksV2Stmt

namespace EngineModel
namespace TracksV2

open Prim

theorem Res.bind_eq_ok {α β} {x : Res α} {f : α → Res β} {b : β} :
    x.bind f = .ok b ↔ ∃ a, x = .ok a ∧ f a = .ok b := by
  cases x <;> simp [Res.bind]

/-! ### what a setter does to the path and the columns derived from it -/

theorem applySetter_cols (ops : FOps) (σ : Setter) (r r' : Row) (h : applySetter ops σ r = .ok r') :
    (∃ p, σ = .relativePath p ∧ r'.path = p ∧ r'.filename = getFilename p ∧
        r'.fileType = (getFileExtension (getFilename p)).getD []) ∨
    (σ.newPath = none ∧ r'.path = r.path ∧ r'.filename = r.filename ∧ r'.fileType = r.fileType) := by
  cases σ <;> simp only [applySetter, Res.bind_eq_ok, Res.ok.injEq] at h
  case relativePath p => left; subst h; exact ⟨p, rfl, rfl, rfl, rfl⟩
  all_goals right
  all_goals first
    | (subst h; exact ⟨rfl, rfl, rfl, rfl⟩)
    | (obtain ⟨_, _, _, _, rfl⟩ := h; exact ⟨rfl, rfl, rfl, rfl⟩)
    | (obtain ⟨_, _, rfl⟩ := h; exact ⟨rfl, rfl, rfl, rfl⟩)

theorem applySetter_derived (ops : FOps) (σ : Setter) (r r' : Row) (h : applySetter ops σ r = .ok r')
    (hd : RowDerived r) : RowDerived r' := by
  rcases applySetter_cols ops σ r r' h with ⟨p, _, h1, h2, h3⟩ | ⟨_, h1, h2, h3⟩
  · unfold RowDerived; rw [h1, h2, h3]; exact ⟨rfl, rfl⟩
  · unfold RowDerived; rw [h1, h2, h3]; exact hd

/-- `snapshot_to_row` derives `filename` and `fileType` from the path -/
theorem writeStore_derived (ops : FOps) (s : Schema) (x : Snap) (r : Row) (h : writeStore ops s x = .ok r) :
    RowDerived r := by
  unfold writeStore at h
  rw [Res.bind_eq_ok] at h
  obtain ⟨r0, h0, h1⟩ := h
  have e : r.path = r0.path ∧ r.filename = r0.filename ∧ r.fileType = r0.fileType := by
    simp only [tablePut, Res.bind_eq_ok, Res.ok.injEq] at h1
    obtain ⟨_, _, _, _, rfl⟩ := h1
    exact ⟨rfl, rfl, rfl⟩
  unfold RowDerived
  rw [e.1, e.2.1, e.2.2]
  unfold writeSnap at h0
  cases hp : x.relativePath with
  | none => simp [hp] at h0
  | some path =>
    simp only [hp] at h0
    cases he : getFileExtension (getFilename path) with
    | none => simp [he] at h0
    | some ft =>
      simp only [he, Res.bind_eq_ok, Res.ok.injEq] at h0
      obtain ⟨_, _, _, _, _, _, rfl⟩ := h0
      exact ⟨rfl, by simp [he]⟩

/-! ### the calls -/

structure Inv (db : TDb) : Prop where
  s : SInv db
  d : DInv db

theorem inv_empty (uuid : Bytes) : Inv (TDb.empty uuid) := by
  refine ⟨⟨List.nodup_nil, ?_, ?_, ?_⟩, ?_⟩ <;> intro a ha <;> cases ha

theorem inv_atomicSet (ops : FOps) (id : Nat) (σ : Setter) {db : TDb} (h : Inv db) :
    Inv (atomicSet ops id σ db).1 := by
  unfold atomicSet
  cases hf : db.find id with
  | none => exact h
  | some t =>
    obtain ⟨ht, hid⟩ := find_mem hf
    simp only []
    cases ha : applySetter ops σ t.row with
    | throw e => exact h
    | ub u => exact h
    | ok r' =>
      simp only []
      cases hc : pathTaken' db id r'.path with
      | true => exact h
      | false =>
        simp only [Bool.false_eq_true, if_false]
        exact ⟨SInv_rep h.s ht r' (by rw [hid]; exact hc),
          DInv_rep h.d t r' (applySetter_derived ops σ _ _ ha (h.d t ht))⟩

theorem inv_callSet (ops : FOps) (id : Nat) (σ : Setter) {db : TDb} (h : Inv db) :
    Inv (callSet ops id σ db).1 := by
  rw [callSet_atomic ops id σ h.s]; exact inv_atomicSet ops id σ h

/-! #### create -/

theorem foldl_max_le (rows : List TRow) (m : Nat) (h : ∀ t ∈ rows, t.id ≤ m) :
    rows.foldl (fun a e => max a e.id) m = m := by
  induction rows generalizing m with
  | nil => rfl
  | cons x l ih =>
    simp only [List.foldl_cons]
    have : max m x.id = m := Nat.max_eq_left (h x (List.mem_cons_self ..))
    rw [this]
    exact ih m fun t ht => h t (List.mem_cons_of_mem _ ht)

theorem freshId_eq {db : TDb} (hs : SInv db) : db.freshId = db.seq + 1 := by
  unfold TDb.freshId
  rw [foldl_max_le _ _ fun t ht => (hs.pos t ht).2]

/-- the new row of a `create_track` -/
def TDb.created (db : TDb) (r : Row) : TRow := ⟨db.seq + 1, db.uuid, db.seq + 1, r⟩

/-- `INSERT` of a row with origin (uuid, 0) on a well-formed table: refused iff the
path is taken, otherwise the row is appended with the origin repaired by the trigger -/
theorem insertStmt_eq {db : TDb} (hs : SInv db) (r : Row) :
    db.insertStmt db.uuid 0 r =
      if pathTaken' db 0 r.path then .throw .sqlite_error
      else .ok ({ db with rows := db.rows ++ [db.created r], seq := db.seq + 1 }, db.seq + 1) := by
  unfold TDb.insertStmt
  rw [freshId_eq hs]
  have hne : ∀ e ∈ db.rows, e.id ≠ db.seq + 1 ∧ e.id ≠ 0 := fun e he => by
    have := hs.pos e he; omega
  have hor : ∀ e ∈ db.rows, e.originId = e.id := fun e he => (hs.origin e he).2
  have c1 : conflicts db.rows ⟨db.seq + 1, db.uuid, 0, r⟩ = pathTaken' db 0 r.path := by
    unfold conflicts pathTaken'
    apply any_congr'
    intro e he
    have h1 : (e.id != db.seq + 1) = true := by simpa using (hne e he).1
    have h2 : (e.id != 0) = true := by simpa using (hne e he).2
    have h3 : (e.originId == 0) = false := by rw [hor e he]; simpa using (hne e he).2
    simp [h1, h2, h3]
  simp only [c1]
  cases hc : pathTaken' db 0 r.path with
  | true => simp
  | false =>
    simp only [Bool.false_eq_true, if_false]
    unfold fixOrigin needsOriginFix
    simp only [beq_self_eq_true, Bool.true_or, if_true]
    have c2 : conflicts (db.rows ++ [⟨db.seq + 1, db.uuid, 0, r⟩]) ⟨db.seq + 1, db.uuid, db.seq + 1, r⟩ = false := by
      unfold conflicts
      rw [List.any_eq_false]
      intro e he
      simp only [List.mem_append, List.mem_singleton] at he
      rcases he with he | rfl
      · have h1 : (e.id != db.seq + 1) = true := by simpa using (hne e he).1
        have h3 : (e.originId == db.seq + 1) = false := by rw [hor e he]; simpa using (hne e he).1
        have h4 : (e.row.path == r.path) = false := by
          unfold pathTaken' at hc
          rw [List.any_eq_false] at hc
          have := hc e he
          have h2 : (e.id != 0) = true := by simpa using (hne e he).2
          simpa [h2] using this
        simp [h1, h3, h4]
      · simp
    simp only [c2, Bool.false_eq_true, if_false, Res.bind]
    have c3 : replaceRow (db.rows ++ [⟨db.seq + 1, db.uuid, 0, r⟩]) ⟨db.seq + 1, db.uuid, db.seq + 1, r⟩ =
        db.rows ++ [db.created r] := by
      unfold replaceRow
      rw [List.map_append]
      congr 1
      · conv => rhs; rw [← List.map_id db.rows]
        apply List.map_congr_left
        intro e he
        have : (e.id == db.seq + 1) = false := by simpa using (hne e he).1
        simp [this]
      · simp [TDb.created]
    rw [c3]

theorem inv_callCreate (ops : FOps) (s : Schema) (x : Snap) {db : TDb} (h : Inv db) :
    Inv (callCreate ops s x db).1 := by
  unfold callCreate
  rw [M.lift_bind]
  cases hw : writeStore ops s x with
  | throw e => exact h
  | ub u => exact h
  | ok r =>
    simp only []
    unfold M.stmt
    simp only [insertStmt_eq h.s]
    cases hc : pathTaken' db 0 r.path with
    | true => exact h
    | false =>
      simp only [Bool.false_eq_true, if_false]
      have hfree : ∀ e ∈ db.rows, e.row.path ≠ r.path := by
        intro e he hp
        unfold pathTaken' at hc
        rw [List.any_eq_false] at hc
        have := hc e he
        have h0 : e.id ≠ 0 := by have := h.s.pos e he; omega
        simp [h0, hp] at this
      refine ⟨⟨?_, ?_, ?_, ?_⟩, ?_⟩
      · show ((db.rows ++ [db.created r]).map (·.id)).Nodup
        rw [List.map_append, List.nodup_append]
        refine ⟨h.s.ids, by simp, ?_⟩
        intro a ha b hb
        simp only [List.map_cons, List.map_nil, List.mem_singleton] at hb
        subst hb
        obtain ⟨e, he, rfl⟩ := List.mem_map.mp ha
        have := h.s.pos e he
        show e.id ≠ db.seq + 1
        omega
      · intro a ha b hb hp
        simp only [List.mem_append, List.mem_singleton] at ha hb
        rcases ha with ha | rfl <;> rcases hb with hb | rfl
        · exact h.s.paths a ha b hb hp
        · exact absurd hp (hfree a ha)
        · exact absurd hp.symm (hfree b hb)
        · rfl
      · intro t ht
        simp only [List.mem_append, List.mem_singleton] at ht
        rcases ht with ht | rfl
        · exact h.s.origin t ht
        · exact ⟨rfl, rfl⟩
      · intro t ht
        simp only [List.mem_append, List.mem_singleton] at ht
        rcases ht with ht | rfl
        · have := h.s.pos t ht; exact ⟨this.1, by show t.id ≤ db.seq + 1; omega⟩
        · exact ⟨by show 1 ≤ db.seq + 1; omega, Nat.le_refl _⟩
      · intro t ht
        simp only [List.mem_append, List.mem_singleton] at ht
        rcases ht with ht | rfl
        · exact h.d t ht
        · exact writeStore_derived ops s x r hw

/-! #### update -/

/-- the whole-row `UPDATE` of `track_table::update` (origin columns written as
(uuid, 0) and repaired by the trigger) on a row that exists -/
theorem updateStmt_whole {db : TDb} (hs : SInv db) {id : Nat} {t : TRow} (hf : db.find id = some t) (r : Row) :
    db.updateStmt id (fun x => { x with row := r, originUuid := db.uuid, originId := 0 }) =
      if pathTaken' db id r.path then .throw .sqlite_error else .ok (db.rep t r, 1) := by
  obtain ⟨ht, hid⟩ := find_mem hf
  subst hid
  obtain ⟨ho1, ho2⟩ := hs.origin t ht
  have hpos := (hs.pos t ht).1
  unfold TDb.updateStmt
  simp only [hf, bne_self_eq_false, Bool.false_eq_true, if_false]
  have c1 : conflicts db.rows ⟨t.id, db.uuid, 0, r⟩ = pathTaken' db t.id r.path := by
    unfold conflicts pathTaken'
    apply any_congr'
    intro e he
    have h3 : (e.originId == 0) = false := by
      rw [(hs.origin e he).2]; have := (hs.pos e he).1; simpa using (by omega : e.id ≠ 0)
    simp [h3]
  rw [c1]
  cases hc : pathTaken' db t.id r.path with
  | true => simp
  | false =>
    simp only [Bool.false_eq_true, if_false]
    unfold fixOrigin needsOriginFix
    simp only [beq_self_eq_true, Bool.true_or, if_true]
    have e : (⟨t.id, db.uuid, t.id, r⟩ : TRow) = { t with row := r } := by
      cases t; simp_all
    simp only [e]
    rw [conflicts_replace db.rows ⟨t.id, db.uuid, 0, r⟩ { t with row := r } rfl, conflicts_row hs ht, hc]
    simp only [Bool.false_eq_true, if_false, Res.bind]
    rw [replace_replace db.rows ⟨t.id, db.uuid, 0, r⟩ { t with row := r } rfl]
    rfl

theorem inv_callUpdate (ops : FOps) (s : Schema) (id : Nat) (x : Snap) {db : TDb} (h : Inv db) :
    Inv (callUpdate ops s id x db).1 := by
  unfold callUpdate
  rw [M.lift_bind]
  cases hw : writeStore ops s x with
  | throw e => exact h
  | ub u => exact h
  | ok r =>
    simp only []
    rw [M.bind_apply]
    unfold M.stmt
    cases hf : db.find id with
    | none => simp only [updateStmt_none hf]; exact h
    | some t =>
      obtain ⟨ht, hid⟩ := find_mem hf
      simp only [updateStmt_whole h.s hf]
      cases hc : pathTaken' db id r.path with
      | true => exact h
      | false =>
        simp only [Bool.false_eq_true, if_false]
        exact ⟨SInv_rep h.s ht r (by rw [hid]; exact hc), DInv_rep h.d t r (writeStore_derived ops s x r hw)⟩

/-! #### remove -/

theorem inv_filter {db : TDb} (h : Inv db) (p : TRow → Bool) : Inv { db with rows := db.rows.filter p } := by
  have sub : ∀ t, t ∈ db.rows.filter p → t ∈ db.rows := fun t ht => (List.mem_filter.mp ht).1
  refine ⟨⟨?_, ?_, ?_, ?_⟩, ?_⟩
  · show ((db.rows.filter p).map (·.id)).Nodup
    exact List.Nodup.sublist (List.Sublist.map _ List.filter_sublist) h.s.ids
  · intro a ha b hb; exact h.s.paths a (sub a ha) b (sub b hb)
  · intro t ht; exact h.s.origin t (sub t ht)
  · intro t ht; exact h.s.pos t (sub t ht)
  · intro t ht; exact h.d t (sub t ht)

theorem callRemove_eq (id : Nat) (db : TDb) :
    callRemove id db =
      if (db.rows.filter fun e => e.id == id).length = 0 then (db, .throw .invalid_argument)
      else ({ db with rows := db.rows.filter fun e => !(e.id == id) }, .ok ()) := by
  unfold callRemove M.transaction
  rw [M.bind_apply]
  unfold M.stmt TDb.deleteStmt
  simp only []
  by_cases hz : (db.rows.filter fun e => e.id == id).length = 0
  · simp only [hz, if_true]; rfl
  · simp only [hz, if_false]; rfl

theorem inv_callRemove (id : Nat) {db : TDb} (h : Inv db) : Inv (callRemove id db).1 := by
  rw [callRemove_eq]
  split
  · exact h
  · exact inv_filter h _

theorem fst_bind_pure {α β} (m : M α) (b : β) (db : TDb) :
    ((m >>= fun _ => (pure b : M β)) db).1 = (m db).1 := by
  rw [M.bind_apply]
  rcases m db with ⟨db', r⟩
  cases r <;> rfl

/-! ### every reachable state -/

theorem inv_step (ops : FOps) (s : Schema) (op : TOp) {db : TDb} (h : Inv db) : Inv (db.step ops s op).1 := by
  cases op with
  | create x => exact inv_callCreate ops s x h
  | update id x =>
    show Inv ((callUpdate ops s id x >>= fun _ => (pure 0 : M Nat)) db).1
    rw [fst_bind_pure]; exact inv_callUpdate ops s id x h
  | set id σ =>
    show Inv ((callSet ops id σ >>= fun _ => (pure 0 : M Nat)) db).1
    rw [fst_bind_pure]; exact inv_callSet ops id σ h
  | remove id =>
    show Inv ((callRemove id >>= fun _ => (pure 0 : M Nat)) db).1
    rw [fst_bind_pure]; exact inv_callRemove id h

theorem inv_run (ops : FOps) (s : Schema) (hist : List TOp) {db : TDb} (h : Inv db) : Inv (db.run ops s hist) := by
  induction hist generalizing db with
  | nil => exact h
  | cons op t ih => exact ih (inv_step ops s op h)

/-! ### the executable predicate -/

theorem takeWhile_append_all {α} (p : α → Bool) (a b : List α) :
    (a ++ b).takeWhile p = if a.all p then a ++ b.takeWhile p else a.takeWhile p := by
  induction a with
  | nil => simp
  | cons x t ih =>
    simp only [List.cons_append, List.takeWhile_cons, List.all_cons, ih]
    cases hx : p x <;> cases ht : t.all p <;> simp

theorem takeWhile_all {α} (p : α → Bool) (l : List α) (h : l.all p = true) : l.takeWhile p = l := by
  induction l with
  | nil => rfl
  | cons x t ih =>
    simp only [List.all_cons, Bool.and_eq_true] at h
    simp [List.takeWhile_cons, h.1, ih h.2]

theorem all_takeWhile {α} (p : α → Bool) (l : List α) : (l.takeWhile p).all p = true := by
  induction l with
  | nil => rfl
  | cons x t ih =>
    simp only [List.takeWhile_cons]
    cases hx : p x <;> simp [hx, ih]

/-- what follows the last `c` of `l`, the Spec's way -/
def suffixAfter (c : UInt8) (l : Bytes) : Bytes := (l.reverse.takeWhile (· != c)).reverse

theorem suffixAfter_cons (c x : UInt8) (l : Bytes) :
    suffixAfter c (x :: l) = if l.all (· != c) then (if x != c then x :: l else l) else suffixAfter c l := by
  unfold suffixAfter
  rw [List.reverse_cons, takeWhile_append_all]
  simp only [List.all_reverse]
  split
  · by_cases hx : x = c
    · simp [hx]
    · have : (x != c) = true := by simpa using hx
      simp [this]
  · rfl

theorem afterLast_eq (c : UInt8) (l : Bytes) :
    afterLast c l = if l.all (· != c) then none else some (suffixAfter c l) := by
  induction l with
  | nil => rfl
  | cons x t ih =>
    unfold afterLast
    rw [ih, suffixAfter_cons]
    simp only [List.all_cons]
    by_cases ht : t.all (· != c) = true
    · by_cases hx : x = c
      · simp [ht, hx]
      · have : (x != c) = true := by simpa using hx
        simp [ht, hx, this]
    · simp [ht]

theorem suffixAfter_none (c : UInt8) (l : Bytes) (h : l.all (· != c) = true) : suffixAfter c l = l := by
  unfold suffixAfter
  have : l.reverse.takeWhile (· != c) = l.reverse := takeWhile_all _ _ (by rw [List.all_reverse]; exact h)
  rw [this, List.reverse_reverse]

theorem fileNameOf_eq (p : Bytes) : Spec.fileNameOf p = getFilename p := by
  unfold Spec.fileNameOf getFilename
  rw [afterLast_eq]
  by_cases h : p.all (· != 47) = true
  · simp only [h, if_true, Option.getD_none]; exact suffixAfter_none 47 p h
  · simp only [h]; rfl

theorem suffixAfter_no (c : UInt8) (l : Bytes) : (suffixAfter c l).all (· != c) = true := by
  unfold suffixAfter
  rw [List.all_reverse]
  exact all_takeWhile _ _

theorem getFilename_idem (p : Bytes) : getFilename (getFilename p) = getFilename p := by
  have h : (getFilename p).all (· != 47) = true := by
    unfold getFilename
    rw [afterLast_eq]
    by_cases h : p.all (· != 47) = true
    · simpa [h] using h
    · simp only [h]; exact suffixAfter_no 47 p
  unfold getFilename at h ⊢
  rw [afterLast_eq (l := (afterLast 47 p).getD p)]
  simp [h]

theorem contains_iff_not_all (l : Bytes) (c : UInt8) : l.contains c = !(l.all (· != c)) := by
  induction l with
  | nil => rfl
  | cons x t ih =>
    simp only [List.contains_cons, List.all_cons, ih]
    by_cases h : x = c
    · simp [h]
    · have h1 : (c == x) = false := by simpa using fun e => h e.symm
      have h2 : (x != c) = true := by simpa using h
      simp [h1, h2]

theorem fileTypeOf_eq (p : Bytes) : Spec.fileTypeOf p = (getFileExtension (getFilename p)).getD [] := by
  unfold Spec.fileTypeOf getFileExtension
  simp only [fileNameOf_eq, getFilename_idem]
  rw [afterLast_eq, contains_iff_not_all]
  by_cases h : (getFilename p).all (· != 46) = true
  · simp [h]
  · simp only [h]; rfl

theorem distinctBy_of {α β} [BEq β] [LawfulBEq β] (f : α → β) (l : List α)
    (h : (l.map f).Nodup) : Spec.distinctBy f l = true := by
  induction l with
  | nil => rfl
  | cons a t ih =>
    simp only [List.map_cons, List.nodup_cons] at h
    unfold Spec.distinctBy
    simp only [Bool.and_eq_true, Bool.not_eq_true', List.any_eq_false]
    refine ⟨?_, ih h.2⟩
    intro b hb
    have : f b ≠ f a := fun e => h.1 (e ▸ List.mem_map_of_mem hb)
    simpa using this

theorem paths_nodup {db : TDb} (hs : SInv db) : (db.rows.map (·.row.path)).Nodup := by
  have key : ∀ (rows : List TRow), (rows.map (·.id)).Nodup →
      (∀ a ∈ rows, ∀ b ∈ rows, a.row.path = b.row.path → a.id = b.id) → (rows.map (·.row.path)).Nodup := by
    intro rows
    induction rows with
    | nil => intros; exact List.nodup_nil
    | cons x l ih =>
      intro hn hp
      simp only [List.map_cons, List.nodup_cons] at hn ⊢
      refine ⟨?_, ih hn.2 fun a ha b hb => hp a (List.mem_cons_of_mem _ ha) b (List.mem_cons_of_mem _ hb)⟩
      intro hm
      obtain ⟨e, he, hpe⟩ := List.mem_map.mp hm
      have := hp e (List.mem_cons_of_mem _ he) x (List.mem_cons_self ..) hpe
      exact hn.1 (this ▸ List.mem_map_of_mem he)
  exact key db.rows hs.ids hs.paths

/-- the invariant implies the executable Spec predicate -/
theorem tracksWf_of_inv {db : TDb} (h : Inv db) : Spec.tracksWf db = true := by
  unfold Spec.tracksWf
  simp only [Bool.and_eq_true, List.all_eq_true, decide_eq_true_eq]
  refine ⟨⟨⟨?_, distinctBy_of _ _ h.s.ids⟩, distinctBy_of _ _ (paths_nodup h.s)⟩, fun t ht => h.s.pos t ht⟩
  intro t ht
  obtain ⟨h1, h2⟩ := h.d t ht
  obtain ⟨h3, h4⟩ := h.s.origin t ht
  unfold Spec.derivedOk
  rw [fileNameOf_eq, fileTypeOf_eq, h1, h2, h3, h4, h1]
  simp

/-! ### the executable predicate is the invariant (so the theorems start from any table that passes the check) -/

theorem nodup_of_distinctBy {α β} [BEq β] [LawfulBEq β] (f : α → β) (l : List α)
    (h : Spec.distinctBy f l = true) : (l.map f).Nodup := by
  induction l with
  | nil => exact List.nodup_nil
  | cons a t ih =>
    unfold Spec.distinctBy at h
    simp only [Bool.and_eq_true, Bool.not_eq_true', List.any_eq_false] at h
    simp only [List.map_cons, List.nodup_cons]
    refine ⟨?_, ih h.2⟩
    intro hm
    obtain ⟨b, hb, hfb⟩ := List.mem_map.mp hm
    have := h.1 b hb
    simp [hfb] at this

theorem eq_of_nodup_map {α β} (f : α → β) (l : List α) (h : (l.map f).Nodup) {a b : α} (ha : a ∈ l) (hb : b ∈ l)
    (hab : f a = f b) : a = b := by
  induction l with
  | nil => cases ha
  | cons x t ih =>
    simp only [List.map_cons, List.nodup_cons, List.mem_map, not_exists, not_and] at h
    simp only [List.mem_cons] at ha hb
    rcases ha with rfl | ha <;> rcases hb with rfl | hb
    · rfl
    · exact absurd hab.symm (h.1 b hb)
    · exact absurd hab (h.1 a ha)
    · exact ih h.2 ha hb

theorem inv_of_tracksWf {db : TDb} (h : Spec.tracksWf db = true) : Inv db := by
  unfold Spec.tracksWf at h
  simp only [Bool.and_eq_true, List.all_eq_true, decide_eq_true_eq] at h
  obtain ⟨⟨⟨hd, hi⟩, hp⟩, hpos⟩ := h
  have hids := nodup_of_distinctBy _ _ hi
  have hpaths := nodup_of_distinctBy _ _ hp
  have hrow : ∀ t ∈ db.rows, t.row.filename = Spec.fileNameOf t.row.path ∧ t.row.fileType = Spec.fileTypeOf t.row.path ∧
      t.originUuid = db.uuid ∧ t.originId = t.id := by
    intro t ht
    have := hd t ht
    unfold Spec.derivedOk at this
    simp only [Bool.and_eq_true, beq_iff_eq] at this
    exact ⟨this.1.1.1, this.1.1.2, this.1.2, this.2⟩
  refine ⟨⟨hids, ?_, fun t ht => ⟨(hrow t ht).2.2.1, (hrow t ht).2.2.2⟩, hpos⟩, ?_⟩
  · intro a ha b hb hab
    have : a = b := eq_of_nodup_map _ _ hpaths ha hb hab
    rw [this]
  · intro t ht
    obtain ⟨h1, h2, _, _⟩ := hrow t ht
    rw [fileNameOf_eq] at h1
    rw [fileTypeOf_eq] at h2
    exact ⟨h1, by rw [h2, h1]⟩

theorem tracksWf_iff_inv (db : TDb) : Spec.tracksWf db = true ↔ Inv db :=
  ⟨inv_of_tracksWf, tracksWf_of_inv⟩

/-! ### a call that does not return normally leaves the table as it was -/

theorem snd_bind_pure_ok {α β} (m : M α) (b : β) (db : TDb) :
    (∃ v, ((m >>= fun _ => (pure b : M β)) db).2 = .ok v) ↔ ∃ a, (m db).2 = .ok a := by
  rw [M.bind_apply]
  rcases m db with ⟨db', r⟩
  cases r with
  | ok a => exact ⟨fun _ => ⟨a, rfl⟩, fun _ => ⟨b, rfl⟩⟩
  | throw e => simp
  | ub u => simp

theorem atomicSet_failed (ops : FOps) (id : Nat) (σ : Setter) (db : TDb)
    (h : ¬ ∃ a, (atomicSet ops id σ db).2 = .ok a) : (atomicSet ops id σ db).1 = db := by
  unfold atomicSet at h ⊢
  cases hf : db.find id with
  | none => rfl
  | some t =>
    simp only [hf] at h ⊢
    cases ha : applySetter ops σ t.row with
    | throw e => rfl
    | ub u => rfl
    | ok r' =>
      simp only [ha] at h ⊢
      cases hc : pathTaken' db id r'.path with
      | true => rfl
      | false => simp [hc] at h

theorem callCreate_failed (ops : FOps) (s : Schema) (x : Snap) {db : TDb} (hs : SInv db)
    (h : ¬ ∃ a, (callCreate ops s x db).2 = .ok a) : (callCreate ops s x db).1 = db := by
  unfold callCreate at h ⊢
  rw [M.lift_bind] at h ⊢
  cases hw : writeStore ops s x with
  | throw e => rfl
  | ub u => rfl
  | ok r =>
    simp only [hw] at h ⊢
    unfold M.stmt at h ⊢
    simp only [insertStmt_eq hs] at h ⊢
    cases hc : pathTaken' db 0 r.path with
    | true => rfl
    | false => simp [hc] at h

theorem callUpdate_failed (ops : FOps) (s : Schema) (id : Nat) (x : Snap) {db : TDb} (hs : SInv db)
    (h : ¬ ∃ a, (callUpdate ops s id x db).2 = .ok a) : (callUpdate ops s id x db).1 = db := by
  unfold callUpdate at h ⊢
  rw [M.lift_bind] at h ⊢
  cases hw : writeStore ops s x with
  | throw e => rfl
  | ub u => rfl
  | ok r =>
    simp only [hw] at h ⊢
    rw [M.bind_apply] at h ⊢
    unfold M.stmt at h ⊢
    cases hf : db.find id with
    | none => simp only [updateStmt_none hf]; rfl
    | some t =>
      simp only [updateStmt_whole hs hf] at h ⊢
      cases hc : pathTaken' db id r.path with
      | true => rfl
      | false =>
        simp only [hc, Bool.false_eq_true, if_false, not_exists] at h
        exact absurd rfl (h ())

theorem callRemove_failed (id : Nat) (db : TDb) (h : ¬ ∃ a, (callRemove id db).2 = .ok a) :
    (callRemove id db).1 = db := by
  rw [callRemove_eq] at h ⊢
  split
  · rfl
  · rename_i hz; simp [hz] at h

theorem step_failed_unchanged (ops : FOps) (s : Schema) (op : TOp) {db : TDb} (hs : SInv db)
    (h : ¬ ∃ v, (db.step ops s op).2 = .ok v) : (db.step ops s op).1 = db := by
  cases op with
  | create x => exact callCreate_failed ops s x hs h
  | update id x =>
    show ((callUpdate ops s id x >>= fun _ => (pure 0 : M Nat)) db).1 = db
    rw [fst_bind_pure]
    exact callUpdate_failed ops s id x hs fun hh => h ((snd_bind_pure_ok _ _ _).mpr hh)
  | set id σ =>
    show ((callSet ops id σ >>= fun _ => (pure 0 : M Nat)) db).1 = db
    rw [fst_bind_pure, callSet_atomic ops id σ hs]
    refine atomicSet_failed ops id σ db fun hh => h ((snd_bind_pure_ok _ _ _).mpr ?_)
    rw [callSet_atomic ops id σ hs]; exact hh
  | remove id =>
    show ((callRemove id >>= fun _ => (pure 0 : M Nat)) db).1 = db
    rw [fst_bind_pure]
    exact callRemove_failed id db fun hh => h ((snd_bind_pure_ok _ _ _).mpr hh)

/-! ### the Spec's "file name" and "file type", characterised -/

theorem suffixAfter_split (c : UInt8) (l : Bytes) :
    suffixAfter c l = l ∨ ∃ pre, l = pre ++ c :: suffixAfter c l := by
  induction l with
  | nil => left; rfl
  | cons x t ih =>
    rw [suffixAfter_cons]
    by_cases ht : t.all (· != c) = true
    · simp only [ht, if_true]
      by_cases hx : x = c
      · right; subst hx; exact ⟨[], by simp⟩
      · left; have : (x != c) = true := by simpa using hx
        simp [this]
    · simp only [ht]
      right
      rcases ih with h | ⟨pre, h⟩
      · exact absurd (h ▸ suffixAfter_no c t) ht
      · refine ⟨x :: pre, ?_⟩
        simp only [Bool.false_eq_true, if_false, List.cons_append]
        rw [← h]

/-! ### no call touches `Information.uuid` -/

theorem atomicSet_uuid (ops : FOps) (id : Nat) (σ : Setter) (db : TDb) : (atomicSet ops id σ db).1.uuid = db.uuid := by
  unfold atomicSet
  cases db.find id with
  | none => rfl
  | some t =>
    simp only []
    cases applySetter ops σ t.row with
    | throw e => rfl
    | ub u => rfl
    | ok r' => simp only []; split <;> rfl

theorem step_uuid (ops : FOps) (s : Schema) (op : TOp) {db : TDb} (hs : SInv db) :
    (db.step ops s op).1.uuid = db.uuid := by
  cases op with
  | create x =>
    show (callCreate ops s x db).1.uuid = db.uuid
    unfold callCreate
    rw [M.lift_bind]
    cases writeStore ops s x with
    | throw e => rfl
    | ub u => rfl
    | ok r =>
      simp only []
      unfold M.stmt
      simp only [insertStmt_eq hs]
      cases pathTaken' db 0 r.path <;> rfl
  | update id x =>
    show ((callUpdate ops s id x >>= fun _ => (pure 0 : M Nat)) db).1.uuid = db.uuid
    rw [fst_bind_pure]
    unfold callUpdate
    rw [M.lift_bind]
    cases writeStore ops s x with
    | throw e => rfl
    | ub u => rfl
    | ok r =>
      simp only []
      rw [M.bind_apply]
      unfold M.stmt
      cases hf : db.find id with
      | none => simp only [updateStmt_none hf]; rfl
      | some t =>
        simp only [updateStmt_whole hs hf]
        cases pathTaken' db id r.path <;> rfl
  | set id σ =>
    show ((callSet ops id σ >>= fun _ => (pure 0 : M Nat)) db).1.uuid = db.uuid
    rw [fst_bind_pure, callSet_atomic ops id σ hs]
    exact atomicSet_uuid ops id σ db
  | remove id =>
    show ((callRemove id >>= fun _ => (pure 0 : M Nat)) db).1.uuid = db.uuid
    rw [fst_bind_pure, callRemove_eq]
    split <;> rfl

theorem run_uuid (ops : FOps) (s : Schema) (hist : List TOp) {db : TDb} (h : Inv db) :
    (db.run ops s hist).uuid = db.uuid := by
  induction hist generalizing db with
  | nil => rfl
  | cons op t ih =>
    show ((db.step ops s op).1.run ops s t).uuid = db.uuid
    rw [ih (inv_step ops s op h), step_uuid ops s op h.s]

end TracksV2
end EngineModel
