/-
Agreement of the Model's schema-1.x quick-cue and loop codecs with the Spec
(`Format/V1.lean`): the wire formats are the 2.x ones (`V2.cuesRaw`,
`V2.loops`), the 1.x decoders add the "offset −1.0 = empty slot" reading, a
flag check and the no-trailing-data check; the encoders the non-empty-label
rule, the 8-slot sizing and the fixed-size buffer.
-/
import Proofs.ImplV1
set_option linter.unusedSimpArgs false
set_option linter.unusedVariables false

namespace EngineModel
namespace V1Proofs
open Codec Cur Impl.V2

/-- A loop whose body post-processes each element is the plain loop, mapped. -/
theorem forN_map {α β} (m : Cur α) (f : α → β) : ∀ (n : Nat) (bs : Bytes),
    forN (m >>= fun a => pure (f a)) n bs =
      match forN m n bs with
      | .ok (l, r) => .ok (l.map f, r)
      | .throw e => .throw e
      | .ub u => .ub u := by
  intro n
  induction n with
  | zero => intro bs; rfl
  | succ n ih =>
    intro bs
    simp only [forN, bind_run]
    cases h : m bs with
    | ok p =>
      obtain ⟨a, r⟩ := p
      simp only [pure_run, ih r]
      cases h2 : forN m n r with
      | ok q => obtain ⟨l, r'⟩ := q; simp
      | throw e => simp
      | ub u => simp
    | throw e => simp
    | ub u => simp

/-! ### loops: decoder -/

theorem decodeLoop_eq : Impl.V1.decodeLoop = (Impl.V2.decodeLoop >>= fun l => pure (V1.loopOfWire l)) := rfl

/-- The 1.x loops decoder is the 2.x one followed by the empty-slot reading and
the rejection of trailing data. -/
theorem decodeLoops_via (bs : Bytes) : Impl.V1.decodeLoops bs =
    match Impl.V2.decodeLoops bs with
    | .ok (ls, extra) => if extra.length = 0 then .ok (ls.map V1.loopOfWire) else .throw .invalid_argument
    | .throw e => .throw e
    | .ub u => .ub u := by
  unfold Impl.V1.decodeLoops Impl.V2.decodeLoops
  by_cases h8 : bs.length < 8
  · simp [h8]
  · have h8' : 8 ≤ bs.length := by omega
    simp only [h8, if_false, bind_run, rd_u64le_run h8', remaining_run]
    generalize u64le.get bs = k
    split
    · simp only [throwC_run, Res.bind]
    · simp only [bind_run, decodeLoop_eq]
      rw [forN_map]
      cases hf : forN Impl.V2.decodeLoop k.toNat (bs.drop 8) with
      | ok p =>
        obtain ⟨l, r⟩ := p
        by_cases hr : r.length = 0 <;> simp [hr, Res.bind]
      | throw e => simp [Res.bind]
      | ub u => simp [Res.bind]

theorem decodeLoops_eq (bs : Bytes) : Impl.V1.decodeLoops bs = ofOpt (V1.decodeLoops bs) := by
  rw [decodeLoops_via, Impl.V2.decodeLoops_eq]
  unfold V1.decodeLoops liftDec
  cases hd : V2.loops.dec bs with
  | none => rfl
  | some p =>
    obtain ⟨ws, r⟩ := p
    cases r with
    | nil => rfl
    | cons x r => rfl

/-! ### loops: encoder -/

theorem encodeLoopSlot_ok (s : Option Impl.V1.LoopV) (h : V1.loopSlotOk s = true) :
    Impl.V1.encodeLoopSlot s = .ok (V2.loop.enc (V1.loopToWire s)) := by
  cases s with
  | none => rfl
  | some l =>
    simp only [V1.loopSlotOk, decide_eq_true_eq] at h
    have h1 : ¬ l.label.length = 0 := by omega
    have h2 : ¬ 255 < l.label.length := by omega
    simp only [Impl.V1.encodeLoopSlot, h1, h2, if_false, V1.loopToWire]
    simp [V2.loop, map, pair, u8, List.append_assoc]

theorem encodeLoopSlot_bad (s : Option Impl.V1.LoopV) (h : V1.loopSlotOk s = false) :
    ∃ e, Impl.V1.encodeLoopSlot s = .throw e := by
  cases s with
  | none => simp [V1.loopSlotOk] at h
  | some l =>
    simp only [V1.loopSlotOk, decide_eq_false_iff_not] at h
    by_cases h1 : l.label.length = 0
    · exact ⟨.logic_error, by simp [Impl.V1.encodeLoopSlot, h1]⟩
    · have h2 : 255 < l.label.length := by omega
      exact ⟨.invalid_argument, by simp [Impl.V1.encodeLoopSlot, h1, h2]⟩

theorem encodeSlots_ok {α β} (f : α → Res Bytes) (c : Codec β) (g : α → β) (ok : α → Bool)
    (hf : ∀ a, ok a = true → f a = .ok (c.enc (g a))) :
    ∀ l : List α, l.all ok = true → Impl.V1.encodeSlots f l = .ok (encL c (l.map g)) := by
  intro l
  induction l with
  | nil => intro _; rfl
  | cons a l ih =>
    intro h
    simp only [List.all_cons, Bool.and_eq_true] at h
    simp only [Impl.V1.encodeSlots, hf a h.1, ih h.2, List.map_cons, encL]

theorem encodeSlots_bad {α} (f : α → Res Bytes) (ok : α → Bool)
    (hok : ∀ a, ok a = true → ∃ b, f a = .ok b)
    (hbad : ∀ a, ok a = false → ∃ e, f a = .throw e) :
    ∀ l : List α, l.all ok = false → ∃ e, Impl.V1.encodeSlots f l = .throw e := by
  intro l
  induction l with
  | nil => intro h; simp at h
  | cons a l ih =>
    intro h
    cases ha : ok a with
    | false =>
      obtain ⟨e, he⟩ := hbad a ha
      exact ⟨e, by simp only [Impl.V1.encodeSlots, he]⟩
    | true =>
      obtain ⟨b, hb⟩ := hok a ha
      have hl : l.all ok = false := by
        simp only [List.all_cons, ha, Bool.true_and] at h
        exact h
      obtain ⟨e, he⟩ := ih hl
      exact ⟨e, by simp only [Impl.V1.encodeSlots, hb, he]⟩

theorem loopLabels_len (v : Impl.V1.Loops) :
    labelsLen (Impl.V1.loopLabels v) = labelsLen ((v.map V1.loopToWire).map (·.label)) := by
  induction v with
  | nil => rfl
  | cons s v ih =>
    cases s with
    | none =>
      simp only [Impl.V1.loopLabels, List.filterMap_cons, Option.map_none, List.map_cons, V1.loopToWire, labelsLen,
        List.sum_cons, List.length_nil, Nat.zero_add] at ih ⊢
      exact ih
    | some l =>
      simp only [Impl.V1.loopLabels, List.filterMap_cons, Option.map_some, List.map_cons, V1.loopToWire, labelsLen,
        List.sum_cons] at ih ⊢
      rw [ih]

theorem encodeLoops_ok (v : Impl.V1.Loops) (h : v.all V1.loopSlotOk = true) :
    Impl.V1.encodeLoops v = .ok (V2.loops.enc (v.map V1.loopToWire)) := by
  unfold Impl.V1.encodeLoops
  rw [encodeSlots_ok Impl.V1.encodeLoopSlot V2.loop V1.loopToWire V1.loopSlotOk encodeLoopSlot_ok v h]
  have e : u64le.enc (UInt64.ofNat v.length) ++ encL V2.loop (v.map V1.loopToWire) =
      V2.loops.enc (v.map V1.loopToWire) := by
    simp [V2.loops, counted]
  have hlen : (V2.loops.enc (v.map V1.loopToWire)).length =
      8 + 23 * v.length + labelsLen (Impl.V1.loopLabels v) := by
    rw [loops_enc_length, loopLabels_len]; simp
  simp only [e, hlen, Nat.lt_irrefl, if_false]

theorem encodeLoops_reject (v : Impl.V1.Loops) (h : v.all V1.loopSlotOk = false) :
    ∃ e, Impl.V1.encodeLoops v = .throw e := by
  unfold Impl.V1.encodeLoops
  obtain ⟨e, he⟩ := encodeSlots_bad Impl.V1.encodeLoopSlot V1.loopSlotOk
    (fun a ha => ⟨_, encodeLoopSlot_ok a ha⟩) encodeLoopSlot_bad v h
  exact ⟨e, by rw [he]⟩

/-! ### quick cues: decoder -/

theorem cuesRaw_dec_eq (bs : Bytes) : V2.cuesRaw.dec bs =
    match (counted u64be V2.cue).dec bs with
    | none => none
    | some (l, r) =>
      match cuesTail.dec r with
      | none => none
      | some (t, r') => some (⟨l, t.1, t.2.1, t.2.2⟩, r') := by
  show (map _ _ (pair (counted u64be V2.cue) cuesTail)).dec bs = _
  simp only [map, pair]
  cases (counted u64be V2.cue).dec bs with
  | none => rfl
  | some p =>
    obtain ⟨l, r⟩ := p
    simp only []
    cases cuesTail.dec r with
    | none => rfl
    | some p => rfl

/-- The statements the 1.x and 2.x quick-cue decoders share, keeping the raw flag byte. -/
def decodeCuesRaw (bs : Bytes) : Res (V2.CuesRaw × Bytes) :=
  if bs.length < 25 then .throw .invalid_argument else
  (do
    let n ← rd u64be
    let rem ← remaining
    if Prim.s64 n < 0 ∨ (rem / 13 : Int) < Prim.s64 n then throwC .invalid_argument else
    let cs ← forN Impl.V2.decodeCue n.toNat
    let adj ← rd u64be
    let flag ← rd u8
    let dflt ← rd u64be
    let extra ← rest
    pure (⟨cs, adj, flag, dflt⟩, extra) : Cur (V2.CuesRaw × Bytes)) bs |>.bind (fun p => .ok p.1)

theorem decodeCuesRaw_eq (bs : Bytes) : decodeCuesRaw bs = liftDec V2.cuesRaw bs := by
  unfold decodeCuesRaw liftDec
  rw [cuesRaw_dec_eq]
  simp only [counted]
  by_cases h25 : bs.length < 25
  · simp only [h25, if_true]
    by_cases h8 : bs.length < 8
    · simp [u64be_dec_none h8]
    · have h8' : 8 ≤ bs.length := by omega
      simp only [dec_run_u64be h8']
      by_cases hk : (u64be.get bs).toNat < maxCount
      · simp only [hk, if_true]
        cases hd : decN V2.cue (u64be.get bs).toNat (bs.drop 8) with
        | none => rfl
        | some p =>
          obtain ⟨l, r⟩ := p
          simp only []
          have := decN_rest_le V2.cue_exact hd
          have : cuesTail.dec r = none :=
            dec_none_of_short cuesTail_exact (n := 17)
              (fun a _ => by rw [cuesTail_enc_length]; omega) (by simp at this; omega)
          rw [this]
      · simp only [hk, if_false]
  · have h8' : 8 ≤ bs.length := by omega
    simp only [h25, if_false, bind_run, rd_u64be_run h8', dec_run_u64be h8', remaining_run]
    generalize u64be.get bs = k
    by_cases hk : k.toNat < maxCount
    · have hs := s64_of_lt k hk
      simp only [hk, if_true, hs]
      have hneg : ¬ ((k.toNat : Int) < 0) := by omega
      by_cases hr : ((bs.drop 8).length / 13 : Int) < (k.toNat : Int)
      · simp only [hr, or_true, if_true, throwC_run, Res.bind]
        cases hd : decN V2.cue k.toNat (bs.drop 8) with
        | none => rfl
        | some p =>
          exfalso
          obtain ⟨l, r⟩ := p
          have := decN_min_length V2.cue_exact (w := 13)
            (fun a _ => by rw [cue_enc_length]; omega) _ _ _ _ hd
          omega
      · simp only [hr, hneg, or_self, if_false, bind_run]
        rw [forN_decodeCue _ _ (by simp; omega)]
        cases hd : decN V2.cue k.toNat (bs.drop 8) with
        | none => simp [Res.bind]
        | some p =>
          obtain ⟨l, r⟩ := p
          simp only []
          by_cases h17 : 17 ≤ r.length
          · simp only [h17, if_true]
            have e1 := dec_run_u64be (bs := r) (by omega)
            have e2 := dec_run_u8 (bs := r.drop 8) (by simp; omega)
            have e3 := dec_run_u64be (bs := r.drop 9) (by simp; omega)
            have r1 := rd_u64be_run (bs := r) (by omega)
            have r2 := rd_u8_run (bs := r.drop 8) (by simp; omega)
            have r3 := rd_u64be_run (bs := r.drop 9) (by simp; omega)
            simp only [List.drop_drop] at e2 e3 r2 r3
            simp [cuesTail, pair, e1, e2, e3, r1, r2, r3, Res.bind, List.drop_drop]
          · simp only [h17, if_false]
            have : cuesTail.dec r = none :=
              dec_none_of_short cuesTail_exact (n := 17)
                (fun a _ => by rw [cuesTail_enc_length]; omega) (by omega)
            simp [this, Res.bind]
    · have hneg : Prim.s64 k < 0 := by
        have := k.toNat_lt
        unfold Prim.s64
        unfold maxCount at hk
        split <;> omega
      simp [hk, hneg, Res.bind]

theorem decodeCue_eq : Impl.V1.decodeCue = (Impl.V2.decodeCue >>= fun q => pure (V1.cueOfWire q)) := rfl

/-- The flag test of the 1.x decoder. -/
def badFlag (raw : V2.CuesRaw) : Prop :=
  raw.isAdj.toNat > 1 ∨ (raw.isAdj.toNat = 0 ∧ F64.ne raw.adjMain raw.defMain = true)

instance (raw : V2.CuesRaw) : Decidable (badFlag raw) := by unfold badFlag; infer_instance

theorem decodeCues_via (bs : Bytes) : Impl.V1.decodeCues bs =
    match decodeCuesRaw bs with
    | .ok (raw, extra) =>
      if badFlag raw then .throw .invalid_argument
      else if extra.length ≠ 0 then .throw .invalid_argument
      else .ok ⟨raw.cues.map V1.cueOfWire, raw.adjMain, raw.defMain⟩
    | .throw e => .throw e
    | .ub u => .ub u := by
  unfold Impl.V1.decodeCues decodeCuesRaw
  by_cases h25 : bs.length < 25
  · simp [h25]
  · have h8' : 8 ≤ bs.length := by omega
    simp only [h25, if_false, bind_run, rd_u64be_run h8', remaining_run]
    generalize u64be.get bs = k
    split
    · simp only [throwC_run, Res.bind]
    · simp only [bind_run, decodeCue_eq]
      rw [forN_map]
      cases hf : forN Impl.V2.decodeCue k.toNat (bs.drop 8) with
      | ok p =>
        obtain ⟨l, r⟩ := p
        simp only []
        cases h1 : rd u64be r with
        | ok p1 =>
          obtain ⟨adj, r1⟩ := p1
          simp only []
          cases h2 : rd u8 r1 with
          | ok p2 =>
            obtain ⟨flag, r2⟩ := p2
            simp only []
            cases h3 : rd u64be r2 with
            | ok p3 =>
              obtain ⟨dflt, r3⟩ := p3
              simp only [rest_run, pure_run, Res.bind, badFlag]
              by_cases hb : flag.toNat > 1 ∨ (flag.toNat = 0 ∧ F64.ne adj dflt = true)
              · simp only [hb, if_true, throwC_run]
              · simp only [hb, if_false, bind_run, remaining_run]
                by_cases hr : r3.length = 0 <;> simp [hr]
            | throw e => simp [Res.bind]
            | ub u => simp [Res.bind]
          | throw e => simp [Res.bind]
          | ub u => simp [Res.bind]
        | throw e => simp [Res.bind]
        | ub u => simp [Res.bind]
      | throw e => simp [Res.bind]
      | ub u => simp [Res.bind]

theorem decodeCues_eq (bs : Bytes) : Impl.V1.decodeCues bs = ofOpt (V1.decodeCues bs) := by
  rw [decodeCues_via, decodeCuesRaw_eq]
  unfold V1.decodeCues liftDec
  cases hd : V2.cuesRaw.dec bs with
  | none => rfl
  | some p =>
    obtain ⟨raw, r⟩ := p
    cases r with
    | nil =>
      simp only [badFlag, List.length_nil, ne_eq, not_true_eq_false, if_false]
      by_cases hb : raw.isAdj.toNat > 1 ∨ (raw.isAdj.toNat = 0 ∧ F64.ne raw.adjMain raw.defMain = true)
      · simp [hb]
      · simp [hb]
    | cons x r =>
      simp only [badFlag]
      by_cases hb : raw.isAdj.toNat > 1 ∨ (raw.isAdj.toNat = 0 ∧ F64.ne raw.adjMain raw.defMain = true)
      · simp [hb]
      · simp [hb]

/-! ### quick cues: encoder -/

theorem encodeCueSlot_ok (s : Option Impl.V1.HotCue) (h : V1.cueSlotOk s = true) :
    Impl.V1.encodeCueSlot s = .ok (V2.cue.enc (V1.cueToWire s)) := by
  cases s with
  | none => rfl
  | some q =>
    simp only [V1.cueSlotOk, decide_eq_true_eq] at h
    have h1 : ¬ q.label.length = 0 := by omega
    have h2 : ¬ 255 < q.label.length := by omega
    simp only [Impl.V1.encodeCueSlot, h1, h2, if_false, V1.cueToWire]
    simp [V2.cue, map, pair, List.append_assoc]

theorem encodeCueSlot_bad (s : Option Impl.V1.HotCue) (h : V1.cueSlotOk s = false) :
    ∃ e, Impl.V1.encodeCueSlot s = .throw e := by
  cases s with
  | none => simp [V1.cueSlotOk] at h
  | some q =>
    simp only [V1.cueSlotOk, decide_eq_false_iff_not] at h
    by_cases h1 : q.label.length = 0
    · exact ⟨.invalid_argument, by simp [Impl.V1.encodeCueSlot, h1]⟩
    · have h2 : 255 < q.label.length := by omega
      exact ⟨.invalid_argument, by simp [Impl.V1.encodeCueSlot, h1, h2]⟩

theorem cueLabels_len (v : List (Option Impl.V1.HotCue)) :
    labelsLen (Impl.V1.cueLabels v) = labelsLen ((v.map V1.cueToWire).map (·.label)) := by
  induction v with
  | nil => rfl
  | cons s v ih =>
    cases s with
    | none =>
      simp only [Impl.V1.cueLabels, List.filterMap_cons, Option.map_none, List.map_cons, V1.cueToWire, labelsLen,
        List.sum_cons, List.length_nil, Nat.zero_add] at ih ⊢
      exact ih
    | some l =>
      simp only [Impl.V1.cueLabels, List.filterMap_cons, Option.map_some, List.map_cons, V1.cueToWire, labelsLen,
        List.sum_cons] at ih ⊢
      rw [ih]

theorem cuesRaw_enc_length (v : V2.CuesRaw) :
    (V2.cuesRaw.enc v).length = 25 + 13 * v.cues.length + labelsLen (v.cues.map (·.label)) := by
  show ((counted u64be V2.cue).enc v.cues ++ cuesTail.enc _).length = _
  simp only [counted, List.length_append, u64be_enc_length, encL_cue_length, cuesTail_enc_length]
  omega

/-- The wire value a 1.x quick-cues struct is written as. -/
def cuesWire (v : Impl.V1.Cues) : V2.CuesRaw :=
  ⟨v.cues.map V1.cueToWire, v.adjMain, if F64.eq v.adjMain v.defMain then 0 else 1, v.defMain⟩

theorem encodeCues_ok (v : Impl.V1.Cues) (h8 : v.cues.length = 8) (h : v.cues.all V1.cueSlotOk = true) :
    Impl.V1.encodeCues v = .ok (V2.cuesRaw.enc (cuesWire v)) := by
  unfold Impl.V1.encodeCues
  have hn8 : ¬ 8 < v.cues.length := by omega
  simp only [hn8, if_false]
  rw [encodeSlots_ok Impl.V1.encodeCueSlot V2.cue V1.cueToWire V1.cueSlotOk encodeCueSlot_ok v.cues h]
  have e : u64be.enc (UInt64.ofNat v.cues.length) ++ encL V2.cue (v.cues.map V1.cueToWire) ++ u64be.enc v.adjMain ++
      [if F64.eq v.adjMain v.defMain then (0 : UInt8) else 1] ++ u64be.enc v.defMain = V2.cuesRaw.enc (cuesWire v) := by
    simp [V2.cuesRaw, cuesWire, map, pair, counted, u8, List.append_assoc]
  have hlen : (V2.cuesRaw.enc (cuesWire v)).length = 129 + labelsLen (Impl.V1.cueLabels v.cues) := by
    rw [cuesRaw_enc_length, cueLabels_len]
    simp [cuesWire, h8]
  simp only [e, hlen, Nat.lt_irrefl, if_false]

theorem encodeCues_reject (v : Impl.V1.Cues) (h : ¬ (v.cues.length = 8 ∧ v.cues.all V1.cueSlotOk = true)) :
    ∃ e, Impl.V1.encodeCues v = .throw e := by
  unfold Impl.V1.encodeCues
  by_cases h8 : 8 < v.cues.length
  · exact ⟨.dj "hot_cues_overflow", by simp only [h8, if_true]⟩
  · simp only [h8, if_false]
    cases hall : v.cues.all V1.cueSlotOk with
    | false =>
      obtain ⟨e, he⟩ := encodeSlots_bad Impl.V1.encodeCueSlot V1.cueSlotOk
        (fun a ha => ⟨_, encodeCueSlot_ok a ha⟩) encodeCueSlot_bad v.cues hall
      exact ⟨e, by rw [he]⟩
    | true =>
      have hlt : v.cues.length < 8 := by
        have : ¬ v.cues.length = 8 := fun e => h ⟨e, hall⟩
        omega
      rw [encodeSlots_ok Impl.V1.encodeCueSlot V2.cue V1.cueToWire V1.cueSlotOk encodeCueSlot_ok v.cues hall]
      have e : u64be.enc (UInt64.ofNat v.cues.length) ++ encL V2.cue (v.cues.map V1.cueToWire) ++ u64be.enc v.adjMain ++
          [if F64.eq v.adjMain v.defMain then (0 : UInt8) else 1] ++ u64be.enc v.defMain =
          V2.cuesRaw.enc (cuesWire v) := by
        simp [V2.cuesRaw, cuesWire, map, pair, counted, u8, List.append_assoc]
      have hlen : (V2.cuesRaw.enc (cuesWire v)).length =
          25 + 13 * v.cues.length + labelsLen (Impl.V1.cueLabels v.cues) := by
        rw [cuesRaw_enc_length, cueLabels_len]
        simp [cuesWire]
      have h1 : ¬ (129 + labelsLen (Impl.V1.cueLabels v.cues) < (V2.cuesRaw.enc (cuesWire v)).length) := by omega
      have h2 : (V2.cuesRaw.enc (cuesWire v)).length < 129 + labelsLen (Impl.V1.cueLabels v.cues) := by omega
      exact ⟨.runtime_error, by simp only [e, h1, h2, if_false, if_true]⟩

end V1Proofs
end EngineModel
