/-
C11 (schema 1.x), derived per-track columns over HISTORIES of the track operations: after any sequence of
create_track / update / single-field setters (set_relative_path among them) / remove_track, every stored track
has a path, `Track.filename` is the file-name part of that path and the extension MetaData row holds the
extension of that file name — both judged with the independent Spec of `EngineModel/Spec/PathParts.lean`.
-/
import EngineModel.Api.TrackColsV1
import Proofs.CratesV1TrackCols
import Proofs.TracksV1Table

namespace EngineModel.TracksV1
open EngineModel.Spec.PathParts
open Fl (FOps)

/-! ### the library's `rfind` / `substr` against the Spec's "longest suffix without the byte" -/

theorem rfind_go_none (c : UInt8) : ∀ (s : Bytes) (i : Nat) (acc : Option Nat), c ∉ s → rfind.go c s i acc = acc := by
  intro s
  induction s with
  | nil => intro i acc _; rfl
  | cons x t ih =>
    intro i acc h
    have hx : x ≠ c := fun e => h (by simp [e])
    have ht : c ∉ t := fun hm => h (List.mem_cons_of_mem _ hm)
    simp only [rfind.go, hx, if_false]
    exact ih _ _ ht

theorem rfind_go_last (c : UInt8) : ∀ (pre suf : Bytes) (i : Nat) (acc : Option Nat), c ∉ suf →
    rfind.go c (pre ++ c :: suf) i acc = some (i + pre.length) := by
  intro pre
  induction pre with
  | nil =>
    intro suf i acc h
    simp only [List.nil_append, rfind.go, if_true, List.length_nil, Nat.add_zero]
    exact rfind_go_none c suf _ _ h
  | cons x t ih =>
    intro suf i acc h
    simp only [List.cons_append, rfind.go, List.length_cons]
    rw [ih suf _ _ h]
    congr 1
    omega

theorem exists_last_split (c : UInt8) : ∀ (s : Bytes), c ∈ s → ∃ pre suf, s = pre ++ c :: suf ∧ c ∉ suf := by
  intro s
  induction s with
  | nil => intro h; cases h
  | cons x t ih =>
    intro h
    by_cases ht : c ∈ t
    · obtain ⟨pre, suf, e, hs⟩ := ih ht
      exact ⟨x :: pre, suf, by rw [e]; rfl, hs⟩
    · have hx : x = c := by
        rcases List.mem_cons.mp h with e | e
        · exact e.symm
        · exact absurd e ht
      exact ⟨[], t, by rw [hx]; rfl, ht⟩

theorem takeWhile_all {α} (p : α → Bool) : ∀ (l : List α), (∀ x ∈ l, p x = true) → l.takeWhile p = l := by
  intro l
  induction l with
  | nil => intro _; rfl
  | cons a t ih =>
    intro h
    rw [List.takeWhile_cons, h a (by simp), if_pos rfl, ih (fun x hx => h x (List.mem_cons_of_mem _ hx))]

theorem takeWhile_stop {α} (p : α → Bool) (a : α) (ha : p a = false) : ∀ (l r : List α), (∀ x ∈ l, p x = true) →
    (l ++ a :: r).takeWhile p = l := by
  intro l
  induction l with
  | nil => intro r _; simp [List.takeWhile_cons, ha]
  | cons b t ih =>
    intro r h
    rw [List.cons_append, List.takeWhile_cons, h b (by simp), if_pos rfl,
      ih r (fun x hx => h x (List.mem_cons_of_mem _ hx))]

theorem suffixWithout_none (c : UInt8) (s : Bytes) (h : c ∉ s) : suffixWithout c s = s := by
  unfold suffixWithout
  rw [takeWhile_all, List.reverse_reverse]
  intro x hx
  rw [List.mem_reverse] at hx
  simpa using (fun e : x = c => h (e ▸ hx))

theorem suffixWithout_split (c : UInt8) (pre suf : Bytes) (h : c ∉ suf) : suffixWithout c (pre ++ c :: suf) = suf := by
  unfold suffixWithout
  rw [List.reverse_append, List.reverse_cons, List.append_assoc, List.singleton_append,
    takeWhile_stop _ c (by simp), List.reverse_reverse]
  intro x hx
  rw [List.mem_reverse] at hx
  simpa using (fun e : x = c => h (e ▸ hx))

theorem not_mem_suffixWithout (c : UInt8) (s : Bytes) : c ∉ suffixWithout c s := by
  by_cases h : c ∈ s
  · obtain ⟨pre, suf, e, hs⟩ := exists_last_split c s h
    rw [e, suffixWithout_split c pre suf hs]; exact hs
  · rw [suffixWithout_none c s h]; exact h

/-- `rfind` then `substr(i + 1)` = the longest suffix without the byte (the whole string when it does not occur). -/
theorem cut_after_last (c : UInt8) (s : Bytes) :
    (match rfind c s with | some i => s.drop (i + 1) | none => s) = suffixWithout c s := by
  unfold rfind
  by_cases h : c ∈ s
  · obtain ⟨pre, suf, e, hs⟩ := exists_last_split c s h
    rw [e, rfind_go_last c pre suf 0 none hs, suffixWithout_split c pre suf hs]
    simp
  · rw [rfind_go_none c s 0 none h, suffixWithout_none c s h]

theorem getFilename_spec (p : Bytes) : getFilename p = fileNamePart p := cut_after_last 47 p

theorem rfind_isSome (c : UInt8) (s : Bytes) : (rfind c s).isSome = s.contains c := by
  unfold rfind
  by_cases h : c ∈ s
  · obtain ⟨pre, suf, e, hs⟩ := exists_last_split c s h
    rw [e, rfind_go_last c pre suf 0 none hs]
    simp
  · rw [rfind_go_none c s 0 none h]
    simp [h]

theorem getFilename_idem (p : Bytes) : getFilename (getFilename p) = getFilename p := by
  rw [getFilename_spec p, getFilename_spec]
  exact suffixWithout_none _ _ (not_mem_suffixWithout slash p)

/-- The stored extension: `get_file_extension` of the file name. -/
theorem getExtension_spec (p : Bytes) : getExtension (getFilename p) = extensionPart (fileNamePart p) := by
  unfold getExtension extensionPart
  simp only [getFilename_idem]
  rw [← getFilename_spec p]
  have hdot : dot = 46 := rfl
  rw [hdot]
  have hc := cut_after_last 46 (getFilename p)
  have hs := rfind_isSome 46 (getFilename p)
  cases hr : rfind 46 (getFilename p) with
  | none =>
    rw [hr] at hs
    have : (getFilename p).contains 46 = false := by rw [← hs]; rfl
    rw [this]; rfl
  | some i =>
    rw [hr] at hs hc
    have : (getFilename p).contains 46 = true := by rw [← hs]; rfl
    rw [this]
    simp only [if_true]
    rw [← hc]

/-! ### which setters can touch the three derived cells -/

/-- The cells the derived-column invariant reads. -/
def cells (r : TrackRows) : Option Bytes × Option Bytes × Option (Option Bytes) :=
  (r.track.path, r.track.filename, aget 13 r.mstr)

theorem setCol_cells {α} {r r' : TrackRows} {norm : α → Res α} {eq : α → α → Bool} {v : α} {put : PerfRow → α → PerfRow}
    (h : setCol r norm eq v put = .ok r') : cells r' = cells r := by
  obtain ⟨v', p, _, _, e⟩ := setCol_ok r r' norm eq v put h
  rw [e]; rfl

theorem cells_aset (r : TrackRows) (k : Int) (v : Option Bytes) (hk : k ≠ 13) :
    cells { r with mstr := aset k v r.mstr } = cells r := by
  unfold cells
  simp only
  rw [aget_aset_other k 13 v r.mstr (fun e => hk e.symm)]

theorem set_cells (o : FOps) (r r' : TrackRows) (f : Field) (v : f.ty) (hf : f ≠ .relativePath)
    (h : set o r f v = .ok r') : cells r' = cells r := by
  cases f with
  | relativePath => exact absurd rfl hf
  | album => simp only [set, Res.ok.injEq] at h; subst h; exact cells_aset r 3 v (by decide)
  | artist => simp only [set, Res.ok.injEq] at h; subst h; exact cells_aset r 2 v (by decide)
  | comment => simp only [set, Res.ok.injEq] at h; subst h; exact cells_aset r 5 v (by decide)
  | composer => simp only [set, Res.ok.injEq] at h; subst h; exact cells_aset r 7 v (by decide)
  | genre => simp only [set, Res.ok.injEq] at h; subst h; exact cells_aset r 4 v (by decide)
  | publisher => simp only [set, Res.ok.injEq] at h; subst h; exact cells_aset r 6 v (by decide)
  | title => simp only [set, Res.ok.injEq] at h; subst h; exact cells_aset r 1 v (by decide)
  | averageLoudness => simp only [set] at h; exact setCol_cells h
  | beatgrid => simp only [set] at h; exact setCol_cells h
  | bitrate => simp only [set, Res.ok.injEq] at h; subst h; rfl
  | bpm =>
    simp only [set] at h
    obtain ⟨c, _, h⟩ := bind_ok_inv h
    simp only [Res.pure_eq, pure, Res.ok.injEq] at h
    subst h; rfl
  | duration =>
    simp only [set, Res.ok.injEq] at h; subst h
    exact cells_aset { r with track := { r.track with length := _ } } 10 _ (by decide)
  | hotCues => simp only [set] at h; exact setCol_cells h
  | hotCueAt i =>
    simp only [set] at h
    obtain ⟨k, _, h⟩ := Res.bind_eq_ok h
    exact setCol_cells h
  | key =>
    simp only [set] at h
    obtain ⟨r1, h1, h⟩ := Res.bind_eq_ok h
    simp only [Res.ok.injEq] at h; subst h
    exact (show cells _ = cells r1 from rfl).trans (setCol_cells h1)
  | lastPlayedAt =>
    simp only [set, Res.ok.injEq] at h; subst h
    exact cells_aset { r with mint := _ } 12 _ (by decide)
  | loops =>
    simp only [set] at h
    split at h
    · cases h
    · exact setCol_cells h
  | loopAt i =>
    simp only [set] at h
    obtain ⟨k, _, h⟩ := Res.bind_eq_ok h
    exact setCol_cells h
  | mainCue => simp only [set] at h; exact setCol_cells h
  | rating => simp only [set, Res.ok.injEq] at h; subst h; rfl
  | sampleCount =>
    simp only [set] at h
    obtain ⟨secs, _, h⟩ := bind_ok_inv h
    obtain ⟨r2, h2, h⟩ := bind_ok_inv h
    obtain ⟨r3, h3, h⟩ := bind_ok_inv h
    have k2 : cells r2 = cells r := (setCol_cells h2).trans rfl
    have k3 : cells r3 = cells r2 := setCol_cells h3
    split at h
    · simp only [Res.pure_eq, pure, Res.ok.injEq] at h; subst h; exact k3.trans k2
    · obtain ⟨e, _, h⟩ := bind_ok_inv h
      exact (setCol_cells h).trans (k3.trans k2)
  | sampleRate =>
    simp only [set] at h
    obtain ⟨secs, _, h⟩ := bind_ok_inv h
    obtain ⟨r2, h2, h⟩ := bind_ok_inv h
    obtain ⟨r3, h3, h⟩ := bind_ok_inv h
    obtain ⟨r4, h4, h⟩ := bind_ok_inv h
    have k2 : cells r2 = cells r := (setCol_cells h2).trans rfl
    have k3 : cells r3 = cells r2 := setCol_cells h3
    have k4 : cells r4 = cells r3 := by
      split at h4
      · simp only [Res.pure_eq, pure, Res.ok.injEq] at h4; subst h4; rfl
      · obtain ⟨e, _, h4⟩ := bind_ok_inv h4
        exact setCol_cells h4
    split at h
    · simp only [Res.pure_eq, pure, Res.ok.injEq] at h; subst h; exact k4.trans (k3.trans k2)
    · obtain ⟨e, _, h⟩ := bind_ok_inv h
      exact (setCol_cells h).trans (k4.trans (k3.trans k2))
  | trackNumber => simp only [set, Res.ok.injEq] at h; subst h; rfl
  | waveform =>
    simp only [set] at h
    obtain ⟨w, _, h⟩ := bind_ok_inv h
    obtain ⟨r1, h1, h⟩ := bind_ok_inv h
    exact (setCol_cells h).trans (setCol_cells h1)
  | year => simp only [set, Res.ok.injEq] at h; subst h; rfl

end EngineModel.TracksV1

namespace EngineModel.Api.TrackColsV1
open EngineModel.TracksV1 EngineModel.Spec.PathParts
open Fl (FOps)

theorem rowDerivedOk_of_cells {r r' : TrackRows} (h : cells r' = cells r) : rowDerivedOk r' = rowDerivedOk r := by
  unfold cells at h
  simp only [Prod.mk.injEq] at h
  unfold rowDerivedOk
  rw [h.1, h.2.1, h.2.2]

theorem rowDerivedOk_writeSnap (o : FOps) (s : TracksV1.Schema) (x : Snap) (prior : Option TrackRows) (rows : TrackRows)
    (h : writeSnap o s x prior = .ok rows) : rowDerivedOk rows = true := by
  obtain ⟨p, _, h1, h2, h3⟩ := writeSnap_derived_columns o s x prior rows h
  unfold rowDerivedOk
  rw [h1]
  simp only [h2, h3]
  rw [getExtension_spec, getFilename_spec]
  simp

theorem rowDerivedOk_setPath (r : TrackRows) (p : Bytes) :
    rowDerivedOk { r with track := { r.track with path := some p, filename := some (getFilename p) },
                          mstr := aset 13 (getExtension (getFilename p)) r.mstr } = true := by
  unfold rowDerivedOk
  simp only [aget_aset_same]
  rw [getExtension_spec, getFilename_spec]
  simp

def DOk (d : TracksV1.Db) : Prop := ∀ e ∈ d.tracks, rowDerivedOk e.2 = true

theorem derivedOk_iff (d : TracksV1.Db) : derivedOk d = true ↔ DOk d := by
  unfold derivedOk DOk
  rw [List.all_eq_true]

theorem mem_aset_weak {β} (k : Int) (v : β) : ∀ (l : List (Int × β)) (e : Int × β), e ∈ aset k v l → e = (k, v) ∨ e ∈ l := by
  intro l
  induction l with
  | nil => intro e he; simp [aset] at he; exact Or.inl he
  | cons hd t ih =>
    intro e he
    obtain ⟨k0, v0⟩ := hd
    simp only [aset] at he
    split at he
    · rcases List.mem_cons.mp he with e1 | e1
      · exact Or.inl e1
      · exact Or.inr (List.mem_cons_of_mem _ e1)
    · rcases List.mem_cons.mp he with e1 | e1
      · exact Or.inr (e1 ▸ List.mem_cons_self ..)
      · rcases ih e e1 with e2 | e2
        · exact Or.inl e2
        · exact Or.inr (List.mem_cons_of_mem _ e2)

theorem dok_create (o : FOps) (d d' : TracksV1.Db) (x : Snap) (id : Int) (hd : DOk d)
    (h : dbCreate o d x = .ok (d', id)) : DOk d' := by
  unfold dbCreate at h
  simp only at h
  cases hw : writeSnap o d.schema x none with
  | ub u => rw [hw] at h; cases h
  | throw e =>
    rw [hw] at h
    simp only at h
    split at h
    · cases h
    · split at h
      · cases h
      · split at h <;> cases h
  | ok rows =>
    rw [hw] at h
    simp only at h
    split at h
    · cases h
    · simp only [Res.ok.injEq, Prod.mk.injEq] at h
      obtain ⟨h1, _⟩ := h
      subst h1
      intro e he
      rcases List.mem_append.mp he with he | he
      · exact hd e he
      · rw [List.mem_singleton] at he
        subst he
        exact rowDerivedOk_writeSnap o d.schema x none rows hw

theorem dok_update (o : FOps) (d d' : TracksV1.Db) (id : Int) (x : Snap) (hd : DOk d)
    (h : dbUpdate o d id x = .ok d') : DOk d' := by
  unfold dbUpdate at h
  cases hp : d.rows id with
  | none =>
    rw [hp] at h
    simp only at h
    cases hw : writeSnap o d.schema x none with
    | ub u => rw [hw] at h; cases h
    | throw e => rw [hw] at h; simp only at h; split at h <;> cases h
    | ok rows => rw [hw] at h; cases h
  | some prior =>
    rw [hp] at h
    simp only at h
    cases hw : writeSnap o d.schema x (some prior) with
    | ub u => rw [hw] at h; cases h
    | throw e =>
      rw [hw] at h
      simp only at h
      split at h
      · cases h
      · split at h
        · cases h
        · split at h <;> cases h
    | ok rows =>
      rw [hw] at h
      simp only at h
      split at h
      · cases h
      · simp only [Res.ok.injEq] at h
        subst h
        intro e he
        rcases mem_aset_weak id rows d.tracks e he with e1 | e1
        · subst e1; exact rowDerivedOk_writeSnap o d.schema x (some prior) rows hw
        · exact hd e e1

theorem dok_set (o : FOps) (d d' : TracksV1.Db) (id : Int) (f : Field) (v : f.ty) (hd : DOk d)
    (h : dbSet o d id f v = .ok d') : DOk d' := by
  obtain ⟨r, r', hr, hs, e⟩ := dbSet_ok o d d' id f v h
  subst e
  have hrok : rowDerivedOk r = true := hd (id, r) (aget_mem d.tracks id r hr)
  intro e he
  rcases mem_aset_weak id r' d.tracks e he with e1 | e1
  · subst e1
    by_cases hf : f = .relativePath
    · subst hf
      simp only [TracksV1.set, Res.ok.injEq] at hs
      subst hs
      exact rowDerivedOk_setPath r v
    · rw [rowDerivedOk_of_cells (set_cells o r r' f v hf hs)]; exact hrok
  · exact hd e e1

theorem dok_remove (d : TracksV1.Db) (id : Int) (hd : DOk d) : DOk (dbRemove d id) := by
  intro e he
  exact hd e (List.mem_filter.mp he).1

theorem dok_step (o : FOps) (d : TracksV1.Db) (hd : DOk d) (op : TOp) : DOk (tStep o d op) := by
  cases op with
  | create x =>
    show DOk (match dbCreate o d x with | .ok (d', _) => d' | _ => d)
    split
    · rename_i d' id h; exact dok_create o d d' x id hd h
    · exact hd
  | update id x =>
    show DOk (match dbUpdate o d id x with | .ok d' => d' | _ => d)
    split
    · rename_i d' h; exact dok_update o d d' id x hd h
    · exact hd
  | set id f v =>
    show DOk (match dbSet o d id f v with | .ok d' => d' | _ => d)
    split
    · rename_i d' h; exact dok_set o d d' id f v hd h
    · exact hd
  | remove id => exact dok_remove d id hd

theorem dok_run (o : FOps) : ∀ (ops : List TOp) (d : TracksV1.Db), DOk d → DOk (tRun o d ops) := by
  intro ops
  induction ops with
  | nil => intro d h; exact h
  | cons op ops ih => intro d h; exact ih _ (dok_step o d h op)

end EngineModel.Api.TrackColsV1
