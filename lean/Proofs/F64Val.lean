/-
`static_cast<int64_t>(double)` on bit patterns (`TracksV1.Fl.toI64`) is the
floor of the exact value for finite non-negative doubles below 2^63 — the link
between "the sample rate is a finite number in [0, 2^31]" and the hypothesis
`ops.toI64 rate = some ⌊rate⌋` of the C19 theorems.
-/
import EngineModel.Basic.F64Rat
import EngineModel.TracksV1.Float
import Mathlib.Data.Rat.Floor
import Mathlib.Tactic.Linarith
import Mathlib.Tactic.Positivity

namespace EngineModel.F64
open EngineModel EngineModel.TracksV1

theorem manOf_lt (x : Bits) : manOf x < 4503599627370496 := by
  unfold manOf; omega

theorem magRat_nonneg (x : Bits) : 0 ≤ magRat x := by
  unfold magRat
  split
  · positivity
  · split <;> positivity

/-- The integer part of the magnitude, as `toI64` computes it. -/
def magNat (x : Bits) : Nat :=
  if expOf x = 0 then 0
  else if expOf x ≥ 1075 then (manOf x + 4503599627370496) * 2 ^ (expOf x - 1075)
  else (manOf x + 4503599627370496) / 2 ^ (1075 - expOf x)

theorem floor_magRat (x : Bits) : ⌊magRat x⌋ = (magNat x : Int) := by
  unfold magRat magNat
  split
  · -- subnormal or zero: magnitude below 1
    rw [Int.floor_eq_iff]
    have hm := manOf_lt x
    constructor
    · simp only [Nat.cast_zero, Int.cast_zero]; positivity
    · simp only [Nat.cast_zero, Int.cast_zero, zero_add]
      rw [div_lt_one (by positivity)]
      have h1 : (2 : Nat) ^ 52 ≤ 2 ^ 1074 := Nat.pow_le_pow_right (by omega) (by omega)
      have h2 : manOf x < 2 ^ 52 := by
        have e : (2 : Nat) ^ 52 = 4503599627370496 := by norm_num
        rw [e]; exact hm
      exact Nat.cast_lt.mpr (lt_of_lt_of_le h2 h1)
  · split
    · exact Int.floor_natCast _
    · exact Rat.floor_natCast_div_natCast _ _

/-- `static_cast<int64_t>` of a finite, non-negative double below 2^63 is the floor of its value. -/
theorem toI64_of_nonneg (x : Bits) (hf : isFinite x = true) (hs : signOf x = false)
    (hb : toRat x < 9223372036854775808) : Fl.toI64 x = some ⌊toRat x⌋ := by
  have he : expOf x ≠ 2047 := by simpa [isFinite] using hf
  have hv : toRat x = magRat x := by unfold toRat; simp [hs]
  rw [hv] at hb ⊢
  have hfl := floor_magRat x
  have hlt : (magNat x : Int) < 9223372036854775808 := by
    rw [← hfl]
    have : ((⌊magRat x⌋ : Int) : ℚ) ≤ magRat x := Int.floor_le _
    have h2 : ((⌊magRat x⌋ : Int) : ℚ) < ((9223372036854775808 : Int) : ℚ) := by
      push_cast; linarith
    exact_mod_cast h2
  rw [hfl]
  unfold Fl.toI64
  simp only [he, if_false, hs, Bool.false_eq_true]
  have hm : (if expOf x = 0 then 0
      else if expOf x ≥ 1075 then (manOf x + 4503599627370496) * 2 ^ (expOf x - 1075)
      else (manOf x + 4503599627370496) / 2 ^ (1075 - expOf x)) = magNat x := rfl
  rw [hm]
  have hin : Cxx.inI64 (magNat x : Int) = true := by
    unfold Cxx.inI64 Cxx.i64Min Cxx.i64Max
    apply decide_eq_true
    constructor <;> omega
  rw [hin]; rfl

/-- A NaN or an infinity has no `int64_t` value (the conversion is undefined behaviour). -/
theorem toI64_of_not_finite (x : Bits) (hf : isFinite x = false) : Fl.toI64 x = none := by
  have he : expOf x = 2047 := by simpa [isFinite] using hf
  unfold Fl.toI64; simp [he]

end EngineModel.F64
