/-
The membership and track operations of the schema-1.x model on a state
satisfying `Inv`: exact outcomes and preservation of `Inv`.
(add_track, remove_track (from a crate), clear_tracks, create_track, database::remove_track.)
-/
import Proofs.CratesV1Abs

namespace EngineModel.Api.CratesV1
open EngineModel.Pure.Detect EngineModel.Spec

variable {db : Db}

/-- A state that differs from one satisfying `Inv` only in the membership / track tables. -/
theorem Inv.of_crates_eq {db db' : Db} (h : Inv db) (h1 : db'.crate = db.crate) (h2 : db'.cpl = db.cpl)
    (h3 : db'.ch = db.ch) (hn : db'.ctl.Nodup) (hl : ∀ r ∈ db'.ctl, r.1 ∈ ids db ∧ liveTrack db' r.2)
    (ht : (db'.track.map (·.id)).Nodup) : Inv db' := by
  have hids : ids db' = ids db := by unfold ids; rw [h1]
  have hrp : ∀ p, rowPath db' p = rowPath db p := by intro p; unfold rowPath; rw [h1]
  refine ⟨h.toFInv.congr hids h2 h3, ?_, ?_, hn, ?_, ht⟩
  · rw [h1]; exact h.namesValid
  · rw [h1, h2]
    intro r hr p hp
    rw [hrp]; exact h.pathStep r hr p hp
  · intro r hr
    rw [hids]; exact hl r hr

theorem ctlVisible_of_live (s : Schema) {r : Id × Id} (hr : r.1 ∈ ids db) : ctlVisible s db r = true := by
  unfold ctlVisible crateExists
  obtain ⟨row, hrow, hid⟩ := exists_row hr
  rw [Bool.or_eq_true]
  right
  rw [List.any_eq_true]
  exact ⟨row, hrow, by simp [hid]⟩

/-- Under `Inv` every stored membership row is visible through the view: the DELETE is a plain filter. -/
theorem deleteCtl_inv (s : Schema) (h : Inv db) (p : Id × Id → Bool) :
    deleteCtl s db p = { db with ctl := db.ctl.filter (fun r => !p r) } := by
  obtain ⟨o1, o2, o3, o4, o5⟩ := deleteCtl_other s db p
  refine Db.ext' (b := { db with ctl := db.ctl.filter (fun r => !p r) }) o1 o2 o3 ?_ o4 o5
  show (deleteCtl s db p).ctl = db.ctl.filter (fun r => !p r)
  rw [deleteCtl_ctl]
  apply List.filter_congr
  intro r hr
  rw [ctlVisible_of_live s (h.ctlLive r hr).1, Bool.true_and]

theorem ctlView_inv (s : Schema) (h : Inv db) : ctlView s db = db.ctl := by
  rw [ctlView_eq, List.filter_eq_self]
  intro r hr
  exact ctlVisible_of_live s (h.ctlLive r hr).1

/-! ### add_track -/

theorem liveTrack_iff_count (db : Db) (t : Id) :
    (db.track.filter (fun r => r.id == t && r.hasPath)).length > 0 ↔ liveTrack db t := by
  unfold liveTrack
  constructor
  · intro hl
    obtain ⟨x, hx⟩ := List.exists_mem_of_length_pos hl
    simp only [List.mem_filter, Bool.and_eq_true, beq_iff_eq] at hx
    exact ⟨x, hx.1, hx.2.1, hx.2.2⟩
  · rintro ⟨x, hx, h1, h2⟩
    apply List.length_pos_of_mem (a := x)
    simp [List.mem_filter, hx, h1, h2]

def afterAddTrack (db : Db) (c t : Id) : Db :=
  { db with ctl := db.ctl.filter (fun r => !(r.1 == c && r.2 == t)) ++ [(c, t)] }

theorem addTrack_dead (s : Schema) (db : Db) {c : Id} (t : Id) (hc : c ∉ ids db) :
    addTrack s db c t = (db, .throw exCrateDeleted) := by
  unfold addTrack
  simp [transaction, requireValid_dead hc]

theorem addTrack_dead_track (s : Schema) (h : (ids db).Nodup) {c t : Id} (hc : c ∈ ids db) (ht : ¬ liveTrack db t) :
    addTrack s db c t = (db, .throw exTrackDeleted) := by
  unfold addTrack
  have : ¬ (db.track.filter (fun r => r.id == t && r.hasPath)).length > 0 := fun hl => ht ((liveTrack_iff_count db t).mp hl)
  simp only [transaction, requireValid_live h hc, Res.bind_ok, this, if_false]
  rfl

theorem addTrack_ok (s : Schema) (h : Inv db) {c t : Id} (hc : c ∈ ids db) (ht : liveTrack db t) :
    addTrack s db c t = (afterAddTrack db c t, .ok .unit) := by
  unfold addTrack
  have : (db.track.filter (fun r => r.id == t && r.hasPath)).length > 0 := (liveTrack_iff_count db t).mpr ht
  simp only [transaction, requireValid_live h.idsNodup hc, Res.bind_ok, this, if_true, Res.pure_eq, deleteCtl_inv s h]
  rfl

theorem inv_addTrack (h : Inv db) {c t : Id} (hc : c ∈ ids db) (ht : liveTrack db t) : Inv (afterAddTrack db c t) := by
  refine Inv.of_crates_eq (db' := afterAddTrack db c t) h rfl rfl rfl ?_ ?_ ?_
  · show (db.ctl.filter (fun r => !(r.1 == c && r.2 == t)) ++ [(c, t)]).Nodup
    rw [List.nodup_append]
    refine ⟨h.ctlNodup.sublist List.filter_sublist, by simp, ?_⟩
    intro a ha b hb
    rw [List.mem_singleton] at hb
    rw [List.mem_filter] at ha
    rintro rfl
    subst hb
    simp at ha
  · intro r hr
    have hr' : r ∈ db.ctl.filter (fun r => !(r.1 == c && r.2 == t)) ++ [(c, t)] := hr
    rw [List.mem_append, List.mem_filter, List.mem_singleton] at hr'
    rcases hr' with ⟨hm, _⟩ | rfl
    · exact ⟨(h.ctlLive r hm).1, (liveTrack_congr rfl _).mpr (h.ctlLive r hm).2⟩
    · exact ⟨hc, (liveTrack_congr rfl _).mpr ht⟩
  · exact h.trackNodup

/-! ### remove_track (from a crate), clear_tracks -/

def filterCtl (db : Db) (p : Id × Id → Bool) : Db := { db with ctl := db.ctl.filter (fun r => !p r) }

theorem inv_filterCtl (h : Inv db) (p : Id × Id → Bool) : Inv (filterCtl db p) := by
  refine Inv.of_crates_eq (db' := filterCtl db p) h rfl rfl rfl ?_ ?_ ?_
  · exact h.ctlNodup.sublist List.filter_sublist
  · intro r hr
    have hm : r ∈ db.ctl := (List.mem_filter.mp hr).1
    exact ⟨(h.ctlLive r hm).1, (liveTrack_congr rfl _).mpr (h.ctlLive r hm).2⟩
  · exact h.trackNodup

theorem removeTrackFrom_eq (s : Schema) (h : Inv db) (c t : Id) :
    removeTrackFrom s db c t = (filterCtl db (fun r => r.1 == c && r.2 == t), .ok .unit) := by
  unfold removeTrackFrom; rw [deleteCtl_inv s h]; rfl

theorem clearTracks_eq (s : Schema) (h : Inv db) (c : Id) :
    clearTracks s db c = (filterCtl db (fun r => r.1 == c), .ok .unit) := by
  unfold clearTracks; rw [deleteCtl_inv s h]; rfl

/-! ### create_track -/

theorem int_lt_max_succ (a b : Int) : b < max a b + 1 := by omega
theorem int_lt_succ (b : Int) : b < b + 1 := by omega

theorem maxId_lt_fresh {l : List Int} {x n : Int} (hx : x ∈ l) (hn : maxId l < n) : x ≠ n := by
  have h1 : x ≤ maxId l := le_maxId hx
  have : ∀ a b c : Int, a ≤ b → b < c → a ≠ c := by intro a b c; omega
  exact this _ _ _ h1 hn

theorem createTrack_spec (s : Schema) (db : Db) :
    ∃ id seq, createTrack s db = ({ db with track := db.track ++ [⟨id, true⟩], trackSeq := seq }, .ok (.id id)) ∧
      maxId (db.track.map (·.id)) < id := by
  unfold createTrack
  split
  · exact ⟨_, _, rfl, int_lt_max_succ _ _⟩
  · refine ⟨_, db.trackSeq, rfl, ?_⟩
    rw [idRowid_eq]; exact int_lt_succ _

theorem inv_createTrack (h : Inv db) {id seq : Int} (hid : maxId (db.track.map (·.id)) < id) :
    Inv { db with track := db.track ++ [⟨id, true⟩], trackSeq := seq } := by
  refine Inv.of_crates_eq (db' := { db with track := db.track ++ [⟨id, true⟩], trackSeq := seq }) h rfl rfl rfl
    h.ctlNodup ?_ ?_
  · intro r hr
    refine ⟨(h.ctlLive r hr).1, ?_⟩
    obtain ⟨x, hx, h1, h2⟩ := (h.ctlLive r hr).2
    exact ⟨x, List.mem_append_left _ hx, h1, h2⟩
  · show ((db.track ++ [(⟨id, true⟩ : TrackRow)]).map (fun r : TrackRow => r.id)).Nodup
    rw [List.map_append, List.nodup_append]
    refine ⟨h.trackNodup, by simp, ?_⟩
    intro a ha b hb
    simp only [List.map_cons, List.map_nil, List.mem_singleton] at hb
    subst hb
    exact maxId_lt_fresh ha hid

/-! ### database::remove_track -/

/-- What the AUTOINCREMENT trigger loop may do to the Track table: the rows with a path are untouched. -/
def SameLive (tr tr' : List TrackRow) : Prop :=
  (tr'.map (·.id)).Nodup ∧ ∀ r, r.hasPath = true → (r ∈ tr' ↔ r ∈ tr)

/-- trigger_after_delete_Track, for one deleted row. -/
def triggerStep (acc : Db) (old : TrackRow) : Db :=
  if old.id > maxId (acc.track.map (·.id)) then
    let tr2 := acc.track.filter (·.hasPath)
    let id := max acc.trackSeq (maxId (tr2.map (·.id))) + 1
    { acc with track := tr2 ++ [⟨id, false⟩], trackSeq := id }
  else acc

theorem removeTrack_unfold (s : Schema) (db0 : Db) (t : Id) :
    removeTrack s db0 t =
      if trackAutoinc s then
        (((deleteCtl s db0 (fun r => r.2 == t)).track.filter (·.id == t)).foldl triggerStep
          { deleteCtl s db0 (fun r => r.2 == t) with
            track := (deleteCtl s db0 (fun r => r.2 == t)).track.filter (fun r => !(r.id == t)) }, .ok .unit)
      else ({ deleteCtl s db0 (fun r => r.2 == t) with
            track := (deleteCtl s db0 (fun r => r.2 == t)).track.filter (fun r => !(r.id == t)) }, .ok .unit) := rfl

theorem triggerStep_spec (acc : Db) (old : TrackRow) (tr : List TrackRow) (h : SameLive tr acc.track) :
    (triggerStep acc old).crate = acc.crate ∧ (triggerStep acc old).cpl = acc.cpl ∧ (triggerStep acc old).ch = acc.ch ∧
    (triggerStep acc old).ctl = acc.ctl ∧ SameLive tr (triggerStep acc old).track := by
  unfold triggerStep
  split
  · refine ⟨rfl, rfl, rfl, rfl, ?_⟩
    constructor
    · show ((acc.track.filter (fun r : TrackRow => r.hasPath) ++ [_]).map (fun r : TrackRow => r.id)).Nodup
      rw [List.map_append, List.nodup_append]
      refine ⟨h.1.sublist (List.Sublist.map _ List.filter_sublist), by simp, ?_⟩
      intro a ha b hb
      simp only [List.map_cons, List.map_nil, List.mem_singleton] at hb
      subst hb
      exact maxId_lt_fresh ha (int_lt_max_succ _ _)
    · intro r hr
      show r ∈ acc.track.filter (fun r : TrackRow => r.hasPath) ++ [_] ↔ _
      rw [List.mem_append, List.mem_filter, List.mem_singleton, ← h.2 r hr]
      constructor
      · rintro (⟨hm, _⟩ | rfl)
        · exact hm
        · cases hr
      · intro hm; exact Or.inl ⟨hm, hr⟩
  · exact ⟨rfl, rfl, rfl, rfl, h⟩

theorem trigger_fold (tr : List TrackRow) (olds : List TrackRow) : ∀ (acc : Db), SameLive tr acc.track →
    (olds.foldl triggerStep acc).crate = acc.crate ∧ (olds.foldl triggerStep acc).cpl = acc.cpl ∧
    (olds.foldl triggerStep acc).ch = acc.ch ∧ (olds.foldl triggerStep acc).ctl = acc.ctl ∧
    SameLive tr (olds.foldl triggerStep acc).track := by
  induction olds with
  | nil => intro acc h; exact ⟨rfl, rfl, rfl, rfl, h⟩
  | cons o olds ih =>
    intro acc h
    obtain ⟨e1, e2, e3, e4, e5⟩ := triggerStep_spec acc o tr h
    obtain ⟨f1, f2, f3, f4, f5⟩ := ih (triggerStep acc o) e5
    rw [List.foldl_cons]
    exact ⟨f1.trans e1, f2.trans e2, f3.trans e3, f4.trans e4, f5⟩

theorem removeTrack_spec (s : Schema) (h : Inv db) (t : Id) :
    (removeTrack s db t).2 = .ok .unit ∧ (removeTrack s db t).1.crate = db.crate ∧
    (removeTrack s db t).1.cpl = db.cpl ∧ (removeTrack s db t).1.ch = db.ch ∧
    (removeTrack s db t).1.ctl = db.ctl.filter (fun r => !(r.2 == t)) ∧
    ((removeTrack s db t).1.track.map (·.id)).Nodup ∧
    ∀ x, liveTrack (removeTrack s db t).1 x ↔ (liveTrack db x ∧ x ≠ t) := by
  have hbase : SameLive (db.track.filter (fun r => !(r.id == t))) (db.track.filter (fun r => !(r.id == t))) :=
    ⟨h.trackNodup.sublist (List.Sublist.map _ List.filter_sublist), fun _ _ => Iff.rfl⟩
  have hlive : ∀ tr' : List TrackRow, SameLive (db.track.filter (fun r => !(r.id == t))) tr' →
      ∀ x, (∃ r ∈ tr', r.id = x ∧ r.hasPath = true) ↔ (liveTrack db x ∧ x ≠ t) := by
    intro tr' hs x
    unfold liveTrack
    constructor
    · rintro ⟨r, hr, h1, h2⟩
      have := ((hs.2 r h2).mp hr)
      rw [List.mem_filter] at this
      refine ⟨⟨r, this.1, h1, h2⟩, ?_⟩
      rw [← h1]; simpa using this.2
    · rintro ⟨⟨r, hr, h1, h2⟩, hne⟩
      refine ⟨r, (hs.2 r h2).mpr ?_, h1, h2⟩
      rw [List.mem_filter]
      exact ⟨hr, by rw [h1]; simpa using hne⟩
  rw [removeTrack_unfold, deleteCtl_inv s h]
  split
  · obtain ⟨e1, e2, e3, e4, e5⟩ := trigger_fold (db.track.filter (fun r => !(r.id == t))) (db.track.filter (·.id == t))
      { db with ctl := db.ctl.filter (fun r => !(r.2 == t)), track := db.track.filter (fun r => !(r.id == t)) } hbase
    exact ⟨rfl, e1, e2, e3, e4, e5.1, fun x => hlive _ e5 x⟩
  · exact ⟨rfl, rfl, rfl, rfl, rfl, hbase.1, fun x => hlive _ hbase x⟩

theorem inv_removeTrack (s : Schema) (h : Inv db) (t : Id) : Inv (removeTrack s db t).1 := by
  obtain ⟨_, e1, e2, e3, e4, e5, e6⟩ := removeTrack_spec s h t
  refine Inv.of_crates_eq (db' := (removeTrack s db t).1) h e1 e2 e3 ?_ ?_ e5
  · rw [e4]; exact h.ctlNodup.sublist List.filter_sublist
  · intro r hr
    rw [e4, List.mem_filter] at hr
    refine ⟨(h.ctlLive r hr.1).1, (e6 r.2).mpr ⟨(h.ctlLive r hr.1).2, ?_⟩⟩
    simpa using hr.2

end EngineModel.Api.CratesV1
