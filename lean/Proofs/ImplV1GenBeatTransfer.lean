/-
Transfer of the C02 / C03 / C05 statements about the schema-1.x beat-data *decoder* (and the pair
encoder / decoder) from the hand model `Impl.V1.decodeBeat` to the model regenerated from the C++ sources
(`Gen.ImplV1.decodeBeat`, `decodeGrid`; tools/tr_blobs_v1.py), through `decodeBeat_eq` / `decodeGrid_eq`
(Proofs/ImplV1GenBeatDec.lean) and `encodeBeat_eq` (Proofs/ImplV1GenBeat.lean).

`beat_data::decode` wraps the two grids in `try … catch (const std::invalid_argument&)`; the family of
payloads only the C++ accepts (`missingSecondGrid`: a valid first grid followed by fewer than 8 zero bytes)
is therefore a property of the regenerated code as well (`gen_v1_beat_lenient`).
-/
import Proofs.ImplV1GenBeatDec
import Proofs.ImplV1GenEncTransfer

namespace EngineModel.Gen.ImplV1
open Codec Cur EngineModel.V1Proofs

/-- C05: no byte string makes the regenerated `beat_data::decode` produce an undefined-behaviour outcome (checked
`24 * count`, `result[i]` / `result[i - 1]`, `*ptr` in the trailer loop, the loop's termination). -/
theorem gen_v1_beat_safe (bs : Bytes) (u : Ub) : decodeBeat bs ≠ .ub u := by
  rw [decodeBeat_eq]; exact V1Proofs.decodeBeat_safe bs u

/-- C02: everything the Spec accepts, the regenerated decoder decodes to the same value. -/
theorem gen_v1_beat_of_spec (bs : Bytes) (v : Impl.V1.Beat) (h : V1.decodeBeat bs = some v) :
    decodeBeat bs = .ok v := by
  rw [decodeBeat_eq]; exact V1Proofs.decodeBeat_of_spec bs v h

/-- C02.  Full statement (FALSE of the code — the known `try … catch` leniency):
`∀ bs, decodeBeat bs = ofOpt (V1.decodeBeat bs)`.  Outside the `missingSecondGrid` family it holds. -/
theorem gen_v1_beat_spec_partial (bs : Bytes) (h : missingSecondGrid bs = false) :
    decodeBeat bs = ofOpt (V1.decodeBeat bs) := by
  rw [decodeBeat_eq]; exact V1Proofs.decodeBeat_eq bs h

/-- inside the family the regenerated decoder returns "no grids" or rejects -/
theorem gen_v1_beat_lenient (bs : Bytes) (h : missingSecondGrid bs = true) :
    ((∃ sr sc, decodeBeat bs = .ok ⟨sr, sc, [], []⟩) ∨ decodeBeat bs = .throw .invalid_argument) := by
  rw [decodeBeat_eq]; exact (V1Proofs.decodeBeat_lenient bs h).2

/-- C03 on the regenerated pair of `beat_data`: grids come back as they are, the two optional doubles as the format
reads them. -/
theorem gen_v1_beat_readback (v : Impl.V1.Beat) (h1 : V1.gridOk v.dflt = true) (h2 : V1.gridOk v.adj = true) :
    ∃ b, encodeBeat v = .ok b ∧
      decodeBeat b = .ok ⟨normOptF v.sampleRate, normOptF v.sampleCount, v.dflt, v.adj⟩ := by
  refine ⟨_, by rw [encodeBeat_eq]; exact encodeBeat_ok v h1 h2, ?_⟩
  exact gen_v1_beat_of_spec _ _ (spec_beat_roundtrip v h1 h2)

example : missingSecondGrid (List.replicate 16 0 ++ [1] ++ List.replicate 16 0) = false := by decide
example : V1.gridOk [⟨0, 0⟩, ⟨4, 0x40d5888000000000⟩] = true := by decide
example : decodeBeat (List.replicate 16 0 ++ [1] ++ List.replicate 16 0) = .ok ⟨none, none, [], []⟩ := by decide

end EngineModel.Gen.ImplV1
