/-
Schema 2.x crates: every query / guard of the Model on the Playlist table is the
corresponding Spec.Forest query on the abstraction `absF d`; and what the table
operations do to `absF`.
-/
import Proofs.V2Abs
import Proofs.SpecForestWf

set_option linter.dupNamespace false

namespace EngineModel.Db.V2

open EngineModel.Db.Chain EngineModel.Spec EngineModel.Spec.Forest EngineModel.ListAux

def rowCrate (r : Row Bytes) : Forest.Crate := ⟨r.id, r.val, parentOpt r.key⟩

theorem absF_crates (d : Db) : (absF d).crates = d.pl.map rowCrate := by
  simp [absF, cores, rowCrate, crateOf, core, Function.comp_def]

theorem absF_ids (d : Db) : (absF d).ids = ids d.pl := by
  simp [Forest.ids, absF_crates, ids, rowCrate, Function.comp_def]

theorem absF_congr {d d' : Db} (h : d'.pl = d.pl) : absF d' = absF d := by
  simp [absF, h]

theorem parentOpt_inj {a b : Int} : parentOpt a = parentOpt b ↔ a = b := by
  unfold parentOpt
  constructor
  · intro h
    by_cases ha : a = 0 <;> by_cases hb : b = 0 <;> simp [ha, hb] at h <;> omega
  · intro h; rw [h]

theorem parentOpt_of_ne {a : Int} (h : a ≠ 0) : parentOpt a = some a := by simp [parentOpt, h]

theorem parentOpt_keyOf {p : Option Int} (h : ∀ q, p = some q → q ≠ 0) : parentOpt (keyOf p) = p := by
  cases p with
  | none => rfl
  | some q => exact parentOpt_of_ne (h q rfl)

theorem parentOpt_eq_none {a : Int} : parentOpt a = none ↔ a = 0 := by
  unfold parentOpt; by_cases h : a = 0 <;> simp [h]

theorem parentOpt_eq_some {a q : Int} : parentOpt a = some q ↔ a = q ∧ q ≠ 0 := by
  unfold parentOpt
  by_cases h : a = 0
  · simp [h]; intro e; exact e.symm
  · simp [h]; intro e; rw [← e]; exact h

theorem absF_find (d : Db) (c : Int) : (absF d).find c = (get d.pl c).map rowCrate := by
  unfold Forest.find Chain.get
  rw [absF_crates, List.find?_map]
  rfl

theorem absF_parentOf (d : Db) (c : Int) : (absF d).parentOf c = (get d.pl c).bind (fun r => parentOpt r.key) := by
  unfold Forest.parentOf
  rw [absF_find]
  cases get d.pl c <;> rfl

theorem absF_nameOf (d : Db) (c : Int) : (absF d).nameOf c = (get d.pl c).map (·.val) := by
  unfold Forest.nameOf
  rw [absF_find]
  cases get d.pl c <;> rfl

theorem plExists_iff {d : Db} {c : Int} : plExists d c = true ↔ c ∈ ids d.pl := by
  unfold plExists
  simp only [gt_iff_lt, decide_eq_true_eq, List.length_pos_iff, ne_eq, List.filter_eq_nil_iff, beq_iff_eq, ids,
    List.mem_map]
  constructor
  · intro h
    apply Classical.byContradiction
    intro hc
    apply h
    intro r hr e
    exact hc ⟨r, hr, e⟩
  · rintro ⟨r, hr, e⟩ h
    exact h r hr e

theorem plExists_eq_live (d : Db) (c : Int) : plExists d c = (absF d).live c := by
  have h1 := @plExists_iff d c
  have h2 := @Forest.live_iff (absF d) c
  rw [absF_ids] at h2
  cases ha : plExists d c <;> cases hb : (absF d).live c <;> simp_all

theorem get_isSome_iff {α : Type} {t : Table α} {c : Int} : (Chain.get t c).isSome = true ↔ c ∈ ids t := by
  cases hg : Chain.get t c with
  | none => simpa using get_none hg
  | some r =>
    obtain ⟨hr, e⟩ := get_some hg
    simp only [Option.isSome_some, true_iff, ids, List.mem_map]
    exact ⟨r, hr, e⟩

/-- The Spec's descendants of `c`, on the abstraction of the table (proof-level name). -/
def descSet (d : Db) (c : Int) : List Int := (absF d).descendants c

theorem mem_descSet {d : Db} {c x : Int} :
    x ∈ descSet d c ↔ x ∈ ids d.pl ∧ (absF d).isAncestor c x = true := by
  unfold descSet Forest.descendants
  rw [absF_crates]
  simp only [List.mem_map, List.mem_filter, ids, rowCrate]
  constructor
  · rintro ⟨_, ⟨⟨r, hr, rfl⟩, ha⟩, rfl⟩; exact ⟨⟨r, hr, rfl⟩, ha⟩
  · rintro ⟨⟨r, hr, rfl⟩, ha⟩; exact ⟨_, ⟨⟨r, hr, rfl⟩, ha⟩, rfl⟩

/-! ### the recursive view `PlaylistAllChildren` computes the Spec's descendants -/

theorem mem_kidsOf {t : Table Bytes} {c x : Int} : x ∈ kidsOf t c ↔ ∃ r ∈ t, r.id = x ∧ r.key = c := by
  simp only [kidsOf, List.mem_map, List.mem_filter, beq_iff_eq]
  constructor
  · rintro ⟨r, ⟨hr, hk⟩, rfl⟩; exact ⟨r, hr, rfl, hk⟩
  · rintro ⟨r, hr, rfl, hk⟩; exact ⟨r, ⟨hr, hk⟩, rfl⟩

/-- "x is a row with parentListId y" is the Spec's parent link (y ≠ 0). -/
theorem kid_iff_parent {d : Db} (hn : (ids d.pl).Nodup) {x y : Int} (hy : y ≠ 0) :
    x ∈ kidsOf d.pl y ↔ (absF d).parentOf x = some y := by
  rw [mem_kidsOf, absF_parentOf]
  constructor
  · rintro ⟨r, hr, rfl, hk⟩
    rw [get_of_mem hn hr]
    simp [hk, parentOpt_of_ne hy]
  · intro h
    cases hg : Chain.get d.pl x with
    | none => rw [hg] at h; simp at h
    | some r =>
      rw [hg] at h
      simp only [Option.bind_some] at h
      obtain ⟨hr, hid⟩ := get_some hg
      exact ⟨r, hr, hid, (parentOpt_eq_some.mp h).1⟩

/-- In a well-formed forest an upward path visits pairwise different live crates: it is shorter than the table. -/
theorem up_lt_length {f : Forest.Forest} (hW : Forest.Wf f) {j : Nat} {x a : Int} (hx : x ∈ f.ids)
    (h : Forest.up f j x = some a) : j < f.crates.length := by
  let g : Nat → Int := fun i => (Forest.up f i x).getD 0
  have hg : ∀ i, i ≤ j → Forest.up f i x = some (g i) := by
    intro i hi
    obtain ⟨y, hy⟩ := Forest.up_prefix h hi
    simp [g, hy]
  have hinj : ∀ i i', i < i' → i' < j + 1 → g i ≠ g i' := by
    intro i i' hlt hle e
    have h1 := hg i (by omega)
    have h2 := hg i' (by omega)
    have : Forest.up f (i' - i) (g i) = some (g i) := by
      have hadd : Forest.up f (i + (i' - i)) x = (Forest.up f i x).bind (Forest.up f (i' - i)) := Forest.up_add f i (i' - i) x
      have e2 : i + (i' - i) = i' := by omega
      rw [e2, h2, h1] at hadd
      simp only [Option.bind_some] at hadd
      rw [← hadd, e]
    have hanc : f.isAncestor (g i) (g i) = true := (Forest.isAncestor_iff f _ _).mpr ⟨i' - i, by omega, this⟩
    rw [hW.acyclic] at hanc
    exact absurd hanc (by simp)
  have hnd := nodup_map_range hinj
  have hsub : ∀ y ∈ (List.range (j + 1)).map g, y ∈ f.ids := by
    intro y hy
    obtain ⟨i, hi, rfl⟩ := List.mem_map.mp hy
    have hi' := List.mem_range.mp hi
    cases i with
    | zero =>
      have := hg 0 (by omega)
      simp only [Forest.up, Option.some.injEq] at this
      rw [← this]; exact hx
    | succ i =>
      have h1 := hg i (by omega)
      have h2 := hg (i + 1) (by omega)
      rw [Forest.up_succ', h1] at h2
      simp only [Option.bind_some] at h2
      obtain ⟨c, hc, _, e2⟩ := Forest.parentOf_some h2
      exact hW.parent_live c hc _ e2
  have := length_le_of_nodup_subset hnd hsub
  simp [Forest.ids] at this
  omega

/-- The level-wise recursion of the view, started with the nodes at distance `k ≥ 1` below `c`, returns the nodes at
distances `k … k+n-1`, provided there is none at distance `k+n` (otherwise it does not terminate). -/
theorem levels_spec {d : Db} (hW : Forest.Wf (absF d)) (c : Int) :
    ∀ (n k : Nat) (L : List Int), 1 ≤ k → (∀ x, x ∈ L ↔ Forest.up (absF d) k x = some c) →
      (∀ x, Forest.up (absF d) (k + n) x ≠ some c) →
      ∃ R, levels d.pl n L = .ok R ∧ ∀ x, x ∈ R ↔ ∃ j, k ≤ j ∧ j < k + n ∧ Forest.up (absF d) j x = some c := by
  have hn : (ids d.pl).Nodup := by rw [← absF_ids]; exact hW.ids_nodup
  intro n
  induction n with
  | zero =>
    intro k L _ hL hend
    cases L with
    | nil => exact ⟨[], rfl, by intro x; simp; intro j h1 h2; omega⟩
    | cons a l =>
      exfalso
      exact hend a ((hL a).mp (by simp))
  | succ n ih =>
    intro k L hk hL hend
    cases hLe : L with
    | nil =>
      refine ⟨[], by simp [levels], ?_⟩
      intro x
      simp only [List.not_mem_nil, false_iff, not_exists, not_and]
      intro j h1 _ h3
      -- a node at distance j ≥ k has an ancestor-or-self at distance k, which would be in L = []
      have e : j = (j - k) + k := by omega
      rw [e, Forest.up_add] at h3
      cases hu : Forest.up (absF d) (j - k) x with
      | none => simp [hu] at h3
      | some y =>
        simp only [hu, Option.bind_some] at h3
        have := (hL y).mpr h3
        rw [hLe] at this; simp at this
    | cons a l =>
      rw [← hLe]
      have hnext : ∀ x, x ∈ L.flatMap (kidsOf d.pl) ↔ Forest.up (absF d) (k + 1) x = some c := by
        intro x
        simp only [List.mem_flatMap]
        constructor
        · rintro ⟨y, hy, hxy⟩
          have hyc := (hL y).mp hy
          have hy0 : y ≠ 0 := by
            -- y has a parent chain of length k ≥ 1, so it is a live crate
            cases k with
            | zero => omega
            | succ k' =>
              simp only [Forest.up] at hyc
              cases hp : (absF d).parentOf y with
              | none => simp [hp] at hyc
              | some p =>
                have hl := Forest.live_of_parentOf hp
                obtain ⟨cr, hcr, e⟩ := Forest.mem_ids.mp hl
                have hpos : 0 < y := by rw [← e]; exact hW.id_pos cr hcr
                exact Int.ne_of_gt hpos
          have hp := (kid_iff_parent hn hy0).mp hxy
          simp [Forest.up, hp, hyc]
        · intro h
          simp only [Forest.up] at h
          cases hp : (absF d).parentOf x with
          | none => simp [hp] at h
          | some y =>
            simp only [hp, Option.bind_some] at h
            have hy := (hL y).mpr h
            have hy0 : y ≠ 0 := by
              obtain ⟨cr, hcr, _, e2⟩ := Forest.parentOf_some hp
              have hl := hW.parent_live cr hcr y e2
              obtain ⟨cy, hcy, e⟩ := Forest.mem_ids.mp hl
              have hpos : 0 < y := by rw [← e]; exact hW.id_pos cy hcy
              exact Int.ne_of_gt hpos
            exact ⟨y, hy, (kid_iff_parent hn hy0).mpr hp⟩
      obtain ⟨R', hR', hmem⟩ := ih (k + 1) (L.flatMap (kidsOf d.pl)) (by omega) hnext
        (by intro x; have := hend x; rwa [show k + 1 + n = k + (n + 1) by omega])
      refine ⟨L ++ R', ?_, ?_⟩
      · have : L ≠ [] := by rw [hLe]; simp
        cases hL' : L with
        | nil => exact absurd hL' this
        | cons b l' =>
          rw [← hL']
          show (levels d.pl (n + 1) L) = _
          rw [hL']
          simp only [levels]
          rw [← hL', hR']
          rfl
      · intro x
        rw [List.mem_append, hL x, hmem x]
        constructor
        · rintro (h | ⟨j, h1, h2, h3⟩)
          · exact ⟨k, by omega, by omega, h⟩
          · exact ⟨j, by omega, by omega, h3⟩
        · rintro ⟨j, h1, h2, h3⟩
          by_cases hjk : j = k
          · left; rw [← hjk]; exact h3
          · right; exact ⟨j, by omega, by omega, h3⟩

/-- playlist_table::descendant_ids on a well-formed table terminates and returns exactly the Spec's descendants
(as a set; the order within a level is SQLite's scan order). -/
theorem descendantIds_ok {d : Db} (hW : Forest.Wf (absF d)) (c : Int) :
    ∃ l, descendantIds d.pl c = .ok l ∧ ∀ x, x ∈ l ↔ x ∈ descSet d c := by
  have hn : (ids d.pl).Nodup := by rw [← absF_ids]; exact hW.ids_nodup
  unfold descendantIds
  by_cases hc : (ids d.pl).contains c = true
  · rw [if_pos hc]
    have hcl : c ∈ ids d.pl := List.contains_iff_mem.mp hc
    have hc0 : c ≠ 0 := by
      simp only [ids, List.mem_map] at hcl
      obtain ⟨r, hr, e⟩ := hcl
      have := hW.id_pos (rowCrate r) (by rw [absF_crates]; exact List.mem_map.mpr ⟨r, hr, rfl⟩)
      simp only [rowCrate] at this
      have hpos : 0 < c := by rw [← e]; exact this
      exact Int.ne_of_gt hpos
    have hlen : d.pl.length = (absF d).crates.length := by rw [absF_crates, List.length_map]
    obtain ⟨R, hR, hmem⟩ := levels_spec hW c d.pl.length 1 (kidsOf d.pl c) (by omega)
      (by intro x; rw [kid_iff_parent hn hc0]; simp [Forest.up])
      (by
        intro x h
        by_cases hx : x ∈ (absF d).ids
        · have := up_lt_length hW hx h
          omega
        · have hnone : (absF d).parentOf x = none := by
            cases hp : (absF d).parentOf x with
            | none => rfl
            | some p => exact absurd (Forest.live_of_parentOf hp) hx
          rw [show 1 + d.pl.length = d.pl.length + 1 by omega] at h
          simp [Forest.up, hnone] at h)
    refine ⟨R, hR, ?_⟩
    intro x
    rw [hmem x, mem_descSet]
    constructor
    · rintro ⟨j, h1, _, h3⟩
      have hanc : (absF d).isAncestor c x = true := (Forest.isAncestor_iff _ _ _).mpr ⟨j, h1, h3⟩
      exact ⟨by rw [← absF_ids]; exact Forest.descendant_live hanc, hanc⟩
    · rintro ⟨hx, hanc⟩
      obtain ⟨j, h1, h3⟩ := (Forest.isAncestor_iff _ _ _).mp hanc
      have := up_lt_length hW (by rw [absF_ids]; exact hx) h3
      exact ⟨j, h1, by omega, h3⟩
  · rw [if_neg hc]
    refine ⟨[], rfl, ?_⟩
    intro x
    simp only [List.not_mem_nil, false_iff]
    intro hx
    have hanc := (mem_descSet.mp hx).2
    have := hW.ancestor_live hanc
    rw [absF_ids] at this
    exact hc (List.contains_iff_mem.mpr this)

theorem findId_isSome (d : Db) (k : Int) (n : Bytes) :
    (findId d k n).isSome = (absF d).nameTaken (parentOpt k) n none := by
  unfold findId Forest.nameTaken
  rw [absF_crates, List.any_map]
  rw [Option.isSome_map]
  have h1 : ((d.pl.filter (fun r => r.val == n && r.key == k)).getLast?).isSome
      = d.pl.any (fun r => r.val == n && r.key == k) := by
    cases hl : (d.pl.filter (fun r => r.val == n && r.key == k)).getLast? with
    | none =>
      have := List.getLast?_eq_none_iff.mp hl
      rw [List.filter_eq_nil_iff] at this
      symm
      simp only [Option.isSome_none]
      rw [List.any_eq_false]
      exact this
    | some r =>
      have hm := List.mem_of_getLast? hl
      simp only [Option.isSome_some]
      symm
      rw [List.any_eq_true]
      exact ⟨r, (List.mem_filter.mp hm).1, (List.mem_filter.mp hm).2⟩
  rw [h1]
  congr 1
  funext r
  simp only [Function.comp, rowCrate]
  by_cases hk : r.key = k
  · simp [hk, Bool.and_comm]
  · have : ¬ parentOpt r.key = parentOpt k := fun e => hk (parentOpt_inj.mp e)
    have e1 : (r.key == k) = false := beq_false_of_ne hk
    have e2 : (parentOpt r.key == parentOpt k) = false := beq_false_of_ne this
    rw [e1, e2]; simp

theorem titleClash_eq (d : Db) (i k : Int) (n : Bytes) :
    titleClash d.pl i k n = (absF d).nameTaken (parentOpt k) n (some i) := by
  unfold titleClash Forest.nameTaken
  rw [absF_crates, List.any_map]
  congr 1
  funext r
  simp only [Function.comp, rowCrate]
  by_cases hk : r.key = k
  · by_cases hi : r.id = i
    · simp [hk, hi]
    · have e3 : (r.id != i) = true := by simpa using hi
      have e4 : (some r.id != some i) = true := by simpa using hi
      rw [e3, e4]; simp [hk]
  · have : ¬ parentOpt r.key = parentOpt k := fun e => hk (parentOpt_inj.mp e)
    have e1 : (r.key == k) = false := beq_false_of_ne hk
    have e2 : (parentOpt r.key == parentOpt k) = false := beq_false_of_ne this
    rw [e1, e2]; simp

theorem ensureValidName_eq (n : Bytes) :
    ensureValidName n = if Forest.validName n then .ok () else .throw (exn "crate_invalid_name") := by
  unfold ensureValidName Forest.validName
  have : semicolon = Forest.semicolon := rfl
  rw [← this]
  by_cases h1 : n.isEmpty = true
  · simp [h1]
  · by_cases h2 : n.contains semicolon = true
    · simp [h1, h2]
    · simp [h1, h2]

/-! ### listings as sets -/

theorem absF_roots (d : Db) : (absF d).roots = ids (rowsOf d.pl 0) := by
  unfold Forest.roots rowsOf ids
  rw [absF_crates, List.filter_map, List.map_map]
  have : ((fun x : Forest.Crate => x.parent == none) ∘ rowCrate) = fun r => r.key == 0 := by
    funext r
    simp only [Function.comp, rowCrate]
    by_cases h : r.key = 0
    · simp [h, parentOpt]
    · simp [h, parentOpt]
  rw [this]
  rfl

theorem absF_children (d : Db) {c : Int} (hc : c ≠ 0) : (absF d).children c = ids (rowsOf d.pl c) := by
  unfold Forest.children rowsOf ids
  rw [absF_crates, List.filter_map, List.map_map]
  have : ((fun x : Forest.Crate => x.parent == some c) ∘ rowCrate) = fun r => r.key == c := by
    funext r
    simp only [Function.comp, rowCrate]
    by_cases h : r.key = c
    · simp [h, parentOpt, hc]
    · by_cases h0 : r.key = 0
      · have : ¬ (0 = c) := fun e => hc e.symm
        simp [h0, parentOpt, this]
      · simp [h, parentOpt, h0]
  rw [this]
  rfl

/-! ### what the table operations do to the forest -/

theorem absF_insert (d : Db) (i k b : Int) (title : Bytes) (seq : Int) :
    absF { d with pl := insertBefore d.pl i k b title, plSeq := seq } = ⟨(absF d).crates ++ [⟨i, title, parentOpt k⟩]⟩ := by
  simp only [absF, cores_insertBefore, List.map_append, List.map_cons, List.map_nil]
  rfl

theorem absF_setVal (d : Db) (i : Int) (title : Bytes) :
    absF { d with pl := setVal d.pl i title } = Forest.setNameOf (absF d) i title := by
  simp only [absF, cores_setVal, Forest.setNameOf, List.map_map]
  congr 1
  apply List.map_congr_left
  intro c _
  simp only [Function.comp, crateOf]
  by_cases h : (c.1 == i) = true <;> simp [h]

theorem absF_move (d : Db) (i ok on nk tg : Int) (v : Bytes) (hv : ∀ r ∈ d.pl, r.id = i → r.val = v) :
    absF { d with pl := move d.pl i ok on nk tg v } = Forest.setParentOf (absF d) i (parentOpt nk) := by
  simp only [absF, cores_move, Forest.setParentOf, List.map_map]
  congr 1
  apply List.map_congr_left
  intro c hc
  obtain ⟨r, hr, rfl⟩ := mem_cores.mp hc
  simp only [Function.comp, crateOf, core]
  by_cases h : r.id = i
  · simp [h, hv r hr h]
  · simp [h]

theorem setNameOf_same {f : Forest.Forest} {c : Int} {n : Bytes} (h : ∀ x ∈ f.crates, x.id = c → x.name = n) :
    Forest.setNameOf f c n = f := by
  unfold Forest.setNameOf
  congr 1
  conv => rhs; rw [← List.map_id f.crates]
  apply List.map_congr_left
  intro x hx
  by_cases hc : x.id = c
  · have := h x hx hc
    simp only [id, hc, beq_self_eq_true, if_true]
    rw [← this, ← hc]
  · simp [hc]

theorem setParentOf_same {f : Forest.Forest} {c : Int} {p : Option Int} (h : ∀ x ∈ f.crates, x.id = c → x.parent = p) :
    Forest.setParentOf f c p = f := by
  unfold Forest.setParentOf
  congr 1
  conv => rhs; rw [← List.map_id f.crates]
  apply List.map_congr_left
  intro x hx
  by_cases hc : x.id = c
  · have := h x hx hc
    simp only [id, hc, beq_self_eq_true, if_true]
    rw [← this, ← hc]
  · simp [hc]

end EngineModel.Db.V2
