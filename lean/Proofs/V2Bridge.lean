/-
Schema 2.x crates: every query / guard of the Model on the Playlist table is the
corresponding Spec.Forest query on the abstraction `absF d`; and what the table
operations do to `absF`.
-/
import Proofs.V2Abs
import Proofs.SpecForestWf

set_option linter.dupNamespace false

namespace EngineModel.Db.V2

open EngineModel.Db.Chain EngineModel.Spec EngineModel.Spec.Forest EngineModel.ListAux

def rowCrate (r : Row Bytes) : Forest.Crate := ⟨r.id, r.val, parentOpt r.key⟩

theorem absF_crates (d : Db) : (absF d).crates = d.pl.map rowCrate := by
  simp [absF, cores, rowCrate, crateOf, core, Function.comp_def]

theorem absF_ids (d : Db) : (absF d).ids = ids d.pl := by
  simp [Forest.ids, absF_crates, ids, rowCrate, Function.comp_def]

theorem absF_congr {d d' : Db} (h : d'.pl = d.pl) : absF d' = absF d := by
  simp [absF, h]

theorem parentOpt_inj {a b : Int} : parentOpt a = parentOpt b ↔ a = b := by
  unfold parentOpt
  constructor
  · intro h
    by_cases ha : a = 0 <;> by_cases hb : b = 0 <;> simp [ha, hb] at h <;> omega
  · intro h; rw [h]

theorem parentOpt_of_ne {a : Int} (h : a ≠ 0) : parentOpt a = some a := by simp [parentOpt, h]

theorem parentOpt_keyOf {p : Option Int} (h : ∀ q, p = some q → q ≠ 0) : parentOpt (keyOf p) = p := by
  cases p with
  | none => rfl
  | some q => exact parentOpt_of_ne (h q rfl)

theorem parentOpt_eq_none {a : Int} : parentOpt a = none ↔ a = 0 := by
  unfold parentOpt; by_cases h : a = 0 <;> simp [h]

theorem parentOpt_eq_some {a q : Int} : parentOpt a = some q ↔ a = q ∧ q ≠ 0 := by
  unfold parentOpt
  by_cases h : a = 0
  · simp [h]; intro e; exact e.symm
  · simp [h]; intro e; rw [← e]; exact h

theorem absF_find (d : Db) (c : Int) : (absF d).find c = (get d.pl c).map rowCrate := by
  unfold Forest.find Chain.get
  rw [absF_crates, List.find?_map]
  rfl

theorem absF_parentOf (d : Db) (c : Int) : (absF d).parentOf c = (get d.pl c).bind (fun r => parentOpt r.key) := by
  unfold Forest.parentOf
  rw [absF_find]
  cases get d.pl c <;> rfl

theorem absF_nameOf (d : Db) (c : Int) : (absF d).nameOf c = (get d.pl c).map (·.val) := by
  unfold Forest.nameOf
  rw [absF_find]
  cases get d.pl c <;> rfl

theorem plExists_iff {d : Db} {c : Int} : plExists d c = true ↔ c ∈ ids d.pl := by
  unfold plExists
  simp only [gt_iff_lt, decide_eq_true_eq, List.length_pos_iff, ne_eq, List.filter_eq_nil_iff, beq_iff_eq, ids,
    List.mem_map]
  constructor
  · intro h
    apply Classical.byContradiction
    intro hc
    apply h
    intro r hr e
    exact hc ⟨r, hr, e⟩
  · rintro ⟨r, hr, e⟩ h
    exact h r hr e

theorem plExists_eq_live (d : Db) (c : Int) : plExists d c = (absF d).live c := by
  have h1 := @plExists_iff d c
  have h2 := @Forest.live_iff (absF d) c
  rw [absF_ids] at h2
  cases ha : plExists d c <;> cases hb : (absF d).live c <;> simp_all

theorem get_isSome_iff {α : Type} {t : Table α} {c : Int} : (Chain.get t c).isSome = true ↔ c ∈ ids t := by
  cases hg : Chain.get t c with
  | none => simpa using get_none hg
  | some r =>
    obtain ⟨hr, e⟩ := get_some hg
    simp only [Option.isSome_some, true_iff, ids, List.mem_map]
    exact ⟨r, hr, e⟩

theorem isAncFuel_eq (d : Db) (a : Int) (n : Nat) (x : Int) :
    isAncFuel d.pl a n x = (absF d).isAncestorFuel a n x := by
  induction n generalizing x with
  | zero => rfl
  | succ n ih =>
    simp only [isAncFuel, Forest.isAncestorFuel, absF_parentOf]
    cases get d.pl x with
    | none => rfl
    | some r =>
      simp only [Option.bind_some]
      by_cases h0 : r.key = 0
      · simp [h0, parentOpt]
      · have : (r.key == 0) = false := by simpa using h0
        simp only [this, parentOpt_of_ne h0, ih]
        rfl

theorem isAnc_eq (d : Db) (a x : Int) : isAnc d.pl a x = (absF d).isAncestor a x := by
  unfold isAnc Forest.isAncestor
  rw [isAncFuel_eq, absF_crates, List.length_map]

theorem descendantIds_eq (d : Db) (c : Int) : descendantIds d.pl c = (absF d).descendants c := by
  unfold descendantIds Forest.descendants
  rw [absF_crates, List.filter_map, List.map_map]
  have : ((fun x : Forest.Crate => (absF d).isAncestor c x.id) ∘ rowCrate) = fun r => isAnc d.pl c r.id := by
    funext r; simp [Function.comp, rowCrate, isAnc_eq]
  rw [this]
  rfl

theorem mem_descendantIds {d : Db} {c x : Int} :
    x ∈ descendantIds d.pl c ↔ x ∈ ids d.pl ∧ (absF d).isAncestor c x = true := by
  unfold descendantIds
  simp only [List.mem_map, List.mem_filter, isAnc_eq, ids]
  constructor
  · rintro ⟨r, ⟨hr, ha⟩, rfl⟩; exact ⟨⟨r, hr, rfl⟩, ha⟩
  · rintro ⟨⟨r, hr, rfl⟩, ha⟩; exact ⟨r, ⟨hr, ha⟩, rfl⟩

theorem findId_isSome (d : Db) (k : Int) (n : Bytes) :
    (findId d k n).isSome = (absF d).nameTaken (parentOpt k) n none := by
  unfold findId Forest.nameTaken
  rw [absF_crates, List.any_map]
  rw [Option.isSome_map]
  have h1 : ((d.pl.filter (fun r => r.val == n && r.key == k)).getLast?).isSome
      = d.pl.any (fun r => r.val == n && r.key == k) := by
    cases hl : (d.pl.filter (fun r => r.val == n && r.key == k)).getLast? with
    | none =>
      have := List.getLast?_eq_none_iff.mp hl
      rw [List.filter_eq_nil_iff] at this
      symm
      simp only [Option.isSome_none]
      rw [List.any_eq_false]
      exact this
    | some r =>
      have hm := List.mem_of_getLast? hl
      simp only [Option.isSome_some]
      symm
      rw [List.any_eq_true]
      exact ⟨r, (List.mem_filter.mp hm).1, (List.mem_filter.mp hm).2⟩
  rw [h1]
  congr 1
  funext r
  simp only [Function.comp, rowCrate]
  by_cases hk : r.key = k
  · simp [hk, Bool.and_comm]
  · have : ¬ parentOpt r.key = parentOpt k := fun e => hk (parentOpt_inj.mp e)
    have e1 : (r.key == k) = false := beq_false_of_ne hk
    have e2 : (parentOpt r.key == parentOpt k) = false := beq_false_of_ne this
    rw [e1, e2]; simp

theorem titleClash_eq (d : Db) (i k : Int) (n : Bytes) :
    titleClash d.pl i k n = (absF d).nameTaken (parentOpt k) n (some i) := by
  unfold titleClash Forest.nameTaken
  rw [absF_crates, List.any_map]
  congr 1
  funext r
  simp only [Function.comp, rowCrate]
  by_cases hk : r.key = k
  · by_cases hi : r.id = i
    · simp [hk, hi]
    · have e3 : (r.id != i) = true := by simpa using hi
      have e4 : (some r.id != some i) = true := by simpa using hi
      rw [e3, e4]; simp [hk]
  · have : ¬ parentOpt r.key = parentOpt k := fun e => hk (parentOpt_inj.mp e)
    have e1 : (r.key == k) = false := beq_false_of_ne hk
    have e2 : (parentOpt r.key == parentOpt k) = false := beq_false_of_ne this
    rw [e1, e2]; simp

theorem ensureValidName_eq (n : Bytes) :
    ensureValidName n = if Forest.validName n then .ok () else .throw (exn "crate_invalid_name") := by
  unfold ensureValidName Forest.validName
  have : semicolon = Forest.semicolon := rfl
  rw [← this]
  by_cases h1 : n.isEmpty = true
  · simp [h1]
  · by_cases h2 : n.contains semicolon = true
    · simp [h1, h2]
    · simp [h1, h2]

/-! ### listings as sets -/

theorem absF_roots (d : Db) : (absF d).roots = ids (rowsOf d.pl 0) := by
  unfold Forest.roots rowsOf ids
  rw [absF_crates, List.filter_map, List.map_map]
  have : ((fun x : Forest.Crate => x.parent == none) ∘ rowCrate) = fun r => r.key == 0 := by
    funext r
    simp only [Function.comp, rowCrate]
    by_cases h : r.key = 0
    · simp [h, parentOpt]
    · simp [h, parentOpt]
  rw [this]
  rfl

theorem absF_children (d : Db) {c : Int} (hc : c ≠ 0) : (absF d).children c = ids (rowsOf d.pl c) := by
  unfold Forest.children rowsOf ids
  rw [absF_crates, List.filter_map, List.map_map]
  have : ((fun x : Forest.Crate => x.parent == some c) ∘ rowCrate) = fun r => r.key == c := by
    funext r
    simp only [Function.comp, rowCrate]
    by_cases h : r.key = c
    · simp [h, parentOpt, hc]
    · by_cases h0 : r.key = 0
      · have : ¬ (0 = c) := fun e => hc e.symm
        simp [h0, parentOpt, this]
      · simp [h, parentOpt, h0]
  rw [this]
  rfl

/-! ### what the table operations do to the forest -/

theorem absF_insert (d : Db) (i k b : Int) (title : Bytes) (seq : Int) :
    absF { d with pl := insertBefore d.pl i k b title, plSeq := seq } = ⟨(absF d).crates ++ [⟨i, title, parentOpt k⟩]⟩ := by
  simp only [absF, cores_insertBefore, List.map_append, List.map_cons, List.map_nil]
  rfl

theorem absF_setVal (d : Db) (i : Int) (title : Bytes) :
    absF { d with pl := setVal d.pl i title } = Forest.setNameOf (absF d) i title := by
  simp only [absF, cores_setVal, Forest.setNameOf, List.map_map]
  congr 1
  apply List.map_congr_left
  intro c _
  simp only [Function.comp, crateOf]
  by_cases h : (c.1 == i) = true <;> simp [h]

theorem absF_move (d : Db) (i ok on nk tg : Int) (v : Bytes) (hv : ∀ r ∈ d.pl, r.id = i → r.val = v) :
    absF { d with pl := move d.pl i ok on nk tg v } = Forest.setParentOf (absF d) i (parentOpt nk) := by
  simp only [absF, cores_move, Forest.setParentOf, List.map_map]
  congr 1
  apply List.map_congr_left
  intro c hc
  obtain ⟨r, hr, rfl⟩ := mem_cores.mp hc
  simp only [Function.comp, crateOf, core]
  by_cases h : r.id = i
  · simp [h, hv r hr h]
  · simp [h]

theorem setNameOf_same {f : Forest.Forest} {c : Int} {n : Bytes} (h : ∀ x ∈ f.crates, x.id = c → x.name = n) :
    Forest.setNameOf f c n = f := by
  unfold Forest.setNameOf
  congr 1
  conv => rhs; rw [← List.map_id f.crates]
  apply List.map_congr_left
  intro x hx
  by_cases hc : x.id = c
  · have := h x hx hc
    simp only [id, hc, beq_self_eq_true, if_true]
    rw [← this, ← hc]
  · simp [hc]

theorem setParentOf_same {f : Forest.Forest} {c : Int} {p : Option Int} (h : ∀ x ∈ f.crates, x.id = c → x.parent = p) :
    Forest.setParentOf f c p = f := by
  unfold Forest.setParentOf
  congr 1
  conv => rhs; rw [← List.map_id f.crates]
  apply List.map_congr_left
  intro x hx
  by_cases hc : x.id = c
  · have := h x hx hc
    simp only [id, hc, beq_self_eq_true, if_true]
    rw [← this, ← hc]
  · simp [hc]

end EngineModel.Db.V2
