/-
Projections of the composite run on its components, and closing + loading again.

* `crOps`: the crates-package operations a history of composite calls performs on `L.cr` (a `create_track` that
  throws performs none; `update`, setters and observers perform none).  `run_cr`: the crate tables + Track key table
  of the composite run ARE the crates package's run over `crOps` — so every theorem of C07 / C08 / C11 (1.x), proved
  there for all operation lists, holds of the composite for all histories of calls.
* `reload_eq`: under `LibInv`, `reload s L = some (s, L)`: the schema is re-detected from the version stamp and the
  two files hold exactly what the handles showed (each PerformanceData row is found again under its track's id —
  this is where "perfdata ids mirror music ids" and the primary key of Track are used).
-/
import Proofs.Lib1Inv

namespace EngineModel.Lib.V1
open EngineModel.Api
open EngineModel.Api.CratesV1 (liveTrack trackAutoinc)
open EngineModel.TracksV1 (Snap Field TrackRows PerfRow aget aset TableOk DbInv KeysDistinct dbCreate)
open EngineModel.TracksV1.Fl (FOps)

def crOp (o : FOps) (L : Lib1) : Call → Option CratesV1.Op
  | .createRootCrate n => some (.createRoot n)
  | .createRootCrateAfter n _ => some (.createRoot n)
  | .createTrack x => if (dbCreate o L.tr x).isOk then some .createTrack else none
  | .removeCrate c => some (.removeCrate c)
  | .removeTrack t => some (.removeTrack t)
  | .addTrack c t => some (.addTrack c t)
  | .crateRemoveTrack c t => some (.removeTrackFrom c t)
  | .clearTracks c => some (.clearTracks c)
  | .createSubCrate c n => some (.createSub c n)
  | .createSubCrateAfter c n _ => some (.createSub c n)
  | .setName c n => some (.rename c n)
  | .setParent c p => some (.setParent c p)
  | _ => none

def crOps (o : FOps) (s : VSchema) : Lib1 → List Call → List CratesV1.Op
  | _, [] => []
  | L, c :: cs => (crOp o L c).toList ++ crOps o s (step o s L c).1 cs

theorem crOps_cons (o : FOps) (s : VSchema) (L : Lib1) (c : Call) (cs : List Call) :
    crOps o s L (c :: cs) = (crOp o L c).toList ++ crOps o s (step o s L c).1 cs := rfl

theorem viaTracks_cr (L : Lib1) (r : Res TracksV1.Db) : (viaTracks L r).1.cr = L.cr := by
  cases r <;> rfl

theorem step_cr (o : FOps) (s : VSchema) (L : Lib1) (c : Call) :
    (step o s L c).1.cr = match crOp o L c with
      | some op => (CratesV1.step (toDetect s) L.cr op).1
      | none => L.cr := by
  by_cases hc : c.isObserver = true
  · rw [step_observer o s L c hc]
    cases c <;> first | (cases hc; done) | rfl
  · cases c with
    | createTrack x =>
      obtain ⟨id, seq, hcr, _⟩ := CratesV1.createTrack_spec (toDetect s) L.cr
      show (createTrack o s L x).1.cr = _
      unfold createTrack crOp
      rw [hcr]
      simp only
      cases hd : dbCreate o L.tr x with
      | ok p => simp only [Res.isOk, if_true]; show _ = (CratesV1.createTrack (toDetect s) L.cr).1; rw [hcr]
      | throw e => simp [Res.isOk]
      | ub u => simp [Res.isOk]
    | update t x => exact viaTracks_cr L _
    | set t f v => exact viaTracks_cr L _
    | createRootCrate n => rfl
    | createRootCrateAfter n a => rfl
    | removeCrate c => rfl
    | removeTrack t => rfl
    | addTrack c t => rfl
    | crateRemoveTrack c t => rfl
    | clearTracks c => rfl
    | createSubCrate c n => rfl
    | createSubCrateAfter c n a => rfl
    | setName c n => rfl
    | setParent c p => rfl
    | _ => exact absurd rfl hc

theorem run_cr (o : FOps) (s : VSchema) : ∀ (cs : List Call) (L : Lib1),
    (run o s L cs).cr = CratesV1.run (toDetect s) L.cr (crOps o s L cs) := by
  intro cs
  induction cs with
  | nil => intro L; rfl
  | cons c cs ih =>
    intro L
    rw [run_cons, ih, step_cr, crOps_cons]
    cases crOp o L c with
    | none => rfl
    | some op => rfl

/-! ### closing and loading again -/

theorem aget_filterMap_none (l : List (Int × TrackRows)) (k : Int) (h : k ∉ l.map (·.1)) :
    aget k (l.filterMap fun e => e.2.perf.map fun p => (e.1, p)) = none := by
  induction l with
  | nil => rfl
  | cons a t ih =>
    simp only [List.map_cons, List.mem_cons, not_or] at h
    cases hp : a.2.perf with
    | none => simp only [List.filterMap_cons, hp, Option.map_none]; exact ih h.2
    | some p =>
      simp only [List.filterMap_cons, hp, Option.map_some, aget]
      rw [if_neg (fun e => h.1 e.symm)]
      exact ih h.2

theorem aget_filterMap_perf (l : List (Int × TrackRows)) (hk : (l.map (·.1)).Nodup) (e : Int × TrackRows) (he : e ∈ l) :
    aget e.1 (l.filterMap fun e => e.2.perf.map fun p => (e.1, p)) = e.2.perf := by
  induction l with
  | nil => cases he
  | cons a t ih =>
    simp only [List.map_cons, List.nodup_cons] at hk
    rcases List.mem_cons.mp he with rfl | ht
    · cases hp : e.2.perf with
      | none => simp only [List.filterMap_cons, hp, Option.map_none]; exact aget_filterMap_none t e.1 hk.1
      | some p => simp only [List.filterMap_cons, hp, Option.map_some, aget, if_true]
    · have hne : a.1 ≠ e.1 := fun heq => hk.1 (heq ▸ List.mem_map.mpr ⟨e, ht, rfl⟩)
      cases hp : a.2.perf with
      | none => simp only [List.filterMap_cons, hp, Option.map_none]; exact ih hk.2 ht
      | some p =>
        simp only [List.filterMap_cons, hp, Option.map_some, aget]
        rw [if_neg hne]
        exact ih hk.2 ht

theorem detect_stamp (s : VSchema) :
    Pure.Detect.specDetect (toDetect s).version.1 (toDetect s).version.2.1 (toDetect s).version.2.2 (markerOf s)
      = .schema (toDetect s) := by
  cases s <;> rfl

theorem ofDetect_toDetect (s : VSchema) : ofDetect (toDetect s) = some s := by
  cases s <;> rfl

theorem reload_eq {s : VSchema} {L : Lib1} (h : LibInv s L) : reload s L = some (s, L) := by
  unfold reload load store
  simp only
  rw [h.infoM, detect_stamp s]
  simp only [ofDetect_toDetect, Option.map_some, Option.some.injEq, Prod.mk.injEq, true_and]
  have hk : (L.tr.tracks.map (·.1)).Nodup := h.table.keys
  have htr : (L.tr.tracks.map (fun e => (e.1, { e.2 with perf := (none : Option PerfRow) }))).map
      (fun e => (e.1, { e.2 with perf := aget e.1 (L.tr.tracks.filterMap fun e => e.2.perf.map fun p => (e.1, p)) }))
      = L.tr.tracks := by
    rw [List.map_map]
    conv => rhs; rw [← List.map_id L.tr.tracks]
    apply List.map_congr_left
    intro e he
    simp only [Function.comp, id]
    rw [aget_filterMap_perf _ hk e he]
  rw [htr]
  have hs := h.schema
  obtain ⟨tr, cr, aa, im, ip, dir⟩ := L
  obtain ⟨sch, tracks⟩ := tr
  simp only at hs
  subst hs
  rfl

end EngineModel.Lib.V1
