/-
Composite 2.x library: stale handles along interleaved histories.  Track and crate ids are AUTOINCREMENT, so the id
of a removed track / crate is never issued again; everything follows from the packages' own "gone" theorems through
the composition theorems (`tdb_run`, `crates_run`).
-/
import Proofs.Lib2Sim
import Proofs.TracksV2Gone
import Proofs.TracksV2Main

namespace EngineModel.Lib.V2
open EngineModel EngineModel.Db.Chain EngineModel.TracksV2
open EngineModel.Table (Schema2)

/-- after `remove_track` of a track that has a row, the track is gone from the Track table and stays gone along every
later history of the composite (whatever is created, updated, removed meanwhile) -/
theorem gone_after_remove (ops : FOps) (s : Schema2) {L : Lib2} (h : LibCore s L) (t : Nat)
    (hf : (L.tdb.find t).isSome = true) (later : List Call) :
    Gone (run ops s (step ops s L (.removeTrack t)).1 later).tdb t := by
  rw [tdb_run]
  have e : (step ops s L (.removeTrack t)).1.tdb = (callRemove t L.tdb).1 := by
    rw [tdb_step]
    show ((callRemove t >>= fun _ => (pure 0 : M Nat)) L.tdb).1 = _
    exact fst_bind_pure _ _ _
  obtain ⟨row, hrow⟩ := Option.isSome_iff_exists.mp hf
  have hg := (gone_of_remove h.tr hrow).2
  rw [e]
  exact gone_run ops (toT s) _ (inv_callRemove t h.tr) hg

theorem callUpdate_none (ops : FOps) (s : TracksV2.Schema) {db : TDb} {t : Nat} (hg : db.find t = none) (x : Snap) :
    ∃ e, callUpdate ops s t x db = (db, .throw e) := by
  unfold callUpdate
  rw [M.lift_bind]
  rcases writeStore_total ops s x with ⟨r, hw⟩ | ⟨e, hw⟩
  · rw [hw]
    simp only []
    rw [M.bind_apply]
    unfold M.stmt
    simp only [updateStmt_none hg]
    exact ⟨_, rfl⟩
  · rw [hw]; exact ⟨e, rfl⟩

/-- every call through the handle of a track that has no row: what it answers, and that it writes nothing -/
theorem stale_track_calls (ops : FOps) (s : Schema2) {L : Lib2} (h : LibCore s L) (t : Nat) (hg : L.tdb.find t = none) :
    (step ops s L (.trackIsValid t)).2 = .ok (.bool false) ∧
    (step ops s L (.trackById (t : Int))).2 = .ok (.oid none) ∧
    (step ops s L (.trackSnapshot t)).2 = .throw (.dj "track_deleted") ∧
    (∀ g, (step ops s L (.trackGet t g)).2 = .throw .runtime_error) ∧
    (∀ σ, step ops s L (.trackSet t σ) = (L, .throw .runtime_error)) ∧
    (∀ x, ∃ e, step ops s L (.trackUpdate t x) = (L, .throw e)) ∧
    step ops s L (.removeTrack t) = (L, .throw .invalid_argument) ∧
    (∀ c, ∃ e, step ops s L (.crateAddTrack c (t : Int)) = (L, .throw e)) := by
  have hex : trackExists L (t : Int) = false := by
    unfold trackExists nat?
    simp [hg]
  refine ⟨by simp only [step, hg]; rfl, by simp only [step, hex]; rfl, by simp only [step, hg], ?_, ?_, ?_, ?_, ?_⟩
  · intro g
    simp only [step, trackQuery, bind, M2.bind, M2.track, selectRow_none hg]
  · intro σ
    have h1 : (trackCall ops s (.set t σ) L) = (L, .throw .runtime_error) := by
      unfold trackCall
      have : L.tdb.step ops (toT s) (.set t σ) = (L.tdb, .throw .runtime_error) := by
        show (callSet ops t σ >>= fun _ => (pure 0 : M Nat)) L.tdb = _
        rw [bind_pure_apply, callSet_none ops σ hg]; rfl
      simp only [this]
    simp only [step]; rw [m2_bind_apply, h1]
  · intro x
    obtain ⟨e, he⟩ := callUpdate_none ops (toT s) hg x
    refine ⟨e, ?_⟩
    have h1 : (trackCall ops s (.update t x) L) = (L, .throw e) := by
      unfold trackCall
      have : L.tdb.step ops (toT s) (.update t x) = (L.tdb, .throw e) := by
        show (callUpdate ops (toT s) t x >>= fun _ => (pure 0 : M Nat)) L.tdb = _
        rw [bind_pure_apply, he]; rfl
      simp only [this]
    simp only [step]; rw [m2_bind_apply, h1]
  · have hz : (L.tdb.rows.filter fun e => e.id == t).length = 0 := by
      rw [List.length_eq_zero_iff, List.filter_eq_nil_iff]
      intro e he
      simpa using find_none hg e he
    simp only [step]; rw [m2_bind_apply, removeTrack_eq]; simp only [hz, if_true]
  · intro c
    have hnot : ∀ v, (crateCall (.addTrack c (t : Int)) L).2 ≠ .ok v := by
      intro v hv
      unfold crateCall at hv
      simp only [EngineModel.Db.V2.step] at hv
      have ht' : L.crates.tracks.contains (t : Int) = false := by
        cases hh : L.crates.tracks.contains (t : Int) with
        | false => rfl
        | true =>
          have hm : (t : Int) ∈ L.tdb.rows.map (fun x => (x.id : Int)) := List.contains_iff_mem.mp hh
          obtain ⟨x, hx, e⟩ := List.mem_map.mp hm
          exact absurd (by omega) (find_none hg x hx)
      split at hv
      · cases hv
      · simp only [ht', Bool.not_false, if_true] at hv; cases hv
    have hst := crateCall_failed L _ hnot
    cases hr : (crateCall (.addTrack c (t : Int)) L).2 with
    | ok v => exact absurd hr (hnot v)
    | throw e =>
      refine ⟨e, ?_⟩
      simp only [step]; rw [m2_bind_apply]
      have : crateCall (.addTrack c (t : Int)) L = (L, .throw e) := Prod.ext hst hr
      rw [this]
    | ub u =>
      exfalso
      unfold crateCall at hr
      simp only [EngineModel.Db.V2.step] at hr
      split at hr
      · cases hr
      · split at hr
        · cases hr
        · unfold EngineModel.Db.V2.peAddBack at hr
          split at hr
          · split at hr <;> cases hr
          · cases hr

end EngineModel.Lib.V2
