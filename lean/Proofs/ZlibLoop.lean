/-
Totality of the `zlib_uncompress` loops over any inflate oracle that honours
an explicit call contract (a structure parameter — not an axiom).
-/
import EngineModel.Impl.Zlib
set_option linter.unusedVariables false

namespace EngineModel.Impl.Zlib

/-- The part of zlib.h's contract for `inflate()` the loops rely on.
`pot s a` bounds the number of bytes the stream can still produce from state
`s` when `a` more input bytes are available; every call consumes at most the
window, produces at most `avail_out`, and pays for its output out of `pot`;
`b` further input bytes add at most `ratio * b` (deflate: at most 1032). -/
structure Contract {σ : Type} (o : Oracle σ) where
  pot : σ → Nat → Nat
  ratio : Nat
  pot_mono : ∀ s a b, pot s a ≤ pot s (a + b)
  pot_input : ∀ s a b, pot s (a + b) ≤ pot s a + ratio * b
  step_ok : ∀ s win n,
    (o.step s win n).2.1 ≤ win.length ∧
    (o.step s win n).2.2.1.length ≤ n ∧
    pot (o.step s win n).2.2.2 (win.length - (o.step s win n).2.1) + (o.step s win n).2.2.1.length
      ≤ pot s win.length

/-- Steps still needed from a loop position. -/
def measure {σ} {o : Oracle σ} (c : Contract o) (endPos : Nat) (s : σ) (ptr : Nat) : Phase → Nat
  | .outer => c.pot s 0 + (c.ratio + 3) * (endPos - ptr) + 1
  | .inner win => c.pot s win.length + (c.ratio + 3) * (endPos - ptr) + 2

def Good (r : Res Bytes) : Prop := (∃ out, r = .ok out) ∨ r = .throw .system_error

theorem loop_total {σ} (o : Oracle σ) (c : Contract o) (buf : Bytes) (endPos : Nat)
    (hend : endPos ≤ buf.length) :
    ∀ (fuel : Nat) (s : σ) (ptr : Nat) (ph : Phase) (acc : Bytes),
      ptr ≤ endPos → measure c endPos s ptr ph ≤ fuel → Good (loop o buf endPos fuel s ptr ph acc) := by
  intro fuel
  induction fuel with
  | zero =>
    intro s ptr ph acc hp hm
    cases ph <;> simp [measure] at hm
  | succ fuel ih =>
    intro s ptr ph acc hp hm
    cases ph with
    | outer =>
      simp only [loop]
      generalize hav : (if ptr + chunk < endPos then chunk else endPos - ptr) = avail
      have havle : avail ≤ endPos - ptr := by
        rw [← hav]; split <;> omega
      have hreg : ¬ (buf.length < ptr + avail) := by omega
      simp only [hreg, if_false]
      by_cases h0 : avail = 0
      · simp only [h0, if_true]; exact Or.inr rfl
      · simp only [h0, if_false]
        apply ih
        · omega
        · simp only [measure] at hm ⊢
          have hwl : ((buf.drop ptr).take avail).length ≤ avail := by simp; omega
          have h1 := c.pot_input s 0 ((buf.drop ptr).take avail).length
          simp only [Nat.zero_add] at h1
          have h2 : c.ratio * ((buf.drop ptr).take avail).length ≤ c.ratio * avail :=
            Nat.mul_le_mul_left _ hwl
          have h3 : endPos - ptr = (endPos - (ptr + avail)) + avail := by omega
          have h4 : (c.ratio + 3) * (endPos - ptr)
              = (c.ratio + 3) * (endPos - (ptr + avail)) + (c.ratio * avail + 3 * avail) := by
            rw [h3, Nat.mul_add, Nat.add_mul c.ratio 3 avail]
          generalize (c.ratio + 3) * (endPos - (ptr + avail)) = X at *
          generalize c.ratio * avail = Y at *
          omega
    | inner win =>
      rw [loop]
      have hs := c.step_ok s win chunk
      generalize o.step s win chunk = r at hs ⊢
      obtain ⟨ret, consumed, out, s'⟩ := r
      obtain ⟨hc, ho, hpot⟩ := hs
      dsimp only at hc ho hpot
      by_cases herr : ret = .needDict ∨ ret = .dataError ∨ ret = .memError
      · simp only [herr, if_true]; exact Or.inr rfl
      · simp only [herr, if_false]
        by_cases hfull : out.length = chunk
        · simp only [hfull, if_true]
          apply ih _ _ _ _ hp
          simp only [measure, List.length_drop] at hm ⊢
          have : chunk = 16384 := rfl
          omega
        · simp only [hfull, if_false]
          by_cases hend' : ret = .streamEnd
          · simp only [hend', if_true]; exact Or.inl ⟨_, rfl⟩
          · simp only [hend', if_false]
            apply ih _ _ _ _ hp
            simp only [measure] at hm ⊢
            have := c.pot_mono s' 0 (win.length - consumed)
            simp only [Nat.zero_add] at this
            omega

/-- Explicit fuel bound: linear in the input length. -/
def fuelBound {σ} {o : Oracle σ} (c : Contract o) (s0 : σ) (n : Nat) : Nat :=
  c.pot s0 0 + (c.ratio + 3) * (n - 4) + 1

theorem prologue_none_length {buf : Bytes} (h : prologue buf = none) : 4 ≤ buf.length := by
  unfold prologue at h
  by_cases h1 : buf.length ≠ 0 ∧ buf.length < 4
  · simp [h1] at h
  · simp only [h1, if_false] at h
    match buf, h1, h with
    | [], _, h => simp [apparentSize] at h
    | [_], h1, _ => simp at h1
    | [_, _], h1, _ => simp at h1
    | [_, _, _], h1, _ => simp at h1
    | _ :: _ :: _ :: _ :: _, _, _ => simp

theorem prologue_good (buf : Bytes) (r : Res Bytes) (h : prologue buf = some r) :
    (∃ out, r = .ok out) ∨ r = .throw .length_or_alloc := by
  unfold prologue at h
  split at h
  · simp at h; exact Or.inr h.symm
  · split at h
    · simp at h; exact Or.inl ⟨[], h.symm⟩
    · split at h
      · simp at h; exact Or.inr h.symm
      · simp at h

/-- `zlib_uncompress` with the repaired end pointer (`endPos = size`), for every
oracle honouring the contract, every input and enough fuel: returns or throws. -/
theorem uncompress_total {σ} (o : Oracle σ) (c : Contract o) (s0 : σ) (buf : Bytes) (fuel : Nat)
    (hf : fuelBound c s0 buf.length ≤ fuel) :
    (∃ out, uncompress o s0 buf.length fuel buf = .ok out) ∨
    uncompress o s0 buf.length fuel buf = .throw .system_error ∨
    uncompress o s0 buf.length fuel buf = .throw .length_or_alloc := by
  unfold uncompress
  cases hp : prologue buf with
  | some r =>
    rcases prologue_good buf r hp with h | h
    · exact Or.inl h
    · exact Or.inr (Or.inr h)
  | none =>
    have h4 := prologue_none_length hp
    have := loop_total o c buf buf.length (Nat.le_refl _) fuel s0 4 .outer [] h4
      (by simpa [measure, fuelBound] using hf)
    rcases this with h | h
    · exact Or.inl h
    · exact Or.inr (Or.inl h)

/-- With the end pointer of the unrepaired code (`&compressed[4] + size`, four
bytes past the vector) the first region handed to `inflate()` is out of
bounds for every input of at most one chunk — whatever the oracle does. -/
theorem uncompress_old_end_bad_region {σ} (o : Oracle σ) (s0 : σ) (buf : Bytes) (fuel : Nat)
    (hp : prologue buf = none) (hsmall : buf.length ≤ chunk) :
    uncompress o s0 (buf.length + 4) (fuel + 1) buf = .ub .bad_zlib_region := by
  unfold uncompress
  rw [hp]
  have h4 := prologue_none_length hp
  simp only [loop]
  have : ¬ (4 + chunk < buf.length + 4) := by omega
  simp only [this, if_false]
  have : buf.length < 4 + (buf.length + 4 - 4) := by omega
  simp [this]

/-! ### the contract is satisfiable (non-vacuity) -/

/-- A pass-through stream: every call copies as much input as fits, and the
stream ends when a call finds the window empty. -/
def copyOracle : Oracle Unit where
  step _ win n :=
    if win.length = 0 then (.streamEnd, 0, [], ()) else
    (.ok, min win.length n, win.take (min win.length n), ())

def copyContract : Contract copyOracle where
  pot _ a := a
  ratio := 1
  pot_mono := by intros; omega
  pot_input := by intros; omega
  step_ok := by
    intro s win n
    unfold copyOracle
    by_cases h : win.length = 0
    · simp [h]
    · simp only [h, if_false, List.length_take]
      omega

end EngineModel.Impl.Zlib
