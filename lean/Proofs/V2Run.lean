/-
Schema 2.x crates: the invariants over histories from the empty library, and the ordered listings of the Model
against the Spec lists (with the payload of every entry).
-/
import Proofs.V2Change
import Proofs.V2WfRaw

set_option linter.dupNamespace false
set_option linter.unusedSimpArgs false

namespace EngineModel.Db.V2

open EngineModel.Db.Chain EngineModel.Spec EngineModel.ListAux

theorem absF_empty : absF Db.empty = Forest.empty := rfl
theorem absM_empty : absM Db.empty = Members.empty := rfl

/-- Histories with positive track ids at table level: the Spec run never objects, its forest is the abstraction
of the Playlist table and its lists are represented by the two tables. -/
theorem chInv_hist (ops : List Op) (hok : ops.all okOp = true) :
    ∃ S, specRunO Db.empty Forest.empty Ord.empty ops = some (absF (run Db.empty ops), S) ∧ ChInv S (run Db.empty ops) :=
  chInv_run chInv_empty plInv_empty ops hok

theorem inv_hist (ops : List Op) (hm : ops.all memOp = true) :
    ∃ S, specRunO Db.empty Forest.empty Ord.empty ops = some (absF (run Db.empty ops), S) ∧ Inv S (run Db.empty ops) ∧
      specRunM Db.empty Forest.empty Members.empty ops = some (absF (run Db.empty ops), absM (run Db.empty ops)) :=
  inv_run inv_empty ops hm

theorem inv_allOwn_hist (ops : List Op) (ha : ops.all apiOp = true) :
    ∃ S, Inv S (run Db.empty ops) ∧ AllOwn (run Db.empty ops) :=
  inv_allOwn_run inv_empty allOwn_empty ops ha

theorem eq_of_map_fst_eq {L1 L2 : List (Int × Ent)} (hn : (L2.map (·.1)).Nodup) (hm : L1.map (·.1) = L2.map (·.1))
    (hsub : ∀ p ∈ L1, p ∈ L2) : L1 = L2 := by
  induction L1 generalizing L2 with
  | nil =>
    cases L2 with
    | nil => rfl
    | cons b l2 => simp at hm
  | cons a l1 ih =>
    cases L2 with
    | nil => simp at hm
    | cons b l2 =>
      simp only [List.map_cons, List.cons.injEq] at hm
      have hn' : b.1 ∉ l2.map (·.1) ∧ (l2.map (·.1)).Nodup := List.nodup_cons.mp hn
      have hab : a = b := pair_eq_of_fst hn (hsub a (by simp)) (by simp) hm.1
      subst hab
      congr 1
      apply ih hn'.2 hm.2
      intro p hp
      rcases List.mem_cons.mp (hsub p (List.mem_cons_of_mem _ hp)) with e | e
      · exfalso
        apply hn'.1
        rw [← hm.2, ← e]
        exact List.mem_map.mpr ⟨p, hp, rfl⟩
      · exact e

/-- get_for_list returns exactly the Spec's entries of the list, in order, each with its payload. -/
theorem walk_entries {S : Ord} {d : Db} (h : ChInv S d) (l : Int) :
    ∃ rows, walkBack d.pe l = .ok rows ∧ rows.map (fun r => (r.id, r.val)) = S.ents l := by
  obtain ⟨rows, hw, hm, hr⟩ := walkBack_spec h.re l
  refine ⟨rows, hw, ?_⟩
  apply eq_of_map_fst_eq (h.re.nodup l)
  · rw [List.map_map]; exact hm
  · intro p hp
    obtain ⟨r, hrm, rfl⟩ := List.mem_map.mp hp
    have := h.pay (core r) (mem_cores.mpr ⟨r, (hr r hrm).1, rfl⟩)
    simp only [core] at this
    rw [(hr r hrm).2] at this
    exact this

theorem qEntities_eq {S : Ord} {d : Db} (h : ChInv S d) (l : Int) :
    qEntities d l = .ok ((S.ents l).map fun p => (p.1, p.2.track, p.2.uuid)) := by
  obtain ⟨rows, hw, he⟩ := walk_entries h l
  simp only [qEntities, hw, Res.bind, ← he, List.map_map]
  rfl

theorem qTrackIds_eq {S : Ord} {d : Db} (h : ChInv S d) (l : Int) :
    qTrackIds d l = .ok ((S.ents l).map (·.2.track)) := by
  obtain ⟨rows, hw, he⟩ := walk_entries h l
  simp only [qTrackIds, hw, Res.bind, ← he, List.map_map]
  rfl

theorem qTracks_eq {S : Ord} {d : Db} (h : ChInv S d) (l : Int) :
    qTracks d l = .ok (((S.ents l).filter (·.2.uuid == 0)).map (·.2.track)) := by
  obtain ⟨rows, hw, he⟩ := walk_entries h l
  simp only [qTracks, hw, Res.bind, ← he, List.filter_map, List.map_map]
  rfl

theorem appended_iff {x : Int} {old new : List Int} (h : (Ordered.Change.appended x).holds old new = true) :
    new = old ++ [x] ∧ x ∉ old := by
  simp only [Ordered.Change.holds, Bool.and_eq_true, Bool.not_eq_true', beq_iff_eq] at h
  exact ⟨h.2, by simpa using h.1⟩

end EngineModel.Db.V2
