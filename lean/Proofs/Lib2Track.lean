/-
Composite 2.x library (Lib/V2.lean): what ONE call of the track package does to the Track table, in the
closed form the composite proofs need (`TStep`): on a well-formed table a call either leaves the table as it
was and does not return normally, or it returns normally with exactly one of three effects — a row appended
with the next AUTOINCREMENT id, one row's columns replaced (key and origin columns kept), one row deleted.
Derived from the package's own lemmas (`insertStmt_eq`, `updateStmt_whole`, `callSet_atomic`,
`callRemove_eq`); nothing of the package is re-defined.
-/
import Proofs.TracksV2Wf
import Proofs.TracksV2Gone
import EngineModel.Lib.V2

namespace EngineModel.Lib.V2
open EngineModel EngineModel.TracksV2

/-- no setter touches `albumArtId` -/
theorem applySetter_art (ops : FOps) (σ : Setter) (r r' : Row) (h : applySetter ops σ r = .ok r') :
    r'.albumArtId = r.albumArtId := by
  cases σ <;> simp only [applySetter, Res.bind_eq_ok, Res.ok.injEq] at h
  all_goals first
    | (subst h; rfl)
    | (obtain ⟨_, _, _, _, rfl⟩ := h; rfl)
    | (obtain ⟨_, _, rfl⟩ := h; rfl)

/-- `snapshot_to_row` stores the default album art -/
theorem writeStore_art (ops : FOps) (s : TracksV2.Schema) (x : Snap) (r : Row) (h : writeStore ops s x = .ok r) :
    r.albumArtId = 1 := by
  unfold writeStore at h
  rw [Res.bind_eq_ok] at h
  obtain ⟨r0, h0, h1⟩ := h
  have e : r.albumArtId = r0.albumArtId := by
    simp only [tablePut, Res.bind_eq_ok, Res.ok.injEq] at h1
    obtain ⟨_, _, _, _, rfl⟩ := h1
    rfl
  rw [e]
  unfold writeSnap at h0
  cases hp : x.relativePath with
  | none => simp [hp] at h0
  | some path =>
    simp only [hp] at h0
    cases he : getFileExtension (getFilename path) with
    | none => simp [he] at h0
    | some ft =>
      simp only [he, Res.bind_eq_ok, Res.ok.injEq] at h0
      obtain ⟨_, _, _, _, _, _, rfl⟩ := h0
      rfl

/-- The effect of one track call on a well-formed Track table. -/
inductive TStep (ops : FOps) (s : TracksV2.Schema) (db : TDb) : TOp → TDb → Res Nat → Prop
  /-- the call did not return normally: the table is what it was -/
  | failed (op : TOp) (r : Res Nat) (h : ∀ v, r ≠ .ok v) : TStep ops s db op db r
  /-- `create_track`: one row appended, id `seq + 1` -/
  | created (x : Snap) (row : Row) (hw : writeStore ops s x = .ok row) :
      TStep ops s db (.create x) { db with rows := db.rows ++ [db.created row], seq := db.seq + 1 } (.ok (db.seq + 1))
  /-- `update`: the columns of the row replaced -/
  | updated (id : Nat) (x : Snap) (t : TRow) (row : Row) (hf : db.find id = some t) (hw : writeStore ops s x = .ok row) :
      TStep ops s db (.update id x) (db.rep t row) (.ok 0)
  /-- a setter: the columns of the row replaced by what `applySetter` (the lens model of C06) gives -/
  | set (id : Nat) (σ : Setter) (t : TRow) (row : Row) (hf : db.find id = some t) (ha : applySetter ops σ t.row = .ok row) :
      TStep ops s db (.set id σ) (db.rep t row) (.ok 0)
  /-- `track_table::remove`: the row deleted -/
  | removed (id : Nat) (t : TRow) (hf : db.find id = some t) :
      TStep ops s db (.remove id) { db with rows := db.rows.filter fun e => !(e.id == id) } (.ok 0)

theorem bind_pure_apply {α} (m : M α) (db : TDb) :
    (m >>= fun _ => (pure 0 : M Nat)) db = ((m db).1, (m db).2.bind fun _ => .ok 0) := by
  show M.bind m _ db = _
  unfold M.bind
  rcases m db with ⟨d, r⟩
  cases r <;> rfl

theorem tstep (ops : FOps) (s : TracksV2.Schema) {db : TDb} (hI : Inv db) (op : TOp) :
    TStep ops s db op (db.step ops s op).1 (db.step ops s op).2 := by
  cases op with
  | create x =>
    show TStep ops s db _ (callCreate ops s x db).1 (callCreate ops s x db).2
    unfold callCreate
    rw [M.lift_bind]
    cases hw : writeStore ops s x with
    | throw e => exact .failed _ _ (by intro v; simp)
    | ub u => exact .failed _ _ (by intro v; simp)
    | ok r =>
      simp only []
      unfold M.stmt
      simp only [insertStmt_eq hI.s]
      cases pathTaken' db 0 r.path with
      | true => exact .failed _ _ (by intro v; simp)
      | false => exact .created x r hw
  | update id x =>
    show TStep ops s db _ ((callUpdate ops s id x >>= fun _ => (pure 0 : M Nat)) db).1
      ((callUpdate ops s id x >>= fun _ => (pure 0 : M Nat)) db).2
    rw [bind_pure_apply]
    unfold callUpdate
    rw [M.lift_bind]
    cases hw : writeStore ops s x with
    | throw e => exact .failed _ _ (by intro v; simp [Res.bind])
    | ub u => exact .failed _ _ (by intro v; simp [Res.bind])
    | ok r =>
      simp only []
      rw [M.bind_apply]
      unfold M.stmt
      cases hf : db.find id with
      | none =>
        simp only [updateStmt_none hf]
        exact .failed _ _ (by intro v; simp [Res.bind, M.throw])
      | some t =>
        simp only [updateStmt_whole hI.s hf]
        cases pathTaken' db id r.path with
        | true => exact .failed _ _ (by intro v; simp [Res.bind])
        | false => exact .updated id x t r hf hw
  | set id σ =>
    show TStep ops s db _ ((callSet ops id σ >>= fun _ => (pure 0 : M Nat)) db).1
      ((callSet ops id σ >>= fun _ => (pure 0 : M Nat)) db).2
    rw [bind_pure_apply, callSet_atomic ops id σ hI.s]
    unfold atomicSet
    cases hf : db.find id with
    | none => exact .failed _ _ (by intro v; simp [Res.bind])
    | some t =>
      simp only []
      cases ha : applySetter ops σ t.row with
      | throw e => exact .failed _ _ (by intro v; simp [Res.bind])
      | ub u => exact .failed _ _ (by intro v; simp [Res.bind])
      | ok r' =>
        simp only []
        cases pathTaken' db id r'.path with
        | true => exact .failed _ _ (by intro v; simp [Res.bind])
        | false => exact .set id σ t r' hf ha
  | remove id =>
    show TStep ops s db _ ((callRemove id >>= fun _ => (pure 0 : M Nat)) db).1
      ((callRemove id >>= fun _ => (pure 0 : M Nat)) db).2
    rw [bind_pure_apply, callRemove_eq]
    by_cases hz : (db.rows.filter fun e => e.id == id).length = 0
    · simp only [hz, if_true]
      exact .failed _ _ (by intro v; simp [Res.bind])
    · simp only [hz, if_false]
      cases hf : db.find id with
      | none =>
        exfalso; apply hz
        rw [List.length_eq_zero_iff, List.filter_eq_nil_iff]
        intro e he
        simpa using find_none hf e he
      | some t => exact .removed id t hf

/-! ### consequences for ids, the counter and liveness -/

theorem rep_ids (db : TDb) (t : TRow) (r : Row) : (db.rep t r).rows.map (·.id) = db.rows.map (·.id) :=
  map_id_replace _ _

theorem rep_seq (db : TDb) (t : TRow) (r : Row) : (db.rep t r).seq = db.seq := rfl

theorem find_isSome_iff (db : TDb) (id : Nat) : (db.find id).isSome = true ↔ id ∈ db.rows.map (·.id) := by
  unfold TDb.find
  rw [List.find?_isSome]
  simp only [List.mem_map, beq_iff_eq]

end EngineModel.Lib.V2
