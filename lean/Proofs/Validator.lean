/-
Helper lemmas for C17 (Properties/C17.lean).

* the `std::set` model: `toSet` keeps only rows of the input, keeps a representative of every
  key, and (for rows with distinct keys) has exactly the rows as members; its output is
  strictly ascending by key, so two such sets are equal iff the rows are the same;
* `ltStr` / `ltInt` are strict total orders;
* list lemmas for the single-element mutations (`modFirst`, `eraseFirst`, `find?`);
* catalog lookups after a mutation (`findTable`, `tableInfo`, `indexList`, `indexInfo`);
* one lemma `dev_*` per constructor of `Mutation`: the mutated catalog is not `sameCat`.
-/
import EngineModel.Spec.Validator

namespace EngineModel.Spec.Validator
open EngineModel.Spec.SchemaDump (Str)
open EngineModel.Spec.Catalog

section generic
variable {α κ : Type} {lt : κ → κ → Bool} {key : α → κ}

theorem mem_insertU {a x : α} {l : List α} (h : x ∈ insertU lt key a l) : x = a ∨ x ∈ l := by
  induction l with
  | nil => simp [insertU] at h; exact Or.inl h
  | cons b bs ih =>
    simp only [insertU] at h
    split at h
    · grind
    · split at h <;> grind

theorem mem_insertU_of_mem {a x : α} {l : List α} (h : x ∈ l) : x ∈ insertU lt key a l := by
  induction l with
  | nil => cases h
  | cons b bs ih =>
    simp only [insertU]
    split
    · grind
    · split <;> grind

theorem insertU_key_mem (htot : ∀ x y, lt x y = false → lt y x = false → x = y) (a : α) (l : List α) :
    ∃ b ∈ insertU lt key a l, key b = key a := by
  induction l with
  | nil => exact ⟨a, by simp [insertU], rfl⟩
  | cons b bs ih =>
    simp only [insertU]
    split
    · exact ⟨a, by simp, rfl⟩
    · split
      · obtain ⟨c, hc, hk⟩ := ih
        exact ⟨c, by simp [hc], hk⟩
      · refine ⟨b, by simp, ?_⟩
        apply htot <;> simp_all

theorem mem_foldl_insertU {x : α} (l acc : List α)
    (h : x ∈ l.foldl (fun acc a => insertU lt key a acc) acc) : x ∈ acc ∨ x ∈ l := by
  induction l generalizing acc with
  | nil => exact Or.inl h
  | cons a as ih =>
    rcases ih _ h with h | h
    · rcases mem_insertU h with h | h <;> simp [h]
    · simp [h]

theorem mem_foldl_insertU_of_mem {x : α} (l acc : List α) (h : x ∈ acc) :
    x ∈ l.foldl (fun acc a => insertU lt key a acc) acc := by
  induction l generalizing acc with
  | nil => exact h
  | cons a as ih => exact ih _ (mem_insertU_of_mem h)

theorem foldl_insertU_key_mem (htot : ∀ x y, lt x y = false → lt y x = false → x = y)
    {a : α} (l acc : List α) (h : a ∈ l) :
    ∃ b ∈ l.foldl (fun acc a => insertU lt key a acc) acc, key b = key a := by
  induction l generalizing acc with
  | nil => cases h
  | cons c cs ih =>
    rcases List.mem_cons.1 h with rfl | h
    · obtain ⟨b, hb, hk⟩ := insertU_key_mem (lt := lt) (key := key) htot a acc
      exact ⟨b, mem_foldl_insertU_of_mem cs _ hb, hk⟩
    · exact ih _ h

theorem toSet_subset {a : α} {l : List α} (h : a ∈ toSet lt key l) : a ∈ l := by
  rcases mem_foldl_insertU l [] h with h | h
  · cases h
  · exact h

theorem toSet_key_mem (htot : ∀ x y, lt x y = false → lt y x = false → x = y)
    {a : α} {l : List α} (h : a ∈ l) : ∃ b ∈ toSet lt key l, key b = key a :=
  foldl_insertU_key_mem htot l [] h

theorem eq_of_nodup_map_key {l : List α} (hnd : (l.map key).Nodup) {a b : α}
    (ha : a ∈ l) (hb : b ∈ l) (hk : key a = key b) : a = b := by
  induction l with
  | nil => cases ha
  | cons c cs ih =>
    simp only [List.map_cons, List.nodup_cons, List.mem_map, not_exists, not_and] at hnd
    rcases List.mem_cons.1 ha with h1 | h1 <;> rcases List.mem_cons.1 hb with h2 | h2
    · rw [h1, h2]
    · subst h1; exact absurd hk.symm (hnd.1 _ h2)
    · subst h2; exact absurd hk (hnd.1 _ h1)
    · exact ih hnd.2 h1 h2

theorem mem_toSet (htot : ∀ x y, lt x y = false → lt y x = false → x = y)
    {a : α} {l : List α} (hnd : (l.map key).Nodup) : a ∈ toSet lt key l ↔ a ∈ l := by
  refine ⟨toSet_subset, fun h => ?_⟩
  obtain ⟨b, hb, hk⟩ := toSet_key_mem (lt := lt) (key := key) htot h
  have := eq_of_nodup_map_key hnd (toSet_subset hb) h hk
  exact this ▸ hb

end generic

theorem ltStr_total {a b : Str} : ltStr a b = false → ltStr b a = false → a = b := by
  induction a generalizing b with
  | nil => cases b <;> simp [ltStr]
  | cons x xs ih =>
    cases b with
    | nil => simp [ltStr]
    | cons y ys =>
      simp only [ltStr, Bool.or_eq_false_iff, decide_eq_false_iff_not, Bool.and_eq_false_iff]
      intro h1 h2
      have hxy : x.toNat = y.toNat := by omega
      have := Char.toNat_inj.1 hxy
      subst this
      simp at h1 h2
      rw [ih h1 h2]

theorem ltInt_total {a b : Int} : ltInt a b = false → ltInt b a = false → a = b := by
  simp only [ltInt, decide_eq_false_iff_not]; omega

theorem nodupB_iff {α} [DecidableEq α] (l : List α) : nodupB l = true ↔ l.Nodup := by
  induction l with
  | nil => simp [nodupB]
  | cons a as ih => simp [nodupB, ih, List.nodup_cons]

section lists
variable {α κ : Type} [BEq κ] [LawfulBEq κ] {key : α → κ}

theorem find?_key_of_nodup {l : List α} (hnd : (l.map key).Nodup) {a : α} (ha : a ∈ l) {k : κ}
    (hk : key a = k) : l.find? (fun x => key x == k) = some a := by
  induction l with
  | nil => cases ha
  | cons c cs ih =>
    simp only [List.map_cons, List.nodup_cons, List.mem_map, not_exists, not_and] at hnd
    rcases List.mem_cons.1 ha with h | h
    · subst h; simp [hk]
    · have : key c ≠ k := by
        intro hc; exact hnd.1 a h (by rw [hk, hc])
      simp [this, ih hnd.2 h]

theorem not_mem_eraseFirst_key {l : List α} (hnd : (l.map key).Nodup) (k : κ) :
    k ∉ (eraseFirst (fun x => key x == k) l).map key := by
  induction l with
  | nil => simp [eraseFirst]
  | cons c cs ih =>
    simp only [List.map_cons, List.nodup_cons] at hnd
    simp only [eraseFirst]
    split
    · rename_i h; have := eq_of_beq h; subst this; exact hnd.1
    · rename_i h
      simp only [List.map_cons, List.mem_cons, not_or]
      exact ⟨fun hk => h (by simp [hk]), ih hnd.2⟩

theorem mem_modFirst_of_find? {p : α → Bool} {f : α → α} {l : List α} {a : α}
    (h : l.find? p = some a) : f a ∈ modFirst p f l := by
  induction l with
  | nil => cases h
  | cons c cs ih =>
    simp only [List.find?_cons] at h
    simp only [modFirst]
    split at h
    · rename_i hp; cases h; simp [hp]
    · rename_i hp; simp [hp, ih h]

theorem mem_modFirst_key {l : List α} (hnd : (l.map key).Nodup) {k : κ} {f : α → α} {x : α}
    (h : x ∈ modFirst (fun x => key x == k) f l) :
    (x ∈ l ∧ key x ≠ k) ∨ ∃ a ∈ l, key a = k ∧ x = f a := by
  induction l with
  | nil => cases h
  | cons c cs ih =>
    simp only [List.map_cons, List.nodup_cons, List.mem_map, not_exists, not_and] at hnd
    simp only [modFirst] at h
    split at h
    · rename_i hp
      have hck := eq_of_beq hp
      rcases List.mem_cons.1 h with h | h
      · exact Or.inr ⟨c, by simp, hck, h⟩
      · refine Or.inl ⟨by simp [h], fun hx => hnd.1 x h (by rw [hx, hck])⟩
    · rename_i hp
      rcases List.mem_cons.1 h with h | h
      · subst h; exact Or.inl ⟨by simp, fun hx => hp (by simp [hx])⟩
      · rcases ih hnd.2 h with ⟨h1, h2⟩ | ⟨a, h1, h2, h3⟩
        · exact Or.inl ⟨by simp [h1], h2⟩
        · exact Or.inr ⟨a, by simp [h1], h2, h3⟩

theorem find?_modFirst {p : α → Bool} {f : α → α} (hf : ∀ a, p a = true → p (f a) = true) (l : List α) :
    (modFirst p f l).find? p = (l.find? p).map f := by
  induction l with
  | nil => simp [modFirst]
  | cons c cs ih =>
    simp only [modFirst]
    split
    · rename_i hp; simp [hp, hf c hp]
    · rename_i hp; simp [hp, ih]

theorem modFirst_of_find? {p : α → Bool} (f : α → α) {l : List α} {a : α} (h : l.find? p = some a) :
    ∃ xs ys, l = xs ++ a :: ys ∧ (∀ x ∈ xs, p x = false) ∧ modFirst p f l = xs ++ f a :: ys := by
  induction l with
  | nil => cases h
  | cons c cs ih =>
    simp only [List.find?_cons] at h
    split at h
    · rename_i hp; cases h
      exact ⟨[], cs, by simp, by simp, by simp [modFirst, hp]⟩
    · rename_i hp
      obtain ⟨xs, ys, h1, h2, h3⟩ := ih h
      refine ⟨c :: xs, ys, by simp [h1], ?_, by simp [modFirst, hp, h3]⟩
      intro x hx
      rcases List.mem_cons.1 hx with hx | hx
      · subst hx; simpa using hp
      · exact h2 x hx

end lists

section setdev
variable {α κ : Type} {lt : κ → κ → Bool} {key : α → κ}

theorem key_mem_of_toSet_eq (htot : ∀ x y, lt x y = false → lt y x = false → x = y)
    {l l' : List α} (h : toSet lt key l = toSet lt key l') {k : κ} (hk : k ∈ l.map key) :
    k ∈ l'.map key := by
  obtain ⟨a, ha, rfl⟩ := List.mem_map.1 hk
  obtain ⟨b, hb, hkb⟩ := toSet_key_mem (lt := lt) (key := key) htot ha
  rw [h] at hb
  exact List.mem_map.2 ⟨b, toSet_subset hb, hkb⟩

theorem mem_of_toSet_eq (htot : ∀ x y, lt x y = false → lt y x = false → x = y)
    {l l' : List α} (hnd : (l.map key).Nodup) (h : toSet lt key l = toSet lt key l') {a : α}
    (ha : a ∈ l) : a ∈ l' := by
  have := (mem_toSet (lt := lt) htot hnd).2 ha
  rw [h] at this
  exact toSet_subset this

end setdev

theorem wf_iff (c : Db) : wf c = true ↔
    (tableNames c).Nodup ∧ c.views.Nodup ∧ (∀ t ∈ c.tables, (t.cols.map (·.name)).Nodup) ∧
    ((allIdxs c).map (·.entry.name)).Nodup ∧ ∀ i ∈ allIdxs c, (i.cols.map (·.seqno)).Nodup := by
  simp only [wf, Bool.and_eq_true, nodupB_iff, List.all_eq_true, and_assoc]

theorem mem_allIdxs {c : Db} {t : Table} (ht : t ∈ c.tables) {i : Idx} (hi : i ∈ t.idxs) :
    i ∈ allIdxs c := List.mem_flatMap.2 ⟨t, ht, hi⟩

theorem nodup_idxs_of_mem {c : Db} (h : ((allIdxs c).map (·.entry.name)).Nodup) {t : Table}
    (ht : t ∈ c.tables) : (t.idxs.map (·.entry.name)).Nodup := by
  obtain ⟨A, B, hAB⟩ := List.append_of_mem ht
  simp only [allIdxs, hAB, List.flatMap_append, List.flatMap_cons, List.map_append] at h
  exact (List.nodup_append.1 (List.nodup_append.1 h).2.1).1

theorem exists_find? {α} {p : α → Bool} {l : List α} {a : α} (ha : a ∈ l) (hp : p a = true) :
    ∃ b, l.find? p = some b := by
  cases h : l.find? p with
  | some b => exact ⟨b, rfl⟩
  | none => exact absurd hp (List.find?_eq_none.1 h a ha)

theorem exists_of_hasUserTable {c : Db} {t : Str} (h : hasUserTable c t = true) :
    ∃ tb, findTable c t = some tb ∧ tb ∈ userTables c ∧ tb ∈ c.tables ∧ tb.name = t := by
  simp only [hasUserTable, List.any_eq_true, userTables, List.mem_filter] at h
  obtain ⟨u, ⟨hu, hint⟩, hn⟩ := h
  have hn := eq_of_beq hn
  obtain ⟨tb, hf⟩ := exists_find? (p := fun x : Table => x.name == t) hu (by simp [hn])
  have h1 : tb.name = t := by have := List.find?_some hf; exact eq_of_beq this
  have h2 := List.mem_of_find?_eq_some hf
  refine ⟨tb, hf, ?_, h2, h1⟩
  simp only [userTables, List.mem_filter]
  exact ⟨h2, by rw [h1, ← hn]; exact hint⟩

theorem sameCat_iff (c c' : Db) : sameCat c c' = true ↔
    setNames (tableNames c') = setNames (tableNames c) ∧ setNames c'.views = setNames c.views ∧
    ∀ t ∈ userTables c, setCols (tableInfo c' t.name) = setCols t.cols ∧
      setIdxs (indexList c' t.name) = setIdxs (t.idxs.map (·.entry)) ∧
      ∀ i ∈ t.idxs, setIdxCols (indexInfo c' i.entry.name) = setIdxCols i.cols := by
  simp only [sameCat, Bool.and_eq_true, decide_eq_true_eq, List.all_eq_true, and_assoc]

theorem findTable_modTable {f : Table → Table} (hf : ∀ x, (f x).name = x.name) (c : Db) (t : Str) :
    findTable (modTable t f c) t = (findTable c t).map f := by
  simp only [findTable, modTable]
  exact find?_modFirst (fun a h => by simpa [hf] using h) _

theorem sameCat_modTable {c : Db} {t : Str} {f : Table → Table}
    {tb : Table} (hfind : findTable c t = some tb) (hu : tb ∈ userTables c) (hn : tb.name = t)
    (h : sameCat c (modTable t f c) = true) (hf : ∀ x, (f x).name = x.name) :
    setCols (f tb).cols = setCols tb.cols ∧
    setIdxs ((f tb).idxs.map (·.entry)) = setIdxs (tb.idxs.map (·.entry)) ∧
    ∀ i ∈ tb.idxs, setIdxCols (indexInfo (modTable t f c) i.entry.name) = setIdxCols i.cols := by
  have := ((sameCat_iff _ _).1 h).2.2 tb hu
  simpa only [hn, tableInfo, indexList, findTable_modTable hf, hfind, Option.map_some] using this

theorem strTot : ∀ x y : Str, ltStr x y = false → ltStr y x = false → x = y := fun _ _ => ltStr_total
theorem intTot : ∀ x y : Int, ltInt x y = false → ltInt y x = false → x = y := fun _ _ => ltInt_total

theorem dev_dropTable {c : Db} {t : Str} (hwf : wf c = true) (happ : hasUserTable c t = true)
    (h : sameCat c (apply (.dropTable t) c) = true) : False := by
  obtain ⟨tb, -, -, hmem, hn⟩ := exists_of_hasUserTable happ
  have h1 := ((sameCat_iff _ _).1 h).1
  have hk : t ∈ (tableNames c).map id := by
    simp only [List.map_id, tableNames, List.mem_map]; exact ⟨tb, hmem, hn⟩
  have := key_mem_of_toSet_eq (key := id) strTot h1.symm hk
  simp only [List.map_id, tableNames, apply] at this
  exact not_mem_eraseFirst_key (key := fun x : Table => x.name) ((wf_iff c).1 hwf).1 t this

theorem dev_addTable {c : Db} {t : Table} (happ : (tableNames c).contains t.name = false)
    (h : sameCat c (apply (.addTable t) c) = true) : False := by
  have h1 := ((sameCat_iff _ _).1 h).1
  have hk : t.name ∈ (tableNames (apply (.addTable t) c)).map id := by
    simp [tableNames, apply]
  have := key_mem_of_toSet_eq (key := id) strTot h1 hk
  simp only [List.map_id] at this
  have h2 := List.contains_iff_mem.2 this
  rw [happ] at h2; cases h2

theorem dev_renameTable {c : Db} {t new : Str} (happ : hasUserTable c t = true)
    (hnew : (tableNames c).contains new = false)
    (h : sameCat c (apply (.renameTable t new) c) = true) : False := by
  obtain ⟨tb, hfind, -, hmem, hn⟩ := exists_of_hasUserTable happ
  have h1 := ((sameCat_iff _ _).1 h).1
  have hk : new ∈ (tableNames (apply (.renameTable t new) c)).map id := by
    simp only [List.map_id, tableNames, apply, modTable, List.mem_map]
    exact ⟨_, mem_modFirst_of_find? hfind, rfl⟩
  have := key_mem_of_toSet_eq (key := id) strTot h1 hk
  simp only [List.map_id] at this
  have h2 := List.contains_iff_mem.2 this
  rw [hnew] at h2; cases h2

theorem dev_dropView {c : Db} {v : Str} (hwf : wf c = true) (happ : c.views.contains v = true)
    (h : sameCat c (apply (.dropView v) c) = true) : False := by
  have h1 := ((sameCat_iff _ _).1 h).2.1
  have hk : v ∈ c.views.map id := by simpa using List.contains_iff_mem.1 happ
  have := key_mem_of_toSet_eq (key := id) strTot h1.symm hk
  simp only [apply] at this
  have hnd : (c.views.map id).Nodup := by simpa using ((wf_iff c).1 hwf).2.1
  exact not_mem_eraseFirst_key (key := id) hnd v this

theorem dev_addView {c : Db} {v : Str} (happ : c.views.contains v = false)
    (h : sameCat c (apply (.addView v) c) = true) : False := by
  have h1 := ((sameCat_iff _ _).1 h).2.1
  have hk : v ∈ (apply (.addView v) c).views.map id := by simp [apply]
  have := key_mem_of_toSet_eq (key := id) strTot h1 hk
  simp only [List.map_id] at this
  have h2 := List.contains_iff_mem.2 this
  rw [happ] at h2; cases h2

theorem dev_renameView {c : Db} {v new : Str} (happ : c.views.contains v = true)
    (hnew : c.views.contains new = false)
    (h : sameCat c (apply (.renameView v new) c) = true) : False := by
  have h1 := ((sameCat_iff _ _).1 h).2.1
  obtain ⟨b, hb⟩ := exists_find? (p := fun x : Str => x == v) (List.contains_iff_mem.1 happ) (by simp)
  have hk : new ∈ (apply (.renameView v new) c).views.map id := by
    simp only [List.map_id, apply]
    exact mem_modFirst_of_find? (f := fun _ => new) hb
  have := key_mem_of_toSet_eq (key := id) strTot h1 hk
  simp only [List.map_id] at this
  have h2 := List.contains_iff_mem.2 this
  rw [hnew] at h2; cases h2

theorem tableInfo_of_find {c : Db} {t : Str} {tb : Table} (h : findTable c t = some tb) :
    tableInfo c t = tb.cols := by simp [tableInfo, h]

theorem indexList_of_find {c : Db} {t : Str} {tb : Table} (h : findTable c t = some tb) :
    indexList c t = tb.idxs.map (·.entry) := by simp [indexList, h]

theorem dev_dropCol {c : Db} {t cn : Str} (hwf : wf c = true) (happ : hasUserTable c t = true)
    (hc : (colNames c t).contains cn = true)
    (h : sameCat c (apply (.dropCol t cn) c) = true) : False := by
  obtain ⟨tb, hfind, hu, hmem, hn⟩ := exists_of_hasUserTable happ
  have h1 := (sameCat_modTable hfind hu hn h (fun _ => rfl)).1
  simp only [setCols] at h1
  have hk : cn ∈ tb.cols.map (·.name) := by
    simpa [colNames, tableInfo_of_find hfind] using List.contains_iff_mem.1 hc
  have := key_mem_of_toSet_eq strTot h1.symm hk
  exact not_mem_eraseFirst_key (key := fun x : Col => x.name) (((wf_iff c).1 hwf).2.2.1 tb hmem) cn this

theorem dev_addCol {c : Db} {t : Str} {col : Col} (happ : hasUserTable c t = true)
    (hc : (colNames c t).contains col.name = false)
    (h : sameCat c (apply (.addCol t col) c) = true) : False := by
  obtain ⟨tb, hfind, hu, hmem, hn⟩ := exists_of_hasUserTable happ
  have h1 := (sameCat_modTable hfind hu hn h (fun _ => rfl)).1
  simp only [setCols] at h1
  have hk : col.name ∈ (tb.cols ++ [col]).map (·.name) := by simp
  have := key_mem_of_toSet_eq strTot h1 hk
  have h2 : (colNames c t).contains col.name = true := by
    simpa [colNames, tableInfo_of_find hfind] using this
  rw [hc] at h2; cases h2

theorem dev_updCol {c : Db} {t cn : Str} {new old : Col} (hwf : wf c = true)
    (happ : hasUserTable c t = true)
    (hold : (tableInfo c t).find? (·.name == cn) = some old) (hne : new ≠ old)
    (hnm : new.name = cn ∨ (colNames c t).contains new.name = false)
    (h : sameCat c (apply (.updCol t cn new) c) = true) : False := by
  obtain ⟨tb, hfind, hu, hmem, hn⟩ := exists_of_hasUserTable happ
  have h1 := (sameCat_modTable hfind hu hn h (fun _ => rfl)).1
  simp only [setCols] at h1
  rw [tableInfo_of_find hfind] at hold
  have hnd := ((wf_iff c).1 hwf).2.2.1 tb hmem
  have hnew : new ∈ modFirst (fun x : Col => x.name == cn) (fun _ => new) tb.cols :=
    mem_modFirst_of_find? (f := fun _ => new) hold
  rcases hnm with hnm | hnm
  · have hin := mem_of_toSet_eq strTot hnd h1.symm (List.mem_of_find?_eq_some hold)
    have holdn : old.name = cn := by have := List.find?_some hold; exact eq_of_beq this
    rcases mem_modFirst_key (key := fun x : Col => x.name) hnd hin with ⟨-, h2⟩ | ⟨a, -, -, h2⟩
    · exact h2 holdn
    · exact hne h2.symm
  · have hk : new.name ∈ (modFirst (fun x : Col => x.name == cn) (fun _ => new) tb.cols).map (·.name) :=
      List.mem_map.2 ⟨new, hnew, rfl⟩
    have := key_mem_of_toSet_eq strTot h1 hk
    have h2 : (colNames c t).contains new.name = true := by
      simpa [colNames, tableInfo_of_find hfind] using this
    rw [hnm] at h2; cases h2

theorem dev_dropIdx {c : Db} {t i : Str} (hwf : wf c = true) (happ : hasUserTable c t = true)
    (hi : ((indexList c t).map (·.name)).contains i = true)
    (h : sameCat c (apply (.dropIdx t i) c) = true) : False := by
  obtain ⟨tb, hfind, hu, hmem, hn⟩ := exists_of_hasUserTable happ
  have h1 := (sameCat_modTable hfind hu hn h (fun _ => rfl)).2.1
  simp only [setIdxs] at h1
  have hk : i ∈ (tb.idxs.map (·.entry)).map (·.name) := by
    simpa [indexList_of_find hfind] using List.contains_iff_mem.1 hi
  have := key_mem_of_toSet_eq strTot h1.symm hk
  rw [List.map_map] at this
  exact not_mem_eraseFirst_key (key := fun x : Idx => x.entry.name)
    (nodup_idxs_of_mem ((wf_iff c).1 hwf).2.2.2.1 hmem) i this

theorem dev_addIdx {c : Db} {t : Str} {ix : Idx} (happ : hasUserTable c t = true)
    (hi : (idxNames c).contains ix.entry.name = false)
    (h : sameCat c (apply (.addIdx t ix) c) = true) : False := by
  obtain ⟨tb, hfind, hu, hmem, hn⟩ := exists_of_hasUserTable happ
  have h1 := (sameCat_modTable hfind hu hn h (fun _ => rfl)).2.1
  simp only [setIdxs] at h1
  have hk : ix.entry.name ∈ ((tb.idxs ++ [ix]).map (·.entry)).map (·.name) := by simp
  have := key_mem_of_toSet_eq strTot h1 hk
  simp only [List.map_map, List.mem_map] at this
  obtain ⟨j, hj, hjn⟩ := this
  have h2 : (idxNames c).contains ix.entry.name = true :=
    List.contains_iff_mem.2 (List.mem_map.2 ⟨j, mem_allIdxs hmem hj, hjn⟩)
  rw [hi] at h2; cases h2

theorem indexInfo_updIdx {c : Db} {t i : Str} {new old : Idx} {tb : Table}
    (hnd : ((allIdxs c).map (·.entry.name)).Nodup)
    (hfind : findTable c t = some tb) (hold : tb.idxs.find? (·.entry.name == i) = some old)
    (hnm : new.entry.name = i) :
    indexInfo (modTable t (fun tb => { tb with idxs := modFirst (·.entry.name == i) (fun _ => new) tb.idxs }) c) i
      = new.cols := by
  obtain ⟨T1, T2, hT, hT1, hTm⟩ := modFirst_of_find?
    (fun tb : Table => { tb with idxs := modFirst (·.entry.name == i) (fun _ => new) tb.idxs }) hfind
  obtain ⟨I1, I2, hI, hI1, hIm⟩ := modFirst_of_find? (fun _ => new) hold
  have holdn : old.entry.name = i := by have := List.find?_some hold; exact eq_of_beq this
  simp only [allIdxs, hT, List.flatMap_append, List.flatMap_cons, hI, List.map_append, List.map_cons,
    List.append_assoc] at hnd
  have hpre : ∀ x ∈ T1.flatMap (·.idxs), (x.entry.name == i) = false := by
    intro x hx
    have := (List.nodup_append.1 hnd).2.2 x.entry.name (List.mem_map.2 ⟨x, hx, rfl⟩) old.entry.name (by simp)
    rw [holdn] at this
    simpa using this
  have h1 : (T1.flatMap (·.idxs)).find? (·.entry.name == i) = none :=
    List.find?_eq_none.2 (fun x hx => by simp [hpre x hx])
  have h2 : I1.find? (·.entry.name == i) = none :=
    List.find?_eq_none.2 (fun x hx => by simp [hI1 x hx])
  simp only [indexInfo, allIdxs, modTable, hTm, hIm, List.flatMap_append, List.flatMap_cons,
    List.find?_append, h1, h2, List.find?_cons, hnm, beq_self_eq_true, Option.none_or, Option.some_or]

theorem seq_nodup_of_find {c : Db} (hwf : wf c = true) {tb : Table} (hmem : tb ∈ c.tables) {i : Idx}
    (hi : i ∈ tb.idxs) : (i.cols.map (·.seqno)).Nodup :=
  ((wf_iff c).1 hwf).2.2.2.2 i (mem_allIdxs hmem hi)

theorem sameMembers_of_forall {α} [DecidableEq α] {xs ys : List α} (h : ∀ a, a ∈ xs ↔ a ∈ ys) :
    sameMembers xs ys = true := by
  simp only [sameMembers, Bool.and_eq_true, List.all_eq_true, List.contains_iff_mem]
  exact ⟨fun x hx => (h x).1 hx, fun y hy => (h y).2 hy⟩

theorem dev_updIdx {c : Db} {t i : Str} {new old : Idx} (hwf : wf c = true)
    (happ : hasUserTable c t = true) (hnewnd : (new.cols.map (·.seqno)).Nodup)
    (hold : (findTable c t).bind (fun tb => tb.idxs.find? (·.entry.name == i)) = some old)
    (hne : new.entry ≠ old.entry ∨ sameMembers new.cols old.cols = false)
    (hnm : new.entry.name = i ∨ (idxNames c).contains new.entry.name = false)
    (h : sameCat c (apply (.updIdx t i new) c) = true) : False := by
  obtain ⟨tb, hfind, hu, hmem, hn⟩ := exists_of_hasUserTable happ
  obtain ⟨-, h1, h2⟩ := sameCat_modTable hfind hu hn h (fun _ => rfl)
  simp only [setIdxs] at h1
  rw [hfind] at hold
  simp only [Option.bind_some] at hold
  have holdmem := List.mem_of_find?_eq_some hold
  have holdn : old.entry.name = i := by have := List.find?_some hold; exact eq_of_beq this
  have hnd := nodup_idxs_of_mem ((wf_iff c).1 hwf).2.2.2.1 hmem
  have hnew : new ∈ modFirst (fun x : Idx => x.entry.name == i) (fun _ => new) tb.idxs :=
    mem_modFirst_of_find? (f := fun _ => new) hold
  rcases hnm with hnm | hnm
  · rcases hne with hne | hne
    · have hnd' : ((tb.idxs.map (·.entry)).map (·.name)).Nodup := by rw [List.map_map]; exact hnd
      have hin := mem_of_toSet_eq strTot hnd' h1.symm (List.mem_map.2 ⟨old, holdmem, rfl⟩)
      obtain ⟨x, hx, hxe⟩ := List.mem_map.1 hin
      rcases mem_modFirst_key (key := fun x : Idx => x.entry.name) hnd hx with ⟨-, h3⟩ | ⟨a, -, -, h3⟩
      · exact h3 (by rw [hxe]; exact holdn)
      · exact hne (by rw [← hxe, h3])
    · have h3 := h2 old holdmem
      rw [holdn, indexInfo_updIdx ((wf_iff c).1 hwf).2.2.2.1 hfind hold hnm] at h3
      simp only [setIdxCols] at h3
      have hondnd := seq_nodup_of_find hwf hmem holdmem
      have : sameMembers new.cols old.cols = true :=
        sameMembers_of_forall fun a =>
          ⟨mem_of_toSet_eq intTot hnewnd h3, mem_of_toSet_eq intTot hondnd h3.symm⟩
      rw [hne] at this; cases this
  · have hk : new.entry.name ∈ ((modFirst (fun x : Idx => x.entry.name == i) (fun _ => new) tb.idxs).map
        (·.entry)).map (·.name) :=
      List.mem_map.2 ⟨new.entry, List.mem_map.2 ⟨new, hnew, rfl⟩, rfl⟩
    have := key_mem_of_toSet_eq strTot h1 hk
    simp only [List.map_map, List.mem_map] at this
    obtain ⟨j, hj, hjn⟩ := this
    have h2 : (idxNames c).contains new.entry.name = true :=
      List.contains_iff_mem.2 (List.mem_map.2 ⟨j, mem_allIdxs hmem hj, hjn⟩)
    rw [hnm] at h2; cases h2

theorem findTable_self {c : Db} (hwf : wf c = true) {t : Table} (ht : t ∈ c.tables) :
    findTable c t.name = some t :=
  find?_key_of_nodup (key := fun x : Table => x.name) ((wf_iff c).1 hwf).1 ht rfl

theorem indexInfo_self {c : Db} (hwf : wf c = true) {t : Table} (ht : t ∈ c.tables) {i : Idx}
    (hi : i ∈ t.idxs) : indexInfo c i.entry.name = i.cols := by
  have := find?_key_of_nodup (key := fun x : Idx => x.entry.name) ((wf_iff c).1 hwf).2.2.2.1
    (mem_allIdxs ht hi) rfl
  simp only [indexInfo, this]

theorem mem_tables_of_user {c : Db} {t : Table} (h : t ∈ userTables c) : t ∈ c.tables :=
  (List.mem_filter.1 h).1

theorem sameCat_refl' (c : Db) (h : wf c = true) : sameCat c c = true := by
  rw [sameCat_iff]
  refine ⟨rfl, rfl, fun t ht => ?_⟩
  have hm := mem_tables_of_user ht
  refine ⟨by rw [tableInfo_of_find (findTable_self h hm)],
    by rw [indexList_of_find (findTable_self h hm)], fun i hi => by rw [indexInfo_self h hm hi]⟩

theorem covers_expOf (c : Db) : covers (expOf c) = true := by
  simp only [covers, Bool.and_eq_true, List.all_eq_true, List.any_eq_true, List.mem_filter]
  constructor
  · rintro t ⟨ht, hint⟩
    have := toSet_subset (show t ∈ toSet ltStr id (tableNames c) from ht)
    obtain ⟨tb, htb, hn⟩ := List.mem_map.1 this
    refine ⟨expOfTable tb, List.mem_map.2 ⟨tb, List.mem_filter.2 ⟨htb, by rw [hn]; exact hint⟩, rfl⟩, ?_⟩
    simp [expOfTable, hn]
  · intro te hte i hi
    obtain ⟨tb, -, rfl⟩ := List.mem_map.1 hte
    have := toSet_subset (show i ∈ toSet ltStr (·.name) (tb.idxs.map (·.entry)) from hi)
    obtain ⟨ix, hix, rfl⟩ := List.mem_map.1 this
    exact ⟨_, List.mem_map.2 ⟨ix, hix, rfl⟩, by simp⟩

theorem allNoMore_expOf (c : Db) : allNoMore (expOf c) = true := by
  simp [allNoMore, expOf, expOfTable]

section sorted
variable {α κ : Type} {lt : κ → κ → Bool} {key : α → κ}

/-- Strictly ascending by key: what iterating a `std::set` yields. -/
def SortedBy (lt : κ → κ → Bool) (key : α → κ) (l : List α) : Prop :=
  l.Pairwise (fun a b => lt (key a) (key b) = true)

theorem insertU_sorted (htr : ∀ x y z, lt x y = true → lt y z = true → lt x z = true)
    (a : α) {l : List α} (hs : SortedBy lt key l) : SortedBy lt key (insertU lt key a l) := by
  induction l with
  | nil => simp [insertU, SortedBy]
  | cons b bs ih =>
    simp only [SortedBy, List.pairwise_cons] at hs
    simp only [insertU]
    split
    · rename_i hab
      simp only [SortedBy, List.pairwise_cons]
      refine ⟨fun x hx => ?_, hs⟩
      rcases List.mem_cons.1 hx with hx | hx
      · rw [hx]; exact hab
      · exact htr _ _ _ hab (hs.1 x hx)
    · split
      · rename_i hba
        simp only [SortedBy, List.pairwise_cons]
        refine ⟨fun x hx => ?_, ih hs.2⟩
        rcases mem_insertU hx with hx | hx
        · rw [hx]; exact hba
        · exact hs.1 x hx
      · simp only [SortedBy, List.pairwise_cons]; exact hs

theorem toSet_sorted (htr : ∀ x y z, lt x y = true → lt y z = true → lt x z = true)
    (l : List α) : SortedBy lt key (toSet lt key l) := by
  have : ∀ acc : List α, SortedBy lt key acc →
      SortedBy lt key (l.foldl (fun acc a => insertU lt key a acc) acc) := by
    induction l with
    | nil => exact fun _ h => h
    | cons a as ih => exact fun acc h => ih _ (insertU_sorted htr a h)
  exact this [] List.Pairwise.nil

theorem sorted_ext (hirr : ∀ x, lt x x = false)
    (htr : ∀ x y z, lt x y = true → lt y z = true → lt x z = true)
    {l₁ l₂ : List α} (h₁ : SortedBy lt key l₁) (h₂ : SortedBy lt key l₂)
    (h : ∀ a, a ∈ l₁ ↔ a ∈ l₂) : l₁ = l₂ := by
  induction l₁ generalizing l₂ with
  | nil =>
    cases l₂ with
    | nil => rfl
    | cons b bs => exact absurd ((h b).2 (by simp)) (by simp)
  | cons a as ih =>
    cases l₂ with
    | nil => exact absurd ((h a).1 (by simp)) (by simp)
    | cons b bs =>
      simp only [SortedBy, List.pairwise_cons] at h₁ h₂
      have hirr' : ∀ x y : α, lt (key x) (key y) = true → lt (key y) (key x) = true → False := by
        intro x y hxy hyx
        have := htr _ _ _ hxy hyx
        rw [hirr] at this; cases this
      have hab : a = b := by
        rcases List.mem_cons.1 ((h a).1 (by simp)) with h1 | h1
        · exact h1
        · rcases List.mem_cons.1 ((h b).2 (by simp)) with h2 | h2
          · exact h2.symm
          · exact absurd (h₁.1 b h2) (fun h3 => hirr' _ _ h3 (h₂.1 a h1))
      subst hab
      have : as = bs := by
        refine ih h₁.2 h₂.2 fun x => ⟨fun hx => ?_, fun hx => ?_⟩
        · rcases List.mem_cons.1 ((h x).1 (by simp [hx])) with h1 | h1
          · subst h1; have := h₁.1 x hx; rw [hirr] at this; cases this
          · exact h1
        · rcases List.mem_cons.1 ((h x).2 (by simp [hx])) with h1 | h1
          · subst h1; have := h₂.1 x hx; rw [hirr] at this; cases this
          · exact h1
      rw [this]

/-- Two `std::set`s built from rows with distinct keys are equal iff the rows are the same. -/
theorem toSet_eq_iff_mem (hirr : ∀ x, lt x x = false)
    (htr : ∀ x y z, lt x y = true → lt y z = true → lt x z = true)
    (htot : ∀ x y, lt x y = false → lt y x = false → x = y)
    {l l' : List α} (hl : (l.map key).Nodup) (hl' : (l'.map key).Nodup) :
    toSet lt key l = toSet lt key l' ↔ ∀ a, a ∈ l ↔ a ∈ l' := by
  constructor
  · exact fun h a => ⟨mem_of_toSet_eq htot hl h, mem_of_toSet_eq htot hl' h.symm⟩
  · intro h
    refine sorted_ext hirr htr (toSet_sorted htr l) (toSet_sorted htr l') fun a => ?_
    rw [mem_toSet htot hl, mem_toSet htot hl', h a]

theorem sameMembers_iff {α} [DecidableEq α] {xs ys : List α} :
    sameMembers xs ys = true ↔ ∀ a, a ∈ xs ↔ a ∈ ys := by
  refine ⟨fun h a => ?_, sameMembers_of_forall⟩
  simp only [sameMembers, Bool.and_eq_true, List.all_eq_true, List.contains_iff_mem] at h
  exact ⟨h.1 a, h.2 a⟩

theorem toSet_eq_iff_sameMembers [DecidableEq α] (hirr : ∀ x, lt x x = false)
    (htr : ∀ x y z, lt x y = true → lt y z = true → lt x z = true)
    (htot : ∀ x y, lt x y = false → lt y x = false → x = y)
    {l l' : List α} (hl : (l.map key).Nodup) (hl' : (l'.map key).Nodup) :
    toSet lt key l' = toSet lt key l ↔ sameMembers l l' = true := by
  rw [sameMembers_iff, eq_comm]
  exact toSet_eq_iff_mem hirr htr htot hl hl'

end sorted

theorem ltStr_irrefl : ∀ x : Str, ltStr x x = false := by
  intro x
  induction x with
  | nil => rfl
  | cons a as ih => simp [ltStr, ih]

theorem ltStr_trans : ∀ x y z : Str, ltStr x y = true → ltStr y z = true → ltStr x z = true := by
  intro x
  induction x with
  | nil =>
    intro y z
    cases y <;> cases z <;> simp [ltStr]
  | cons a as ih =>
    intro y z
    cases y with
    | nil => simp [ltStr]
    | cons b bs =>
      cases z with
      | nil => simp [ltStr]
      | cons d ds =>
        simp only [ltStr, Bool.or_eq_true, decide_eq_true_eq, Bool.and_eq_true, beq_iff_eq]
        rintro (h1 | ⟨h1, h1'⟩) (h2 | ⟨h2, h2'⟩)
        · exact Or.inl (by omega)
        · exact Or.inl (by omega)
        · exact Or.inl (by omega)
        · exact Or.inr ⟨by omega, ih _ _ h1' h2'⟩

theorem ltInt_irrefl : ∀ x : Int, ltInt x x = false := by simp [ltInt]

theorem ltInt_trans : ∀ x y z : Int, ltInt x y = true → ltInt y z = true → ltInt x z = true := by
  simp only [ltInt, decide_eq_true_eq]; omega

theorem tableInfo_nodup {c : Db} (h : wf c = true) (n : Str) : ((tableInfo c n).map (·.name)).Nodup := by
  unfold tableInfo
  split
  · rename_i tb hf
    exact ((wf_iff c).1 h).2.2.1 tb (List.mem_of_find?_eq_some hf)
  · exact List.nodup_nil

theorem indexList_nodup {c : Db} (h : wf c = true) (n : Str) : ((indexList c n).map (·.name)).Nodup := by
  unfold indexList
  split
  · rename_i tb hf
    rw [List.map_map]
    exact nodup_idxs_of_mem ((wf_iff c).1 h).2.2.2.1 (List.mem_of_find?_eq_some hf)
  · exact List.nodup_nil

theorem indexInfo_nodup {c : Db} (h : wf c = true) (n : Str) : ((indexInfo c n).map (·.seqno)).Nodup := by
  unfold indexInfo
  split
  · rename_i ix hf
    exact ((wf_iff c).1 h).2.2.2.2 ix (List.mem_of_find?_eq_some hf)
  · exact List.nodup_nil

theorem setNames_eq_iff {l l' : List Str} (hl : l.Nodup) (hl' : l'.Nodup) :
    setNames l' = setNames l ↔ sameMembers l l' = true :=
  toSet_eq_iff_sameMembers (key := id) ltStr_irrefl ltStr_trans strTot (by simpa using hl) (by simpa using hl')

theorem setCols_eq_iff {l l' : List Col} (hl : (l.map (·.name)).Nodup) (hl' : (l'.map (·.name)).Nodup) :
    setCols l' = setCols l ↔ sameMembers l l' = true :=
  toSet_eq_iff_sameMembers ltStr_irrefl ltStr_trans strTot hl hl'

theorem setIdxs_eq_iff {l l' : List IdxE} (hl : (l.map (·.name)).Nodup) (hl' : (l'.map (·.name)).Nodup) :
    setIdxs l' = setIdxs l ↔ sameMembers l l' = true :=
  toSet_eq_iff_sameMembers ltStr_irrefl ltStr_trans strTot hl hl'

theorem setIdxCols_eq_iff {l l' : List IdxCol} (hl : (l.map (·.seqno)).Nodup)
    (hl' : (l'.map (·.seqno)).Nodup) : setIdxCols l' = setIdxCols l ↔ sameMembers l l' = true :=
  toSet_eq_iff_sameMembers ltInt_irrefl ltInt_trans intTot hl hl'

theorem sameCat_iff_plain' (c c' : Db) (h : wf c = true) (h' : wf c' = true) :
    sameCat c c' = true ↔ deviatesPlain c c' = false := by
  rw [sameCat_iff]
  simp only [deviatesPlain, Bool.not_eq_false', Bool.and_eq_true, List.all_eq_true, and_assoc]
  have w := (wf_iff c).1 h
  have w' := (wf_iff c').1 h'
  refine and_congr (setNames_eq_iff w.1 w'.1) (and_congr (setNames_eq_iff w.2.1 w'.2.1) ?_)
  refine forall_congr' fun t => imp_congr_right fun ht => ?_
  have hm := mem_tables_of_user ht
  refine and_congr (setCols_eq_iff (w.2.2.1 t hm) (tableInfo_nodup h' _)) (and_congr ?_ ?_)
  · refine setIdxs_eq_iff ?_ (indexList_nodup h' _)
    rw [List.map_map]; exact nodup_idxs_of_mem w.2.2.2.1 hm
  · refine forall_congr' fun i => imp_congr_right fun hi => ?_
    exact setIdxCols_eq_iff (seq_nodup_of_find h hm hi) (indexInfo_nodup h' _)

/-! ### arbitrary closed expectation tables -/

theorem covers_iff (E : DbExp) : covers E = true ↔
    (∀ n ∈ E.tables, isInternal n = false → ∃ te ∈ E.perTable, te.name = n) ∧
    ∀ te ∈ E.perTable, ∀ i ∈ te.idxs, ∃ x ∈ te.idxCols, x.index = i.name := by
  simp only [covers, Bool.and_eq_true, List.all_eq_true, List.any_eq_true, List.mem_filter,
    Bool.not_eq_true', beq_iff_eq, and_imp]

theorem user_name_mem_setNames {c : Db} (hwf : wf c = true) {t : Table} (ht : t ∈ userTables c) :
    t.name ∈ setNames (tableNames c) ∧ isInternal t.name = false := by
  have hm := List.mem_filter.1 ht
  refine ⟨?_, by simpa using hm.2⟩
  have hnd : ((tableNames c).map id).Nodup := by simpa using ((wf_iff c).1 hwf).1
  exact (mem_toSet (lt := ltStr) (key := id) strTot hnd).2 (List.mem_map.2 ⟨t, hm.1, rfl⟩)

theorem entry_mem_setIdxs {c : Db} (hwf : wf c = true) {t : Table} (ht : t ∈ c.tables) {i : Idx}
    (hi : i ∈ t.idxs) : i.entry ∈ setIdxs (t.idxs.map (·.entry)) := by
  have hnd : ((t.idxs.map (·.entry)).map (·.name)).Nodup := by
    rw [List.map_map]; exact nodup_idxs_of_mem ((wf_iff c).1 hwf).2.2.2.1 ht
  exact (mem_toSet (lt := ltStr) (key := fun x : IdxE => x.name) strTot hnd).2
    (List.mem_map.2 ⟨i, hi, rfl⟩)


end EngineModel.Spec.Validator
