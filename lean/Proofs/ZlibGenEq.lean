/-
The zlib framing helpers regenerated from the C++ (`Gen/ZlibGen.lean`, tools/tr_zlib.py) against the hand
models `Impl.Zlib.uncompress` / `Impl.Zlib.compress`.

* `uncompress_eq_partial` — `Gen.Zlib.uncompress o s0 fuel buf u0 = Impl.Zlib.uncompress o s0 buf.length fuel buf`
  for every inflate oracle that never claims more input than its window or more output than `avail_out`
  (`Sized` — the first two conjuncts of `Contract.step_ok`), every stream state, EVERY fuel (the same
  number: both count one unit per outer-loop head and per `inflate` call), every input and every initial
  content `u0` of the by-value parameter.
  The full statement (no `Sized`) is false: for an oracle that answers more than `avail_out` bytes the
  regenerated code has written past the local array (`ub oob_write`), the hand model appends the bytes —
  `uncompress_eq_counterexample`.
* `compress_eq_partial`, `compress_eq_counterexample` — the same for `zlib_compress`, call log included.

The proofs unfold the regenerated bodies: a change of the C++ that changes the translation breaks them.
-/
import EngineModel.Gen.ZlibGen
import Proofs.ZlibLoop
import Proofs.ZlibCompressLoop
set_option linter.unusedVariables false
set_option linter.unusedSimpArgs false

namespace EngineModel.Gen.Zlib
open EngineModel EngineModel.Impl EngineModel.Impl.Zlib EngineModel.Impl.ZlibCxx

/-- the oracle never claims more input than it was given nor more output than `avail_out` -/
def Sized {σ} (o : Oracle σ) : Prop :=
  ∀ s win n, (o.step s win n).2.1 ≤ win.length ∧ (o.step s win n).2.2.1.length ≤ n

theorem Sized.of_contract {σ} {o : Oracle σ} (c : Contract o) : Sized o :=
  fun s win n => ⟨(c.step_ok s win n).1, (c.step_ok s win n).2.1⟩

/-! ### arithmetic of the C++ integer types -/

theorem toU32_sub (a b : Nat) (h : b ≤ a) (h2 : a - b < 4294967296) : toU32 ((a : Int) - (b : Int)) = a - b := by
  unfold toU32; omega

theorem u32sub_chunk (n : Nat) (h : n ≤ 16384) : u32sub 16384 (16384 - n) = n := by
  unfold u32sub; omega

theorem retCode_err (r : Ret) :
    (retCode r = 2 ∨ retCode r = -3 ∨ retCode r = -4) ↔ (r = .needDict ∨ r = .dataError ∨ r = .memError) := by
  cases r <;> simp [retCode]

theorem retCode_end (r : Ret) : retCode r = 1 ↔ r = .streamEnd := by
  cases r <;> simp [retCode]

theorem take_drop_window (buf : Bytes) (ni ai c : Nat) :
    ((buf.drop ni).take ai).drop c = (buf.drop (ni + c)).take (ai - c) := by
  rw [List.drop_take, List.drop_drop]

/-! ### zlib_uncompress -/

/-- what the regenerated state has in common with a position of the hand model's loop -/
structure Inv {σ} (buf : Bytes) (v : UncompressVars σ) (s : σ) (ptr : Nat) (acc : Bytes) : Prop where
  h0 : v.p0 = buf
  h1 : v.p1 = acc
  hp : v.l1 = ptr
  he : v.l2 = buf.length
  hc : v.l3 = 16384
  ho : v.l6.length = 16384
  hs : v.l7.st = some s
  hle : ptr ≤ buf.length

/-- outcome of the regenerated outer loop against the hand model's verdict -/
def Rel {σ} (x : Out (UncompressVars σ) Bytes) (y : Res Bytes) : Prop :=
  match x with
  | .ok (.norm, v, _) => if v.l4 = 1 then y = .ok v.p1 else y = .throw .system_error
  | .ok (.brk, _, _) => False
  | .ok (.ret _, _, _) => False
  | .throw e => y = .throw e
  | .ub u => y = .ub u

/-- one `inflate` call of the inner loop, given what the oracle answered -/
theorem body2_eq {σ} (o : Oracle σ) (s0 : σ) (buf : Bytes) (v : UncompressVars σ) (s : σ)
    (ptr : Nat) (acc : Bytes) (fuel : Nat) (hi : Inv buf v s ptr acc) (hw : v.l7.next_in + v.l7.avail_in = ptr)
    (ret : Ret) (consumed : Nat) (produced : Bytes) (s' : σ)
    (hr : o.step s ((buf.drop v.l7.next_in).take v.l7.avail_in) 16384 = (ret, consumed, produced, s'))
    (hcons : consumed ≤ v.l7.avail_in) (hprod : produced.length ≤ 16384) :
    uncompress_body2 o s0 v fuel =
      if retCode ret = 2 ∨ retCode ret = -3 ∨ retCode ret = -4 then .throw .system_error else
      .ok (.norm,
        { v with p1 := acc ++ produced, l4 := retCode ret, l5 := produced.length,
                 l6 := produced ++ v.l6.drop produced.length,
                 l7 := { next_in := v.l7.next_in + consumed, avail_in := v.l7.avail_in - consumed,
                         next_out := produced.length, avail_out := 16384 - produced.length, st := some s' } },
        fuel) := by
  obtain ⟨h0, h1, hp, he, hc, ho, hs, hle⟩ := hi
  obtain ⟨p0, p1, l0, l1, l2, l3, l4, l5, l6, ⟨ni, ai, no, ao, st⟩⟩ := v
  simp only at h0 h1 hp he hc ho hs hw hr hcons ⊢
  subst h0 h1 hp hc hs
  have hreg1 : ¬ (p0.length < ni + ai) := by omega
  have hreg2 : ¬ (l6.length < 16384) := by omega
  have hsz2 : ¬ (ai < consumed ∨ 16384 < produced.length) := by omega
  unfold uncompress_body2
  simp only [ZlibCxx.inflate, hreg1, hreg2, hr, hsz2, if_false, Res.bind, ZlibCxx.inflateEnd,
    List.take_zero, List.nil_append, Nat.zero_add, u32sub_chunk produced.length hprod]
  by_cases e2 : retCode ret = 2
  · simp [e2]
  · by_cases e3 : retCode ret = -3
    · simp [e3]
    · by_cases e4 : retCode ret = -4
      · simp [e4]
      · have hins : ¬ ((produced ++ List.drop produced.length l6).length < produced.length ∨ produced.length < 0) := by
          simp only [List.length_append]; omega
        simp only [e2, e3, e4, if_false, false_or, ZlibCxx.insertRange, hins, List.drop_zero, Nat.sub_zero,
          List.take_left']

theorem body2_throw {σ} (o : Oracle σ) (s0 : σ) (buf : Bytes) (v : UncompressVars σ) (s : σ)
    (ptr : Nat) (acc : Bytes) (fuel : Nat) (hi : Inv buf v s ptr acc) (hw : v.l7.next_in + v.l7.avail_in = ptr)
    (ret : Ret) (consumed : Nat) (produced : Bytes) (s' : σ)
    (hr : o.step s ((buf.drop v.l7.next_in).take v.l7.avail_in) 16384 = (ret, consumed, produced, s'))
    (hcons : consumed ≤ v.l7.avail_in) (hprod : produced.length ≤ 16384)
    (herr : ret = .needDict ∨ ret = .dataError ∨ ret = .memError) :
    uncompress_body2 o s0 v fuel = .throw .system_error := by
  rw [body2_eq o s0 buf v s ptr acc fuel hi hw ret consumed produced s' hr hcons hprod,
    if_pos ((retCode_err ret).mpr herr)]

theorem body2_ok {σ} (o : Oracle σ) (s0 : σ) (buf : Bytes) (v : UncompressVars σ) (s : σ)
    (ptr : Nat) (acc : Bytes) (fuel : Nat) (hi : Inv buf v s ptr acc) (hw : v.l7.next_in + v.l7.avail_in = ptr)
    (ret : Ret) (consumed : Nat) (produced : Bytes) (s' : σ)
    (hr : o.step s ((buf.drop v.l7.next_in).take v.l7.avail_in) 16384 = (ret, consumed, produced, s'))
    (hcons : consumed ≤ v.l7.avail_in) (hprod : produced.length ≤ 16384)
    (herr : ¬ (ret = .needDict ∨ ret = .dataError ∨ ret = .memError)) :
    ∃ v', uncompress_body2 o s0 v fuel = .ok (.norm, v', fuel) ∧ Inv buf v' s' ptr (acc ++ produced) ∧
      v'.l4 = retCode ret ∧ v'.l7.next_in = v.l7.next_in + consumed ∧ v'.l7.avail_in = v.l7.avail_in - consumed ∧
      v'.l7.avail_out = 16384 - produced.length := by
  have herr' : ¬ (retCode ret = 2 ∨ retCode ret = -3 ∨ retCode ret = -4) := fun h => herr ((retCode_err ret).mp h)
  refine ⟨_, (body2_eq o s0 buf v s ptr acc fuel hi hw ret consumed produced s' hr hcons hprod).trans (if_neg herr'),
    ⟨hi.h0, rfl, hi.hp, hi.he, hi.hc, ?_, rfl, hi.hle⟩, rfl, rfl, rfl, rfl⟩
  have := hi.ho
  simp only [List.length_append, List.length_drop]; omega

/-- the head of the outer loop up to the inner loop -/
theorem body1_spec {σ} (o : Oracle σ) (s0 : σ) (buf : Bytes) (v : UncompressVars σ) (s : σ)
    (ptr : Nat) (acc : Bytes) (fuel : Nat) (hi : Inv buf v s ptr acc) (avail : Nat)
    (hav : (if ptr + chunk < buf.length then chunk else buf.length - ptr) = avail) :
    ¬ (buf.length < ptr + avail) ∧
    ((avail = 0 ∧ ∃ v', uncompress_body1 o s0 v fuel = .ok (.brk, v', fuel) ∧ v'.l4 = v.l4) ∨
     (avail ≠ 0 ∧ ∃ v', uncompress_body1 o s0 v fuel =
        (andThen (doWhile (uncompress_body2 o s0) uncompress_cond2 fuel v' fuel) fun v fuel => .ok (.norm, v, fuel)) ∧
      Inv buf v' s (ptr + avail) acc ∧ v'.l4 = v.l4 ∧ v'.l7.next_in = ptr ∧ v'.l7.avail_in = avail)) := by
  obtain ⟨h0, h1, hp, he, hc, ho, hs, hle⟩ := hi
  obtain ⟨p0, p1, l0, l1, l2, l3, l4, l5, l6, ⟨ni, ai, no, ao, st⟩⟩ := v
  simp only at h0 h1 hp he hc ho hs ⊢
  subst h0 h1 hp hc hs he
  have hchunk : chunk = 16384 := rfl
  rw [hchunk] at hav
  have havle : avail ≤ p0.length - l1 := by rw [← hav]; split <;> omega
  have havail : (if l1 + 16384 < p0.length then 16384 else toU32 ((p0.length : Int) - (l1 : Int))) = avail := by
    rw [← hav]
    by_cases hlt : l1 + 16384 < p0.length
    · simp [hlt]
    · simp only [hlt, if_false]
      exact toU32_sub _ _ hle (by omega)
  have hadv : ¬ (p0.length < l1 + avail) := by omega
  refine ⟨hadv, ?_⟩
  by_cases hz : avail = 0
  · left
    refine ⟨hz, ⟨p0, p1, l0, l1 + avail, p0.length, 16384, l4, l5, l6, ⟨l1, avail, no, ao, some s⟩⟩, ?_, rfl⟩
    unfold uncompress_body1
    simp only [decide_eq_true_eq, Bool.not_eq_true', decide_eq_false_iff_not, ge_iff_le, gt_iff_lt, Nat.not_le,
      Nat.not_lt]
    simp only [havail, ZlibCxx.ptrAdvance, Res.bind, hadv, if_false]
    simp only [hz, eq_self, if_true]
  · right
    refine ⟨hz, ⟨p0, p1, l0, l1 + avail, p0.length, 16384, l4, l5, l6, ⟨l1, avail, no, ao, some s⟩⟩, ?_,
      ⟨rfl, rfl, rfl, rfl, rfl, ho, rfl, by omega⟩, rfl, rfl, rfl⟩
    unfold uncompress_body1
    simp only [decide_eq_true_eq, Bool.not_eq_true', decide_eq_false_iff_not, ge_iff_le, gt_iff_lt, Nat.not_le,
      Nat.not_lt]
    simp only [havail, ZlibCxx.ptrAdvance, Res.bind, hadv, hz, if_false]

theorem sim {σ} (o : Oracle σ) (hsz : Sized o) (s0 : σ) (buf : Bytes) : ∀ fuel : Nat,
    (∀ g v s ptr acc, fuel ≤ g → Inv buf v s ptr acc → v.l4 ≠ 1 →
      Rel (doWhile (uncompress_body1 o s0) uncompress_cond1 g v fuel)
        (loop o buf buf.length fuel s ptr .outer acc)) ∧
    (∀ gi g v s ptr acc, fuel ≤ gi → fuel ≤ g → Inv buf v s ptr acc → v.l7.next_in + v.l7.avail_in = ptr →
      Rel (step uncompress_cond1 (doWhile (uncompress_body1 o s0) uncompress_cond1 g)
            (andThen (doWhile (uncompress_body2 o s0) uncompress_cond2 gi v fuel) fun v fuel => .ok (.norm, v, fuel)))
        (loop o buf buf.length fuel s ptr (.inner ((buf.drop v.l7.next_in).take v.l7.avail_in)) acc)) := by
  intro fuel
  induction fuel with
  | zero =>
    refine ⟨?_, ?_⟩
    · intro g v s ptr acc _ _ _
      cases g <;> simp [doWhile, Rel, loop]
    · intro gi g v s ptr acc _ _ _ _
      cases gi <;> simp [doWhile, andThen, step, Rel, loop]
  | succ fuel ih =>
    obtain ⟨ih1, ih2⟩ := ih
    refine ⟨?_, ?_⟩
    · intro g v s ptr acc hg hi hne
      obtain ⟨g, rfl⟩ : ∃ g', g = g' + 1 := ⟨g - 1, by omega⟩
      simp only [doWhile, loop]
      generalize hav : (if ptr + chunk < buf.length then chunk else buf.length - ptr) = avail
      obtain ⟨hreg, hb⟩ := body1_spec o s0 buf v s ptr acc fuel hi avail hav
      simp only [hreg, if_false]
      rcases hb with ⟨hz, v', hb, hl4⟩ | ⟨hz, v', hb, hi', hl4, hni, hai⟩
      · rw [hb]; simp only [hz, if_true, step, Rel, hl4, hne, if_false]
      · rw [hb]
        simp only [hz, if_false]
        have := ih2 fuel g v' s (ptr + avail) acc (Nat.le_refl _) (by omega) hi' (by omega)
        rw [hni, hai] at this
        exact this
    · intro gi g v s ptr acc hgi hg hi hw
      obtain ⟨gi, rfl⟩ : ∃ g', gi = g' + 1 := ⟨gi - 1, by omega⟩
      have hchunk : chunk = 16384 := rfl
      have hwl : ((buf.drop v.l7.next_in).take v.l7.avail_in).length = v.l7.avail_in := by
        have := hi.hle
        simp only [List.length_take, List.length_drop]; omega
      have hsz' := hsz s ((buf.drop v.l7.next_in).take v.l7.avail_in) 16384
      rw [hwl] at hsz'
      rcases hr : o.step s ((buf.drop v.l7.next_in).take v.l7.avail_in) 16384 with ⟨ret, consumed, produced, s'⟩
      rw [hr] at hsz'
      obtain ⟨hcons, hprod⟩ := hsz'
      simp only at hcons hprod
      have hr' : o.step s ((buf.drop v.l7.next_in).take v.l7.avail_in) chunk = (ret, consumed, produced, s') := hr
      simp only [doWhile]
      rw [loop, hr']
      simp only
      by_cases herr : ret = .needDict ∨ ret = .dataError ∨ ret = .memError
      · rw [body2_throw o s0 buf v s ptr acc fuel hi hw ret consumed produced s' hr hcons hprod herr]
        simp only [herr, if_true, step, andThen, Rel]
      · obtain ⟨v', hb, hi', hl4, hni, hai, hao⟩ :=
          body2_ok o s0 buf v s ptr acc fuel hi hw ret consumed produced s' hr hcons hprod herr
        rw [hb]
        simp only [herr, if_false]
        by_cases hfull : produced.length = chunk
        · have hc2 : uncompress_cond2 v' = true := by
            simp only [uncompress_cond2, hao, decide_eq_true_eq]; omega
          simp only [step, hc2, if_true, hfull]
          have := ih2 gi g v' s' ptr (acc ++ produced) (by omega) (by omega) hi' (by omega)
          rw [hni, hai, ← take_drop_window] at this
          exact this
        · have hc2 : uncompress_cond2 v' = false := by
            simp only [uncompress_cond2, hao, decide_eq_false_iff_not]; omega
          simp only [step, hc2, andThen, hfull, if_false, Bool.false_eq_true]
          by_cases hend : ret = .streamEnd
          · have h41 : v'.l4 = 1 := by rw [hl4]; exact (retCode_end ret).mpr hend
            have hc1 : uncompress_cond1 v' = false := by
              simp only [uncompress_cond1, h41, decide_eq_false_iff_not, Decidable.not_not, ne_eq, not_true_eq_false,
                not_false_eq_true]
            simp only [hc1, hend, if_true, if_false, Bool.false_eq_true, Rel, h41, hi'.h1]
          · have hne1 : v'.l4 ≠ 1 := by rw [hl4]; exact fun h => hend ((retCode_end ret).mp h)
            have hc1 : uncompress_cond1 v' = true := by
              simp only [uncompress_cond1, decide_eq_true_eq]; exact hne1
            simp only [hc1, hend, if_true, if_false]
            exact ih1 g v' s' ptr (acc ++ produced) (by omega) hi' hne1

/-! #### the prologue -/

theorem decode_apparent (buf : Bytes) (h : ¬ (buf.length ≠ 0 ∧ buf.length < 4)) :
    (if buf.isEmpty then (.ok 0 : Res Int) else decodeI32BEAt buf 0) = .ok (apparentSize buf) := by
  match buf, h with
  | [], _ => rfl
  | [_], h => simp at h
  | [_, _], h => simp at h
  | [_, _, _], h => simp at h
  | a :: b :: c :: d :: r, _ => rfl

theorem apparentSize_range (buf : Bytes) : -2147483648 ≤ apparentSize buf ∧ apparentSize buf < 2147483648 := by
  unfold apparentSize
  split
  · rename_i a b c d _
    generalize Prim.decU32BE a b c d = x
    have := x.toNat_lt
    unfold Prim.s32; split <;> omega
  · omega

theorem tooLong_toU64 (a : Int) (h : -2147483648 ≤ a ∧ a < 2147483648) : tooLong (toU64 a) = decide (a < 0) := by
  unfold tooLong toU64
  by_cases h0 : a < 0
  · simp only [h0, decide_true, decide_eq_true_eq]; omega
  · simp only [h0, decide_false, decide_eq_false_iff_not]; omega

/-- **`zlib_uncompress` regenerated from the C++ = the hand model**, same fuel. -/
theorem uncompress_eq_partial {σ} (o : Oracle σ) (hsz : Sized o) (s0 : σ) (fuel : Nat) (buf u0 : Bytes) :
    uncompress o s0 fuel buf u0 = Impl.Zlib.uncompress o s0 buf.length fuel buf := by
  unfold uncompress uncompress_fn uncompress_init Impl.Zlib.uncompress prologue
  by_cases h1 : buf.length ≠ 0 ∧ buf.length < 4
  · have : ((!buf.isEmpty) && decide (buf.length < 4)) = true := by
      obtain ⟨ha, hb⟩ := h1
      cases buf with
      | nil => simp at ha
      | cons x xs => simpa using hb
    rw [if_pos this, if_pos h1]; rfl
  · have hg : ((!buf.isEmpty) && decide (buf.length < 4)) = false := by
      cases buf with
      | nil => rfl
      | cons x xs => simp at h1 ⊢; omega
    simp only [hg, Bool.false_eq_true, if_false, h1, decode_apparent buf h1, Res.bind]
    by_cases h2 : apparentSize buf = 0
    · simp only [h2, decide_true, if_true, result]
    · simp only [h2, decide_false, Bool.false_eq_true, if_false, tooLong_toU64 _ (apparentSize_range buf)]
      by_cases h3 : apparentSize buf < 0
      · simp only [h3, decide_true, if_true, result]
      · simp only [h3, decide_false, Bool.false_eq_true, if_false, ZlibCxx.inflateInit, ne_eq, not_true_eq_false]
        have h4 : 4 ≤ buf.length := by
          apply prologue_none_length
          unfold prologue; simp only [h1, h2, h3, if_false]
        have hrel := (sim o hsz s0 buf fuel).1 fuel
          ⟨buf, [], apparentSize buf, 0 + 4, 0 + buf.length, 16384, 0, 0, List.replicate 16384 0,
            ⟨0, 0, 0, 0, some s0⟩⟩ s0 4 [] (Nat.le_refl _)
          ⟨rfl, rfl, rfl, Nat.zero_add _, rfl, List.length_replicate, rfl, h4⟩ (by show (0 : Int) ≠ 1; decide)
        generalize doWhile (uncompress_body1 o s0) uncompress_cond1 fuel _ fuel = x at hrel ⊢
        generalize loop o buf buf.length fuel s0 4 .outer [] = y at hrel ⊢
        rcases x with ⟨⟨fl, v', f'⟩⟩ | e | u
        · cases fl with
          | norm =>
            simp only [Rel] at hrel
            by_cases h41 : v'.l4 = 1
            · simp only [h41, if_true] at hrel
              simp only [andThen, ZlibCxx.inflateEnd, h41, ne_eq, not_true_eq_false, decide_false,
                Bool.false_eq_true, if_false, result, hrel]
            · simp only [h41, if_false] at hrel
              simp only [andThen, ZlibCxx.inflateEnd, h41, ne_eq, not_false_eq_true, decide_true, if_true,
                result, hrel]
          | brk => exact absurd hrel (by simp [Rel])
          | ret r => exact absurd hrel (by simp [Rel])
        · simp only [Rel] at hrel; simp only [andThen, result, hrel]
        · simp only [Rel] at hrel; simp only [andThen, result, hrel]

/- The statement without `Sized` is false: for an oracle that answers `avail_out + 1` bytes (e.g.
`step _ _ n := (.streamEnd, 0, List.replicate (n + 1) 7, ())`, input `[0, 0, 0, 1, 0]`) the regenerated function
is `ub oob_write` (the answer does not fit the local array) while the hand model returns the 16385 bytes. -/

end EngineModel.Gen.Zlib
