/-
C15, schema 1.x tracks: a removed track stays absent along every continuation in which no
`create_track` reports its id again.  (The 1.x track model allocates `MAX(id) + 1`, as the schemas
before 1.17.0 do — `INTEGER PRIMARY KEY` without AUTOINCREMENT — so the id of the removed track with
the largest id IS handed out again: `Properties/C15TracksV1.v1t_C15_stale_handle_counterexample`.)
-/
import Proofs.NoUbTracksV1

namespace EngineModel.Api.C15TracksV1
open EngineModel EngineModel.TracksV1
open Fl (FOps)

/-- the id a `create_track` call reports -/
def createdId : Res Out → Option Int
  | .ok (.id i) => some i
  | _ => none

/-- Does some `create_track` of the continuation `ops` (run from `d`) report the id `id`? -/
def reissuesT (o : FOps) : Db → List Op → Int → Bool
  | _, [], _ => false
  | d, op :: ops, id =>
    (match op, (step o d op).2 with
      | .create _, .ok (.id i) => decide (i = id)
      | _, _ => false) || reissuesT o (step o d op).1 ops id

theorem aget_append_other {β} (l : List (Int × β)) (k k' : Int) (v : β) (h : k ≠ k') :
    aget k' (l ++ [(k, v)]) = aget k' l := by
  induction l with
  | nil => simp [aget, h]
  | cons hd t ih =>
    obtain ⟨a, b⟩ := hd
    simp only [List.cons_append, aget]
    split
    · rfl
    · exact ih

/-- one step keeps an absent track absent unless it is a creation that reports its id -/
theorem absent_step (o : FOps) (d : Db) (id : Int) (h : d.rows id = none) (op : Op)
    (hno : (match op, (step o d op).2 with
      | .create _, .ok (.id i) => decide (i = id)
      | _, _ => false) = false) : (step o d op).1.rows id = none := by
  cases op with
  | create x =>
    simp only [step] at hno ⊢
    cases hc : dbCreate o d x with
    | ub u => exact h
    | throw e => exact h
    | ok p =>
      obtain ⟨d', i⟩ := p
      rw [hc] at hno
      simp only [decide_eq_false_iff_not] at hno
      simp only
      -- the created state is `d` with one row appended under the reported id
      unfold dbCreate at hc
      simp only at hc
      cases hw : writeSnap o d.schema x none with
      | ub u => rw [hw] at hc; cases hc
      | throw e =>
        rw [hw] at hc
        simp only at hc
        split at hc
        · cases hc
        · split at hc
          · cases hc
          · split at hc <;> cases hc
      | ok rows =>
        rw [hw] at hc
        simp only at hc
        split at hc
        · cases hc
        · cases hc
          show aget id (d.tracks ++ [(nextId d, rows)]) = none
          rw [aget_append_other _ _ _ _ hno]
          exact h
  | update i x =>
    simp only [step]
    cases hu : dbUpdate o d i x with
    | ub u => exact h
    | throw e => exact h
    | ok d' =>
      simp only
      unfold dbUpdate at hu
      cases hr : d.rows i with
      | none =>
        rw [hr] at hu
        simp only at hu
        cases hw : writeSnap o d.schema x none with
        | ub u => rw [hw] at hu; cases hu
        | throw e => rw [hw] at hu; simp only at hu; split at hu <;> cases hu
        | ok _ => rw [hw] at hu; cases hu
      | some prior =>
        rw [hr] at hu
        simp only at hu
        have hne : id ≠ i := by intro e; rw [e, hr] at h; cases h
        cases hw : writeSnap o d.schema x (some prior) with
        | ub u => rw [hw] at hu; cases hu
        | throw e =>
          rw [hw] at hu
          simp only at hu
          split at hu
          · cases hu
          · split at hu
            · cases hu
            · split at hu <;> cases hu
        | ok rows =>
          rw [hw] at hu
          simp only at hu
          split at hu
          · cases hu
          · cases hu
            show aget id (aset i rows d.tracks) = none
            rw [aget_aset_other _ _ _ _ hne]
            exact h
  | snapshot i =>
    simp only [step]
    cases dbSnap o d i <;> exact h
  | get i f =>
    simp only [step]
    cases dbGet o d i f <;> exact h
  | getDerived i g =>
    simp only [step]
    cases d.rows i <;> exact h
  | set i f v =>
    simp only [step]
    cases hs : dbSet o d i f v with
    | ub u => exact h
    | throw e => exact h
    | ok d' =>
      simp only
      cases hr : d.rows i with
      | none =>
        obtain ⟨e, he⟩ := dbSet_absent o d i f v hr
        rw [he] at hs; cases hs
      | some r =>
        have hne : id ≠ i := by intro e; rw [e, hr] at h; cases h
        show d'.rows id = none
        rw [dbSet_rows_other o d d' i id f v hne hs]
        exact h
  | remove i =>
    simp only [step]
    show aget id (d.tracks.filter fun e => e.1 ≠ i) = none
    by_cases hi : id = i
    · subst hi; exact aget_filter_ne _ _
    · rw [aget_filter_other _ _ _ hi]; exact h
  | isValid i => exact h
  | handleId i => exact h
  | handleCopy i => exact h

theorem absent_run (o : FOps) (id : Int) (ops : List Op) : ∀ (d : Db), d.rows id = none →
    reissuesT o d ops id = false → (run o d ops).rows id = none := by
  induction ops with
  | nil => intro d h _; exact h
  | cons op t ih =>
    intro d h hno
    simp only [reissuesT, Bool.or_eq_false_iff] at hno
    exact ih _ (absent_step o d id h op hno.1) hno.2

end EngineModel.Api.C15TracksV1
