/-
`Spec.normalize` is idempotent (the read-back snapshot is a fixed point).
-/
import Proofs.TracksV2

namespace EngineModel
namespace TracksV2
namespace Spec

open Prim

theorem normZeroAbsent_idem (v : Option F) : normZeroAbsent (normZeroAbsent v) = normZeroAbsent v := by
  cases v with
  | none => rfl
  | some b =>
    by_cases h : b = 0 ∨ b = F64.negZero
    · simp [normZeroAbsent, h]
    · simp [normZeroAbsent, h]

theorem normCount_idem (v : Option UInt64) : normCount (normCount v) = normCount v := by
  cases v with
  | none => rfl
  | some n => by_cases h : n = 0 <;> simp [normCount, h]

theorem normBpm_idem (v : Option F) : normBpm (normBpm v) = normBpm v := by
  cases v with
  | none => rfl
  | some b =>
    by_cases hn : F64.isNaN b = true
    · simp [normBpm, hn]
    · by_cases hz : b = F64.negZero
      · subst hz; decide
      · simp [normBpm, hn, hz]

theorem normRating_idem (v : Option UInt32) : normRating (normRating v) = normRating v := by
  cases v with
  | none => rfl
  | some r =>
    by_cases h0 : s32 r ≤ 0
    · simp [normRating, h0]
    · by_cases h1 : 100 < s32 r
      · simp only [normRating, h0, h1, if_true, if_false]; decide
      · simp [normRating, h0, h1]

theorem normTime_idem (v : Option UInt64) : normTime (normTime v) = normTime v := by
  cases v with
  | none => rfl
  | some t => simp [normTime, wholeSeconds_idem 1000000000 (by omega)]

theorem normDuration_idem (v : Option UInt64) : normDuration (normDuration v) = normDuration v := by
  cases v with
  | none => rfl
  | some ms =>
    have hr := s64_range ms
    obtain ⟨b1, b2, _, _⟩ := tdiv_bounds (s64 ms) 1000 (by omega) hr.1 hr.2
    by_cases hq : Int.tdiv (s64 ms) 1000 = 0
    · simp [normDuration, hq]
    · have e : Int.tdiv (s64 (wholeSeconds 1000 ms)) 1000 = Int.tdiv (s64 ms) 1000 := by
        unfold wholeSeconds
        rw [s64_u64OfInt _ b1 b2, Int.mul_tdiv_cancel _ (by omega)]
      simp only [normDuration, hq, if_false, e, wholeSeconds_idem 1000 (by omega)]

theorem normCue_idem (c : Option HotCue) : normCue (normCue c) = normCue c := by
  cases c with
  | none => rfl
  | some q => by_cases h : q.off = F64.negOne <;> simp [normCue, h]

theorem pad8_length {α} (l : List (Option α)) (h : l.length ≤ 8) : (pad8 l).length = 8 := by
  simp [pad8]; omega

theorem pad8_of_length {α} (l : List (Option α)) (h : l.length = 8) : pad8 l = l := by
  simp [pad8, h]

theorem labelsOk_pad8 {α} (label : α → Bytes) (l : List (Option α)) :
    labelsOk label (pad8 l) = labelsOk label l := by
  simp [labelsOk, pad8, List.all_append, List.all_replicate]

theorem labelsOk_map_normCue (l : List (Option HotCue)) (h : labelsOk HotCue.label l = true) :
    labelsOk HotCue.label (l.map normCue) = true := by
  unfold labelsOk at h ⊢
  rw [List.all_map]
  rw [List.all_eq_true] at h ⊢
  intro o ho
  have := h o ho
  cases o with
  | none => rfl
  | some q =>
    by_cases hq : q.off = F64.negOne
    · simp [normCue, hq]
    · simpa [normCue, hq] using this

theorem map_normCue_pad8 (l : List (Option HotCue)) :
    (pad8 l).map normCue = pad8 (l.map normCue) := by
  simp [pad8, normCue]

/-! ### waveform -/

theorem filterMap_length_of_isSome {α β} (f : α → Option β) (l : List α) (h : ∀ i ∈ l, (f i).isSome = true) :
    (l.filterMap f).length = l.length := by
  induction l with
  | nil => rfl
  | cons a r ih =>
    have ha := h a (by simp)
    obtain ⟨b, hb⟩ := Option.isSome_iff_exists.mp ha
    simp [List.filterMap_cons, hb, ih (fun i hi => h i (by simp [hi]))]

theorem filterMap_getElem?_of_isSome {α β} (f : α → Option β) (l : List α) (h : ∀ i ∈ l, (f i).isSome = true)
    (k : Nat) : (l.filterMap f)[k]? = (l[k]?).bind f := by
  induction l generalizing k with
  | nil => rfl
  | cons a r ih =>
    have ha := h a (by simp)
    obtain ⟨b, hb⟩ := Option.isSome_iff_exists.mp ha
    rw [List.filterMap_cons, hb]
    cases k with
    | zero => simp [hb]
    | succ k => simpa using ih (fun i hi => h i (by simp [hi])) k

theorem filterMap_congr' {α β} (f g : α → Option β) (l : List α) (h : ∀ i ∈ l, f i = g i) :
    l.filterMap f = l.filterMap g := by
  induction l with
  | nil => rfl
  | cons a r ih =>
    rw [List.filterMap_cons, List.filterMap_cons, h a (by simp), ih (fun i hi => h i (by simp [hi]))]

theorem opq_idem (e : WEntry) : opq255 (opq255 e) = opq255 e := rfl

theorem overviewOf_def (w : List WEntry) (size : Nat) :
    overviewOf w size = (List.range size).filterMap fun i => (w[w.length * (2 * i + 1) / 2048]?).map opq255 := rfl

theorem overviewOf_idem (w : List WEntry) (hw : w ≠ []) :
    overviewOf (overviewOf w 1024) 1024 = overviewOf w 1024 := by
  have hl : 0 < w.length := by cases w <;> simp_all
  have hsome : ∀ i ∈ List.range 1024, ((w[w.length * (2 * i + 1) / 2048]?).map opq255).isSome = true := by
    intro i hi
    have := idx_lt w.length i hl (by simpa using hi)
    simp [List.getElem?_eq_getElem this]
  have hlen : (overviewOf w 1024).length = 1024 := by
    rw [overviewOf_def, filterMap_length_of_isSome _ _ hsome]; simp
  conv => lhs; rw [overviewOf_def, hlen]
  conv => rhs; rw [overviewOf_def]
  apply filterMap_congr'
  intro i hi
  have hi' : i < 1024 := by simpa using hi
  have e : 1024 * (2 * i + 1) / 2048 = i := by omega
  rw [e, overviewOf_def, filterMap_getElem?_of_isSome _ _ hsome i]
  simp [List.getElem?_range hi', Option.map_map, Function.comp_def, opq_idem]

theorem integerPart_zero : integerPart 0 = some 0 := by decide
theorem integerPart_negZero : integerPart F64.negZero = some 0 := by decide

theorem normWaveform_idem (w wv : List WEntry) (c : Option UInt64) (r : Option F)
    (h : normWaveform w c r = some wv) :
    normWaveform wv (normCount c) (normZeroAbsent r) = some wv := by
  unfold normWaveform at h
  by_cases hw : w = []
  · simp [hw] at h; subst h; simp [normWaveform]
  · simp only [hw, if_false] at h
    cases c with
    | none => simp at h
    | some n =>
      cases r with
      | none => simp at h
      | some rate =>
        simp only [] at h
        cases ht : integerPart rate with
        | none => simp [ht] at h
        | some t =>
          simp only [ht] at h
          by_cases h0 : n.toNat = 0 ∨ Pure.Waveform.qn t.natAbs = 0
          · simp [Pure.Waveform.ovSize, h0] at h
          · simp only [Pure.Waveform.ovSize, h0, if_false, (by decide : ¬ (1024 : Nat) = 0), Option.some.injEq] at h
            have hn : ¬ n = 0 := fun hh => h0 (Or.inl (by subst hh; rfl))
            have hr : ¬ (rate = 0 ∨ rate = F64.negZero) := by
              rintro (hh | hh)
              · subst hh; rw [integerPart_zero] at ht; cases ht; exact h0 (Or.inr (by decide))
              · subst hh; rw [integerPart_negZero] at ht; cases ht; exact h0 (Or.inr (by decide))
            subst h
            unfold normWaveform
            by_cases he : overviewOf w 1024 = []
            · simp [he]
            · simp only [he, if_false, normCount, hn, normZeroAbsent, hr, ht, Pure.Waveform.ovSize, h0,
                overviewOf_idem w hw, (by decide : ¬ (1024 : Nat) = 0)]

end Spec
end TracksV2
end EngineModel
