/-
The abstraction function `absForest` commutes with every crate operation of the
schema-1.x model: after a successful create / rename / re-parent the abstract
forest is exactly the forest the Spec prescribes.  (remove: `abs_afterRemove`.)
Also: the Model's duplicate-name tests are the Spec's `nameTaken`.
-/
import Proofs.CratesV1Remove

namespace EngineModel.Api.CratesV1
open EngineModel.Pure.Detect EngineModel.Spec

variable {db : Db}

theorem parentOf_congr {db db' : Db} (h : db'.cpl = db.cpl) (y : Id) : parentOf db' y = parentOf db y := by
  unfold parentOf; rw [h]

theorem parentOf_append_old {db db' : Db} {l : List (Id × Id)} (h : db'.cpl = db.cpl ++ l) {y : Id}
    (hy : y ∈ db.cpl.map (·.1)) : parentOf db' y = parentOf db y := by
  unfold parentOf
  rw [h, List.find?_append]
  cases hf : db.cpl.find? (·.1 == y) with
  | some r => rfl
  | none =>
    rw [List.find?_eq_none] at hf
    rw [List.mem_map] at hy
    obtain ⟨r, hr, rfl⟩ := hy
    exact absurd (by simp) (hf r hr)

theorem parentOf_append_new {db db' : Db} {y q : Id} (h : db'.cpl = db.cpl ++ [(y, q)])
    (hy : y ∉ db.cpl.map (·.1)) : parentOf db' y = if q = y then none else some q := by
  unfold parentOf
  rw [h, List.find?_append]
  have : db.cpl.find? (·.1 == y) = none := by
    rw [List.find?_eq_none]
    intro r hr he
    simp only [beq_iff_eq] at he
    exact hy (he ▸ List.mem_map_of_mem (f := (·.1)) hr)
  rw [this]
  by_cases hq : q = y <;> simp [hq]

/-! ### create -/

theorem abs_afterCreateRoot (s : Schema) (h : FInv db) (n : Name) :
    absForest (afterCreateRoot s db n) = ⟨(absForest db).crates ++ [⟨newCrateId s db, n, none⟩]⟩ := by
  have hf := newCrateId_fresh s db
  apply forest_ext
  show (afterCreateRoot s db n).crate.map
      (fun r => (⟨r.id, r.title, parentOf (afterCreateRoot s db n) r.id⟩ : Forest.Crate)) = (absForest db).crates ++ [_]
  have hcr : (afterCreateRoot s db n).crate = db.crate ++ [⟨newCrateId s db, n, n ++ [semicolon]⟩] := rfl
  rw [hcr, List.map_append, abs_crates, List.map_cons, List.map_nil]
  congr 1
  · apply List.map_congr_left
    intro r hr
    have : r.id ∈ db.cpl.map (·.1) := (h.cplTotal r.id).mpr (List.mem_map_of_mem (f := (·.id)) hr)
    rw [parentOf_append_old (db := db) (db' := afterCreateRoot s db n) rfl this]
  · have hn : newCrateId s db ∉ db.cpl.map (·.1) := fun hm => hf ((h.cplTotal _).mp hm)
    rw [parentOf_append_new (db := db) (db' := afterCreateRoot s db n) rfl hn]
    simp

theorem abs_afterCreateSub (s : Schema) (h : FInv db) {c : Id} (hc : c ∈ ids db) (n : Name) :
    absForest (afterCreateSub s db c n) = ⟨(absForest db).crates ++ [⟨newCrateId s db, n, some c⟩]⟩ := by
  have hf := newCrateId_fresh s db
  have hcn : c ≠ newCrateId s db := fun e => hf (e ▸ hc)
  apply forest_ext
  show (afterCreateSub s db c n).crate.map
      (fun r => (⟨r.id, r.title, parentOf (afterCreateSub s db c n) r.id⟩ : Forest.Crate)) = (absForest db).crates ++ [_]
  have hcr : (afterCreateSub s db c n).crate = db.crate ++ [⟨newCrateId s db, n, rowPath db c ++ n ++ [semicolon]⟩] := rfl
  rw [hcr, List.map_append, abs_crates, List.map_cons, List.map_nil]
  congr 1
  · apply List.map_congr_left
    intro r hr
    have : r.id ∈ db.cpl.map (·.1) := (h.cplTotal r.id).mpr (List.mem_map_of_mem (f := (·.id)) hr)
    rw [parentOf_append_old (db := db) (db' := afterCreateSub s db c n) rfl this]
  · have hn : newCrateId s db ∉ db.cpl.map (·.1) := fun hm => hf ((h.cplTotal _).mp hm)
    rw [parentOf_append_new (db := db) (db' := afterCreateSub s db c n) rfl hn]
    simp [hcn]

/-! ### rename -/

theorem map_setPaths {β} (P : Id → Bool) (tgt : Id → Name) (l : List CrateRow) (F : Id → Name → β) :
    (setPaths P tgt l).map (fun r => F r.id r.title) = l.map (fun r => F r.id r.title) := by
  unfold setPaths
  rw [List.map_map]
  apply List.map_congr_left
  intro r _
  simp only [Function.comp_apply]
  split <;> rfl

theorem abs_afterSetName (db : Db) (c : Id) (n : Name) :
    absForest (afterSetName db c n) = Forest.setNameOf (absForest db) c n := by
  apply forest_ext
  have hp : ∀ y, parentOf (afterSetName db c n) y = parentOf db y := parentOf_congr rfl
  calc (absForest (afterSetName db c n)).crates
      = (setPaths (subB (dbTitle db c n) c) (tgtPath (dbTitle db c n) c (parentPrefix db c ++ n ++ [semicolon]))
          (setTitle c n db.crate)).map
          (fun r => (⟨r.id, r.title, parentOf (afterSetName db c n) r.id⟩ : Forest.Crate)) := rfl
    _ = (setTitle c n db.crate).map (fun r => (⟨r.id, r.title, parentOf (afterSetName db c n) r.id⟩ : Forest.Crate)) :=
        map_setPaths _ _ _ (fun i t => (⟨i, t, parentOf (afterSetName db c n) i⟩ : Forest.Crate))
    _ = (Forest.setNameOf (absForest db) c n).crates := by
        show _ = (absForest db).crates.map _
        rw [abs_crates, List.map_map]
        unfold setTitle
        rw [List.map_map]
        apply List.map_congr_left
        intro r _
        simp only [Function.comp_apply]
        by_cases hrc : r.id = c
        · simp [hrc, hp]
        · simp [hrc, hp]

/-! ### re-parent -/

theorem parentOf_dbReparent (db : Db) (c : Id) (parent : Option Id) (hq : parent ≠ some c) (y : Id) :
    parentOf (dbReparent db c parent) y = if y = c then parent else parentOf db y := by
  unfold parentOf dbReparent
  simp only
  rw [List.find?_append]
  by_cases hyc : y = c
  · subst hyc
    have : (db.cpl.filter (fun r => !(r.1 == y))).find? (·.1 == y) = none := by
      rw [List.find?_eq_none]
      intro r hr
      rw [List.mem_filter] at hr
      simpa using hr.2
    rw [this]
    cases parent with
    | none => simp
    | some q =>
      have : q ≠ y := fun e => hq (by rw [e])
      simp [this]
  · have h1 : (db.cpl.filter (fun r => !(r.1 == c))).find? (·.1 == y) = db.cpl.find? (·.1 == y) := by
      apply find?_filter_of_imp
      intro x _ hx
      simp only [beq_iff_eq] at hx
      simp [hx, hyc]
    have h2 : [(c, parent.getD c)].find? (·.1 == y) = none := by
      have : ¬ c = y := fun e => hyc e.symm
      simp [this]
    rw [h1, h2, Option.or_none]
    simp [hyc]

theorem abs_afterSetParent (db : Db) (c : Id) (parent : Option Id) (hq : parent ≠ some c) :
    absForest (afterSetParent db c parent) = Forest.setParentOf (absForest db) c parent := by
  apply forest_ext
  have hp : ∀ y, parentOf (afterSetParent db c parent) y = if y = c then parent else parentOf db y := by
    intro y
    rw [← parentOf_dbReparent db c parent hq y]
    exact parentOf_congr rfl y
  calc (absForest (afterSetParent db c parent)).crates
      = (setPaths (subB (dbReparent db c parent) c)
          (tgtPath (dbReparent db c parent) c (parentPathOpt db parent ++ titleOfD db c ++ [semicolon])) db.crate).map
          (fun r => (⟨r.id, r.title, parentOf (afterSetParent db c parent) r.id⟩ : Forest.Crate)) := rfl
    _ = db.crate.map (fun r => (⟨r.id, r.title, parentOf (afterSetParent db c parent) r.id⟩ : Forest.Crate)) :=
        map_setPaths _ _ _ (fun i t => (⟨i, t, parentOf (afterSetParent db c parent) i⟩ : Forest.Crate))
    _ = (Forest.setParentOf (absForest db) c parent).crates := by
        show _ = (absForest db).crates.map _
        rw [abs_crates, List.map_map]
        apply List.map_congr_left
        intro r _
        simp only [Function.comp_apply]
        rw [hp]
        by_cases hrc : r.id = c
        · simp [hrc]
        · simp [hrc]

/-! ### duplicate-name tests -/

theorem root_row_iff (h : FInv db) {r : CrateRow} (hr : r ∈ db.crate) :
    parentOf db r.id = none ↔ (r.id, r.id) ∈ db.cpl := by
  obtain ⟨p, hp⟩ := h.live_has_row (List.mem_map_of_mem (f := (·.id)) hr)
  rw [parentOf_eq_none h]
  constructor
  · intro hn
    by_cases hpe : p = r.id
    · rw [hpe] at hp; exact hp
    · exact absurd ⟨hp, hpe⟩ (hn p)
  · intro hm p' hp'
    exact hp'.2 (h.cpl_unique hp'.1 hm)

theorem nameTaken_root_iff (h : FInv db) (n : Name) : (absForest db).nameTaken none n = true ↔ RootNamed db n := by
  unfold Forest.Forest.nameTaken RootNamed
  rw [abs_crates, List.any_map, List.any_eq_true]
  constructor
  · rintro ⟨r, hr, hx⟩
    simp only [Function.comp_apply, Bool.and_eq_true, beq_iff_eq] at hx
    exact ⟨r, hr, hx.1.2, (root_row_iff h hr).mp hx.1.1⟩
  · rintro ⟨r, hr, ht, hm⟩
    refine ⟨r, hr, ?_⟩
    simp only [Function.comp_apply, Bool.and_eq_true, beq_iff_eq]
    exact ⟨⟨(root_row_iff h hr).mpr hm, ht⟩, by simp⟩

theorem nameTaken_sub_iff (h : FInv db) (c : Id) (n : Name) :
    (absForest db).nameTaken (some c) n = true ↔ SubNamed db c n := by
  unfold Forest.Forest.nameTaken SubNamed
  rw [abs_crates, List.any_map, List.any_eq_true]
  constructor
  · rintro ⟨r, hr, hx⟩
    simp only [Function.comp_apply, Bool.and_eq_true, beq_iff_eq] at hx
    exact ⟨r, hr, hx.1.2, (parentOf_eq_some h).mp hx.1.1⟩
  · rintro ⟨r, hr, ht, hm⟩
    refine ⟨r, hr, ?_⟩
    simp only [Function.comp_apply, Bool.and_eq_true, beq_iff_eq]
    exact ⟨⟨(parentOf_eq_some h).mpr hm, ht⟩, by simp⟩

theorem abs_nameOf_live (h : FInv db) {c : Id} (hc : c ∈ ids db) : ∃ n, (absForest db).nameOf c = some n := by
  obtain ⟨r, hr, rfl⟩ := exists_row hc
  unfold Forest.Forest.nameOf
  rw [abs_find_of_mem h hr]
  exact ⟨r.title, rfl⟩

theorem abs_live_false (db : Db) {c : Id} (hc : c ∉ ids db) : (absForest db).live c = false := by
  rw [← Bool.not_eq_true, abs_live]; exact hc

theorem abs_live_true (db : Db) {c : Id} (hc : c ∈ ids db) : (absForest db).live c = true :=
  (abs_live db c).mpr hc

end EngineModel.Api.CratesV1
