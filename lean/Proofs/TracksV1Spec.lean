/-
Facts about the C01 Spec alone (no Model involved): `normalize` is idempotent,
its range is accepted again, and it is the identity on representable
snapshots.
-/
import EngineModel.TracksV1.Spec

namespace EngineModel.TracksV1.Spec

open Impl.V1 (GMarker HotCue LoopV Entry)

set_option linter.unusedSimpArgs false

theorem dropZero_idem (x : Option Bits) : dropZero (dropZero x) = dropZero x := by
  cases x with
  | none => rfl
  | some v =>
    unfold dropZero
    by_cases h : v = F64.zero ∨ v = F64.negZero <;> simp [h]

theorem whole1000_idem (d : UInt64) : wholeUnits 1000 (wholeUnits 1000 d) = wholeUnits 1000 d := by
  have hr := Prim.s64_range d
  unfold wholeUnits
  simp only
  generalize hw : ((if Prim.s64 d < 0 then -(((Prim.s64 d).natAbs / 1000 : Nat) : Int)
    else (((Prim.s64 d).natAbs / 1000 : Nat) : Int)) * ((1000 : Nat) : Int)) = w
  have hwr : -9223372036854775808 ≤ w ∧ w < 9223372036854775808 := by
    rw [← hw]; split <;> omega
  rw [Prim.s64_u64OfInt w hwr.1 hwr.2]
  congr 1
  rw [← hw]
  split <;> split <;> omega

theorem wholeBillion_idem (d : UInt64) :
    wholeUnits 1000000000 (wholeUnits 1000000000 d) = wholeUnits 1000000000 d := by
  have hr := Prim.s64_range d
  unfold wholeUnits
  simp only
  generalize hw : ((if Prim.s64 d < 0 then -(((Prim.s64 d).natAbs / 1000000000 : Nat) : Int)
    else (((Prim.s64 d).natAbs / 1000000000 : Nat) : Int)) * ((1000000000 : Nat) : Int)) = w
  have hwr : -9223372036854775808 ≤ w ∧ w < 9223372036854775808 := by
    rw [← hw]; split <;> omega
  rw [Prim.s64_u64OfInt w hwr.1 hwr.2]
  congr 1
  rw [← hw]
  split <;> split <;> omega

theorem clamp100_idem (r : UInt32) : clamp100 (clamp100 r) = clamp100 r := by
  unfold clamp100
  simp only
  by_cases h0 : Prim.s32 r < 0
  · simp [h0]; decide
  · by_cases h1 : Prim.s32 r > 100
    · simp [h0, h1]; decide
    · simp [h0, h1]

theorem normCue_idem (q : Option HotCue) : normCue (normCue q) = normCue q := by
  cases q with
  | none => rfl
  | some c =>
    unfold normCue
    by_cases h : c.off = F64.negOne <;> simp [h]

theorem normLoop_idem (q : Option LoopV) : normLoop (normLoop q) = normLoop q := by
  cases q with
  | none => rfl
  | some c =>
    unfold normLoop
    by_cases h : c.start = F64.negOne <;> simp [h]

theorem cueOk_normCue (q : Option HotCue) (h : cueOk q = true) : cueOk (normCue q) = true := by
  cases q with
  | none => rfl
  | some c =>
    unfold normCue
    by_cases hh : c.off = F64.negOne <;> simp [hh, cueOk] <;> exact h

theorem loopOk_normLoop (q : Option LoopV) (h : loopOk q = true) : loopOk (normLoop q) = true := by
  cases q with
  | none => rfl
  | some c =>
    unfold normLoop
    by_cases hh : c.start = F64.negOne <;> simp [hh, loopOk] <;> exact h

theorem pad8_length {α} (l : List (Option α)) (h : l.length ≤ 8) : (pad8 l).length = 8 := by
  unfold pad8; simp; omega

theorem pad8_of_length8 {α} (l : List (Option α)) (h : l.length = 8) : pad8 l = l := by
  unfold pad8; simp [h]

theorem map_pad8' {α} (f : Option α → Option α) (hf : f none = none) (l : List (Option α)) :
    (pad8 l).map f = pad8 (l.map f) := by
  unfold pad8; simp [hf]

theorem all_pad8 {α} (p : Option α → Bool) (hp : p none = true) (l : List (Option α)) (h : l.all p = true) :
    (pad8 l).all p = true := by
  unfold pad8
  simp only [List.all_append, Bool.and_eq_true]
  refine ⟨h, ?_⟩
  apply List.all_eq_true.mpr
  intro a ha
  rw [List.eq_of_mem_replicate ha]; exact hp

theorem present_dropZero (r : Option Bits) : present (dropZero r) = present r := by
  unfold present; rw [dropZero_idem]

/-- The range of `normalize` is accepted again. -/
theorem accepted_normFields (s : Schema) (x : Snap) (h : accepted x = true) : accepted (normFields s x) = true := by
  unfold accepted at h ⊢
  simp only [Bool.and_eq_true, decide_eq_true_eq, Bool.or_eq_true] at h ⊢
  obtain ⟨⟨⟨⟨⟨⟨h1, h2⟩, h3⟩, h4⟩, h5⟩, h6⟩, h7⟩ := h
  unfold normFields
  simp only
  refine ⟨⟨⟨⟨⟨⟨h1, ?_⟩, ?_⟩, ?_⟩, ?_⟩, h6⟩, ?_⟩
  · rw [pad8_length _ (by simpa using h2)]; decide
  · apply all_pad8 _ rfl
    apply List.all_eq_true.mpr
    intro a ha
    obtain ⟨q, hq, rfl⟩ := List.mem_map.mp ha
    exact cueOk_normCue q (List.all_eq_true.mp h3 q hq)
  · rw [pad8_length _ (by simpa using h4)]; decide
  · apply all_pad8 _ rfl
    apply List.all_eq_true.mpr
    intro a ha
    obtain ⟨q, hq, rfl⟩ := List.mem_map.mp ha
    exact loopOk_normLoop q (List.all_eq_true.mp h5 q hq)
  · rcases h7 with hw | ⟨hr, hc⟩
    · exact Or.inl hw
    · right
      refine ⟨by rw [present_dropZero]; exact hr, ?_⟩
      cases hcc : x.sampleCount with
      | none => rw [hcc] at hc; cases hc
      | some n =>
        rw [hcc] at hc
        simp only [Option.any_some, decide_eq_true_eq] at hc
        simp [hc]

theorem normFields_idem (s : Schema) (x : Snap) (h : accepted x = true) :
    normFields s (normFields s x) = normFields s x := by
  unfold accepted at h
  simp only [Bool.and_eq_true, decide_eq_true_eq, Bool.or_eq_true] at h
  obtain ⟨⟨⟨⟨⟨⟨_, h2⟩, _⟩, h4⟩, _⟩, _⟩, _⟩ := h
  unfold normFields
  simp only [Snap.mk.injEq, dropZero_idem, true_and, and_true]
  refine ⟨?_, ?_, ?_, ?_, ?_, ?_, ?_, ?_⟩
  · cases x.bpm with
    | none => rfl
    | some b => by_cases hb : b = F64.negZero <;> simp [hb] <;> decide
  · cases x.duration <;> simp [whole1000_idem]
  · cases hs : s.ge .s1_15_0 <;> simp
  · rw [map_pad8' _ rfl, List.map_map]
    have : (normCue ∘ normCue) = normCue := funext normCue_idem
    rw [this]
    exact pad8_of_length8 _ (pad8_length _ (by simpa using h2))
  · cases x.lastPlayedAt <;> simp [wholeBillion_idem]
  · rw [map_pad8' _ rfl, List.map_map]
    have : (normLoop ∘ normLoop) = normLoop := funext normLoop_idem
    rw [this]
    exact pad8_of_length8 _ (pad8_length _ (by simpa using h4))
  · cases x.rating <;> simp [clamp100_idem]
  · cases hc : x.sampleCount with
    | none => rfl
    | some n => by_cases hn : n = 0 <;> simp [hn]

theorem map_id_of_all {α} [BEq α] [LawfulBEq α] (f : α → α) (l : List α) (h : l.all (fun q => f q == q) = true) :
    l.map f = l := by
  induction l with
  | nil => rfl
  | cons a t ih =>
    simp only [List.all_cons, Bool.and_eq_true, beq_iff_eq] at h
    simp [h.1, ih h.2]

theorem normFields_of_representable (s : Schema) (x : Snap) (h : Representable s x = true) : normFields s x = x := by
  unfold Representable at h
  simp only [Bool.and_eq_true, decide_eq_true_eq, beq_iff_eq, Bool.or_eq_true] at h
  obtain ⟨⟨⟨⟨⟨⟨⟨⟨⟨⟨⟨⟨h1, h2⟩, h3⟩, h4⟩, h5⟩, h6⟩, h7⟩, h8⟩, h9⟩, h10⟩, h11⟩, h12⟩, h13⟩ := h
  obtain ⟨album, artist, averageLoudness, beatgrid, bitrate, bpm, comment, composer, duration, fileBytes, genre,
    hotCues, key, lastPlayedAt, loops, mainCue, publisher, rating, relativePath, sampleCount, sampleRate, title,
    trackNumber, waveform, year⟩ := x
  unfold normFields
  simp only at h1 h2 h3 h4 h5 h6 h7 h8 h9 h10 h11 h12 h13 ⊢
  simp only [Snap.mk.injEq, true_and, and_true, h1, h10, h13]
  refine ⟨?_, ?_, ?_, ?_, ?_, ?_, ?_, ?_⟩
  · cases bpm with
    | none => rfl
    | some b =>
      simp only [Option.all_some, decide_eq_true_eq] at h2
      simp [h2]
  · cases duration with
    | none => rfl
    | some d => simp only [Option.all_some, beq_iff_eq] at h3; simp [h3]
  · rcases h4 with h | h
    · simp [h]
    · cases fileBytes <;> simp at h ⊢
  · rw [map_id_of_all _ _ h6]; exact pad8_of_length8 _ h5
  · cases lastPlayedAt with
    | none => rfl
    | some d => simp only [Option.all_some, beq_iff_eq] at h7; simp [h7]
  · rw [map_id_of_all _ _ h9]; exact pad8_of_length8 _ h8
  · cases rating with
    | none => rfl
    | some d => simp only [Option.all_some, beq_iff_eq] at h11; simp [h11]
  · cases sampleCount with
    | none => rfl
    | some n => simp only [Option.all_some, decide_eq_true_eq] at h12; simp [h12]

end EngineModel.TracksV1.Spec
