/-
How one operation changes the set of live crate ids (schema-1.x model, from a
state satisfying `Inv`): only a successful creation adds an id (a fresh one),
only `remove_crate` drops ids (exactly the sub-tree), everything else leaves
the ids — and their order in `Crate` — alone.  Also: failing calls change nothing.
-/
import Proofs.CratesV1Sim

namespace EngineModel.Api.CratesV1
open EngineModel.Pure.Detect EngineModel.Spec

variable {db : Db}

def isCreate : Op → Bool
  | .createRoot _ | .createSub _ _ => true
  | _ => false

/-- The three ways the id list can change. -/
def IdsDeltaR (db : Db) (op : Op) (out : Db × Res Out) : Prop :=
  ids out.1 = ids db ∨
  (∃ i, isCreate op = true ∧ out.2 = .ok (.id i) ∧ i ∉ ids db ∧ ids out.1 = ids db ++ [i]) ∨
  (∃ c, op = .removeCrate c ∧ ∀ y, y ∈ ids out.1 ↔ (y ∈ ids db ∧ ¬ Sub db c y))

def IdsDelta (s : Schema) (db : Db) (op : Op) : Prop := IdsDeltaR db op (step s db op)

theorem ids_afterSetParent (db : Db) (c : Id) (parent : Option Id) : ids (afterSetParent db c parent) = ids db := by
  have : ids (afterSetParent db c parent) = ids (dbReparent db c parent) := ids_of_keys (setPaths_keys _ _ _)
  rw [this]; rfl

theorem ids_step (s : Schema) (h : Inv db) (op : Op) : IdsDelta s db op := by
  unfold IdsDelta
  cases op with
  | createRoot n =>
    show IdsDeltaR db _ (createRootCrate s db n)
    rcases validName_cases n with hv | hv
    · by_cases hd : RootNamed db n
      · rw [createRoot_dup s db hv hd]
        exact Or.inl rfl
      · rw [createRoot_ok s db hv hd]
        exact Or.inr (Or.inl ⟨_, rfl, rfl, newCrateId_fresh s db, by simp [ids, afterCreateRoot]⟩)
    · rw [createRoot_invalid s db hv]
      exact Or.inl rfl
  | createSub c n =>
    show IdsDeltaR db _ (createSubCrate s db c n)
    rcases validName_cases n with hv | hv
    · by_cases hd : SubNamed db c n
      · rw [createSub_dup s db c hv hd]
        exact Or.inl rfl
      · by_cases hc : c ∈ ids db
        · rw [createSub_ok s h.idsNodup hv hd hc]
          exact Or.inr (Or.inl ⟨_, rfl, rfl, newCrateId_fresh s db, by simp [ids, afterCreateSub]⟩)
        · rw [createSub_dead s db hv hd hc]
          exact Or.inl rfl
    · rw [createSub_invalid s db c hv]
      exact Or.inl rfl
  | rename c n =>
    left
    show ids (setName s db c n).1 = ids db
    rcases validName_cases n with hv | hv
    · by_cases hc : c ∈ ids db
      · rw [setName_ok s h.toFInv hv hc]; exact ids_afterSetName db c n
      · rw [setName_dead s db hv hc]
    · rw [setName_invalid s db c hv]
  | setParent c parent =>
    left
    show ids (setParent s db c parent).1 = ids db
    by_cases hself : parent = some c
    · subst hself; rw [setParent_self]
    · by_cases hc : c ∈ ids db
      · cases parent with
        | none =>
          rw [setParent_ok s h.toFInv ⟨hc, fun q hq => by cases hq⟩]; exact ids_afterSetParent db c none
        | some q =>
          have hqc : q ≠ c := fun e => hself (by rw [e])
          by_cases hq : q ∈ ids db
          · by_cases hcyc : (c, q) ∈ db.ch
            · rw [setParent_cycle s h.idsNodup hqc hc hq hcyc]
            · rw [setParent_ok s h.toFInv ⟨hc, fun q' hq' => by cases hq'; exact ⟨hq, hqc, hcyc⟩⟩]
              exact ids_afterSetParent db c (some q)
          · rw [setParent_dead_parent s h.idsNodup hqc hc hq]
      · rw [setParent_dead s db hself hc]
  | removeCrate c =>
    right; right
    refine ⟨c, rfl, ?_⟩
    show ∀ y, y ∈ ids (removeCrate s db c).1 ↔ _
    rw [removeCrate_eq s h c]
    exact mem_ids_afterRemove db c
  | addTrack c t =>
    left
    show ids (addTrack s db c t).1 = ids db
    by_cases hc : c ∈ ids db
    · by_cases ht : liveTrack db t
      · rw [addTrack_ok s h hc ht]; rfl
      · rw [addTrack_dead_track s h.idsNodup hc ht]
    · rw [addTrack_dead s db t hc]
  | removeTrackFrom c t =>
    left
    show ids (removeTrackFrom s db c t).1 = ids db
    rw [removeTrackFrom_eq s h]; rfl
  | clearTracks c =>
    left
    show ids (clearTracks s db c).1 = ids db
    rw [clearTracks_eq s h]; rfl
  | createTrack =>
    left
    show ids (createTrack s db).1 = ids db
    obtain ⟨id, seq, e, _⟩ := createTrack_spec s db
    rw [e]; rfl
  | removeTrack t =>
    left
    show ids (removeTrack s db t).1 = ids db
    obtain ⟨_, e1, _⟩ := removeTrack_spec s h t
    unfold ids; rw [e1]

/-- A call that does not return normally leaves every table as it was (transactions roll back). -/
theorem step_throw_unchanged (s : Schema) (h : Inv db) (op : Op) (hr : (step s db op).2.isOk = false) :
    (step s db op).1 = db := by
  cases op with
  | createRoot n =>
    show (createRootCrate s db n).1 = db
    have hr' : (createRootCrate s db n).2.isOk = false := hr
    rcases validName_cases n with hv | hv
    · by_cases hd : RootNamed db n
      · rw [createRoot_dup s db hv hd]
      · rw [createRoot_ok s db hv hd] at hr'; cases hr'
    · rw [createRoot_invalid s db hv]
  | createSub c n =>
    show (createSubCrate s db c n).1 = db
    have hr' : (createSubCrate s db c n).2.isOk = false := hr
    rcases validName_cases n with hv | hv
    · by_cases hd : SubNamed db c n
      · rw [createSub_dup s db c hv hd]
      · by_cases hc : c ∈ ids db
        · rw [createSub_ok s h.idsNodup hv hd hc] at hr'; cases hr'
        · rw [createSub_dead s db hv hd hc]
    · rw [createSub_invalid s db c hv]
  | rename c n =>
    show (setName s db c n).1 = db
    have hr' : (setName s db c n).2.isOk = false := hr
    rcases validName_cases n with hv | hv
    · by_cases hc : c ∈ ids db
      · rw [setName_ok s h.toFInv hv hc] at hr'; cases hr'
      · rw [setName_dead s db hv hc]
    · rw [setName_invalid s db c hv]
  | setParent c parent =>
    show (setParent s db c parent).1 = db
    have hr' : (setParent s db c parent).2.isOk = false := hr
    by_cases hself : parent = some c
    · subst hself; rw [setParent_self]
    · by_cases hc : c ∈ ids db
      · cases parent with
        | none =>
          rw [setParent_ok s h.toFInv ⟨hc, fun q hq => by cases hq⟩] at hr'; cases hr'
        | some q =>
          have hqc : q ≠ c := fun e => hself (by rw [e])
          by_cases hq : q ∈ ids db
          · by_cases hcyc : (c, q) ∈ db.ch
            · rw [setParent_cycle s h.idsNodup hqc hc hq hcyc]
            · rw [setParent_ok s h.toFInv ⟨hc, fun q' hq' => by cases hq'; exact ⟨hq, hqc, hcyc⟩⟩] at hr'
              cases hr'
          · rw [setParent_dead_parent s h.idsNodup hqc hc hq]
      · rw [setParent_dead s db hself hc]
  | removeCrate c =>
    have hr' : (removeCrate s db c).2.isOk = false := hr
    rw [removeCrate_eq s h c] at hr'; cases hr'
  | addTrack c t =>
    show (addTrack s db c t).1 = db
    have hr' : (addTrack s db c t).2.isOk = false := hr
    by_cases hc : c ∈ ids db
    · by_cases ht : liveTrack db t
      · rw [addTrack_ok s h hc ht] at hr'; cases hr'
      · rw [addTrack_dead_track s h.idsNodup hc ht]
    · rw [addTrack_dead s db t hc]
  | removeTrackFrom c t =>
    have hr' : (removeTrackFrom s db c t).2.isOk = false := hr
    rw [removeTrackFrom_eq s h] at hr'; cases hr'
  | clearTracks c =>
    have hr' : (clearTracks s db c).2.isOk = false := hr
    rw [clearTracks_eq s h] at hr'; cases hr'
  | createTrack =>
    have hr' : (createTrack s db).2.isOk = false := hr
    obtain ⟨id, seq, e, _⟩ := createTrack_spec s db
    rw [e] at hr'; cases hr'
  | removeTrack t =>
    have hr' : (removeTrack s db t).2.isOk = false := hr
    rw [(removeTrack_spec s h t).1] at hr'; cases hr'

theorem isValid_iff (h : FInv db) (c : Id) : crateIsValid db c = .ok true ↔ c ∈ ids db := by
  by_cases hc : c ∈ ids db
  · rw [crateIsValid_live h.idsNodup hc]; simp [hc]
  · rw [crateIsValid_dead hc]; simp [hc]

theorem isValid_false_iff (h : FInv db) (c : Id) : crateIsValid db c = .ok false ↔ c ∉ ids db := by
  by_cases hc : c ∈ ids db
  · rw [crateIsValid_live h.idsNodup hc]; simp [hc]
  · rw [crateIsValid_dead hc]; simp [hc]

theorem sub_iff_abs (h : FInv db) (c y : Id) : Sub db c y ↔ (y = c ∨ (absForest db).isAncestor c y = true) := by
  unfold Sub; rw [isAncestor_iff h]

end EngineModel.Api.CratesV1
