/-
Agreement of the Model's schema-1.x beat-data codec with the Spec
(`Format/V1.lean`).  The wire format is the 2.x one (`V2.beat`); the 1.x decoder
adds the grid validation (`checkWire` ↔ `wireGridOk`), the `try … catch` around
the two grids and the zero-only trailer.

The `try … catch` makes the C++ accept one family of payloads the Spec rejects:
a well-formed first grid followed by fewer than 8 zero bytes (the second grid's
count is missing) decodes to *no* grids.  `missingSecondGrid` is exactly that
family; outside it Model and Spec agree on every byte string.
-/
import Proofs.ImplV1
set_option linter.unusedSimpArgs false
set_option linter.unusedVariables false

namespace EngineModel
namespace V1Proofs
open Codec Cur Impl.V2

/-! ### the two copies of the grid predicates coincide -/

theorem validGrid_go_eq : ∀ (rest : List Impl.V1.GMarker) (a : Impl.V1.GMarker),
    Impl.V1.validGrid.go (a :: rest) = V1.gridOk.go (a :: rest) := by
  intro rest
  induction rest with
  | nil => intro a; rfl
  | cons b rest ih =>
    intro a
    simp only [Impl.V1.validGrid.go, V1.gridOk.go, ih b]
    have : (0 < Prim.s32 b.index - Prim.s32 a.index) ↔ (Prim.s32 a.index < Prim.s32 b.index) := by omega
    simp only [this]

theorem validGrid_eq (g : List Impl.V1.GMarker) : Impl.V1.validGrid g = V1.gridOk g := by
  match g with
  | [] => rfl
  | [_] => rfl
  | a :: b :: rest =>
    simp only [Impl.V1.validGrid, V1.gridOk, validGrid_go_eq]

theorem toWire_eq : ∀ (g : List Impl.V1.GMarker), Impl.V1.toWire g = V1.gridToWire g
  | [] => rfl
  | [_] => rfl
  | a :: b :: rest => by
    simp only [Impl.V1.toWire, V1.gridToWire, toWire_eq (b :: rest)]

theorem gridToWire_length : ∀ (g : List Impl.V1.GMarker), (V1.gridToWire g).length = g.length
  | [] => rfl
  | [_] => rfl
  | a :: b :: rest => by
    simp only [V1.gridToWire, List.length_cons, gridToWire_length (b :: rest)]

/-! ### encoder -/

/-- The wire value a 1.x beat-data struct is written as. -/
def beatWire (v : Impl.V1.Beat) : V2.Beat :=
  ⟨v.sampleRate.getD 0, v.sampleCount.getD 0, 1, V1.gridToWire v.dflt, V1.gridToWire v.adj⟩

theorem encodeBeat_ok (v : Impl.V1.Beat) (h1 : V1.gridOk v.dflt = true) (h2 : V1.gridOk v.adj = true) :
    Impl.V1.encodeBeat v = .ok (V2.beat.enc (beatWire v)) := by
  rw [ArithZ.encodeBeat_eq_Z]
  unfold ArithZ.encodeBeatZ
  simp only [validGrid_eq, h1, h2, Bool.not_true, Bool.or_self, Bool.false_eq_true, if_false, toWire_eq]
  apply writeInto_exact
  rw [beat_enc_length]
  simp [gridToWire_length]

theorem encodeBeat_reject (v : Impl.V1.Beat) (h : ¬ (V1.gridOk v.dflt = true ∧ V1.gridOk v.adj = true)) :
    Impl.V1.encodeBeat v = .throw .invalid_argument := by
  rw [ArithZ.encodeBeat_eq_Z]
  unfold ArithZ.encodeBeatZ
  simp only [validGrid_eq]
  cases h1 : V1.gridOk v.dflt <;> cases h2 : V1.gridOk v.adj <;> simp_all

/-! ### decoder: the marker checks of the loop are the Spec's grid predicate -/

theorem s32_le_max (x : UInt32) : Prim.s32 x ≤ 2147483647 := by
  have := x.toNat_lt
  unfold Prim.s32
  split <;> omega

theorem checkWire_some : ∀ (rest : List V2.Marker) (a : V2.Marker),
    Impl.V1.checkWire (some (⟨UInt32.ofNat (a.beatNo.toNat % 4294967296), a.off⟩, a.nBeats)) rest =
      if (V1.gridOk.go (V1.gridOfWire (a :: rest)) && V1.countsOk (a :: rest)) = true
      then .ok (V1.gridOfWire rest) else .throw .invalid_argument := by
  intro rest
  induction rest with
  | nil =>
    intro a
    by_cases h : a.nBeats = 0
    · simp [Impl.V1.checkWire, V1.gridOk.go, V1.countsOk, V1.gridOfWire, h]
    · simp [Impl.V1.checkWire, V1.gridOk.go, V1.countsOk, V1.gridOfWire, h]
  | cons b rest ih =>
    intro a
    have hnb := s32_le_max a.nBeats
    have ih' := ih b
    simp only [V1.gridOfWire, List.map_cons] at ih'
    simp only [Impl.V1.checkWire, Impl.V1.lowInt, V1.gridOfWire, List.map_cons, V1.gridOk.go, V1.countsOk]
    rw [ih']
    clear ih ih'
    by_cases c1 : Prim.s32 (UInt32.ofNat (a.beatNo.toNat % 4294967296)) < Prim.s32 (UInt32.ofNat (b.beatNo.toNat % 4294967296))
    · have c1' : ¬ (Prim.s32 (UInt32.ofNat (b.beatNo.toNat % 4294967296)) ≤ Prim.s32 (UInt32.ofNat (a.beatNo.toNat % 4294967296))) := by omega
      by_cases c2t : F64.le b.off a.off = true
      case pos => simp [c1, c1', c2t]
      have c2 : F64.le b.off a.off = false := by simpa using c2t
      · by_cases c3 : Prim.s32 (UInt32.ofNat (b.beatNo.toNat % 4294967296)) - Prim.s32 (UInt32.ofNat (a.beatNo.toNat % 4294967296)) = Prim.s32 a.nBeats
        · have c4 : Prim.s32 (UInt32.ofNat (b.beatNo.toNat % 4294967296)) - Prim.s32 (UInt32.ofNat (a.beatNo.toNat % 4294967296)) ≤ 2147483647 := by omega
          simp only [c1, c1', c2, c3, c4, hnb, decide_true, decide_false, Bool.or_false, Bool.false_or, ne_eq,
            not_true_eq_false, Bool.false_eq_true, if_false, Bool.not_false, Bool.true_and, Bool.and_true]
          split <;> (rename_i heq; split at heq <;> simp_all)
        · simp [c1, c1', c2, c3]
    · have c1' : Prim.s32 (UInt32.ofNat (b.beatNo.toNat % 4294967296)) ≤ Prim.s32 (UInt32.ofNat (a.beatNo.toNat % 4294967296)) := by omega
      simp [c1, c1']

theorem checkWire_none_cons (m : V2.Marker) (rest : List V2.Marker) :
    Impl.V1.checkWire none (m :: rest) =
      match Impl.V1.checkWire (some (⟨UInt32.ofNat (m.beatNo.toNat % 4294967296), m.off⟩, m.nBeats)) rest with
      | .ok l => .ok (⟨UInt32.ofNat (m.beatNo.toNat % 4294967296), m.off⟩ :: l)
      | .throw e => .throw e
      | .ub u => .ub u := by
  rfl

theorem gridOfWire_length (ws : List V2.Marker) : (V1.gridOfWire ws).length = ws.length := by
  simp [V1.gridOfWire]

theorem gridOk_false_of_long (g : List Impl.V1.GMarker) (h : 32768 < g.length) : V1.gridOk g = false := by
  match g, h with
  | [_], _ => rfl
  | a :: b :: r, h =>
    have : ¬ ((a :: b :: r).length ≤ 32768) := by omega
    simp only [V1.gridOk, this, decide_false, Bool.false_and]

/-- For 2..32768 wire markers the checks of the decoding loop are `wireGridOk`. -/
theorem checkWire_none (ws : List V2.Marker) (h2 : 2 ≤ ws.length) (hmax : ws.length ≤ 32768) :
    Impl.V1.checkWire none ws =
      if V1.wireGridOk ws = true then .ok (V1.gridOfWire ws) else .throw .invalid_argument := by
  match ws, h2, hmax with
  | a :: b :: rest, _, hmax =>
    rw [checkWire_none_cons, checkWire_some]
    have hlen : ((V1.gridOfWire (a :: b :: rest)).length ≤ 32768) := by rw [gridOfWire_length]; exact hmax
    have hg : V1.gridOk (V1.gridOfWire (a :: b :: rest)) = V1.gridOk.go (V1.gridOfWire (a :: b :: rest)) := by
      simp only [V1.gridOfWire, List.map_cons, List.length_cons, List.length_map] at hlen ⊢
      simp only [V1.gridOk, List.length_cons, List.length_map, hlen, decide_true, Bool.true_and]
    simp only [V1.wireGridOk, hg]
    by_cases hX : (V1.gridOk.go (V1.gridOfWire (a :: b :: rest)) && V1.countsOk (a :: b :: rest)) = true
    · simp only [hX, if_true]; rfl
    · simp [hX]

/-- The 1.x grid decoder is the 2.x wire grid followed by the grid validation. -/
theorem decodeGrid_eq (bs : Bytes) : Impl.V1.decodeGrid bs =
    match V2.grid.dec bs with
    | some (ws, r) => if V1.wireGridOk ws = true then .ok (V1.gridOfWire ws, r) else .throw .invalid_argument
    | none => .throw .invalid_argument := by
  rw [ArithZ.decodeGrid1_eq_Z]
  unfold ArithZ.decodeGrid1Z V2.grid counted
  simp only [bind_run, remaining_run]
  by_cases h8 : bs.length < 8
  · simp [h8, u64be_dec_none h8]
  · have h8' : 8 ≤ bs.length := by omega
    simp only [h8, if_false, rd_u64be_run h8', dec_run_u64be h8', bind_run, remaining_run]
    generalize u64be.get bs = k
    by_cases hk : k.toNat < maxCount
    · have hs := s64_of_lt k hk
      simp only [hk, if_true, hs]
      by_cases h0 : k.toNat = 0
      · simp [h0, decN, V1.wireGridOk, V1.gridOk, V1.countsOk, V1.gridOfWire]
      · have h0' : ¬ ((k.toNat : Int) = 0) := by omega
        simp only [h0', if_false]
        by_cases h1 : k.toNat < 2
        · have h1' : (k.toNat : Int) < 2 := by omega
          simp only [h1', if_true, throwC_run]
          cases hd : decN V2.marker k.toNat (bs.drop 8) with
          | none => rfl
          | some p =>
            obtain ⟨l, r⟩ := p
            obtain ⟨hl, _, _⟩ := decN_exact V2.marker_exact _ _ _ _ hd
            match l, hl with
            | [m], _ => simp [V1.wireGridOk, V1.gridOfWire, V1.gridOk]
            | [], hl => simp at hl; omega
            | _ :: _ :: _, hl => simp at hl; omega
        · have h1' : ¬ ((k.toNat : Int) < 2) := by omega
          simp only [h1', if_false]
          by_cases hbig : 32768 < k.toNat
          · have hbig' : (k.toNat : Int) > 32768 := by omega
            simp only [hbig', if_true, throwC_run]
            cases hd : decN V2.marker k.toNat (bs.drop 8) with
            | none => rfl
            | some p =>
              obtain ⟨l, r⟩ := p
              obtain ⟨hl, _, _⟩ := decN_exact V2.marker_exact _ _ _ _ hd
              have : V1.wireGridOk l = false := by
                unfold V1.wireGridOk
                rw [gridOk_false_of_long _ (by rw [gridOfWire_length]; omega)]
                rfl
              simp [this]
          · have hbig' : ¬ ((k.toNat : Int) > 32768) := by omega
            simp only [hbig', if_false, bind_run, remaining_run]
            by_cases hr : ((bs.drop 8).length : Int) < 24 * (k.toNat : Int)
            · simp only [hr, if_true, throwC_run]
              cases hd : decN V2.marker k.toNat (bs.drop 8) with
              | none => rfl
              | some p =>
                exfalso
                have := decN_marker_length hd
                omega
            · have hlen : 24 * k.toNat ≤ (bs.drop 8).length := by omega
              simp only [hr, if_false]
              obtain ⟨l, hl⟩ := decN_some_of_len (c := V2.marker) (w := 24) V2.marker_dec_some k.toNat _ hlen
              obtain ⟨hll, _, _⟩ := decN_exact V2.marker_exact _ _ _ _ hl
              have hf : forN (rd V2.marker) k.toNat (bs.drop 8) = .ok (l, (bs.drop 8).drop (24 * k.toNat)) := by
                rw [forN_rd_eq, hl]
              erw [bind_run, hf]
              simp only [hl, checkWire_none l (by omega) (by omega)]
              cases hW : V1.wireGridOk l <;> simp
    · have hneg : Prim.s64 k < 0 := by
        have := k.toNat_lt
        unfold Prim.s64
        unfold maxCount at hk
        split <;> omega
      have h0 : ¬ (Prim.s64 k = 0) := by omega
      have h1 : Prim.s64 k < 2 := by omega
      simp [hk, h0, h1]

/-! ### decoder: the whole payload -/

/-- One validated grid, read by the Spec. -/
def gridV (bs : Bytes) : Option (List Impl.V1.GMarker × Bytes) :=
  match V2.grid.dec bs with
  | some (ws, r) => if V1.wireGridOk ws = true then some (V1.gridOfWire ws, r) else none
  | none => none

theorem decodeGrid_gridV (bs : Bytes) : Impl.V1.decodeGrid bs = ofOpt (gridV bs) := by
  rw [decodeGrid_eq]
  unfold gridV
  cases V2.grid.dec bs with
  | none => rfl
  | some p =>
    obtain ⟨ws, r⟩ := p
    by_cases h : V1.wireGridOk ws = true <;> simp [h]

theorem gridV_short (bs : Bytes) (h : bs.length < 8) : gridV bs = none := by
  unfold gridV V2.grid counted
  simp [u64be_dec_none h]

theorem gridV_some_length {bs : Bytes} {d r} (h : gridV bs = some (d, r)) : 8 + r.length ≤ bs.length := by
  unfold gridV at h
  cases hd : V2.grid.dec bs with
  | none => rw [hd] at h; simp at h
  | some p =>
    obtain ⟨ws, r'⟩ := p
    rw [hd] at h
    simp only at h
    split at h
    · simp only [Option.some.injEq, Prod.mk.injEq] at h
      obtain ⟨_, rfl⟩ := h
      have := (V2.grid_exact _ _ _ hd).2
      rw [this, List.length_append, grid_enc_length]
      omega
    · simp at h

/-- A buffer of at least 8 zero bytes starts with an empty grid. -/
theorem gridV_zero (bs : Bytes) (hz : Impl.V1.allZero bs = true) (h8 : 8 ≤ bs.length) :
    gridV bs = some ([], bs.drop 8) := by
  match bs, h8 with
  | a :: b :: c :: d :: e :: f :: g :: h :: r, _ =>
    simp only [Impl.V1.allZero, List.all_cons, Bool.and_eq_true, beq_iff_eq] at hz
    obtain ⟨rfl, rfl, rfl, rfl, rfl, rfl, rfl, rfl, _⟩ := hz
    rfl

/-- The payloads only the C++ accepts: a valid first grid followed by fewer than 8 bytes. -/
def missingSecondGrid (bs : Bytes) : Bool :=
  decide (33 ≤ bs.length) &&
    match gridV (bs.drop 17) with
    | some (_, r1) => decide (r1.length < 8)
    | none => false

/-- What `beat_data::decode` does after the two grids. -/
def beatFin (sr sc : UInt64) (d a : List Impl.V1.GMarker) (r : Bytes) : Res Impl.V1.Beat :=
  if !Impl.V1.allZero r then .throw .invalid_argument else
  .ok ⟨if F64.isZero sr then none else some sr, if F64.isZero sc then none else some sc, d, a⟩

theorem decodeBeat_run (bs : Bytes) (h : 33 ≤ bs.length) :
    Impl.V1.decodeBeat bs =
      match gridV (bs.drop 17) with
      | none => beatFin (u64be.get bs) (u64be.get (bs.drop 8)) [] [] (bs.drop 17)
      | some (d, r1) =>
        match gridV r1 with
        | none => beatFin (u64be.get bs) (u64be.get (bs.drop 8)) [] [] r1
        | some (a, r2) => beatFin (u64be.get bs) (u64be.get (bs.drop 8)) d a r2 := by
  unfold Impl.V1.decodeBeat
  have hlen : ¬ bs.length < 33 := by omega
  have r1 := rd_u64be_run (bs := bs) (by omega)
  have r2 := rd_u64be_run (bs := bs.drop 8) (by simp; omega)
  have r3 := rd_u8_run (bs := bs.drop 16) (by simp; omega)
  simp only [List.drop_drop, Nat.reduceAdd] at r2 r3
  simp only [hlen, if_false, bind_run, r1, r2, r3, pure_run, decodeGrid_gridV]
  cases h1 : gridV (bs.drop 17) with
  | none => simp [ofOpt, beatFin]
  | some p =>
    obtain ⟨d, r1'⟩ := p
    cases h2 : gridV r1' with
    | none => simp [ofOpt, beatFin, h2]
    | some q => obtain ⟨a, r2'⟩ := q; simp [ofOpt, beatFin, h2]

theorem spec_decodeBeat_run (bs : Bytes) (h : 33 ≤ bs.length) :
    V1.decodeBeat bs =
      match gridV (bs.drop 17) with
      | none => none
      | some (d, r1) =>
        match gridV r1 with
        | none => none
        | some (a, r2) =>
          if Impl.V1.allZero r2 = true then
            some ⟨V1.optZ (u64be.get bs), V1.optZ (u64be.get (bs.drop 8)), d, a⟩
          else none := by
  unfold V1.decodeBeat gridV
  simp (disch := (first | omega | (simp; omega)))
    [V2.beat, map, pair, dec_run_u64be, dec_run_u8, List.drop_drop]
  cases h1 : V2.grid.dec (List.drop 17 bs) with
  | none => simp
  | some p =>
    obtain ⟨ws, r1⟩ := p
    simp only []
    cases h2 : V2.grid.dec r1 with
    | none => by_cases hW : V1.wireGridOk ws = true <;> simp [hW, h2]
    | some q =>
      obtain ⟨ws2, r2⟩ := q
      by_cases hW : V1.wireGridOk ws = true <;> by_cases hW2 : V1.wireGridOk ws2 = true <;>
        by_cases hz : Impl.V1.allZero r2 = true <;> simp_all [Impl.V1.allZero]

theorem beatFin_nonzero (sr sc : UInt64) (d a : List Impl.V1.GMarker) (r : Bytes)
    (h : Impl.V1.allZero r = false) : beatFin sr sc d a r = .throw .invalid_argument := by
  simp [beatFin, h]

theorem spec_decodeBeat_short (bs : Bytes) (h : bs.length < 33) : V1.decodeBeat bs = none := by
  unfold V1.decodeBeat
  rw [dec_none_of_short V2.beat_exact (n := 33) (fun a _ => by rw [beat_enc_length]; omega) h]

/-- Outside the `missingSecondGrid` family the Model's decoder is the Spec's. -/
theorem decodeBeat_eq (bs : Bytes) (hm : missingSecondGrid bs = false) :
    Impl.V1.decodeBeat bs = ofOpt (V1.decodeBeat bs) := by
  by_cases h33 : bs.length < 33
  · rw [spec_decodeBeat_short bs h33]
    unfold Impl.V1.decodeBeat
    simp [h33]
  · have h : 33 ≤ bs.length := by omega
    rw [decodeBeat_run bs h, spec_decodeBeat_run bs h]
    unfold missingSecondGrid at hm
    cases h1 : gridV (bs.drop 17) with
    | none =>
      simp only []
      have hz : Impl.V1.allZero (bs.drop 17) = false := by
        cases hz : Impl.V1.allZero (bs.drop 17) with
        | false => rfl
        | true =>
          have := gridV_zero (bs.drop 17) hz (by simp; omega)
          rw [h1] at this; cases this
      rw [beatFin_nonzero _ _ _ _ _ hz]; rfl
    | some p =>
      obtain ⟨d, r1⟩ := p
      rw [h1] at hm
      simp only [h, decide_true, Bool.true_and, decide_eq_false_iff_not] at hm
      simp only []
      cases h2 : gridV r1 with
      | none =>
        simp only []
        have hz : Impl.V1.allZero r1 = false := by
          cases hz : Impl.V1.allZero r1 with
          | false => rfl
          | true =>
            have := gridV_zero r1 hz (by omega)
            rw [h2] at this; cases this
        rw [beatFin_nonzero _ _ _ _ _ hz]; rfl
      | some q =>
        obtain ⟨a, r2⟩ := q
        simp only [beatFin, V1.optZ]
        cases hz : Impl.V1.allZero r2 <;> simp [ofOpt]

/-- On the `missingSecondGrid` family the Spec rejects and the C++ answers "no grids"
(or rejects, when the few trailing bytes are not all zero). -/
theorem decodeBeat_lenient (bs : Bytes) (hm : missingSecondGrid bs = true) :
    V1.decodeBeat bs = none ∧
    ((∃ sr sc, Impl.V1.decodeBeat bs = .ok ⟨sr, sc, [], []⟩) ∨
      Impl.V1.decodeBeat bs = .throw .invalid_argument) := by
  unfold missingSecondGrid at hm
  simp only [Bool.and_eq_true, decide_eq_true_eq] at hm
  obtain ⟨h, hm⟩ := hm
  rw [decodeBeat_run bs h, spec_decodeBeat_run bs h]
  cases h1 : gridV (bs.drop 17) with
  | none => rw [h1] at hm; simp at hm
  | some p =>
    obtain ⟨d, r1⟩ := p
    rw [h1] at hm
    simp only [decide_eq_true_eq] at hm
    simp only [gridV_short r1 hm, true_and]
    unfold beatFin
    cases hz : Impl.V1.allZero r1
    · right; simp
    · left
      exact ⟨if F64.isZero (u64be.get bs) = true then none else some (u64be.get bs),
        if F64.isZero (u64be.get (bs.drop 8)) = true then none else some (u64be.get (bs.drop 8)), by simp⟩

theorem decodeBeat_of_spec (bs : Bytes) (v : Impl.V1.Beat) (h : V1.decodeBeat bs = some v) :
    Impl.V1.decodeBeat bs = .ok v := by
  cases hm : missingSecondGrid bs with
  | false => rw [decodeBeat_eq bs hm, h]; rfl
  | true => rw [(decodeBeat_lenient bs hm).1] at h; cases h

theorem decodeBeat_safe (bs : Bytes) (u : Ub) : Impl.V1.decodeBeat bs ≠ .ub u := by
  cases hm : missingSecondGrid bs with
  | false => rw [decodeBeat_eq bs hm]; exact ofOpt_never_ub _ _
  | true =>
    rcases (decodeBeat_lenient bs hm).2 with ⟨sr, sc, h⟩ | h <;> rw [h] <;> simp

theorem decodeBeat_throw (bs : Bytes) (e : Exn) (h : Impl.V1.decodeBeat bs = .throw e) :
    e = .invalid_argument := by
  cases hm : missingSecondGrid bs with
  | false => rw [decodeBeat_eq bs hm] at h; exact ofOpt_throw h
  | true =>
    rcases (decodeBeat_lenient bs hm).2 with ⟨sr, sc, h'⟩ | h' <;> rw [h'] at h
    · cases h
    · injection h with h; exact h.symm

end V1Proofs
end EngineModel
