/-
Every structural query of the schema-1.x model, on a state satisfying the
invariant, returns what the same query of `Spec.Forest` returns on the abstract
forest `absForest db` (listings compared as sorted lists, as the tie does).
-/
import Proofs.CratesV1Members

namespace EngineModel.Api.CratesV1
open EngineModel.Pure.Detect EngineModel.Spec

variable {db : Db}

/-! ### sorting -/

theorem sortIds_eq_of_perm {l l' : List Id} (h : l.Perm l') : sortIds l = sortIds l' := by
  unfold sortIds
  have htrans : ∀ a b c : Id, decide (a ≤ b) = true → decide (b ≤ c) = true → decide (a ≤ c) = true := by
    intro a b c h1 h2
    simp only [decide_eq_true_eq] at *
    exact Int.le_trans h1 h2
  have htotal : ∀ a b : Id, (decide (a ≤ b) || decide (b ≤ a)) = true := by
    intro a b
    rcases Int.le_total a b with h | h <;> simp [h]
  apply List.Perm.eq_of_pairwise (le := fun a b => decide (a ≤ b))
  · intro a b _ _ h1 h2
    simp only [decide_eq_true_eq] at h1 h2
    exact Int.le_antisymm h1 h2
  · exact List.pairwise_mergeSort htrans htotal l
  · exact List.pairwise_mergeSort htrans htotal l'
  · exact (List.mergeSort_perm l _).trans (h.trans (List.mergeSort_perm l' _).symm)

theorem sortIds_eq_of_mem {l l' : List Id} (h1 : l.Nodup) (h2 : l'.Nodup) (h : ∀ x, x ∈ l ↔ x ∈ l') :
    sortIds l = sortIds l' :=
  sortIds_eq_of_perm ((List.perm_ext_iff_of_nodup h1 h2).mpr h)

theorem spec_sortIds (l : List Id) : Forest.sortIds l = sortIds l := rfl

theorem flatMap_congr' {α β} {f g : α → List β} : ∀ {l : List α}, (∀ a ∈ l, f a = g a) → l.flatMap f = l.flatMap g := by
  intro l
  induction l with
  | nil => intro _; rfl
  | cons a l ih =>
    intro h
    rw [List.flatMap_cons, List.flatMap_cons, h a (by simp), ih (fun b hb => h b (List.mem_cons_of_mem a hb))]

theorem flatMap_ite_singleton {α β} (q : α → Bool) (g : α → β) (l : List α) :
    l.flatMap (fun a => if q a = true then [g a] else []) = (l.filter q).map g := by
  induction l with
  | nil => rfl
  | cons a l ih =>
    rw [List.flatMap_cons, ih]
    by_cases hq : q a = true
    · rw [if_pos hq, List.filter_cons_of_pos hq]; rfl
    · rw [if_neg hq, List.filter_cons_of_neg hq]; rfl

/-! ### crates(), crate_by_id, is_valid, name -/

theorem q_crates (db : Db) : dbCrates db = Forest.sortIds (absForest db).ids := by
  rw [abs_ids]; rfl

theorem q_isValid (h : FInv db) (c : Id) : crateIsValid db c = .ok ((absForest db).live c) := by
  by_cases hc : c ∈ ids db
  · rw [crateIsValid_live h.idsNodup hc, abs_live_true db hc]
  · rw [crateIsValid_dead hc, abs_live_false db hc]

theorem q_crateById (h : FInv db) (c : Id) :
    dbCrateById db c = .ok (if (absForest db).live c then some c else none) := by
  unfold dbCrateById
  rw [q_isValid h c]
  rfl

theorem q_name (h : FInv db) (c : Id) :
    crateName db c = match (absForest db).nameOf c with
      | some n => .ok n
      | none => .throw exCrateDeleted := by
  by_cases hc : c ∈ ids db
  · obtain ⟨r, hr, rfl⟩ := exists_row hc
    rw [crateName_of_mem h.idsNodup hr]
    unfold Forest.Forest.nameOf
    rw [abs_find_of_mem h hr]
    rfl
  · rw [crateName_dead hc]
    unfold Forest.Forest.nameOf
    rw [abs_find_none hc]
    rfl

theorem q_cratesByName (db : Db) (n : Name) : dbCratesByName db n = Forest.sortIds ((absForest db).byName n) := by
  unfold dbCratesByName Forest.Forest.byName
  rw [abs_crates, List.filter_map, List.map_map, spec_sortIds]
  rfl

/-! ### parent() -/

theorem q_parent (h : FInv db) (c : Id) : crateParent db c = .ok ((absForest db).parentOf c) := by
  rw [abs_parentOf h c]
  unfold crateParent
  have hf : db.cpl.filter (fun r => r.1 == c && r.2 != r.1)
      = (db.cpl.filter (fun r => r.1 == c)).filter (fun r => r.2 != r.1) := by
    rw [List.filter_filter]
    apply List.filter_congr
    intro r _
    exact Bool.and_comm _ _
  rw [hf]
  by_cases hrow : ∃ p, (c, p) ∈ db.cpl
  · obtain ⟨p, hp⟩ := hrow
    rw [pairs_filter_fst h.cplNodup hp]
    by_cases hpc : p = c
    · subst hpc
      have : parentOf db p = none := by
        rw [parentOf_eq_none h]
        intro p' hp'
        exact hp'.2 (h.cpl_unique hp'.1 hp)
      rw [this]
      simp
    · rw [(parentOf_eq_some h).mpr ⟨hp, hpc⟩]
      simp [hpc]
  · have h0 : db.cpl.filter (fun r => r.1 == c) = [] := by
      rw [List.filter_eq_nil_iff]
      intro r hr he
      simp only [beq_iff_eq] at he
      exact hrow ⟨r.2, by rw [← he]; exact hr⟩
    have : parentOf db c = none := by
      rw [parentOf_eq_none h]
      intro p hp
      exact hrow ⟨p, hp.1⟩
    rw [h0, this]
    rfl

/-! ### children(), descendants(), root_crates() -/

theorem mem_abs_children (h : FInv db) (c k : Id) : k ∈ (absForest db).children c ↔ Par db k c := by
  unfold Forest.Forest.children
  rw [abs_crates]
  simp only [List.mem_map, List.mem_filter, beq_iff_eq]
  constructor
  · rintro ⟨x, ⟨⟨r, hr, rfl⟩, hx⟩, rfl⟩
    exact (parentOf_eq_some h).mp hx
  · intro hp
    obtain ⟨r, hr, hid⟩ := exists_row (h.par_live hp).1
    refine ⟨⟨r.id, r.title, parentOf db r.id⟩, ⟨⟨r, hr, rfl⟩, ?_⟩, hid⟩
    rw [hid]
    exact (parentOf_eq_some h).mpr hp

theorem abs_sub_ids_nodup (h : FInv db) (q : Forest.Crate → Bool) : (((absForest db).crates.filter q).map (·.id)).Nodup := by
  have : ((absForest db).crates.map (·.id)).Nodup := by
    have := abs_ids db
    unfold Forest.Forest.ids at this
    rw [this]; exact h.idsNodup
  exact this.sublist (List.Sublist.map _ List.filter_sublist)

theorem q_children (h : FInv db) (c : Id) :
    sortIds (crateChildren db c) = Forest.sortIds ((absForest db).children c) := by
  rw [spec_sortIds]
  apply sortIds_eq_of_mem
  · unfold crateChildren
    exact h.cplNodup.sublist (List.Sublist.map _ List.filter_sublist)
  · exact abs_sub_ids_nodup h _
  · intro k
    rw [mem_crateChildren, mem_abs_children h]

theorem mem_crateDescendants (db : Db) (c y : Id) : y ∈ crateDescendants db c ↔ (c, y) ∈ db.ch := by
  unfold crateDescendants
  simp only [List.mem_map, List.mem_filter, beq_iff_eq]
  constructor
  · rintro ⟨r, ⟨hr, h1⟩, rfl⟩
    have : r = (c, r.2) := Prod.ext h1 rfl
    rw [← this]; exact hr
  · intro hm; exact ⟨(c, y), ⟨hm, rfl⟩, rfl⟩

theorem mem_abs_descendants (h : FInv db) (c y : Id) : y ∈ (absForest db).descendants c ↔ (c, y) ∈ db.ch := by
  unfold Forest.Forest.descendants
  rw [abs_crates]
  simp only [List.mem_map, List.mem_filter]
  constructor
  · rintro ⟨x, ⟨⟨r, hr, rfl⟩, hx⟩, rfl⟩
    exact (isAncestor_iff h c r.id).mp hx
  · intro hm
    obtain ⟨r, hr, hid⟩ := exists_row (h.chLive _ hm).2
    simp only at hid
    refine ⟨⟨r.id, r.title, parentOf db r.id⟩, ⟨⟨r, hr, rfl⟩, ?_⟩, hid⟩
    rw [hid]
    exact (isAncestor_iff h c y).mpr hm

theorem q_descendants (h : FInv db) (c : Id) :
    sortIds (crateDescendants db c) = Forest.sortIds ((absForest db).descendants c) := by
  rw [spec_sortIds]
  apply sortIds_eq_of_mem
  · have := subtreeList_nodup h c
    unfold subtreeList at this
    exact (List.nodup_cons.mp this).2
  · exact abs_sub_ids_nodup h _
  · intro y
    rw [mem_crateDescendants, mem_abs_descendants h]

theorem mem_abs_roots (h : FInv db) (x : Id) : x ∈ (absForest db).roots ↔ (x, x) ∈ db.cpl := by
  unfold Forest.Forest.roots
  rw [abs_crates]
  simp only [List.mem_map, List.mem_filter, beq_iff_eq]
  constructor
  · rintro ⟨y, ⟨⟨r, hr, rfl⟩, hx⟩, rfl⟩
    exact (root_row_iff h hr).mp hx
  · intro hm
    obtain ⟨r, hr, hid⟩ := exists_row ((h.cplTotal x).mp (List.mem_map_of_mem (f := (·.1)) hm))
    refine ⟨⟨r.id, r.title, parentOf db r.id⟩, ⟨⟨r, hr, rfl⟩, ?_⟩, hid⟩
    exact (root_row_iff h hr).mpr (by rw [hid]; exact hm)

theorem q_roots (h : FInv db) : dbRootCrates db = Forest.sortIds (absForest db).roots := by
  rw [spec_sortIds]
  unfold dbRootCrates
  apply sortIds_eq_of_mem
  · exact h.cplNodup.sublist (List.Sublist.map _ List.filter_sublist)
  · exact abs_sub_ids_nodup h _
  · intro x
    rw [mem_abs_roots h]
    simp only [List.mem_map, List.mem_filter, beq_iff_eq]
    constructor
    · rintro ⟨r, ⟨hr, h2⟩, rfl⟩
      have : r = (r.1, r.1) := Prod.ext rfl h2
      rw [← this]; exact hr
    · intro hm; exact ⟨(x, x), ⟨hm, rfl⟩, rfl⟩

/-! ### lookups by parent and name -/

theorem root_rows_of (h : FInv db) {cr : CrateRow} (hcr : cr ∈ db.crate) :
    (db.cpl.filter (fun r => r.1 == cr.id && r.1 == r.2)).map (fun _ => cr.id)
      = if (parentOf db cr.id == none) = true then [cr.id] else [] := by
  obtain ⟨p, hp⟩ := h.live_has_row (List.mem_map_of_mem (f := (·.id)) hcr)
  have hf : db.cpl.filter (fun r => r.1 == cr.id && r.1 == r.2)
      = (db.cpl.filter (fun r => r.1 == cr.id)).filter (fun r => r.1 == r.2) := by
    rw [List.filter_filter]
    apply List.filter_congr
    intro r _
    exact Bool.and_comm _ _
  rw [hf, pairs_filter_fst h.cplNodup hp]
  by_cases hpe : p = cr.id
  · have : parentOf db cr.id = none := (root_row_iff h hcr).mpr (hpe ▸ hp)
    rw [this]
    simp [hpe]
  · have : parentOf db cr.id = some p := (parentOf_eq_some h).mpr ⟨hp, hpe⟩
    rw [this]
    have hne : ¬ cr.id = p := fun e => hpe e.symm
    simp [hne]

theorem q_rootCrateByName (h : FInv db) (n : Name) :
    rootCrateByName db n = lastById ((absForest db).byParentName none n) := by
  unfold rootCrateByName Forest.Forest.byParentName
  congr 1
  rw [flatMap_congr' (g := fun cr => if (parentOf db cr.id == none) = true then [cr.id] else [])
    (fun cr hcr => root_rows_of h (List.mem_filter.mp hcr).1)]
  rw [flatMap_ite_singleton (fun cr : CrateRow => parentOf db cr.id == none) (fun cr => cr.id)]
  rw [abs_crates, List.filter_map, List.map_map, List.filter_filter]
  rfl

theorem sub_rows_of (h : FInv db) (c : Id) {cr : CrateRow} (hcr : cr ∈ db.crate) :
    (db.cpl.filter (fun r => r.1 == cr.id && r.2 == c && r.1 != r.2)).map (fun _ => cr.id)
      = if (parentOf db cr.id == some c) = true then [cr.id] else [] := by
  obtain ⟨p, hp⟩ := h.live_has_row (List.mem_map_of_mem (f := (·.id)) hcr)
  have hf : db.cpl.filter (fun r => r.1 == cr.id && r.2 == c && r.1 != r.2)
      = (db.cpl.filter (fun r => r.1 == cr.id)).filter (fun r => r.2 == c && r.1 != r.2) := by
    rw [List.filter_filter]
    apply List.filter_congr
    intro r _
    cases (r.1 == cr.id) <;> cases (r.2 == c) <;> cases (r.1 != r.2) <;> rfl
  rw [hf, pairs_filter_fst h.cplNodup hp]
  by_cases hpe : p = cr.id
  · have : parentOf db cr.id = none := (root_row_iff h hcr).mpr (hpe ▸ hp)
    rw [this]
    simp [hpe]
  · have : parentOf db cr.id = some p := (parentOf_eq_some h).mpr ⟨hp, hpe⟩
    rw [this]
    have hne : ¬ cr.id = p := fun e => hpe e.symm
    by_cases hpc : p = c
    · subst hpc; simp [hne]
    · simp [hpc]

theorem q_subCrateByName (h : FInv db) (c : Id) (n : Name) :
    subCrateByName db c n = lastById ((absForest db).byParentName (some c) n) := by
  unfold subCrateByName Forest.Forest.byParentName
  congr 1
  rw [flatMap_congr' (g := fun cr => if (parentOf db cr.id == some c) = true then [cr.id] else [])
    (fun cr hcr => sub_rows_of h c (List.mem_filter.mp hcr).1)]
  rw [flatMap_ite_singleton (fun cr : CrateRow => parentOf db cr.id == some c) (fun cr => cr.id)]
  rw [abs_crates, List.filter_map, List.map_map, List.filter_filter]
  rfl

/-! ### every id a query returns is the id of a live crate -/

theorem lastById_mem {l : List Id} {x : Id} (h : lastById l = some x) : x ∈ l := by
  unfold lastById at h
  have := List.mem_of_getLast? h
  unfold sortIds at this
  exact List.mem_mergeSort.mp this

end EngineModel.Api.CratesV1
