/-
C15: what the guard conditions regenerated from the C++ source (`Gen.C15Guards`) MEAN — each lemma is
proved semantically (truth table for the Boolean ones, `omega` for the integer ones), so a
behaviour-preserving rewrite of a guard in the C++ keeps every proof that rests on these lemmas, while a
weakened or dropped guard makes the lemma — and with it "guarded model = model, never ub" — unprovable.
-/
import EngineModel.Gen.C15Guards
import EngineModel.Basic.Prim

namespace EngineModel.Gen.C15Guards
open EngineModel

/-! ### presence tests -/
theorem v2_crate_name_norow_eq (b : Bool) : v2_crate_name_norow b = (!b) := by cases b <;> rfl
theorem v2_crate_parent_norow_eq (b : Bool) : v2_crate_parent_norow b = (!b) := by cases b <;> rfl
theorem v2_crate_set_name_norow_eq (b : Bool) : v2_crate_set_name_norow b = (!b) := by cases b <;> rfl
theorem v2_crate_set_parent_self_eq (a b : Bool) : v2_crate_set_parent_self a b = (a && b) := by cases a <;> cases b <;> rfl
theorem v2_crate_set_parent_norow_eq (b : Bool) : v2_crate_set_parent_norow b = (!b) := by cases b <;> rfl
theorem v2_crate_set_parent_given_eq (b : Bool) : v2_crate_set_parent_given b = b := by cases b <;> rfl
theorem v2_crate_set_parent_given2_eq (b : Bool) : v2_crate_set_parent_given2 b = b := by cases b <;> rfl
theorem v2_crate_sub_after_norow_eq (b : Bool) : v2_crate_sub_after_norow b = (!b) := by cases b <;> rfl
theorem v2_crate_remove_track_found_eq (b : Bool) : v2_crate_remove_track_found b = b := by cases b <;> rfl
theorem v2_crate_sub_by_name_none_eq (b : Bool) : v2_crate_sub_by_name_none b = (!b) := by cases b <;> rfl
theorem v2_db_root_after_norow_eq (b : Bool) : v2_db_root_after_norow b = (!b) := by cases b <;> rfl
theorem v2_db_remove_track_found_eq (b : Bool) : v2_db_remove_track_found b = b := by cases b <;> rfl
theorem v2_db_root_by_name_none_eq (b : Bool) : v2_db_root_by_name_none b = (!b) := by cases b <;> rfl
theorem v2_db_tracks_by_path_found_eq (b : Bool) : v2_db_tracks_by_path_found b = b := by cases b <;> rfl
theorem v2_pe_add_back_existing_eq (b : Bool) : v2_pe_add_back_existing b = b := by cases b <;> rfl
theorem v2_pl_sort_ids_empty_eq (b : Bool) : v2_pl_sort_ids_empty b = b := by cases b <;> rfl
theorem v2_pe_get_for_list_empty_eq (b : Bool) : v2_pe_get_for_list_empty b = b := by cases b <;> rfl
theorem v1_crate_name_none_eq (b : Bool) : v1_crate_name_none b = (!b) := by cases b <;> rfl

/-! ### conversions -/
theorem v2_wave_empty_eq (b : Bool) : v2_wave_empty b = b := by cases b <;> rfl
theorem v2_wave_absent_eq (a b : Bool) : v2_wave_absent a b = ((!a) || (!b)) := by cases a <;> cases b <;> rfl
theorem v2_wave_range_eq (b : Bool) : v2_wave_range b = (!b) := by cases b <;> rfl
theorem v2_wave_nonempty_eq (b : Bool) : v2_wave_nonempty b = (!b) := by cases b <;> rfl
theorem v2_bpm_inrange_eq (a b c : Bool) : v2_bpm_inrange a b c = ((a && b) && c) := by
  cases a <;> cases b <;> cases c <;> rfl
theorem v2_wave_noextent_iff (n : Nat) : v2_wave_noextent n = true ↔ n = 0 := by
  unfold v2_wave_noextent; simp only [decide_eq_true_eq]; omega
theorem v2_wave_loop_iff (i n : Nat) : v2_wave_loop i n = true ↔ i < n := by
  unfold v2_wave_loop; simp only [decide_eq_true_eq]; omega
theorem v1_length_calc_none_eq (a b c e : Bool) : v1_length_calc_none a b c e = ((((!a) || (!b)) || (!c)) || (!e)) := by
  cases a <;> cases b <;> cases c <;> cases e <;> rfl
theorem v1_bpm_fields_inrange_eq (a b : Bool) : v1_bpm_fields_inrange a b = (a && b) := by cases a <;> cases b <;> rfl
theorem v1_set_bpm_inrange_eq (a b : Bool) : v1_set_bpm_inrange a b = (a && b) := by cases a <;> cases b <;> rfl
theorem v1_extents_rate_out_eq (a : Bool) : v1_extents_rate_out a = (!a) := by cases a <;> rfl
theorem v1_overview_absent_eq (a b : Bool) : v1_overview_absent a b = ((!a) || (!b)) := by cases a <;> cases b <;> rfl
theorem v1_overview_nonempty_eq (a : Bool) : v1_overview_nonempty a = (!a) := by cases a <;> rfl
theorem v1_hires_absent_eq (a b c e : Bool) : v1_hires_absent a b c e = ((((!a) || b) || (!c)) || e) := by
  cases a <;> cases b <;> cases c <;> cases e <;> rfl
theorem v1_overview_loop_iff (i n : Nat) : v1_overview_loop i n = true ↔ i < n := by
  unfold v1_overview_loop; simp only [decide_eq_true_eq]; omega

/-! ### track_utils.hpp: the "no extents" test must cover `qn == 0` (the divisor) -/
theorem util_ovw_zero_iff (n : Nat) (qn : Int) (r : F64.Bits) : util_ovw_zero n qn r = true ↔ (n = 0 ∨ qn = 0) := by
  unfold util_ovw_zero; simp only [Bool.or_eq_true, decide_eq_true_eq]; omega
theorem util_hires_zero_iff (n : Nat) (qn : Int) (r : F64.Bits) : util_hires_zero n qn r = true ↔ (n = 0 ∨ qn = 0) := by
  unfold util_hires_zero; simp only [Bool.or_eq_true, decide_eq_true_eq]; omega

/-! ### the slot range tests: for an `int` index, "throws" iff the index is outside `0 ≤ index < size` -/

/-- the meaning every slot range test must have -/
def IsRange (guard : Int → Nat → Bool) : Prop :=
  ∀ (idx : Int) (n : Nat), -2147483648 ≤ idx → idx < 2147483648 → (guard idx n = true ↔ (idx < 0 ∨ (n : Int) ≤ idx))

theorem v2_track_hot_cue_at_range_isRange : IsRange v2_track_hot_cue_at_range := by
  intro idx n h1 h2; unfold v2_track_hot_cue_at_range; simp only [Bool.or_eq_true, decide_eq_true_eq]; omega
theorem v2_track_set_hot_cue_at_range_isRange : IsRange v2_track_set_hot_cue_at_range := by
  intro idx n h1 h2; unfold v2_track_set_hot_cue_at_range; simp only [Bool.or_eq_true, decide_eq_true_eq]; omega
theorem v2_track_loop_at_range_isRange : IsRange v2_track_loop_at_range := by
  intro idx n h1 h2; unfold v2_track_loop_at_range; simp only [Bool.or_eq_true, decide_eq_true_eq]; omega
theorem v2_track_set_loop_at_range_isRange : IsRange v2_track_set_loop_at_range := by
  intro idx n h1 h2; unfold v2_track_set_loop_at_range; simp only [Bool.or_eq_true, decide_eq_true_eq]; omega
theorem v1_track_hot_cue_at_range_isRange : IsRange v1_track_hot_cue_at_range := by
  intro idx n h1 h2; unfold v1_track_hot_cue_at_range; simp only [Bool.or_eq_true, decide_eq_true_eq]; omega
theorem v1_track_set_hot_cue_at_range_isRange : IsRange v1_track_set_hot_cue_at_range := by
  intro idx n h1 h2; unfold v1_track_set_hot_cue_at_range; simp only [Bool.or_eq_true, decide_eq_true_eq]; omega
theorem v1_track_loop_at_range_isRange : IsRange v1_track_loop_at_range := by
  intro idx n h1 h2; unfold v1_track_loop_at_range; simp only [Bool.or_eq_true, decide_eq_true_eq]; omega
theorem v1_track_set_loop_at_range_isRange : IsRange v1_track_set_loop_at_range := by
  intro idx n h1 h2; unfold v1_track_set_loop_at_range; simp only [Bool.or_eq_true, decide_eq_true_eq]; omega

end EngineModel.Gen.C15Guards
