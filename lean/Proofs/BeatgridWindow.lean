/-
`trim = window`: the trimming done by `normalize_beatgrid` (two `find_if` /
`erase` pairs with iterator arithmetic) keeps exactly the Spec's window — for
every arithmetic whose comparisons satisfy `OrdLaws` (four implications that
hold of IEEE-754 `<`/`<=` even with NaN, and of any linear order).
-/
import Proofs.BeatgridGen

namespace EngineModel.Pure.Beatgrid
open EngineModel

variable {α : Type}

/-- The order facts used.  Each is an implication between *true* comparisons, so NaN (for which
every comparison is false) cannot violate any of them. -/
structure OrdLaws (num : Num α) : Prop where
  lt_asymm : ∀ a b, num.lt a b = true → num.lt b a = false
  lt_trans : ∀ a b c, num.lt a b = true → num.lt b c = true → num.lt a c = true
  lt_of_lt_of_le : ∀ a b c, num.lt a b = true → num.le b c = true → num.lt a c = true
  le_of_le_of_lt : ∀ a b c, num.le a b = true → num.lt b c = true → num.le a c = true

/-- Strictly increasing in beat index and in sample offset, by the instance's own `<`. -/
def SortedBy (num : Num α) (g : List (Marker α)) : Prop :=
  g.Pairwise (fun a b => a.index < b.index ∧ num.lt a.off b.off = true)

section
variable {num : Num α}

theorem OrdLaws.lt_irrefl (L : OrdLaws num) (a : α) : num.lt a a = false := by
  cases h : num.lt a a
  · rfl
  · have := L.lt_asymm a a h
    rw [h] at this
    cases this

/-! ### what the two `find_if`/`erase` pairs keep -/

theorem trimEnd_cases (g : List (Marker α)) (n : Int) :
    (trimEnd num g n = g ∧ ∀ x ∈ g, num.le (num.ofInt n) x.off = false) ∨
    (∃ (i : Nat) (h : i < g.length), trimEnd num g n = g.take i ++ [g[i]] ∧
      num.le (num.ofInt n) g[i].off = true ∧
      (∀ x ∈ g.take i, num.le (num.ofInt n) x.off = false) ∧
      g = (g.take i ++ [g[i]]) ++ g.drop (i + 1)) := by
  unfold trimEnd
  cases hf : g.findIdx? (fun m => num.le (num.ofInt n) m.off) with
  | none =>
    left
    exact ⟨rfl, List.findIdx?_eq_none_iff.mp hf⟩
  | some i =>
    right
    obtain ⟨h, hp, hlt⟩ := List.findIdx?_eq_some_iff_getElem.mp hf
    refine ⟨i, h, List.take_succ_eq_append_getElem h, hp, ?_, ?_⟩
    · intro x hx
      obtain ⟨k, hk, rfl⟩ := List.mem_iff_getElem.mp hx
      rw [List.length_take] at hk
      have := hlt k (by omega)
      rw [List.getElem_take]
      simpa using this
    · rw [← List.take_succ_eq_append_getElem h, List.take_append_drop]

theorem trimStart_cases (te : List (Marker α)) :
    (trimStart num te = te ∧
      (te = [] ∨ ∃ h t, te = h :: t ∧ num.lt (num.ofInt 0) h.off = true)) ∨
    (∃ A h t, te = A ++ h :: t ∧ trimStart num te = h :: t ∧
      num.lt (num.ofInt 0) h.off = false ∧
      (t = [] ∨ ∃ y t', t = y :: t' ∧ num.lt (num.ofInt 0) y.off = true)) := by
  unfold trimStart
  dsimp only
  generalize hp : (fun m : Marker α => num.lt (num.ofInt 0) m.off) = p
  split
  · rename_i hj
    left
    refine ⟨rfl, ?_⟩
    cases te with
    | nil => left; rfl
    | cons h t =>
      right
      refine ⟨h, t, rfl, ?_⟩
      rw [List.findIdx_cons] at hj
      cases hph : p h with
      | true => rw [← hp] at hph; exact hph
      | false => rw [hph] at hj; simp at hj
  · rename_i hj
    right
    have hle : te.findIdx p ≤ te.length := List.findIdx_le_length
    have hlt : te.findIdx p - 1 < te.length := by omega
    refine ⟨te.take (te.findIdx p - 1), te[te.findIdx p - 1], te.drop (te.findIdx p), ?_, ?_, ?_, ?_⟩
    · have := List.drop_eq_getElem_cons hlt
      rw [show te.findIdx p - 1 + 1 = te.findIdx p by omega] at this
      rw [← this, List.take_append_drop]
    · have := List.drop_eq_getElem_cons hlt
      rw [show te.findIdx p - 1 + 1 = te.findIdx p by omega] at this
      exact this
    · have := List.not_of_lt_findIdx (p := p) (xs := te) (i := te.findIdx p - 1) (by omega)
      subst hp
      exact this
    · by_cases hjl : te.findIdx p < te.length
      · right
        refine ⟨te[te.findIdx p], te.drop (te.findIdx p + 1), List.drop_eq_getElem_cons hjl, ?_⟩
        have := List.findIdx_getElem (p := p) (xs := te) (w := hjl)
        subst hp
        exact this
      · left
        exact List.drop_eq_nil_of_le (by omega)

/-- In a sorted list whose head is after sample 0, every marker is. -/
theorem all_pos_of_head (L : OrdLaws num) {y : Marker α} {t : List (Marker α)}
    (hs : SortedBy num (y :: t)) (hy : num.lt (num.ofInt 0) y.off = true) :
    ∀ x ∈ y :: t, num.lt (num.ofInt 0) x.off = true := by
  intro x hx
  rcases List.mem_cons.mp hx with rfl | hx
  · exact hy
  · exact L.lt_trans _ _ _ hy ((List.pairwise_cons.mp hs).1 x hx).2

theorem mem_dropLast_or_last {β} {l : List β} {x : β} (hx : x ∈ l) :
    ∃ d z, l = d ++ [z] ∧ (x ∈ d ∨ x = z) := by
  have hne : l ≠ [] := List.ne_nil_of_mem hx
  refine ⟨l.dropLast, l.getLast hne, (List.dropLast_concat_getLast hne).symm, ?_⟩
  rw [← List.dropLast_concat_getLast hne] at hx
  rcases List.mem_append.mp hx with h | h
  · exact Or.inl h
  · right; simpa using h

/-- Core of the characterisation: a decomposition `g = A ++ B ++ C` with the facts the two
`find_if`s establish makes `B` the window. -/
theorem window_of_facts (L : OrdLaws num) {A B C : List (Marker α)} {n : Int}
    (hs : SortedBy num (A ++ B ++ C))
    (hn : num.lt (num.ofInt 0) (num.ofInt n) = true)
    (F1 : ∀ x ∈ B.tail, num.lt (num.ofInt 0) x.off = true)
    (F2 : A = [] ∨ ∃ h t, B = h :: t ∧ num.lt (num.ofInt 0) h.off = false)
    (F4 : ∀ d z, A ++ B = d ++ [z] → ∀ x ∈ d, num.le (num.ofInt n) x.off = false)
    (F6 : C = [] ∨ ∃ d l, A ++ B = d ++ [l] ∧ num.le (num.ofInt n) l.off = true) :
    window num (A ++ B ++ C) n = B := by
  have hs' := hs
  unfold SortedBy at hs'
  rw [List.pairwise_append] at hs'
  obtain ⟨hsAB, hsC, hABC⟩ := hs'
  have hsAB' := hsAB
  rw [List.pairwise_append] at hsAB'
  obtain ⟨hsA, hsB, hAB⟩ := hsAB'
  -- every marker of `C` is after sample 0
  have hCpos : ∀ x ∈ C, num.lt (num.ofInt 0) x.off = true := by
    intro x hx
    rcases F6 with rfl | ⟨d, l, hdl, hle⟩
    · cases hx
    · have hl : l ∈ A ++ B := by rw [hdl]; simp
      exact L.lt_trans _ _ _ (L.lt_of_lt_of_le _ _ _ hn hle) (hABC l hl x hx).2
  have hB : ∀ m ∈ B, inWindow num (A ++ B ++ C) n m = true := by
    intro m hm
    unfold inWindow
    rw [Bool.and_eq_true, List.all_eq_true, List.all_eq_true]
    constructor
    · intro x hx
      rw [List.append_assoc] at hx
      rcases List.mem_append.mp hx with hxA | hxBC
      · rw [L.lt_asymm _ _ (hAB x hxA m hm).2]; rfl
      · rcases List.mem_append.mp hxBC with hxB | hxC
        · cases B with
          | nil => cases hm
          | cons h t =>
            rcases List.mem_cons.mp hxB with rfl | hxt
            · rcases List.mem_cons.mp hm with rfl | hmt
              · rw [L.lt_irrefl]; rfl
              · rw [L.lt_asymm _ _ ((List.pairwise_cons.mp hsB).1 m hmt).2]; rfl
            · rw [F1 x hxt]; simp
        · rw [hCpos x hxC]; simp
    · intro x hx
      rcases List.mem_append.mp hx with hxAB | hxC
      · obtain ⟨d, z, hdz, hxd⟩ := mem_dropLast_or_last hxAB
        rcases hxd with hxd | rfl
        · rw [F4 d z hdz x hxd]; simp
        · -- `x` is the last marker of `A ++ B`; `m` is not after it
          have hmAB : m ∈ A ++ B := List.mem_append_right _ hm
          rw [hdz] at hmAB hsAB
          rcases List.mem_append.mp hmAB with hmd | hmz
          · have := ((List.pairwise_append.mp hsAB).2.2 m hmd x (by simp)).2
            rw [L.lt_asymm _ _ this]; rfl
          · have : m = x := by simpa using hmz
            subst this
            rw [L.lt_irrefl]; rfl
      · have := (hABC m (List.mem_append_right _ hm) x hxC).2
        rw [L.lt_asymm _ _ this]; rfl
  have hA : ∀ m ∈ A, ¬ inWindow num (A ++ B ++ C) n m = true := by
    intro m hm
    rcases F2 with rfl | ⟨h, t, rfl, hh⟩
    · cases hm
    · unfold inWindow
      rw [Bool.and_eq_true]
      intro hand
      have hf : ((A ++ h :: t ++ C).all
          (fun x => !num.lt m.off x.off || num.lt (num.ofInt 0) x.off)) = false := by
        rw [List.all_eq_false]
        refine ⟨h, by simp, ?_⟩
        rw [(hAB m hm h (by simp)).2, hh]
        simp
      rw [hf] at hand
      cases hand.1
  have hC : ∀ m ∈ C, ¬ inWindow num (A ++ B ++ C) n m = true := by
    intro m hm
    rcases F6 with rfl | ⟨d, l, hdl, hle⟩
    · cases hm
    · have hl : l ∈ A ++ B := by rw [hdl]; simp
      unfold inWindow
      rw [Bool.and_eq_true]
      intro hand
      have hf : ((A ++ B ++ C).all
          (fun x => !num.lt x.off m.off || !num.le (num.ofInt n) x.off)) = false := by
        rw [List.all_eq_false]
        refine ⟨l, List.mem_append_left _ hl, ?_⟩
        rw [(hABC l hl m hm).2, hle]
        simp
      rw [hf] at hand
      cases hand.2
  unfold window
  rw [List.filter_append, List.filter_append, List.filter_eq_nil_iff.mpr hA,
    List.filter_eq_nil_iff.mpr hC, List.filter_eq_self.mpr hB]
  simp

/-- **Trimming keeps exactly the Spec's window** (strictly increasing grid, non-empty track). -/
theorem trim_eq_window (L : OrdLaws num) {g : List (Marker α)} {n : Int}
    (hs : SortedBy num g) (hn : num.lt (num.ofInt 0) (num.ofInt n) = true) :
    trim num g n = window num g n := by
  unfold trim
  -- first `find_if`/`erase`: g = te ++ C
  obtain ⟨C, hg, F4, F6⟩ : ∃ C, g = trimEnd num g n ++ C ∧
      (∀ d z, trimEnd num g n = d ++ [z] → ∀ x ∈ d, num.le (num.ofInt n) x.off = false) ∧
      (C = [] ∨ ∃ d l, trimEnd num g n = d ++ [l] ∧ num.le (num.ofInt n) l.off = true) := by
    rcases trimEnd_cases (num := num) g n with ⟨he, hall⟩ | ⟨i, h, he, hle, hbefore, hsplit⟩
    · refine ⟨[], by rw [he]; simp, ?_, Or.inl rfl⟩
      intro d z hdz x hx
      exact hall x (by rw [he] at hdz; rw [hdz]; exact List.mem_append_left _ hx)
    · refine ⟨g.drop (i + 1), by rw [he]; exact hsplit, ?_, Or.inr ⟨_, _, he, hle⟩⟩
      intro d z hdz x hx
      rw [he] at hdz
      have := List.append_inj_left' hdz (by simp)
      rw [← this] at hx
      exact hbefore x hx
  generalize trimEnd num g n = te at hg F4 F6
  subst hg
  have hste : SortedBy num te := (List.pairwise_append.mp hs).1
  -- second `find_if`/`erase`: te = A ++ B
  rcases trimStart_cases (num := num) te with ⟨hB, hhead⟩ | ⟨A, h, t, hte, hB, hh, ht⟩
  · rw [hB]
    have := window_of_facts (num := num) L (A := []) (B := te) (C := C) (n := n)
      (by simpa using hs) hn ?_ (Or.inl rfl) (by simpa using F4) (by simpa using F6)
    · simpa using this.symm
    · rcases hhead with rfl | ⟨y, t, rfl, hy⟩
      · intro x hx; cases hx
      · intro x hx
        exact all_pos_of_head L hste hy x (List.mem_cons_of_mem _ hx)
  · rw [hB]
    subst hte
    have := window_of_facts (num := num) L (A := A) (B := h :: t) (C := C) (n := n)
      hs hn ?_ (Or.inr ⟨h, t, rfl, hh⟩) F4 F6
    · exact this.symm
    · rcases ht with rfl | ⟨y, t', rfl, hy⟩
      · intro x hx; cases hx
      · have hsyt : SortedBy num (y :: t') := by
          have := (List.pairwise_append.mp hste).2.1
          exact (List.pairwise_cons.mp this).2
        exact fun x hx => all_pos_of_head L hsyt hy x hx

end

end EngineModel.Pure.Beatgrid
