/-
C11 (2.x crate tables): the executable predicates of Db/V2Wf.lean (`wfChains`,
`wfRaw` — the same functions the driver evaluates on the rows dumped from the real
database) are `true` on every state satisfying the proof-level invariants.
-/
import Proofs.V2Members

set_option linter.dupNamespace false
set_option linter.unusedSimpArgs false

namespace EngineModel.Db.V2

open EngineModel.Db.Chain EngineModel.Spec EngineModel.ListAux

theorem eraseDups_of_nodup {l : List Int} (h : l.Nodup) : l.eraseDups = l := by
  induction l with
  | nil => rfl
  | cons a l ih =>
    have hn := List.nodup_cons.mp h
    rw [List.eraseDups_cons]
    have : l.filter (fun b => !b == a) = l := by
      apply List.filter_eq_self.mpr
      intro b hb
      have : b ≠ a := fun e => hn.1 (e ▸ hb)
      simp [this]
    rw [this, ih hn.2]

theorem nodupB_of_nodup {l : List Int} (h : l.Nodup) : nodupB l = true := by
  simp [nodupB, eraseDups_of_nodup h]

theorem idsOk_of {α : Type} {t : Table α} {seq : Int} (hn : (ids t).Nodup) (hpos : ∀ r ∈ t, 0 < r.id)
    (hseq : ∀ i ∈ ids t, i ≤ seq) (hs0 : 0 ≤ seq) : idsOk t seq = true := by
  unfold idsOk
  rw [nodupB_of_nodup hn, Bool.true_and, Bool.and_eq_true, decide_eq_true_eq]
  refine ⟨?_, hs0⟩
  rw [List.all_eq_true]
  intro i hi
  have h1 := hseq i hi
  simp only [ids, List.mem_map] at hi
  obtain ⟨r, hr, rfl⟩ := hi
  have h2 := hpos r hr
  simp [h1, h2]

/-- Under `R`, the list of a key is as long as the number of its rows. -/
theorem R_length_eq {α : Type} {A : Int → List Int} {t : Table α} (h : R A t) (k : Int) :
    (A k).length = (rowsOf t k).length := by
  apply Nat.le_antisymm
  · have h1 : (A k).length ≤ ((rowsOf t k).map (·.id)).length := by
      apply length_le_of_nodup_subset (h.nodup k)
      intro x hx
      obtain ⟨r, hr, e1, e2⟩ := h.cover k x hx
      exact List.mem_map.mpr ⟨r, mem_rowsOf.mpr ⟨hr, e2⟩, e1⟩
    simpa using h1
  · have hnd : ((rowsOf t k).map (·.id)).Nodup := by
      have : (ids (rowsOf t k)).Nodup := nodup_ids_filter _ h.ids_nodup
      exact this
    have h1 : ((rowsOf t k).map (·.id)).length ≤ (A k).length := by
      apply length_le_of_nodup_subset hnd
      intro x hx
      obtain ⟨r, hr, rfl⟩ := List.mem_map.mp hx
      obtain ⟨hrt, hrk⟩ := mem_rowsOf.mp hr
      exact hrk ▸ h.mem r hrt
    simpa using h1

theorem chainsOk_of_R {α : Type} {A : Int → List Int} {t : Table α} (h : R A t) : chainsOk t = true := by
  unfold chainsOk
  rw [List.all_eq_true]
  intro k _
  rw [walkIds_eq h k]
  simp only [Bool.and_eq_true, beq_iff_eq]
  exact ⟨R_length_eq h k, nodupB_of_nodup (h.nodup k)⟩

/-- The chain part of C11 / the invariant behind C09, on the executable predicate. -/
theorem wfChains_of_chInv {S : Ord} {d : Db} (hI : ChInv S d) : wfChains d = true := by
  unfold wfChains chainChecks
  simp only [List.all_cons, List.all_nil, Bool.and_true, Bool.and_eq_true]
  exact ⟨idsOk_of hI.rk.ids_nodup hI.rk.id_pos hI.plSeq hI.plSeq0, chainsOk_of_R hI.rk,
    idsOk_of hI.re.ids_nodup hI.re.id_pos hI.peSeq hI.peSeq0, chainsOk_of_R hI.re⟩

/-! ### the parent relation reaches a root within `length` steps -/

theorem reachesRoot_of_rank {t : Table Bytes} (hn : (ids t).Nodup) (depth : Int → Nat)
    (hd : ∀ r ∈ t, r.key ≠ 0 → depth r.key < depth r.id) (hlive : ∀ r ∈ t, r.key ≠ 0 → r.key ∈ ids t) :
    ∀ (n : Nat) (x : Int), x ∈ ids t → ((ids t).filter (fun y => decide (depth y < depth x))).length < n →
      reachesRoot t n x = true := by
  intro n
  induction n with
  | zero => intro x _ h; omega
  | succ n ih =>
    intro x hx hcount
    simp only [ids, List.mem_map] at hx
    obtain ⟨r, hr, rfl⟩ := hx
    simp only [reachesRoot, get_of_mem hn hr]
    by_cases h0 : r.key = 0
    · simp [h0]
    · have hlt := hd r hr h0
      have hpl := hlive r hr h0
      have hsub : ((ids t).filter (fun y => decide (depth y < depth r.key))).length
          < ((ids t).filter (fun y => decide (depth y < depth r.id))).length := by
        have e : (ids t).filter (fun y => decide (depth y < depth r.key))
            = ((ids t).filter (fun y => decide (depth y < depth r.id))).filter (fun y => decide (depth y < depth r.key)) := by
          rw [List.filter_filter]
          apply List.filter_congr
          intro y _
          by_cases hy : depth y < depth r.key
          · have : depth y < depth r.id := by omega
            simp [hy, this]
          · simp [hy]
        rw [e]
        apply List.length_filter_lt_length_iff_exists.mpr
        refine ⟨r.key, List.mem_filter.mpr ⟨hpl, by simpa using hlt⟩, by simp⟩
      have := ih r.key hpl (by omega)
      simp [this]

theorem forestOk_of_plInv {d : Db} (hI : PlInv d) : forestOk d.pl = true := by
  have hn : (ids d.pl).Nodup := by rw [← absF_ids]; exact hI.wf.ids_nodup
  obtain ⟨depth, hd⟩ := hI.wf.ranked
  have hd' : ∀ r ∈ d.pl, r.key ≠ 0 → depth r.key < depth r.id := by
    intro r hr h0
    exact hd (rowCrate r) (mem_crates_of_row hr) r.key (by simp [rowCrate, parentOpt_of_ne h0])
  have hlive : ∀ r ∈ d.pl, r.key ≠ 0 → r.key ∈ ids d.pl := by
    intro r hr h0
    rw [← absF_ids]
    exact hI.wf.parent_live (rowCrate r) (mem_crates_of_row hr) r.key (by simp [rowCrate, parentOpt_of_ne h0])
  unfold forestOk
  rw [List.all_eq_true]
  intro r hr
  have hmem : r.id ∈ ids d.pl := by simp only [ids, List.mem_map]; exact ⟨r, hr, rfl⟩
  apply reachesRoot_of_rank hn depth hd' hlive d.pl.length r.id hmem
  have h1 : ((ids d.pl).filter (fun y => decide (depth y < depth r.id))).length < (ids d.pl).length := by
    apply List.length_filter_lt_length_iff_exists.mpr
    exact ⟨r.id, hmem, by simp⟩
  simpa [ids] using h1

theorem namesOk_of_plInv {d : Db} (hI : PlInv d) : namesOk d.pl = true := by
  unfold namesOk
  rw [Bool.and_eq_true, List.all_eq_true, List.all_eq_true]
  refine ⟨fun r hr => hI.wf.names_valid (rowCrate r) (mem_crates_of_row hr), ?_⟩
  intro r hr
  rw [Bool.not_eq_true', List.any_eq_false]
  intro r' hr' hb
  simp only [Bool.and_eq_true, bne_iff_ne, ne_eq, beq_iff_eq] at hb
  obtain ⟨⟨hne, hkey⟩, hval⟩ := hb
  have := hI.wf.names_unique (rowCrate r') (mem_crates_of_row hr') (rowCrate r) (mem_crates_of_row hr)
    (by simp [rowCrate, hkey]) (by simp [rowCrate, hval])
  exact hne (by simpa [rowCrate] using congrArg Forest.Crate.id this)

theorem entitiesOk_of_memInv {d : Db} (hM : MemInv d) (hp : PairsOk (cores d.pe)) (ho : AllOwn d) : entitiesOk d = true := by
  unfold entitiesOk
  rw [Bool.and_eq_true, List.all_eq_true, List.all_eq_true]
  constructor
  · intro e he
    have hc : core e ∈ cores d.pe := mem_cores.mpr ⟨e, he, rfl⟩
    have h4 := ho _ hc
    obtain ⟨h1, h2⟩ := hM.live _ hc h4
    simp only [core] at h1 h2 h4
    have h3 := (hM.tracks_seq _ h2).1
    simp [plExists_iff.mpr h1, h2, h3]
  · intro e he
    rw [Bool.not_eq_true', List.any_eq_false]
    intro e' he' hb
    simp only [Bool.and_eq_true, bne_iff_ne, ne_eq, beq_iff_eq] at hb
    obtain ⟨⟨hne, hkey⟩, hval⟩ := hb
    have := hp.pair_unique (core e') (mem_cores.mpr ⟨e', he', rfl⟩) (core e) (mem_cores.mpr ⟨e, he, rfl⟩)
      (by simp [core, hkey]) (by simp [core, hval])
    exact hne (congrArg (·.1) this)

theorem tracksOk_of_memInv {d : Db} (hM : MemInv d) : tracksOk d = true := by
  unfold tracksOk
  rw [nodupB_of_nodup hM.tracks_nodup, Bool.true_and, Bool.and_eq_true, decide_eq_true_eq]
  refine ⟨?_, hM.trSeq0⟩
  rw [List.all_eq_true]
  intro t ht
  have := hM.tracks_seq t ht
  simp [this.1, this.2]

/-- C11 (2.x crate tables): every state satisfying the invariants is well-formed as judged by the executable `wfRaw`. -/
theorem wfRaw_of_inv {S : Ord} {d : Db} (hI : Inv S d) (ho : AllOwn d) : wfRaw d = true := by
  have hch := wfChains_of_chInv hI.ch
  unfold wfChains at hch
  unfold wfRaw checks
  rw [List.all_append, hch, Bool.true_and]
  simp only [List.all_cons, List.all_nil, Bool.and_true, Bool.and_eq_true]
  exact ⟨forestOk_of_plInv hI.pl, namesOk_of_plInv hI.pl, entitiesOk_of_memInv hI.mem hI.ch.pairs ho, tracksOk_of_memInv hI.mem⟩

end EngineModel.Db.V2
