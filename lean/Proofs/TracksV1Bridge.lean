/-
C01 1.x: the value-level blob columns of the track model (`normTrack`, `normBeat`, `normCues`,
`normLoops`, `normHires`, `normOvw` in EngineModel/TracksV1/Model.lean) ARE the byte-level codecs of
Impl/V1.lean composed: `decode (encode v)`.  Rests on the locked read-back theorems of C03
(`C03_v1_*_readback` / `_reject` / `_roundtrip`); the definitions of the encoders and decoders are not
unfolded here.  `Representable` side conditions (blob sizes below `maxCount = 2^63` bytes) hold of every C++ value.
-/
import Properties.C03
import Proofs.TracksV1HistDb

namespace EngineModel.TracksV1

open Impl.V1 (GMarker HotCue LoopV Entry Wave Beat Cues Loops)
open EngineModel.Properties.C03
open EngineModel.V1Proofs (normOptF normOptI64 normOptI32 opaq)

set_option linter.unusedSimpArgs false
set_option linter.unusedVariables false

/-- `decode (encode v)` through the byte level. -/
def viaBytes {α} (enc : α → Res Bytes) (dec : Bytes → Res α) (v : α) : Res α := (enc v).bind dec

/-- Same outcome up to the class of the exception (the locked C03 `_reject` theorems for cues and loops
conclude only "throws"; the tie compares the classes). -/
def Res.agree {α} : Res α → Res α → Prop
  | .ok a, .ok b => a = b
  | .throw _, .throw _ => True
  | _, _ => False

theorem Res.agree_ok {α} {r : Res α} {a : α} (h : Res.agree r (.ok a)) : r = .ok a := by
  cases r with
  | ok b => simp only [Res.agree] at h; rw [h]
  | throw e => exact absurd h (by simp [Res.agree])
  | ub u => exact absurd h (by simp [Res.agree])

theorem viaBytes_ok {α} (enc : α → Res Bytes) (dec : Bytes → Res α) (v w : α)
    (h : ∃ b, enc v = .ok b ∧ dec b = .ok w) : viaBytes enc dec v = .ok w := by
  obtain ⟨b, h1, h2⟩ := h
  unfold viaBytes; rw [h1]; exact h2

theorem viaBytes_throw {α} (enc : α → Res Bytes) (dec : Bytes → Res α) (v : α) (e : Exn) (h : enc v = .throw e) :
    viaBytes enc dec v = .throw e := by
  unfold viaBytes; rw [h]; rfl

/-! ### the read-back functions of C03 are the `norm…` functions of the track model -/

theorem normOptF_eq (x : Option Bits) : normOptF x = zeroNoneF x := by
  cases x <;> rfl

theorem normTrack_eq (v : Impl.V1.Track) : EngineModel.V1Proofs.normTrack v = normTrack v := by
  obtain ⟨sr, sc, ld, k⟩ := v
  unfold EngineModel.V1Proofs.normTrack normTrack
  simp only [normOptF_eq]
  congr 1
  · cases sc <;> rfl
  · cases k <;> rfl

theorem normCue_eq (q : Option HotCue) : EngineModel.V1Proofs.normCue q = Spec.normCue q := by
  cases q with
  | none => rfl
  | some c =>
    unfold EngineModel.V1Proofs.normCue Spec.normCue
    simp only
    by_cases h : c.off = F64.negOne
    · have : F64.ne c.off F64.negOne = false := by
        cases hh : F64.ne c.off F64.negOne with
        | false => rfl
        | true => exact absurd h ((ne_negOne_iff _).mp hh)
      rw [this]; simp [h]
    · simp [h, (ne_negOne_iff _).mpr h]

theorem normLoop_eq (q : Option LoopV) : EngineModel.V1Proofs.normLoop q = Spec.normLoop q := by
  cases q with
  | none => rfl
  | some c =>
    unfold EngineModel.V1Proofs.normLoop Spec.normLoop
    simp only
    by_cases h : c.start = F64.negOne
    · have : F64.ne c.start F64.negOne = false := by
        cases hh : F64.ne c.start F64.negOne with
        | false => rfl
        | true => exact absurd h ((ne_negOne_iff _).mp hh)
      rw [this]; simp [h]
    · simp [h, (ne_negOne_iff _).mpr h]

theorem cueSlotOk_eq (q : Option HotCue) : V1.cueSlotOk q = Spec.cueOk q := by cases q <;> rfl
theorem loopSlotOk_eq (q : Option LoopV) : V1.loopSlotOk q = Spec.loopOk q := by cases q <;> rfl

theorem opaq_eq (e : Entry) : opaq e = opaque255 e := by cases e; rfl

/-! ### the six bridges -/

theorem bridge_track (v : Impl.V1.Track) :
    viaBytes Impl.V1.encodeTrack Impl.V1.decodeTrack v = .ok (normTrack v) := by
  obtain ⟨b, h1, h2⟩ := C03_v1_track_readback v
  rw [normTrack_eq] at h2
  exact viaBytes_ok _ _ _ _ ⟨b, h1, h2⟩

theorem bridge_beat (v : Beat) : viaBytes Impl.V1.encodeBeat Impl.V1.decodeBeat v = normBeat v := by
  unfold normBeat
  by_cases h : encodableBeat1 v
  · obtain ⟨b, h1, h2⟩ := C03_v1_beat_readback v h
    have hv : Impl.V1.validGrid v.dflt = true ∧ Impl.V1.validGrid v.adj = true := by
      rw [EngineModel.V1Proofs.validGrid_eq, EngineModel.V1Proofs.validGrid_eq]; exact h
    simp only [hv.1, hv.2, Bool.not_true, Bool.or_self, Bool.false_eq_true, if_false]
    rw [normOptF_eq, normOptF_eq] at h2
    exact viaBytes_ok _ _ _ _ ⟨b, h1, h2⟩
  · have hr := C03_v1_beat_reject v h
    have hv : (!Impl.V1.validGrid v.dflt || !Impl.V1.validGrid v.adj) = true := by
      rw [EngineModel.V1Proofs.validGrid_eq, EngineModel.V1Proofs.validGrid_eq]
      unfold encodableBeat1 at h
      cases h1 : V1.gridOk v.dflt <;> cases h2 : V1.gridOk v.adj <;> simp_all
    rw [if_pos hv]
    exact viaBytes_throw _ _ _ _ hr

theorem normCues_ok_iff (v w : Cues) :
    normCues v = .ok w ↔ (v.cues.length = 8 ∧ v.cues.all Spec.cueOk = true ∧
      w = ⟨v.cues.map Spec.normCue, v.adjMain, v.defMain⟩) := by
  constructor
  · intro h
    unfold normCues at h
    split at h
    · cases h
    · rename_i h8
      cases hm : mapRes normCueSlot v.cues with
      | throw e => rw [hm] at h; cases h
      | ub u => rw [hm] at h; cases h
      | ok cs =>
        rw [hm] at h
        simp only at h
        split at h
        · cases h
        · rename_i h7
          cases h
          obtain ⟨hall, hcs⟩ := mapRes_ok_spec normCueSlot Spec.normCue Spec.cueOk normCueSlot_cases _ _ hm
          exact ⟨by omega, hall, by rw [hcs]⟩
  · intro ⟨h8, hall, hw⟩
    subst hw
    unfold normCues
    have a : ¬ 8 < v.cues.length := by omega
    have b : ¬ v.cues.length < 8 := by omega
    rw [if_neg a]
    have hm : mapRes normCueSlot v.cues = .ok (v.cues.map Spec.normCue) :=
      mapRes_ok_map _ _ _ (fun q hq => normCueSlot_of_ok q (List.all_eq_true.mp hall q hq))
    rw [hm]
    simp only [if_neg b]

theorem normLoops_ok_iff (v w : Loops) :
    normLoops v = .ok w ↔ (List.all v Spec.loopOk = true ∧ w = List.map Spec.normLoop v) := by
  unfold normLoops
  constructor
  · intro h
    exact mapRes_ok_spec normLoopSlot Spec.normLoop Spec.loopOk normLoopSlot_cases _ _ h
  · intro ⟨hall, hw⟩
    subst hw
    exact mapRes_ok_map _ _ _ (fun q hq => normLoopSlot_of_ok q (List.all_eq_true.mp hall q hq))

theorem encodableCues1_iff (v : Cues) : encodableCues1 v ↔ (v.cues.length = 8 ∧ v.cues.all Spec.cueOk = true) := by
  unfold encodableCues1
  have : v.cues.all V1.cueSlotOk = v.cues.all Spec.cueOk := by
    congr 1
  rw [this]

theorem encodableLoops1_iff (v : Loops) : encodableLoops1 v ↔ List.all v Spec.loopOk = true := by
  unfold encodableLoops1
  have : List.all v V1.loopSlotOk = List.all v Spec.loopOk := by
    congr 1
  rw [this]

theorem bridge_cues (v : Cues) :
    Res.agree (viaBytes Impl.V1.encodeCues Impl.V1.decodeCues v) (normCues v) := by
  by_cases h : encodableCues1 v
  · obtain ⟨b, h1, h2⟩ := C03_v1_cues_readback v h
    obtain ⟨h8, hall⟩ := (encodableCues1_iff v).mp h
    have hmap : v.cues.map EngineModel.V1Proofs.normCue = v.cues.map Spec.normCue := by
      apply List.map_congr_left; intro q _; exact normCue_eq q
    rw [hmap] at h2
    rw [viaBytes_ok _ _ _ _ ⟨b, h1, h2⟩, (normCues_ok_iff v _).mpr ⟨h8, hall, rfl⟩]
    simp only [Res.agree]
  · obtain ⟨e, he⟩ := C03_v1_cues_reject v h
    rw [viaBytes_throw _ _ _ _ he]
    cases hn : normCues v with
    | ok w =>
      obtain ⟨h8, hall, _⟩ := (normCues_ok_iff v w).mp hn
      exact absurd ((encodableCues1_iff v).mpr ⟨h8, hall⟩) h
    | throw e' => exact trivial
    | ub u => exact absurd hn (normCues_defined v u)

theorem bridge_loops (v : Loops) (hrep : v.length < Codec.maxCount) :
    Res.agree (viaBytes Impl.V1.encodeLoops Impl.V1.decodeLoops v) (normLoops v) := by
  by_cases h : encodableLoops1 v
  · obtain ⟨b, h1, h2⟩ := C03_v1_loops_readback v hrep h
    have hall := (encodableLoops1_iff v).mp h
    have hmap : List.map EngineModel.V1Proofs.normLoop v = List.map Spec.normLoop v := by
      apply List.map_congr_left; intro q _; exact normLoop_eq q
    rw [hmap] at h2
    rw [viaBytes_ok _ _ _ _ ⟨b, h1, h2⟩, (normLoops_ok_iff v _).mpr ⟨hall, rfl⟩]
    simp only [Res.agree]
  · obtain ⟨e, he⟩ := C03_v1_loops_reject v h
    rw [viaBytes_throw _ _ _ _ he]
    cases hn : normLoops v with
    | ok w =>
      obtain ⟨hall, _⟩ := (normLoops_ok_iff v w).mp hn
      exact absurd ((encodableLoops1_iff v).mpr hall) h
    | throw e' => exact trivial
    | ub u => exact absurd hn (normLoops_defined v u)

theorem bridge_hires (w : Wave) (hrep : 30 + 6 * w.entries.length < Codec.maxCount) :
    viaBytes Impl.V1.encodeHires Impl.V1.decodeHires w = .ok (normHires w) :=
  viaBytes_ok _ _ _ _ (C03_v1_hires_roundtrip w hrep)

theorem bridge_ovw (w : Wave) (hrep : 27 + 3 * w.entries.length < Codec.maxCount) :
    viaBytes Impl.V1.encodeOvw Impl.V1.decodeOvw w = .ok (normOvw w) := by
  obtain ⟨b, h1, h2⟩ := C03_v1_ovw_readback w hrep
  have : w.entries.map opaq = w.entries.map opaque255 := by
    apply List.map_congr_left; intro e _; exact opaq_eq e
  rw [this] at h2
  exact viaBytes_ok _ _ _ _ ⟨b, h1, h2⟩

end EngineModel.TracksV1
