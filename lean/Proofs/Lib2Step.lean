/-
Composite 2.x library: every observer call leaves the whole state as it was (C16 on the composite — proved by
cases over the composite `step`, whose type does not distinguish observers from mutators), and `LibInv` is
preserved by every call and along every history, failed calls included.
-/
import Proofs.Lib2Inv

namespace EngineModel.Lib.V2
open EngineModel EngineModel.Db.Chain EngineModel.TracksV2
open EngineModel.Table (Schema2)

theorem selectRow_fst (t : Nat) (db : TDb) : (selectRow t db).1 = db := by
  unfold selectRow; split <;> rfl

theorem trackQuery_fst {α} (t : Nat) (q : Row → Res α) (f : α → Out) (L : Lib2) : (trackQuery t q f L).1 = L := by
  unfold trackQuery
  simp only [bind, M2.bind, M2.track]
  have h := selectRow_fst t L.tdb
  rcases hs : selectRow t L.tdb with ⟨d, r⟩
  rw [hs] at h
  simp only [] at h
  subst h
  cases r with
  | ok a =>
    simp only []
    cases q a <;> rfl
  | throw e => rfl
  | ub u => rfl

/-- **Observers do not modify** — any table of the library, for every observer of `database`, `crate`, `track`. -/
theorem observer_unchanged (ops : FOps) (s : Schema2) (L : Lib2) (c : Call) (h : c.isObserver = true) :
    (step ops s L c).1 = L := by
  cases c <;> simp only [Call.isObserver] at h <;> try (cases h)
  all_goals first
    | rfl
    | exact trackQuery_fst _ _ _ L
    | (simp only [step]; split <;> rfl)

theorem foreign_step (ops : FOps) (s : Schema2) (L : Lib2) (c t u : Int) :
    (step ops s L (.foreignEntry c t u)).1 = L ∨
    (step ops s L (.foreignEntry c t u)).1 = (crateCall (.peAddBack c t u false) L).1 := by
  simp only [step]
  split
  · right; rw [m2_bind_pure_fst]
  · left; rfl

/-- **`LibCore` is inductive over the public alphabet AND foreign entries**, whatever the call answers. -/
theorem libCore_step (ops : FOps) (s : Schema2) {L : Lib2} (h : LibCore s L) (c : Call) (ha : c.admissible = true) :
    LibCore s (step ops s L c).1 := by
  cases ho : c.isObserver
  case true => rw [observer_unchanged ops s L c ho]; exact h
  case false =>
    cases c <;> first | (exfalso; exact Bool.noConfusion ho) | skip
    case foreignEntry c t u =>
      rcases foreign_step ops s L c t u with e | e <;> rw [e]
      · exact h
      · exact libCore_crateCall h _ (by simpa [crateMem, Call.admissible] using ha)
    case plantPrepare t =>
      simp only [step]
      split
      · rename_i hl
        exact { h with
          prep := by
            intro r hr t' ht'
            rcases List.mem_append.mp hr with hr | hr
            · exact h.prep r hr t' ht'
            · simp only [List.mem_singleton] at hr; subst hr
              simp only [Option.some.injEq] at ht'; subst ht'
              exact (find_isSome_iff L.tdb _).mp hl }
      · exact h
    all_goals (simp only [step]; rw [m2_bind_pure_fst])
    case createTrack x => exact libCore_trackCall h ops (.create x) (fun id e => by cases e)
    case removeTrack t => exact libCore_removeTrack h t
    case trackUpdate t x => exact libCore_trackCall h ops (.update t x) (fun id e => by cases e)
    case trackSet t σ => exact libCore_trackCall h ops (.set t σ) (fun id e => by cases e)
    all_goals exact libCore_crateCall h _ rfl

/-- **`LibInv` is inductive over the whole public alphabet**, whatever the call answers. -/
theorem libInv_step (ops : FOps) (s : Schema2) {L : Lib2} (h : LibInv s L) (c : Call) (ha : c.isApi = true) :
    LibInv s (step ops s L c).1 := by
  cases ho : c.isObserver
  case true => rw [observer_unchanged ops s L c ho]; exact h
  case false =>
    cases c <;> first | (exfalso; exact Bool.noConfusion ho) | (exfalso; exact Bool.noConfusion ha) | skip
    all_goals (simp only [step]; rw [m2_bind_pure_fst])
    case createTrack x => exact libInv_trackCall h ops (.create x) (fun id e => by cases e)
    case removeTrack t => exact libInv_removeTrack h t
    case trackUpdate t x => exact libInv_trackCall h ops (.update t x) (fun id e => by cases e)
    case trackSet t σ => exact libInv_trackCall h ops (.set t σ) (fun id e => by cases e)
    all_goals exact libInv_crateCall h _ rfl

theorem libCore_run (ops : FOps) (s : Schema2) {L : Lib2} (h : LibCore s L) (hist : List Call)
    (ha : hist.all Call.admissible = true) : LibCore s (run ops s L hist) := by
  induction hist generalizing L with
  | nil => exact h
  | cons c cs ih =>
    simp only [List.all_cons, Bool.and_eq_true] at ha
    exact ih (libCore_step ops s h c ha.1) ha.2

theorem libInv_run (ops : FOps) (s : Schema2) {L : Lib2} (h : LibInv s L) (hist : List Call)
    (ha : hist.all Call.isApi = true) : LibInv s (run ops s L hist) := by
  induction hist generalizing L with
  | nil => exact h
  | cons c cs ih =>
    simp only [List.all_cons, Bool.and_eq_true] at ha
    exact ih (libInv_step ops s h c ha.1) ha.2

end EngineModel.Lib.V2

namespace EngineModel.Lib.V2
open EngineModel EngineModel.Db.Chain EngineModel.TracksV2
open EngineModel.Table (Schema2)

theorem withCrates_self (L : Lib2) : L.withCrates L.crates = L := rfl

theorem crateCall_failed (L : Lib2) (op : COp) (h : ∀ v, (crateCall op L).2 ≠ .ok v) : (crateCall op L).1 = L := by
  unfold crateCall at h ⊢
  rcases cstep_cases L.crates op with e | ⟨v, e⟩
  · simp only [e]; rfl
  · exact absurd e (h v)

theorem trackCall_failed {s : Schema2} {L : Lib2} (hI : LibCore s L) (ops : FOps) (op : TOp)
    (h : ∀ v, (trackCall ops s op L).2 ≠ .ok v) : (trackCall ops s op L).1 = L := by
  unfold trackCall at h ⊢
  simp only [] at h ⊢
  have hs := tstep ops (toT s) hI.tr op
  revert hs h
  generalize (L.tdb.step ops (toT s) op).1 = tdb'
  generalize (L.tdb.step ops (toT s) op).2 = res
  intro h hs
  cases res with
  | ok v => exact absurd rfl (h v)
  | throw e =>
    cases hs with
    | failed _ _ _ => rfl
  | ub u =>
    cases hs with
    | failed _ _ _ => rfl

theorem removeTrack_failed (s : Schema2) (t : Nat) (L : Lib2) (h : ∀ v, (removeTrack s t L).2 ≠ .ok v) :
    (removeTrack s t L).1 = L := by
  rw [removeTrack_eq] at h ⊢
  split
  · rfl
  · rename_i hz; simp only [hz, if_false] at h; exact absurd rfl (h ())

theorem bind_pure_notOk {α β} (m : M2 α) (f : α → β) (L : Lib2)
    (h : ∀ v, ((m >>= fun a => (pure (f a) : M2 β)) L).2 ≠ .ok v) : ∀ v, (m L).2 ≠ .ok v := by
  intro v hv
  apply h (f v)
  rw [m2_bind_pure_snd, hv]; rfl

/-- **A call that does not return normally leaves EVERY table of the library as it was** (statement-level
failure semantics of the package models + the transaction scope of `remove_track`). -/
theorem failed_unchanged (ops : FOps) (s : Schema2) {L : Lib2} (hI : LibCore s L) (c : Call)
    (h : ∀ v, (step ops s L c).2 ≠ .ok v) : (step ops s L c).1 = L := by
  cases ho : c.isObserver
  case true => exact observer_unchanged ops s L c ho
  case false =>
    cases c <;> first | (exfalso; exact Bool.noConfusion ho) | skip
    case foreignEntry c t u =>
      simp only [step] at h ⊢
      split
      · rename_i hv
        simp only [hv, if_true] at h
        rw [m2_bind_pure_fst]
        exact crateCall_failed L _ (bind_pure_notOk _ _ L h)
      · rfl
    case plantPrepare t =>
      simp only [step] at h ⊢
      split
      · rename_i hv; simp only [hv, if_true] at h; exact absurd rfl (h _)
      · rfl
    all_goals (simp only [step] at h ⊢; rw [m2_bind_pure_fst]; have h' := bind_pure_notOk _ _ L h)
    case createTrack x => exact trackCall_failed hI ops _ h'
    case removeTrack t => exact removeTrack_failed s t L h'
    case trackUpdate t x => exact trackCall_failed hI ops _ h'
    case trackSet t σ => exact trackCall_failed hI ops _ h'
    all_goals exact crateCall_failed L _ h'

end EngineModel.Lib.V2
