/-
Target paths of a sub-tree rewrite (`tgtPath`), the loop over the children, and
the generic argument that after rewriting the sub-tree of `c` to the target
paths every row again carries "path of the parent ++ own name ++ ';'".
-/
import Proofs.CratesV1Path

namespace EngineModel.Api.CratesV1
open EngineModel.Pure.Detect EngineModel.Spec

def rowTitle (db : Db) (y : Id) : Option Name := (db.crate.find? (·.id == y)).map (·.title)

/-- Names from `top` (whose full path is `base`) down to `y`. -/
def tgtPath (db0 : Db) (top : Id) (base : Name) (y : Id) : Name :=
  walkPath (rowTitle db0) (parentOf db0) (some top) base db0.crate.length y

variable {db0 : Db}

theorem rowTitle_of_mem (h : (ids db0).Nodup) {r : CrateRow} (hr : r ∈ db0.crate) : rowTitle db0 r.id = some r.title := by
  unfold rowTitle; rw [find_of_mem h hr]; rfl

theorem crate_length_pos {c : Id} (hc : c ∈ ids db0) : 0 < db0.crate.length := by
  obtain ⟨r, hr, _⟩ := exists_row hc
  exact List.length_pos_of_mem hr

theorem tgtPath_top {top : Id} (base : Name) (hc : top ∈ ids db0) : tgtPath db0 top base top = base := by
  unfold tgtPath
  obtain ⟨n, hn⟩ : ∃ n, db0.crate.length = n + 1 := ⟨db0.crate.length - 1, by have := crate_length_pos hc; omega⟩
  rw [hn]
  unfold walkPath
  simp

theorem tgtPath_step (h : FInv db0) (top : Id) (base : Name) {k x : Id} (hk : Par db0 k x) (hkt : k ≠ top)
    {rk : CrateRow} (hrk : rk ∈ db0.crate) (hid : rk.id = k) :
    tgtPath db0 top base k = tgtPath db0 top base x ++ rk.title ++ [semicolon] := by
  unfold tgtPath
  have hkl := (h.par_live hk).1
  have hxl := (h.par_live hk).2
  have hdk := h.depth_lt hkl
  have hdp := h.depth_par hk
  obtain ⟨n, hn⟩ : ∃ n, db0.crate.length = n + 1 := ⟨db0.crate.length - 1, by omega⟩
  have hmeasure : ∀ y p, parentOf db0 y = some p → depth db0 p < depth db0 y := by
    intro y p hp
    have := h.depth_par ((parentOf_eq_some h).mp hp)
    omega
  rw [hn]
  conv => lhs; unfold walkPath
  have hne : ¬ (some k = some top) := fun e => hkt (Option.some.inj e)
  rw [if_neg hne, ← hid, rowTitle_of_mem h.idsNodup hrk, hid, (parentOf_eq_some h).mpr hk]
  simp only
  rw [walkPath_fuel (depth db0) hmeasure n (n + 1) x (by omega) (by omega)]

/-- Is `y` a strict descendant of `c`? -/
theorem strict_sub_ne_top (h : FInv db0) {top x k : Id} (hsub : Sub db0 top x) (hk : Par db0 k x) : k ≠ top := by
  rintro rfl
  rcases hsub with rfl | hm
  · exact hk.2 rfl
  · exact h.chIrrefl k (h.ch_trans k k x hm (h.ch_of_par hk))

theorem tgtPath_hstep (h : FInv db0) (top : Id) (base : Name) :
    ∀ x k, Sub db0 top x → Par db0 k x → ∀ rk ∈ db0.crate, rk.id = k →
      tgtPath db0 top base k = tgtPath db0 top base x ++ rk.title ++ [semicolon] := by
  intro x k hsub hk rk hrk hid
  exact tgtPath_step h top base hk (strict_sub_ne_top h hsub hk) hrk hid

/-- The loop `for (crate cr : children()) update_path(db, cr, path)` of set_name. -/
theorem updatePath_kids_eq (s : Schema) (h : FInv db0) (top : Id) (tgt : Id → Name)
    (hstep : ∀ x k, Sub db0 top x → Par db0 k x → ∀ rk ∈ db0.crate, rk.id = k →
      tgt k = tgt x ++ rk.title ++ [semicolon])
    {x : Id} (hsub : Sub db0 top x) {fuel : Nat} (hfuel : db0.cpl.length ≤ fuel + depth db0 x) :
    ∀ (ks : List Id), (∀ k ∈ ks, Par db0 k x) → ∀ acc, Skel acc db0 →
      ks.foldlM (fun acc k => updatePath s fuel acc k (tgt x)) acc
        = .ok { acc with crate := setPaths (fun y => ks.any (fun k => subB db0 k y)) tgt acc.crate } := by
  intro ks
  induction ks with
  | nil =>
    intro _ acc _
    simp only [List.foldlM_nil, List.any_nil]
    have : setPaths (fun _ => false) tgt acc.crate = acc.crate := by
      unfold setPaths; simp
    rw [this]; rfl
  | cons k ks ihk =>
    intro hks acc hacc
    have hk : Par db0 k x := hks k (by simp)
    have hsubk : Sub db0 top k := by
      rcases hsub with rfl | hm
      · exact Or.inr (h.ch_of_par hk)
      · exact Or.inr (h.ch_trans k top x hm (h.ch_of_par hk))
    rw [List.foldlM_cons,
      updatePath_eq s h top tgt hstep fuel acc k (tgt x) hacc (h.par_live hk).1 hsubk
        (by rw [h.depth_par hk]; omega)
        (fun rk hrk hrkid => (hstep x k hsub hk rk hrk hrkid).symm)]
    simp only [Res.bind_ok]
    rw [ihk (fun k' hk' => hks k' (by simp [hk'])) _ (hacc.setPaths _ _)]
    simp only [setPaths_setPaths, List.any_cons]

theorem setPaths_top_then_kids (h : FInv db0) (x : Id) (tgt : Id → Name) (l : List CrateRow) :
    setPaths (fun y => (crateChildren db0 x).any (fun k => subB db0 k y)) tgt (setPaths (· == x) tgt l)
      = setPaths (subB db0 x) tgt l := by
  rw [setPaths_setPaths]
  apply setPaths_congr
  intro r' _
  rw [Bool.eq_iff_iff, subB_iff]
  simp only [Bool.or_eq_true, beq_iff_eq, List.any_eq_true, subB_iff, mem_crateChildren]
  unfold Sub
  rw [h.ch_down x r'.id]

/-! ### rows after a rewrite -/

theorem rowPath_setPaths (db : Db) (P : Id → Bool) (tgt : Id → Name) (p : Id) (hp : p ∈ ids db) :
    rowPath { db with crate := setPaths P tgt db.crate } p = if P p then tgt p else rowPath db p := by
  unfold rowPath setPaths
  simp only [List.find?_map]
  obtain ⟨r, hr, rfl⟩ := exists_row hp
  have hcomp : ((fun x : CrateRow => x.id == r.id) ∘ fun r => if P r.id = true then { r with path := tgt r.id } else r)
      = fun x : CrateRow => x.id == r.id := by
    funext x
    simp only [Function.comp_apply]
    split <;> rfl
  rw [hcomp]
  cases hf : db.crate.find? (fun x => x.id == r.id) with
  | none =>
    rw [List.find?_eq_none] at hf
    exact absurd (by simp) (hf r hr)
  | some x =>
    have hx : x.id = r.id := by simpa using List.find?_some hf
    simp only [Option.map_some, Option.getD_some]
    rw [hx]
    split <;> rfl

/-- After the sub-tree of `c` has been rewritten to its target paths, every row carries
"path of the parent ++ own name ++ ';'", provided the rows outside the sub-tree did
and the target path of `c` itself is right. -/
theorem pathStep_repath {dbT : Db} (hT : FInv dbT) {c : Id} (hc : c ∈ ids dbT) (base : Name)
    (hout : ∀ r ∈ dbT.crate, ¬ Sub dbT c r.id → ∀ p, (r.id, p) ∈ dbT.cpl →
      r.path = (if p = r.id then [] else rowPath dbT p) ++ r.title ++ [semicolon])
    (hbase : ∀ r ∈ dbT.crate, r.id = c → ∀ p, (c, p) ∈ dbT.cpl →
      base = (if p = c then [] else rowPath dbT p) ++ r.title ++ [semicolon]) :
    ∀ r ∈ setPaths (subB dbT c) (tgtPath dbT c base) dbT.crate, ∀ p, (r.id, p) ∈ dbT.cpl →
      r.path = (if p = r.id then [] else
        rowPath { dbT with crate := setPaths (subB dbT c) (tgtPath dbT c base) dbT.crate } p) ++ r.title ++ [semicolon] := by
  intro r' hr' p hp
  unfold setPaths at hr'
  rw [List.mem_map] at hr'
  obtain ⟨r, hr, rfl⟩ := hr'
  have hpl : p ∈ ids dbT := hT.cplParentLive _ (by
    split at hp <;> exact hp)
  by_cases hs : Sub dbT c r.id
  · have hsb : subB dbT c r.id = true := (subB_iff _ _ _).mpr hs
    simp only [hsb, if_true] at hp ⊢
    by_cases hrc : r.id = c
    · -- the top of the rewritten sub-tree
      rw [hrc, tgtPath_top base hc]
      rw [hrc] at hp
      rw [hbase r hr hrc p hp]
      by_cases hpc : p = c
      · simp [hpc]
      · simp only [hpc, if_false]
        rw [rowPath_setPaths dbT _ _ p hpl]
        have hnot : subB dbT c p = false := by
          rw [← Bool.not_eq_true, subB_iff]
          rintro (e | hm)
          · exact hpc e
          · exact hT.not_anc_self_par (c := c) (p := p) ⟨hp, hpc⟩ hm
        simp [hnot]
    · -- strictly inside
      have hcr : (c, r.id) ∈ dbT.ch := by
        rcases hs with e | hm
        · exact absurd e hrc
        · exact hm
      obtain ⟨p', hp', _⟩ := (hT.chStep c r.id).mp hcr
      have hpp : p = p' := hT.cpl_unique hp hp'.1
      subst hpp
      have hne : p ≠ r.id := hp'.2
      simp only [hne, if_false]
      rw [rowPath_setPaths dbT _ _ p hpl]
      have hsp : subB dbT c p = true := (subB_iff _ _ _).mpr (hT.sub_par hs hrc hp')
      simp only [hsp, if_true]
      exact tgtPath_step hT c base hp' hrc hr rfl
  · have hsb : subB dbT c r.id = false := by
      rw [← Bool.not_eq_true, subB_iff]; exact hs
    simp only [hsb, Bool.false_eq_true, if_false] at hp ⊢
    rw [hout r hr hs p hp]
    by_cases hpe : p = r.id
    · simp [hpe]
    · simp only [hpe, if_false]
      rw [rowPath_setPaths dbT _ _ p hpl]
      have hnot : subB dbT c p = false := by
        rw [← Bool.not_eq_true, subB_iff]
        exact hT.not_sub_par hs (p := p) ⟨hp, hpe⟩
      simp [hnot]

end EngineModel.Api.CratesV1
