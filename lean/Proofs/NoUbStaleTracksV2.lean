/-
C15, schema 2.x tracks: a removed track stays removed along EVERY later history — `Track.id` is
AUTOINCREMENT (the model's `nextId` only grows and every stored id is below it), so the id of a removed
track is never issued again.
-/
import Proofs.NoUbTracksV2

namespace EngineModel.Api.C15TracksV2
open EngineModel EngineModel.TracksV2

/-- `id` is not a stored track and can never be issued again; every stored id is below `nextId`. -/
structure TGone (db : Db) (id : Nat) : Prop where
  lt : id < db.nextId
  absent : ∀ e ∈ db.rows, e.1 ≠ id
  bound : ∀ e ∈ db.rows, e.1 < db.nextId

theorem put_ids (db : Db) (i : Nat) (r : Row) : ∀ e ∈ (db.put i r).rows, ∃ e' ∈ db.rows, e'.1 = e.1 := by
  intro e he
  simp only [Db.put, List.mem_map] at he
  obtain ⟨e', he', rfl⟩ := he
  refine ⟨e', he', ?_⟩
  split
  · rename_i h; simpa using h
  · rfl

theorem put_nextId (db : Db) (i : Nat) (r : Row) : (db.put i r).nextId = db.nextId := rfl

theorem tgone_put {db : Db} {id : Nat} (h : TGone db id) (i : Nat) (r : Row) : TGone (db.put i r) id := by
  refine ⟨h.lt, ?_, ?_⟩
  · intro e he; obtain ⟨e', he', h1⟩ := put_ids db i r e he; rw [← h1]; exact h.absent e' he'
  · intro e he; obtain ⟨e', he', h1⟩ := put_ids db i r e he; rw [← h1]; exact h.bound e' he'

theorem lift_fst' {α} (db : Db) (r : Res α) (f : α → Out) : (lift db r f).1 = db := by
  cases r <;> rfl

/-- `track::update` leaves the table as it was or replaces one row -/
theorem update_fst_cases (ops : FOps) (s : Schema) (db : Db) (i : Nat) (x : Snap) :
    (db.update ops s i x).1 = db ∨ ∃ r, (db.update ops s i x).1 = db.put i r := by
  unfold Db.update
  cases writeStore ops s x with
  | ok r =>
    simp only
    split
    · exact Or.inl rfl
    · split
      · exact Or.inl rfl
      · exact Or.inr ⟨r, rfl⟩
  | throw e => exact Or.inl rfl
  | ub u => exact Or.inl rfl

theorem tgone_step (ops : FOps) (s : Schema) {db : Db} {id : Nat} (h : TGone db id) (op : Op) :
    TGone (step ops s db op).1 id := by
  cases op with
  | create x =>
    simp only [step, Db.create]
    cases writeStore ops s x with
    | ok r =>
      simp only
      split
      · exact h
      · refine ⟨by simp only [lift]; have := h.lt; omega, ?_, ?_⟩
        · intro e he
          simp only [lift, List.mem_append, List.mem_singleton] at he
          rcases he with he | rfl
          · exact h.absent e he
          · have := h.lt; simp only; omega
        · intro e he
          simp only [lift, List.mem_append, List.mem_singleton] at he ⊢
          rcases he with he | rfl
          · have := h.bound e he; omega
          · simp only; omega
    | throw e => exact h
    | ub u => exact h
  | update i x =>
    simp only [step]
    have hu : TGone (db.update ops s i x).1 id := by
      rcases update_fst_cases ops s db i x with e | ⟨r, e⟩ <;> rw [e]
      · exact h
      · exact tgone_put h i r
    cases db.get i with
    | none => simp only []; rw [lift_fst]; exact hu
    | some _ => simp only []; rw [lift_fst]; exact hu
  | snapshot i => simp only [step]; rw [lift_fst']; exact h
  | get i g =>
    simp only [step]
    cases db.get i with
    | none => exact h
    | some r => rw [lift_fst']; exact h
  | set i σ =>
    simp only [step, Db.set]
    cases db.get i with
    | none => exact h
    | some r =>
      simp only
      cases applySetter ops σ r with
      | ok r' =>
        simp only
        split
        · exact h
        · exact tgone_put h i r'
      | throw e => exact h
      | ub u => exact h
  | remove i =>
    simp only [step, remove]
    split
    · refine ⟨h.lt, ?_, ?_⟩
      · intro e he; exact h.absent e (List.mem_filter.mp he).1
      · intro e he; exact h.bound e (List.mem_filter.mp he).1
    · exact h
  | isValid i => exact h
  | handleId i => exact h
  | handleCopy i => exact h

def run (ops : FOps) (s : Schema) (db : Db) : List Op → Db
  | [] => db
  | op :: t => run ops s (step ops s db op).1 t

theorem tgone_run (ops : FOps) (s : Schema) {id : Nat} (l : List Op) : ∀ {db : Db}, TGone db id → TGone (run ops s db l) id := by
  induction l with
  | nil => intro db h; exact h
  | cons op t ih => intro db h; exact ih (tgone_step ops s h op)

/-- every stored id is below `nextId` -/
def IdInv (db : Db) : Prop := ∀ e ∈ db.rows, e.1 < db.nextId

theorem idInv_empty : IdInv Db.empty := by intro e he; cases he

theorem get_none_of_absent {db : Db} {id : Nat} (h : ∀ e ∈ db.rows, e.1 ≠ id) : db.get id = none := by
  unfold Db.get
  rw [List.find?_eq_none.mpr]
  · rfl
  · intro e he hc; exact h e he (by simpa using hc)

theorem mem_of_get {db : Db} {id : Nat} {r : Row} (h : db.get id = some r) : ∃ e ∈ db.rows, e.1 = id := by
  unfold Db.get at h
  cases hf : db.rows.find? (·.1 == id) with
  | none => rw [hf] at h; cases h
  | some e => exact ⟨e, List.mem_of_find?_eq_some hf, by simpa using List.find?_some hf⟩

theorem tgone_after_remove (ops : FOps) (s : Schema) {db : Db} (hI : IdInv db) {id : Nat}
    (hv : isValid db id = true) : TGone (step ops s db (.remove id)).1 id := by
  simp only [step, remove, hv, if_true]
  unfold isValid at hv
  cases hg : db.get id with
  | none => rw [hg] at hv; cases hv
  | some r =>
    obtain ⟨e, he, h1⟩ := mem_of_get hg
    refine ⟨by rw [← h1]; exact hI e he, ?_, ?_⟩
    · intro e' he'
      have := (List.mem_filter.mp he').2
      simpa using this
    · intro e' he'; exact hI e' (List.mem_filter.mp he').1

/-- the bound is an invariant of every operation (it is the `bound` field of `TGone` at an id that is
itself below `nextId`; stated on its own for reachable states) -/
theorem idInv_step (ops : FOps) (s : Schema) {db : Db} (hI : IdInv db) (op : Op) : IdInv (step ops s db op).1 := by
  by_cases hr : db.rows = []
  · -- no rows: argue directly
    cases op with
    | create x =>
      simp only [step, Db.create]
      cases writeStore ops s x with
      | ok r =>
        simp only
        split
        · exact hI
        · intro e he
          simp only [lift, hr, List.nil_append, List.mem_singleton] at he ⊢
          subst he; simp only; omega
      | throw e => exact hI
      | ub u => exact hI
    | update i x =>
      have hg : db.get i = none := by unfold Db.get; rw [hr]; rfl
      simp only [step, hg]; rw [lift_fst]
      rcases update_fst_cases ops s db i x with e | ⟨r, e⟩ <;> rw [e]
      · exact hI
      · intro e he; obtain ⟨e', he', h1⟩ := put_ids db i r e he; rw [← h1]; exact hI e' he'
    | snapshot i => simp only [step]; rw [lift_fst']; exact hI
    | get i g =>
      have hg : db.get i = none := by unfold Db.get; rw [hr]; rfl
      simp only [step, hg]; exact hI
    | set i σ =>
      have hg : db.get i = none := by unfold Db.get; rw [hr]; rfl
      simp only [step, Db.set, hg]; exact hI
    | remove i =>
      simp only [step, remove]
      split
      · intro e he; exact hI e (List.mem_filter.mp he).1
      · exact hI
    | isValid i => exact hI
    | handleId i => exact hI
    | handleCopy i => exact hI
  · -- some row e0: `TGone` at an id that is absent and below nextId … use the generic lemma at id := a fresh id
    -- simpler: every stored id is below nextId, so `nextId` itself is absent; but TGone needs id < nextId.
    -- Argue per operation as in `tgone_step`.
    cases op with
    | create x =>
      simp only [step, Db.create]
      cases writeStore ops s x with
      | ok r =>
        simp only
        split
        · exact hI
        · intro e he
          simp only [lift, List.mem_append, List.mem_singleton] at he ⊢
          rcases he with he | rfl
          · have := hI e he; omega
          · simp only; omega
      | throw e => exact hI
      | ub u => exact hI
    | update i x =>
      simp only [step]
      have hu : IdInv (db.update ops s i x).1 := by
        rcases update_fst_cases ops s db i x with e | ⟨r, e⟩ <;> rw [e]
        · exact hI
        · intro e he; obtain ⟨e', he', h1⟩ := put_ids db i r e he; rw [← h1]; exact hI e' he'
      cases db.get i with
      | none => simp only []; rw [lift_fst]; exact hu
      | some _ => simp only []; rw [lift_fst]; exact hu
    | snapshot i => simp only [step]; rw [lift_fst']; exact hI
    | get i g =>
      simp only [step]
      cases db.get i with
      | none => exact hI
      | some r => rw [lift_fst']; exact hI
    | set i σ =>
      simp only [step, Db.set]
      cases db.get i with
      | none => exact hI
      | some r =>
        simp only
        cases applySetter ops σ r with
        | ok r' =>
          simp only
          split
          · exact hI
          · intro e he; obtain ⟨e', he', h1⟩ := put_ids db i r' e he; rw [← h1]; exact hI e' he'
        | throw e => exact hI
        | ub u => exact hI
    | remove i =>
      simp only [step, remove]
      split
      · intro e he; exact hI e (List.mem_filter.mp he).1
      · exact hI
    | isValid i => exact hI
    | handleId i => exact hI
    | handleCopy i => exact hI

theorem idInv_run (ops : FOps) (s : Schema) (l : List Op) : ∀ {db : Db}, IdInv db → IdInv (run ops s db l) := by
  induction l with
  | nil => intro db h; exact h
  | cons op t ih => intro db h; exact ih (idInv_step ops s h op)

end EngineModel.Api.C15TracksV2
