/-
Path strings: the recursive `update_path` of the C++ (model `updatePath`)
rewrites exactly the sub-tree it is started on, and every row it touches gets
the path of its parent extended by its own name.  `walkPath` is the reference
"names from the root (or from a stop node) joined with ';'", shown independent
of its fuel once the fuel exceeds the depth.
-/
import Proofs.CratesV1Inv

namespace EngineModel.Api.CratesV1
open EngineModel.Pure.Detect EngineModel.Spec

/-! ### walking up with fuel -/

def walkPath (title : Id → Option Name) (parent : Id → Option Id) (stop : Option Id) (base : Name) :
    Nat → Id → Name
  | 0, _ => []
  | n + 1, y =>
    if some y = stop then base else
    match title y with
    | none => []
    | some t =>
      (match parent y with
       | none => []
       | some p => walkPath title parent stop base n p) ++ t ++ [semicolon]

theorem walkPath_fuel {title : Id → Option Name} {parent : Id → Option Id} {stop : Option Id} {base : Name}
    (d : Id → Nat) (hd : ∀ y p, parent y = some p → d p < d y) :
    ∀ n m y, d y < n → d y < m → walkPath title parent stop base n y = walkPath title parent stop base m y := by
  intro n
  induction n with
  | zero => intro m y h; omega
  | succ n ih =>
    intro m y hn hm
    cases m with
    | zero => omega
    | succ m =>
      unfold walkPath
      split
      · rfl
      · cases title y with
        | none => rfl
        | some t =>
          cases hp : parent y with
          | none => rfl
          | some p =>
            have := hd y p hp
            simp only
            rw [ih m p (by omega) (by omega)]

theorem pathFuel_eq_walk (f : Forest.Forest) : ∀ n c, pathFuel f n c = walkPath f.nameOf f.parentOf none [] n c := by
  intro n
  induction n with
  | zero => intro c; rfl
  | succ n ih =>
    intro c
    unfold pathFuel walkPath
    simp only [reduceCtorEq, if_false]
    unfold Forest.Forest.nameOf Forest.Forest.parentOf
    cases f.find c with
    | none => rfl
    | some r =>
      simp only [Option.map_some, Option.bind_some]
      cases r.parent with
      | none => rfl
      | some p => simp only; rw [ih p]; rfl

/-! ### rewriting paths of a set of rows -/

def setPaths (P : Id → Bool) (tgt : Id → Name) (crate : List CrateRow) : List CrateRow :=
  crate.map fun r => if P r.id then { r with path := tgt r.id } else r

def keyOf (r : CrateRow) : Id × Name := (r.id, r.title)

theorem setPaths_setPaths (P Q : Id → Bool) (tgt : Id → Name) (l : List CrateRow) :
    setPaths P tgt (setPaths Q tgt l) = setPaths (fun y => Q y || P y) tgt l := by
  unfold setPaths
  rw [List.map_map]
  apply List.map_congr_left
  intro r _
  by_cases hq : Q r.id <;> by_cases hp : P r.id <;> simp [hq, hp]

theorem setPaths_congr {P Q : Id → Bool} {tgt : Id → Name} {l : List CrateRow} (h : ∀ r ∈ l, P r.id = Q r.id) :
    setPaths P tgt l = setPaths Q tgt l := by
  unfold setPaths
  apply List.map_congr_left
  intro r hr
  rw [h r hr]

theorem setPaths_keys (P : Id → Bool) (tgt : Id → Name) (l : List CrateRow) :
    (setPaths P tgt l).map keyOf = l.map keyOf := by
  unfold setPaths
  rw [List.map_map]
  apply List.map_congr_left
  intro r _
  by_cases hp : P r.id <;> simp [hp, keyOf]

theorem ids_of_keys {db db' : Db} (h : db'.crate.map keyOf = db.crate.map keyOf) : ids db' = ids db := by
  have : ∀ l : List CrateRow, l.map (·.id) = (l.map keyOf).map (·.1) := by
    intro l; rw [List.map_map]; rfl
  unfold ids
  rw [this, this, h]

/-- Same rows up to the `path` column, same parent list and hierarchy. -/
def Skel (db db0 : Db) : Prop := db.crate.map keyOf = db0.crate.map keyOf ∧ db.cpl = db0.cpl ∧ db.ch = db0.ch

theorem Skel.refl (db : Db) : Skel db db := ⟨rfl, rfl, rfl⟩

theorem Skel.ids {db db0 : Db} (h : Skel db db0) : ids db = ids db0 := ids_of_keys h.1

theorem Skel.row {db db0 : Db} (h : Skel db db0) {r : CrateRow} (hr : r ∈ db.crate) :
    ∃ r0 ∈ db0.crate, r0.id = r.id ∧ r0.title = r.title := by
  have : keyOf r ∈ db0.crate.map keyOf := by rw [← h.1]; exact List.mem_map_of_mem hr
  rw [List.mem_map] at this
  obtain ⟨r0, hr0, he⟩ := this
  exact ⟨r0, hr0, (Prod.mk.inj he).1, (Prod.mk.inj he).2⟩

theorem Skel.setPaths {db db0 : Db} (h : Skel db db0) (P : Id → Bool) (tgt : Id → Name) :
    Skel { db with crate := setPaths P tgt db.crate } db0 :=
  ⟨by simp only [setPaths_keys]; exact h.1, h.2.1, h.2.2⟩

def subB (db : Db) (x y : Id) : Bool := y == x || db.ch.contains (x, y)

theorem subB_iff (db : Db) (x y : Id) : subB db x y = true ↔ Sub db x y := by
  unfold subB Sub
  simp

theorem mem_crateChildren (db : Db) (x k : Id) : k ∈ crateChildren db x ↔ Par db k x := by
  unfold crateChildren Par
  simp only [List.mem_map, List.mem_filter, Bool.and_eq_true, beq_iff_eq, bne_iff_ne, ne_eq]
  constructor
  · rintro ⟨r, ⟨hr, h2, hne⟩, rfl⟩
    refine ⟨?_, fun e => hne (by rw [h2, e])⟩
    have : r = (r.1, x) := Prod.ext rfl h2
    rw [← this]; exact hr
  · rintro ⟨hm, hne⟩
    exact ⟨(k, x), ⟨hm, rfl, fun e => hne e.symm⟩, rfl⟩

theorem FInv.cpl_length {db : Db} (h : FInv db) : db.cpl.length = db.crate.length := by
  have hperm : (db.cpl.map (·.1)).Perm (ids db) := by
    rw [List.perm_ext_iff_of_nodup h.cplNodup h.idsNodup]
    exact h.cplTotal
  have := hperm.length_eq
  simpa [ids] using this

theorem updateCratePath_setPaths (s : Schema) {db : Db} (h : (ids db).Nodup) (x : Id) (tgt : Id → Name) :
    updateCratePath s db.crate x (tgt x) = setPaths (· == x) tgt db.crate := by
  rw [updateCratePath_eq s h]
  unfold setPaths
  apply List.map_congr_left
  intro r _
  by_cases hx : r.id = x <;> simp [hx]

/-- The recursive path rewrite, started on `x` inside the sub-tree of `top`, rewrites exactly
the sub-tree of `x` to the target paths. -/
theorem updatePath_eq (s : Schema) {db0 : Db} (h : FInv db0) (top : Id) (tgt : Id → Name)
    (hstep : ∀ x k, Sub db0 top x → Par db0 k x → ∀ rk ∈ db0.crate, rk.id = k →
      tgt k = tgt x ++ rk.title ++ [semicolon]) :
    ∀ fuel db x pp, Skel db db0 → x ∈ ids db0 → Sub db0 top x → db0.cpl.length + 1 ≤ fuel + depth db0 x →
      (∀ rx ∈ db0.crate, rx.id = x → pp ++ rx.title ++ [semicolon] = tgt x) →
      updatePath s fuel db x pp = .ok { db with crate := setPaths (subB db0 x) tgt db.crate } := by
  intro fuel
  induction fuel with
  | zero =>
    intro db x pp _ hx _ hfuel _
    have := h.depth_lt hx
    rw [h.cpl_length] at hfuel
    omega
  | succ fuel ih =>
    intro db x pp hsk hx hsub hfuel hpp
    have hnd : (ids db).Nodup := by rw [hsk.ids]; exact h.idsNodup
    obtain ⟨r, hr, hrx⟩ := exists_row (hsk.ids ▸ hx)
    obtain ⟨r0, hr0, hr0id, hr0t⟩ := hsk.row hr
    have hpath : pp ++ r.title ++ [semicolon] = tgt x := by
      rw [← hr0t]; exact hpp r0 hr0 (hr0id.trans hrx)
    unfold updatePath
    rw [← hrx, crateName_of_mem hnd hr, hrx]
    simp only [Res.bind_ok]
    rw [hpath, updateCratePath_setPaths s hnd]
    -- the children, read from the unchanged parent list
    have hkids : crateChildren { db with crate := setPaths (· == x) tgt db.crate } x = crateChildren db0 x := by
      unfold crateChildren; simp only [hsk.2.1]
    rw [hkids]
    -- the loop over the children
    have hloop : ∀ (ks : List Id), (∀ k ∈ ks, Par db0 k x) → ∀ acc, Skel acc db0 →
        ks.foldlM (fun acc k => updatePath s fuel acc k (tgt x)) acc
          = .ok { acc with crate := setPaths (fun y => ks.any (fun k => subB db0 k y)) tgt acc.crate } := by
      intro ks
      induction ks with
      | nil =>
        intro _ acc _
        simp only [List.foldlM_nil, List.any_nil]
        have : setPaths (fun _ => false) tgt acc.crate = acc.crate := by
          unfold setPaths; simp
        rw [this]; rfl
      | cons k ks ihk =>
        intro hks acc hacc
        have hk : Par db0 k x := hks k (by simp)
        have hsubk : Sub db0 top k := by
          rcases hsub with rfl | hm
          · exact Or.inr (h.ch_of_par hk)
          · exact Or.inr (h.ch_trans k top x hm (h.ch_of_par hk))
        rw [List.foldlM_cons,
          ih acc k (tgt x) hacc (h.par_live hk).1 hsubk (by rw [h.depth_par hk]; omega)
            (fun rk hrk hrkid => (hstep x k hsub hk rk hrk hrkid).symm)]
        simp only [Res.bind_ok]
        rw [ihk (fun k' hk' => hks k' (by simp [hk'])) _ (hacc.setPaths _ _)]
        simp only [setPaths_setPaths, List.any_cons]
    rw [hloop (crateChildren db0 x) (fun k hk => (mem_crateChildren db0 x k).mp hk) _ (hsk.setPaths _ _)]
    simp only [setPaths_setPaths]
    congr 2
    apply setPaths_congr
    intro r' _
    rw [Bool.eq_iff_iff, subB_iff]
    simp only [Bool.or_eq_true, beq_iff_eq, List.any_eq_true, subB_iff, mem_crateChildren]
    unfold Sub
    rw [h.ch_down x r'.id]

end EngineModel.Api.CratesV1
