/-
Helper lemmas for C20 (beat-grid normalisation) over exact rational arithmetic.
`qNum`, `QSorted`, `qtempo` are definitionally the `ratNum`, `Sorted`, `tempo`
of Properties/C20.lean (which only re-exports the results below).
-/
import EngineModel.Pure.BeatgridRat
import Proofs.BeatgridGen
import Proofs.BeatgridWindow
import Mathlib.Data.Rat.Floor
import Mathlib.Tactic.Linarith
import Mathlib.Tactic.FieldSimp
import Mathlib.Tactic.Ring
import Mathlib.Tactic.Positivity

namespace EngineModel.Pure.Beatgrid
open EngineModel

/-- The exact-rational instance (`Pure/BeatgridRat.lean`, executable, run by the driver). -/
abbrev qNum : Num ℚ := ratNum

def QSorted (g : List (Marker ℚ)) : Prop :=
  g.Pairwise (fun a b => a.index < b.index ∧ a.off < b.off)

def qtempo (a b : Marker ℚ) : ℚ := (b.off - a.off) / ((b.index - a.index : Int) : ℚ)

/-! ### the instance: `Rat.ceil` is the ceiling, the comparisons are a linear order -/

theorem rat_ceil_eq (x : ℚ) : x.ceil = ⌈x⌉ := by
  apply le_antisymm
  · rw [Rat.ceil_le_iff]; exact Int.le_ceil x
  · rw [Int.ceil_le]; exact Rat.le_ceil

theorem qNum_ceil32 (x : ℚ) : qNum.ceil32 x = if In32 ⌈x⌉ then some ⌈x⌉ else none := by
  show (if In32 x.ceil then some x.ceil else none) = _
  rw [rat_ceil_eq]

theorem qNum_ordLaws : OrdLaws qNum where
  lt_asymm a b h := by
    have h' : a < b := of_decide_eq_true h
    exact decide_eq_false (not_lt.mpr h'.le)
  lt_trans a b c h1 h2 := decide_eq_true (lt_trans (of_decide_eq_true h1) (of_decide_eq_true h2))
  lt_of_lt_of_le a b c h1 h2 :=
    decide_eq_true (lt_of_lt_of_le (of_decide_eq_true h1) (of_decide_eq_true h2))
  le_of_le_of_lt a b c h1 h2 :=
    decide_eq_true ((of_decide_eq_true h1 : a ≤ b).trans (of_decide_eq_true h2 : b < c).le)

theorem qSorted_iff (g : List (Marker ℚ)) : QSorted g ↔ SortedBy qNum g := by
  unfold QSorted SortedBy
  constructor <;> intro h <;> refine h.imp ?_ <;> intro a b hab
  · exact ⟨hab.1, decide_eq_true hab.2⟩
  · exact ⟨hab.1, of_decide_eq_true hab.2⟩

/-! ### the two moves, over ℚ, in closed form -/

/-- The moved first marker. -/
def first' (a b : Marker ℚ) : Marker ℚ :=
  ⟨-4, a.off - ((4 + a.index : Int) : ℚ) * qtempo a b⟩

/-- Number of beats the last marker is moved by. -/
def adjOf (p l : Marker ℚ) (n : Int) : Int := ⌈((n : ℚ) - l.off) / qtempo p l⌉

/-- The moved last marker. -/
def last' (p l : Marker ℚ) (n : Int) : Marker ℚ :=
  ⟨l.index + adjOf p l n, l.off + ((adjOf p l n : Int) : ℚ) * qtempo p l⟩

theorem firstOf_q (a b : Marker ℚ) : firstOf qNum a b = first' a b := rfl

theorem lastOf_q (p l : Marker ℚ) (n : Int) : lastOf qNum p l (adjOf p l n) = last' p l n := rfl

theorem beatsToEnd_q (p l : Marker ℚ) (n : Int) :
    beatsToEnd qNum p l n = ((n : ℚ) - l.off) / qtempo p l := rfl

/-- The last move over ℚ: the four outcomes. -/
theorem lastStep_q (pre : List (Marker ℚ)) (p l : Marker ℚ) (n : Int) :
    lastStep qNum pre p l n =
      if In32 (adjOf p l n) then
        if l.index + adjOf p l n ≤ p.index then .throw .invalid_argument
        else if 2147483647 < l.index + adjOf p l n then .throw .invalid_argument
        else .ok (pre ++ [p, last' p l n])
      else .throw .invalid_argument := by
  unfold lastStep
  rw [qNum_ceil32, beatsToEnd_q]
  show (match (if In32 (adjOf p l n) then some (adjOf p l n) else none) with
    | none => _ | some adj => _) = _
  by_cases h : In32 (adjOf p l n)
  · rw [if_pos h, if_pos h]
    dsimp only
    rw [lastOf_q]
  · rw [if_neg h, if_neg h]

/-! ### arithmetic of one segment -/

section arith
variable {a b p l : Marker ℚ} {n : Int}

theorem idx_cast_pos (hi : a.index < b.index) : (0 : ℚ) < (b.index : ℚ) - a.index := by
  have : (a.index : ℚ) < b.index := by exact_mod_cast hi
  linarith

theorem qtempo_eq (a b : Marker ℚ) : qtempo a b = (b.off - a.off) / ((b.index : ℚ) - a.index) := by
  unfold qtempo; push_cast; rfl

theorem qtempo_pos (hi : a.index < b.index) (ho : a.off < b.off) : 0 < qtempo a b := by
  rw [qtempo_eq]
  exact div_pos (by linarith) (idx_cast_pos hi)

theorem qtempo_mul (hi : a.index < b.index) :
    qtempo a b * ((b.index : ℚ) - a.index) = b.off - a.off := by
  rw [qtempo_eq]
  have := (idx_cast_pos hi).ne'
  field_simp

@[simp] theorem first'_index : (first' a b).index = -4 := rfl

theorem first'_off (a b : Marker ℚ) :
    (first' a b).off = a.off - ((4 : ℚ) + a.index) * qtempo a b := by
  unfold first'; push_cast; rfl

theorem first'_sub (hi : a.index < b.index) :
    b.off - (first' a b).off = qtempo a b * ((b.index : ℚ) + 4) := by
  rw [first'_off]
  have := qtempo_mul (a := a) (b := b) hi
  linarith

theorem first'_lt (hi : a.index < b.index) (ho : a.off < b.off) (h4 : -4 < b.index) :
    (first' a b).off < b.off := by
  have h1 := first'_sub (a := a) (b := b) hi
  have h2 := qtempo_pos hi ho
  have h3 : (0 : ℚ) < (b.index : ℚ) + 4 := by
    have : ((-4 : Int) : ℚ) < b.index := by exact_mod_cast h4
    push_cast at this; linarith
  have := mul_pos h2 h3
  linarith

theorem qtempo_first' (hi : a.index < b.index) (h4 : -4 < b.index) :
    qtempo (first' a b) b = qtempo a b := by
  have h3 : (0 : ℚ) < (b.index : ℚ) + 4 := by
    have : ((-4 : Int) : ℚ) < b.index := by exact_mod_cast h4
    push_cast at this; linarith
  rw [qtempo_eq (first' a b) b, first'_sub hi, first'_index]
  push_cast
  have : (b.index : ℚ) - -4 = (b.index : ℚ) + 4 := by ring
  rw [this]
  field_simp

theorem first'_le (hi : a.index < b.index) (ho : a.off < b.off) (h4 : -4 ≤ a.index) :
    (first' a b).off ≤ a.off := by
  rw [first'_off]
  have h2 := qtempo_pos hi ho
  have h3 : (0 : ℚ) ≤ (4 : ℚ) + a.index := by
    have : ((-4 : Int) : ℚ) ≤ a.index := by exact_mod_cast h4
    push_cast at this; linarith
  have := mul_nonneg h3 h2.le
  linarith

@[simp] theorem last'_index : (last' p l n).index = l.index + adjOf p l n := rfl

theorem last'_off (p l : Marker ℚ) (n : Int) :
    (last' p l n).off = l.off + (adjOf p l n : ℚ) * qtempo p l := rfl

theorem last'_ge (hs : 0 < qtempo p l) : (n : ℚ) ≤ (last' p l n).off := by
  rw [last'_off]
  have h := Int.le_ceil (((n : ℚ) - l.off) / qtempo p l)
  rw [div_le_iff₀ hs] at h
  unfold adjOf
  linarith

theorem last'_lt (hs : 0 < qtempo p l) : (last' p l n).off < (n : ℚ) + qtempo p l := by
  rw [last'_off]
  have h := Int.ceil_lt_add_one (((n : ℚ) - l.off) / qtempo p l)
  rw [← sub_lt_iff_lt_add, lt_div_iff₀ hs] at h
  unfold adjOf
  linarith

theorem last'_sub (hi : p.index < l.index) :
    (last' p l n).off - p.off = qtempo p l * (((last' p l n).index : ℚ) - p.index) := by
  rw [last'_off, last'_index]
  have := qtempo_mul (a := p) (b := l) hi
  push_cast
  linarith

theorem qtempo_last' (hi : p.index < l.index) (h : p.index < (last' p l n).index) :
    qtempo p (last' p l n) = qtempo p l := by
  rw [qtempo_eq p (last' p l n), last'_sub hi]
  have := (idx_cast_pos h).ne'
  field_simp

/-- The new check of `fixLast` fires exactly when the track ends at or before the previous marker. -/
theorem last'_index_le_iff (hi : p.index < l.index) (ho : p.off < l.off) :
    (last' p l n).index ≤ p.index ↔ (n : ℚ) ≤ p.off := by
  have hs := qtempo_pos hi ho
  have hm := qtempo_mul (a := p) (b := l) hi
  rw [last'_index]
  have e : l.index + adjOf p l n ≤ p.index ↔ adjOf p l n ≤ p.index - l.index := by omega
  rw [e]
  unfold adjOf
  rw [Int.ceil_le, div_le_iff₀ hs]
  push_cast
  constructor <;> intro h <;> nlinarith

theorem adjOf_eq_zero (hs : 0 < qtempo p l) (h1 : (n : ℚ) ≤ l.off)
    (h2 : l.off < (n : ℚ) + qtempo p l) : adjOf p l n = 0 := by
  unfold adjOf
  rw [Int.ceil_eq_iff]
  constructor
  · rw [lt_div_iff₀ hs]; push_cast; linarith
  · rw [div_le_iff₀ hs]; push_cast; linarith

end arith

/-! ### trimming -/

section trim

theorem trimEnd_eq (g : List (Marker ℚ)) (n : Int) :
    trimEnd qNum g n = match g.findIdx? (fun m => decide ((n : ℚ) ≤ m.off)) with
      | some i => g.take (i + 1)
      | none => g := rfl

theorem trimStart_eq (g : List (Marker ℚ)) :
    trimStart qNum g =
      if g.findIdx (fun m => decide ((0 : ℚ) < m.off)) = 0 then g
      else g.drop (g.findIdx (fun m => decide ((0 : ℚ) < m.off)) - 1) := by
  simp [trimStart, qNum, ratNum]

theorem QSorted.of_infix {l₁ l₂ : List (Marker ℚ)} (h : l₁ <:+: l₂) (hs : QSorted l₂) :
    QSorted l₁ := List.Pairwise.sublist h.sublist hs

theorem dropLast_subset_of_suffix {α} {l₁ l₂ : List α} (h : l₁ <:+ l₂) :
    l₁.dropLast ⊆ l₂.dropLast := by
  obtain ⟨s, rfl⟩ := h
  by_cases hn : l₁ = []
  · subst hn; simp
  · rw [List.dropLast_append_of_ne_nil hn]; exact List.subset_append_right _ _

theorem mem_dropLast_iff_getElem {α} {l : List α} {a : α} :
    a ∈ l.dropLast ↔ ∃ (i : Nat) (h : i + 1 < l.length), l[i]'(by omega) = a := by
  rw [List.dropLast_eq_take, List.mem_take_iff_getElem]
  constructor
  · rintro ⟨j, hj, rfl⟩; exact ⟨j, by omega, rfl⟩
  · rintro ⟨j, hj, rfl⟩; exact ⟨j, by omega, rfl⟩

theorem trimEnd_dropLast_lt (g : List (Marker ℚ)) (n : Int) :
    ∀ m ∈ (trimEnd qNum g n).dropLast, m.off < n := by
  intro m hm
  rw [trimEnd_eq] at hm
  split at hm
  · rename_i i hi
    rw [List.findIdx?_eq_some_iff_getElem] at hi
    obtain ⟨hlt, -, hlt'⟩ := hi
    rw [mem_dropLast_iff_getElem] at hm
    obtain ⟨j, hj, rfl⟩ := hm
    rw [List.length_take] at hj
    have := hlt' j (by omega)
    simpa using this
  · rename_i hi
    rw [List.findIdx?_eq_none_iff] at hi
    have := hi m (List.dropLast_subset _ hm)
    simpa using this

theorem trim_dropLast_lt (g : List (Marker ℚ)) (n : Int) :
    ∀ m ∈ (trim qNum g n).dropLast, m.off < n := fun m hm =>
  trimEnd_dropLast_lt g n m (dropLast_subset_of_suffix (trimStart_suffix qNum _) hm)

theorem trimStart_second_pos {te : List (Marker ℚ)} {a b : Marker ℚ} {rest : List (Marker ℚ)}
    (hs : QSorted te) (h : trimStart qNum te = a :: b :: rest) : 0 < b.off := by
  rw [trimStart_eq] at h
  split at h
  · rename_i hj
    subst h
    rw [List.findIdx_cons] at hj
    have ha : 0 < a.off := by
      by_contra hc
      simp [hc] at hj
    have := (List.pairwise_cons.mp hs).1 b (by simp)
    linarith [this.2]
  · rename_i hj
    have h1 : (te.drop (te.findIdx (fun m => decide ((0 : ℚ) < m.off)) - 1))[1]? = some b := by
      rw [h]; rfl
    rw [List.getElem?_drop] at h1
    rw [show te.findIdx (fun m => decide ((0 : ℚ) < m.off)) - 1 + 1
          = te.findIdx (fun m => decide ((0 : ℚ) < m.off)) by omega] at h1
    have := List.findIdx_of_getElem?_eq_some h1
    simpa using this

theorem trim_second_pos {g : List (Marker ℚ)} {n : Int} {a b : Marker ℚ}
    {rest : List (Marker ℚ)} (hs : QSorted g) (h : trim qNum g n = a :: b :: rest) : 0 < b.off :=
  trimStart_second_pos (hs.of_infix (trimEnd_prefix qNum g n).isInfix) h

theorem trimEnd_keeps {g : List (Marker ℚ)} {n : Int} (hs : QSorted g) {m : Marker ℚ}
    (hm : m ∈ g) (h1 : m.off < n) : m ∈ trimEnd qNum g n := by
  rw [trimEnd_eq]
  split
  · rename_i i hi
    rw [List.findIdx?_eq_some_iff_getElem] at hi
    obtain ⟨hlt, hp, -⟩ := hi
    have hp' : (n : ℚ) ≤ g[i].off := by simpa using hp
    obtain ⟨k, hk, rfl⟩ := List.mem_iff_getElem.mp hm
    have hki : k < i := by
      by_contra hc
      rcases Nat.lt_or_ge i k with h | h
      · have := (List.pairwise_iff_getElem.mp hs i k hlt hk h).2
        linarith
      · have : k = i := by omega
        subst this; linarith
    rw [List.mem_take_iff_getElem]
    exact ⟨k, by omega, rfl⟩
  · exact hm

theorem trimStart_keeps {te : List (Marker ℚ)} {m : Marker ℚ} (hm : m ∈ te) (h0 : 0 < m.off) :
    m ∈ trimStart qNum te := by
  rw [trimStart_eq]
  split
  · exact hm
  · obtain ⟨k, hk, rfl⟩ := List.mem_iff_getElem.mp hm
    have hjk : te.findIdx (fun m => decide ((0 : ℚ) < m.off)) ≤ k := by
      by_contra hc
      have := List.not_of_lt_findIdx (p := fun m : Marker ℚ => decide ((0 : ℚ) < m.off))
        (xs := te) (i := k) (by omega)
      simp at this
      linarith
    rw [List.mem_drop_iff_getElem]
    refine ⟨k - (te.findIdx (fun m => decide ((0 : ℚ) < m.off)) - 1), by omega, ?_⟩
    congr 1; omega

theorem trim_keeps {g : List (Marker ℚ)} {n : Int} (hs : QSorted g) {m : Marker ℚ}
    (hm : m ∈ g) (h0 : 0 < m.off) (h1 : m.off < n) : m ∈ trim qNum g n :=
  trimStart_keeps (trimEnd_keeps hs hm h1) h0

theorem trimEnd_id {l : List (Marker ℚ)} {n : Int} (h : ∀ m ∈ l.dropLast, m.off < n) :
    trimEnd qNum l n = l := by
  rw [trimEnd_eq]
  split
  · rename_i i hi
    rw [List.findIdx?_eq_some_iff_getElem] at hi
    obtain ⟨hlt, hp, -⟩ := hi
    have hp' : (n : ℚ) ≤ l[i].off := by simpa using hp
    apply List.take_of_length_le
    by_contra hc
    have := h l[i] (mem_dropLast_iff_getElem.mpr ⟨i, by omega, rfl⟩)
    linarith
  · rfl

theorem trimStart_id {x y : Marker ℚ} {r : List (Marker ℚ)} (h : 0 < y.off) :
    trimStart qNum (x :: y :: r) = x :: y :: r := by
  rw [trimStart_eq]
  by_cases hx : 0 < x.off <;> simp [List.findIdx_cons, hx, h]

theorem trim_id {x y : Marker ℚ} {r : List (Marker ℚ)} {n : Int} (h : 0 < y.off)
    (h' : ∀ m ∈ (x :: y :: r).dropLast, m.off < n) : trim qNum (x :: y :: r) n = x :: y :: r := by
  unfold trim; rw [trimEnd_id h', trimStart_id h]

end trim


/-! ### shape of a successful normalisation -/

section shape

/-- Everything one learns from `normalize qNum g n = .ok out` (no sortedness needed). -/
structure Shape (g : List (Marker ℚ)) (n : Int) (out : List (Marker ℚ))
    (a b : Marker ℚ) (rest pre : List (Marker ℚ)) (p l : Marker ℚ) : Prop where
  ht : trim qNum g n = a :: b :: rest
  hb4 : -4 < b.index
  hf : first' a b :: b :: rest = pre ++ [p, l]
  hadj : In32 (adjOf p l n)
  hil : p.index < (last' p l n).index
  hil32 : (last' p l n).index ≤ 2147483647
  hout : out = pre ++ [p, last' p l n]

theorem normalize_ok_shape_q {g out : List (Marker ℚ)} {n : Int} (hne : g ≠ []) (hi : Idx32 g)
    (h : normalize qNum g n = .ok out) :
    ∃ a b rest pre p l, Shape g n out a b rest pre p l := by
  obtain ⟨a, b, rest, pre, p, l, adj, sh⟩ := normalize_ok_shape qNum ratNum_ceil32Ok hne hi h
  have hce := sh.hce
  rw [qNum_ceil32, beatsToEnd_q] at hce
  have hadj : adj = adjOf p l n := by
    unfold adjOf
    split at hce
    · exact (Option.some.inj hce).symm
    · cases hce
  subst hadj
  exact ⟨a, b, rest, pre, p, l, sh.ht, sh.hb4, sh.hf, sh.hadj, sh.hil, sh.hil32, sh.hout⟩

/-- Sortedness consequences. -/
theorem sorted_first {a b : Marker ℚ} {rest : List (Marker ℚ)} (hs : QSorted (a :: b :: rest))
    (hb4 : -4 < b.index) : QSorted (first' a b :: b :: rest) := by
  unfold QSorted at hs ⊢
  rw [List.pairwise_cons] at hs ⊢
  obtain ⟨hab, hs'⟩ := hs
  have hab' := hab b (by simp)
  have hfb : (first' a b).index < b.index ∧ (first' a b).off < b.off :=
    ⟨by simpa using hb4, first'_lt hab'.1 hab'.2 hb4⟩
  refine ⟨?_, hs'⟩
  intro x hx
  rcases List.mem_cons.mp hx with rfl | hx
  · exact hfb
  · have := (List.pairwise_cons.mp hs').1 x hx
    exact ⟨by omega, by linarith [this.2, hfb.2]⟩

theorem sorted_pl {pre : List (Marker ℚ)} {p l : Marker ℚ} (hs : QSorted (pre ++ [p, l])) :
    p.index < l.index ∧ p.off < l.off := by
  unfold QSorted at hs
  rw [List.pairwise_append] at hs
  exact (List.pairwise_cons.mp hs.2.1).1 l (by simp)

theorem last'_off_gt {p l : Marker ℚ} {n : Int} (hi : p.index < l.index) (ho : p.off < l.off)
    (hil : p.index < (last' p l n).index) : p.off < (last' p l n).off := by
  have h1 := last'_sub (p := p) (l := l) (n := n) hi
  have h2 := mul_pos (qtempo_pos hi ho) (idx_cast_pos hil)
  linarith

theorem sorted_last {pre : List (Marker ℚ)} {p l : Marker ℚ} {n : Int}
    (hs : QSorted (pre ++ [p, l])) (hil : p.index < (last' p l n).index) :
    QSorted (pre ++ [p, last' p l n]) := by
  obtain ⟨hi, ho⟩ := sorted_pl hs
  have hgt := last'_off_gt hi ho hil
  unfold QSorted at hs ⊢
  rw [List.pairwise_append] at hs ⊢
  obtain ⟨h1, -, h3⟩ := hs
  refine ⟨h1, ?_, ?_⟩
  · simp only [List.pairwise_cons, List.mem_cons, List.not_mem_nil, or_false, forall_eq,
      List.Pairwise.nil, and_true, false_imp_iff, implies_true]
    exact ⟨hil, hgt⟩
  · intro x hx y hy
    have hxp := h3 x hx p (by simp)
    simp only [List.mem_cons, List.not_mem_nil, or_false] at hy
    rcases hy with rfl | rfl
    · exact hxp
    · exact ⟨by omega, by linarith [hxp.2]⟩

/-- `Shape` plus the order facts that need a sorted input. -/
structure SShape (g : List (Marker ℚ)) (n : Int) (out : List (Marker ℚ))
    (a b : Marker ℚ) (rest pre : List (Marker ℚ)) (p l : Marker ℚ) : Prop
    extends Shape g n out a b rest pre p l where
  st : QSorted (a :: b :: rest)
  habi : a.index < b.index
  habo : a.off < b.off
  sf : QSorted (first' a b :: b :: rest)
  hpli : p.index < l.index
  hplo : p.off < l.off
  spos : 0 < qtempo p l
  sout : QSorted out

theorem Shape.toSShape {g out : List (Marker ℚ)} {n : Int} {a b : Marker ℚ}
    {rest pre : List (Marker ℚ)} {p l : Marker ℚ} (hs : QSorted g)
    (sh : Shape g n out a b rest pre p l) : SShape g n out a b rest pre p l := by
  have st : QSorted (a :: b :: rest) := sh.ht ▸ hs.of_infix (trim_infix qNum g n)
  have hab := (List.pairwise_cons.mp st).1 b (by simp)
  have sf := sorted_first st sh.hb4
  have sf' : QSorted (pre ++ [p, l]) := sh.hf ▸ sf
  have hpl := sorted_pl sf'
  exact { sh with
    st := st, habi := hab.1, habo := hab.2, sf := sf, hpli := hpl.1, hplo := hpl.2,
    spos := qtempo_pos hpl.1 hpl.2, sout := sh.hout ▸ sorted_last sf' sh.hil }

theorem normalize_ok_sshape {g out : List (Marker ℚ)} {n : Int} (hs : QSorted g) (hne : g ≠ [])
    (hi : Idx32 g) (h : normalize qNum g n = .ok out) :
    ∃ a b rest pre p l, SShape g n out a b rest pre p l := by
  obtain ⟨a, b, rest, pre, p, l, sh⟩ := normalize_ok_shape_q hne hi h
  exact ⟨a, b, rest, pre, p, l, sh.toSShape hs⟩

end shape

/-! ### the C20 statements, over `qNum` -/

section props
variable {g out : List (Marker ℚ)} {n : Int}

theorem getElem?_penult {α} (pre : List α) (p l : α) :
    (pre ++ [p, l])[(pre ++ [p, l]).length - 2]? = some p := by
  simp

theorem getElem?_ult {α} (pre : List α) (p l : α) :
    (pre ++ [p, l])[(pre ++ [p, l]).length - 1]? = some l := by
  have : (pre ++ [p, l]).length - 1 = pre.length + 1 := by simp
  rw [this, List.getElem?_append_right (by omega)]
  simp

theorem c20_sorted (hs : QSorted g) (hi : Idx32 g) (h : normalize qNum g n = .ok out) (hne : g ≠ []) :
    QSorted out := by
  obtain ⟨a, b, rest, pre, p, l, sh⟩ := normalize_ok_sshape hs hne hi h
  exact sh.sout

theorem c20_bracket (hs : QSorted g) (hi : Idx32 g) (h : normalize qNum g n = .ok out) (hne : g ≠ []) :
    ∃ p l, out[out.length - 2]? = some p ∧ out[out.length - 1]? = some l ∧
      (n : ℚ) ≤ l.off ∧ l.off < (n : ℚ) + qtempo p l := by
  obtain ⟨a, b, rest, pre, p, l, sh⟩ := normalize_ok_sshape hs hne hi h
  refine ⟨p, last' p l n, ?_, ?_, last'_ge sh.spos, ?_⟩
  · rw [sh.hout]; exact getElem?_penult _ _ _
  · rw [sh.hout]; exact getElem?_ult _ _ _
  · rw [qtempo_last' sh.hpli sh.hil]; exact last'_lt sh.spos

theorem c20_tempo_kept (hs : QSorted g) (hi : Idx32 g) (h : normalize qNum g n = .ok out) (hne : g ≠ []) :
    (∀ x y x' y', (trim qNum g n)[0]? = some x → (trim qNum g n)[1]? = some y →
        out[0]? = some x' → out[1]? = some y' → qtempo x' y' = qtempo x y) ∧
    (∀ x y x' y', (trim qNum g n)[(trim qNum g n).length - 2]? = some x →
        (trim qNum g n)[(trim qNum g n).length - 1]? = some y →
        out[out.length - 2]? = some x' → out[out.length - 1]? = some y' →
        qtempo x' y' = qtempo x y) := by
  obtain ⟨a, b, rest, pre, p, l, sh⟩ := normalize_ok_sshape hs hne hi h
  have hfirst := qtempo_first' sh.habi sh.hb4
  have hlast := qtempo_last' (n := n) sh.hpli sh.hil
  constructor
  · intro x y x' y' hx hy hx' hy'
    rw [sh.ht] at hx hy
    simp only [List.getElem?_cons_zero, List.getElem?_cons_succ, Option.some.injEq] at hx hy
    subst hx hy
    rw [sh.hout] at hx' hy'
    rcases shape_cases sh.hf with ⟨rfl, rfl, rfl, rfl⟩ | ⟨pre', rfl, hbr⟩
    · simp only [List.nil_append, List.getElem?_cons_zero, List.getElem?_cons_succ,
        Option.some.injEq] at hx' hy'
      subst hx' hy'
      rw [hlast, hfirst]
    · simp only [List.cons_append, List.getElem?_cons_zero, List.getElem?_cons_succ,
        Option.some.injEq] at hx' hy'
      subst hx'
      have : y' = b := by
        cases pre' with
        | nil =>
          simp only [List.nil_append, List.cons.injEq] at hbr
          simp only [List.nil_append, List.getElem?_cons_zero, Option.some.injEq] at hy'
          rw [← hy', hbr.1]
        | cons z pre'' =>
          simp only [List.cons_append, List.cons.injEq] at hbr
          simp only [List.cons_append, List.getElem?_cons_zero, Option.some.injEq] at hy'
          rw [← hy', hbr.1]
      rw [this, hfirst]
  · intro x y x' y' hx hy hx' hy'
    rw [sh.hout, getElem?_penult] at hx'
    rw [sh.hout, getElem?_ult] at hy'
    simp only [Option.some.injEq] at hx' hy'
    subst hx' hy'
    rw [sh.ht] at hx hy
    rcases shape_cases sh.hf with ⟨rfl, rfl, rfl, rfl⟩ | ⟨pre', rfl, hbr⟩
    · simp only [List.length_cons, List.length_nil, Nat.reduceAdd, Nat.sub_self, Nat.reduceSub,
        List.getElem?_cons_zero, List.getElem?_cons_succ, Option.some.injEq] at hx hy
      subst hx hy
      rw [hlast, hfirst]
    · rw [hbr, show a :: (pre' ++ [p, l]) = (a :: pre') ++ [p, l] by simp] at hx hy
      rw [getElem?_penult] at hx
      rw [getElem?_ult] at hy
      simp only [Option.some.injEq] at hx hy
      subst hx hy
      exact hlast

theorem first'_fixed {x y : Marker ℚ} (h : x.index = -4) : first' x y = x := by
  cases x with
  | mk i o =>
    simp only at h
    subst h
    simp [first']

theorem last'_fixed {p l : Marker ℚ} {n : Int} (h : adjOf p l n = 0) : last' p l n = l := by
  cases l with
  | mk i o => simp [last', h]

theorem same_head {α} {b : α} {rest pre' : List α} {p l l' : α}
    (h : b :: rest = pre' ++ [p, l]) : ∃ r', pre' ++ [p, l'] = b :: r' := by
  cases pre' with
  | nil =>
    simp only [List.nil_append, List.cons.injEq] at h
    exact ⟨[l'], by rw [h.1]; rfl⟩
  | cons z pre'' =>
    simp only [List.cons_append, List.cons.injEq] at h
    exact ⟨pre'' ++ [p, l'], by rw [h.1]; rfl⟩


/-- Normalising a normalised grid again returns it unchanged (exact over ℚ).  No overflow caveat
is left: the repaired code does its index arithmetic at 64 bits. -/
theorem c20_idempotent (hs : QSorted g) (hi : Idx32 g) (hn : 0 < n)
    (h : normalize qNum g n = .ok out) (hne : g ≠ []) :
    normalize qNum out n = .ok out := by
  obtain ⟨a, b, rest, pre, p, l, sh⟩ := normalize_ok_sshape hs hne hi h
  have hio : Idx32 out := gen_out_idx32 ratNum_ceil32Ok hi h hne
  have hn' : (0 : ℚ) < n := by exact_mod_cast hn
  have hlast := qtempo_last' (n := n) sh.hpli sh.hil
  have hge := last'_ge (n := n) sh.spos
  have hlt := last'_lt (n := n) sh.spos
  have sf' : QSorted (pre ++ [p, l]) := sh.hf ▸ sh.sf
  -- the previous marker is before the end
  have hpn : p.off < n := by
    have := (last'_index_le_iff (n := n) sh.hpli sh.hplo).not.mp (not_le.mpr sh.hil)
    exact not_le.mp this
  -- all but the last marker of `out` are before the end
  have hdl : ∀ m ∈ out.dropLast, m.off < n := by
    rw [sh.hout, show pre ++ [p, last' p l n] = (pre ++ [p]) ++ [last' p l n] by simp,
      List.dropLast_concat]
    intro m hm
    rcases List.mem_append.mp hm with hm | hm
    · have := ((List.pairwise_append.mp sf').2.2 m hm p (by simp)).2
      linarith
    · simp only [List.mem_cons, List.not_mem_nil, or_false] at hm
      rw [hm]; exact hpn
  -- `out` starts with the moved first marker, then a marker after sample 0 and after beat −4
  obtain ⟨y, r, hout2, hy0, hy4⟩ :
      ∃ y r, out = first' a b :: y :: r ∧ 0 < y.off ∧ -4 < y.index := by
    rcases shape_cases sh.hf with ⟨hpre, hp, hl, hrest⟩ | ⟨pre', hpre, hbr⟩
    · refine ⟨last' p l n, [], by rw [sh.hout, hpre, hp]; rfl, by linarith, ?_⟩
      have := sh.hil
      have hpi : p.index = -4 := by rw [hp]; rfl
      omega
    · obtain ⟨r', hr'⟩ := same_head (l' := last' p l n) hbr
      refine ⟨b, r', by rw [sh.hout, hpre, List.cons_append, hr'], ?_, sh.hb4⟩
      exact trim_second_pos hs sh.ht
  have hne' : out ≠ [] := by rw [hout2]; simp
  have htrim : trim qNum out n = first' a b :: y :: r := by
    have := hdl
    rw [hout2] at this ⊢
    exact trim_id hy0 this
  have hadj : adjOf p (last' p l n) n = 0 := by
    apply adjOf_eq_zero
    · rw [hlast]; exact sh.spos
    · exact hge
    · rw [hlast]; exact hlt
  have hf2 : firstOf qNum (first' a b) y :: y :: r = pre ++ [p, last' p l n] := by
    rw [firstOf_q, first'_fixed first'_index, ← hout2, sh.hout]
  rw [normalize_eq_of_shape qNum ratNum_ceil32Ok hne' hio htrim (not_le.mpr hy4) hf2, lastStep_q,
    hadj, last'_fixed hadj]
  have e2 : In32 0 := by constructor <;> omega
  have e3 : ¬ (last' p l n).index + 0 ≤ p.index := by have := sh.hil; omega
  have e4 : ¬ 2147483647 < (last' p l n).index + 0 := by have := sh.hil32; omega
  rw [if_pos e2, if_neg e3, if_neg e4, sh.hout]

/-! ### rejection -/

/-- The last move cannot be carried out in the index type: the number of beats to the end does
not fit `int32_t`, or the new last index would exceed `INT32_MAX`. -/
def Unrepr (p l : Marker ℚ) (n : Int) : Prop :=
  ¬ In32 (adjOf p l n) ∨ 2147483647 < l.index + adjOf p l n

theorem adjOf_first' {a b : Marker ℚ} (hi : a.index < b.index) (h4 : -4 < b.index) :
    adjOf (first' a b) b n = adjOf a b n := by
  unfold adjOf; rw [qtempo_first' hi h4]

/-- The rejection set, exactly (sorted grid with `int` indices). -/
theorem c20_throw_iff (hs : QSorted g) (hi : Idx32 g) (hne : g ≠ []) :
    normalize qNum g n = .throw .invalid_argument ↔
      ((trim qNum g n).length < 2 ∨ (∃ m1, (trim qNum g n)[1]? = some m1 ∧ m1.index ≤ -4) ∨
       (∃ m0 m1, trim qNum g n = [m0, m1] ∧
          (n : ℚ) ≤ m0.off + (((-4 - m0.index : Int)) : ℚ) * qtempo m0 m1) ∨
       (∃ p l, (trim qNum g n)[(trim qNum g n).length - 2]? = some p ∧
          (trim qNum g n)[(trim qNum g n).length - 1]? = some l ∧
          2 ≤ (trim qNum g n).length ∧ Unrepr p l n)) := by
  rcases ht : trim qNum g n with _ | ⟨a, _ | ⟨b, rest⟩⟩
  · exact ⟨fun _ => Or.inl (by simp), fun _ => gen_reject_of hne (Or.inl (by rw [ht]; simp))⟩
  · exact ⟨fun _ => Or.inl (by simp), fun _ => gen_reject_of hne (Or.inl (by rw [ht]; simp))⟩
  · by_cases hb4 : b.index ≤ -4
    · exact ⟨fun _ => Or.inr (Or.inl ⟨b, rfl, hb4⟩),
        fun _ => gen_reject_of hne (Or.inr ⟨b, by rw [ht]; rfl, hb4⟩)⟩
    · obtain ⟨pre, p, l, hf⟩ := exists_append_two (first' a b) b rest
      rw [normalize_eq_of_shape qNum ratNum_ceil32Ok hne hi ht hb4 hf, lastStep_q]
      have st : QSorted (a :: b :: rest) := ht ▸ hs.of_infix (trim_infix qNum g n)
      have hab := (List.pairwise_cons.mp st).1 b (by simp)
      have sf := sorted_first st (not_le.mp hb4)
      have sf' : QSorted (pre ++ [p, l]) := hf ▸ sf
      have hpl := sorted_pl sf'
      have hiff := last'_index_le_iff (n := n) hpl.1 hpl.2
      rw [last'_index] at hiff
      -- the last two markers of the trimmed grid, and how `p`, `l` relate to them
      have hlast2 : ∃ p0, (a :: b :: rest)[(a :: b :: rest).length - 2]? = some p0 ∧
          (a :: b :: rest)[(a :: b :: rest).length - 1]? = some l ∧
          adjOf p0 l n = adjOf p l n ∧ (rest = [] → p0 = a ∧ p = first' a b ∧ l = b) ∧
          (rest ≠ [] → p0 ∈ (a :: b :: rest).dropLast ∧ p0 = p) := by
        rcases shape_cases hf with ⟨-, hp, hl, hrest⟩ | ⟨pre', -, hbr⟩
        · refine ⟨a, by rw [hrest]; rfl, by rw [hrest, hl]; rfl, ?_, fun _ => ⟨rfl, hp, hl⟩,
            fun h => absurd hrest h⟩
          rw [hp, hl]; exact (adjOf_first' hab.1 (not_le.mp hb4)).symm
        · have e : a :: b :: rest = (a :: pre') ++ [p, l] := by rw [hbr]; rfl
          refine ⟨p, by rw [e]; exact getElem?_penult _ _ _, by rw [e]; exact getElem?_ult _ _ _,
            rfl, fun h => ?_, fun _ => ⟨?_, rfl⟩⟩
          · exfalso
            rw [h] at hbr
            have := congrArg List.length hbr
            simp at this
          · rw [e, show (a :: pre') ++ [p, l] = (a :: pre' ++ [p]) ++ [l] by simp,
              List.dropLast_concat]
            simp
      obtain ⟨p0, hp0, hl0, hadj0, htwo, hlong⟩ := hlast2
      have hlen2 : 2 ≤ (a :: b :: rest).length := by simp
      constructor
      · intro h
        right; right
        by_cases h1 : In32 (adjOf p l n)
        · rw [if_pos h1] at h
          by_cases h2 : l.index + adjOf p l n ≤ p.index
          · have hnp : (n : ℚ) ≤ p.off := hiff.mp h2
            by_cases hr : rest = []
            · left
              obtain ⟨-, hp, -⟩ := htwo hr
              refine ⟨a, b, by rw [hr], ?_⟩
              rw [hp, first'_off] at hnp
              push_cast
              linarith
            · exfalso
              obtain ⟨hmem, hpp⟩ := hlong hr
              have := trim_dropLast_lt g n p0 (by rw [ht]; exact hmem)
              rw [hpp] at this
              linarith
          · rw [if_neg h2] at h
            by_cases h3 : 2147483647 < l.index + adjOf p l n
            · right
              exact ⟨p0, l, hp0, hl0, hlen2, Or.inr (by rw [hadj0]; exact h3)⟩
            · rw [if_neg h3] at h
              cases h
        · right
          exact ⟨p0, l, hp0, hl0, hlen2, Or.inl (by rw [hadj0]; exact h1)⟩
      · rintro (hlen | ⟨m1, hm1, hidx⟩ | ⟨m0, m1, hm, hnle⟩ | ⟨p1, l1, hp1, hl1, -, hun⟩)
        · exfalso; simp only [List.length_cons] at hlen; omega
        · simp only [List.getElem?_cons_succ, List.getElem?_cons_zero, Option.some.injEq] at hm1
          subst hm1
          exact absurd hidx hb4
        · simp only [List.cons.injEq] at hm
          obtain ⟨rfl, rfl, hr⟩ := hm
          obtain ⟨-, hp, hl⟩ := htwo hr
          have hle : l.index + adjOf p l n ≤ p.index := by
            apply hiff.mpr
            rw [hp, first'_off]
            push_cast at hnle
            linarith
          by_cases h1 : In32 (adjOf p l n)
          · rw [if_pos h1, if_pos hle]
          · rw [if_neg h1]
        · rw [hp0] at hp1
          rw [hl0] at hl1
          cases hp1; cases hl1
          unfold Unrepr at hun
          rw [hadj0] at hun
          by_cases h1 : In32 (adjOf p l n)
          · rw [if_pos h1]
            by_cases h2 : l.index + adjOf p l n ≤ p.index
            · rw [if_pos h2]
            · rw [if_neg h2]
              rcases hun with hu | hu
              · exact absurd h1 hu
              · rw [if_pos hu]
          · rw [if_neg h1]

/-- Not rejected means normalised: with `int` indices there is no third outcome. -/
theorem c20_ok_of_not_throw (hi : Idx32 g)
    (h : normalize qNum g n ≠ .throw .invalid_argument) : ∃ out, normalize qNum g n = .ok out := by
  rcases gen_ok_or_invalid (num := qNum) (n := n) ratNum_ceil32Ok hi with h' | h'
  · exact h'
  · exact absurd h' h

/-! ### what trimming keeps, in terms of the input grid -/

theorem trim_eq_window_q (hs : QSorted g) (hn : 0 < n) : trim qNum g n = window qNum g n := by
  apply trim_eq_window qNum_ordLaws ((qSorted_iff g).mp hs)
  show decide (((0 : Int) : ℚ) < (n : ℚ)) = true
  exact decide_eq_true (by exact_mod_cast hn)

/-- Fewer than two markers, or wholly at-or-before sample 0, or wholly at-or-beyond the end:
trimming leaves fewer than two markers (no sortedness needed). -/
theorem trim_short_of (h : g.length < 2 ∨ (∀ m ∈ g, m.off ≤ 0) ∨ (∀ m ∈ g, (n : ℚ) ≤ m.off)) :
    (trim qNum g n).length < 2 := by
  rcases h with h | h | h
  · exact lt_of_le_of_lt (trim_infix qNum g n).length_le h
  · unfold trim
    have hte : ∀ m ∈ trimEnd qNum g n, m.off ≤ 0 := fun m hm =>
      h m ((trimEnd_prefix qNum g n).subset hm)
    generalize trimEnd qNum g n = te at hte
    rw [trimStart_eq]
    have hj : te.findIdx (fun m => decide ((0 : ℚ) < m.off)) = te.length := by
      rw [List.findIdx_eq_length]
      intro x hx
      exact decide_eq_false (not_lt.mpr (hte x hx))
    rw [hj]
    split
    · rename_i h0; rw [List.length_eq_zero_iff.mp h0]; simp
    · rw [List.length_drop]; omega
  · have hle : (trimEnd qNum g n).length < 2 := by
      rw [trimEnd_eq]
      cases g with
      | nil => simp
      | cons x xs =>
        have hx : decide ((n : ℚ) ≤ x.off) = true := decide_eq_true (h x (by simp))
        simp [List.findIdx?_cons, hx]
    exact lt_of_le_of_lt (trimStart_suffix qNum _).length_le hle

/-- **A grid overlaps the track exactly when trimming leaves two or more markers**: it has at
least two markers, one of them after sample 0 and one of them before the end. -/
theorem trim_length_ge_two_iff (hs : QSorted g) (hn : 0 < n) :
    2 ≤ (trim qNum g n).length ↔
      2 ≤ g.length ∧ (∃ m ∈ g, 0 < m.off) ∧ (∃ m ∈ g, m.off < (n : ℚ)) := by
  have hn' : (0 : ℚ) < n := by exact_mod_cast hn
  constructor
  · intro h
    by_contra hc
    have : g.length < 2 ∨ (∀ m ∈ g, m.off ≤ 0) ∨ (∀ m ∈ g, (n : ℚ) ≤ m.off) := by
      by_cases h1 : 2 ≤ g.length
      · by_cases h2 : ∃ m ∈ g, 0 < m.off
        · right; right
          intro m hm
          by_contra hlt
          exact hc ⟨h1, h2, m, hm, not_le.mp hlt⟩
        · right; left
          intro m hm
          by_contra hlt
          exact h2 ⟨m, hm, not_le.mp hlt⟩
      · left; omega
    have := trim_short_of (n := n) this
    omega
  · rintro ⟨hlen, ⟨m1, hm1, hpos⟩, ⟨m2, hm2, hend⟩⟩
    have hsb := (qSorted_iff g).mp hs
    unfold trim
    rcases trimEnd_cases (num := qNum) g n with ⟨he, hall⟩ | ⟨i, hi, he, hle, hbefore, hsplit⟩
    · rw [he]
      rcases trimStart_cases (num := qNum) g with ⟨hB, -⟩ | ⟨A, h, t, hte, hB, hh, ht⟩
      · rw [hB]; exact hlen
      · rw [hB]
        rcases ht with rfl | ⟨y, t', rfl, -⟩
        · exfalso
          -- every marker is at or before sample 0
          have hh' : h.off ≤ 0 := not_lt.mp (of_decide_eq_false hh)
          rw [hte] at hm1 hs
          rcases List.mem_append.mp hm1 with hA | hA
          · have := ((List.pairwise_append.mp hs).2.2 m1 hA h (by simp)).2
            linarith
          · simp only [List.mem_cons, List.not_mem_nil, or_false] at hA
            rw [hA] at hpos; linarith
        · simp
    · rw [he]
      have hle' : (n : ℚ) ≤ g[i].off := of_decide_eq_true hle
      have hi0 : i ≠ 0 := by
        rintro rfl
        -- the first marker is already at or beyond the end, so every marker is
        obtain ⟨k, hk, rfl⟩ := List.mem_iff_getElem.mp hm2
        rcases Nat.eq_zero_or_pos k with rfl | hkpos
        · linarith
        · have := (List.pairwise_iff_getElem.mp hs 0 k hi hk hkpos).2
          linarith
      have hlen_te : 2 ≤ (g.take i ++ [g[i]]).length := by
        rw [List.length_append, List.length_take]; simp; omega
      rcases trimStart_cases (num := qNum) (g.take i ++ [g[i]]) with
        ⟨hB, -⟩ | ⟨A, h, t, hte, hB, hh, ht⟩
      · rw [hB]; exact hlen_te
      · rw [hB]
        rcases ht with rfl | ⟨y, t', rfl, -⟩
        · exfalso
          have hh' : h.off ≤ 0 := not_lt.mp (of_decide_eq_false hh)
          have := List.append_inj_right' hte (by simp)
          simp only [List.cons.injEq, and_true] at this
          rw [← this] at hh'
          linarith
        · simp

/-- The first kept marker is at or before sample 0, or it is the first marker of the grid. -/
theorem trim_head_cases {a : Marker ℚ} {r : List (Marker ℚ)} (ht : trim qNum g n = a :: r) :
    a.off ≤ 0 ∨ g.head? = some a := by
  unfold trim at ht
  rcases trimStart_cases (num := qNum) (trimEnd qNum g n) with ⟨hB, -⟩ | ⟨A, h, t, -, hB, hh, -⟩
  · right
    rw [hB] at ht
    obtain ⟨C, hC⟩ := trimEnd_prefix qNum g n
    rw [← hC, ht]; rfl
  · left
    rw [hB] at ht
    cases ht
    exact not_lt.mp (of_decide_eq_false hh)

theorem getLast?_of_suffix {β} {s t r : List β} {l : β} (h : s <:+ t) (hs : s = r ++ [l]) :
    t.getLast? = some l := by
  obtain ⟨pre, rfl⟩ := h
  rw [hs, ← List.append_assoc, List.getLast?_concat]

/-- The last kept marker is at or beyond the end, or it is the last marker of the grid. -/
theorem trim_last_cases {l : Marker ℚ} {r : List (Marker ℚ)} (ht : trim qNum g n = r ++ [l]) :
    (n : ℚ) ≤ l.off ∨ g.getLast? = some l := by
  have hsuf : trim qNum g n <:+ trimEnd qNum g n := trimStart_suffix qNum _
  have hlast := getLast?_of_suffix hsuf ht
  rcases trimEnd_cases (num := qNum) g n with ⟨he, -⟩ | ⟨i, hi, he, hle, -, -⟩
  · right; rw [he] at hlast; exact hlast
  · left
    rw [he, List.getLast?_concat] at hlast
    cases hlast
    exact of_decide_eq_true hle

/-- **Interior markers of the input inside the track are in the result unchanged**: a marker
strictly inside the track that is neither the first nor the last marker of the grid. -/
theorem c20_interior_kept (hs : QSorted g) (hi : Idx32 g) (h : normalize qNum g n = .ok out)
    (hne : g ≠ []) {m : Marker ℚ} (hm : m ∈ g) (h0 : 0 < m.off) (h1 : m.off < (n : ℚ))
    (hbefore : ∃ x ∈ g, x.off < m.off) (hafter : ∃ y ∈ g, m.off < y.off) :
    m ∈ out.dropLast.tail := by
  obtain ⟨a, b, rest, pre, p, l, sh⟩ := normalize_ok_shape_q hne hi h
  have hmt : m ∈ trim qNum g n := trim_keeps hs hm h0 h1
  -- `m` is not the first kept marker
  have hma : m ≠ a := by
    rintro rfl
    rcases trim_head_cases sh.ht with hle | hhead
    · linarith
    · obtain ⟨x, hx, hxm⟩ := hbefore
      cases g with
      | nil => cases hm
      | cons g0 g' =>
        simp only [List.head?_cons, Option.some.injEq] at hhead
        subst hhead
        rcases List.mem_cons.mp hx with rfl | hx
        · linarith
        · have := ((List.pairwise_cons.mp hs).1 x hx).2
          linarith
  -- the trimmed grid ends with `l`
  obtain ⟨r0, hr0, hpre0⟩ : ∃ r0, trim qNum g n = r0 ++ [l] ∧ out.dropLast.tail = r0.tail := by
    rw [sh.ht, sh.hout]
    rcases shape_cases sh.hf with ⟨rfl, rfl, rfl, rfl⟩ | ⟨pre', rfl, hbr⟩
    · exact ⟨[a], rfl, rfl⟩
    · refine ⟨a :: pre' ++ [p], by rw [hbr]; simp, ?_⟩
      rw [show first' a b :: pre' ++ [p, last' p l n] =
        (first' a b :: pre' ++ [p]) ++ [last' p l n] by simp, List.dropLast_concat]
      rfl
  have hml : m ≠ l := by
    rintro rfl
    rcases trim_last_cases hr0 with hle | hlast
    · linarith
    · obtain ⟨y, hy, hmy⟩ := hafter
      obtain ⟨d, z, hdz, hyd⟩ := mem_dropLast_or_last hy
      rw [hdz, List.getLast?_concat] at hlast
      cases hlast
      rcases hyd with hyd | rfl
      · rw [hdz] at hs
        have := ((List.pairwise_append.mp hs).2.2 y hyd m (by simp)).2
        linarith
      · linarith
  rw [hpre0]
  rw [hr0] at hmt
  rcases List.mem_append.mp hmt with hmr | hml'
  · rw [sh.ht] at hr0
    cases r0 with
    | nil => cases hmr
    | cons r00 r0' =>
      have : r00 = a := by
        have := congrArg List.head? hr0
        simpa using this.symm
      subst this
      rcases List.mem_cons.mp hmr with rfl | hmr'
      · exact absurd rfl hma
      · exact hmr'
  · simp only [List.mem_cons, List.not_mem_nil, or_false] at hml'
    exact absurd hml' hml

/-- Conversely, every interior marker of the result is a marker of the input strictly inside
the track. -/
theorem c20_interior_inside (hs : QSorted g) (hi : Idx32 g) (h : normalize qNum g n = .ok out)
    (hne : g ≠ []) {m : Marker ℚ} (hm : m ∈ out.dropLast.tail) :
    m ∈ g ∧ 0 < m.off ∧ m.off < (n : ℚ) := by
  obtain ⟨a, b, rest, pre, p, l, sh⟩ := normalize_ok_sshape hs hne hi h
  have sf' : QSorted (pre ++ [p, l]) := sh.hf ▸ sh.sf
  have hpn : p.off < n := by
    have := (last'_index_le_iff (n := n) sh.hpli sh.hplo).not.mp (not_le.mpr sh.hil)
    exact not_le.mp this
  rw [sh.hout, show pre ++ [p, last' p l n] = (pre ++ [p]) ++ [last' p l n] by simp,
    List.dropLast_concat] at hm
  -- `pre ++ [p]` is the trimmed grid without its last marker, with the first one moved
  have hdl : (first' a b :: b :: rest).dropLast = pre ++ [p] := by
    rw [sh.hf, show pre ++ [p, l] = (pre ++ [p]) ++ [l] by simp, List.dropLast_concat]
  have htail : (pre ++ [p]).tail = (b :: rest).dropLast := by
    rw [← hdl]; rfl
  rw [htail] at hm
  have hmt : m ∈ (trim qNum g n).dropLast := by
    rw [sh.ht]
    show m ∈ (a :: b :: rest).dropLast
    rw [List.dropLast_cons_of_ne_nil (by simp)]
    exact List.mem_cons_of_mem _ hm
  refine ⟨trim_mem (List.dropLast_subset _ hmt), ?_, trim_dropLast_lt g n m hmt⟩
  have hb0 : 0 < b.off := trim_second_pos hs sh.ht
  have hmb : m ∈ b :: rest := List.dropLast_subset _ hm
  rcases List.mem_cons.mp hmb with rfl | hmr
  · exact hb0
  · have := ((List.pairwise_cons.mp (List.pairwise_cons.mp sh.st).2).1 m hmr).2
    linarith

end props

end EngineModel.Pure.Beatgrid
