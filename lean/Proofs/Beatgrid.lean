/-
Helper lemmas for C20 (beat-grid normalisation) over exact rational arithmetic.
`qNum`, `QSorted`, `qtempo` are definitionally the `ratNum`, `Sorted`, `tempo`
of Properties/C20.lean (which only re-exports the results below).
-/
import EngineModel.Pure.Beatgrid
import Mathlib.Data.Rat.Floor
import Mathlib.Tactic.Linarith
import Mathlib.Tactic.FieldSimp
import Mathlib.Tactic.Ring
import Mathlib.Tactic.Positivity

namespace EngineModel.Pure.Beatgrid
open EngineModel

/-- Exact rational arithmetic; `ceil32` is the integer ceiling when it fits `int32_t`. -/
def qNum : Num ℚ where
  ofInt i := (i : ℚ)
  add a b := a + b
  sub a b := a - b
  mul a b := a * b
  div a b := a / b
  lt a b := decide (a < b)
  le a b := decide (a ≤ b)
  ceil32 x := let c := Int.ceil x
    if -2147483648 ≤ c ∧ c ≤ 2147483647 then some c else none

def QSorted (g : List (Marker ℚ)) : Prop :=
  g.Pairwise (fun a b => a.index < b.index ∧ a.off < b.off)

def qtempo (a b : Marker ℚ) : ℚ := (b.off - a.off) / ((b.index - a.index : Int) : ℚ)

/-- `x` fits `int32_t`. -/
def In32 (x : Int) : Prop := -2147483648 ≤ x ∧ x ≤ 2147483647

instance (x : Int) : Decidable (In32 x) := by unfold In32; infer_instance

/-! ### Res / chk32 -/

theorem bind_eq_ok {α β} {x : Res α} {f : α → Res β} {b : β} :
    (x >>= f) = .ok b ↔ ∃ a, x = .ok a ∧ f a = .ok b := by
  cases x <;> simp

theorem chk32_eq (x : Int) : chk32 x = if In32 x then .ok x else .ub .signed_overflow := rfl

theorem chk32_of_in32 {x : Int} (h : In32 x) : chk32 x = .ok x := by
  rw [chk32_eq, if_pos h]

theorem chk32_eq_ok {x y : Int} : chk32 x = .ok y ↔ (x = y ∧ In32 x) := by
  rw [chk32_eq]; split <;> simp_all

theorem chk32_cases (x : Int) :
    (In32 x ∧ chk32 x = .ok x) ∨ (¬ In32 x ∧ chk32 x = .ub .signed_overflow) := by
  rw [chk32_eq]; by_cases h : In32 x <;> simp [h]

/-! ### the two moves, over ℚ, in closed form -/

/-- The moved first marker. -/
def first' (a b : Marker ℚ) : Marker ℚ :=
  ⟨-4, a.off - ((4 + a.index : Int) : ℚ) * qtempo a b⟩

/-- Number of beats the last marker is moved by. -/
def adjOf (p l : Marker ℚ) (n : Int) : Int := ⌈((n : ℚ) - l.off) / qtempo p l⌉

/-- The moved last marker. -/
def last' (p l : Marker ℚ) (n : Int) : Marker ℚ :=
  ⟨l.index + adjOf p l n, l.off + ((adjOf p l n : Int) : ℚ) * qtempo p l⟩

theorem fixFirst_cons_cons (a b : Marker ℚ) (rest : List (Marker ℚ)) :
    fixFirst qNum (a :: b :: rest) =
      (chk32 (b.index - a.index) >>= fun di => chk32 (4 + a.index) >>= fun k =>
        .ok (⟨-4, a.off - (k : ℚ) * ((b.off - a.off) / (di : ℚ))⟩ :: b :: rest)) := rfl

theorem fixFirst_short (g : List (Marker ℚ)) (h : g.length < 2) : fixFirst qNum g = .ok g := by
  rcases g with _ | ⟨a, _ | ⟨b, rest⟩⟩
  · rfl
  · rfl
  · simp at h; omega

theorem fixFirst_eq (a b : Marker ℚ) (rest : List (Marker ℚ)) :
    fixFirst qNum (a :: b :: rest) =
      if In32 (b.index - a.index) ∧ In32 (4 + a.index) then .ok (first' a b :: b :: rest)
      else .ub .signed_overflow := by
  rw [fixFirst_cons_cons]
  rcases chk32_cases (b.index - a.index) with ⟨h1, e1⟩ | ⟨h1, e1⟩ <;>
  rcases chk32_cases (4 + a.index) with ⟨h2, e2⟩ | ⟨h2, e2⟩ <;>
  simp [e1, e2, h1, h2, first', qtempo]

theorem fixLast_append_two (pre : List (Marker ℚ)) (p l : Marker ℚ) (n : Int) :
    fixLast qNum (pre ++ [p, l]) n =
      if ¬ In32 (l.index - p.index) then .ub .signed_overflow
      else if ¬ In32 (adjOf p l n) then .ub .float_cast_range
      else if l.index + adjOf p l n ≤ p.index then .throw .invalid_argument
      else if ¬ In32 (l.index + adjOf p l n) then .ub .signed_overflow
      else .ok (pre ++ [p, last' p l n]) := by
  have hr : (pre ++ [p, l]).reverse = l :: p :: pre.reverse := by simp
  unfold fixLast
  rw [hr]
  dsimp only
  rcases chk32_cases (l.index - p.index) with ⟨h1, e1⟩ | ⟨h1, e1⟩
  · rw [e1, if_neg (not_not.mpr h1)]
    simp only [Res.bind_ok]
    show (match (if In32 (adjOf p l n) then some (adjOf p l n) else none) with
      | none => _ | some adj => _) = _
    by_cases h2 : In32 (adjOf p l n)
    · rw [if_pos h2, if_neg (not_not.mpr h2)]
      dsimp only
      by_cases h3 : l.index + adjOf p l n ≤ p.index
      · rw [if_pos h3, if_pos h3]
      · rw [if_neg h3, if_neg h3]
        rcases chk32_cases (l.index + adjOf p l n) with ⟨h4, e4⟩ | ⟨h4, e4⟩
        · rw [if_neg (not_not.mpr h4)]
          show (chk32 (l.index + adjOf p l n) >>= _) = _
          rw [e4]
          simp [last', qNum, adjOf, qtempo]
        · rw [if_pos h4]
          show (chk32 (l.index + adjOf p l n) >>= _) = _
          rw [e4]; rfl
    · rw [if_neg h2, if_pos h2]
  · rw [e1, if_pos h1]; rfl

theorem fixLast_short (g : List (Marker ℚ)) (n : Int) (h : g.length < 2) :
    fixLast qNum g n = .ok g := by
  rcases g with _ | ⟨a, _ | ⟨b, rest⟩⟩
  · rfl
  · rfl
  · simp at h; omega

/-! ### arithmetic of one segment -/

section arith
variable {a b p l : Marker ℚ} {n : Int}

theorem idx_cast_pos (hi : a.index < b.index) : (0 : ℚ) < (b.index : ℚ) - a.index := by
  have : (a.index : ℚ) < b.index := by exact_mod_cast hi
  linarith

theorem qtempo_eq (a b : Marker ℚ) : qtempo a b = (b.off - a.off) / ((b.index : ℚ) - a.index) := by
  unfold qtempo; push_cast; rfl

theorem qtempo_pos (hi : a.index < b.index) (ho : a.off < b.off) : 0 < qtempo a b := by
  rw [qtempo_eq]
  exact div_pos (by linarith) (idx_cast_pos hi)

theorem qtempo_mul (hi : a.index < b.index) :
    qtempo a b * ((b.index : ℚ) - a.index) = b.off - a.off := by
  rw [qtempo_eq]
  have := (idx_cast_pos hi).ne'
  field_simp

@[simp] theorem first'_index : (first' a b).index = -4 := rfl

theorem first'_off (a b : Marker ℚ) :
    (first' a b).off = a.off - ((4 : ℚ) + a.index) * qtempo a b := by
  unfold first'; push_cast; rfl

theorem first'_sub (hi : a.index < b.index) :
    b.off - (first' a b).off = qtempo a b * ((b.index : ℚ) + 4) := by
  rw [first'_off]
  have := qtempo_mul (a := a) (b := b) hi
  linarith

theorem first'_lt (hi : a.index < b.index) (ho : a.off < b.off) (h4 : -4 < b.index) :
    (first' a b).off < b.off := by
  have h1 := first'_sub (a := a) (b := b) hi
  have h2 := qtempo_pos hi ho
  have h3 : (0 : ℚ) < (b.index : ℚ) + 4 := by
    have : ((-4 : Int) : ℚ) < b.index := by exact_mod_cast h4
    push_cast at this; linarith
  have := mul_pos h2 h3
  linarith

theorem qtempo_first' (hi : a.index < b.index) (h4 : -4 < b.index) :
    qtempo (first' a b) b = qtempo a b := by
  have h3 : (0 : ℚ) < (b.index : ℚ) + 4 := by
    have : ((-4 : Int) : ℚ) < b.index := by exact_mod_cast h4
    push_cast at this; linarith
  rw [qtempo_eq (first' a b) b, first'_sub hi, first'_index]
  push_cast
  have : (b.index : ℚ) - -4 = (b.index : ℚ) + 4 := by ring
  rw [this]
  field_simp

theorem first'_le (hi : a.index < b.index) (ho : a.off < b.off) (h4 : -4 ≤ a.index) :
    (first' a b).off ≤ a.off := by
  rw [first'_off]
  have h2 := qtempo_pos hi ho
  have h3 : (0 : ℚ) ≤ (4 : ℚ) + a.index := by
    have : ((-4 : Int) : ℚ) ≤ a.index := by exact_mod_cast h4
    push_cast at this; linarith
  have := mul_nonneg h3 h2.le
  linarith

@[simp] theorem last'_index : (last' p l n).index = l.index + adjOf p l n := rfl

theorem last'_off (p l : Marker ℚ) (n : Int) :
    (last' p l n).off = l.off + (adjOf p l n : ℚ) * qtempo p l := rfl

theorem last'_ge (hs : 0 < qtempo p l) : (n : ℚ) ≤ (last' p l n).off := by
  rw [last'_off]
  have h := Int.le_ceil (((n : ℚ) - l.off) / qtempo p l)
  rw [div_le_iff₀ hs] at h
  unfold adjOf
  linarith

theorem last'_lt (hs : 0 < qtempo p l) : (last' p l n).off < (n : ℚ) + qtempo p l := by
  rw [last'_off]
  have h := Int.ceil_lt_add_one (((n : ℚ) - l.off) / qtempo p l)
  rw [← sub_lt_iff_lt_add, lt_div_iff₀ hs] at h
  unfold adjOf
  linarith

theorem last'_sub (hi : p.index < l.index) :
    (last' p l n).off - p.off = qtempo p l * (((last' p l n).index : ℚ) - p.index) := by
  rw [last'_off, last'_index]
  have := qtempo_mul (a := p) (b := l) hi
  push_cast
  linarith

theorem qtempo_last' (hi : p.index < l.index) (h : p.index < (last' p l n).index) :
    qtempo p (last' p l n) = qtempo p l := by
  rw [qtempo_eq p (last' p l n), last'_sub hi]
  have := (idx_cast_pos h).ne'
  field_simp

/-- The new check of `fixLast` fires exactly when the track ends at or before the previous marker. -/
theorem last'_index_le_iff (hi : p.index < l.index) (ho : p.off < l.off) :
    (last' p l n).index ≤ p.index ↔ (n : ℚ) ≤ p.off := by
  have hs := qtempo_pos hi ho
  have hm := qtempo_mul (a := p) (b := l) hi
  rw [last'_index]
  have e : l.index + adjOf p l n ≤ p.index ↔ adjOf p l n ≤ p.index - l.index := by omega
  rw [e]
  unfold adjOf
  rw [Int.ceil_le, div_le_iff₀ hs]
  push_cast
  constructor <;> intro h <;> nlinarith

theorem adjOf_eq_zero (hs : 0 < qtempo p l) (h1 : (n : ℚ) ≤ l.off)
    (h2 : l.off < (n : ℚ) + qtempo p l) : adjOf p l n = 0 := by
  unfold adjOf
  rw [Int.ceil_eq_iff]
  constructor
  · rw [lt_div_iff₀ hs]; push_cast; linarith
  · rw [div_le_iff₀ hs]; push_cast; linarith

end arith

/-! ### trimming -/

section trim

theorem trimEnd_eq (g : List (Marker ℚ)) (n : Int) :
    trimEnd qNum g n = match g.findIdx? (fun m => decide ((n : ℚ) ≤ m.off)) with
      | some i => g.take (i + 1)
      | none => g := rfl

theorem trimStart_eq (g : List (Marker ℚ)) :
    trimStart qNum g =
      if g.findIdx (fun m => decide ((0 : ℚ) < m.off)) = 0 then g
      else g.drop (g.findIdx (fun m => decide ((0 : ℚ) < m.off)) - 1) := by
  simp [trimStart, qNum]

theorem trimEnd_prefix (g : List (Marker ℚ)) (n : Int) : trimEnd qNum g n <+: g := by
  rw [trimEnd_eq]; split
  · exact List.take_prefix _ _
  · exact List.prefix_refl _

theorem trimStart_suffix (g : List (Marker ℚ)) : trimStart qNum g <:+ g := by
  rw [trimStart_eq]; split
  · exact List.suffix_refl _
  · exact List.drop_suffix _ _

theorem trim_infix (g : List (Marker ℚ)) (n : Int) : trim qNum g n <:+: g :=
  (trimStart_suffix _).isInfix.trans (trimEnd_prefix g n).isInfix

theorem QSorted.of_infix {l₁ l₂ : List (Marker ℚ)} (h : l₁ <:+: l₂) (hs : QSorted l₂) :
    QSorted l₁ := List.Pairwise.sublist h.sublist hs

theorem dropLast_subset_of_suffix {α} {l₁ l₂ : List α} (h : l₁ <:+ l₂) :
    l₁.dropLast ⊆ l₂.dropLast := by
  obtain ⟨s, rfl⟩ := h
  by_cases hn : l₁ = []
  · subst hn; simp
  · rw [List.dropLast_append_of_ne_nil hn]; exact List.subset_append_right _ _

theorem mem_dropLast_iff_getElem {α} {l : List α} {a : α} :
    a ∈ l.dropLast ↔ ∃ (i : Nat) (h : i + 1 < l.length), l[i]'(by omega) = a := by
  rw [List.dropLast_eq_take, List.mem_take_iff_getElem]
  constructor
  · rintro ⟨j, hj, rfl⟩; exact ⟨j, by omega, rfl⟩
  · rintro ⟨j, hj, rfl⟩; exact ⟨j, by omega, rfl⟩

theorem trimEnd_dropLast_lt (g : List (Marker ℚ)) (n : Int) :
    ∀ m ∈ (trimEnd qNum g n).dropLast, m.off < n := by
  intro m hm
  rw [trimEnd_eq] at hm
  split at hm
  · rename_i i hi
    rw [List.findIdx?_eq_some_iff_getElem] at hi
    obtain ⟨hlt, -, hlt'⟩ := hi
    rw [mem_dropLast_iff_getElem] at hm
    obtain ⟨j, hj, rfl⟩ := hm
    rw [List.length_take] at hj
    have := hlt' j (by omega)
    simpa using this
  · rename_i hi
    rw [List.findIdx?_eq_none_iff] at hi
    have := hi m (List.dropLast_subset _ hm)
    simpa using this

theorem trim_dropLast_lt (g : List (Marker ℚ)) (n : Int) :
    ∀ m ∈ (trim qNum g n).dropLast, m.off < n := fun m hm =>
  trimEnd_dropLast_lt g n m (dropLast_subset_of_suffix (trimStart_suffix _) hm)

theorem trimStart_second_pos {te : List (Marker ℚ)} {a b : Marker ℚ} {rest : List (Marker ℚ)}
    (hs : QSorted te) (h : trimStart qNum te = a :: b :: rest) : 0 < b.off := by
  rw [trimStart_eq] at h
  split at h
  · rename_i hj
    subst h
    rw [List.findIdx_cons] at hj
    have ha : 0 < a.off := by
      by_contra hc
      simp [hc] at hj
    have := (List.pairwise_cons.mp hs).1 b (by simp)
    linarith [this.2]
  · rename_i hj
    have h1 : (te.drop (te.findIdx (fun m => decide ((0 : ℚ) < m.off)) - 1))[1]? = some b := by
      rw [h]; rfl
    rw [List.getElem?_drop] at h1
    rw [show te.findIdx (fun m => decide ((0 : ℚ) < m.off)) - 1 + 1
          = te.findIdx (fun m => decide ((0 : ℚ) < m.off)) by omega] at h1
    have := List.findIdx_of_getElem?_eq_some h1
    simpa using this

theorem trim_second_pos {g : List (Marker ℚ)} {n : Int} {a b : Marker ℚ}
    {rest : List (Marker ℚ)} (hs : QSorted g) (h : trim qNum g n = a :: b :: rest) : 0 < b.off :=
  trimStart_second_pos (hs.of_infix (trimEnd_prefix g n).isInfix) h

theorem trimEnd_keeps {g : List (Marker ℚ)} {n : Int} (hs : QSorted g) {m : Marker ℚ}
    (hm : m ∈ g) (h1 : m.off < n) : m ∈ trimEnd qNum g n := by
  rw [trimEnd_eq]
  split
  · rename_i i hi
    rw [List.findIdx?_eq_some_iff_getElem] at hi
    obtain ⟨hlt, hp, -⟩ := hi
    have hp' : (n : ℚ) ≤ g[i].off := by simpa using hp
    obtain ⟨k, hk, rfl⟩ := List.mem_iff_getElem.mp hm
    have hki : k < i := by
      by_contra hc
      rcases Nat.lt_or_ge i k with h | h
      · have := (List.pairwise_iff_getElem.mp hs i k hlt hk h).2
        linarith
      · have : k = i := by omega
        subst this; linarith
    rw [List.mem_take_iff_getElem]
    exact ⟨k, by omega, rfl⟩
  · exact hm

theorem trimStart_keeps {te : List (Marker ℚ)} {m : Marker ℚ} (hm : m ∈ te) (h0 : 0 < m.off) :
    m ∈ trimStart qNum te := by
  rw [trimStart_eq]
  split
  · exact hm
  · obtain ⟨k, hk, rfl⟩ := List.mem_iff_getElem.mp hm
    have hjk : te.findIdx (fun m => decide ((0 : ℚ) < m.off)) ≤ k := by
      by_contra hc
      have := List.not_of_lt_findIdx (p := fun m : Marker ℚ => decide ((0 : ℚ) < m.off))
        (xs := te) (i := k) (by omega)
      simp at this
      linarith
    rw [List.mem_drop_iff_getElem]
    refine ⟨k - (te.findIdx (fun m => decide ((0 : ℚ) < m.off)) - 1), by omega, ?_⟩
    congr 1; omega

theorem trim_keeps {g : List (Marker ℚ)} {n : Int} (hs : QSorted g) {m : Marker ℚ}
    (hm : m ∈ g) (h0 : 0 < m.off) (h1 : m.off < n) : m ∈ trim qNum g n :=
  trimStart_keeps (trimEnd_keeps hs hm h1) h0

theorem trimEnd_id {l : List (Marker ℚ)} {n : Int} (h : ∀ m ∈ l.dropLast, m.off < n) :
    trimEnd qNum l n = l := by
  rw [trimEnd_eq]
  split
  · rename_i i hi
    rw [List.findIdx?_eq_some_iff_getElem] at hi
    obtain ⟨hlt, hp, -⟩ := hi
    have hp' : (n : ℚ) ≤ l[i].off := by simpa using hp
    apply List.take_of_length_le
    by_contra hc
    have := h l[i] (mem_dropLast_iff_getElem.mpr ⟨i, by omega, rfl⟩)
    linarith
  · rfl

theorem trimStart_id {x y : Marker ℚ} {r : List (Marker ℚ)} (h : 0 < y.off) :
    trimStart qNum (x :: y :: r) = x :: y :: r := by
  rw [trimStart_eq]
  by_cases hx : 0 < x.off <;> simp [List.findIdx_cons, hx, h]

theorem trim_id {x y : Marker ℚ} {r : List (Marker ℚ)} {n : Int} (h : 0 < y.off)
    (h' : ∀ m ∈ (x :: y :: r).dropLast, m.off < n) : trim qNum (x :: y :: r) n = x :: y :: r := by
  unfold trim; rw [trimEnd_id h', trimStart_id h]

end trim

/-! ### shape of a successful normalisation -/

section shape

theorem normalize_eq {g : List (Marker ℚ)} (hne : g ≠ []) (n : Int) :
    normalize qNum g n = match trim qNum g n with
      | a :: b :: rest => if b.index ≤ -4 then .throw .invalid_argument
          else fixFirst qNum (a :: b :: rest) >>= fun f => fixLast qNum f n
      | _ => .throw .invalid_argument := by
  unfold normalize
  have he : g.isEmpty = false := by cases g <;> simp_all
  rw [he]
  simp only [Bool.false_eq_true, if_false]
  generalize trim qNum g n = t
  rcases t with _ | ⟨a, _ | ⟨b, rest⟩⟩ <;> rfl

theorem exists_append_two {α} (x y : α) (r : List α) : ∃ pre p l, x :: y :: r = pre ++ [p, l] := by
  induction r generalizing x y with
  | nil => exact ⟨[], x, y, rfl⟩
  | cons z r ih =>
    obtain ⟨pre, p, l, h⟩ := ih y z
    exact ⟨x :: pre, p, l, by rw [h]; rfl⟩

theorem shape_cases {α} {a' b : α} {rest pre : List α} {p l : α}
    (h : a' :: b :: rest = pre ++ [p, l]) :
    (pre = [] ∧ p = a' ∧ l = b ∧ rest = []) ∨
      ∃ pre', pre = a' :: pre' ∧ b :: rest = pre' ++ [p, l] := by
  cases pre with
  | nil =>
    left
    simp only [List.nil_append, List.cons.injEq] at h
    obtain ⟨rfl, rfl, rfl⟩ := h
    simp
  | cons x pre' =>
    right
    simp only [List.cons_append, List.cons.injEq] at h
    exact ⟨pre', by rw [h.1], h.2⟩

/-- Everything one learns from `normalize qNum g n = .ok out` (no sortedness needed). -/
structure Shape (g : List (Marker ℚ)) (n : Int) (out : List (Marker ℚ))
    (a b : Marker ℚ) (rest pre : List (Marker ℚ)) (p l : Marker ℚ) : Prop where
  ht : trim qNum g n = a :: b :: rest
  hb4 : -4 < b.index
  hdi : In32 (b.index - a.index)
  hk : In32 (4 + a.index)
  hf : first' a b :: b :: rest = pre ++ [p, l]
  hdl : In32 (l.index - p.index)
  hadj : In32 (adjOf p l n)
  hil : p.index < (last' p l n).index
  hil32 : In32 (last' p l n).index
  hout : out = pre ++ [p, last' p l n]

theorem normalize_ok_shape {g out : List (Marker ℚ)} {n : Int} (hne : g ≠ [])
    (h : normalize qNum g n = .ok out) :
    ∃ a b rest pre p l, Shape g n out a b rest pre p l := by
  rw [normalize_eq hne] at h
  split at h
  · rename_i a b rest ht
    split at h
    · exact absurd h (by simp)
    · rename_i hb4
      rw [fixFirst_eq] at h
      split at h
      · rename_i h12
        simp only [Res.bind_ok] at h
        obtain ⟨pre, p, l, hf⟩ := exists_append_two (first' a b) b rest
        rw [hf, fixLast_append_two] at h
        split_ifs at h with h1 h2 h3 h4
        simp only [Res.ok.injEq] at h
        exact ⟨a, b, rest, pre, p, l, ht, by omega, h12.1, h12.2, hf, h1,
          h2, by rw [last'_index]; omega, h4, h.symm⟩
      · exact absurd h (by simp)
  · exact absurd h (by simp)

/-- Sortedness consequences. -/
theorem sorted_first {a b : Marker ℚ} {rest : List (Marker ℚ)} (hs : QSorted (a :: b :: rest))
    (hb4 : -4 < b.index) : QSorted (first' a b :: b :: rest) := by
  unfold QSorted at hs ⊢
  rw [List.pairwise_cons] at hs ⊢
  obtain ⟨hab, hs'⟩ := hs
  have hab' := hab b (by simp)
  have hfb : (first' a b).index < b.index ∧ (first' a b).off < b.off :=
    ⟨by simpa using hb4, first'_lt hab'.1 hab'.2 hb4⟩
  refine ⟨?_, hs'⟩
  intro x hx
  rcases List.mem_cons.mp hx with rfl | hx
  · exact hfb
  · have := (List.pairwise_cons.mp hs').1 x hx
    exact ⟨by omega, by linarith [this.2, hfb.2]⟩

theorem sorted_pl {pre : List (Marker ℚ)} {p l : Marker ℚ} (hs : QSorted (pre ++ [p, l])) :
    p.index < l.index ∧ p.off < l.off := by
  unfold QSorted at hs
  rw [List.pairwise_append] at hs
  exact (List.pairwise_cons.mp hs.2.1).1 l (by simp)

theorem last'_off_gt {p l : Marker ℚ} {n : Int} (hi : p.index < l.index) (ho : p.off < l.off)
    (hil : p.index < (last' p l n).index) : p.off < (last' p l n).off := by
  have h1 := last'_sub (p := p) (l := l) (n := n) hi
  have h2 := mul_pos (qtempo_pos hi ho) (idx_cast_pos hil)
  linarith

theorem sorted_last {pre : List (Marker ℚ)} {p l : Marker ℚ} {n : Int}
    (hs : QSorted (pre ++ [p, l])) (hil : p.index < (last' p l n).index) :
    QSorted (pre ++ [p, last' p l n]) := by
  obtain ⟨hi, ho⟩ := sorted_pl hs
  have hgt := last'_off_gt hi ho hil
  unfold QSorted at hs ⊢
  rw [List.pairwise_append] at hs ⊢
  obtain ⟨h1, -, h3⟩ := hs
  refine ⟨h1, ?_, ?_⟩
  · simp only [List.pairwise_cons, List.mem_cons, List.not_mem_nil, or_false, forall_eq,
      List.Pairwise.nil, and_true, false_imp_iff, implies_true]
    exact ⟨hil, hgt⟩
  · intro x hx y hy
    have hxp := h3 x hx p (by simp)
    simp only [List.mem_cons, List.not_mem_nil, or_false] at hy
    rcases hy with rfl | rfl
    · exact hxp
    · exact ⟨by omega, by linarith [hxp.2]⟩

/-- `Shape` plus the order facts that need a sorted input. -/
structure SShape (g : List (Marker ℚ)) (n : Int) (out : List (Marker ℚ))
    (a b : Marker ℚ) (rest pre : List (Marker ℚ)) (p l : Marker ℚ) : Prop
    extends Shape g n out a b rest pre p l where
  st : QSorted (a :: b :: rest)
  habi : a.index < b.index
  habo : a.off < b.off
  sf : QSorted (first' a b :: b :: rest)
  hpli : p.index < l.index
  hplo : p.off < l.off
  spos : 0 < qtempo p l
  sout : QSorted out

theorem Shape.toSShape {g out : List (Marker ℚ)} {n : Int} {a b : Marker ℚ}
    {rest pre : List (Marker ℚ)} {p l : Marker ℚ} (hs : QSorted g)
    (sh : Shape g n out a b rest pre p l) : SShape g n out a b rest pre p l := by
  have st : QSorted (a :: b :: rest) := sh.ht ▸ hs.of_infix (trim_infix g n)
  have hab := (List.pairwise_cons.mp st).1 b (by simp)
  have sf := sorted_first st sh.hb4
  have sf' : QSorted (pre ++ [p, l]) := sh.hf ▸ sf
  have hpl := sorted_pl sf'
  exact { sh with
    st := st, habi := hab.1, habo := hab.2, sf := sf, hpli := hpl.1, hplo := hpl.2,
    spos := qtempo_pos hpl.1 hpl.2, sout := sh.hout ▸ sorted_last sf' sh.hil }

theorem normalize_ok_sshape {g out : List (Marker ℚ)} {n : Int} (hs : QSorted g) (hne : g ≠ [])
    (h : normalize qNum g n = .ok out) :
    ∃ a b rest pre p l, SShape g n out a b rest pre p l := by
  obtain ⟨a, b, rest, pre, p, l, sh⟩ := normalize_ok_shape hne h
  exact ⟨a, b, rest, pre, p, l, sh.toSShape hs⟩

end shape

/-! ### the C20 statements, over `qNum` -/

section props
variable {g out : List (Marker ℚ)} {n : Int}

theorem getElem?_penult {α} (pre : List α) (p l : α) :
    (pre ++ [p, l])[(pre ++ [p, l]).length - 2]? = some p := by
  simp

theorem getElem?_ult {α} (pre : List α) (p l : α) :
    (pre ++ [p, l])[(pre ++ [p, l]).length - 1]? = some l := by
  have : (pre ++ [p, l]).length - 1 = pre.length + 1 := by simp
  rw [this, List.getElem?_append_right (by omega)]
  simp

theorem c20_interior_unchanged (h : normalize qNum g n = .ok out) (hne : g ≠ []) :
    out.length = (trim qNum g n).length ∧
    ∀ i, 0 < i → i + 1 < out.length → out[i]? = (trim qNum g n)[i]? := by
  obtain ⟨a, b, rest, pre, p, l, sh⟩ := normalize_ok_shape hne h
  have hlen : rest.length + 2 = pre.length + 2 := by simpa using congrArg List.length sh.hf
  rw [sh.ht, sh.hout]
  refine ⟨by simp only [List.length_append, List.length_cons, List.length_nil]; omega, ?_⟩
  intro i hi0 hi
  have hi' : i < pre.length + 1 := by
    simp only [List.length_append, List.length_cons, List.length_nil] at hi; omega
  have e1 : (pre ++ [p, last' p l n])[i]? = (pre ++ [p, l])[i]? := by
    rw [show pre ++ [p, last' p l n] = (pre ++ [p]) ++ [last' p l n] by simp,
      show pre ++ [p, l] = (pre ++ [p]) ++ [l] by simp]
    have hlen' : i < (pre ++ [p]).length := by
      simp only [List.length_append, List.length_cons, List.length_nil]; omega
    rw [List.getElem?_append_left hlen', List.getElem?_append_left hlen']
  rw [e1, ← sh.hf]
  cases i with
  | zero => omega
  | succ j => rfl

theorem c20_first_index (h : normalize qNum g n = .ok out) (hne : g ≠ []) :
    ∃ m, out.head? = some m ∧ m.index = -4 := by
  obtain ⟨a, b, rest, pre, p, l, sh⟩ := normalize_ok_shape hne h
  rw [sh.hout]
  rcases shape_cases sh.hf with ⟨rfl, rfl, rfl, rfl⟩ | ⟨pre', rfl, -⟩
  · exact ⟨_, rfl, rfl⟩
  · exact ⟨_, rfl, rfl⟩

theorem c20_sorted (hs : QSorted g) (h : normalize qNum g n = .ok out) (hne : g ≠ []) :
    QSorted out := by
  obtain ⟨a, b, rest, pre, p, l, sh⟩ := normalize_ok_sshape hs hne h
  exact sh.sout

theorem c20_bracket (hs : QSorted g) (h : normalize qNum g n = .ok out) (hne : g ≠ []) :
    ∃ p l, out[out.length - 2]? = some p ∧ out[out.length - 1]? = some l ∧
      (n : ℚ) ≤ l.off ∧ l.off < (n : ℚ) + qtempo p l := by
  obtain ⟨a, b, rest, pre, p, l, sh⟩ := normalize_ok_sshape hs hne h
  refine ⟨p, last' p l n, ?_, ?_, last'_ge sh.spos, ?_⟩
  · rw [sh.hout]; exact getElem?_penult _ _ _
  · rw [sh.hout]; exact getElem?_ult _ _ _
  · rw [qtempo_last' sh.hpli sh.hil]; exact last'_lt sh.spos

theorem c20_tempo_kept (hs : QSorted g) (h : normalize qNum g n = .ok out) (hne : g ≠ []) :
    (∀ x y x' y', (trim qNum g n)[0]? = some x → (trim qNum g n)[1]? = some y →
        out[0]? = some x' → out[1]? = some y' → qtempo x' y' = qtempo x y) ∧
    (∀ x y x' y', (trim qNum g n)[(trim qNum g n).length - 2]? = some x →
        (trim qNum g n)[(trim qNum g n).length - 1]? = some y →
        out[out.length - 2]? = some x' → out[out.length - 1]? = some y' →
        qtempo x' y' = qtempo x y) := by
  obtain ⟨a, b, rest, pre, p, l, sh⟩ := normalize_ok_sshape hs hne h
  have hfirst := qtempo_first' sh.habi sh.hb4
  have hlast := qtempo_last' (n := n) sh.hpli sh.hil
  constructor
  · intro x y x' y' hx hy hx' hy'
    rw [sh.ht] at hx hy
    simp only [List.getElem?_cons_zero, List.getElem?_cons_succ, Option.some.injEq] at hx hy
    subst hx hy
    rw [sh.hout] at hx' hy'
    rcases shape_cases sh.hf with ⟨rfl, rfl, rfl, rfl⟩ | ⟨pre', rfl, hbr⟩
    · simp only [List.nil_append, List.getElem?_cons_zero, List.getElem?_cons_succ,
        Option.some.injEq] at hx' hy'
      subst hx' hy'
      rw [hlast, hfirst]
    · simp only [List.cons_append, List.getElem?_cons_zero, List.getElem?_cons_succ,
        Option.some.injEq] at hx' hy'
      subst hx'
      have : y' = b := by
        cases pre' with
        | nil =>
          simp only [List.nil_append, List.cons.injEq] at hbr
          simp only [List.nil_append, List.getElem?_cons_zero, Option.some.injEq] at hy'
          rw [← hy', hbr.1]
        | cons z pre'' =>
          simp only [List.cons_append, List.cons.injEq] at hbr
          simp only [List.cons_append, List.getElem?_cons_zero, Option.some.injEq] at hy'
          rw [← hy', hbr.1]
      rw [this, hfirst]
  · intro x y x' y' hx hy hx' hy'
    rw [sh.hout, getElem?_penult] at hx'
    rw [sh.hout, getElem?_ult] at hy'
    simp only [Option.some.injEq] at hx' hy'
    subst hx' hy'
    rw [sh.ht] at hx hy
    rcases shape_cases sh.hf with ⟨rfl, rfl, rfl, rfl⟩ | ⟨pre', rfl, hbr⟩
    · simp only [List.length_cons, List.length_nil, Nat.reduceAdd, Nat.sub_self, Nat.reduceSub,
        List.getElem?_cons_zero, List.getElem?_cons_succ, Option.some.injEq] at hx hy
      subst hx hy
      rw [hlast, hfirst]
    · rw [hbr, show a :: (pre' ++ [p, l]) = (a :: pre') ++ [p, l] by simp] at hx hy
      rw [getElem?_penult] at hx
      rw [getElem?_ult] at hy
      simp only [Option.some.injEq] at hx hy
      subst hx hy
      exact hlast

theorem first'_fixed {x y : Marker ℚ} (h : x.index = -4) : first' x y = x := by
  cases x with
  | mk i o =>
    simp only at h
    subst h
    simp [first']

theorem last'_fixed {p l : Marker ℚ} {n : Int} (h : adjOf p l n = 0) : last' p l n = l := by
  cases l with
  | mk i o => simp [last', h]

theorem same_head {α} {b : α} {rest pre' : List α} {p l l' : α}
    (h : b :: rest = pre' ++ [p, l]) : ∃ r', pre' ++ [p, l'] = b :: r' := by
  cases pre' with
  | nil =>
    simp only [List.nil_append, List.cons.injEq] at h
    exact ⟨[l'], by rw [h.1]; rfl⟩
  | cons z pre'' =>
    simp only [List.cons_append, List.cons.injEq] at h
    exact ⟨pre'' ++ [p, l'], by rw [h.1]; rfl⟩

/-- Exact outcome of normalising a normalised grid again: it is returned unchanged unless one of
three `int` computations (`second.index + 4`, `last.index − prev.index`, `last.index`) leaves
`int32_t`. -/
theorem c20_renormalize (hs : QSorted g) (hn : 0 < n) (h : normalize qNum g n = .ok out)
    (hne : g ≠ []) :
    ∃ y p l', out[1]? = some y ∧ out[out.length - 2]? = some p ∧
      out[out.length - 1]? = some l' ∧ -4 < y.index ∧ -4 ≤ p.index ∧ p.index < l'.index ∧
      normalize qNum out n =
        if In32 (y.index + 4) ∧ In32 (l'.index - p.index) ∧ In32 l'.index then .ok out
        else .ub .signed_overflow := by
  obtain ⟨a, b, rest, pre, p, l, sh⟩ := normalize_ok_sshape hs hne h
  have hn' : (0 : ℚ) < n := by exact_mod_cast hn
  have hlast := qtempo_last' (n := n) sh.hpli sh.hil
  have hge := last'_ge (n := n) sh.spos
  have hlt := last'_lt (n := n) sh.spos
  have sf' : QSorted (pre ++ [p, l]) := sh.hf ▸ sh.sf
  -- the previous marker is before the end (this is what the new check of `fixLast` buys)
  have hpn : p.off < n := by
    have := (last'_index_le_iff (n := n) sh.hpli sh.hplo).not.mp (not_le.mpr sh.hil)
    exact not_le.mp this
  -- every marker of the intermediate grid has index ≥ -4
  have hidx : ∀ m ∈ pre ++ [p, l], -4 ≤ m.index := by
    rw [← sh.hf]
    intro m hm
    rcases List.mem_cons.mp hm with rfl | hm
    · simp
    · have := ((List.pairwise_cons.mp sh.sf).1 m hm).1
      simp only [first'_index] at this; omega
  have hp4 : -4 ≤ p.index := hidx p (by simp)
  -- all but the last marker of `out` are before the end
  have hdl : ∀ m ∈ out.dropLast, m.off < n := by
    rw [sh.hout, show pre ++ [p, last' p l n] = (pre ++ [p]) ++ [last' p l n] by simp,
      List.dropLast_concat]
    intro m hm
    rcases List.mem_append.mp hm with hm | hm
    · have := ((List.pairwise_append.mp sf').2.2 m hm p (by simp)).2
      linarith
    · simp only [List.mem_cons, List.not_mem_nil, or_false] at hm
      rw [hm]; exact hpn
  -- `out` starts with the moved first marker, then a marker after sample 0 and after beat −4
  obtain ⟨y, r, hout2, hy0, hy4⟩ :
      ∃ y r, out = first' a b :: y :: r ∧ 0 < y.off ∧ -4 < y.index := by
    rcases shape_cases sh.hf with ⟨hpre, hp, hl, hrest⟩ | ⟨pre', hpre, hbr⟩
    · refine ⟨last' p l n, [], by rw [sh.hout, hpre, hp]; rfl, by linarith, ?_⟩
      have := sh.hil
      have hpi : p.index = -4 := by rw [hp]; rfl
      omega
    · obtain ⟨r', hr'⟩ := same_head (l' := last' p l n) hbr
      refine ⟨b, r', by rw [sh.hout, hpre, List.cons_append, hr'], ?_, sh.hb4⟩
      exact trim_second_pos hs sh.ht
  have hne' : out ≠ [] := by rw [hout2]; simp
  have htrim : trim qNum out n = first' a b :: y :: r := by
    have := hdl
    rw [hout2] at this ⊢
    exact trim_id hy0 this
  have hadj : adjOf p (last' p l n) n = 0 := by
    apply adjOf_eq_zero
    · rw [hlast]; exact sh.spos
    · exact hge
    · rw [hlast]; exact hlt
  refine ⟨y, p, last' p l n, by rw [hout2]; rfl, by rw [sh.hout]; exact getElem?_penult _ _ _,
    by rw [sh.hout]; exact getElem?_ult _ _ _, hy4, hp4, sh.hil, ?_⟩
  rw [normalize_eq hne', htrim]
  dsimp only
  rw [if_neg (not_le.mpr hy4), fixFirst_eq]
  have c1 : (In32 (y.index - (first' a b).index) ∧ In32 (4 + (first' a b).index)) ↔
      In32 (y.index + 4) := by
    rw [first'_index]; unfold In32; omega
  by_cases hc1 : In32 (y.index + 4)
  · rw [if_pos (c1.mpr hc1), first'_fixed first'_index]
    simp only [Res.bind_ok]
    rw [← hout2, sh.hout, fixLast_append_two, hadj, last'_fixed hadj]
    have e2 : In32 0 := by constructor <;> omega
    have e3 : ¬ (last' p l n).index + 0 ≤ p.index := by have := sh.hil; omega
    rw [if_neg (not_not.mpr e2), if_neg e3, Int.add_zero]
    by_cases hc2 : In32 ((last' p l n).index - p.index)
    · by_cases hc3 : In32 (last' p l n).index
      · rw [if_neg (not_not.mpr hc2), if_neg (not_not.mpr hc3), if_pos ⟨hc1, hc2, hc3⟩]
      · rw [if_neg (not_not.mpr hc2), if_pos hc3, if_neg (fun hh => hc3 hh.2.2)]
    · rw [if_pos hc2, if_neg (fun hh => hc2 hh.2.1)]
  · rw [if_neg (c1.not.mpr hc1), if_neg (fun hh => hc1 hh.1)]
    rfl

theorem c20_idempotent (hs : QSorted g) (hn : 0 < n) (h : normalize qNum g n = .ok out)
    (hne : g ≠ []) (hfit : ∀ m ∈ out, m.index ≤ 2147483643) :
    normalize qNum out n = .ok out := by
  obtain ⟨y, p, l', hy, hp, hl', hy4, hp4, hpl, hN⟩ := c20_renormalize hs hn h hne
  have hyfit := hfit y (List.mem_of_getElem? hy)
  have hlfit := hfit l' (List.mem_of_getElem? hl')
  rw [hN, if_pos]
  unfold In32
  omega

/-- Hypothesis-free form: the second run returns the grid unchanged or overflows an `int`. -/
theorem c20_idempotent_or_overflow (hs : QSorted g) (hn : 0 < n)
    (h : normalize qNum g n = .ok out) (hne : g ≠ []) :
    normalize qNum out n = .ok out ∨ normalize qNum out n = .ub .signed_overflow := by
  obtain ⟨y, p, l', -, -, -, -, -, -, hN⟩ := c20_renormalize hs hn h hne
  rw [hN]
  split
  · exact Or.inl rfl
  · exact Or.inr rfl

/-- What `normalize` computes once the trimmed grid has two or more markers, the second of them
after beat −4. -/
theorem normalize_eq_of_shape {a b : Marker ℚ} {rest pre : List (Marker ℚ)} {p l : Marker ℚ}
    (hne : g ≠ []) (ht : trim qNum g n = a :: b :: rest) (hb4 : ¬ b.index ≤ -4)
    (hf : first' a b :: b :: rest = pre ++ [p, l]) :
    normalize qNum g n =
      if In32 (b.index - a.index) ∧ In32 (4 + a.index) then
        if ¬ In32 (l.index - p.index) then .ub .signed_overflow
        else if ¬ In32 (adjOf p l n) then .ub .float_cast_range
        else if l.index + adjOf p l n ≤ p.index then .throw .invalid_argument
        else if ¬ In32 (l.index + adjOf p l n) then .ub .signed_overflow
        else .ok (pre ++ [p, last' p l n])
      else .ub .signed_overflow := by
  rw [normalize_eq hne, ht]
  dsimp only
  rw [if_neg hb4, fixFirst_eq]
  split
  · simp only [Res.bind_ok]
    rw [hf, fixLast_append_two]
  · rfl

theorem c20_throw_only_if (hs : QSorted g) (hne : g ≠ [])
    (h : normalize qNum g n = .throw .invalid_argument) :
    (trim qNum g n).length < 2 ∨ (∃ m1, (trim qNum g n)[1]? = some m1 ∧ m1.index ≤ -4) ∨
      (∃ m0 m1, trim qNum g n = [m0, m1] ∧
        (n : ℚ) ≤ m0.off + (((-4 - m0.index : Int)) : ℚ) * qtempo m0 m1) := by
  rcases ht : trim qNum g n with _ | ⟨a, _ | ⟨b, rest⟩⟩
  · left; simp
  · left; simp
  · right
    by_cases hb4 : b.index ≤ -4
    · left; exact ⟨b, rfl, hb4⟩
    · right
      obtain ⟨pre, p, l, hf⟩ := exists_append_two (first' a b) b rest
      rw [normalize_eq_of_shape hne ht hb4 hf] at h
      split_ifs at h with h12 h1 h2 h3
      have st : QSorted (a :: b :: rest) := ht ▸ hs.of_infix (trim_infix g n)
      have hab := (List.pairwise_cons.mp st).1 b (by simp)
      have sf := sorted_first st (not_le.mp hb4)
      have sf' : QSorted (pre ++ [p, l]) := hf ▸ sf
      have hpl := sorted_pl sf'
      have hnp : (n : ℚ) ≤ p.off := (last'_index_le_iff hpl.1 hpl.2).mp h3
      rcases shape_cases hf with ⟨-, hp, -, hrest⟩ | ⟨pre', -, hbr⟩
      · refine ⟨a, b, by rw [hrest], ?_⟩
        rw [hp, first'_off] at hnp
        push_cast
        linarith
      · exfalso
        have hmem : p ∈ (trim qNum g n).dropLast := by
          rw [ht, hbr, show a :: (pre' ++ [p, l]) = (a :: pre' ++ [p]) ++ [l] by simp,
            List.dropLast_concat]
          simp
        have := trim_dropLast_lt g n p hmem
        linarith

/-- The two unconditional causes of rejection (no sortedness, no overflow caveat). -/
theorem c20_reject_of (hne : g ≠ [])
    (hc : (trim qNum g n).length < 2 ∨
      ∃ m1, (trim qNum g n)[1]? = some m1 ∧ m1.index ≤ -4) :
    normalize qNum g n = .throw .invalid_argument := by
  rw [normalize_eq hne]
  rcases ht : trim qNum g n with _ | ⟨a, _ | ⟨b, rest⟩⟩
  · rfl
  · rfl
  · rw [ht] at hc
    rcases hc with hlen | ⟨m1, hm1, hidx⟩
    · exfalso
      simp only [List.length_cons] at hlen
      omega
    · simp only [List.getElem?_cons_succ, List.getElem?_cons_zero, Option.some.injEq] at hm1
      subst hm1
      dsimp only
      rw [if_pos hidx]

theorem c20_reject_iff (hs : QSorted g) (hne : g ≠ [])
    (hnub : ∀ u, normalize qNum g n ≠ .ub u) :
    normalize qNum g n = .throw .invalid_argument ↔
      ((trim qNum g n).length < 2 ∨ (∃ m1, (trim qNum g n)[1]? = some m1 ∧ m1.index ≤ -4) ∨
        (∃ m0 m1, trim qNum g n = [m0, m1] ∧
          (n : ℚ) ≤ m0.off + (((-4 - m0.index : Int)) : ℚ) * qtempo m0 m1)) := by
  refine ⟨c20_throw_only_if hs hne, ?_⟩
  rintro (hlen | hidx | ⟨a, b, ht, hnle⟩)
  · exact c20_reject_of hne (Or.inl hlen)
  · exact c20_reject_of hne (Or.inr hidx)
  · by_cases hb4 : b.index ≤ -4
    · exact c20_reject_of hne (Or.inr ⟨b, by rw [ht]; rfl, hb4⟩)
    · have hf : first' a b :: b :: [] = [] ++ [first' a b, b] := rfl
      have hN := normalize_eq_of_shape hne ht hb4 hf
      have st : QSorted [a, b] := ht ▸ hs.of_infix (trim_infix g n)
      have hab := (List.pairwise_cons.mp st).1 b (by simp)
      have hi : (first' a b).index < b.index := by rw [first'_index]; omega
      have ho := first'_lt hab.1 hab.2 (not_le.mp hb4)
      have hle : b.index + adjOf (first' a b) b n ≤ (first' a b).index := by
        have := (last'_index_le_iff (n := n) hi ho).mpr (by
          rw [first'_off]
          push_cast at hnle
          linarith)
        simpa using this
      rw [hN]
      rw [hN] at hnub
      split_ifs at hnub ⊢ with h12 h1 h2
      all_goals first | rfl | (exfalso; exact hnub _ rfl)

end props

end EngineModel.Pure.Beatgrid
