/-
crate::set_name on a state satisfying `Inv`: exact outcome and preservation.
-/
import Proofs.CratesV1Repath

namespace EngineModel.Api.CratesV1
open EngineModel.Pure.Detect EngineModel.Spec

/-- Path of the proper parent of `c` ("" for a root). -/
def parentPrefix (db : Db) (c : Id) : Name :=
  match parentOf db c with
  | none => []
  | some p => rowPath db p

variable {db : Db}

theorem parentPrefix_eq (h : FInv db) {c p : Id} (hp : (c, p) ∈ db.cpl) :
    parentPrefix db c = if p = c then [] else rowPath db p := by
  unfold parentPrefix
  by_cases hpc : p = c
  · have : parentOf db c = none := by
      rw [parentOf_eq_none h]
      intro p' hp'
      exact hp'.2 ((h.cpl_unique hp'.1 hp).trans hpc)
    rw [this]; simp [hpc]
  · rw [(parentOf_eq_some h).mpr ⟨hp, hpc⟩]; simp [hpc]

theorem pairs_filter_fst {l : List (Id × Id)} (h : (l.map (·.1)).Nodup) {c p : Id} (hm : (c, p) ∈ l) :
    l.filter (fun r => r.1 == c) = [(c, p)] := by
  induction l with
  | nil => cases hm
  | cons a l ih =>
    simp only [List.map_cons, List.nodup_cons] at h
    rw [List.mem_cons] at hm
    rcases hm with rfl | hm
    · have : l.filter (fun r => r.1 == c) = [] := by
        rw [List.filter_eq_nil_iff]
        intro r hr he
        simp only [beq_iff_eq] at he
        exact h.1 (by rw [← he]; exact List.mem_map_of_mem (f := (·.1)) hr)
      simp [List.filter_cons, this]
    · have hne : ¬ a.1 = c := by
        intro e
        exact h.1 (by rw [e]; exact List.mem_map_of_mem (f := (·.1)) hm)
      simp [List.filter_cons, hne, ih h.2 hm]

theorem firstNonEmptyOrThrow_nil : firstNonEmptyOrThrow [] = .ok [] := rfl
theorem firstNonEmptyOrThrow_single (x : Name) : firstNonEmptyOrThrow [x] = .ok x := rfl

/-- The `SELECT path FROM Crate c JOIN CrateParentList cpl …` of set_name. -/
theorem select_parent_path (h : FInv db) {c : Id} (hc : c ∈ ids db) :
    firstNonEmptyOrThrow ((db.cpl.filter (fun r => r.1 == c && r.1 != r.2)).flatMap fun r =>
      (db.crate.filter (·.id == r.2)).map (·.path)) = .ok (parentPrefix db c) := by
  obtain ⟨p, hp⟩ := h.live_has_row hc
  rw [parentPrefix_eq h hp]
  have hf : db.cpl.filter (fun r => r.1 == c && r.1 != r.2) = (db.cpl.filter (fun r => r.1 == c)).filter (fun r => r.1 != r.2) := by
    rw [List.filter_filter]
    apply List.filter_congr
    intro r _
    exact Bool.and_comm _ _
  rw [hf, pairs_filter_fst h.cplNodup hp]
  by_cases hpc : p = c
  · subst hpc
    simp [firstNonEmptyOrThrow_nil]
  · have hne : ((c, p).1 != (c, p).2) = true := by
      simp only [bne_iff_ne, ne_eq]
      exact fun e => hpc e.symm
    simp only [List.filter_cons, hne, if_true, List.filter_nil, List.flatMap_cons, List.flatMap_nil, List.append_nil, hpc, if_false]
    obtain ⟨pr, hpr, hprid⟩ := exists_row (h.cplParentLive _ hp)
    simp only at hprid
    rw [← hprid, filter_of_mem h.idsNodup hpr, rowPath_of_mem h.idsNodup hpr]
    rfl

def setTitle (c : Id) (n : Name) (crate : List CrateRow) : List CrateRow :=
  crate.map fun r => if r.id == c then { r with title := n } else r

/-- The state with the new title, before any path is rewritten. -/
def dbTitle (db : Db) (c : Id) (n : Name) : Db := { db with crate := setTitle c n db.crate }

/-- State after a successful `set_name`. -/
def afterSetName (db : Db) (c : Id) (n : Name) : Db :=
  { dbTitle db c n with
    crate := setPaths (subB (dbTitle db c n) c)
      (tgtPath (dbTitle db c n) c (parentPrefix db c ++ n ++ [semicolon])) (dbTitle db c n).crate }

theorem ids_setTitle (db : Db) (c : Id) (n : Name) : ids (dbTitle db c n) = ids db := by
  unfold ids dbTitle setTitle
  simp only [List.map_map]
  apply List.map_congr_left
  intro r _
  simp only [Function.comp_apply]
  split <;> rfl

theorem finv_setTitle (h : FInv db) (c : Id) (n : Name) : FInv (dbTitle db c n) :=
  h.congr (ids_setTitle db c n) rfl rfl

theorem setName_invalid (s : Schema) (db : Db) (c : Id) {n : Name} (hv : Forest.validName n = false) :
    setName s db c n = (db, .throw exInvalidName) := by
  unfold setName; rw [ensureValidName_throw hv]

theorem setName_dead (s : Schema) (db : Db) {c : Id} {n : Name} (hv : Forest.validName n = true) (hc : c ∉ ids db) :
    setName s db c n = (db, .throw exCrateDeleted) := by
  unfold setName
  rw [ensureValidName_ok hv]
  simp [transaction, requireValid_dead hc]

theorem setName_ok (s : Schema) (h : FInv db) {c : Id} {n : Name} (hv : Forest.validName n = true) (hc : c ∈ ids db) :
    setName s db c n = (afterSetName db c n, .ok .unit) := by
  unfold setName
  rw [ensureValidName_ok hv]
  simp only [transaction, requireValid_live h.idsNodup hc, Res.bind_ok, select_parent_path h hc]
  rw [updateCrateTitlePath_eq s h.idsNodup]
  -- the state with the new title, before any path is rewritten
  have hT : FInv (dbTitle db c n) := finv_setTitle h c n
  have hcT : c ∈ ids (dbTitle db c n) := by rw [ids_setTitle]; exact hc
  unfold afterSetName
  generalize parentPrefix db c ++ n ++ [semicolon] = base
  have hdT1 : (dbTitle db c n).crate = setTitle c n db.crate := rfl
  have hdT2 : (dbTitle db c n).cpl = db.cpl := rfl
  have hd1 : ∀ X, ({ db with crate := X } : Db) = { dbTitle db c n with crate := X } := fun _ => rfl
  generalize dbTitle db c n = dbT at hT hcT hdT1 hdT2 hd1 ⊢
  generalize htgt : tgtPath dbT c base = tgt
  have htop : tgt c = base := by rw [← htgt]; exact tgtPath_top base hcT
  have hcrate1 : db.crate.map (fun r => if r.id == c then { r with title := n, path := base } else r)
      = setPaths (· == c) tgt dbT.crate := by
    rw [hdT1]
    unfold setPaths setTitle
    rw [List.map_map]
    apply List.map_congr_left
    intro r _
    by_cases hrc : r.id = c
    · simp [hrc, htop]
    · simp [hrc]
  rw [hcrate1, hd1]
  have hkids : crateChildren { dbT with crate := setPaths (· == c) tgt dbT.crate } c = crateChildren dbT c := rfl
  rw [hkids]
  have hsk : Skel { dbT with crate := setPaths (· == c) tgt dbT.crate } dbT :=
    (Skel.refl dbT).setPaths (· == c) tgt
  have hstep := tgtPath_hstep hT c base
  rw [htgt] at hstep
  have := updatePath_kids_eq s hT c tgt hstep (x := c) (Or.inl rfl)
    (fuel := dbT.cpl.length + 1) (by omega) (crateChildren dbT c)
    (fun k hk => (mem_crateChildren dbT c k).mp hk) _ hsk
  rw [htop] at this
  rw [← hdT2, this]
  simp only [Res.bind_ok, Res.pure_eq]
  rw [setPaths_top_then_kids hT]

theorem rowPath_setTitle {c : Id} {n : Name} {p : Id} (hpc : p ≠ c) :
    rowPath (dbTitle db c n) p = rowPath db p := by
  unfold rowPath dbTitle setTitle
  simp only [List.find?_map]
  have hcomp : ((fun x : CrateRow => x.id == p) ∘ fun r => if (r.id == c) = true then { r with title := n } else r)
      = fun x : CrateRow => x.id == p := by
    funext x
    simp only [Function.comp_apply]
    split <;> rfl
  rw [hcomp]
  cases hf : db.crate.find? (fun x => x.id == p) with
  | none => rfl
  | some x =>
    have hx : x.id = p := by simpa using List.find?_some hf
    have : ¬ x.id = c := by rw [hx]; exact hpc
    simp [this]

theorem inv_setName (h : Inv db) {c : Id} {n : Name} (hv : Forest.validName n = true) (hc : c ∈ ids db) :
    Inv (afterSetName db c n) := by
  let dbT : Db := dbTitle db c n
  have hT : FInv dbT := finv_setTitle h.toFInv c n
  have hcT : c ∈ ids dbT := by rw [ids_setTitle]; exact hc
  have hidsA : ids (afterSetName db c n) = ids db := by
    have : ids (afterSetName db c n) = ids dbT := ids_of_keys (setPaths_keys _ _ _)
    rw [this, ids_setTitle]
  have hmemT : ∀ r ∈ dbT.crate, ∃ r0 ∈ db.crate, r = if r0.id == c then { r0 with title := n } else r0 := by
    intro r hr
    have : r ∈ setTitle c n db.crate := hr
    unfold setTitle at this
    rw [List.mem_map] at this
    obtain ⟨r0, hr0, he⟩ := this
    exact ⟨r0, hr0, he.symm⟩
  refine ⟨hT.congr (ids_of_keys (setPaths_keys _ _ _)) rfl rfl, ?_, ?_, h.ctlNodup, ?_, h.trackNodup⟩
  · intro r hr
    have hr' : r ∈ setPaths (subB dbT c) (tgtPath dbT c (parentPrefix db c ++ n ++ [semicolon])) dbT.crate := hr
    unfold setPaths at hr'
    rw [List.mem_map] at hr'
    obtain ⟨r1, hr1, rfl⟩ := hr'
    obtain ⟨r0, hr0, he⟩ := hmemT r1 hr1
    have ht : (if subB dbT c r1.id = true then
        { r1 with path := tgtPath dbT c (parentPrefix db c ++ n ++ [semicolon]) r1.id } else r1).title = r1.title := by
      split <;> rfl
    rw [ht, he]
    by_cases hrc : r0.id = c
    · simp [hrc, hv]
    · simp [hrc, h.namesValid r0 hr0]
  · apply pathStep_repath hT hcT
    · intro r hr hs p hp
      obtain ⟨r0, hr0, rfl⟩ := hmemT r hr
      have hrc : r0.id ≠ c := by
        intro e
        apply hs
        left
        split <;> exact e
      simp only [beq_iff_eq, hrc, if_false] at hp hs ⊢
      have hp' : (r0.id, p) ∈ db.cpl := hp
      rw [h.pathStep r0 hr0 p hp']
      by_cases hpe : p = r0.id
      · simp [hpe]
      · simp only [hpe, if_false]
        have hpc : p ≠ c := by
          rintro rfl
          exact hs (Or.inr (h.toFInv.ch_of_par ⟨hp', hpe⟩))
        rw [rowPath_setTitle hpc]
    · intro r hr hrc p hp
      obtain ⟨r0, hr0, rfl⟩ := hmemT r hr
      have hr0c : r0.id = c := by
        split at hrc <;> exact hrc
      simp only [hr0c, beq_self_eq_true, if_true]
      have hp' : (c, p) ∈ db.cpl := hp
      rw [parentPrefix_eq h.toFInv hp']
      by_cases hpc : p = c
      · simp [hpc]
      · simp only [hpc, if_false]
        rw [rowPath_setTitle hpc]
  · intro r hr
    have := h.ctlLive r hr
    rw [hidsA]
    exact ⟨this.1, (liveTrack_congr rfl _).mpr this.2⟩

end EngineModel.Api.CratesV1
