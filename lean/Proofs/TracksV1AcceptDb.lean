/-
C06 1.x, acceptance side, part 3: the database level.

  * `accepts_iff`        — `accepts d id f v` decides whether `dbSet` returns normally;
  * `dbSet_clean`        — `DbClean` is kept by every setter call;
  * `dbSet_defined`      — no call is undefined (under `CeilInRange`), whatever the database;
  * `dbRunStrict_eq`     — so the history that propagates `ub` is the history that skips failures;
  * `dbRun_append`, `dbRun_abs` — histories compose; the abstraction to the Spec state commutes with a run.
-/
import Proofs.TracksV1AcceptSet

namespace EngineModel.TracksV1

open Impl.V1 (GMarker HotCue LoopV Entry Wave Beat Cues Loops)
open Fl (FOps)

set_option linter.unusedSimpArgs false
set_option linter.unusedVariables false

theorem dbClean_inv (d : Db) (h : DbClean d) : DbInv d := by
  intro id r hr
  have := h id r hr
  unfold Clean at this
  rw [Bool.and_eq_true] at this
  exact this.1

theorem dbSet_some (o : FOps) (d : Db) (id : Int) (f : Field) (v : f.ty) (r : TrackRows) (hr : d.rows id = some r) :
    dbSet o d id f v =
      if pathConflict d id f v = true then .throw .sqlite_error else
        match set o r f v with
        | .ok r' => .ok { d with tracks := aset id r' d.tracks }
        | .throw e => .throw e
        | .ub u => .ub u := by
  unfold dbSet
  rw [hr]
  cases f <;> rfl

/-- **Acceptance, database level.** -/
theorem accepts_iff (o : FOps) (d : Db) (hc : DbClean d) (hl : FloatLaw o) (id : Int) (f : Field) (v : f.ty) :
    accepts d id f v = true ↔ ∃ d', dbSet o d id f v = .ok d' := by
  unfold accepts
  cases hr : d.rows id with
  | none =>
    simp only [Bool.false_eq_true, false_iff]
    intro ⟨d', h⟩
    obtain ⟨e, he⟩ := dbSet_absent o d id f v hr
    rw [he] at h; cases h
  | some r =>
    simp only
    have hcr := (clean_iff r).mp (hc id r hr)
    have hrow := acceptsRow_iff o r hcr hl f v
    rw [dbSet_some o d id f v r hr, Bool.and_eq_true]
    cases hcf : pathConflict d id f v with
    | true => simp
    | false =>
      simp only [Bool.not_false, and_true, Bool.false_eq_true, if_false]
      rw [hrow]
      constructor
      · intro ⟨r', hs⟩; rw [hs]; exact ⟨_, rfl⟩
      · intro ⟨d', h⟩
        cases hs : set o r f v with
        | ok r' => exact ⟨r', rfl⟩
        | throw e => rw [hs] at h; cases h
        | ub u => rw [hs] at h; cases h

/-- `DbClean` is kept by every setter call that returns normally. -/
theorem dbSet_clean (o : FOps) (d d' : Db) (id : Int) (f : Field) (v : f.ty) (hc : DbClean d)
    (h : dbSet o d id f v = .ok d') : DbClean d' := by
  intro id' r hr
  obtain ⟨r0, r0', h0, hs, h0', _⟩ := dbSet_rows_same o d d' id f v h
  by_cases hid : id' = id
  · subst hid
    rw [h0'] at hr
    cases hr
    exact (clean_iff _).mpr (set_cleanP o r0 r f v ((clean_iff r0).mp (hc _ _ h0)) hs)
  · rw [dbSet_rows_other o d d' id id' f v hid h] at hr
    exact hc _ _ hr

/-- No setter call is undefined, whatever the database (`set_bpm`: given `CeilInRange`). -/
theorem dbSet_defined (o : FOps) (hc : CeilInRange o) (d : Db) (id : Int) (f : Field) (v : f.ty) :
    Defined (dbSet o d id f v) := by
  cases hr : d.rows id with
  | none =>
    unfold dbSet
    rw [hr]
    simp only
    split
    · exact Defined.throw _
    · cases hs : set o blankRows f v with
      | ok r' => exact Defined.throw _
      | throw e => exact Defined.throw _
      | ub u => exact absurd hs (set_defined o blankRows f v (fun _ => hc) u)
  | some r =>
    rw [dbSet_some o d id f v r hr]
    split
    · exact Defined.throw _
    · cases hs : set o r f v with
      | ok r' => exact Defined.ok _
      | throw e => exact Defined.throw _
      | ub u => exact absurd hs (set_defined o r f v (fun _ => hc) u)

/-- Under `CeilInRange` no step of any history is undefined: the run that would stop at an undefined call
is the run that records which calls returned normally. -/
theorem dbRunStrict_eq (o : FOps) (hc : CeilInRange o) (h : List SetOp) (d : Db) :
    dbRunStrict o d h = .ok (dbRun o d h) := by
  induction h generalizing d with
  | nil => rfl
  | cons op t ih =>
    unfold dbRunStrict dbRun dbStep
    cases hs : dbSet o d op.id op.f op.v with
    | ok d' => simp only [ih d']; rfl
    | throw e => simp only [ih d]; rfl
    | ub u => exact absurd hs (dbSet_defined o hc d op.id op.f op.v u)

/-! ### histories compose -/

theorem dbRun_append (o : FOps) (h1 h2 : List SetOp) (d : Db) :
    dbRun o d (h1 ++ h2) = ((dbRun o (dbRun o d h1).1 h2).1, (dbRun o d h1).2 ++ (dbRun o (dbRun o d h1).1 h2).2) := by
  induction h1 generalizing d with
  | nil => rfl
  | cons op t ih =>
    simp only [List.cons_append, dbRun]
    rw [ih]

theorem dbRun_clean (o : FOps) (h : List SetOp) (d : Db) (hc : DbClean d) : DbClean (dbRun o d h).1 := by
  induction h generalizing d with
  | nil => exact hc
  | cons op t ih =>
    simp only [dbRun]
    apply ih
    cases hok : (dbStep o d op).2 with
    | false => rw [dbStep_fail o d op hok]; exact hc
    | true => exact dbSet_clean o d _ op.id op.f op.v hc (dbStep_ok o d op hok)

/-! ### the abstraction to the Spec state commutes with a run -/

/-- What the Spec sees of one track: its snapshot and whether it has a PerformanceData row. -/
def absTrack (o : FOps) (s : Schema) (r : TrackRows) : Spec.TrackSt := ⟨snapOf o s r, r.perf.isSome⟩

def absDb (o : FOps) (d : Db) : Spec.Lib := ⟨d.schema, d.tracks.map fun e => (e.1, absTrack o d.schema e.2)⟩

theorem aget_map {β γ} (g : β → γ) (k : Int) (l : List (Int × β)) :
    aget k (l.map fun e => (e.1, g e.2)) = (aget k l).map g := by
  induction l with
  | nil => rfl
  | cons hd t ih =>
    obtain ⟨k', v'⟩ := hd
    simp only [List.map_cons, aget]
    by_cases hk : k' = k
    · simp [hk]
    · simp [hk, ih]

theorem map_aset {β γ} (g : β → γ) (k : Int) (v : β) (l : List (Int × β)) :
    (aset k v l).map (fun e => (e.1, g e.2)) = aset k (g v) (l.map fun e => (e.1, g e.2)) := by
  induction l with
  | nil => rfl
  | cons hd t ih =>
    obtain ⟨k', v'⟩ := hd
    simp only [List.map_cons, aset]
    by_cases hk : k' = k
    · simp [hk]
    · simp [hk, ih]

theorem absDb_find (o : FOps) (d : Db) (id : Int) :
    (absDb o d).find id = (d.rows id).map (absTrack o d.schema) :=
  aget_map _ _ _

theorem pathHeld_abs (o : FOps) (d : Db) (id : Int) (p : Bytes) : Spec.pathHeld (absDb o d) id p = pathTaken d id p := by
  unfold Spec.pathHeld pathTaken absDb
  simp only [List.any_map]
  rfl

theorem pathClash_abs (o : FOps) (d : Db) (id : Int) (f : Field) (v : f.ty) :
    Spec.pathClash (absDb o d) id f v = pathConflict d id f v := by
  cases f <;> first | rfl | exact pathHeld_abs o d id v

theorem callAccepted_abs (o : FOps) (d : Db) (op : SetOp) :
    Spec.callAccepted (absDb o d) op = accepts d op.id op.f op.v := by
  unfold Spec.callAccepted accepts
  rw [absDb_find]
  cases d.rows op.id with
  | none => rfl
  | some r =>
    simp only [Option.map_some, acceptsRow, absTrack, pathClash_abs]

/-! a setter does not create or delete the PerformanceData row -/

theorem setCol_perf {α} (r r' : TrackRows) (norm : α → Res α) (eq : α → α → Bool) (v : α)
    (put : PerfRow → α → PerfRow) (h : setCol r norm eq v put = .ok r') :
    r'.perf.isSome = r.perf.isSome := by
  obtain ⟨v', p, _, hp, hr⟩ := setCol_ok _ _ _ _ _ _ h
  subst hr
  rw [hp]; rfl

theorem set_perf_isSome (o : FOps) (r r' : TrackRows) (f : Field) (v : f.ty) (h : set o r f v = .ok r') :
    r'.perf.isSome = r.perf.isSome := by
  cases f with
  | album | artist | comment | composer | genre | publisher | title | bitrate | duration | lastPlayedAt | rating
  | relativePath | trackNumber | year =>
    simp only [set, Res.ok.injEq] at h
    subst h; rfl
  | bpm =>
    simp only [set] at h
    obtain ⟨c, _, h⟩ := bind_ok_inv h
    simp only [Res.pure_eq, pure, Res.ok.injEq] at h
    subst h; rfl
  | averageLoudness | beatgrid | hotCues | mainCue => exact setCol_perf _ _ _ _ _ _ h
  | hotCueAt i | loopAt i =>
    simp only [set] at h
    obtain ⟨k, _, h⟩ := Res.bind_eq_ok h
    exact setCol_perf _ _ _ _ _ _ h
  | loops =>
    simp only [set] at h
    split at h
    · cases h
    · exact setCol_perf _ _ _ _ _ _ h
  | key =>
    simp only [set] at h
    obtain ⟨r1, h1, h⟩ := Res.bind_eq_ok h
    simp only [Res.ok.injEq] at h
    subst h
    have := setCol_perf _ _ _ _ _ _ h1
    exact this
  | sampleCount =>
    simp only [set] at h
    obtain ⟨secs, _, h⟩ := bind_ok_inv h
    obtain ⟨r2, h2, h⟩ := bind_ok_inv h
    obtain ⟨r3, h3, h⟩ := bind_ok_inv h
    have e2 := setCol_perf _ _ _ _ _ _ h2
    have e3 := setCol_perf _ _ _ _ _ _ h3
    split at h
    · simp only [Res.pure_eq, pure, Res.ok.injEq] at h
      subst h; rw [e3, e2]
    · obtain ⟨e, _, h⟩ := bind_ok_inv h
      rw [setCol_perf _ _ _ _ _ _ h, e3, e2]
  | sampleRate =>
    simp only [set] at h
    obtain ⟨secs, _, h⟩ := bind_ok_inv h
    obtain ⟨r2, h2, h⟩ := bind_ok_inv h
    obtain ⟨r3, h3, h⟩ := bind_ok_inv h
    obtain ⟨r4, h4, h⟩ := bind_ok_inv h
    have e2 := setCol_perf _ _ _ _ _ _ h2
    have e3 := setCol_perf _ _ _ _ _ _ h3
    have e4 : r4.perf.isSome = r3.perf.isSome := by
      split at h4
      · simp only [Res.pure_eq, pure, Res.ok.injEq] at h4
        subst h4; rfl
      · obtain ⟨e, _, h4⟩ := bind_ok_inv h4
        exact setCol_perf _ _ _ _ _ _ h4
    split at h
    · simp only [Res.pure_eq, pure, Res.ok.injEq] at h
      subst h; rw [e4, e3, e2]
    · obtain ⟨e, _, h⟩ := bind_ok_inv h
      rw [setCol_perf _ _ _ _ _ _ h, e4, e3, e2]
  | waveform =>
    simp only [set] at h
    obtain ⟨⟨ov, hi⟩, _, h⟩ := bind_ok_inv h
    simp only at h
    obtain ⟨r1, h1, h⟩ := bind_ok_inv h
    rw [setCol_perf _ _ _ _ _ _ h, setCol_perf _ _ _ _ _ _ h1]

/-- One accepted call, seen through the abstraction. -/
theorem dbSet_abs (o : FOps) (d d' : Db) (op : SetOp) (hinv : DbInv d) (hfin : Spec.finiteArg op.f op.v = true)
    (h : dbSet o d op.id op.f op.v = .ok d') (hacc : Spec.callAccepted (absDb o d) op = true) :
    absDb o d' = Spec.stepCall (absDb o d) op := by
  obtain ⟨r, r', hr, hs, hd'⟩ := dbSet_ok o d d' op.id op.f op.v h
  subst hd'
  unfold Spec.stepCall
  rw [if_pos hacc, absDb_find, hr]
  simp only [Option.map_some]
  obtain ⟨w, hw, hsnap, _⟩ := set_refines o d.schema r r' op.f op.v ((inv_iff r).mp (hinv _ _ hr)) hfin hs
  unfold absDb
  simp only [map_aset]
  congr 2
  unfold absTrack
  simp only [Spec.applyOk, hw, hsnap, set_perf_isSome o r r' op.f op.v hs]

/-- **The Spec decides the history**: which calls return normally and what the library then holds. -/
theorem dbRun_abs (o : FOps) (hl : FloatLaw o) (h : List SetOp) (d : Db) (hc : DbClean d)
    (hfin : ∀ op ∈ h, Spec.finiteArg op.f op.v = true) :
    absDb o (dbRun o d h).1 = (Spec.runCalls (absDb o d) h).1 ∧
    (dbRun o d h).2 = (Spec.runCalls (absDb o d) h).2 := by
  induction h generalizing d with
  | nil => exact ⟨rfl, rfl⟩
  | cons op t ih =>
    have hfin' : ∀ op' ∈ t, Spec.finiteArg op'.f op'.v = true := fun op' h' => hfin op' (List.mem_cons_of_mem _ h')
    simp only [dbRun, Spec.runCalls]
    have hca := callAccepted_abs o d op
    cases hacc : accepts d op.id op.f op.v with
    | true =>
      obtain ⟨d', hd'⟩ := (accepts_iff o d hc hl op.id op.f op.v).mp hacc
      have hstep : dbStep o d op = (d', true) := by unfold dbStep; rw [hd']
      rw [hacc] at hca
      have habs := dbSet_abs o d d' op (dbClean_inv d hc) (hfin op (List.mem_cons_self ..)) hd' hca
      rw [hstep, hca, ← habs]
      obtain ⟨i1, i2⟩ := ih d' (dbSet_clean o d d' op.id op.f op.v hc hd') hfin'
      exact ⟨i1, by rw [i2]⟩
    | false =>
      have hno : ∀ d', dbSet o d op.id op.f op.v ≠ .ok d' := by
        intro d' hd'
        have := (accepts_iff o d hc hl op.id op.f op.v).mpr ⟨d', hd'⟩
        rw [hacc] at this; cases this
      have hstep : dbStep o d op = (d, false) := by
        unfold dbStep
        cases hs : dbSet o d op.id op.f op.v with
        | ok d' => exact absurd hs (hno d')
        | throw e => rfl
        | ub u => rfl
      rw [hacc] at hca
      have hsc : Spec.stepCall (absDb o d) op = absDb o d := by
        unfold Spec.stepCall; rw [hca]; rfl
      rw [hstep, hca, hsc]
      obtain ⟨i1, i2⟩ := ih d hc hfin'
      exact ⟨i1, by rw [i2]⟩

end EngineModel.TracksV1
