/-
Composite 2.x library: `database::remove_track` — the one call that writes three tables — as a statement program
under the fault model of C14 (`Spec/Txn.lean`): its shape is atomic, the fault-free run makes exactly the step's
result durable, and a fault at ANY statement leaves the connection at rest on the library it started from.
-/
import Proofs.Lib2Step
import Proofs.Stmts

namespace EngineModel.Lib.V2
open EngineModel EngineModel.Db.Chain EngineModel.TracksV2 EngineModel.Spec.Txn EngineModel.Spec.Stmts
open EngineModel.Proofs.Stmts EngineModel.Proofs.Txn
open EngineModel.Table (Schema2)

theorem removeTrackBody_rw (s : Schema2) (L : Lib2) (t : Nat) : ∀ c ∈ removeTrackBody s L t, Cmd.rw c = true := by
  intro c hc
  unfold removeTrackBody at hc
  simp only [List.mem_append, List.mem_flatMap, List.mem_cons, List.mem_singleton] at hc
  rcases hc with ((⟨l, _, hc⟩ | hc) | hc) | hc
  · rcases hc with rfl | rfl | hc
    · rfl
    · rfl
    · cases hc
  · split at hc
    · simp only [List.mem_singleton] at hc; subst hc; rfl
    · cases hc
  · rcases hc with rfl | hc
    · rfl
    · cases hc
  · rcases hc with rfl | hc
    · rfl
    · cases hc

theorem removeTrack_shape_atomic (s : Schema2) (L : Lib2) (t : Nat) :
    atomicShape ((removeTrackStmts s L t).map Cmd.kind) = true :=
  atomic_txn _ (removeTrackBody_rw s L t)

theorem writesOf_append' {α} (p q : List (Cmd α)) : writesOf (p ++ q) = writesOf p ++ writesOf q := writesOf_append p q

theorem applyAll_append_some {α : Type} (p q : List (α → Option α)) (a b : α) (h : applyAll p a = some b) :
    applyAll (p ++ q) a = applyAll q b := by
  induction p generalizing a with
  | nil => simp [applyAll] at h; subst h; rfl
  | cons f fs ih =>
    simp only [List.cons_append, applyAll] at h ⊢
    cases hf : f a with
    | none => simp [hf, Option.bind] at h
    | some a1 => simp only [hf, Option.bind] at h ⊢; exact ih a1 h

theorem loop_writes (t : Nat) (ls : List Int) (M : Lib2) :
    applyAll (writesOf (ls.flatMap fun l =>
      [Cmd.read, tot fun (M : Lib2) => { M with pe := EngineModel.Db.V2.rmTrackIn (t : Int) M.pe l }])) M
      = some { M with pe := ls.foldl (EngineModel.Db.V2.rmTrackIn (t : Int)) M.pe } := by
  induction ls generalizing M with
  | nil => rfl
  | cons l ls ih =>
    simp only [List.flatMap_cons, List.cons_append, List.nil_append, writesOf, tot, applyAll, Option.bind, List.foldl_cons]
    exact ih _

/-- the writes of the program, applied in order, are the step's effect (when the track has a row) -/
theorem removeTrack_writes (s : Schema2) (L : Lib2) (t : Nat)
    (hz : ¬ (L.tdb.rows.filter fun e => e.id == t).length = 0) :
    applyAll (writesOf (removeTrackBody s L t)) L = some (removed s t L) := by
  unfold removeTrackBody
  rw [writesOf_append', writesOf_append', writesOf_append']
  rw [List.append_assoc, List.append_assoc]
  rw [applyAll_append_some _ _ L _ (loop_writes t (ids L.pl) L)]
  cases hc : hasChangeLog s
  · simp only [Bool.false_eq_true, if_false, writesOf, tot, List.cons_append, List.nil_append, applyAll, Option.bind, hz,
      removed, hc]
  · simp only [if_true, writesOf, tot, List.cons_append, List.nil_append, applyAll, Option.bind, Lib2.logNullify, hz,
      if_false, removed, hc]

/-- **fault-free run**: the statement program of `remove_track` on an existing track completes and makes durable
exactly the library the composite `step` returns -/
theorem removeTrack_stmts_run (ops : FOps) (s : Schema2) (L : Lib2) (t : Nat) (auto : Bool)
    (hz : (L.tdb.find t).isSome = true) :
    (call none auto (removeTrackStmts s L t) L).raised = false ∧
    (call none auto (removeTrackStmts s L t) L).conn = Conn.idle (step ops s L (.removeTrack t)).1 := by
  have hz' : ¬ (L.tdb.rows.filter fun e => e.id == t).length = 0 := by
    intro h0
    have hm := (find_isSome_iff L.tdb t).mp hz
    obtain ⟨x, hx, e⟩ := List.mem_map.mp hm
    have : x ∈ L.tdb.rows.filter fun e => e.id == t := List.mem_filter.mpr ⟨hx, by simpa using e⟩
    rw [List.length_eq_zero_iff.mp h0] at this; cases this
  have hstep : (step ops s L (.removeTrack t)).1 = removed s t L := by
    simp only [step]; rw [m2_bind_pure_fst, removeTrack_eq]; simp only [hz', if_false]
  rw [hstep]
  exact txn_run auto _ (removeTrackBody_rw s L t) L _ (removeTrack_writes s L t hz')

/-- **all or nothing, at every fault position**: whichever faultable statement of `remove_track` fails — BEGIN, the
DELETE of any membership, the UPDATE of ChangeLog, the DELETE of the track, COMMIT — the call raises and the
connection is at rest on the library it started from: memberships, ChangeLog and Track table untouched. -/
theorem removeTrack_all_or_nothing (s : Schema2) (L : Lib2) (t : Nat) (k : Nat) (auto : Bool)
    (hk : k < countFaultable ((removeTrackStmts s L t).map Cmd.kind)) :
    (call (some k) auto (removeTrackStmts s L t) L).raised = true ∧
    (call (some k) auto (removeTrackStmts s L t) L).conn = Conn.idle L :=
  all_or_nothing _ (removeTrack_shape_atomic s L t) k auto L hk

end EngineModel.Lib.V2
