/-
C05 "decoders terminate promptly on arbitrary bytes": iteration bounds for the
count-prefixed loops of the blob decoders modelled in EngineModel/Impl/V2.lean
(schema 2.x) and EngineModel/Impl/V1.lean (schema 1.x).

What is claimed.  Termination itself is structural (`Cur.forN body n` recurses
on `n`), so the content is a bound on `n`.  A decoder reads a 64-bit count from
the payload and then runs `forN body count`.  For every such loop this file gives

 * a loop-shape lemma (`decodeLoops_shape`, `decodeLoops1_shape`, `decodeCues_shape`,
   `decodeCues1_shape`, `decodeGrid_shape` + `decodeBeat_shape`, `decodeGrid1_shape` +
   `decodeBeat1_shape`, `decodeOvw1_shape`, `decodeHires1_shape`): the decoder of
   the Model equals
   `if <guards pass on bs> then <forN body (count bs) on bs.drop k, then the tail> else throw invalid_argument`,
   with the guards (`loopsEntered`, `cuesEntered`, `gridEntered`, `grid1Entered`,
   `ovwEntered`, `hiresEntered`) and the counts (`loopsCount`, `cuesCount`, `gridCount`,
   `waveCount`) as explicit definitions;
 * the bound the guards enforce: `count * w ≤ remaining bytes`, `w` the minimum size
   of an entry (`loopsEntered_bound` 23, `cuesEntered_bound` 13, `gridEntered_bound` 24,
   `grid1Entered_bound` 24 and count ≤ 32768, `ovwEntered_bound` 3, `hiresEntered_bound` 6);
 * the summary `decode_steps_*`: the number of executions of the loop body
   (`forNIters`, which is the tick count of the instrumented loop `forNTicks`, whose
   result is that of `forN`: `forNTicks_fst`, `forNTicks_snd`) over the whole decoder
   is at most `bs.length / w`.  For the beat data both grids together are covered:
   the second grid is decoded on what the first one left (`decodeGrid_consumes`,
   `decodeGrid1_consumes`), and the 1.x decoder is moreover bounded by 2 * 32768
   whatever the length (`decode_steps_v1_beat_abs`).
   Hence an absurd embedded count can never make a decoder spin: it is rejected by
   the guard before the loop, in constant time.

Each iteration performs a bounded number of primitive cursor actions (`rd`,
`takeN`, `remaining`; read off the Model, not proved here as a theorem): at most
7 reads for a loop entry (length byte, label, start, end, two flag bytes, colour),
at most 4 for a quick cue (length byte, label, offset, colour), exactly 4 for a
beat-grid marker (offset, beat number, beat count, one unknown word), 3 resp. 6
single-byte reads for an overview resp. high-resolution waveform entry (a colour
is one 4-byte `rd` in the Model, four byte reads in the C++).  The only
read whose cost depends on the data is the label copy (`takeN len`, `len ≤ 255`).

Decoders without a loop: 2.x `decodeTrack`, 1.x `decodeTrack` (a fixed number of
reads) and 2.x `decodeOvw` (fixed reads and two `takeN` whose sizes are checked
against the remaining bytes first).  Nothing to count there.

What is not claimed: nothing about the cost of the C++ standard library calls
(`vector::reserve`, `push_back`, `string::assign`) or of zlib inflation, which is
modelled elsewhere; the statement is about the Model's loops, whose agreement with
the C++ statements is the subject of the Model review and of the differential tests.
-/
import Proofs.ImplV2Lists
import Proofs.ImplV1Beat
set_option linter.unusedSimpArgs false
set_option linter.unusedVariables false

namespace EngineModel
namespace Steps
open Codec Cur

/-! ### the loop combinator: iteration counter -/

/-- number of times `forN body n` runs `body` on input `bs` (the loop stops at the
first run that is not `ok`) -/
def forNIters {α} (body : Cur α) : Nat → Bytes → Nat
  | 0, _ => 0
  | n + 1, bs => match body bs with
    | .ok (_, r) => 1 + forNIters body n r
    | _ => 1

theorem forNIters_le {α} (body : Cur α) (n : Nat) (bs : Bytes) : forNIters body n bs ≤ n := by
  induction n generalizing bs with
  | zero => simp [forNIters]
  | succ n ih =>
    simp only [forNIters]
    split
    · rename_i a r h
      have := ih r
      omega
    · omega

/-- `forN` instrumented with a tick per execution of the body. -/
def forNTicks {α} (body : Cur α) : Nat → Bytes → Res (List α × Bytes) × Nat
  | 0, bs => (.ok ([], bs), 0)
  | n + 1, bs => match body bs with
    | .ok (a, r) =>
      ((match (forNTicks body n r).1 with
        | .ok (l, r') => .ok (a :: l, r')
        | .throw e => .throw e
        | .ub u => .ub u), 1 + (forNTicks body n r).2)
    | .throw e => (.throw e, 1)
    | .ub u => (.ub u, 1)

/-- The instrumented loop computes what `forN` computes … -/
theorem forNTicks_fst {α} (body : Cur α) (n : Nat) (bs : Bytes) :
    (forNTicks body n bs).1 = forN body n bs := by
  induction n generalizing bs with
  | zero => rfl
  | succ n ih =>
    simp only [forNTicks, forN, bind_run]
    cases h : body bs with
    | ok p =>
      obtain ⟨a, r⟩ := p
      simp only [ih r]
      cases h2 : forN body n r with
      | ok q => obtain ⟨l, r'⟩ := q; simp
      | throw e => simp
      | ub u => simp
    | throw e => simp
    | ub u => simp

/-- … and its tick count is `forNIters`. -/
theorem forNTicks_snd {α} (body : Cur α) (n : Nat) (bs : Bytes) :
    (forNTicks body n bs).2 = forNIters body n bs := by
  induction n generalizing bs with
  | zero => rfl
  | succ n ih =>
    simp only [forNTicks, forNIters]
    cases h : body bs with
    | ok p => obtain ⟨a, r⟩ := p; simp only [ih r]
    | throw e => rfl
    | ub u => rfl

/-- A loop that completes has run its body exactly `n` times. -/
theorem forNIters_of_ok {α} (body : Cur α) (n : Nat) (bs : Bytes) (l : List α) (r : Bytes)
    (h : forN body n bs = .ok (l, r)) : forNIters body n bs = n ∧ l.length = n := by
  induction n generalizing bs l r with
  | zero =>
    simp only [forN, pure_run, Res.ok.injEq, Prod.mk.injEq] at h
    obtain ⟨rfl, _⟩ := h
    simp [forNIters]
  | succ n ih =>
    simp only [forN, bind_run] at h
    simp only [forNIters]
    cases hb : body bs with
    | ok p =>
      obtain ⟨a, r1⟩ := p
      rw [hb] at h
      simp only [] at h
      cases hf : forN body n r1 with
      | ok q =>
        obtain ⟨l', r'⟩ := q
        rw [hf] at h
        simp only [pure_run, Res.ok.injEq, Prod.mk.injEq] at h
        obtain ⟨rfl, _⟩ := h
        obtain ⟨h1, h2⟩ := ih r1 l' r' hf
        refine ⟨?_, ?_⟩
        · show 1 + forNIters body n r1 = n + 1
          omega
        · simp only [List.length_cons, h2]
      | throw e => rw [hf] at h; simp at h
      | ub u => rw [hf] at h; simp at h
    | throw e => rw [hb] at h; simp at h
    | ub u => rw [hb] at h; simp at h

/-- If every successful run of the body consumes at least `w` bytes, a completed
loop of `n` runs has consumed at least `w * n`. -/
theorem forN_consumes {α} {body : Cur α} {w : Nat}
    (hb : ∀ bs a r, body bs = .ok (a, r) → w + r.length ≤ bs.length) :
    ∀ (n : Nat) (bs : Bytes) (l : List α) (r : Bytes), forN body n bs = .ok (l, r) →
      w * n + r.length ≤ bs.length := by
  intro n
  induction n with
  | zero =>
    intro bs l r h
    simp only [forN, pure_run, Res.ok.injEq, Prod.mk.injEq] at h
    obtain ⟨_, rfl⟩ := h
    simp
  | succ n ih =>
    intro bs l r h
    simp only [forN, bind_run] at h
    cases hb1 : body bs with
    | ok p =>
      obtain ⟨a, r1⟩ := p
      rw [hb1] at h
      simp only [] at h
      cases hf : forN body n r1 with
      | ok q =>
        obtain ⟨l', r'⟩ := q
        rw [hf] at h
        simp only [pure_run, Res.ok.injEq, Prod.mk.injEq] at h
        obtain ⟨_, rfl⟩ := h
        have h1 := hb bs a r1 hb1
        have h2 := ih r1 l' r' hf
        have : w * (n + 1) = w * n + w := Nat.mul_succ w n
        omega
      | throw e => rw [hf] at h; simp at h
      | ub u => rw [hf] at h; simp at h
    | throw e => rw [hb1] at h; simp at h
    | ub u => rw [hb1] at h; simp at h

/-! ### signed counts -/

theorem s64_of_nonneg (k : UInt64) (h : ¬ Prim.s64 k < 0) : Prim.s64 k = (k.toNat : Int) :=
  Impl.V2.s64_of_lt k ((Impl.V2.s64_nonneg_iff k).mp h)

/-! ### 2.x and 1.x loops (entry ≥ 23 bytes) -/

def loopsCount (bs : Bytes) : Nat := (u64le.get bs).toNat

/-- The checks before the loop of `loops_blob::decode` / 1.x `loops_data::decode` pass. -/
def loopsEntered (bs : Bytes) : Prop :=
  8 ≤ bs.length ∧
    ¬ (Prim.s64 (u64le.get bs) < 0 ∨ ((bs.length - 8 : Nat) / 23 : Int) < Prim.s64 (u64le.get bs))

instance (bs : Bytes) : Decidable (loopsEntered bs) := by unfold loopsEntered; infer_instance

theorem decodeLoops_shape (bs : Bytes) : Impl.V2.decodeLoops bs =
    if loopsEntered bs then
      ((forN Impl.V2.decodeLoop (loopsCount bs) >>= fun ls => (do
          let extra ← rest
          pure (ls, extra) : Cur (V2.Loops × Bytes))) (bs.drop 8)).bind (fun p => .ok p.1)
    else .throw .invalid_argument := by
  unfold Impl.V2.decodeLoops loopsEntered loopsCount
  by_cases h8 : bs.length < 8
  · have : ¬ 8 ≤ bs.length := by omega
    simp only [h8, if_true, this, false_and, if_false]
  · have h8' : 8 ≤ bs.length := by omega
    simp only [h8, if_false, bind_run, rd_u64le_run h8', remaining_run, h8', true_and,
      List.length_drop]
    by_cases hg : (Prim.s64 (u64le.get bs) < 0 ∨
        ((bs.length - 8 : Nat) / 23 : Int) < Prim.s64 (u64le.get bs))
    · simp only [hg, if_true, not_true_eq_false, if_false, throwC_run, Res.bind]
    · simp only [hg, if_false, not_false_eq_true, if_true]
      rfl

theorem loopsEntered_bound {bs : Bytes} (h : loopsEntered bs) :
    loopsCount bs * 23 ≤ bs.length - 8 := by
  obtain ⟨h8, hg⟩ := h
  simp only [not_or] at hg
  obtain ⟨h0, h1⟩ := hg
  have hs := s64_of_nonneg _ h0
  unfold loopsCount
  omega

def itersLoopsV2 (bs : Bytes) : Nat :=
  if loopsEntered bs then forNIters Impl.V2.decodeLoop (loopsCount bs) (bs.drop 8) else 0

theorem decode_steps_v2_loops (bs : Bytes) : itersLoopsV2 bs ≤ bs.length / 23 := by
  unfold itersLoopsV2
  split
  · rename_i h
    have h1 := forNIters_le Impl.V2.decodeLoop (loopsCount bs) (bs.drop 8)
    have h2 := loopsEntered_bound h
    omega
  · omega

theorem decodeLoops1_shape (bs : Bytes) : Impl.V1.decodeLoops bs =
    if loopsEntered bs then
      ((forN Impl.V1.decodeLoop (loopsCount bs) >>= fun ls => (do
          let rem ← remaining
          if rem ≠ 0 then throwC .invalid_argument else
          pure ls : Cur Impl.V1.Loops)) (bs.drop 8)).bind (fun p => .ok p.1)
    else .throw .invalid_argument := by
  unfold Impl.V1.decodeLoops loopsEntered loopsCount
  by_cases h8 : bs.length < 8
  · have : ¬ 8 ≤ bs.length := by omega
    simp only [h8, if_true, this, false_and, if_false]
  · have h8' : 8 ≤ bs.length := by omega
    simp only [h8, if_false, bind_run, rd_u64le_run h8', remaining_run, h8', true_and,
      List.length_drop]
    by_cases hg : (Prim.s64 (u64le.get bs) < 0 ∨
        ((bs.length - 8 : Nat) / 23 : Int) < Prim.s64 (u64le.get bs))
    · simp only [hg, if_true, not_true_eq_false, if_false, throwC_run, Res.bind]
    · simp only [hg, if_false, not_false_eq_true, if_true]
      rfl

def itersLoopsV1 (bs : Bytes) : Nat :=
  if loopsEntered bs then forNIters Impl.V1.decodeLoop (loopsCount bs) (bs.drop 8) else 0

theorem decode_steps_v1_loops (bs : Bytes) : itersLoopsV1 bs ≤ bs.length / 23 := by
  unfold itersLoopsV1
  split
  · rename_i h
    have h1 := forNIters_le Impl.V1.decodeLoop (loopsCount bs) (bs.drop 8)
    have h2 := loopsEntered_bound h
    omega
  · omega

/-! ### 2.x and 1.x quick cues (entry ≥ 13 bytes) -/

def cuesCount (bs : Bytes) : Nat := (u64be.get bs).toNat

/-- The checks before the loop of `quick_cues_blob::decode` / 1.x `quick_cues_data::decode` pass. -/
def cuesEntered (bs : Bytes) : Prop :=
  25 ≤ bs.length ∧
    ¬ (Prim.s64 (u64be.get bs) < 0 ∨ ((bs.length - 8 : Nat) / 13 : Int) < Prim.s64 (u64be.get bs))

instance (bs : Bytes) : Decidable (cuesEntered bs) := by unfold cuesEntered; infer_instance

/-- What 2.x `quick_cues_blob::decode` does after the loop. -/
def cuesTailV2 (cs : List V2.Cue) : Cur (V2.Cues × Bytes) := do
  let adj ← rd u64be
  let flag ← rd u8
  let dflt ← rd u64be
  let extra ← rest
  pure (⟨cs, adj, flag != 0, dflt⟩, extra)

/-- What 1.x `quick_cues_data::decode` does after the loop. -/
def cuesTailV1 (cs : List (Option Impl.V1.HotCue)) : Cur Impl.V1.Cues := do
  let adj ← rd u64be
  let flag ← rd u8
  let dflt ← rd u64be
  if flag.toNat > 1 ∨ (flag.toNat = 0 ∧ F64.ne adj dflt) then throwC .invalid_argument else
  let rem ← remaining
  if rem ≠ 0 then throwC .invalid_argument else
  pure (⟨cs, adj, dflt⟩ : Impl.V1.Cues)

theorem decodeCues_shape (bs : Bytes) : Impl.V2.decodeCues bs =
    if cuesEntered bs then
      ((forN Impl.V2.decodeCue (cuesCount bs) >>= cuesTailV2) (bs.drop 8)).bind (fun p => .ok p.1)
    else .throw .invalid_argument := by
  unfold Impl.V2.decodeCues cuesEntered cuesCount
  by_cases h25 : bs.length < 25
  · have : ¬ 25 ≤ bs.length := by omega
    simp only [h25, if_true, this, false_and, if_false]
  · have h25' : 25 ≤ bs.length := by omega
    have h8' : 8 ≤ bs.length := by omega
    simp only [h25, if_false, bind_run, rd_u64be_run h8', remaining_run, h25', true_and,
      List.length_drop]
    by_cases hg : (Prim.s64 (u64be.get bs) < 0 ∨
        ((bs.length - 8 : Nat) / 13 : Int) < Prim.s64 (u64be.get bs))
    · simp only [hg, if_true, not_true_eq_false, if_false, throwC_run, Res.bind]
    · simp only [hg, if_false, not_false_eq_true, if_true]
      rfl

theorem decodeCues1_shape (bs : Bytes) : Impl.V1.decodeCues bs =
    if cuesEntered bs then
      ((forN Impl.V1.decodeCue (cuesCount bs) >>= cuesTailV1) (bs.drop 8)).bind (fun p => .ok p.1)
    else .throw .invalid_argument := by
  unfold Impl.V1.decodeCues cuesEntered cuesCount
  by_cases h25 : bs.length < 25
  · have : ¬ 25 ≤ bs.length := by omega
    simp only [h25, if_true, this, false_and, if_false]
  · have h25' : 25 ≤ bs.length := by omega
    have h8' : 8 ≤ bs.length := by omega
    simp only [h25, if_false, bind_run, rd_u64be_run h8', remaining_run, h25', true_and,
      List.length_drop]
    by_cases hg : (Prim.s64 (u64be.get bs) < 0 ∨
        ((bs.length - 8 : Nat) / 13 : Int) < Prim.s64 (u64be.get bs))
    · simp only [hg, if_true, not_true_eq_false, if_false, throwC_run, Res.bind]
    · simp only [hg, if_false, not_false_eq_true, if_true]
      rfl

theorem cuesEntered_bound {bs : Bytes} (h : cuesEntered bs) :
    cuesCount bs * 13 ≤ bs.length - 8 := by
  obtain ⟨h8, hg⟩ := h
  simp only [not_or] at hg
  obtain ⟨h0, h1⟩ := hg
  have hs := s64_of_nonneg _ h0
  unfold cuesCount
  omega

def itersCuesV2 (bs : Bytes) : Nat :=
  if cuesEntered bs then forNIters Impl.V2.decodeCue (cuesCount bs) (bs.drop 8) else 0

def itersCuesV1 (bs : Bytes) : Nat :=
  if cuesEntered bs then forNIters Impl.V1.decodeCue (cuesCount bs) (bs.drop 8) else 0

theorem decode_steps_v2_cues (bs : Bytes) : itersCuesV2 bs ≤ bs.length / 13 := by
  unfold itersCuesV2
  split
  · rename_i h
    have h1 := forNIters_le Impl.V2.decodeCue (cuesCount bs) (bs.drop 8)
    have h2 := cuesEntered_bound h
    omega
  · omega

theorem decode_steps_v1_cues (bs : Bytes) : itersCuesV1 bs ≤ bs.length / 13 := by
  unfold itersCuesV1
  split
  · rename_i h
    have h1 := forNIters_le Impl.V1.decodeCue (cuesCount bs) (bs.drop 8)
    have h2 := cuesEntered_bound h
    omega
  · omega

/-! ### beat grids (24 bytes per marker) -/

def gridCount (bs : Bytes) : Nat := (u64be.get bs).toNat

theorem rd_marker_consumes (bs : Bytes) (a : V2.Marker) (r : Bytes)
    (h : rd V2.marker bs = .ok (a, r)) : 24 + r.length ≤ bs.length := by
  unfold rd at h
  cases hd : V2.marker.dec bs with
  | none => rw [hd] at h; simp at h
  | some p =>
    obtain ⟨a', r'⟩ := p
    rw [hd] at h
    simp only [Res.ok.injEq, Prod.mk.injEq] at h
    obtain ⟨rfl, rfl⟩ := h
    have e := (V2.marker_exact _ _ _ hd).2
    have : bs.length = (V2.marker.enc a' ++ r').length := congrArg List.length e
    rw [List.length_append, V2.marker_enc_length] at this
    omega

/-! #### 2.x -/

/-- The checks before the loop of 2.x `decode_beatgrid` pass. -/
def gridEntered (bs : Bytes) : Prop :=
  8 ≤ bs.length ∧
    ¬ (Prim.s64 (u64be.get bs) < 0 ∨ ((bs.length - 8 : Nat) / 24 : Int) < Prim.s64 (u64be.get bs))

instance (bs : Bytes) : Decidable (gridEntered bs) := by unfold gridEntered; infer_instance

theorem decodeGrid_shape (bs : Bytes) : Impl.V2.decodeGrid bs =
    if gridEntered bs then forN (rd V2.marker) (gridCount bs) (bs.drop 8)
    else .throw .invalid_argument := by
  unfold Impl.V2.decodeGrid gridEntered gridCount
  simp only [bind_run, remaining_run]
  by_cases h8 : bs.length < 8
  · have : ¬ 8 ≤ bs.length := by omega
    simp only [h8, if_true, this, false_and, if_false, throwC_run]
  · have h8' : 8 ≤ bs.length := by omega
    simp only [h8, if_false, bind_run, rd_u64be_run h8', remaining_run, h8', true_and,
      List.length_drop]
    by_cases hg : (Prim.s64 (u64be.get bs) < 0 ∨
        ((bs.length - 8 : Nat) / 24 : Int) < Prim.s64 (u64be.get bs))
    · simp only [hg, if_true, not_true_eq_false, if_false, throwC_run]
    · simp only [hg, if_false, not_false_eq_true, if_true]

/-- 2.x `beat_data_blob::decode`: the fixed header, then the two grids one after the other. -/
theorem decodeBeat_shape (bs : Bytes) : Impl.V2.decodeBeat bs =
    if bs.length < 33 then .throw .invalid_argument else
    match Impl.V2.decodeGrid (bs.drop 17) with
    | .ok (d, r1) =>
      match Impl.V2.decodeGrid r1 with
      | .ok (a, r2) => .ok (⟨u64be.get bs, u64be.get (bs.drop 8), u8.get (bs.drop 16), d, a⟩, r2)
      | .throw e => .throw e
      | .ub u => .ub u
    | .throw e => .throw e
    | .ub u => .ub u := by
  unfold Impl.V2.decodeBeat
  by_cases h : bs.length < 33
  · simp only [h, if_true]
  · have r1 := rd_u64be_run (bs := bs) (by omega)
    have r2 := rd_u64be_run (bs := bs.drop 8) (by simp; omega)
    have r3 := rd_u8_run (bs := bs.drop 16) (by simp; omega)
    simp only [List.drop_drop, Nat.reduceAdd] at r2 r3
    simp only [h, if_false, bind_run, r1, r2, r3]
    cases h1 : Impl.V2.decodeGrid (bs.drop 17) with
    | ok p =>
      obtain ⟨d, r1'⟩ := p
      simp only []
      cases h2 : Impl.V2.decodeGrid r1' with
      | ok q => obtain ⟨a, r2'⟩ := q; simp [Res.bind]
      | throw e => simp [Res.bind]
      | ub u => simp [Res.bind]
    | throw e => simp [Res.bind]
    | ub u => simp [Res.bind]

theorem gridEntered_bound {bs : Bytes} (h : gridEntered bs) :
    gridCount bs * 24 ≤ bs.length - 8 := by
  obtain ⟨h8, hg⟩ := h
  simp only [not_or] at hg
  obtain ⟨h0, h1⟩ := hg
  have hs := s64_of_nonneg _ h0
  unfold gridCount
  omega

/-- loop-body executions of one 2.x `decode_beatgrid` call -/
def itersGridV2 (bs : Bytes) : Nat :=
  if gridEntered bs then forNIters (rd V2.marker) (gridCount bs) (bs.drop 8) else 0

theorem itersGridV2_le (bs : Bytes) : itersGridV2 bs * 24 ≤ bs.length - 8 := by
  unfold itersGridV2
  split
  · rename_i h
    have h1 := forNIters_le (rd V2.marker) (gridCount bs) (bs.drop 8)
    have h2 := gridEntered_bound h
    omega
  · omega

/-- A grid that decodes leaves behind at most what its count word and its markers did not use. -/
theorem decodeGrid_consumes (bs : Bytes) (d : List V2.Marker) (r : Bytes)
    (h : Impl.V2.decodeGrid bs = .ok (d, r)) : itersGridV2 bs * 24 + 8 + r.length ≤ bs.length := by
  rw [decodeGrid_shape] at h
  unfold itersGridV2
  by_cases he : gridEntered bs
  · simp only [he, if_true] at h ⊢
    have h1 := forNIters_le (rd V2.marker) (gridCount bs) (bs.drop 8)
    have h2 := forN_consumes (w := 24) rd_marker_consumes _ _ _ _ h
    have h8 := he.1
    simp only [List.length_drop] at h2
    omega
  · simp only [he, if_false] at h
    cases h

def itersBeatV2 (bs : Bytes) : Nat :=
  if bs.length < 33 then 0 else
  itersGridV2 (bs.drop 17) +
    match Impl.V2.decodeGrid (bs.drop 17) with
    | .ok (_, r1) => itersGridV2 r1
    | _ => 0

theorem decode_steps_v2_beat (bs : Bytes) : itersBeatV2 bs ≤ bs.length / 24 := by
  unfold itersBeatV2
  split
  · omega
  · rename_i h33
    have hl : (bs.drop 17).length = bs.length - 17 := List.length_drop
    have h0 := itersGridV2_le (bs.drop 17)
    cases h1 : Impl.V2.decodeGrid (bs.drop 17) with
    | ok p =>
      obtain ⟨d, r1⟩ := p
      simp only []
      have h2 := decodeGrid_consumes _ _ _ h1
      have h3 := itersGridV2_le r1
      omega
    | throw e => simp only []; omega
    | ub u => simp only []; omega

/-! #### 1.x -/

/-- The checks before the loop of 1.x `decode_beatgrid` pass (count in 2..32768, markers fit). -/
def grid1Entered (bs : Bytes) : Prop :=
  8 ≤ bs.length ∧ ¬ Prim.s64 (u64be.get bs) = 0 ∧ ¬ Prim.s64 (u64be.get bs) < 2 ∧
    ¬ Prim.s64 (u64be.get bs) > 32768 ∧
    ¬ ((bs.length - 8 : Nat) : Int) < 24 * Prim.s64 (u64be.get bs)

/-- The early return of 1.x `decode_beatgrid`: a zero count, no loop. -/
def grid1Empty (bs : Bytes) : Prop := 8 ≤ bs.length ∧ Prim.s64 (u64be.get bs) = 0

instance (bs : Bytes) : Decidable (grid1Entered bs) := by unfold grid1Entered; infer_instance
instance (bs : Bytes) : Decidable (grid1Empty bs) := by unfold grid1Empty; infer_instance

/-- The marker checks of 1.x `decode_beatgrid`, on the markers the loop has read. -/
def grid1Check (wire : List V2.Marker) : Cur (List Impl.V1.GMarker) :=
  fun bs => match Impl.V1.checkWire none wire with
    | .ok g => .ok (g, bs)
    | .throw e => .throw e
    | .ub u => .ub u

theorem decodeGrid1_shape (bs : Bytes) : Impl.V1.decodeGrid bs =
    if grid1Entered bs then (forN (rd V2.marker) (gridCount bs) >>= grid1Check) (bs.drop 8)
    else if grid1Empty bs then .ok ([], bs.drop 8)
    else .throw .invalid_argument := by
  rw [ArithZ.decodeGrid1_eq_Z]
  unfold ArithZ.decodeGrid1Z grid1Entered grid1Empty gridCount
  simp only [bind_run, remaining_run]
  by_cases h8 : bs.length < 8
  · have : ¬ 8 ≤ bs.length := by omega
    simp only [h8, if_true, this, false_and, if_false, throwC_run]
  · have h8' : 8 ≤ bs.length := by omega
    simp only [h8, if_false, bind_run, rd_u64be_run h8', remaining_run, h8', true_and,
      List.length_drop]
    by_cases h0 : Prim.s64 (u64be.get bs) = 0
    · simp only [h0, if_true, not_true_eq_false, false_and, if_false, pure_run]
    · simp only [h0, if_false, not_false_eq_true, true_and]
      by_cases h2 : Prim.s64 (u64be.get bs) < 2
      · simp only [h2, if_true, not_true_eq_false, false_and, if_false, throwC_run]
      · simp only [h2, if_false, not_false_eq_true, true_and]
        by_cases hb : Prim.s64 (u64be.get bs) > 32768
        · simp only [hb, if_true, not_true_eq_false, false_and, if_false, throwC_run]
        · simp only [hb, if_false, not_false_eq_true, true_and, bind_run, remaining_run,
            List.length_drop]
          by_cases hr : ((bs.length - 8 : Nat) : Int) < 24 * Prim.s64 (u64be.get bs)
          · simp only [hr, if_true, not_true_eq_false, if_false, throwC_run]
          · simp only [hr, if_false, not_false_eq_true, if_true]
            rfl

/-- 1.x `beat_data::decode`: the fixed header, then the two grids inside `try … catch
(invalid_argument)`, then the zero-only trailer (`V1Proofs.beatFin`). -/
theorem decodeBeat1_shape (bs : Bytes) : Impl.V1.decodeBeat bs =
    if bs.length < 33 then .throw .invalid_argument else
    match Impl.V1.decodeGrid (bs.drop 17) with
    | .ub u => .ub u
    | .throw _ => V1Proofs.beatFin (u64be.get bs) (u64be.get (bs.drop 8)) [] [] (bs.drop 17)
    | .ok (d, r1) =>
      match Impl.V1.decodeGrid r1 with
      | .ub u => .ub u
      | .throw _ => V1Proofs.beatFin (u64be.get bs) (u64be.get (bs.drop 8)) [] [] r1
      | .ok (a, r2) => V1Proofs.beatFin (u64be.get bs) (u64be.get (bs.drop 8)) d a r2 := by
  unfold Impl.V1.decodeBeat
  by_cases h : bs.length < 33
  · simp only [h, if_true]
  · have r1 := rd_u64be_run (bs := bs) (by omega)
    have r2 := rd_u64be_run (bs := bs.drop 8) (by simp; omega)
    have r3 := rd_u8_run (bs := bs.drop 16) (by simp; omega)
    simp only [List.drop_drop, Nat.reduceAdd] at r2 r3
    simp only [h, if_false, bind_run, r1, r2, r3, pure_run]
    cases h1 : Impl.V1.decodeGrid (bs.drop 17) with
    | ok p =>
      obtain ⟨d, r1'⟩ := p
      simp only []
      cases h2 : Impl.V1.decodeGrid r1' with
      | ok q => obtain ⟨a, r2'⟩ := q; simp [V1Proofs.beatFin]
      | throw e => simp [V1Proofs.beatFin]
      | ub u => simp
    | throw e => simp [V1Proofs.beatFin]
    | ub u => simp

theorem grid1Entered_bound {bs : Bytes} (h : grid1Entered bs) :
    gridCount bs * 24 ≤ bs.length - 8 ∧ gridCount bs ≤ 32768 := by
  obtain ⟨h8, h0, h2, hb, hr⟩ := h
  have hs := s64_of_nonneg (u64be.get bs) (by omega)
  unfold gridCount
  omega

/-- loop-body executions of one 1.x `decode_beatgrid` call -/
def itersGridV1 (bs : Bytes) : Nat :=
  if grid1Entered bs then forNIters (rd V2.marker) (gridCount bs) (bs.drop 8) else 0

theorem itersGridV1_le (bs : Bytes) : itersGridV1 bs * 24 ≤ bs.length - 8 ∧ itersGridV1 bs ≤ 32768 := by
  unfold itersGridV1
  split
  · rename_i h
    have h1 := forNIters_le (rd V2.marker) (gridCount bs) (bs.drop 8)
    have h2 := grid1Entered_bound h
    omega
  · omega

theorem decodeGrid1_consumes (bs : Bytes) (d : List Impl.V1.GMarker) (r : Bytes)
    (h : Impl.V1.decodeGrid bs = .ok (d, r)) : itersGridV1 bs * 24 + 8 + r.length ≤ bs.length := by
  rw [decodeGrid1_shape] at h
  unfold itersGridV1
  by_cases he : grid1Entered bs
  · simp only [he, if_true, bind_run] at h ⊢
    have h1 := forNIters_le (rd V2.marker) (gridCount bs) (bs.drop 8)
    have h8 := he.1
    cases hf : forN (rd V2.marker) (gridCount bs) (bs.drop 8) with
    | ok p =>
      obtain ⟨wire, r'⟩ := p
      rw [hf] at h
      simp only [grid1Check] at h
      have h2 := forN_consumes (w := 24) rd_marker_consumes _ _ _ _ hf
      simp only [List.length_drop] at h2
      cases hc : Impl.V1.checkWire none wire with
      | ok g =>
        rw [hc] at h
        simp only [Res.ok.injEq, Prod.mk.injEq] at h
        obtain ⟨_, rfl⟩ := h
        omega
      | throw e => rw [hc] at h; simp at h
      | ub u => rw [hc] at h; simp at h
    | throw e => rw [hf] at h; simp at h
    | ub u => rw [hf] at h; simp at h
  · simp only [he, if_false] at h ⊢
    by_cases hz : grid1Empty bs
    · simp only [hz, if_true, Res.ok.injEq, Prod.mk.injEq] at h
      obtain ⟨_, rfl⟩ := h
      have h8 := hz.1
      simp only [List.length_drop]
      omega
    · simp only [hz, if_false] at h
      cases h

def itersBeatV1 (bs : Bytes) : Nat :=
  if bs.length < 33 then 0 else
  itersGridV1 (bs.drop 17) +
    match Impl.V1.decodeGrid (bs.drop 17) with
    | .ok (_, r1) => itersGridV1 r1
    | _ => 0

theorem decode_steps_v1_beat (bs : Bytes) : itersBeatV1 bs ≤ bs.length / 24 := by
  unfold itersBeatV1
  split
  · omega
  · rename_i h33
    have hl : (bs.drop 17).length = bs.length - 17 := List.length_drop
    have h0 := (itersGridV1_le (bs.drop 17)).1
    cases h1 : Impl.V1.decodeGrid (bs.drop 17) with
    | ok p =>
      obtain ⟨d, r1⟩ := p
      simp only []
      have h2 := decodeGrid1_consumes _ _ _ h1
      have h3 := (itersGridV1_le r1).1
      omega
    | throw e => simp only []; omega
    | ub u => simp only []; omega

/-- Independently of the input length, the 1.x decoder reads at most 2 × 32768 markers. -/
theorem decode_steps_v1_beat_abs (bs : Bytes) : itersBeatV1 bs ≤ 65536 := by
  unfold itersBeatV1
  split
  · omega
  · have h0 := (itersGridV1_le (bs.drop 17)).2
    cases h1 : Impl.V1.decodeGrid (bs.drop 17) with
    | ok p =>
      obtain ⟨d, r1⟩ := p
      simp only []
      have h3 := (itersGridV1_le r1).2
      omega
    | throw e => simp only []; omega
    | ub u => simp only []; omega

/-! ### 1.x waveforms (3 resp. 6 bytes per entry) -/

def waveCount (bs : Bytes) : Nat := (u64be.get bs).toNat

/-- The checks before the loop of the 1.x waveform decoders pass (`minLen` = 27 / 30,
`w` = 3 / 6 bytes per entry). -/
def waveEntered (minLen w : Nat) (bs : Bytes) : Prop :=
  minLen ≤ bs.length ∧ u64be.get bs = u64be.get (bs.drop 8) ∧
    ¬ (Prim.s64 (u64be.get bs) < 0 ∨ ((bs.length - 24 : Nat) / w : Int) < Prim.s64 (u64be.get bs) ∨
        ((bs.length - 24 : Nat) : Int) ≠ (w : Int) * (Prim.s64 (u64be.get bs) + 1))

instance (minLen w : Nat) (bs : Bytes) : Decidable (waveEntered minLen w bs) := by
  unfold waveEntered; infer_instance

/-- What the 1.x waveform decoders do after the loop (skip the maxima, require the end). -/
def waveTail (w : Nat) (spe : UInt64) (es : List Impl.V1.Entry) : Cur Impl.V1.Wave := do
  let _ ← takeN w
  let rem ← remaining
  if rem ≠ 0 then throwC .runtime_error else
  pure (⟨spe, es⟩ : Impl.V1.Wave)

theorem decodeWave_shape (minLen w : Nat) (entry : Cur Impl.V1.Entry) (hm : 24 ≤ minLen) (hw : 0 < w) (hw6 : w ≤ 6)
    (bs : Bytes) (hlen : bs.length < maxCount) : Impl.V1.decodeWave minLen w entry bs =
    if waveEntered minLen w bs then
      ((forN entry (waveCount bs) >>= waveTail w (u64be.get (bs.drop 16))) (bs.drop 24)).bind
        (fun p => .ok p.1)
    else .throw .invalid_argument := by
  rw [ArithZ.decodeWave_eq_Z minLen w hm hw hw6 entry bs hlen]
  unfold ArithZ.decodeWaveZ waveEntered waveCount
  by_cases hlen : bs.length < minLen
  · have : ¬ minLen ≤ bs.length := by omega
    simp only [hlen, if_true, this, false_and, if_false]
  · have hlen' : minLen ≤ bs.length := by omega
    have r1 := rd_u64be_run (bs := bs) (by omega)
    have r2 := rd_u64be_run (bs := bs.drop 8) (by simp; omega)
    have r3 := rd_u64be_run (bs := bs.drop 16) (by simp; omega)
    simp only [List.drop_drop, Nat.reduceAdd] at r2 r3
    simp only [hlen, if_false, hlen', true_and, bind_run, r1, r2, r3]
    by_cases hn : u64be.get bs = u64be.get (bs.drop 8)
    · have hn' : (u64be.get bs = u64be.get (bs.drop 8)) = True := eq_true hn
      simp only [ne_eq, hn', not_true_eq_false, if_false, true_and, bind_run, remaining_run,
        List.length_drop]
      by_cases hg : (Prim.s64 (u64be.get bs) < 0 ∨
          ((bs.length - 24 : Nat) / w : Int) < Prim.s64 (u64be.get bs) ∨
          ¬ ((bs.length - 24 : Nat) : Int) = (w : Int) * (Prim.s64 (u64be.get bs) + 1))
      · simp only [hg, if_true, not_true_eq_false, if_false, throwC_run, Res.bind]
      · simp only [hg, if_false, not_false_eq_true, if_true]
        rfl
    · have hn' : (u64be.get bs = u64be.get (bs.drop 8)) = False := eq_false hn
      simp only [ne_eq, hn', not_false_eq_true, if_true, false_and, if_false, throwC_run, Res.bind]

def ovwEntered (bs : Bytes) : Prop := waveEntered 27 3 bs
def hiresEntered (bs : Bytes) : Prop := waveEntered 30 6 bs

instance (bs : Bytes) : Decidable (ovwEntered bs) := by unfold ovwEntered; infer_instance
instance (bs : Bytes) : Decidable (hiresEntered bs) := by unfold hiresEntered; infer_instance

theorem decodeOvw1_shape (bs : Bytes) (hlen : bs.length < maxCount) : Impl.V1.decodeOvw bs =
    if ovwEntered bs then
      ((forN Impl.V1.ovwEntry (waveCount bs) >>= waveTail 3 (u64be.get (bs.drop 16)))
        (bs.drop 24)).bind (fun p => .ok p.1)
    else .throw .invalid_argument :=
  decodeWave_shape 27 3 Impl.V1.ovwEntry (by omega) (by omega) (by omega) bs hlen

theorem decodeHires1_shape (bs : Bytes) (hlen : bs.length < maxCount) : Impl.V1.decodeHires bs =
    if hiresEntered bs then
      ((forN Impl.V1.hiresEntry (waveCount bs) >>= waveTail 6 (u64be.get (bs.drop 16)))
        (bs.drop 24)).bind (fun p => .ok p.1)
    else .throw .invalid_argument :=
  decodeWave_shape 30 6 Impl.V1.hiresEntry (by omega) (by omega) (by omega) bs hlen

theorem ovwEntered_bound {bs : Bytes} (h : ovwEntered bs) :
    waveCount bs * 3 ≤ bs.length - 24 := by
  obtain ⟨hl, _, hg⟩ := h
  simp only [not_or] at hg
  obtain ⟨h0, h1, _⟩ := hg
  have hs := s64_of_nonneg _ h0
  unfold waveCount
  omega

theorem hiresEntered_bound {bs : Bytes} (h : hiresEntered bs) :
    waveCount bs * 6 ≤ bs.length - 24 := by
  obtain ⟨hl, _, hg⟩ := h
  simp only [not_or] at hg
  obtain ⟨h0, h1, _⟩ := hg
  have hs := s64_of_nonneg _ h0
  unfold waveCount
  omega

def itersOvwV1 (bs : Bytes) : Nat :=
  if ovwEntered bs then forNIters Impl.V1.ovwEntry (waveCount bs) (bs.drop 24) else 0

def itersHiresV1 (bs : Bytes) : Nat :=
  if hiresEntered bs then forNIters Impl.V1.hiresEntry (waveCount bs) (bs.drop 24) else 0

theorem decode_steps_v1_ovw (bs : Bytes) : itersOvwV1 bs ≤ bs.length / 3 := by
  unfold itersOvwV1
  split
  · rename_i h
    have h1 := forNIters_le Impl.V1.ovwEntry (waveCount bs) (bs.drop 24)
    have h2 := ovwEntered_bound h
    omega
  · omega

theorem decode_steps_v1_hires (bs : Bytes) : itersHiresV1 bs ≤ bs.length / 6 := by
  unfold itersHiresV1
  split
  · rename_i h
    have h1 := forNIters_le Impl.V1.hiresEntry (waveCount bs) (bs.drop 24)
    have h2 := hiresEntered_bound h
    omega
  · omega

end Steps
end EngineModel
