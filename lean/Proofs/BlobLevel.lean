/-
Blob-level facts: the zlib framing of the Model side, related to the independent Spec side.

 * `lenPrefix_eq_be32`      the Model's 4-byte prefix is the Spec's big-endian 32-bit length;
 * `unz_frame`              the Model of `zlib_uncompress` reads what the Spec framing writes;
 * `unz_ok_unframe`         whatever the Model of `zlib_uncompress` accepts, the Spec reading of the
                            column accepts with the same payload;
 * `replayOracle`, `replayContract`, `uncompress_replay_eq_unz`
                            an inflate `Oracle` built from the independent Lean `Zlib.inflate` (it
                            swallows the stream window by window and then hands out the inflated
                            bytes in pieces of at most `avail_out`) satisfies the call `Contract`, and
                            the LOOP model `uncompress` driven by it returns exactly the result-level
                            model `unz` — so `C05_uncompress_total` is instantiated by a real inflate
                            and the loops are shown to drop, duplicate or reorder nothing across
                            chunk boundaries, trailing bytes and truncated streams;
 * `uncompress_compress`    `zlib_uncompress (zlib_compress p) = p` for the loop models, under the
                            joint hypothesis that the Lean inflate inverts what the deflate oracle
                            produced (`DContract` + `Zlib.inflate (all output) = some (p, _)`).
-/
import Proofs.ZlibLoop
import Proofs.ZlibCompressLoop
import Proofs.InflateStored
import EngineModel.Impl.Blob
set_option linter.unusedVariables false
set_option linter.unusedSimpArgs false

namespace EngineModel.Impl.Zlib
open EngineModel.Zlib

/-! ### the length prefix -/

theorem lenPrefix_eq_be32 (n : Nat) : lenPrefix n = be32 n := by
  unfold lenPrefix be32 Prim.encU32BE
  simp only [UInt32.toNat_ofNat', List.cons.injEq, and_true]
  refine ⟨?_, ?_, ?_, ?_⟩ <;> congr 1 <;> omega

theorem lenPrefix_length (n : Nat) : (lenPrefix n).length = 4 := rfl

theorem drop4_lenPrefix (n : Nat) (s : Bytes) : (lenPrefix n ++ s).drop 4 = s := by
  unfold lenPrefix Prim.encU32BE
  rfl

theorem apparentSize_lenPrefix (n : Nat) (hn : n < 2147483648) (s : Bytes) :
    apparentSize (lenPrefix n ++ s) = n := by
  have h := Prim.decU32BE_encU32BE (UInt32.ofNat n)
  unfold lenPrefix
  unfold Prim.encU32BE at h ⊢
  simp only [List.cons_append, List.nil_append, apparentSize] at h ⊢
  rw [h]
  unfold Prim.s32
  simp only [UInt32.toNat_ofNat']
  have : n % 4294967296 = n := Nat.mod_eq_of_lt (by omega)
  rw [this]
  simp [hn]

/-! ### the Model of `zlib_uncompress` against the Spec framing -/

theorem apparentSize_be32 (n : Nat) (hn : n < 2147483648) (s : Bytes) : apparentSize (be32 n ++ s) = n := by
  rw [← lenPrefix_eq_be32]; exact apparentSize_lenPrefix n hn s

/-! (Kernel note: never let the kernel reduce `prologue` / `unz` on a buffer built from `lenPrefix n` or
from byte variables — the signed reading of the prefix is arithmetic modulo 2^32 on symbolic values.  The
lemmas below are therefore stated for a VARIABLE buffer and instantiated afterwards.) -/

theorem unz_of_prologue_none (buf : Bytes) (h : prologue buf = none) :
    unz buf = match inflate (buf.drop 4) with
      | some (out, _) => .ok out
      | none => .throw .system_error := by
  unfold unz; rw [h]; rfl

theorem unz_of_prologue_some (buf : Bytes) (r : Res Bytes) (h : prologue buf = some r) : unz buf = r := by
  unfold unz; rw [h]

theorem prologue_some_ok (buf p : Bytes) (h : prologue buf = some (.ok p)) :
    p = [] ∧ ¬ (buf.length ≠ 0 ∧ buf.length < 4) ∧ apparentSize buf = 0 := by
  unfold prologue at h
  by_cases h1 : buf.length ≠ 0 ∧ buf.length < 4
  · rw [if_pos h1] at h; simp at h
  · rw [if_neg h1] at h
    by_cases h2 : apparentSize buf = 0
    · rw [if_pos h2] at h
      simp only [Option.some.injEq, Res.ok.injEq] at h
      exact ⟨h.symm, h1, h2⟩
    · rw [if_neg h2] at h
      by_cases h3 : apparentSize buf < 0
      · rw [if_pos h3] at h; simp at h
      · rw [if_neg h3] at h; simp at h

theorem prologue_none_apparent (buf : Bytes) (h : prologue buf = none) : apparentSize buf ≠ 0 := by
  unfold prologue at h
  by_cases h1 : buf.length ≠ 0 ∧ buf.length < 4
  · rw [if_pos h1] at h; simp at h
  · rw [if_neg h1] at h
    by_cases h2 : apparentSize buf = 0
    · rw [if_pos h2] at h; simp at h
    · exact h2

theorem prologue_prefix (n : Nat) (hn : n < 2147483648) (hn0 : n ≠ 0) (s : Bytes) :
    prologue (lenPrefix n ++ s) = none := by
  have hl : ¬ ((lenPrefix n ++ s).length ≠ 0 ∧ (lenPrefix n ++ s).length < 4) := by
    rw [List.length_append, lenPrefix_length]; omega
  have ha := apparentSize_lenPrefix n hn s
  unfold prologue
  rw [if_neg hl, ha]
  have h1 : ¬ (((n : Nat) : Int) = 0) := by omega
  have h2 : ¬ (((n : Nat) : Int) < 0) := by omega
  rw [if_neg h1, if_neg h2]

/-- A blob made of the Model's length prefix (non-zero, below 2 GiB) and any stream: the Model of
`zlib_uncompress` returns what the independent inflate makes of the stream. -/
theorem unz_prefix (n : Nat) (hn : n < 2147483648) (hn0 : n ≠ 0) (s : Bytes) :
    unz (lenPrefix n ++ s) = match inflate s with
      | some (out, _) => .ok out
      | none => .throw .system_error := by
  rw [unz_of_prologue_none _ (prologue_prefix n hn hn0 s), drop4_lenPrefix]

theorem unz_frame_nil : unz (frame []) = .ok [] := by
  have : prologue (frame []) = some (.ok []) := by decide
  exact unz_of_prologue_some _ _ this

/-- The Model of `zlib_uncompress` inverts the Spec framing (payloads below 2 GiB: the prefix is read as a
signed `int32_t`). -/
theorem unz_frame (x : Bytes) (h : x.length < 2147483648) : unz (frame x) = .ok x := by
  by_cases h0 : x.length = 0
  · have hx : x = [] := List.eq_nil_of_length_eq_zero h0
    rw [hx]; exact unz_frame_nil
  · show unz (be32 x.length ++ deflateStored x) = _
    rw [← lenPrefix_eq_be32, unz_prefix _ h h0, inflate_stored]

theorem apparentSize_zero_iff (a b c d : UInt8) (r : Bytes) :
    apparentSize (a :: b :: c :: d :: r) = 0 ↔
      a.toNat * 16777216 + b.toNat * 65536 + c.toNat * 256 + d.toNat = 0 := by
  have ha := a.toNat_lt; have hb := b.toNat_lt; have hc := c.toNat_lt; have hd := d.toNat_lt
  unfold apparentSize Prim.s32 Prim.decU32BE
  simp only [UInt32.toNat_ofNat']
  have hm : (a.toNat * 16777216 + b.toNat * 65536 + c.toNat * 256 + d.toNat) % 4294967296
      = a.toNat * 16777216 + b.toNat * 65536 + c.toNat * 256 + d.toNat := Nat.mod_eq_of_lt (by omega)
  rw [hm]
  split <;> omega

/-- Whatever the Model of `zlib_uncompress` returns, the Spec reading of the stored column returns too. -/
theorem unz_ok_unframe (b p : Bytes) (h : unz b = .ok p) : unframe b = some p := by
  cases hp : prologue b with
  | some r =>
    rw [unz_of_prologue_some b r hp] at h
    subst h
    obtain ⟨rfl, hlen, hz⟩ := prologue_some_ok b p hp
    match b, hlen, hz with
    | [], _, _ => rfl
    | [x], hlen, _ => exact absurd ⟨by simp, by simp⟩ hlen
    | [x, y], hlen, _ => exact absurd ⟨by simp, by simp⟩ hlen
    | [x, y, z], hlen, _ => exact absurd ⟨by simp, by simp⟩ hlen
    | a :: b' :: c :: d :: r, _, hz =>
      show (if a.toNat * 16777216 + b'.toNat * 65536 + c.toNat * 256 + d.toNat = 0 then some []
        else (inflate r).map (·.1)) = some []
      rw [if_pos ((apparentSize_zero_iff a b' c d r).mp hz)]
  | none =>
    rw [unz_of_prologue_none b hp] at h
    have h4 := prologue_none_length hp
    have hz := prologue_none_apparent b hp
    match b, h4, hz, h with
    | a :: b' :: c :: d :: r, _, hz, h =>
      show (if a.toNat * 16777216 + b'.toNat * 65536 + c.toNat * 256 + d.toNat = 0 then some []
        else (inflate r).map (·.1)) = some p
      have hz' : ¬ (a.toNat * 16777216 + b'.toNat * 65536 + c.toNat * 256 + d.toNat = 0) :=
        fun e => hz ((apparentSize_zero_iff a b' c d r).mpr e)
      rw [if_neg hz']
      simp only [List.drop_succ_cons, List.drop_zero] at h
      cases hi : inflate r with
      | none => rw [hi] at h; simp at h
      | some q =>
        obtain ⟨out, rest⟩ := q
        rw [hi] at h
        simp only [Res.ok.injEq] at h
        simp [h]

/-! ### an inflate oracle built from the independent Lean inflate -/

/-- State of the replay stream: stream bytes swallowed so far, inflated bytes not yet handed out. -/
structure RState where
  pos : Nat
  left : Bytes

/-- `L = none`: the input is not a complete valid stream — every call swallows its window, produces
nothing and never reports the end.  `L = some n`: the stream is `n` bytes long — calls swallow input
until `n` bytes are taken, then hand out the inflated bytes, at most `avail_out` per call, and report
`Z_STREAM_END` with the last piece. -/
def replayOracle (L : Option Nat) : Oracle RState where
  step s win n :=
    match L with
    | none => (.ok, win.length, [], s)
    | some L =>
      let c := min win.length (L - s.pos)
      if s.pos + c < L then (.ok, c, [], ⟨s.pos + c, s.left⟩)
      else (if s.left.length < n then .streamEnd else .ok, c, s.left.take n, ⟨s.pos + c, s.left.drop n⟩)

def replayContract (L : Option Nat) : Contract (replayOracle L) where
  pot s _ := s.left.length
  ratio := 0
  pot_mono := by intros; omega
  pot_input := by intros; omega
  step_ok := by
    intro s win n
    unfold replayOracle
    cases L with
    | none => simp
    | some L =>
      simp only []
      split
      · simp; omega
      · simp only [List.length_take, List.length_drop]; omega

/-- The stream length the oracle is given: whatever the Lean inflate did not hand back, at least one
byte, for an input `z` it accepts. -/
def streamLen (z : Bytes) : Option Nat :=
  (inflate z).map (fun p => max 1 (z.length - p.2.length))

def replayInit (z : Bytes) : RState := ⟨0, ((inflate z).map (·.1)).getD []⟩

theorem inflate_nil : inflate [] = none := rfl

/-- partial correctness, stream rejected by the Lean inflate: the loops can only end with `system_error` -/
theorem loop_replay_none (buf : Bytes) :
    ∀ (fuel : Nat) (s : RState) (ptr : Nat) (ph : Phase) (acc : Bytes), ptr ≤ buf.length →
      loop (replayOracle none) buf buf.length fuel s ptr ph acc = .throw .system_error ∨
      loop (replayOracle none) buf buf.length fuel s ptr ph acc = .ub .nontermination := by
  intro fuel
  induction fuel with
  | zero => intro s ptr ph acc _; right; cases ph <;> rfl
  | succ fuel ih =>
    intro s ptr ph acc hp
    cases ph with
    | outer =>
      simp only [loop]
      generalize hav : (if ptr + chunk < buf.length then chunk else buf.length - ptr) = avail
      have havle : avail ≤ buf.length - ptr := by rw [← hav]; split <;> omega
      have hreg : ¬ (buf.length < ptr + avail) := by omega
      simp only [hreg, if_false]
      by_cases h0 : avail = 0
      · simp only [h0, if_true]; left; trivial
      · simp only [h0, if_false]
        exact ih _ _ _ _ (by omega)
    | inner win =>
      simp only [loop, replayOracle]
      have h1 : ¬ (([] : Bytes).length = chunk) := by decide
      simp only [reduceCtorEq, or_self, if_false, h1, List.append_nil]
      exact ih _ _ _ _ hp

/-- loop invariant, stream accepted with output `out` and length `L` -/
def RInv (out : Bytes) (L : Nat) (s : RState) (ptr : Nat) (acc : Bytes) : Phase → Prop
  | .outer => s.pos + 4 = ptr ∧ s.pos < L ∧ s.left = out ∧ acc = []
  | .inner win => acc ++ s.left = out ∧ s.pos ≤ L ∧ (s.pos < L → acc = [] ∧ s.pos + win.length + 4 = ptr)

/-- partial correctness, stream accepted: the loops can only end with the inflated bytes -/
theorem loop_replay_some (out : Bytes) (L : Nat) (buf : Bytes) (hL2 : 4 + L ≤ buf.length) :
    ∀ (fuel : Nat) (s : RState) (ptr : Nat) (ph : Phase) (acc : Bytes), ptr ≤ buf.length →
      RInv out L s ptr acc ph →
      loop (replayOracle (some L)) buf buf.length fuel s ptr ph acc = .ok out ∨
      loop (replayOracle (some L)) buf buf.length fuel s ptr ph acc = .ub .nontermination := by
  intro fuel
  induction fuel with
  | zero => intro s ptr ph acc _ _; right; cases ph <;> rfl
  | succ fuel ih =>
    intro s ptr ph acc hp hinv
    have hchunk : chunk = 16384 := rfl
    cases ph with
    | outer =>
      obtain ⟨h1, h2, h3, h4⟩ := hinv
      simp only [loop]
      generalize hav : (if ptr + chunk < buf.length then chunk else buf.length - ptr) = avail
      have havle : avail ≤ buf.length - ptr := by rw [← hav]; split <;> omega
      have havpos : avail ≠ 0 := by rw [← hav]; split <;> omega
      have hreg : ¬ (buf.length < ptr + avail) := by omega
      simp only [hreg, if_false, havpos]
      apply ih _ _ _ _ (by omega)
      refine ⟨by rw [h4, h3]; rfl, by omega, fun _ => ⟨h4, ?_⟩⟩
      simp only [List.length_take, List.length_drop]
      omega
    | inner win =>
      obtain ⟨h1, h2, h3⟩ := hinv
      simp only [loop, replayOracle]
      by_cases hsw : s.pos + min win.length (L - s.pos) < L
      · -- swallow the whole window, back to the outer loop
        have hc : min win.length (L - s.pos) = win.length := by omega
        have hlt : s.pos < L := by omega
        obtain ⟨ha, hw⟩ := h3 hlt
        have hne : ¬ (([] : Bytes).length = chunk) := by decide
        simp only [hsw, if_true, reduceCtorEq, or_self, if_false, hne, List.append_nil]
        apply ih _ _ _ _ hp
        refine ⟨by simp only [hc]; omega, by simp only [hc]; omega, ?_, ha⟩
        rw [ha] at h1; simpa using h1
      · -- the stream has been taken completely: hand out the inflated bytes
        simp only [hsw, if_false]
        have herr : ∀ r : Ret, (r = .streamEnd ∨ r = .ok) → ¬ (r = .needDict ∨ r = .dataError ∨ r = .memError) := by
          intro r hr; rcases hr with rfl | rfl <;> simp
        by_cases hfull : (s.left.take chunk).length = chunk
        · have hge : ¬ s.left.length < chunk := by
            simp only [List.length_take] at hfull; omega
          simp only [hge, if_false, reduceCtorEq, or_self, hfull, if_true]
          apply ih _ _ _ _ hp
          refine ⟨?_, ?_, fun h => ?_⟩
          · show (acc ++ s.left.take chunk) ++ s.left.drop chunk = out
            rw [List.append_assoc, List.take_append_drop]; exact h1
          · show s.pos + min win.length (L - s.pos) ≤ L
            omega
          · have : s.pos + min win.length (L - s.pos) < L := h
            omega
        · have hlt : s.left.length < chunk := by
            simp only [List.length_take] at hfull; omega
          simp only [hlt, if_true, reduceCtorEq, or_self, if_false, hfull]
          left
          rw [List.take_of_length_le (by omega)]
          exact congrArg Res.ok h1

theorem replay_fuel (L : Option Nat) (s0 : RState) (n : Nat) :
    fuelBound (replayContract L) s0 n = s0.left.length + 3 * (n - 4) + 1 := by
  simp [fuelBound, replayContract]

/-- **The loop model of `zlib_uncompress`, driven by the oracle built from the Lean inflate, IS the
result-level model `unz`** — for every blob, with the explicit fuel of `C05_uncompress_total`. -/
theorem uncompress_replay_eq_unz (buf : Bytes) (fuel : Nat)
    (hf : fuelBound (replayContract (streamLen (buf.drop 4))) (replayInit (buf.drop 4)) buf.length ≤ fuel) :
    uncompress (replayOracle (streamLen (buf.drop 4))) (replayInit (buf.drop 4)) buf.length fuel buf = unz buf := by
  have htot := uncompress_total _ (replayContract (streamLen (buf.drop 4))) (replayInit (buf.drop 4)) buf fuel hf
  unfold uncompress at htot ⊢
  unfold unz
  cases hp : prologue buf with
  | some r => rfl
  | none =>
    rw [hp] at htot
    simp only [] at htot ⊢
    have h4 := prologue_none_length hp
    cases hi : inflate (buf.drop 4) with
    | none =>
      have hL : streamLen (buf.drop 4) = none := by simp [streamLen, hi]
      rw [hL] at htot ⊢
      rcases loop_replay_none buf fuel (replayInit (buf.drop 4)) 4 .outer [] h4 with h | h
      · exact h
      · rw [h] at htot
        rcases htot with ⟨_, h'⟩ | h' | h' <;> simp at h'
    | some q =>
      obtain ⟨out, rest⟩ := q
      have hL : streamLen (buf.drop 4) = some (max 1 ((buf.drop 4).length - rest.length)) := by
        simp [streamLen, hi]
      have hI : replayInit (buf.drop 4) = ⟨0, out⟩ := by simp [replayInit, hi]
      rw [hL, hI] at htot ⊢
      have hz : (buf.drop 4) ≠ [] := by
        intro e; rw [e, inflate_nil] at hi; cases hi
      have hzl : 1 ≤ (buf.drop 4).length := by
        cases hb : buf.drop 4 with
        | nil => exact absurd hb hz
        | cons _ _ => simp
      simp only [List.length_drop] at hzl
      have hL2 : 4 + max 1 ((buf.drop 4).length - rest.length) ≤ buf.length := by
        simp only [List.length_drop]; omega
      rcases loop_replay_some out _ buf hL2 fuel ⟨0, out⟩ 4 .outer [] h4
          ⟨rfl, by simp only [List.length_drop]; omega, rfl, rfl⟩ with h | h
      · exact h
      · rw [h] at htot
        rcases htot with ⟨_, h'⟩ | h' | h' <;> simp at h'

/-! ### compress, then uncompress -/

/-- `zlib_uncompress (zlib_compress p) = p` at the level of the loop models: for every deflate oracle
honouring `DContract`, if the Lean inflate inverts the bytes that oracle produced for `p` (the joint
contract between the two zlib directions, sampled against libz on every run), then the result-level
model — hence, by `uncompress_replay_eq_unz`, the loop model with the replay oracle — returns `p`
from the blob the compress loops built.  Payloads between 1 byte and 2 GiB. -/
theorem uncompress_compress {σ} (o : DOracle σ) (c : DContract o) (s0 : σ) (hs0 : c.live s0)
    (p : Bytes) (hne : p ≠ []) (hlt : p.length < 2147483648) (fuel : Nat)
    (hf : cFuelBound c s0 p.length ≤ fuel) :
    ∃ blob log, compress o s0 fuel p = .ok (blob, log) ∧
      ((∃ rest, inflate (log.flatMap (·.out)) = some (p, rest)) → unz blob = .ok p) := by
  obtain ⟨blob, log, h1, h2, _, _⟩ := compress_complete o c s0 hs0 p hne fuel hf
  refine ⟨blob, log, h1, ?_⟩
  rintro ⟨rest, hi⟩
  subst h2
  have hp0 : p.length ≠ 0 := fun e => hne (List.eq_nil_of_length_eq_zero e)
  rw [unz_prefix _ hlt hp0, hi]

/-! ### blob-level decoders never have undefined behaviour -/

theorem unz_never_ub (buf : Bytes) (u : Ub) : unz buf ≠ .ub u := by
  unfold unz
  cases hp : prologue buf with
  | some r =>
    rcases prologue_good buf r hp with ⟨out, h⟩ | h <;> simp [h]
  | none =>
    simp only
    cases EngineModel.Zlib.inflate (buf.drop 4) with
    | none => simp
    | some p => simp

theorem fromBlob_never_ub {α} (decode : Bytes → Res α) (blob : Bytes)
    (hd : ∀ p, unz blob = .ok p → ∀ u, decode p ≠ .ub u) (u : Ub) : Blob.fromBlob decode blob ≠ .ub u := by
  unfold Blob.fromBlob
  cases h : unz blob with
  | ok p => exact hd p h u
  | throw e => simp [Res.bind]
  | ub u' => exact absurd h (unz_never_ub blob u')

end EngineModel.Impl.Zlib
