/-
Round trips of the schema-1.x Spec layouts (`Format/V1.lean`): decoding the
Spec encoding of a value gives the value back, up to the three readings the
format itself defines — an optional numeric field holding exactly zero reads
back absent (`normOptF`, `normOptI`), a present cue/loop with (start) offset
exactly −1.0 reads back as an empty slot (`normCue`, `normLoop`), and the
overview waveform has no opacity channel (`opaq`).  Combined with the
Impl = Spec lemmas these give the C03 theorems for the Model of the C++.
-/
import Proofs.ImplV1Lists
import Proofs.ImplV1Beat
set_option linter.unusedSimpArgs false
set_option linter.unusedVariables false

namespace EngineModel
namespace V1Proofs
open Codec Cur Impl.V2

/-- Top-level round trip without trailing bytes. -/
theorem sound_nil {α} {c : Codec α} {P : α → Prop} (h : c.Sound P) (a : α) (ha : P a) :
    c.dec (c.enc a) = some (a, []) := by
  have := h a ha []
  rwa [List.append_nil] at this

/-! ### optional numeric fields: zero is the "absent" encoding -/

def normOptF (o : Option UInt64) : Option UInt64 :=
  match o with
  | some x => if F64.isZero x then none else some x
  | none => none

def normOptI64 (o : Option UInt64) : Option UInt64 :=
  match o with
  | some x => if x = 0 then none else some x
  | none => none

def normOptI32 (o : Option UInt32) : Option UInt32 :=
  match o with
  | some x => if x = 0 then none else some x
  | none => none

theorem optZ_getD (o : Option UInt64) : V1.optZ (o.getD 0) = normOptF o := by
  cases o with
  | none => rfl
  | some x => rfl

theorem normOptF_id (o : Option UInt64) (h : ∀ x, o = some x → F64.isZero x = false) : normOptF o = o := by
  cases o with
  | none => rfl
  | some x => simp [normOptF, h x rfl]

theorem normOptI64_id (o : Option UInt64) (h : o ≠ some 0) : normOptI64 o = o := by
  cases o with
  | none => rfl
  | some x =>
    have : x ≠ 0 := fun e => h (by rw [e])
    simp [normOptI64, this]

theorem normOptI32_id (o : Option UInt32) (h : o ≠ some 0) : normOptI32 o = o := by
  cases o with
  | none => rfl
  | some x =>
    have : x ≠ 0 := fun e => h (by rw [e])
    simp [normOptI32, this]

/-! ### track data -/

def normTrack (v : Impl.V1.Track) : Impl.V1.Track :=
  ⟨normOptF v.sampleRate, normOptI64 v.sampleCount, normOptF v.loudness, normOptI32 v.key⟩

theorem spec_track_roundtrip (v : Impl.V1.Track) :
    V1.decodeTrack (V1.trackWire.enc (V1.trackToWire v)) = some (normTrack v) := by
  obtain ⟨sr, sc, ld, k⟩ := v
  unfold V1.decodeTrack
  rw [sound_nil V1.trackWire_sound _ trivial]
  simp only [V1.trackOfWire, V1.trackToWire, optZ_getD, normTrack]
  cases sc <;> cases k <;> simp [normOptI64, normOptI32] <;> (first | rfl | exact ⟨rfl, rfl⟩)

/-! ### waveforms -/

def opaq (e : Impl.V1.Entry) : Impl.V1.Entry := ⟨e.lv, e.mv, e.hv, 255, 255, 255⟩

theorem chunk3_flat3 (es : List Impl.V1.Entry) : V1.chunk3 (V1.flat3 es) = es.map opaq := by
  induction es with
  | nil => rfl
  | cons e es ih =>
    simp only [V1.flat3, List.flatMap_cons, List.cons_append, List.nil_append, V1.chunk3, List.map_cons] at ih ⊢
    rw [ih]; rfl

theorem chunk6_flat6 (es : List Impl.V1.Entry) : V1.chunk6 (V1.flat6 es) = es := by
  induction es with
  | nil => rfl
  | cons e es ih =>
    simp only [V1.flat6, List.flatMap_cons, List.cons_append, List.nil_append, V1.chunk6] at ih ⊢
    rw [ih]

/- The decoders are opened on an abstract byte string only (`bs` a variable): unfolding them
on `enc X` makes the kernel evaluate the layout on symbolic input. -/
theorem decodeOvw_of_dec {bs : Bytes} {X : V1.WaveRaw} (h : (V1.wave 3).dec bs = some (X, [])) :
    V1.decodeOvw bs = some ⟨X.spe, V1.chunk3 X.points⟩ := by
  unfold V1.decodeOvw; rw [h]

theorem decodeHires_of_dec {bs : Bytes} {X : V1.WaveRaw} (h : (V1.wave 6).dec bs = some (X, [])) :
    V1.decodeHires bs = some ⟨X.spe, V1.chunk6 X.points⟩ := by
  unfold V1.decodeHires; rw [h]

theorem spec_ovw_dec_enc (X : V1.WaveRaw) (hv : V1.WaveRaw.Valid 3 X) :
    V1.decodeOvw ((V1.wave 3).enc X) = some ⟨X.spe, V1.chunk3 X.points⟩ :=
  decodeOvw_of_dec (sound_nil (V1.wave_sound 3 (by omega)) X hv)

theorem spec_hires_dec_enc (X : V1.WaveRaw) (hv : V1.WaveRaw.Valid 6 X) :
    V1.decodeHires ((V1.wave 6).enc X) = some ⟨X.spe, V1.chunk6 X.points⟩ :=
  decodeHires_of_dec (sound_nil (V1.wave_sound 6 (by omega)) X hv)

theorem spec_ovw_roundtrip (v : Impl.V1.Wave) (hrep : v.entries.length < maxCount) (b : Bytes)
    (h : V1.encodeOvw v = some b) : V1.decodeOvw b = some ⟨v.spe, v.entries.map opaq⟩ := by
  unfold V1.encodeOvw at h
  injection h with h
  subst h
  have hv : V1.WaveRaw.Valid 3 ⟨v.spe, V1.flat3 v.entries,
      [V1.maxOf (·.lv) v.entries, V1.maxOf (·.mv) v.entries, V1.maxOf (·.hv) v.entries]⟩ := by
    refine ⟨?_, ?_, rfl⟩
    · simp only [flat3_length]; exact Nat.mul_mod_right 3 _
    · simp only [flat3_length]; rw [Nat.mul_div_cancel_left _ (by omega : 0 < 3)]; exact hrep
  rw [spec_ovw_dec_enc _ hv, chunk3_flat3]

theorem spec_hires_roundtrip (v : Impl.V1.Wave) (hrep : v.entries.length < maxCount) (b : Bytes)
    (h : V1.encodeHires v = some b) : V1.decodeHires b = some v := by
  unfold V1.encodeHires at h
  injection h with h
  subst h
  have hv : V1.WaveRaw.Valid 6 ⟨v.spe, V1.flat6 v.entries,
      [V1.maxOf (·.lv) v.entries, V1.maxOf (·.mv) v.entries, V1.maxOf (·.hv) v.entries,
       V1.maxOf (·.lo) v.entries, V1.maxOf (·.mo) v.entries, V1.maxOf (·.ho) v.entries]⟩ := by
    refine ⟨?_, ?_, rfl⟩
    · simp only [flat6_length]; exact Nat.mul_mod_right 6 _
    · simp only [flat6_length]; rw [Nat.mul_div_cancel_left _ (by omega : 0 < 6)]; exact hrep
  rw [spec_hires_dec_enc _ hv, chunk6_flat6]

/-! ### quick cues and loops: offset −1.0 is the "empty slot" encoding -/

def normCue (s : Option Impl.V1.HotCue) : Option Impl.V1.HotCue :=
  match s with
  | some q => if F64.ne q.off F64.negOne then some q else none
  | none => none

def normLoop (s : Option Impl.V1.LoopV) : Option Impl.V1.LoopV :=
  match s with
  | some l => if F64.ne l.start F64.negOne then some l else none
  | none => none

theorem cueOfWire_toWire (s : Option Impl.V1.HotCue) : V1.cueOfWire (V1.cueToWire s) = normCue s := by
  cases s with
  | none => decide
  | some q => rfl

theorem loopOfWire_toWire (s : Option Impl.V1.LoopV) : V1.loopOfWire (V1.loopToWire s) = normLoop s := by
  cases s with
  | none => decide
  | some l => rfl

/-- A present cue reads back absent iff its offset is exactly −1.0 (one bit pattern). -/
theorem normCue_none_iff (q : Impl.V1.HotCue) : normCue (some q) = none ↔ q.off = F64.negOne := by
  rw [← F64.eq_negOne_iff]
  simp only [normCue, F64.ne]
  by_cases h : F64.eq q.off F64.negOne = true <;> simp [h]

theorem normLoop_none_iff (l : Impl.V1.LoopV) : normLoop (some l) = none ↔ l.start = F64.negOne := by
  rw [← F64.eq_negOne_iff]
  simp only [normLoop, F64.ne]
  by_cases h : F64.eq l.start F64.negOne = true <;> simp [h]

theorem normCue_some (q : Impl.V1.HotCue) (h : q.off ≠ F64.negOne) : normCue (some q) = some q := by
  have : ¬ (F64.eq q.off F64.negOne = true) := fun e => h ((F64.eq_negOne_iff _).mp e)
  simp [normCue, F64.ne, this]

theorem normLoop_some (l : Impl.V1.LoopV) (h : l.start ≠ F64.negOne) : normLoop (some l) = some l := by
  have : ¬ (F64.eq l.start F64.negOne = true) := fun e => h ((F64.eq_negOne_iff _).mp e)
  simp [normLoop, F64.ne, this]

theorem cueToWire_label_le (s : Option Impl.V1.HotCue) (h : V1.cueSlotOk s = true) :
    (V1.cueToWire s).label.length ≤ 255 := by
  cases s with
  | none => simp [V1.cueToWire]
  | some q => simp only [V1.cueSlotOk, decide_eq_true_eq] at h; exact h.2

theorem loopToWire_label_le (s : Option Impl.V1.LoopV) (h : V1.loopSlotOk s = true) :
    (V1.loopToWire s).label.length ≤ 255 := by
  cases s with
  | none => simp [V1.loopToWire]
  | some q => simp only [V1.loopSlotOk, decide_eq_true_eq] at h; exact h.2

theorem decodeCues_of_dec {bs : Bytes} {X : V2.CuesRaw} (h : V2.cuesRaw.dec bs = some (X, [])) :
    V1.decodeCues bs =
      if X.isAdj.toNat > 1 ∨ (X.isAdj.toNat = 0 ∧ F64.ne X.adjMain X.defMain = true) then none
      else some ⟨X.cues.map V1.cueOfWire, X.adjMain, X.defMain⟩ := by
  unfold V1.decodeCues; rw [h]

theorem decodeLoops_of_dec {bs : Bytes} {X : V2.Loops} (h : V2.loops.dec bs = some (X, [])) :
    V1.decodeLoops bs = some (X.map V1.loopOfWire) := by
  unfold V1.decodeLoops; rw [h]

theorem spec_cues_dec_enc (X : V2.CuesRaw) (hv : V2.CuesRaw.Valid X) :
    V1.decodeCues (V2.cuesRaw.enc X) =
      if X.isAdj.toNat > 1 ∨ (X.isAdj.toNat = 0 ∧ F64.ne X.adjMain X.defMain = true) then none
      else some ⟨X.cues.map V1.cueOfWire, X.adjMain, X.defMain⟩ := by
  exact decodeCues_of_dec (sound_nil V2.cuesRaw_sound X hv)

theorem spec_loops_dec_enc (X : V2.Loops) (hv : V2.LoopsValid X) :
    V1.decodeLoops (V2.loops.enc X) = some (X.map V1.loopOfWire) :=
  decodeLoops_of_dec (sound_nil V2.loops_sound X hv)

theorem spec_cues_roundtrip (v : Impl.V1.Cues) (h8 : v.cues.length = 8) (h : v.cues.all V1.cueSlotOk = true) :
    V1.decodeCues (V2.cuesRaw.enc (cuesWire v)) = some ⟨v.cues.map normCue, v.adjMain, v.defMain⟩ := by
  have hv : V2.CuesRaw.Valid (cuesWire v) := by
    refine ⟨?_, ?_⟩
    · simp [cuesWire, h8, maxCount]
    · intro q hq
      simp only [cuesWire, List.mem_map] at hq
      obtain ⟨s, hs, rfl⟩ := hq
      exact cueToWire_label_le s (List.all_eq_true.mp h s hs)
  rw [spec_cues_dec_enc _ hv]
  simp only [cuesWire, List.map_map]
  have hmap : (V1.cueOfWire ∘ V1.cueToWire) = normCue := funext cueOfWire_toWire
  rw [hmap]
  by_cases he : F64.eq v.adjMain v.defMain = true
  · simp [he, F64.ne]
  · simp [he, F64.ne]

theorem spec_loops_roundtrip (v : Impl.V1.Loops) (hrep : v.length < maxCount) (h : v.all V1.loopSlotOk = true) :
    V1.decodeLoops (V2.loops.enc (v.map V1.loopToWire)) = some (v.map normLoop) := by
  have hv : V2.LoopsValid (v.map V1.loopToWire) := by
    refine ⟨by simpa using hrep, ?_⟩
    intro q hq
    simp only [List.mem_map] at hq
    obtain ⟨s, hs, rfl⟩ := hq
    exact loopToWire_label_le s (List.all_eq_true.mp h s hs)
  rw [spec_loops_dec_enc _ hv]
  simp only [List.map_map]
  have hmap : (V1.loopOfWire ∘ V1.loopToWire) = normLoop := funext loopOfWire_toWire
  rw [hmap]

/-! ### beat data -/

theorem low_u64OfInt_s32 (x : UInt32) :
    UInt32.ofNat ((Prim.u64OfInt (Prim.s32 x)).toNat % 4294967296) = x := by
  apply UInt32.toNat_inj.mp
  have := x.toNat_lt
  unfold Prim.u64OfInt Prim.s32
  split <;> simp [UInt64.toNat_ofNat, UInt32.toNat_ofNat] <;> omega

theorem gridOfWire_toWire : ∀ (g : List Impl.V1.GMarker), V1.gridOfWire (V1.gridToWire g) = g
  | [] => rfl
  | [a] => by simp [V1.gridToWire, V1.gridOfWire, low_u64OfInt_s32]
  | a :: b :: rest => by
    have ih := gridOfWire_toWire (b :: rest)
    simp only [V1.gridOfWire] at ih
    simp only [V1.gridToWire, V1.gridOfWire, List.map_cons, low_u64OfInt_s32, ih]

theorem countsOk_toWire : ∀ (rest : List Impl.V1.GMarker) (a : Impl.V1.GMarker),
    V1.gridOk.go (a :: rest) = true → V1.countsOk (V1.gridToWire (a :: rest)) = true := by
  intro rest
  induction rest with
  | nil => intro a _; simp [V1.gridToWire, V1.countsOk]
  | cons b rest ih =>
    intro a h
    simp only [V1.gridOk.go, Bool.and_eq_true, decide_eq_true_eq] at h
    obtain ⟨⟨⟨c1, c2⟩, c3⟩, c4⟩ := h
    have hd : Prim.s32 (Prim.u32OfInt (Prim.s32 b.index - Prim.s32 a.index)) = Prim.s32 b.index - Prim.s32 a.index :=
      Prim.s32_u32OfInt _ (by omega) (by omega)
    have ihb := ih b c4
    cases rest with
    | nil =>
      simp only [V1.gridToWire, V1.countsOk, low_u64OfInt_s32, hd, decide_true, Bool.true_and]
      rfl
    | cons c r =>
      simp only [V1.gridToWire] at ihb ⊢
      simp only [V1.countsOk, low_u64OfInt_s32, hd, decide_true, Bool.true_and]
      exact ihb

theorem wireGridOk_toWire (g : List Impl.V1.GMarker) (h : V1.gridOk g = true) :
    V1.wireGridOk (V1.gridToWire g) = true := by
  unfold V1.wireGridOk
  rw [gridOfWire_toWire, h, Bool.true_and]
  match g, h with
  | [], _ => rfl
  | a :: b :: rest, h =>
    simp only [V1.gridOk, Bool.and_eq_true] at h
    exact countsOk_toWire _ _ h.2

theorem decodeBeat_of_dec {bs : Bytes} {w : V2.Beat} {rest : Bytes} (h : V2.beat.dec bs = some (w, rest)) :
    V1.decodeBeat bs =
      if (V1.wireGridOk w.dflt && V1.wireGridOk w.adj && rest.all (· == 0)) = true then
        some ⟨V1.optZ w.sampleRate, V1.optZ w.samples, V1.gridOfWire w.dflt, V1.gridOfWire w.adj⟩
      else none := by
  unfold V1.decodeBeat; rw [h]

theorem gridOk_length_le (g : List Impl.V1.GMarker) (h : V1.gridOk g = true) : g.length ≤ 32768 := by
  match g, h with
  | [], _ => simp
  | a :: b :: rest, h =>
    simp only [V1.gridOk, Bool.and_eq_true, decide_eq_true_eq] at h
    exact h.1

theorem spec_beat_roundtrip (v : Impl.V1.Beat) (h1 : V1.gridOk v.dflt = true) (h2 : V1.gridOk v.adj = true) :
    V1.decodeBeat (V2.beat.enc (beatWire v)) =
      some ⟨normOptF v.sampleRate, normOptF v.sampleCount, v.dflt, v.adj⟩ := by
  have hv : V2.Beat.Valid (beatWire v) := by
    have := gridOk_length_le _ h1
    have := gridOk_length_le _ h2
    refine ⟨?_, ?_⟩ <;> simp only [beatWire, gridToWire_length, maxCount] <;> omega
  rw [decodeBeat_of_dec (sound_nil V2.beat_sound _ hv)]
  simp only [beatWire, wireGridOk_toWire _ h1, wireGridOk_toWire _ h2, gridOfWire_toWire, optZ_getD,
    List.all_nil, Bool.and_self, if_true]

end V1Proofs
end EngineModel
