/-
The 1.x beat-data *encoder* regenerated from the C++ sources (`Gen.ImplV1.validateGrid`, `encodeGrid`,
`encodeBeat`; tools/tr_blobs_v1.py) equals the hand-written mirror `Impl.V1.encodeBeat`.

* `validate_beatgrid` (indexed loop from `i = 1` over `v[i]`, `v[i - 1]`, checked `int64_t` difference)
  accepts exactly the grids `Impl.V1.validGrid` accepts and otherwise throws `invalid_argument`;
* `encode_beatgrid` (indexed loop, `diff = v[i + 1].index - v[i].index` in checked `int`) writes the
  count and the wire markers `Impl.V1.toWireC` computes;
* `beat_data::encode` validates both grids before the buffer exists, so its size `33 + 24 * (n + m)`
  cannot wrap (`n, m ≤ 32768`) and no `int` difference overflows: the equality is unconditional.
-/
import EngineModel.Gen.ImplV1Gen
import EngineModel.Impl.V1
import Proofs.WrLemmas
import Proofs.CxxPrimsLemmas
import Proofs.CursorCxxV1Lemmas
import Proofs.ImplV2
import Proofs.CheckedArith
set_option linter.unusedSimpArgs false

namespace EngineModel

namespace Cxx

theorem vecGet_append_cons {α} (pre : List α) (a : α) (rest : List α) :
    vecGet (pre ++ a :: rest) pre.length = .ok a := by
  simp [vecGet]

theorem vecGet_append_cons_succ {α} (pre : List α) (a b : α) (rest : List α) :
    vecGet (pre ++ a :: b :: rest) (pre.length + 1) = .ok b := by
  have : pre ++ a :: b :: rest = (pre ++ [a]) ++ b :: rest := by simp
  rw [this]
  have hl : pre.length + 1 = (pre ++ [a]).length := by simp
  rw [hl]
  exact vecGet_append_cons _ _ _

theorem u64_sub_one (n : Nat) (h : n + 1 < 18446744073709551616) : U64.sub (n + 1) 1 = n := by
  unfold U64.sub two64; omega

theorem u64_sub_small {a b : Nat} (hb : b ≤ a) (h : a < 18446744073709551616) : U64.sub a b = a - b := by
  unfold U64.sub two64
  have : b % 18446744073709551616 = b := Nat.mod_eq_of_lt (by omega)
  rw [this]; omega

theorem u64_add_one (n : Nat) (h : n + 1 < 18446744073709551616) : U64.add n 1 = n + 1 := by
  unfold U64.add two64; omega

end Cxx

namespace Wr

@[simp] theorem lift_ok_run {α} (a : α) (size : Nat) (out : Bytes) : (lift (.ok a) : Wr α) size out = .ok (a, out) := rfl

theorem chkI64_run {x : Int} (h1 : -9223372036854775808 ≤ x) (h2 : x ≤ 9223372036854775807) (size : Nat)
    (out : Bytes) : chkI64 x size out = .ok (x, out) := by
  have : Cxx.inI64 x = true := by simp [Cxx.inI64, Cxx.i64Min, Cxx.i64Max, h1, h2]
  simp [chkI64, this]

theorem chkI32_run {x : Int} (h1 : -2147483648 ≤ x) (h2 : x ≤ 2147483647) (size : Nat)
    (out : Bytes) : chkI32 x size out = .ok (x, out) := by
  have : Cxx.inI32 x = true := by simp [Cxx.inI32, Cxx.i32Min, Cxx.i32Max, h1, h2]
  simp [chkI32, this]

theorem forIdxFrom_succ (body : Nat → Wr Unit) (lo n : Nat) :
    forIdxFrom body lo (n + 1) = (body lo >>= fun _ => forIdxFrom body (lo + 1) n) := rfl

/-- a validation (`m`) that succeeds without writing, then the rest -/
theorem pre_ok {α} {m : Wr α} {a : α} (k : α → Res Bytes) (h : m 0 [] = .ok (a, [])) : pre m k = k a := by
  simp [pre, h]

end Wr

namespace Gen.ImplV1
open Codec Wr

theorem s32_bounds (i : UInt32) : -2147483648 ≤ Prim.s32 i ∧ Prim.s32 i < 2147483648 := by
  have := i.toNat_lt
  unfold Prim.s32; split <;> omega

/-! ### `validate_beatgrid` -/

/-- the test of one loop iteration, on the two neighbouring markers -/
def stepOk (a b : Impl.V1.GMarker) : Bool :=
  decide (0 < Prim.s32 b.index - Prim.s32 a.index) && decide (Prim.s32 b.index - Prim.s32 a.index ≤ 2147483647) &&
    !F64.le b.off a.off

theorem validateGrid_body1_run (g : List Impl.V1.GMarker) (i : Nat) (a b : Impl.V1.GMarker)
    (hb : Cxx.vecGet g i = .ok b) (ha : Cxx.vecGet g (Cxx.U64.sub i 1) = .ok a) (size : Nat) (out : Bytes) :
    validateGrid_body1 g i size out = if stepOk a b then .ok ((), out) else .throw .invalid_argument := by
  have hA := s32_bounds a.index
  have hB := s32_bounds b.index
  have hD : -9223372036854775808 ≤ Prim.s32 b.index - Prim.s32 a.index ∧
      Prim.s32 b.index - Prim.s32 a.index ≤ 9223372036854775807 := by omega
  unfold validateGrid_body1 stepOk
  simp only [bind_run, hb, ha, lift_ok_run]
  rw [chkI64_run hD.1 hD.2]
  simp only []
  generalize Prim.s32 b.index - Prim.s32 a.index = d
  by_cases h1 : d ≤ 0
  · have : ¬ (0 < d) := by omega
    simp [h1, this]
  · have h1' : 0 < d := by omega
    by_cases h2 : d > 2147483647
    · have : ¬ (d ≤ 2147483647) := by omega
      simp [h1, h2, this]
    · have h2' : d ≤ 2147483647 := by omega
      simp only [h1, h2, h1', h2', decide_false, decide_true, Bool.or_self, Bool.false_eq_true, if_false,
        Bool.and_self, Bool.true_and, bind_run, hb, ha, lift_ok_run]
      cases F64.le b.off a.off <;> simp

theorem go_cons (a b : Impl.V1.GMarker) (rest : List Impl.V1.GMarker) :
    Impl.V1.validGrid.go (a :: b :: rest) = (stepOk a b && Impl.V1.validGrid.go (b :: rest)) := by
  simp only [Impl.V1.validGrid.go, stepOk]

theorem validateGrid_loop (g : List Impl.V1.GMarker) (hg : g.length < 18446744073709551616) :
    ∀ (rest pre : List Impl.V1.GMarker) (a : Impl.V1.GMarker), g = pre ++ a :: rest → ∀ (size : Nat) (out : Bytes),
      Wr.forIdxFrom (validateGrid_body1 g) (pre.length + 1) rest.length size out =
        if Impl.V1.validGrid.go (a :: rest) then .ok ((), out) else .throw .invalid_argument := by
  intro rest
  induction rest with
  | nil => intro pre a _ size out; simp [Wr.forIdxFrom, Impl.V1.validGrid.go]
  | cons b rest ih =>
    intro pre a hpre size out
    have hlen : pre.length + 1 + 1 ≤ g.length := by rw [hpre]; simp; omega
    have hb : Cxx.vecGet g (pre.length + 1) = .ok b := by rw [hpre]; exact Cxx.vecGet_append_cons_succ _ _ _ _
    have ha : Cxx.vecGet g (Cxx.U64.sub (pre.length + 1) 1) = .ok a := by
      rw [Cxx.u64_sub_one _ (by omega), hpre]; exact Cxx.vecGet_append_cons _ _ _
    simp only [List.length_cons, Wr.forIdxFrom, bind_run]
    rw [validateGrid_body1_run g _ a b hb ha, go_cons]
    cases hs : stepOk a b
    · simp
    · have := ih (pre ++ [a]) b (by rw [hpre]; simp) size out
      simp only [List.length_append, List.length_cons, List.length_nil, Nat.zero_add] at this
      simp only [if_true, Bool.true_and, this]

/-- `validate_beatgrid`: returns without writing when the grid is valid, else throws `invalid_argument`. -/
theorem validateGrid_eq (g : List Impl.V1.GMarker) (size : Nat) (out : Bytes) :
    validateGrid g size out = if Impl.V1.validGrid g then .ok ((), out) else .throw .invalid_argument := by
  unfold validateGrid
  match g with
  | [] => simp [Wr.forIdxFrom, Impl.V1.validGrid]
  | [a] => simp [Impl.V1.validGrid]
  | a :: b :: rest =>
    by_cases hl : (a :: b :: rest).length > 32768
    · have q1 : 32768 < rest.length + 1 + 1 := by simpa using hl
      have q2 : ¬ (rest.length ≤ 32766) := by omega
      simp [Impl.V1.validGrid, q1, q2]
    · have h1 : ¬ ((a :: b :: rest).length = 1) := by simp
      have h2 : (a :: b :: rest).length ≤ 32768 := by omega
      have := validateGrid_loop (a :: b :: rest) (by omega) (b :: rest) [] a rfl size out
      simp only [List.length_nil, Nat.zero_add] at this
      simp only [h1, hl, decide_false, Bool.or_self, Bool.false_eq_true, if_false]
      have e : (a :: b :: rest).length - 1 = (b :: rest).length := by simp
      rw [e, this]
      have q : rest.length ≤ 32766 := by simp at h2; omega
      simp [Impl.V1.validGrid, q]

/-! ### `encode_beatgrid` -/

theorem encodeGrid_loop (g : List Impl.V1.GMarker) (hg : g.length < 18446744073709551616) :
    ∀ (rest pre : List Impl.V1.GMarker) (l : List V2.Marker), g = pre ++ rest → Impl.V1.toWireC rest = .ok l →
      Writes (Wr.forIdxFrom (encodeGrid_body1 g) pre.length rest.length) (l.flatMap V2.marker.enc) := by
  intro rest
  induction rest with
  | nil =>
    intro pre l _ hl
    simp only [Impl.V1.toWireC, Res.ok.injEq] at hl
    subst hl
    exact Writes.pure
  | cons a rest ih =>
    intro pre l hpre hl
    have hlen : pre.length + 1 ≤ g.length := by rw [hpre]; simp
    have ha : Cxx.vecGet g pre.length = .ok a := by rw [hpre]; exact Cxx.vecGet_append_cons _ _ _
    have hA := s32_bounds a.index
    cases rest with
    | nil =>
      simp only [Impl.V1.toWireC, Res.ok.injEq] at hl
      subst hl
      have hlast : ¬ (pre.length < Cxx.U64.sub g.length 1) := by
        rw [Cxx.u64_sub_small (by omega) hg, hpre]; simp
      intro size out hroom
      simp only [List.length_cons, List.length_nil, Wr.forIdxFrom, encodeGrid_body1, bind_run, ha, lift_ok_run,
        hlast, decide_false, Bool.false_eq_true, if_false, pure_run,
        CxxPrims.encode_double_le_eq, CxxPrims.encode_int64_le_eq, CxxPrims.encode_int32_le_eq]
      have hm : V2.marker.enc ⟨a.off, Prim.u64OfInt (Prim.s32 a.index), 0, 0⟩ =
          u64le.enc a.off ++ (u64le.enc (Prim.u64OfInt (Prim.s32 a.index)) ++ (u32le.enc (Prim.u32OfInt 0) ++
            u32le.enc (Prim.u32OfInt 0))) := by
        simp [V2.marker, map, pair]; rfl
      simp only [List.flatMap_cons, List.flatMap_nil, List.append_nil, hm, List.length_append] at hroom ⊢
      rw [Writes.put _ size out (by omega)]
      simp only []
      rw [Writes.put _ size _ (by simp only [List.length_append]; omega)]
      simp only []
      rw [Writes.put _ size _ (by simp only [List.length_append]; omega)]
      simp only []
      rw [Writes.put _ size _ (by simp only [List.length_append]; omega)]
      simp [List.append_assoc]
    | cons b rest =>
      have hb : Cxx.vecGet g (pre.length + 1) = .ok b := by rw [hpre]; exact Cxx.vecGet_append_cons_succ _ _ _ _
      have hlen2 : pre.length + 2 ≤ g.length := by rw [hpre]; simp
      have hB := s32_bounds b.index
      simp only [Impl.V1.toWireC] at hl
      cases hd : Chk.sub32 (Prim.s32 b.index) (Prim.s32 a.index) with
      | throw e => rw [hd] at hl; simp at hl
      | ub u => rw [hd] at hl; simp at hl
      | ok d =>
        rw [hd] at hl
        simp only [] at hl
        cases ht : Impl.V1.toWireC (b :: rest) with
        | throw e => rw [ht] at hl; simp at hl
        | ub u => rw [ht] at hl; simp at hl
        | ok l' =>
          rw [ht] at hl
          simp only [Res.ok.injEq] at hl
          subst hl
          have hdv : d = Prim.s32 b.index - Prim.s32 a.index ∧ -2147483648 ≤ d ∧ d ≤ 2147483647 := by
            unfold Chk.sub32 Chk.i32 at hd
            split at hd
            · rename_i hin
              simp only [Res.ok.injEq] at hd
              unfold Chk.in32 at hin
              omega
            · simp at hd
          obtain ⟨hdv, hd1, hd2⟩ := hdv
          have hnl : pre.length < Cxx.U64.sub g.length 1 := by
            rw [Cxx.u64_sub_small (by omega) hg]; omega
          have ih' := ih (pre ++ [a]) l' (by rw [hpre]; simp) ht
          rw [show (pre ++ [a]).length = pre.length + 1 by simp] at ih'
          intro size out hroom
          have hm : V2.marker.enc ⟨a.off, Prim.u64OfInt (Prim.s32 a.index), Prim.u32OfInt d, 0⟩ =
              u64le.enc a.off ++ (u64le.enc (Prim.u64OfInt (Prim.s32 a.index)) ++ (u32le.enc (Prim.u32OfInt d) ++
                u32le.enc (Prim.u32OfInt 0))) := by
            simp [V2.marker, map, pair]; rfl
          simp only [List.flatMap_cons, hm, List.length_append] at hroom ⊢
          have hbody : encodeGrid_body1 g pre.length size out = .ok ((), out ++ (u64le.enc a.off ++
              (u64le.enc (Prim.u64OfInt (Prim.s32 a.index)) ++ (u32le.enc (Prim.u32OfInt d) ++
                u32le.enc (Prim.u32OfInt 0))))) := by
            simp only [encodeGrid_body1, bind_run, ha, lift_ok_run, hnl, decide_true, if_true, pure_run,
              Cxx.u64_add_one _ (show pre.length + 1 < 18446744073709551616 by omega), hb,
              CxxPrims.encode_double_le_eq, CxxPrims.encode_int64_le_eq, CxxPrims.encode_int32_le_eq]
            rw [Writes.put _ size out (by omega)]
            simp only []
            rw [Writes.put _ size _ (by simp only [List.length_append]; omega)]
            simp only []
            rw [← hdv, chkI32_run hd1 hd2]
            simp only []
            rw [Writes.put _ size _ (by simp only [List.length_append]; omega)]
            simp only []
            rw [Writes.put _ size _ (by simp only [List.length_append]; omega)]
            simp [List.append_assoc]
          show Wr.forIdxFrom (encodeGrid_body1 g) pre.length ((b :: rest).length + 1) size out = _
          rw [forIdxFrom_succ, bind_run, hbody]
          simp only []
          rw [ih' size _ (by simp only [List.length_append]; omega)]
          simp [List.append_assoc]

theorem toWireC_length : ∀ (g : List Impl.V1.GMarker) (l : List V2.Marker), Impl.V1.toWireC g = .ok l →
    l.length = g.length
  | [], l, h => by simp only [Impl.V1.toWireC, Res.ok.injEq] at h; subst h; rfl
  | [a], l, h => by simp only [Impl.V1.toWireC, Res.ok.injEq] at h; subst h; rfl
  | a :: b :: rest, l, h => by
    simp only [Impl.V1.toWireC] at h
    cases hd : Chk.sub32 (Prim.s32 b.index) (Prim.s32 a.index) with
    | throw e => rw [hd] at h; simp at h
    | ub u => rw [hd] at h; simp at h
    | ok d =>
      rw [hd] at h
      simp only [] at h
      cases ht : Impl.V1.toWireC (b :: rest) with
      | throw e => rw [ht] at h; simp at h
      | ub u => rw [ht] at h; simp at h
      | ok l' =>
        rw [ht] at h
        simp only [Res.ok.injEq] at h
        subst h
        simp [toWireC_length (b :: rest) l' ht]

/-- `encode_beatgrid(beatgrid, ptr)`: the count and the wire markers, when no `int` difference of neighbouring
indices overflows (`toWireC g = ok l`; guaranteed by `validate_beatgrid`, `ArithZ.validGrid_toWireC`).
Full statement (for every `g`): an overflowing difference is `ub signed_overflow` in both models; it is not
stated as an equality of writers because the hand model computes all differences before the first write. -/
theorem encodeGrid_writes_partial (g : List Impl.V1.GMarker) (hg : g.length < 9223372036854775808)
    (l : List V2.Marker) (hl : Impl.V1.toWireC g = .ok l) :
    Writes (encodeGrid g) (V2.grid.enc l) := by
  have hlen := toWireC_length g l hl
  unfold encodeGrid
  simp only [CxxPrims.encode_int64_be_eq, count_bits]
  have := encodeGrid_loop g (by omega) g [] l rfl hl
  simp only [List.length_nil] at this
  refine Writes.congr ((Writes.put _).bind this) ?_
  simp [V2.grid, counted, encL_eq_flatMap, hlen]

/-! ### `beat_data::encode` -/

theorem validGrid_length (g : List Impl.V1.GMarker) (h : Impl.V1.validGrid g = true) : g.length ≤ 32768 := by
  match g, h with
  | [], _ => simp
  | [a], h => simp [Impl.V1.validGrid] at h
  | a :: b :: rest, h =>
    simp only [Impl.V1.validGrid, Bool.and_eq_true, decide_eq_true_eq] at h
    exact h.1

/-- `beat_data::encode` -/
theorem encodeBeat_eq : encodeBeat = Impl.V1.encodeBeat := by
  funext v
  unfold encodeBeat Impl.V1.encodeBeat
  cases h1 : Impl.V1.validGrid v.dflt
  · simp [Wr.pre, validateGrid_eq, h1]
  · cases h2 : Impl.V1.validGrid v.adj
    · simp [Wr.pre, validateGrid_eq, h1, h2]
    · have n1 := validGrid_length _ h1
      have n2 := validGrid_length _ h2
      have w1 := ArithZ.validGrid_toWireC _ h1
      have w2 := ArithZ.validGrid_toWireC _ h2
      have l1 := toWireC_length _ _ w1
      have l2 := toWireC_length _ _ w2
      rw [pre_ok (a := Cxx.U64.add 33 (Cxx.U64.mul 24 (Cxx.U64.add v.dflt.length v.adj.length)))
        _ (by simp [validateGrid_eq, h1, h2])]
      simp only [w1, w2, Bool.not_true, Bool.or_self, Bool.false_eq_true, if_false]
      have hl : (V2.beat.enc ⟨v.sampleRate.getD 0, v.sampleCount.getD 0, 1, Impl.V1.toWire v.dflt,
          Impl.V1.toWire v.adj⟩).length = 33 + 24 * (v.dflt.length + v.adj.length) := by
        rw [Impl.V2.beat_enc_length]; simp only [l1, l2]
      rw [Impl.V2.writeInto_exact hl]
      simp (disch := omega) only [u64_add_small, u64_mul_small]
      refine run_of_writesTo ?_ hl (by omega)
      simp only [CxxPrims.encode_double_be_eq, CxxPrims.encode_uint8_eq, F64.zero]
      refine WritesTo.congr
        ((Writes.put _).bindTo <| (Writes.put _).bindTo <| (Writes.put _).bindTo <|
          (encodeGrid_writes_partial _ (by omega) _ w1).bindTo <|
          (encodeGrid_writes_partial _ (by omega) _ w2).bindTo <| WritesTo.endCheck _) ?_
      simp [V2.beat, map, pair, u8]

end Gen.ImplV1
end EngineModel
