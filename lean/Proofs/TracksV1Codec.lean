/-
The value-level codec effects of the bulk write against the Spec's
normalisation: beat grids, cue and loop slots.
-/
import EngineModel.TracksV1.Spec
import Proofs.TracksV1Steps

namespace EngineModel.TracksV1

open Impl.V1 (GMarker HotCue LoopV Entry Wave Beat Cues Loops)

/-! ### beat grids -/

theorem not_le_eq_lt (a b : Bits) (ha : F64.isNaN a = false) (hb : F64.isNaN b = false) :
    (!F64.le b a) = F64.lt a b := by
  unfold F64.le F64.lt
  simp only [ha, hb, Bool.not_false, Bool.true_and]
  by_cases h : F64.key b ≤ F64.key a
  · have : ¬ F64.key a < F64.key b := by omega
    simp [h, this]
  · have : F64.key a < F64.key b := by omega
    simp [h, this]

theorem go_eq_all (g : List GMarker) (hn : ∀ m ∈ g, F64.isNaN m.off = false) :
    Impl.V1.validGrid.go g = (g.zip g.tail).all (fun p => Spec.stepOk p.1 p.2) := by
  induction g with
  | nil => rfl
  | cons a t ih =>
    cases t with
    | nil => rfl
    | cons b rest =>
      have ha := hn a (List.mem_cons_self ..)
      have hb := hn b (List.mem_cons_of_mem _ (List.mem_cons_self ..))
      have ih' := ih (fun m hm => hn m (List.mem_cons_of_mem _ hm))
      unfold Impl.V1.validGrid.go
      simp only [List.tail_cons, List.zip_cons_cons, List.all_cons]
      rw [ih']
      simp only [List.tail_cons]
      congr 1
      unfold Spec.stepOk
      rw [not_le_eq_lt a.off b.off ha hb]
      congr 2
      by_cases h : Prim.s32 a.index < Prim.s32 b.index
      · have : 0 < Prim.s32 b.index - Prim.s32 a.index := by omega
        simp [h, this]
      · have : ¬ 0 < Prim.s32 b.index - Prim.s32 a.index := by omega
        simp [h, this]

theorem validGrid_eq_gridOk (g : List GMarker) (hn : ∀ m ∈ g, F64.isNaN m.off = false) :
    Impl.V1.validGrid g = Spec.gridOk g := by
  cases g with
  | nil => rfl
  | cons a t =>
    cases t with
    | nil => rfl
    | cons b rest =>
      unfold Impl.V1.validGrid Spec.gridOk
      simp only
      rw [go_eq_all _ hn]
      simp only [List.isEmpty_cons, Bool.false_or, List.length_cons]
      congr 1
      by_cases h : rest.length + 1 + 1 ≤ 32768
      · have : 2 ≤ rest.length + 1 + 1 ∧ rest.length + 1 + 1 ≤ 32768 := ⟨by omega, h⟩
        simp [h, this]
      · have : ¬ (2 ≤ rest.length + 1 + 1 ∧ rest.length + 1 + 1 ≤ 32768) := fun hh => h hh.2
        simp [h, this]

theorem normBeat_same (sr sc : Option Bits) (g : List GMarker) :
    normBeat ⟨sr, sc, g, g⟩ =
      if Impl.V1.validGrid g then .ok ⟨zeroNoneF sr, zeroNoneF sc, g, g⟩ else .throw .invalid_argument := by
  unfold normBeat
  cases h : Impl.V1.validGrid g <;> simp [h]

/-! ### cue and loop slots -/

theorem ne_negOne_iff (x : Bits) : F64.ne x F64.negOne = true ↔ x ≠ F64.negOne := by
  unfold F64.ne
  rw [Bool.not_eq_true', ← Bool.not_eq_true]
  exact not_congr (F64.eq_negOne_iff x)

theorem normCueSlot_of_ok (q : Option HotCue) (h : Spec.cueOk q = true) : normCueSlot q = .ok (Spec.normCue q) := by
  cases q with
  | none => rfl
  | some c =>
    unfold Spec.cueOk Spec.labelOk at h
    simp only [decide_eq_true_eq] at h
    unfold normCueSlot Spec.normCue
    have h0 : ¬ c.label.length = 0 := by omega
    have h1 : ¬ 255 < c.label.length := by omega
    simp only [h0, h1, if_false]
    by_cases hne : c.off = F64.negOne
    · have : F64.ne c.off F64.negOne = false := by
        cases hh : F64.ne c.off F64.negOne with
        | false => rfl
        | true => exact absurd hne ((ne_negOne_iff _).mp hh)
      rw [this]; simp [hne]
    · have : F64.ne c.off F64.negOne = true := (ne_negOne_iff _).mpr hne
      rw [this]; simp [hne]

theorem normCueSlot_cases (q : Option HotCue) :
    (Spec.cueOk q = true ∧ normCueSlot q = .ok (Spec.normCue q)) ∨
    (Spec.cueOk q = false ∧ ∃ e, normCueSlot q = .throw e) := by
  cases h : Spec.cueOk q with
  | true => exact Or.inl ⟨rfl, normCueSlot_of_ok q h⟩
  | false =>
    right
    refine ⟨rfl, ?_⟩
    cases q with
    | none => simp [Spec.cueOk] at h
    | some c =>
      unfold Spec.cueOk Spec.labelOk at h
      simp only [decide_eq_false_iff_not] at h
      unfold normCueSlot
      by_cases h0 : c.label.length = 0
      · exact ⟨.invalid_argument, by simp [h0]⟩
      · have h1 : 255 < c.label.length := by omega
        exact ⟨.invalid_argument, by simp [h0, h1]⟩

theorem normLoopSlot_of_ok (q : Option LoopV) (h : Spec.loopOk q = true) : normLoopSlot q = .ok (Spec.normLoop q) := by
  cases q with
  | none => rfl
  | some c =>
    unfold Spec.loopOk Spec.labelOk at h
    simp only [decide_eq_true_eq] at h
    unfold normLoopSlot Spec.normLoop
    have h0 : ¬ c.label.length = 0 := by omega
    have h1 : ¬ 255 < c.label.length := by omega
    simp only [h0, h1, if_false]
    by_cases hne : c.start = F64.negOne
    · have : F64.ne c.start F64.negOne = false := by
        cases hh : F64.ne c.start F64.negOne with
        | false => rfl
        | true => exact absurd hne ((ne_negOne_iff _).mp hh)
      rw [this]; simp [hne]
    · have : F64.ne c.start F64.negOne = true := (ne_negOne_iff _).mpr hne
      rw [this]; simp [hne]

theorem normLoopSlot_cases (q : Option LoopV) :
    (Spec.loopOk q = true ∧ normLoopSlot q = .ok (Spec.normLoop q)) ∨
    (Spec.loopOk q = false ∧ ∃ e, normLoopSlot q = .throw e) := by
  cases h : Spec.loopOk q with
  | true => exact Or.inl ⟨rfl, normLoopSlot_of_ok q h⟩
  | false =>
    right
    refine ⟨rfl, ?_⟩
    cases q with
    | none => simp [Spec.loopOk] at h
    | some c =>
      unfold Spec.loopOk Spec.labelOk at h
      simp only [decide_eq_false_iff_not] at h
      unfold normLoopSlot
      by_cases h0 : c.label.length = 0
      · exact ⟨.logic_error, by simp [h0]⟩
      · have h1 : 255 < c.label.length := by omega
        exact ⟨.invalid_argument, by simp [h0, h1]⟩

/-! ### padding -/

theorem padTo8_eq_pad8 {α} (l : List (Option α)) : padTo8 l = Spec.pad8 l := rfl

theorem padTo8_length {α} (l : List (Option α)) (h : l.length ≤ 8) : (padTo8 l).length = 8 := by
  unfold padTo8; simp; omega

theorem padTo8_length_gt {α} (l : List (Option α)) (h : 8 < l.length) : (padTo8 l).length = l.length := by
  unfold padTo8; simp; omega

theorem map_pad8 {α} (f : Option α → Option α) (hf : f none = none) (l : List (Option α)) :
    (Spec.pad8 l).map f = Spec.pad8 (l.map f) := by
  unfold Spec.pad8
  simp [hf]

theorem mem_pad8 {α} (l : List (Option α)) (a : Option α) (h : a ∈ Spec.pad8 l) : a ∈ l ∨ a = none := by
  unfold Spec.pad8 at h
  rcases List.mem_append.mp h with h | h
  · exact Or.inl h
  · exact Or.inr (List.eq_of_mem_replicate h)

/-! ### the whole cue / loop columns on the bulk path -/

theorem normCues_toCues_ok (cs : List (Option HotCue)) (m : Option Bits) (hlen : cs.length ≤ 8)
    (hall : cs.all Spec.cueOk = true) :
    normCues (toCues cs m) = .ok ⟨Spec.pad8 (cs.map Spec.normCue), m.getD F64.zero, m.getD F64.zero⟩ := by
  unfold normCues toCues
  simp only
  have h8 : (padTo8 cs).length = 8 := padTo8_length cs hlen
  have hno : ¬ 8 < (padTo8 cs).length := by omega
  rw [if_neg hno]
  have hmap : mapRes normCueSlot (padTo8 cs) = .ok ((padTo8 cs).map Spec.normCue) := by
    apply mapRes_ok_map
    intro a ha
    rw [padTo8_eq_pad8] at ha
    rcases mem_pad8 cs a ha with h | h
    · exact normCueSlot_of_ok a (List.all_eq_true.mp hall a h)
    · subst h; rfl
  rw [hmap]
  simp only
  have : ¬ (padTo8 cs).length < 8 := by omega
  rw [if_neg this, padTo8_eq_pad8, map_pad8 _ rfl]

theorem normCues_toCues_cases (cs : List (Option HotCue)) (m : Option Bits) :
    (cs.length ≤ 8 ∧ cs.all Spec.cueOk = true) ∨ ∃ e, normCues (toCues cs m) = .throw e := by
  by_cases hlen : cs.length ≤ 8
  · by_cases hall : cs.all Spec.cueOk = true
    · exact Or.inl ⟨hlen, hall⟩
    · right
      unfold normCues toCues
      simp only
      have h8 : (padTo8 cs).length = 8 := padTo8_length cs hlen
      have hno : ¬ 8 < (padTo8 cs).length := by omega
      rw [if_neg hno]
      -- some slot is not ok, so the map cannot be ok; it is never undefined either
      have hdef : Defined (mapRes normCueSlot (padTo8 cs)) := by
        apply mapRes_defined
        intro a _
        rcases normCueSlot_cases a with ⟨_, h⟩ | ⟨_, e, h⟩ <;> rw [h]
        · exact Defined.ok _
        · exact Defined.throw _
      cases hm : mapRes normCueSlot (padTo8 cs) with
      | ok r =>
        exfalso
        apply hall
        apply List.all_eq_true.mpr
        intro a ha
        have hmem : a ∈ padTo8 cs := by unfold padTo8; exact List.mem_append_left _ ha
        obtain ⟨b, hb⟩ := mapRes_ok_all _ _ _ hm a hmem
        rcases normCueSlot_cases a with ⟨h, _⟩ | ⟨_, e, he⟩
        · exact h
        · rw [he] at hb; cases hb
      | throw e => exact ⟨e, rfl⟩
      | ub u => exact absurd hm (hdef u)
  · right
    unfold normCues toCues
    simp only
    have : 8 < (padTo8 cs).length := by rw [padTo8_length_gt cs (by omega)]; omega
    rw [if_pos this]
    exact ⟨_, rfl⟩

theorem normLoops_pad_ok (ls : List (Option LoopV)) (hall : ls.all Spec.loopOk = true) :
    normLoops (padTo8 ls) = .ok (Spec.pad8 (ls.map Spec.normLoop)) := by
  unfold normLoops
  have hmap : mapRes normLoopSlot (padTo8 ls) = .ok ((padTo8 ls).map Spec.normLoop) := by
    apply mapRes_ok_map
    intro a ha
    rw [padTo8_eq_pad8] at ha
    rcases mem_pad8 ls a ha with h | h
    · exact normLoopSlot_of_ok a (List.all_eq_true.mp hall a h)
    · subst h; rfl
  rw [hmap, padTo8_eq_pad8, map_pad8 _ rfl]

theorem normLoops_pad_cases (ls : List (Option LoopV)) :
    ls.all Spec.loopOk = true ∨ ∃ e, normLoops (padTo8 ls) = .throw e := by
  by_cases hall : ls.all Spec.loopOk = true
  · exact Or.inl hall
  · right
    unfold normLoops
    have hdef : Defined (mapRes normLoopSlot (padTo8 ls)) := by
      apply mapRes_defined
      intro a _
      rcases normLoopSlot_cases a with ⟨_, h⟩ | ⟨_, e, h⟩ <;> rw [h]
      · exact Defined.ok _
      · exact Defined.throw _
    cases hm : mapRes normLoopSlot (padTo8 ls) with
    | ok r =>
      exfalso
      apply hall
      apply List.all_eq_true.mpr
      intro a ha
      have hmem : a ∈ padTo8 ls := by unfold padTo8; exact List.mem_append_left _ ha
      obtain ⟨b, hb⟩ := mapRes_ok_all _ _ _ hm a hmem
      rcases normLoopSlot_cases a with ⟨h, _⟩ | ⟨_, e, he⟩
      · exact h
      · rw [he] at hb; cases hb
    | throw e => exact ⟨e, rfl⟩
    | ub u => exact absurd hm (hdef u)

end EngineModel.TracksV1
