/-
Lemmas about the beat-grid model that hold for EVERY arithmetic `Num α`
(no law is assumed of `add`, `mul`, `div`, … — so they hold for the hardware
`Float` instance the driver runs as well as for exact rationals), and the
characterisation of `trim` by the Spec `window` under the few order laws that
IEEE comparisons satisfy even in the presence of NaN (`OrdLaws`).
-/
import EngineModel.Pure.Beatgrid

namespace EngineModel.Pure.Beatgrid
open EngineModel

variable {α : Type}

/-! ### Res / chk64 -/

theorem bind_eq_ok {α β} {x : Res α} {f : α → Res β} {b : β} :
    (x >>= f) = .ok b ↔ ∃ a, x = .ok a ∧ f a = .ok b := by
  cases x <;> simp

theorem chk64_of_bound {x : Int} (h : -9223372036854775808 ≤ x ∧ x ≤ 9223372036854775807) :
    chk64 x = .ok x := by
  unfold chk64; rw [if_pos h]

theorem chk64_sub {a b : Int} (ha : In32 a) (hb : In32 b) : chk64 (a - b) = .ok (a - b) := by
  unfold In32 at ha hb; exact chk64_of_bound (by omega)

theorem chk64_add {a b : Int} (ha : In32 a) (hb : In32 b) : chk64 (a + b) = .ok (a + b) := by
  unfold In32 at ha hb; exact chk64_of_bound (by omega)

theorem in32_four : In32 4 := by unfold In32; omega
theorem in32_neg_four : In32 (-4) := by unfold In32; omega

/-! ### the two moves in closed form -/

/-- Samples per beat of the segment between two markers, as the code computes it. -/
def spbOf (num : Num α) (a b : Marker α) : α :=
  num.div (num.sub b.off a.off) (num.ofInt (b.index - a.index))

/-- The moved first marker. -/
def firstOf (num : Num α) (a b : Marker α) : Marker α :=
  ⟨-4, num.sub a.off (num.mul (num.ofInt (4 + a.index)) (spbOf num a b))⟩

/-- The argument of `ceil` in the last move. -/
def beatsToEnd (num : Num α) (p l : Marker α) (n : Int) : α :=
  num.div (num.sub (num.ofInt n) l.off) (spbOf num p l)

/-- The moved last marker, given the index adjustment. -/
def lastOf (num : Num α) (p l : Marker α) (adj : Int) : Marker α :=
  ⟨l.index + adj, num.add l.off (num.mul (num.ofInt adj) (spbOf num p l))⟩

@[simp] theorem firstOf_index (num : Num α) (a b : Marker α) : (firstOf num a b).index = -4 := rfl
@[simp] theorem lastOf_index (num : Num α) (p l : Marker α) (adj : Int) :
    (lastOf num p l adj).index = l.index + adj := rfl

theorem fixFirst_eq (num : Num α) (a b : Marker α) (rest : List (Marker α))
    (ha : In32 a.index) (hb : In32 b.index) :
    fixFirst num (a :: b :: rest) = .ok (firstOf num a b :: b :: rest) := by
  show (chk64 (b.index - a.index) >>= fun di => chk64 (4 + a.index) >>= fun k =>
    .ok (⟨-4, num.sub a.off (num.mul (num.ofInt k)
      (num.div (num.sub b.off a.off) (num.ofInt di)))⟩ :: b :: rest)) = _
  rw [chk64_sub hb ha]
  simp only [Res.bind_ok]
  rw [chk64_add in32_four ha]
  rfl

theorem fixFirst_short (num : Num α) (g : List (Marker α)) (h : g.length < 2) :
    fixFirst num g = .ok g := by
  rcases g with _ | ⟨a, _ | ⟨b, rest⟩⟩
  · rfl
  · rfl
  · simp at h; omega

/-- The last move on a grid that ends `…, p, l`. -/
def lastStep (num : Num α) (pre : List (Marker α)) (p l : Marker α) (n : Int) :
    Res (List (Marker α)) :=
  match num.ceil32 (beatsToEnd num p l n) with
  | none => .throw .invalid_argument
  | some adj =>
    if l.index + adj ≤ p.index then .throw .invalid_argument
    else if 2147483647 < l.index + adj then .throw .invalid_argument
    else .ok (pre ++ [p, lastOf num p l adj])

theorem fixLast_append_two (num : Num α) (hc : num.Ceil32Ok) (pre : List (Marker α))
    (p l : Marker α) (n : Int) (hp : In32 p.index) (hl : In32 l.index) :
    fixLast num (pre ++ [p, l]) n = lastStep num pre p l n := by
  have hr : (pre ++ [p, l]).reverse = l :: p :: pre.reverse := by simp
  unfold fixLast lastStep
  rw [hr]
  dsimp only
  rw [chk64_sub hl hp]
  simp only [Res.bind_ok]
  show (match num.ceil32 (beatsToEnd num p l n) with
    | none => _ | some adj => _) = _
  cases hce : num.ceil32 (beatsToEnd num p l n) with
  | none => rfl
  | some adj =>
    dsimp only
    rw [chk64_add hl (hc _ _ hce)]
    simp only [Res.bind_ok]
    split
    · rfl
    · split
      · rfl
      · simp [lastOf, spbOf]

theorem fixLast_short (num : Num α) (g : List (Marker α)) (n : Int) (h : g.length < 2) :
    fixLast num g n = .ok g := by
  rcases g with _ | ⟨a, _ | ⟨b, rest⟩⟩
  · rfl
  · rfl
  · simp at h; omega

/-! ### trimming keeps a contiguous part -/

theorem trimEnd_prefix (num : Num α) (g : List (Marker α)) (n : Int) : trimEnd num g n <+: g := by
  unfold trimEnd; split
  · exact List.take_prefix _ _
  · exact List.prefix_refl _

theorem trimStart_suffix (num : Num α) (g : List (Marker α)) : trimStart num g <:+ g := by
  unfold trimStart
  dsimp only
  split
  · exact List.suffix_refl _
  · exact List.drop_suffix _ _

theorem trim_infix (num : Num α) (g : List (Marker α)) (n : Int) : trim num g n <:+: g :=
  (trimStart_suffix num _).isInfix.trans (trimEnd_prefix num g n).isInfix

theorem trim_mem {num : Num α} {g : List (Marker α)} {n : Int} {m : Marker α}
    (h : m ∈ trim num g n) : m ∈ g := (trim_infix num g n).subset h

/-! ### shape of `normalize` -/

theorem normalize_eq (num : Num α) {g : List (Marker α)} (hne : g ≠ []) (n : Int) :
    normalize num g n = match trim num g n with
      | a :: b :: rest => if b.index ≤ -4 then .throw .invalid_argument
          else fixFirst num (a :: b :: rest) >>= fun f => fixLast num f n
      | _ => .throw .invalid_argument := by
  unfold normalize
  have he : g.isEmpty = false := by cases g <;> simp_all
  rw [he]
  simp only [Bool.false_eq_true, if_false]
  generalize trim num g n = t
  rcases t with _ | ⟨a, _ | ⟨b, rest⟩⟩ <;> rfl

theorem exists_append_two {α} (x y : α) (r : List α) : ∃ pre p l, x :: y :: r = pre ++ [p, l] := by
  induction r generalizing x y with
  | nil => exact ⟨[], x, y, rfl⟩
  | cons z r ih =>
    obtain ⟨pre, p, l, h⟩ := ih y z
    exact ⟨x :: pre, p, l, by rw [h]; rfl⟩

theorem shape_cases {α} {a' b : α} {rest pre : List α} {p l : α}
    (h : a' :: b :: rest = pre ++ [p, l]) :
    (pre = [] ∧ p = a' ∧ l = b ∧ rest = []) ∨
      ∃ pre', pre = a' :: pre' ∧ b :: rest = pre' ++ [p, l] := by
  cases pre with
  | nil =>
    left
    simp only [List.nil_append, List.cons.injEq] at h
    obtain ⟨rfl, rfl, rfl⟩ := h
    simp
  | cons x pre' =>
    right
    simp only [List.cons_append, List.cons.injEq] at h
    exact ⟨pre', by rw [h.1], h.2⟩

/-- All beat indices of the grid are `int` values (the type invariant of the C++ field). -/
def Idx32 (g : List (Marker α)) : Prop := ∀ m ∈ g, In32 m.index

theorem Idx32.trim {num : Num α} {g : List (Marker α)} {n : Int} (h : Idx32 g) :
    Idx32 (trim num g n) := fun m hm => h m (trim_mem hm)

/-- What `normalize` computes once the trimmed grid has two or more markers, the second of them
after beat −4: both moves in closed form, no `ub` branch left. -/
theorem normalize_eq_of_shape (num : Num α) (hc : num.Ceil32Ok) {g : List (Marker α)} {n : Int}
    {a b : Marker α} {rest pre : List (Marker α)} {p l : Marker α}
    (hne : g ≠ []) (hi : Idx32 g) (ht : trim num g n = a :: b :: rest) (hb4 : ¬ b.index ≤ -4)
    (hf : firstOf num a b :: b :: rest = pre ++ [p, l]) :
    normalize num g n = lastStep num pre p l n := by
  have hit : Idx32 (a :: b :: rest) := ht ▸ hi.trim
  have ha := hit a (by simp)
  have hb := hit b (by simp)
  rw [normalize_eq num hne, ht]
  dsimp only
  rw [if_neg hb4, fixFirst_eq num a b rest ha hb]
  simp only [Res.bind_ok]
  have hif : Idx32 (firstOf num a b :: b :: rest) := by
    intro m hm
    rcases List.mem_cons.mp hm with rfl | hm
    · exact in32_neg_four
    · exact hit m (List.mem_cons_of_mem _ hm)
  rw [hf] at hif ⊢
  exact fixLast_append_two num hc pre p l n (hif p (by simp)) (hif l (by simp))

/-- Totality: on `int` indices normalisation returns a grid or throws — never undefined
behaviour, for any arithmetic. -/
theorem normalize_defined (num : Num α) (hc : num.Ceil32Ok) (g : List (Marker α)) (n : Int)
    (hi : Idx32 g) : ∀ u, normalize num g n ≠ .ub u := by
  intro u
  by_cases hne : g = []
  · subst hne; simp [normalize]
  rcases ht : trim num g n with _ | ⟨a, _ | ⟨b, rest⟩⟩
  · rw [normalize_eq num hne, ht]; simp
  · rw [normalize_eq num hne, ht]; simp
  · by_cases hb4 : b.index ≤ -4
    · rw [normalize_eq num hne, ht]; simp [hb4]
    · obtain ⟨pre, p, l, hf⟩ := exists_append_two (firstOf num a b) b rest
      rw [normalize_eq_of_shape num hc hne hi ht hb4 hf]
      unfold lastStep
      split
      · simp
      · split
        · simp
        · split <;> simp

/-- Everything one learns from `normalize num g n = .ok out`. -/
structure GShape (num : Num α) (g : List (Marker α)) (n : Int) (out : List (Marker α))
    (a b : Marker α) (rest pre : List (Marker α)) (p l : Marker α) (adj : Int) : Prop where
  ht : trim num g n = a :: b :: rest
  hb4 : -4 < b.index
  hf : firstOf num a b :: b :: rest = pre ++ [p, l]
  hce : num.ceil32 (beatsToEnd num p l n) = some adj
  hadj : In32 adj
  hil : p.index < l.index + adj
  hil32 : l.index + adj ≤ 2147483647
  hout : out = pre ++ [p, lastOf num p l adj]

theorem normalize_ok_shape (num : Num α) (hc : num.Ceil32Ok) {g out : List (Marker α)} {n : Int}
    (hne : g ≠ []) (hi : Idx32 g) (h : normalize num g n = .ok out) :
    ∃ a b rest pre p l adj, GShape num g n out a b rest pre p l adj := by
  rcases ht : trim num g n with _ | ⟨a, _ | ⟨b, rest⟩⟩
  · rw [normalize_eq num hne, ht] at h; simp at h
  · rw [normalize_eq num hne, ht] at h; simp at h
  · by_cases hb4 : b.index ≤ -4
    · rw [normalize_eq num hne, ht] at h; simp [hb4] at h
    · obtain ⟨pre, p, l, hf⟩ := exists_append_two (firstOf num a b) b rest
      rw [normalize_eq_of_shape num hc hne hi ht hb4 hf] at h
      unfold lastStep at h
      split at h
      · simp at h
      · rename_i adj hce
        split at h
        · simp at h
        · split at h
          · simp at h
          · simp only [Res.ok.injEq] at h
            exact ⟨a, b, rest, pre, p, l, adj, ht, by omega, hf, hce, hc _ _ hce, by omega,
              by omega, h.symm⟩

/-! ### the comparison-only clauses of C20, for every arithmetic -/

section clauses
variable {num : Num α} {g out : List (Marker α)} {n : Int}

theorem gen_interior_unchanged (hc : num.Ceil32Ok) (hi : Idx32 g)
    (h : normalize num g n = .ok out) (hne : g ≠ []) :
    out.length = (trim num g n).length ∧
    ∀ i, 0 < i → i + 1 < out.length → out[i]? = (trim num g n)[i]? := by
  obtain ⟨a, b, rest, pre, p, l, adj, sh⟩ := normalize_ok_shape num hc hne hi h
  have hlen : rest.length + 2 = pre.length + 2 := by simpa using congrArg List.length sh.hf
  rw [sh.ht, sh.hout]
  refine ⟨by simp only [List.length_append, List.length_cons, List.length_nil]; omega, ?_⟩
  intro i hi0 hi
  have hi' : i < pre.length + 1 := by
    simp only [List.length_append, List.length_cons, List.length_nil] at hi; omega
  have e1 : (pre ++ [p, lastOf num p l adj])[i]? = (pre ++ [p, l])[i]? := by
    rw [show pre ++ [p, lastOf num p l adj] = (pre ++ [p]) ++ [lastOf num p l adj] by simp,
      show pre ++ [p, l] = (pre ++ [p]) ++ [l] by simp]
    have hlen' : i < (pre ++ [p]).length := by
      simp only [List.length_append, List.length_cons, List.length_nil]; omega
    rw [List.getElem?_append_left hlen', List.getElem?_append_left hlen']
  rw [e1, ← sh.hf]
  cases i with
  | zero => omega
  | succ j => rfl

theorem gen_first_index (hc : num.Ceil32Ok) (hi : Idx32 g)
    (h : normalize num g n = .ok out) (hne : g ≠ []) :
    ∃ m, out.head? = some m ∧ m.index = -4 := by
  obtain ⟨a, b, rest, pre, p, l, adj, sh⟩ := normalize_ok_shape num hc hne hi h
  rw [sh.hout]
  rcases shape_cases sh.hf with ⟨rfl, rfl, rfl, rfl⟩ | ⟨pre', rfl, -⟩
  · exact ⟨_, rfl, rfl⟩
  · exact ⟨_, rfl, rfl⟩

/-- The result again has `int` indices, and its last index is beyond the previous one. -/
theorem gen_out_idx32 (hc : num.Ceil32Ok) (hi : Idx32 g)
    (h : normalize num g n = .ok out) (hne : g ≠ []) : Idx32 out := by
  obtain ⟨a, b, rest, pre, p, l, adj, sh⟩ := normalize_ok_shape num hc hne hi h
  have hit : Idx32 (a :: b :: rest) := sh.ht ▸ hi.trim
  have hif : Idx32 (pre ++ [p, l]) := by
    rw [← sh.hf]
    intro m hm
    rcases List.mem_cons.mp hm with rfl | hm
    · exact in32_neg_four
    · exact hit m (List.mem_cons_of_mem _ hm)
  rw [sh.hout]
  intro m hm
  rcases List.mem_append.mp hm with hm | hm
  · exact hif m (List.mem_append_left _ hm)
  · simp only [List.mem_cons, List.not_mem_nil, or_false] at hm
    rcases hm with rfl | rfl
    · exact hif _ (by simp)
    · have hp := hif p (by simp)
      have := sh.hil; have := sh.hil32
      unfold In32 at hp ⊢
      simp only [lastOf_index]
      omega

/-- The two unconditional causes of rejection. -/
theorem gen_reject_of (hne : g ≠ [])
    (hc : (trim num g n).length < 2 ∨
      ∃ m1, (trim num g n)[1]? = some m1 ∧ m1.index ≤ -4) :
    normalize num g n = .throw .invalid_argument := by
  rw [normalize_eq num hne]
  rcases ht : trim num g n with _ | ⟨a, _ | ⟨b, rest⟩⟩
  · rfl
  · rfl
  · rw [ht] at hc
    rcases hc with hlen | ⟨m1, hm1, hidx⟩
    · exfalso
      simp only [List.length_cons] at hlen
      omega
    · simp only [List.getElem?_cons_succ, List.getElem?_cons_zero, Option.some.injEq] at hm1
      subst hm1
      dsimp only
      rw [if_pos hidx]

/-- Outcome trichotomy made explicit: a grid, or `invalid_argument` — nothing else. -/
theorem gen_ok_or_invalid (hc : num.Ceil32Ok) (hi : Idx32 g) :
    (∃ out, normalize num g n = .ok out) ∨ normalize num g n = .throw .invalid_argument := by
  by_cases hne : g = []
  · subst hne; left; exact ⟨[], rfl⟩
  rcases ht : trim num g n with _ | ⟨a, _ | ⟨b, rest⟩⟩
  · right; rw [normalize_eq num hne, ht]
  · right; rw [normalize_eq num hne, ht]
  · by_cases hb4 : b.index ≤ -4
    · right; rw [normalize_eq num hne, ht]; simp [hb4]
    · obtain ⟨pre, p, l, hf⟩ := exists_append_two (firstOf num a b) b rest
      rw [normalize_eq_of_shape num hc hne hi ht hb4 hf]
      unfold lastStep
      split
      · right; rfl
      · split
        · right; rfl
        · split
          · right; rfl
          · left; exact ⟨_, rfl⟩

end clauses

end EngineModel.Pure.Beatgrid
