/-
The Spec of C07 (Spec/Forest.lean) keeps a well-formed forest: `Wf` (ids are a
key and positive, every parent is a live crate, the parent relation is ranked —
hence acyclic —, names are valid and unique among siblings) holds of the empty
forest and of the target of every `accept` verdict.  Shared by the refinements
of both schema generations; nothing here mentions an implementation.
-/
import Proofs.SpecForest

set_option linter.dupNamespace false

namespace EngineModel.Spec.Forest

open EngineModel.ListAux

namespace Forest

theorem mem_ids {f : Forest} {x : Id} : x ∈ f.ids ↔ ∃ c ∈ f.crates, c.id = x := by
  simp [ids]

theorem live_iff {f : Forest} {x : Id} : f.live x = true ↔ x ∈ f.ids := by
  simp [live]

theorem live_false_iff {f : Forest} {x : Id} : f.live x = false ↔ x ∉ f.ids := by
  rw [← live_iff]; cases f.live x <;> simp

theorem find_some {f : Forest} {x : Id} {c : Crate} (h : f.find x = some c) : c ∈ f.crates ∧ c.id = x := by
  unfold find at h
  exact ⟨List.mem_of_find?_eq_some h, by simpa using List.find?_some h⟩

theorem find_none {f : Forest} {x : Id} : f.find x = none ↔ x ∉ f.ids := by
  unfold find
  rw [List.find?_eq_none, mem_ids]
  simp only [beq_iff_eq, not_exists, not_and]

theorem crate_eq_of_id {l : List Crate} (hn : (l.map (·.id)).Nodup) {c c' : Crate} (hc : c ∈ l) (hc' : c' ∈ l)
    (h : c.id = c'.id) : c = c' := by
  induction l with
  | nil => simp at hc
  | cons a l ih =>
    simp only [List.map_cons, List.nodup_cons, List.mem_map, not_exists, not_and] at hn
    rcases List.mem_cons.mp hc with h1 | h1 <;> rcases List.mem_cons.mp hc' with h2 | h2
    · rw [h1, h2]
    · subst h1; exact absurd h.symm (hn.1 c' h2)
    · subst h2; exact absurd h (hn.1 c h1)
    · exact ih hn.2 h1 h2

theorem find_of_mem {f : Forest} (hn : f.ids.Nodup) {c : Crate} (hc : c ∈ f.crates) : f.find c.id = some c := by
  unfold find
  apply find?_unique hc (by simp)
  intro c' hc' hp
  exact crate_eq_of_id hn hc' hc (by simpa using hp)

theorem parentOf_of_mem {f : Forest} (hn : f.ids.Nodup) {c : Crate} (hc : c ∈ f.crates) : f.parentOf c.id = c.parent := by
  simp [parentOf, find_of_mem hn hc]

theorem nameOf_of_mem {f : Forest} (hn : f.ids.Nodup) {c : Crate} (hc : c ∈ f.crates) : f.nameOf c.id = some c.name := by
  simp [nameOf, find_of_mem hn hc]

theorem parentOf_some {f : Forest} {x p : Id} (h : f.parentOf x = some p) : ∃ c ∈ f.crates, c.id = x ∧ c.parent = some p := by
  unfold parentOf at h
  cases hf : f.find x with
  | none => simp [hf] at h
  | some c =>
    obtain ⟨h1, h2⟩ := find_some hf
    exact ⟨c, h1, h2, by simpa [hf] using h⟩

theorem nameTaken_false {f : Forest} {p : Option Id} {n : Name} {e : Option Id} (h : f.nameTaken p n e = false) :
    ∀ x ∈ f.crates, x.parent = p → x.name = n → some x.id = e := by
  intro x hx h1 h2
  unfold nameTaken at h
  have := List.any_eq_false.mp h x hx
  simpa [h1, h2] using this

theorem nameTaken_true {f : Forest} {p : Option Id} {n : Name} {e : Option Id} (h : f.nameTaken p n e = true) :
    ∃ x ∈ f.crates, x.parent = p ∧ x.name = n ∧ some x.id ≠ e := by
  unfold nameTaken at h
  obtain ⟨x, hx, hp⟩ := List.any_eq_true.mp h
  simp only [Bool.and_eq_true, beq_iff_eq, bne_iff_ne, ne_eq] at hp
  exact ⟨x, hx, hp.1.1, hp.1.2, hp.2⟩

/-- Well-formed forest. -/
structure Wf (f : Forest) : Prop where
  ids_nodup : f.ids.Nodup
  id_pos : ∀ c ∈ f.crates, 0 < c.id
  parent_live : ∀ c ∈ f.crates, ∀ p, c.parent = some p → p ∈ f.ids
  ranked : ∃ depth : Id → Nat, ∀ c ∈ f.crates, ∀ p, c.parent = some p → depth p < depth c.id
  names_valid : ∀ c ∈ f.crates, validName c.name = true
  names_unique : ∀ c ∈ f.crates, ∀ c' ∈ f.crates, c.parent = c'.parent → c.name = c'.name → c = c'

theorem wf_empty : Wf Forest.empty := by
  constructor <;> simp [Forest.empty, ids]

/-- Along an upward path the rank strictly decreases. -/
theorem up_rank {f : Forest} {depth : Id → Nat}
    (hd : ∀ c ∈ f.crates, ∀ p, c.parent = some p → depth p < depth c.id) :
    ∀ (k : Nat) (x a : Id), up f k x = some a → depth a + k ≤ depth x := by
  intro k
  induction k with
  | zero => intro x a h; simp only [up, Option.some.injEq] at h; subst h; omega
  | succ k ih =>
    intro x a h
    simp only [up] at h
    cases hp : f.parentOf x with
    | none => simp [hp] at h
    | some p =>
      simp only [hp, Option.bind_some] at h
      obtain ⟨c, hc, e1, e2⟩ := parentOf_some hp
      have h1 := hd c hc p e2
      have h2 := ih p a h
      rw [e1] at h1
      omega

/-- The parent relation of a well-formed forest has no cycle. -/
theorem Wf.acyclic {f : Forest} (h : Wf f) (x : Id) : f.isAncestor x x = false := by
  obtain ⟨depth, hd⟩ := h.ranked
  cases hx : f.isAncestor x x with
  | false => rfl
  | true =>
    obtain ⟨k, h1, h2⟩ := (isAncestor_iff f x x).mp hx
    have := up_rank hd k x x h2
    omega

theorem Wf.not_ancestor_sym {f : Forest} (h : Wf f) {a b : Id} (h1 : f.isAncestor a b = true) : f.isAncestor b a = false := by
  cases h2 : f.isAncestor b a with
  | false => rfl
  | true => have := isAncestor_trans h1 h2; rw [h.acyclic] at this; exact absurd this (by simp)

/-- An ancestor is a live crate (parents are live). -/
theorem Wf.ancestor_live {f : Forest} (h : Wf f) {a x : Id} (ha : f.isAncestor a x = true) : a ∈ f.ids := by
  obtain ⟨k, h1, h2⟩ := (isAncestor_iff f a x).mp ha
  cases k with
  | zero => omega
  | succ k =>
    rw [up_succ'] at h2
    cases hu : up f k x with
    | none => simp [hu] at h2
    | some y =>
      simp only [hu, Option.bind_some] at h2
      obtain ⟨c, hc, _, e2⟩ := parentOf_some h2
      exact h.parent_live c hc a e2

theorem descendant_live {f : Forest} {a x : Id} (ha : f.isAncestor a x = true) : x ∈ f.ids := by
  obtain ⟨p, hp, _⟩ := isAncestor_step ha
  exact live_of_parentOf hp

end Forest

open Forest

/-! ### the target of every `accept` verdict is well-formed -/

theorem wf_append {f : Forest} (h : Wf f) {n : Id} {nm : Name} {p : Option Id} (hfresh : n ∉ f.ids) (hpos : 0 < n)
    (hp : ∀ q, p = some q → q ∈ f.ids) (hv : validName nm = true) (hnt : f.nameTaken p nm = false) :
    Wf ⟨f.crates ++ [⟨n, nm, p⟩]⟩ := by
  obtain ⟨depth, hd⟩ := h.ranked
  have hids : (Forest.mk (f.crates ++ [⟨n, nm, p⟩])).ids = f.ids ++ [n] := by simp [ids]
  constructor
  · rw [hids]
    refine List.nodup_append.mpr ⟨h.ids_nodup, by simp, ?_⟩
    intro a ha b hb
    simp only [List.mem_singleton] at hb
    subst hb
    intro e; subst e; exact hfresh ha
  · intro c hc
    simp only [List.mem_append, List.mem_singleton] at hc
    rcases hc with hc | rfl
    · exact h.id_pos c hc
    · exact hpos
  · intro c hc q hq
    rw [hids]
    simp only [List.mem_append, List.mem_singleton] at hc ⊢
    rcases hc with hc | rfl
    · left; exact h.parent_live c hc q hq
    · left; exact hp q hq
  · -- rank of the new crate: one more than its parent's
    refine ⟨fun x => if x = n then (match p with | some q => depth q + 1 | none => 0) else depth x, ?_⟩
    intro c hc q hq
    simp only [List.mem_append, List.mem_singleton] at hc
    rcases hc with hc | rfl
    · have hqn : q ≠ n := fun e => hfresh (e ▸ h.parent_live c hc q hq)
      have hcn : c.id ≠ n := fun e => hfresh (e ▸ mem_ids.mpr ⟨c, hc, rfl⟩)
      simp only [if_neg hqn, if_neg hcn]
      exact hd c hc q hq
    · simp only at hq
      subst hq
      have hqn : q ≠ n := fun e => hfresh (e ▸ hp q rfl)
      simp [hqn]
  · intro c hc
    simp only [List.mem_append, List.mem_singleton] at hc
    rcases hc with hc | rfl
    · exact h.names_valid c hc
    · exact hv
  · intro c hc c' hc' e1 e2
    simp only [List.mem_append, List.mem_singleton] at hc hc'
    rcases hc with hc | rfl <;> rcases hc' with hc' | rfl
    · exact h.names_unique c hc c' hc' e1 e2
    · have := nameTaken_false hnt c hc e1 e2
      simp at this
    · have := nameTaken_false hnt c' hc' e1.symm e2.symm
      simp at this
    · rfl

theorem mem_setNameOf {f : Forest} {c : Id} {n : Name} {x : Crate} :
    x ∈ (setNameOf f c n).crates ↔ ∃ y ∈ f.crates, x = if y.id == c then { y with name := n } else y := by
  simp only [setNameOf, List.mem_map]
  constructor
  · rintro ⟨y, hy, rfl⟩; exact ⟨y, hy, rfl⟩
  · rintro ⟨y, hy, rfl⟩; exact ⟨y, hy, rfl⟩

theorem ids_setNameOf (f : Forest) (c : Id) (n : Name) : (setNameOf f c n).ids = f.ids := by
  simp only [ids, setNameOf, List.map_map]
  apply List.map_congr_left
  intro y _
  simp only [Function.comp]
  split <;> rfl

theorem wf_rename {f : Forest} (h : Wf f) {c : Id} {n : Name} (hv : validName n = true)
    (hnt : f.nameTaken (f.parentOf c) n (some c) = false) : Wf (setNameOf f c n) := by
  obtain ⟨depth, hd⟩ := h.ranked
  have hid : ∀ y : Crate, (if y.id == c then { y with name := n } else y).id = y.id := by intro y; split <;> rfl
  have hpar : ∀ y : Crate, (if y.id == c then { y with name := n } else y).parent = y.parent := by intro y; split <;> rfl
  constructor
  · rw [ids_setNameOf]; exact h.ids_nodup
  · intro x hx; obtain ⟨y, hy, rfl⟩ := mem_setNameOf.mp hx; rw [hid]; exact h.id_pos y hy
  · intro x hx p hp
    obtain ⟨y, hy, rfl⟩ := mem_setNameOf.mp hx
    rw [ids_setNameOf]; rw [hpar] at hp; exact h.parent_live y hy p hp
  · refine ⟨depth, ?_⟩
    intro x hx p hp
    obtain ⟨y, hy, rfl⟩ := mem_setNameOf.mp hx
    rw [hid]; rw [hpar] at hp; exact hd y hy p hp
  · intro x hx
    obtain ⟨y, hy, rfl⟩ := mem_setNameOf.mp hx
    by_cases hc : (y.id == c) = true
    · simp [hc, hv]
    · simp [hc, h.names_valid y hy]
  · intro x hx x' hx' e1 e2
    obtain ⟨y, hy, rfl⟩ := mem_setNameOf.mp hx
    obtain ⟨y', hy', rfl⟩ := mem_setNameOf.mp hx'
    rw [hpar, hpar] at e1
    by_cases hc : y.id = c <;> by_cases hc' : y'.id = c
    · have := crate_eq_of_id h.ids_nodup hy hy' (hc.trans hc'.symm)
      rw [this]
    · -- y is the renamed crate, y' a sibling already called n
      have hpo : f.parentOf c = y.parent := hc ▸ parentOf_of_mem h.ids_nodup hy
      have e2' : y'.name = n := by simpa [hc, hc'] using e2.symm
      have := nameTaken_false hnt y' hy' (by rw [hpo]; exact e1.symm) e2'
      simp at this; exact absurd this hc'
    · have hpo : f.parentOf c = y'.parent := hc' ▸ parentOf_of_mem h.ids_nodup hy'
      have e2' : y.name = n := by simpa [hc, hc'] using e2
      have := nameTaken_false hnt y hy (by rw [hpo]; exact e1) e2'
      simp at this; exact absurd this hc
    · have e2' : y.name = y'.name := by simpa [hc, hc'] using e2
      have := h.names_unique y hy y' hy' e1 e2'
      rw [this]

theorem mem_setParentOf {f : Forest} {c : Id} {p : Option Id} {x : Crate} :
    x ∈ (setParentOf f c p).crates ↔ ∃ y ∈ f.crates, x = if y.id == c then { y with parent := p } else y := by
  simp only [setParentOf, List.mem_map]
  constructor
  · rintro ⟨y, hy, rfl⟩; exact ⟨y, hy, rfl⟩
  · rintro ⟨y, hy, rfl⟩; exact ⟨y, hy, rfl⟩

theorem ids_setParentOf (f : Forest) (c : Id) (p : Option Id) : (setParentOf f c p).ids = f.ids := by
  simp only [ids, setParentOf, List.map_map]
  apply List.map_congr_left
  intro y _
  simp only [Function.comp]
  split <;> rfl

/-- Re-parenting `c` (live) under `p` (absent, or a live crate that is neither `c` nor below `c`),
its name being free there. -/
theorem wf_setParent {f : Forest} (h : Wf f) {c : Id} {p : Option Id} {n : Name} (hn : f.nameOf c = some n)
    (hp : ∀ q, p = some q → q ∈ f.ids ∧ q ≠ c ∧ f.isAncestor c q = false)
    (hnt : f.nameTaken p n (some c) = false) : Wf (setParentOf f c p) := by
  obtain ⟨depth, hd⟩ := h.ranked
  have hid : ∀ y : Crate, (if y.id == c then { y with parent := p } else y).id = y.id := by intro y; split <;> rfl
  have hname : ∀ y : Crate, (if y.id == c then { y with parent := p } else y).name = y.name := by intro y; split <;> rfl
  constructor
  · rw [ids_setParentOf]; exact h.ids_nodup
  · intro x hx; obtain ⟨y, hy, rfl⟩ := mem_setParentOf.mp hx; rw [hid]; exact h.id_pos y hy
  · intro x hx q hq
    obtain ⟨y, hy, rfl⟩ := mem_setParentOf.mp hx
    rw [ids_setParentOf]
    by_cases hc : (y.id == c) = true
    · simp only [hc, if_true] at hq; exact (hp q hq).1
    · simp only [hc] at hq; exact h.parent_live y hy q hq
  · -- the subtree of c is shifted below its new parent
    cases p with
    | none =>
      refine ⟨depth, ?_⟩
      intro x hx q hq
      obtain ⟨y, hy, rfl⟩ := mem_setParentOf.mp hx
      by_cases hc : (y.id == c) = true
      · simp [hc] at hq
      · simp only [hc] at hq ⊢; exact hd y hy q hq
    | some q0 =>
      obtain ⟨hq0live, hq0c, hq0anc⟩ := hp q0 rfl
      refine ⟨fun y => if y = c ∨ f.isAncestor c y = true then depth y + depth q0 + 1 else depth y, ?_⟩
      intro x hx q hq
      obtain ⟨y, hy, rfl⟩ := mem_setParentOf.mp hx
      rw [hid]
      by_cases hc : y.id = c
      · have hc' : (y.id == c) = true := by simpa using hc
        simp only [hc', if_true, Option.some.injEq] at hq
        subst hq
        have h1 : y.id = c ∨ f.isAncestor c y.id = true := Or.inl hc
        have h2 : ¬ (q0 = c ∨ f.isAncestor c q0 = true) := by
          intro hh; rcases hh with e | e
          · exact hq0c e
          · rw [hq0anc] at e; exact absurd e (by simp)
        simp only [if_pos h1, if_neg h2]
        omega
      · have hc' : ¬ (y.id == c) = true := by simpa using hc
        simp only [hc'] at hq
        have hpo : f.parentOf y.id = some q := by rw [parentOf_of_mem h.ids_nodup hy]; exact hq
        have hlt := hd y hy q hq
        by_cases hs : y.id = c ∨ f.isAncestor c y.id = true
        · have hanc : f.isAncestor c y.id = true := by
            rcases hs with e | e
            · exact absurd e hc
            · exact e
          obtain ⟨p', hp', hor⟩ := isAncestor_step hanc
          rw [hpo] at hp'
          simp only [Option.some.injEq] at hp'
          subst hp'
          have hsq : q = c ∨ f.isAncestor c q = true := hor
          simp only [if_pos hs, if_pos hsq]
          omega
        · have hsq : ¬ (q = c ∨ f.isAncestor c q = true) := by
            intro hh
            apply hs
            right
            rcases hh with e | e
            · rw [← e]; exact isAncestor_of_parent hpo
            · exact isAncestor_trans e (isAncestor_of_parent hpo)
          simp only [if_neg hs, if_neg hsq]
          exact hlt
  · intro x hx
    obtain ⟨y, hy, rfl⟩ := mem_setParentOf.mp hx
    rw [hname]; exact h.names_valid y hy
  · intro x hx x' hx' e1 e2
    obtain ⟨y, hy, rfl⟩ := mem_setParentOf.mp hx
    obtain ⟨y', hy', rfl⟩ := mem_setParentOf.mp hx'
    rw [hname, hname] at e2
    by_cases hc : y.id = c <;> by_cases hc' : y'.id = c
    · have := crate_eq_of_id h.ids_nodup hy hy' (hc.trans hc'.symm)
      rw [this]
    · have hyn : y.name = n := by
        have := nameOf_of_mem h.ids_nodup hy; rw [hc, hn] at this; simpa using this.symm
      have e1' : y'.parent = p := by simpa [hc, hc'] using e1.symm
      have := nameTaken_false hnt y' hy' e1' (by rw [← e2]; exact hyn)
      simp at this; exact absurd this hc'
    · have hyn : y'.name = n := by
        have := nameOf_of_mem h.ids_nodup hy'; rw [hc', hn] at this; simpa using this.symm
      have e1' : y.parent = p := by simpa [hc, hc'] using e1
      have := nameTaken_false hnt y hy e1' (by rw [e2]; exact hyn)
      simp at this; exact absurd this hc
    · have e1' : y.parent = y'.parent := by simpa [hc, hc'] using e1
      have := h.names_unique y hy y' hy' e1' e2
      rw [this]

theorem mem_removeSubtree {f : Forest} {c : Id} {x : Crate} :
    x ∈ (removeSubtree f c).crates ↔ x ∈ f.crates ∧ x.id ≠ c ∧ f.isAncestor c x.id = false := by
  simp [removeSubtree, List.mem_filter]

theorem wf_remove {f : Forest} (h : Wf f) (c : Id) : Wf (removeSubtree f c) := by
  obtain ⟨depth, hd⟩ := h.ranked
  have hsub : (removeSubtree f c).crates.Sublist f.crates := List.filter_sublist
  constructor
  · exact List.Nodup.sublist (List.Sublist.map _ hsub) h.ids_nodup
  · intro x hx; exact h.id_pos x (mem_removeSubtree.mp hx).1
  · intro x hx p hp
    obtain ⟨hx1, hx2, hx3⟩ := mem_removeSubtree.mp hx
    obtain ⟨y, hy, e⟩ := mem_ids.mp (h.parent_live x hx1 p hp)
    have hpo : f.parentOf x.id = some p := by rw [parentOf_of_mem h.ids_nodup hx1]; exact hp
    refine mem_ids.mpr ⟨y, mem_removeSubtree.mpr ⟨hy, ?_, ?_⟩, e⟩
    · rw [e]; intro e'; subst e'
      rw [isAncestor_of_parent hpo] at hx3; exact absurd hx3 (by simp)
    · rw [e]
      cases ha : f.isAncestor c p with
      | false => rfl
      | true =>
        rw [isAncestor_trans ha (isAncestor_of_parent hpo)] at hx3; exact absurd hx3 (by simp)
  · exact ⟨depth, fun x hx p hp => hd x (mem_removeSubtree.mp hx).1 p hp⟩
  · intro x hx; exact h.names_valid x (mem_removeSubtree.mp hx).1
  · intro x hx x' hx' e1 e2
    exact h.names_unique x (mem_removeSubtree.mp hx).1 x' (mem_removeSubtree.mp hx').1 e1 e2

def Op.isCreate : Op → Bool
  | .createRoot _ | .createSub _ _ => true
  | _ => false

/-- The crates after an accepted operation: the old ones, plus the new id for a creation. -/
theorem step_accept_ids {f f' : Forest} (op : Op) (n : Id) (hs : step f op n = .accept f') :
    ∀ x ∈ f'.ids, x ∈ f.ids ∨ (op.isCreate = true ∧ x = n) := by
  intro x hx
  cases op with
  | createRoot nm =>
    simp only [step] at hs
    split at hs
    · simp at hs
    · split at hs
      · simp at hs
      · simp only [Verdict.accept.injEq] at hs
        subst hs
        simp only [ids, List.map_append, List.map_cons, List.map_nil, List.mem_append, List.mem_singleton] at hx
        rcases hx with hx | hx
        · left; exact hx
        · right; exact ⟨rfl, hx⟩
  | createSub p nm =>
    simp only [step] at hs
    split at hs
    · simp at hs
    · split at hs
      · simp at hs
      · split at hs
        · simp at hs
        · simp only [Verdict.accept.injEq] at hs
          subst hs
          simp only [ids, List.map_append, List.map_cons, List.map_nil, List.mem_append, List.mem_singleton] at hx
          rcases hx with hx | hx
          · left; exact hx
          · right; exact ⟨rfl, hx⟩
  | rename c nm =>
    simp only [step] at hs
    split at hs
    · simp at hs
    · split at hs
      · simp at hs
      · split at hs
        · simp at hs
        · simp only [Verdict.accept.injEq] at hs
          subst hs
          rw [ids_setNameOf] at hx; left; exact hx
  | setParent c p =>
    have key : ∀ g, f' = setParentOf f c g → x ∈ f.ids := by
      intro g e; rw [e, ids_setParentOf] at hx; exact hx
    simp only [step] at hs
    split at hs
    · simp at hs
    · cases p with
      | none =>
        simp only at hs
        split at hs
        · split at hs
          · simp at hs
          · simp only [Verdict.accept.injEq] at hs
            left; exact key _ hs.symm
        · simp at hs
      | some q =>
        simp only at hs
        split at hs
        · simp at hs
        · split at hs
          · simp at hs
          · split at hs
            · simp at hs
            · split at hs
              · split at hs
                · simp at hs
                · simp only [Verdict.accept.injEq] at hs
                  left; exact key _ hs.symm
              · simp at hs
  | remove c =>
    simp only [step] at hs
    split at hs
    · simp at hs
    · simp only [Verdict.accept.injEq] at hs
      subst hs
      left
      obtain ⟨y, hy, e⟩ := mem_ids.mp hx
      exact mem_ids.mpr ⟨y, (mem_removeSubtree.mp hy).1, e⟩

/-- The exact list of live crates after an accepted operation. -/
theorem step_accept_ids_eq {f f' : Forest} (op : Op) (n : Id) (hs : step f op n = .accept f') :
    f'.ids = (match op with
      | .createRoot _ | .createSub _ _ => f.ids ++ [n]
      | .rename _ _ | .setParent _ _ => f.ids
      | .remove c => f.ids.filter (fun x => !(x == c || f.isAncestor c x))) := by
  cases op with
  | createRoot nm =>
    simp only [step] at hs
    split at hs
    · simp at hs
    · split at hs
      · simp at hs
      · simp only [Verdict.accept.injEq] at hs
        subst hs
        simp [ids]
  | createSub p nm =>
    simp only [step] at hs
    split at hs
    · simp at hs
    · split at hs
      · simp at hs
      · split at hs
        · simp at hs
        · simp only [Verdict.accept.injEq] at hs
          subst hs
          simp [ids]
  | rename c nm =>
    simp only [step] at hs
    split at hs
    · simp at hs
    · split at hs
      · simp at hs
      · split at hs
        · simp at hs
        · simp only [Verdict.accept.injEq] at hs
          subst hs
          exact ids_setNameOf _ _ _
  | setParent c p =>
    have key : ∀ g, f' = setParentOf f c g → f'.ids = f.ids := by
      intro g e; rw [e, ids_setParentOf]
    simp only [step] at hs
    split at hs
    · simp at hs
    · cases p with
      | none =>
        simp only at hs
        split at hs
        · split at hs
          · simp at hs
          · simp only [Verdict.accept.injEq] at hs
            exact key _ hs.symm
        · simp at hs
      | some q =>
        simp only at hs
        split at hs
        · simp at hs
        · split at hs
          · simp at hs
          · split at hs
            · simp at hs
            · split at hs
              · split at hs
                · simp at hs
                · simp only [Verdict.accept.injEq] at hs
                  exact key _ hs.symm
              · simp at hs
  | remove c =>
    simp only [step] at hs
    split at hs
    · simp at hs
    · simp only [Verdict.accept.injEq] at hs
      subst hs
      simp only [ids, removeSubtree, List.filter_map]
      rfl

/-- Every `accept` verdict leads to a well-formed forest (the new id of a creation being fresh and positive). -/
theorem step_accept_wf {f f' : Forest} (h : Wf f) (op : Op) (n : Id) (hnew : op.isCreate = true → n ∉ f.ids ∧ 0 < n)
    (hs : step f op n = .accept f') : Wf f' := by
  have hfresh : op.isCreate = true → n ∉ f.ids := fun e => (hnew e).1
  have hpos : op.isCreate = true → 0 < n := fun e => (hnew e).2
  cases op with
  | createRoot nm =>
    simp only [step] at hs
    split at hs
    · simp at hs
    · split at hs
      · simp at hs
      · rename_i hv hnt
        simp only [Verdict.accept.injEq] at hs
        subst hs
        exact wf_append h (hfresh rfl) (hpos rfl) (by simp) (by simpa using hv) (by simpa using hnt)
  | createSub p nm =>
    simp only [step] at hs
    split at hs
    · simp at hs
    · split at hs
      · simp at hs
      · split at hs
        · simp at hs
        · rename_i hl hv hnt
          simp only [Verdict.accept.injEq] at hs
          subst hs
          have hl' : p ∈ f.ids := by
            have : f.live p = true := by simpa using hl
            exact live_iff.mp this
          exact wf_append h (hfresh rfl) (hpos rfl) (by intro q hq; simp only [Option.some.injEq] at hq; subst hq; exact hl')
            (by simpa using hv) (by simpa using hnt)
  | rename c nm =>
    simp only [step] at hs
    split at hs
    · simp at hs
    · split at hs
      · simp at hs
      · split at hs
        · simp at hs
        · rename_i hl hv hnt
          simp only [Verdict.accept.injEq] at hs
          subst hs
          exact wf_rename h (by simpa using hv) (by simpa using hnt)
  | setParent c p =>
    simp only [step] at hs
    split at hs
    · simp at hs
    · cases p with
      | none =>
        simp only at hs
        split at hs
        · rename_i nm hnm
          split at hs
          · simp at hs
          · rename_i hnt
            simp only [Verdict.accept.injEq] at hs
            subst hs
            exact wf_setParent h hnm (by simp) (by simpa using hnt)
        · simp at hs
      | some q =>
        simp only at hs
        split at hs
        · simp at hs
        · split at hs
          · simp at hs
          · split at hs
            · simp at hs
            · rename_i hqc hql hanc
              split at hs
              · rename_i nm hnm
                split at hs
                · simp at hs
                · rename_i hnt
                  simp only [Verdict.accept.injEq] at hs
                  subst hs
                  refine wf_setParent h hnm ?_ (by simpa using hnt)
                  intro q' hq'
                  simp only [Option.some.injEq] at hq'
                  subst hq'
                  refine ⟨live_iff.mp (by simpa using hql), by simpa using hqc, by simpa using hanc⟩
              · simp at hs
  | remove c =>
    simp only [step] at hs
    split at hs
    · simp at hs
    · simp only [Verdict.accept.injEq] at hs
      subst hs
      exact wf_remove h c

end EngineModel.Spec.Forest
