/-
One refinement lemma per 1.x setter whose effect is confined to the Track /
MetaData / MetaDataInteger rows (no PerformanceData blob involved).
-/
import Proofs.TracksV1Lens

namespace EngineModel.TracksV1

open Impl.V1 (GMarker HotCue LoopV Entry Wave Beat Cues Loops)
open Fl (FOps)

set_option linter.unusedSimpArgs false
set_option linter.unusedVariables false

variable (o : FOps) (s : Schema) (r r' : TrackRows)

/-! ### the seven strings -/

theorem refine_album (v : Option Bytes) (hinv : InvP r) (h : set o r .album v = .ok r') :
    Refines o s r r' .album v := by
  simp only [set, Res.ok.injEq] at h
  subst h
  refine ⟨v, rfl, ?_, hinv.of_same rfl rfl rfl rfl rfl⟩
  simp [snapOf, Spec.putField, cell_aset_same, cell_aset_other, fileBytesCol]

theorem refine_artist (v : Option Bytes) (hinv : InvP r) (h : set o r .artist v = .ok r') :
    Refines o s r r' .artist v := by
  simp only [set, Res.ok.injEq] at h
  subst h
  refine ⟨v, rfl, ?_, hinv.of_same rfl rfl rfl rfl rfl⟩
  simp [snapOf, Spec.putField, cell_aset_same, cell_aset_other, fileBytesCol]

theorem refine_comment (v : Option Bytes) (hinv : InvP r) (h : set o r .comment v = .ok r') :
    Refines o s r r' .comment v := by
  simp only [set, Res.ok.injEq] at h
  subst h
  refine ⟨v, rfl, ?_, hinv.of_same rfl rfl rfl rfl rfl⟩
  simp [snapOf, Spec.putField, cell_aset_same, cell_aset_other, fileBytesCol]

theorem refine_composer (v : Option Bytes) (hinv : InvP r) (h : set o r .composer v = .ok r') :
    Refines o s r r' .composer v := by
  simp only [set, Res.ok.injEq] at h
  subst h
  refine ⟨v, rfl, ?_, hinv.of_same rfl rfl rfl rfl rfl⟩
  simp [snapOf, Spec.putField, cell_aset_same, cell_aset_other, fileBytesCol]

theorem refine_genre (v : Option Bytes) (hinv : InvP r) (h : set o r .genre v = .ok r') :
    Refines o s r r' .genre v := by
  simp only [set, Res.ok.injEq] at h
  subst h
  refine ⟨v, rfl, ?_, hinv.of_same rfl rfl rfl rfl rfl⟩
  simp [snapOf, Spec.putField, cell_aset_same, cell_aset_other, fileBytesCol]

theorem refine_publisher (v : Option Bytes) (hinv : InvP r) (h : set o r .publisher v = .ok r') :
    Refines o s r r' .publisher v := by
  simp only [set, Res.ok.injEq] at h
  subst h
  refine ⟨v, rfl, ?_, hinv.of_same rfl rfl rfl rfl rfl⟩
  simp [snapOf, Spec.putField, cell_aset_same, cell_aset_other, fileBytesCol]

theorem refine_title (v : Option Bytes) (hinv : InvP r) (h : set o r .title v = .ok r') :
    Refines o s r r' .title v := by
  simp only [set, Res.ok.injEq] at h
  subst h
  refine ⟨v, rfl, ?_, hinv.of_same rfl rfl rfl rfl rfl⟩
  simp [snapOf, Spec.putField, cell_aset_same, cell_aset_other, fileBytesCol]

/-! ### plain `Track` columns -/

theorem refine_bitrate (v : Option UInt32) (hinv : InvP r) (h : set o r .bitrate v = .ok r') :
    Refines o s r r' .bitrate v := by
  simp only [set, Res.ok.injEq] at h
  subst h
  refine ⟨v, rfl, ?_, hinv.of_same rfl rfl rfl rfl rfl⟩
  simp [snapOf, Spec.putField, fileBytesCol, map_u32_s32]

theorem refine_trackNumber (v : Option UInt32) (hinv : InvP r) (h : set o r .trackNumber v = .ok r') :
    Refines o s r r' .trackNumber v := by
  simp only [set, Res.ok.injEq] at h
  subst h
  refine ⟨v, rfl, ?_, hinv.of_same rfl rfl rfl rfl rfl⟩
  simp [snapOf, Spec.putField, fileBytesCol, map_u32_s32]

theorem refine_year (v : Option UInt32) (hinv : InvP r) (h : set o r .year v = .ok r') :
    Refines o s r r' .year v := by
  simp only [set, Res.ok.injEq] at h
  subst h
  refine ⟨v, rfl, ?_, hinv.of_same rfl rfl rfl rfl rfl⟩
  simp [snapOf, Spec.putField, fileBytesCol, map_u32_s32]

theorem refine_relativePath (p : Bytes) (hinv : InvP r) (h : set o r .relativePath p = .ok r') :
    Refines o s r r' .relativePath p := by
  simp only [set, Res.ok.injEq] at h
  subst h
  refine ⟨p, rfl, ?_, ?_⟩
  · simp [snapOf, Spec.putField, cell_aset_same, cell_aset_other, fileBytesCol]
  · obtain ⟨a, b, c, d, e, f⟩ := hinv
    exact ⟨⟨p, rfl⟩, b, c, d, e, f⟩

/-- `set_bpm`: the REAL column holds the value (−0.0 as +0.0), so the integer column never shows. -/
theorem refine_bpm (v : Option Bits) (hinv : InvP r) (hfin : Spec.optFinite v = true)
    (h : set o r .bpm v = .ok r') : Refines o s r r' .bpm v := by
  simp only [set] at h
  obtain ⟨c, hc, h⟩ := bind_ok_inv h
  simp only [Res.pure_eq, pure, Res.ok.injEq] at h
  subst h
  have hb : v = none → c = none := by
    intro hv; subst hv; cases hc; rfl
  refine ⟨_, rfl, ?_, hinv.of_same rfl rfl rfl rfl rfl⟩
  have := bpm_read o v c hb hfin
  simp [snapOf, Spec.putField, fileBytesCol]
  exact this

/-- `set_duration`: whole seconds in `Track.length` (and the "MM:SS" text, which no getter reads). -/
theorem refine_duration (v : Option UInt64) (hinv : InvP r) (h : set o r .duration v = .ok r') :
    Refines o s r r' .duration v := by
  simp only [set, Res.ok.injEq] at h
  subst h
  refine ⟨_, rfl, ?_, ?_⟩
  · cases v <;> simp [snapOf, Spec.putField, cell_aset_same, cell_aset_other, fileBytesCol, whole1000]
  · obtain ⟨a, b, c, d, e, f⟩ := hinv
    refine ⟨a, ?_, c, d, e, f⟩
    intro l hl
    cases v with
    | none => cases hl
    | some d => simp only [Option.map_some, Option.some.injEq] at hl; subst hl; exact fits1000 d

/-- `set_last_played_at`: whole seconds in `MetaDataInteger` type 1 (and the "ever played" flag). -/
theorem refine_lastPlayedAt (v : Option UInt64) (hinv : InvP r) (h : set o r .lastPlayedAt v = .ok r') :
    Refines o s r r' .lastPlayedAt v := by
  simp only [set, Res.ok.injEq] at h
  subst h
  refine ⟨_, rfl, ?_, ?_⟩
  · cases v <;> simp [snapOf, Spec.putField, cell_aset_same, cell_aset_other, fileBytesCol, wholeBillion]
  · obtain ⟨a, b, c, d, e, f⟩ := hinv
    refine ⟨a, b, ?_, d, e, ?_⟩
    · intro t ht
      rw [cell_aset_same] at ht
      cases v with
      | none => cases ht
      | some d => simp only [Option.map_some, Option.some.injEq] at ht; subst ht; exact fitsBillion d
    · intro p hp k hk
      rw [cell_aset_other _ _ _ _ (by decide)]
      exact f p hp k hk

theorem refine_rating (v : Option UInt32) (hinv : InvP r) (h : set o r .rating v = .ok r') :
    Refines o s r r' .rating v := by
  simp only [set, Res.ok.injEq] at h
  subst h
  refine ⟨_, rfl, ?_, ?_⟩
  · cases v <;> simp [snapOf, Spec.putField, cell_aset_same, cell_aset_other, fileBytesCol, clamp_eq]
  · exact hinv.of_same rfl rfl (cell_aset_other _ _ _ _ (by decide)) (cell_aset_other _ _ _ _ (by decide)) rfl

end EngineModel.TracksV1
