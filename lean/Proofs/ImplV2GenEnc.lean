/-
The encoders regenerated from the C++ `to_blob` functions (`Gen.ImplV2.encode*`,
tools/tr_blobs.py) write exactly the bytes of the independent Spec layouts
(Format/V2.lean) followed by the extra data, or throw `invalid_argument` for a
label longer than 255 bytes.

Unlike `Impl.V2.encode*` (which are *defined* as `writeInto size (Spec.enc v ++ extra)`),
the generated encoders are explicit sequences of primitive writes in the C++
statement order, through writers with their own byte-order definitions
(Impl/CxxPrims.lean: shifts and masks).  So these theorems carry the content
"same field order, same widths, same endianness, same count / length prefixes,
exact buffer size": none of it holds by definition.

Hypothesis of every theorem: the payload fits in a `std::vector<std::byte>`
(`< 2^63` bytes).  The generated code computes the buffer size in `size_t`
(wrapping), the label total in `int64_t` through `std::accumulate`, and the
vector constructor throws `length_error` above `max_size()`; the Spec uses
unbounded naturals.  Full statements (without the hypothesis) are false only for
values no machine can hold.
-/
import EngineModel.Gen.ImplV2Gen
import EngineModel.Impl.V2
import Proofs.WrLemmas
import Proofs.CxxPrimsLemmas
import Proofs.ImplV2Lists
set_option linter.unusedSimpArgs false

namespace EngineModel.Gen.ImplV2
open Codec Wr EngineModel.V2

/-! ### track data -/

/-- `track_data_blob::to_blob` (payload level). -/
theorem encodeTrack_spec_partial (v : Track) (extra : Bytes)
    (h : (track.enc v ++ extra).length < 9223372036854775808) :
    encodeTrack v extra = .ok (track.enc v ++ extra) := by
  have hl : (track.enc v ++ extra).length = 44 + extra.length := by simp [track_enc_length]
  unfold encodeTrack
  rw [hl] at h
  simp (disch := omega) only [u64_add_small, u64_mul_small]
  refine run_of_writes ?_ hl (by omega)
  simp only [CxxPrims.encode_double_be_eq, CxxPrims.encode_int64_be_eq, CxxPrims.encode_int32_be_eq]
  refine Writes.congr
    ((Writes.put _).bind <| (Writes.put _).bind <| (Writes.put _).bind <| (Writes.put _).bind <|
      (Writes.put _).bind <| (Writes.put _).bind <| Writes.put _) ?_
  simp [track, map, pair]

/-! ### beat data -/

theorem encodeGrid_body1_writes (m : Marker) : Writes (encodeGrid_body1 m) (marker.enc m) := by
  unfold encodeGrid_body1
  simp only [CxxPrims.encode_double_le_eq, CxxPrims.encode_int64_le_eq, CxxPrims.encode_int32_le_eq]
  refine Writes.congr
    ((Writes.put _).bind <| (Writes.put _).bind <| (Writes.put _).bind <| Writes.put _) ?_
  simp [marker, map, pair]

/-- `encode_beatgrid(beat_grid, ptr)` -/
theorem encodeGrid_writes (g : List Marker) : Writes (encodeGrid g) (grid.enc g) := by
  unfold encodeGrid
  simp only [CxxPrims.encode_int64_be_eq, count_bits]
  refine Writes.congr ((Writes.put _).bind <| Writes.forIn encodeGrid_body1_writes g) ?_
  simp [grid, counted, encL_eq_flatMap]

/-- `beat_data_blob::to_blob` -/
theorem encodeBeat_spec_partial (v : Beat) (extra : Bytes)
    (h : (beat.enc v ++ extra).length < 9223372036854775808) :
    encodeBeat v extra = .ok (beat.enc v ++ extra) := by
  have hl : (beat.enc v ++ extra).length = 33 + 24 * (v.dflt.length + v.adj.length) + extra.length := by
    simp [Impl.V2.beat_enc_length]
  unfold encodeBeat
  rw [hl] at h
  simp (disch := omega) only [u64_add_small, u64_mul_small]
  refine run_of_writes ?_ hl (by omega)
  simp only [CxxPrims.encode_double_be_eq, CxxPrims.encode_uint8_eq]
  refine Writes.congr
    ((Writes.put _).bind <| (Writes.put _).bind <| (Writes.put _).bind <| (encodeGrid_writes _).bind <|
      (encodeGrid_writes _).bind <| Writes.put _) ?_
  simp [beat, map, pair]

/-! ### overview waveform -/

theorem encodeOvw_body1_writes (e : UInt8 × UInt8 × UInt8) : Writes (encodeOvw_body1 e) [e.1, e.2.1, e.2.2] := by
  unfold encodeOvw_body1
  simp only [CxxPrims.encode_uint8_eq]
  exact Writes.congr ((Writes.put _).bind <| (Writes.put _).bind <| Writes.put _) (by simp [u8])

/-- `overview_waveform_data_blob::to_blob`, for values the Lean representation can hold faithfully
(`Ovw.Valid`: a whole number of 3-byte points, a 3-byte maximum point). -/
theorem encodeOvw_spec_partial (v : Ovw) (hv : v.Valid) (extra : Bytes)
    (h : (ovw.enc v ++ extra).length < 9223372036854775808) :
    encodeOvw v extra = .ok (ovw.enc v ++ extra) := by
  obtain ⟨h1, h2, h3⟩ := hv
  have hl : (ovw.enc v ++ extra).length = 27 + 3 * (v.points.length / 3) + extra.length := by
    simp [Impl.V2.ovw_enc_length, h3]; omega
  have ht := triples_length _ v.points (Nat.le_refl _)
  unfold encodeOvw
  simp only [ht]
  rw [hl] at h
  simp (disch := omega) only [u64_add_small, u64_mul_small]
  refine run_of_writes ?_ hl (by omega)
  simp only [CxxPrims.encode_double_be_eq, CxxPrims.encode_int64_be_eq, CxxPrims.encode_uint8_eq, count_bits]
  refine Writes.congr
    ((Writes.put _).bind <| (Writes.put _).bind <| (Writes.put _).bind <|
      (Writes.forIn encodeOvw_body1_writes _).bind <|
      (Writes.put _).bind <| (Writes.put _).bind <| (Writes.put _).bind <| Writes.put _) ?_
  rw [triples_flat _ v.points (Nat.le_refl _) h1]
  have := triple_bytes v.maxPt h3
  simp [ovw, dep, filter, ovwBody, map, pair, expect, bytesN, Ovw.count, u8]
  rw [← this]; rfl

/-! ### quick cues -/

theorem encodeCues_body1_writes (c : UInt8) : Writes (encodeCues_body1 c) [c] := by
  unfold encodeCues_body1
  exact Writes.put _

theorem encodeCues_body2_writes (q : Cue) (hq : ¬ (255 < q.label.length)) :
    Writes (encodeCues_body2 q) (cue.enc q) := by
  unfold encodeCues_body2
  have hq' : ¬ (q.label.length > 255) := hq
  simp only [CxxPrims.encode_double_be_eq, CxxPrims.encode_uint8_eq, hq', decide_false,
    Bool.false_eq_true, if_false]
  refine Writes.congr
    ((Writes.put _).bind <| (Writes.forIn encodeCues_body1_writes _).bind <|
      (Writes.put _).bind <| (Writes.put _).bind <| (Writes.put _).bind <| (Writes.put _).bind <|
      Writes.put _) ?_
  simp [cue, map, pair, lp8, color, u8, flatMap_singleton]

theorem encodeCues_body2_throws (q : Cue) (hq : 255 < q.label.length) (size : Nat) (out : Bytes) :
    encodeCues_body2 q size out = .throw .invalid_argument := by
  unfold encodeCues_body2
  have hq' : q.label.length > 255 := hq
  simp [hq']

/-- size of the buffer `quick_cues_blob::to_blob` allocates -/
theorem encodeCues_size (v : Cues) (extra : Bytes)
    (h : 25 + 13 * v.cues.length + Impl.V2.labelsLen (v.cues.map (·.label)) + extra.length < 9223372036854775808) :
    Cxx.U64.add (Cxx.U64.add (Cxx.U64.add 25 (Cxx.U64.mul 13 v.cues.length))
      (Cxx.u64OfInt (List.foldl (fun (x : Int) (q : Cue) =>
        Cxx.i64OfU64 (Cxx.U64.add (Cxx.u64OfInt x) q.label.length)) 0 v.cues))) extra.length =
    25 + 13 * v.cues.length + Impl.V2.labelsLen (v.cues.map (·.label)) + extra.length := by
  have hsum : Impl.V2.labelsLen (v.cues.map (·.label)) = ((v.cues.map (fun q => q.label.length)).sum : Nat) := by
    simp [Impl.V2.labelsLen, List.map_map, Function.comp_def]
  have hacc := accumulate_lengths (fun q : Cue => q.label.length) v.cues 0 (by omega) (by omega)
  rw [hacc]
  have hu : Cxx.u64OfInt (0 + ((v.cues.map (fun q => q.label.length)).sum : Nat)) =
      (v.cues.map (fun q => q.label.length)).sum := by
    unfold Cxx.u64OfInt Cxx.two64; omega
  rw [hu, ← hsum]
  simp (disch := omega) only [u64_add_small, u64_mul_small]

/-- `quick_cues_blob::to_blob`, every label at most 255 bytes. -/
theorem encodeCues_ok_partial (v : Cues) (hf : ∀ q ∈ v.cues, q.label.length ≤ 255) (extra : Bytes)
    (h : (cues.enc v ++ extra).length < 9223372036854775808) :
    encodeCues v extra = .ok (cues.enc v ++ extra) := by
  have hl : (cues.enc v ++ extra).length =
      25 + 13 * v.cues.length + Impl.V2.labelsLen (v.cues.map (·.label)) + extra.length := by
    simp [Impl.V2.cues_enc_length]
  rw [hl] at h
  unfold encodeCues
  simp only []
  rw [encodeCues_size v extra h]
  refine run_of_writes ?_ hl (by omega)
  simp only [CxxPrims.encode_double_be_eq, CxxPrims.encode_int64_be_eq, CxxPrims.encode_uint8_eq, count_bits]
  refine Writes.congr
    ((Writes.put _).bind <| (Writes.forIn_mem (g := cue.enc) _
        (fun q hq => encodeCues_body2_writes q (by have := hf q hq; omega))).bind <|
      (Writes.put _).bind <| (Writes.put _).bind <| (Writes.put _).bind <| Writes.put _) ?_
  simp [cues, cuesRaw, Cues.toRaw, map, pair, counted, encL_eq_flatMap, u8]

/-- `quick_cues_blob::to_blob`, some label longer than 255 bytes: `invalid_argument`, never a
truncated label and never a write past the buffer. -/
theorem encodeCues_reject_partial (v : Cues) (hbad : ∃ q ∈ v.cues, 255 < q.label.length) (extra : Bytes)
    (h : (cues.enc v ++ extra).length < 9223372036854775808) :
    encodeCues v extra = .throw .invalid_argument := by
  have hl : (cues.enc v ++ extra).length =
      25 + 13 * v.cues.length + Impl.V2.labelsLen (v.cues.map (·.label)) + extra.length := by
    simp [Impl.V2.cues_enc_length]
  rw [hl] at h
  unfold encodeCues
  simp only []
  rw [encodeCues_size v extra h]
  have hnot : ¬ (9223372036854775807 <
      25 + 13 * v.cues.length + Impl.V2.labelsLen (v.cues.map (·.label)) + extra.length) := by omega
  have henc : (v.cues.flatMap cue.enc).length =
      13 * v.cues.length + Impl.V2.labelsLen (v.cues.map (·.label)) := by
    rw [← encL_eq_flatMap, Impl.V2.encL_cue_length]
  have h8 : (CxxPrims.encode_int64_be (Prim.u64OfInt (Cxx.i64OfU64 v.cues.length))).length = 8 := by
    rw [CxxPrims.encode_int64_be_eq]; rfl
  simp only [run, hnot, if_false, bind_run]
  rw [Writes.put _ _ [] (by rw [h8]; simp; omega)]
  simp only []
  rw [forIn_throws (g := cue.enc) (fun q : Cue => 255 < q.label.length) encodeCues_body2_writes
    encodeCues_body2_throws v.cues hbad _ _ (by rw [henc]; simp [h8]; omega)]

/-! ### loops (stored uncompressed) -/

theorem encodeLoops_body1_writes (c : UInt8) : Writes (encodeLoops_body1 c) [c] := by
  unfold encodeLoops_body1
  exact Writes.put _

theorem encodeLoops_body2_writes (l : Loop) (hq : ¬ (255 < l.label.length)) :
    Writes (encodeLoops_body2 l) (loop.enc l) := by
  unfold encodeLoops_body2
  have hq' : ¬ (l.label.length > 255) := hq
  simp only [CxxPrims.encode_double_le_eq, CxxPrims.encode_uint8_eq, hq', decide_false,
    Bool.false_eq_true, if_false]
  refine Writes.congr
    ((Writes.put _).bind <| (Writes.forIn encodeLoops_body1_writes _).bind <|
      (Writes.put _).bind <| (Writes.put _).bind <| (Writes.put _).bind <| (Writes.put _).bind <|
      (Writes.put _).bind <| (Writes.put _).bind <| (Writes.put _).bind <| Writes.put _) ?_
  simp [loop, map, pair, lp8, color, u8, flatMap_singleton]

theorem encodeLoops_body2_throws (l : Loop) (hq : 255 < l.label.length) (size : Nat) (out : Bytes) :
    encodeLoops_body2 l size out = .throw .invalid_argument := by
  unfold encodeLoops_body2
  have hq' : l.label.length > 255 := hq
  simp [hq']

/-- size of the buffer `loops_blob::to_blob` allocates -/
theorem encodeLoops_size (v : Loops) (extra : Bytes)
    (h : 8 + 23 * v.length + Impl.V2.labelsLen (v.map (·.label)) + extra.length < 9223372036854775808) :
    Cxx.U64.add (Cxx.U64.add (Cxx.U64.add 8 (Cxx.U64.mul 23 v.length))
      (Cxx.u64OfInt (List.foldl (fun (x : Int) (q : Loop) =>
        Cxx.i64OfU64 (Cxx.U64.add (Cxx.u64OfInt x) q.label.length)) 0 v))) extra.length =
    8 + 23 * v.length + Impl.V2.labelsLen (v.map (·.label)) + extra.length := by
  have hsum : Impl.V2.labelsLen (v.map (·.label)) = ((v.map (fun q => q.label.length)).sum : Nat) := by
    simp [Impl.V2.labelsLen, List.map_map, Function.comp_def]
  have hacc := accumulate_lengths (fun q : Loop => q.label.length) v 0 (by omega) (by omega)
  rw [hacc]
  have hu : Cxx.u64OfInt (0 + ((v.map (fun q => q.label.length)).sum : Nat)) =
      (v.map (fun q => q.label.length)).sum := by
    unfold Cxx.u64OfInt Cxx.two64; omega
  rw [hu, ← hsum]
  simp (disch := omega) only [u64_add_small, u64_mul_small]

/-- `loops_blob::to_blob`, every label at most 255 bytes. -/
theorem encodeLoops_ok_partial (v : Loops) (hf : ∀ l ∈ v, l.label.length ≤ 255) (extra : Bytes)
    (h : (loops.enc v ++ extra).length < 9223372036854775808) :
    encodeLoops v extra = .ok (loops.enc v ++ extra) := by
  have hl : (loops.enc v ++ extra).length =
      8 + 23 * v.length + Impl.V2.labelsLen (v.map (·.label)) + extra.length := by
    simp [Impl.V2.loops_enc_length]
  rw [hl] at h
  unfold encodeLoops
  simp only []
  rw [encodeLoops_size v extra h]
  refine run_of_writes ?_ hl (by omega)
  simp only [CxxPrims.encode_int64_le_eq, count_bits]
  refine Writes.congr
    ((Writes.put _).bind <| (Writes.forIn_mem (g := loop.enc) _
        (fun q hq => encodeLoops_body2_writes q (by have := hf q hq; omega))).bind <| Writes.put _) ?_
  simp [loops, counted, encL_eq_flatMap]

/-- `loops_blob::to_blob`, some label longer than 255 bytes: `invalid_argument`. -/
theorem encodeLoops_reject_partial (v : Loops) (hbad : ∃ l ∈ v, 255 < l.label.length) (extra : Bytes)
    (h : (loops.enc v ++ extra).length < 9223372036854775808) :
    encodeLoops v extra = .throw .invalid_argument := by
  have hl : (loops.enc v ++ extra).length =
      8 + 23 * v.length + Impl.V2.labelsLen (v.map (·.label)) + extra.length := by
    simp [Impl.V2.loops_enc_length]
  rw [hl] at h
  unfold encodeLoops
  simp only []
  rw [encodeLoops_size v extra h]
  have hnot : ¬ (9223372036854775807 <
      8 + 23 * v.length + Impl.V2.labelsLen (v.map (·.label)) + extra.length) := by omega
  have henc : (v.flatMap loop.enc).length = 23 * v.length + Impl.V2.labelsLen (v.map (·.label)) := by
    rw [← encL_eq_flatMap, Impl.V2.encL_loop_length]
  have h8 : (CxxPrims.encode_int64_le (Prim.u64OfInt (Cxx.i64OfU64 v.length))).length = 8 := by
    rw [CxxPrims.encode_int64_le_eq]; rfl
  simp only [run, hnot, if_false, bind_run]
  rw [Writes.put _ _ [] (by rw [h8]; simp; omega)]
  simp only []
  rw [forIn_throws (g := loop.enc) (fun q : Loop => 255 < q.label.length) encodeLoops_body2_writes
    encodeLoops_body2_throws v hbad _ _ (by rw [henc]; simp [h8]; omega)]

/-! ### non-vacuity -/

example : (track.enc default ++ [1, 2, 3]).length < 9223372036854775808 := by decide
example : encodeTrack default [1, 2, 3] = .ok (track.enc default ++ [1, 2, 3]) := by decide
example : ∃ l ∈ ([⟨List.replicate 256 0, 0, 0, 0, 0, default⟩] : Loops), 255 < l.label.length :=
  ⟨_, List.mem_singleton.mpr rfl, by simp only [List.length_replicate]; omega⟩

end EngineModel.Gen.ImplV2
