/-
Refinement of `Spec.Members` (C08) by the schema-1.x model: the representation
relation `MemRel m db` (the Spec's live crates / live tracks / membership pairs
are, as sets, the rows of Crate / Track-with-path / CrateTrackList, all
duplicate-free) is preserved by every operation, with the outcome class the
Spec's verdict allows.
-/
import Proofs.CratesV1Coroll

namespace EngineModel.Api.CratesV1
open EngineModel.Pure.Detect EngineModel.Spec

variable {db : Db}

structure MemRel (m : Members.State) (db : Db) : Prop where
  crates : ∀ c, c ∈ m.crates ↔ c ∈ ids db
  tracks : ∀ t, t ∈ m.tracks ↔ liveTrack db t
  pairs : ∀ p, p ∈ m.pairs ↔ p ∈ db.ctl
  pairsNodup : m.pairs.Nodup
  tracksNodup : m.tracks.Nodup
  cratesNodup : m.crates.Nodup

theorem memRel_empty : MemRel Members.empty Db.empty := by
  constructor <;> simp [Members.empty, Db.empty, ids, liveTrack]

/-- What one step establishes for the membership Spec. -/
def MemStepOk (s : Schema) (m : Members.State) (db : Db) (op : Op) : Prop :=
  ∃ m', membersNext m op (step s db op).2 (dbCrates db) (dbCrates (step s db op).1) = some m' ∧
    MemRel m' (step s db op).1

theorem MemRel.congr {m : Members.State} {db db' : Db} (h : MemRel m db) (h1 : ids db' = ids db)
    (h2 : db'.ctl = db.ctl) (h3 : db'.track = db.track) : MemRel m db' := by
  refine ⟨?_, ?_, ?_, h.pairsNodup, h.tracksNodup, h.cratesNodup⟩
  · rw [h1]; exact h.crates
  · intro t; rw [liveTrack_congr h3]; exact h.tracks t
  · rw [h2]; exact h.pairs

theorem contains_iff {α} [BEq α] [LawfulBEq α] (l : List α) (a : α) : l.contains a = true ↔ a ∈ l := by simp

theorem not_pair_iff (p : Id × Id) (c t : Id) : (!(p.1 == c && p.2 == t)) = true ↔ p ≠ (c, t) := by
  rcases p with ⟨a, b⟩
  by_cases h1 : a = c <;> by_cases h2 : b = t <;> simp [h1, h2]

theorem pair_bne (p : Id × Id) (c t : Id) : (p != (c, t)) = !(p.1 == c && p.2 == t) := by
  by_cases he : p = (c, t)
  · subst he; simp
  · have h1 : (p != (c, t)) = true := bne_iff_ne.mpr he
    rw [h1, (not_pair_iff p c t).mpr he]

theorem mem_dbCrates (db : Db) (c : Id) : c ∈ dbCrates db ↔ c ∈ ids db := by
  unfold dbCrates sortIds ids
  rw [List.mem_mergeSort]

/-! ### crate creation / structure operations -/

theorem mem_newCrate {m : Members.State} (hm : MemRel m db) {db' : Db} {i : Id} (hi : i ∉ ids db)
    (h1 : ids db' = ids db ++ [i]) (h2 : db'.ctl = db.ctl) (h3 : db'.track = db.track) :
    MemRel (membersTell m (.newCrate i)) db' := by
  show MemRel { m with crates := m.crates ++ [i] } db'
  refine ⟨?_, ?_, ?_, hm.pairsNodup, hm.tracksNodup, ?_⟩
  · intro c
    rw [h1, List.mem_append, List.mem_append, hm.crates]
  · intro t; rw [liveTrack_congr h3]; exact hm.tracks t
  · rw [h2]; exact hm.pairs
  · show (m.crates ++ [i]).Nodup
    rw [List.nodup_append]
    refine ⟨hm.cratesNodup, by simp, ?_⟩
    intro a ha b hb
    rw [List.mem_singleton] at hb
    rintro rfl
    exact hi (hb ▸ (hm.crates a).mp ha)

theorem memsim_createRoot (s : Schema) (h : Inv db) {m : Members.State} (hm : MemRel m db) (n : Name) :
    MemStepOk s m db (.createRoot n) := by
  unfold MemStepOk
  show ∃ m', membersNext m (.createRoot n) (createRootCrate s db n).2 _ _ = some m' ∧ MemRel m' (createRootCrate s db n).1
  rcases validName_cases n with hv | hv
  · by_cases hd : RootNamed db n
    · rw [createRoot_dup s db hv hd]; exact ⟨m, rfl, hm⟩
    · rw [createRoot_ok s db hv hd]
      have hfr : m.crates.contains (newCrateId s db) = false := by
        rw [← Bool.not_eq_true, contains_iff, hm.crates]; exact newCrateId_fresh s db
      refine ⟨membersTell m (.newCrate (newCrateId s db)), ?_,
        mem_newCrate (i := newCrateId s db) hm (newCrateId_fresh s db) (by simp [ids, afterCreateRoot]) rfl rfl⟩
      simp only [membersNext, Res.isOk, outId, hfr, if_true, Bool.false_eq_true, if_false]
  · rw [createRoot_invalid s db hv]; exact ⟨m, rfl, hm⟩

theorem memsim_createSub (s : Schema) (h : Inv db) {m : Members.State} (hm : MemRel m db) (c : Id) (n : Name) :
    MemStepOk s m db (.createSub c n) := by
  unfold MemStepOk
  show ∃ m', membersNext m (.createSub c n) (createSubCrate s db c n).2 _ _ = some m' ∧
    MemRel m' (createSubCrate s db c n).1
  rcases validName_cases n with hv | hv
  · by_cases hd : SubNamed db c n
    · rw [createSub_dup s db c hv hd]; exact ⟨m, rfl, hm⟩
    · by_cases hc : c ∈ ids db
      · rw [createSub_ok s h.idsNodup hv hd hc]
        have hfr : m.crates.contains (newCrateId s db) = false := by
          rw [← Bool.not_eq_true, contains_iff, hm.crates]; exact newCrateId_fresh s db
        refine ⟨membersTell m (.newCrate (newCrateId s db)), ?_,
          mem_newCrate (i := newCrateId s db) hm (newCrateId_fresh s db) (by simp [ids, afterCreateSub]) rfl rfl⟩
        simp only [membersNext, Res.isOk, outId, hfr, if_true, Bool.false_eq_true, if_false]
      · rw [createSub_dead s db hv hd hc]; exact ⟨m, rfl, hm⟩
  · rw [createSub_invalid s db c hv]; exact ⟨m, rfl, hm⟩

theorem memsim_rename (s : Schema) (h : Inv db) {m : Members.State} (hm : MemRel m db) (c : Id) (n : Name) :
    MemStepOk s m db (.rename c n) := by
  unfold MemStepOk
  refine ⟨m, rfl, ?_⟩
  show MemRel m (setName s db c n).1
  rcases validName_cases n with hv | hv
  · by_cases hc : c ∈ ids db
    · rw [setName_ok s h.toFInv hv hc]; exact hm.congr (ids_afterSetName db c n) rfl rfl
    · rw [setName_dead s db hv hc]; exact hm
  · rw [setName_invalid s db c hv]; exact hm

theorem memsim_setParent (s : Schema) (h : Inv db) {m : Members.State} (hm : MemRel m db) (c : Id) (parent : Option Id) :
    MemStepOk s m db (.setParent c parent) := by
  unfold MemStepOk
  refine ⟨m, rfl, ?_⟩
  show MemRel m (setParent s db c parent).1
  by_cases hself : parent = some c
  · subst hself; rw [setParent_self]; exact hm
  · by_cases hc : c ∈ ids db
    · cases parent with
      | none =>
        rw [setParent_ok s h.toFInv ⟨hc, fun q hq => by cases hq⟩]
        exact hm.congr (ids_afterSetParent db c none) rfl rfl
      | some q =>
        have hqc : q ≠ c := fun e => hself (by rw [e])
        by_cases hq : q ∈ ids db
        · by_cases hcyc : (c, q) ∈ db.ch
          · rw [setParent_cycle s h.idsNodup hqc hc hq hcyc]; exact hm
          · rw [setParent_ok s h.toFInv ⟨hc, fun q' hq' => by cases hq'; exact ⟨hq, hqc, hcyc⟩⟩]
            exact hm.congr (ids_afterSetParent db c (some q)) rfl rfl
        · rw [setParent_dead_parent s h.idsNodup hqc hc hq]; exact hm
    · rw [setParent_dead s db hself hc]; exact hm

theorem memsim_removeCrate (s : Schema) (h : Inv db) {m : Members.State} (hm : MemRel m db) (c : Id) :
    MemStepOk s m db (.removeCrate c) := by
  unfold MemStepOk
  show ∃ m', membersNext m (.removeCrate c) (removeCrate s db c).2 (dbCrates db) (dbCrates (removeCrate s db c).1) = some m' ∧
    MemRel m' (removeCrate s db c).1
  rw [removeCrate_eq s h c]
  refine ⟨_, rfl, ?_⟩
  -- the crates that are no longer listed
  have hgone : ∀ x, ((dbCrates db).filter fun i => !(dbCrates (afterRemove db c)).contains i).contains x = true ↔
      (x ∈ ids db ∧ Sub db c x) := by
    intro x
    rw [contains_iff, List.mem_filter, mem_dbCrates]
    simp only [Bool.not_eq_eq_eq_not, Bool.not_true]
    rw [← Bool.not_eq_true, contains_iff, mem_dbCrates, mem_ids_afterRemove]
    constructor
    · rintro ⟨h1, h2⟩
      refine ⟨h1, ?_⟩
      by_cases hs : Sub db c x
      · exact hs
      · exact absurd ⟨h1, hs⟩ h2
    · rintro ⟨h1, h2⟩
      exact ⟨h1, fun hh => hh.2 h2⟩
  show MemRel { m with crates := m.crates.filter (fun x => !(List.filter _ (dbCrates db)).contains x),
                       pairs := m.pairs.filter (fun p => !(List.filter _ (dbCrates db)).contains p.1) } (afterRemove db c)
  refine ⟨?_, ?_, ?_, hm.pairsNodup.sublist List.filter_sublist, hm.tracksNodup, hm.cratesNodup.sublist List.filter_sublist⟩
  · intro x
    rw [List.mem_filter, hm.crates, mem_ids_afterRemove]
    simp only [Bool.not_eq_eq_eq_not, Bool.not_true]
    rw [← Bool.not_eq_true, hgone]
    constructor
    · rintro ⟨h1, h2⟩; exact ⟨h1, fun hs => h2 ⟨h1, hs⟩⟩
    · rintro ⟨h1, h2⟩; exact ⟨h1, fun hh => h2 hh.2⟩
  · intro t
    rw [liveTrack_congr (db := db) (db' := afterRemove db c) rfl]; exact hm.tracks t
  · intro p
    rw [List.mem_filter, hm.pairs, mem_ctl_afterRemove]
    simp only [Bool.not_eq_eq_eq_not, Bool.not_true]
    rw [← Bool.not_eq_true, hgone]
    constructor
    · rintro ⟨h1, h2⟩; exact ⟨h1, fun hs => h2 ⟨(h.ctlLive p h1).1, hs⟩⟩
    · rintro ⟨h1, h2⟩; exact ⟨h1, fun hh => h2 hh.2⟩

/-! ### membership operations -/

theorem not_contains_iff {α} [BEq α] [LawfulBEq α] (l : List α) (a : α) : (!l.contains a) = true ↔ a ∉ l := by simp

theorem memsim_addTrack (s : Schema) (h : Inv db) {m : Members.State} (hm : MemRel m db) (c t : Id) :
    MemStepOk s m db (.addTrack c t) := by
  unfold MemStepOk
  show ∃ m', (Members.step m (.add c t)).next m (addTrack s db c t).2.isOk = some m' ∧ MemRel m' (addTrack s db c t).1
  by_cases hc : c ∈ ids db
  · have hc' : c ∈ m.crates := (hm.crates c).mpr hc
    by_cases ht : liveTrack db t
    · have ht' : t ∈ m.tracks := (hm.tracks t).mpr ht
      rw [addTrack_ok s h hc ht]
      by_cases hp : (c, t) ∈ db.ctl
      · -- already present: the Spec says no-op; the code deletes and re-inserts the row
        have hp' : (c, t) ∈ m.pairs := (hm.pairs _).mpr hp
        refine ⟨m, by simp [Members.step, hc', ht', hp', Members.Verdict.next, Res.isOk], ?_⟩
        refine ⟨hm.crates, ?_, ?_, hm.pairsNodup, hm.tracksNodup, hm.cratesNodup⟩
        · intro x; rw [liveTrack_congr (db := db) (db' := afterAddTrack db c t) rfl]; exact hm.tracks x
        · intro p
          rw [hm.pairs]
          show p ∈ db.ctl ↔ p ∈ db.ctl.filter (fun r => !(r.1 == c && r.2 == t)) ++ [(c, t)]
          rw [List.mem_append, List.mem_filter, List.mem_singleton]
          constructor
          · intro hpm
            by_cases he : p = (c, t)
            · exact Or.inr he
            · exact Or.inl ⟨hpm, (not_pair_iff p c t).mpr he⟩
          · rintro (⟨hpm, _⟩ | rfl)
            · exact hpm
            · exact hp
      · have hp' : (c, t) ∉ m.pairs := by
          rw [hm.pairs]; exact hp
        refine ⟨{ m with pairs := m.pairs ++ [(c, t)] },
          by simp [Members.step, hc', ht', hp', Members.Verdict.next, Res.isOk], ?_⟩
        refine ⟨hm.crates, ?_, ?_, ?_, hm.tracksNodup, hm.cratesNodup⟩
        · intro x; rw [liveTrack_congr (db := db) (db' := afterAddTrack db c t) rfl]; exact hm.tracks x
        · intro p
          show p ∈ m.pairs ++ [(c, t)] ↔ p ∈ db.ctl.filter (fun r => !(r.1 == c && r.2 == t)) ++ [(c, t)]
          rw [List.mem_append, List.mem_append, List.mem_filter, List.mem_singleton, hm.pairs]
          constructor
          · rintro (hpm | rfl)
            · exact Or.inl ⟨hpm, (not_pair_iff p c t).mpr (fun e => hp (e ▸ hpm))⟩
            · exact Or.inr rfl
          · rintro (⟨hpm, _⟩ | rfl)
            · exact Or.inl hpm
            · exact Or.inr rfl
        · show (m.pairs ++ [(c, t)]).Nodup
          rw [List.nodup_append]
          refine ⟨hm.pairsNodup, by simp, ?_⟩
          intro a ha b hb
          rw [List.mem_singleton] at hb
          rintro rfl
          exact hp (hb ▸ (hm.pairs a).mp ha)
    · have ht' : t ∉ m.tracks := by
        rw [hm.tracks]; exact ht
      rw [addTrack_dead_track s h.idsNodup hc ht]
      exact ⟨m, by simp [Members.step, hc', ht', Members.Verdict.next, Res.isOk], hm⟩
  · have hc' : c ∉ m.crates := by
      rw [hm.crates]; exact hc
    rw [addTrack_dead s db t hc]
    exact ⟨m, by simp [Members.step, hc', Members.Verdict.next, Res.isOk], hm⟩

theorem memRel_filterCtl {m : Members.State} (hm : MemRel m db) (p : Id × Id → Bool) (q : Id × Id → Bool)
    (hpq : ∀ r ∈ db.ctl, q r = !p r) :
    MemRel { m with pairs := m.pairs.filter q } (filterCtl db p) := by
  refine ⟨hm.crates, ?_, ?_, hm.pairsNodup.sublist List.filter_sublist, hm.tracksNodup, hm.cratesNodup⟩
  · intro x; rw [liveTrack_congr (db := db) (db' := filterCtl db p) rfl]; exact hm.tracks x
  · intro r
    show r ∈ m.pairs.filter q ↔ r ∈ db.ctl.filter (fun r => !p r)
    rw [List.mem_filter, List.mem_filter, hm.pairs]
    constructor
    · rintro ⟨h1, h2⟩; exact ⟨h1, by rw [← hpq r h1]; exact h2⟩
    · rintro ⟨h1, h2⟩; exact ⟨h1, by rw [hpq r h1]; exact h2⟩

theorem memRel_filterCtl_noop {m : Members.State} (hm : MemRel m db) (p : Id × Id → Bool)
    (hp : ∀ r ∈ db.ctl, p r = false) : MemRel m (filterCtl db p) := by
  have : filterCtl db p = db := by
    refine Db.ext' (a := filterCtl db p) (b := db) rfl rfl rfl ?_ rfl rfl
    show db.ctl.filter (fun r => !p r) = db.ctl
    rw [List.filter_eq_self]
    intro r hr
    rw [hp r hr]; rfl
  rw [this]; exact hm

theorem memsim_removeTrackFrom (s : Schema) (h : Inv db) {m : Members.State} (hm : MemRel m db) (c t : Id) :
    MemStepOk s m db (.removeTrackFrom c t) := by
  unfold MemStepOk
  show ∃ m', (Members.step m (.remove c t)).next m (removeTrackFrom s db c t).2.isOk = some m' ∧
    MemRel m' (removeTrackFrom s db c t).1
  rw [removeTrackFrom_eq s h]
  by_cases hc : c ∈ ids db
  · have hc' : c ∈ m.crates := (hm.crates c).mpr hc
    refine ⟨{ m with pairs := m.pairs.filter (· != (c, t)) },
      by simp [Members.step, hc', Members.Verdict.next, Res.isOk], ?_⟩
    apply memRel_filterCtl hm
    intro r _
    exact pair_bne r c t
  · have hc' : c ∉ m.crates := by
      rw [hm.crates]; exact hc
    refine ⟨m, by simp [Members.step, hc', Members.Verdict.next, Res.isOk], ?_⟩
    apply memRel_filterCtl_noop hm
    intro r hr
    have : r.1 ≠ c := fun e => hc (e ▸ (h.ctlLive r hr).1)
    simp [this]

theorem memsim_clearTracks (s : Schema) (h : Inv db) {m : Members.State} (hm : MemRel m db) (c : Id) :
    MemStepOk s m db (.clearTracks c) := by
  unfold MemStepOk
  show ∃ m', (Members.step m (.clear c)).next m (clearTracks s db c).2.isOk = some m' ∧ MemRel m' (clearTracks s db c).1
  rw [clearTracks_eq s h]
  by_cases hc : c ∈ ids db
  · have hc' : c ∈ m.crates := (hm.crates c).mpr hc
    refine ⟨{ m with pairs := m.pairs.filter (·.1 != c) },
      by simp [Members.step, hc', Members.Verdict.next, Res.isOk], ?_⟩
    apply memRel_filterCtl hm
    intro r _
    rfl
  · have hc' : c ∉ m.crates := by
      rw [hm.crates]; exact hc
    refine ⟨m, by simp [Members.step, hc', Members.Verdict.next, Res.isOk], ?_⟩
    apply memRel_filterCtl_noop hm
    intro r hr
    have : r.1 ≠ c := fun e => hc (e ▸ (h.ctlLive r hr).1)
    simp [this]

/-! ### track creation / removal -/

theorem memsim_createTrack (s : Schema) (h : Inv db) {m : Members.State} (hm : MemRel m db) :
    MemStepOk s m db .createTrack := by
  unfold MemStepOk
  show ∃ m', membersNext m .createTrack (createTrack s db).2 _ _ = some m' ∧ MemRel m' (createTrack s db).1
  obtain ⟨id, seq, e, hid⟩ := createTrack_spec s db
  rw [e]
  have hfresh : ¬ liveTrack db id := by
    rintro ⟨r, hr, h1, _⟩
    exact maxId_lt_fresh (List.mem_map_of_mem (f := (·.id)) hr) hid h1
  have hfr : m.tracks.contains id = false := by
    rw [← Bool.not_eq_true, contains_iff, hm.tracks]; exact hfresh
  refine ⟨membersTell m (.newTrack id), by simp only [membersNext, Res.isOk, outId, hfr, if_true, Bool.false_eq_true, if_false], ?_⟩
  show MemRel { m with tracks := m.tracks ++ [id] } _
  refine ⟨hm.crates, ?_, hm.pairs, hm.pairsNodup, ?_, hm.cratesNodup⟩
  · intro t
    rw [List.mem_append, List.mem_singleton, hm.tracks]
    unfold liveTrack
    simp only [List.mem_append, List.mem_singleton]
    constructor
    · rintro (⟨r, hr, h1, h2⟩ | rfl)
      · exact ⟨r, Or.inl hr, h1, h2⟩
      · exact ⟨⟨t, true⟩, Or.inr rfl, rfl, rfl⟩
    · rintro ⟨r, hr | rfl, h1, h2⟩
      · exact Or.inl ⟨r, hr, h1, h2⟩
      · exact Or.inr h1.symm
  · show (m.tracks ++ [id]).Nodup
    rw [List.nodup_append]
    refine ⟨hm.tracksNodup, by simp, ?_⟩
    intro a ha b hb
    rw [List.mem_singleton] at hb
    rintro rfl
    exact hfresh (hb ▸ (hm.tracks a).mp ha)

theorem memsim_removeTrack (s : Schema) (h : Inv db) {m : Members.State} (hm : MemRel m db) (t : Id) :
    MemStepOk s m db (.removeTrack t) := by
  unfold MemStepOk
  show ∃ m', (Members.step m (.dropTrack t)).next m (removeTrack s db t).2.isOk = some m' ∧ MemRel m' (removeTrack s db t).1
  obtain ⟨e0, e1, e2, e3, e4, e5, e6⟩ := removeTrack_spec s h t
  have hids : ids (removeTrack s db t).1 = ids db := by unfold ids; rw [e1]
  rw [e0]
  by_cases ht : liveTrack db t
  · have ht' : t ∈ m.tracks := (hm.tracks t).mpr ht
    refine ⟨{ m with tracks := m.tracks.filter (· != t), pairs := m.pairs.filter (·.2 != t) },
      by simp [Members.step, ht', Members.Verdict.next, Res.isOk], ?_⟩
    refine ⟨?_, ?_, ?_, hm.pairsNodup.sublist List.filter_sublist, hm.tracksNodup.sublist List.filter_sublist, hm.cratesNodup⟩
    · rw [hids]; exact hm.crates
    · intro x
      show x ∈ m.tracks.filter (· != t) ↔ _
      rw [e6, List.mem_filter, hm.tracks]
      simp
    · intro p
      show p ∈ m.pairs.filter (·.2 != t) ↔ _
      rw [e4, List.mem_filter, List.mem_filter, hm.pairs]
      simp
  · have ht' : t ∉ m.tracks := by
      rw [hm.tracks]; exact ht
    refine ⟨m, by simp [Members.step, ht', Members.Verdict.next, Res.isOk], ?_⟩
    refine ⟨?_, ?_, ?_, hm.pairsNodup, hm.tracksNodup, hm.cratesNodup⟩
    · rw [hids]; exact hm.crates
    · intro x
      rw [e6, hm.tracks]
      constructor
      · intro hx; exact ⟨hx, fun e => ht (e ▸ hx)⟩
      · exact fun hx => hx.1
    · intro p
      rw [e4, List.mem_filter, hm.pairs]
      constructor
      · intro hp
        refine ⟨hp, ?_⟩
        have : p.2 ≠ t := fun e => ht (e ▸ (h.ctlLive p hp).2)
        simpa using this
      · exact fun hp => hp.1

theorem memstep_ok (s : Schema) (h : Inv db) {m : Members.State} (hm : MemRel m db) (op : Op) : MemStepOk s m db op := by
  cases op with
  | createRoot n => exact memsim_createRoot s h hm n
  | createSub c n => exact memsim_createSub s h hm c n
  | rename c n => exact memsim_rename s h hm c n
  | setParent c p => exact memsim_setParent s h hm c p
  | removeCrate c => exact memsim_removeCrate s h hm c
  | addTrack c t => exact memsim_addTrack s h hm c t
  | removeTrackFrom c t => exact memsim_removeTrackFrom s h hm c t
  | clearTracks c => exact memsim_clearTracks s h hm c
  | createTrack => exact memsim_createTrack s h hm
  | removeTrack t => exact memsim_removeTrack s h hm t

theorem membersTrace_run (s : Schema) : ∀ (ops : List Op) {db : Db} {m : Members.State}, Inv db → MemRel m db →
    ∃ m', membersTrace s db m ops = some m' ∧ MemRel m' (run s db ops) := by
  intro ops
  induction ops with
  | nil => intro db m _ hm; exact ⟨m, rfl, hm⟩
  | cons op ops ih =>
    intro db m h hm
    obtain ⟨m1, e1, hm1⟩ := memstep_ok s h hm op
    obtain ⟨m2, e2, hm2⟩ := ih (step_ok s h op).1 hm1
    refine ⟨m2, ?_, by rw [run_cons]; exact hm2⟩
    unfold membersTrace
    rw [e1]
    exact e2

/-! ### the queries -/

theorem mem_crateTracks (s : Schema) (h : Inv db) (c t : Id) : t ∈ crateTracks s db c ↔ (c, t) ∈ db.ctl := by
  unfold crateTracks
  rw [ctlView_inv s h]
  simp only [List.mem_map, List.mem_filter, beq_iff_eq]
  constructor
  · rintro ⟨r, ⟨hr, h1⟩, rfl⟩
    have : r = (c, r.2) := Prod.ext h1 rfl
    rw [← this]; exact hr
  · intro hm; exact ⟨(c, t), ⟨hm, rfl⟩, rfl⟩

theorem mem_containing (s : Schema) (h : Inv db) (t c : Id) : c ∈ trackContainingCrates s db t ↔ (c, t) ∈ db.ctl := by
  unfold trackContainingCrates
  rw [ctlView_inv s h]
  simp only [List.mem_map, List.mem_filter, beq_iff_eq]
  constructor
  · rintro ⟨r, ⟨hr, h1⟩, rfl⟩
    have : r = (r.1, t) := Prod.ext rfl h1
    rw [← this]; exact hr
  · intro hm; exact ⟨(c, t), ⟨hm, rfl⟩, rfl⟩

theorem crateTracks_nodup (s : Schema) (h : Inv db) (c : Id) : (crateTracks s db c).Nodup := by
  unfold crateTracks
  rw [ctlView_inv s h]
  apply List.Nodup.map_on _ (h.ctlNodup.filter _)
  intro x hx y hy hxy
  simp only [List.mem_filter, beq_iff_eq] at hx hy
  exact Prod.ext (hx.2.trans hy.2.symm) hxy

theorem containing_nodup (s : Schema) (h : Inv db) (t : Id) : (trackContainingCrates s db t).Nodup := by
  unfold trackContainingCrates
  rw [ctlView_inv s h]
  apply List.Nodup.map_on _ (h.ctlNodup.filter _)
  intro x hx y hy hxy
  simp only [List.mem_filter, beq_iff_eq] at hx hy
  exact Prod.ext hxy (hx.2.trans hy.2.symm)

theorem mem_tracksOf (m : Members.State) (c t : Id) : t ∈ Members.tracksOf m c ↔ (c, t) ∈ m.pairs := by
  unfold Members.tracksOf
  simp only [List.mem_map, List.mem_filter, beq_iff_eq]
  constructor
  · rintro ⟨r, ⟨hr, h1⟩, rfl⟩
    have : r = (c, r.2) := Prod.ext h1 rfl
    rw [← this]; exact hr
  · intro hm; exact ⟨(c, t), ⟨hm, rfl⟩, rfl⟩

theorem mem_cratesOf (m : Members.State) (t c : Id) : c ∈ Members.cratesOf m t ↔ (c, t) ∈ m.pairs := by
  unfold Members.cratesOf
  simp only [List.mem_map, List.mem_filter, beq_iff_eq]
  constructor
  · rintro ⟨r, ⟨hr, h1⟩, rfl⟩
    have : r = (r.1, t) := Prod.ext rfl h1
    rw [← this]; exact hr
  · intro hm; exact ⟨(c, t), ⟨hm, rfl⟩, rfl⟩

theorem tracksOf_nodup {m : Members.State} (hn : m.pairs.Nodup) (c : Id) : (Members.tracksOf m c).Nodup := by
  unfold Members.tracksOf
  apply List.Nodup.map_on _ (hn.filter _)
  intro x hx y hy hxy
  simp only [List.mem_filter, beq_iff_eq] at hx hy
  exact Prod.ext (hx.2.trans hy.2.symm) hxy

theorem cratesOf_nodup {m : Members.State} (hn : m.pairs.Nodup) (t : Id) : (Members.cratesOf m t).Nodup := by
  unfold Members.cratesOf
  apply List.Nodup.map_on _ (hn.filter _)
  intro x hx y hy hxy
  simp only [List.mem_filter, beq_iff_eq] at hx hy
  exact Prod.ext hxy (hx.2.trans hy.2.symm)

theorem q_tracks (s : Schema) (h : Inv db) {m : Members.State} (hm : MemRel m db) (c : Id) :
    sortIds (crateTracks s db c) = sortIds (Members.tracksOf m c) := by
  apply sortIds_eq_of_mem (crateTracks_nodup s h c) (tracksOf_nodup hm.pairsNodup c)
  intro t
  rw [mem_crateTracks s h, mem_tracksOf, hm.pairs]

theorem q_containing (s : Schema) (h : Inv db) {m : Members.State} (hm : MemRel m db) (t : Id) :
    sortIds (trackContainingCrates s db t) = sortIds (Members.cratesOf m t) := by
  apply sortIds_eq_of_mem (containing_nodup s h t) (cratesOf_nodup hm.pairsNodup t)
  intro c
  rw [mem_containing s h, mem_cratesOf, hm.pairs]

theorem mem_liveIds (db : Db) (t : Id) : t ∈ (db.track.filter (·.hasPath)).map (·.id) ↔ liveTrack db t := by
  unfold liveTrack
  simp only [List.mem_map, List.mem_filter]
  constructor
  · rintro ⟨r, ⟨hr, h2⟩, h1⟩; exact ⟨r, hr, h1, h2⟩
  · rintro ⟨r, hr, h1, h2⟩; exact ⟨r, ⟨hr, h2⟩, h1⟩

theorem q_dbTracks (h : Inv db) {m : Members.State} (hm : MemRel m db) : dbTracks db = sortIds m.tracks := by
  unfold dbTracks
  apply sortIds_eq_of_mem _ hm.tracksNodup
  · intro t; rw [mem_liveIds, hm.tracks]
  · exact h.trackNodup.sublist (List.Sublist.map _ List.filter_sublist)

end EngineModel.Api.CratesV1
