/-
Every payload the codecs hand to `zlib_compress` is non-empty (at least 25 bytes), so the
`&uncompressed[0]` of `zlib_compress` (undefined on an empty vector, `Impl.Zlib.compress`) is never
reached through a codec.  `writeInto size out = ok b` means `b` has exactly `size` bytes.
-/
import EngineModel.Impl.V1
import Proofs.CheckedArith

namespace EngineModel.Impl
open EngineModel

theorem V2.writeInto_length {size : Nat} {out b : Bytes} (h : V2.writeInto size out = .ok b) :
    b.length = size := by
  unfold V2.writeInto at h
  split at h
  · rename_i hle
    simp only [Res.ok.injEq] at h
    subst h
    simp only [List.length_append, List.length_replicate]
    omega
  · simp at h

theorem V2.encodeTrack_len {v extra b} (h : V2.encodeTrack v extra = .ok b) : 44 ≤ b.length := by
  have := V2.writeInto_length h; omega
theorem V2.encodeBeat_len {v extra b} (h : V2.encodeBeat v extra = .ok b) : 33 ≤ b.length := by
  have := V2.writeInto_length h; omega
theorem V2.encodeOvw_len {v extra b} (h : V2.encodeOvw v extra = .ok b) : 27 ≤ b.length := by
  have := V2.writeInto_length h; omega
theorem V2.encodeCues_len {v extra b} (h : V2.encodeCues v extra = .ok b) : 25 ≤ b.length := by
  unfold V2.encodeCues at h
  split at h
  · simp at h
  · have := V2.writeInto_length h; omega

theorem V1.encodeTrack_len {v b} (h : V1.encodeTrack v = .ok b) : b.length = 28 :=
  V2.writeInto_length h
theorem V1.encodeOvw_len {v b} (h : V1.encodeOvw v = .ok b) : 27 ≤ b.length := by
  have := V2.writeInto_length h; omega
theorem V1.encodeHires_len {v b} (h : V1.encodeHires v = .ok b) : 30 ≤ b.length := by
  have := V2.writeInto_length h; omega
theorem V1.encodeBeat_len {v b} (h : V1.encodeBeat v = .ok b) : 33 ≤ b.length := by
  rw [ArithZ.encodeBeat_eq_Z] at h
  unfold ArithZ.encodeBeatZ at h
  split at h
  · simp at h
  · have := V2.writeInto_length h; omega
theorem V1.encodeCues_len {v b} (h : V1.encodeCues v = .ok b) : 129 ≤ b.length := by
  unfold V1.encodeCues at h
  split at h
  · simp at h
  · split at h
    · simp at h
    · simp at h
    · dsimp only at h
      repeat' split at h
      all_goals first
        | (simp at h; done)
        | (simp only [Res.ok.injEq] at h; subst h; omega)

end EngineModel.Impl
