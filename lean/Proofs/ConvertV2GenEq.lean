/-
The conversions regenerated from `convert_track.hpp`, `convert_hot_cues.hpp`, `convert_loops.hpp`
(`Gen/ConvertV2Gen.lean`, written by tools/tr_convert_v2.py on every run) are, as functions, the
components of the hand model `TracksV2/Model.lean` that `writeSnap`, `readSnap` and the setter /
getter models (`TracksV2/Lens.lean`) are made of.  Every statement mentions names only (stable
lock hashes); every proof unfolds the regenerated body, so a change of the C++ that changes what is
computed breaks `lake build` here.  No Mathlib.
-/
import EngineModel.Gen.ConvertV2Gen

namespace EngineModel.Gen.ConvertV2
open EngineModel EngineModel.TracksV2 EngineModel.Prim

set_option maxHeartbeats 40000
set_option linter.unusedSimpArgs false

/-! ### bit-pattern facts -/

theorem s64_inj' {a b : UInt64} : s64 a = s64 b ↔ a = b := by
  constructor
  · intro h
    apply UInt64.toNat_inj.mp
    have ha := a.toNat_lt
    have hb := b.toNat_lt
    unfold s64 at h
    split at h <;> split at h <;> omega
  · intro h; rw [h]

theorem i64_zero : Cv.i64 0 = 0 := by decide
theorem u64_zero : Cv.u64 0 = 0 := by decide
theorem i32_zero : Cv.i32 0 = 0 := by decide

theorem I64_eq_zero (x : UInt64) : Cv.I64.eq x (Cv.i64 0) = decide (x = 0) := by
  unfold Cv.I64.eq
  rw [i64_zero]
  by_cases h : x = 0
  · subst h; decide
  · have : ¬ s64 x = s64 0 := fun e => h (s64_inj'.mp e)
    simp [h, this]

theorem i64ToI32_eq (x : UInt64) : Cv.i64ToI32 x = trunc32 x := by
  unfold Cv.i64ToI32 trunc32 u32OfInt s64
  have hx := x.toNat_lt
  congr 1
  split <;> omega

theorem i32ToI64_eq (x : UInt32) : Cv.i32ToI64 x = sext32 x := rfl

theorem F64_ne_zero (x : F) : F64.ne x (0x0000000000000000 : F) = !F64.isZero x := by
  unfold F64.ne
  rw [F64.isZero_iff_eq_zero]
  rfl

/-! ### convert_track.hpp -/

/-- `(int64_t) std::clamp(v, 0, 100)` on bit patterns = the hand model's clamp on the value -/
theorem clamp_sext (v : UInt32) :
    Cv.i32ToI64 (Cv.I32.clamp v 0 (Cv.i32 100)) =
      u64OfInt (if s32 v < 0 then 0 else if 100 < s32 v then 100 else s32 v) := by
  unfold Cv.I32.clamp Cv.I32.lt
  rw [i32ToI64_eq]
  have h0 : s32 0 = 0 := by decide
  have h100 : s32 (Cv.i32 100) = 100 := by decide
  rw [h0, h100]
  by_cases h1 : s32 v < 0
  · simp only [h1, decide_true, if_true]; decide
  · by_cases h2 : 100 < s32 v
    · simp only [h1, h2, decide_true, decide_false, if_true, if_false, Bool.false_eq_true]; decide
    · simp only [h1, h2, decide_false, if_false, Bool.false_eq_true]; rfl

/-- `convert::write::rating` (any arrangement of the same clamp: a named local, the call inline) -/
theorem write_rating_eq (r : Option UInt32) : write_rating r = .ok (writeRating r) := by
  unfold write_rating writeRating
  simp only [i32_zero, clamp_sext, Res.pure_eq]

/-- `convert::read::rating` -/
theorem read_rating_eq (r : UInt64) : read_rating r = .ok (readRating r) := by
  unfold read_rating readRating
  rw [I64_eq_zero, i64ToI32_eq]
  by_cases h : r = 0 <;> simp [h]

theorem tdiv1000_bounds (a : Int) (h1 : -9223372036854775808 ≤ a) (h2 : a < 9223372036854775808) :
    -9223372036854775808 ≤ Int.tdiv a 1000 ∧ Int.tdiv a 1000 ≤ 9223372036854775807 := by
  by_cases h : 0 ≤ a
  · rw [Int.tdiv_eq_ediv_of_nonneg h]; omega
  · have e : Int.tdiv a 1000 = -(Int.tdiv (-a) 1000) := by rw [Int.neg_tdiv]; omega
    rw [e, Int.tdiv_eq_ediv_of_nonneg (by omega)]; omega

/-- `convert::write::duration` -/
theorem write_duration_eq (d : Option UInt64) : write_duration d = .ok (writeDuration d) := by
  unfold write_duration writeDuration Cv.I64.div Cv.I64.chk
  rw [i64_zero]
  have h1000 : s64 (Cv.i64 1000) = 1000 := by decide
  rw [h1000]
  have hr := s64_range (d.getD 0)
  have hb := tdiv1000_bounds _ hr.1 hr.2
  rw [if_neg (by decide), if_neg (by omega)]

theorem I64_zero_eq (x : UInt64) : Cv.I64.eq (Cv.i64 0) x = decide (x = 0) := by
  rw [← I64_eq_zero]; unfold Cv.I64.eq; congr 1; exact propext ⟨Eq.symm, Eq.symm⟩

theorem mul1000_eq (len : UInt64) :
    Cv.I64.mul len (Cv.i64 1000) =
      if s64 len * 1000 < -9223372036854775808 ∨ 9223372036854775807 < s64 len * 1000 then .ub .signed_overflow
      else .ok (u64OfInt (s64 len * 1000)) := by
  unfold Cv.I64.mul Cv.I64.chk
  have h1000 : s64 (Cv.i64 1000) = 1000 := by decide
  rw [h1000]

/-- `convert::read::duration` (the product is checked: `ub signed_overflow`; the comparison may be written
either way round, the product may be a named local) -/
theorem read_duration_eq (len : UInt64) : read_duration len = readDuration len := by
  unfold read_duration readDuration
  simp only [I64_eq_zero, I64_zero_eq, mul1000_eq]
  by_cases h : len = 0
  · simp [h]
  · simp only [h, decide_false, Bool.false_eq_true, if_false]
    split <;> rfl

/-- `convert::write::key` -/
theorem write_key_eq (k : Option UInt32) : write_key k = .ok (writeKey k) := by
  cases k <;> rfl

/-- `convert::read::key` -/
theorem read_key_eq (k : Option UInt32) : read_key k = .ok k := rfl

/-- `convert::write::average_loudness` -/
theorem write_average_loudness_eq (v : Option F) : write_average_loudness v = .ok (writeAverageLoudness v) := by
  cases v <;> rfl

/-- `convert::read::average_loudness` -/
theorem read_average_loudness_eq (t : V2.Track) : read_average_loudness t = .ok (readAverageLoudness t) := by
  unfold read_average_loudness readAverageLoudness
  rw [F64_ne_zero]
  cases F64.isZero t.lo <;> rfl

/-- `convert::write::sample_rate` -/
theorem write_sample_rate_eq (v : Option F) : write_sample_rate v = .ok (writeSampleRate v) := by
  cases v <;> rfl

/-- `convert::read::sample_rate` -/
theorem read_sample_rate_eq (t : V2.Track) : read_sample_rate t = .ok (readSampleRate t) := by
  unfold read_sample_rate readSampleRate
  rw [F64_ne_zero]
  cases F64.isZero t.sampleRate <;> rfl

/-- `convert::write::sample_count`: the integer for `track_data`, the double for `beat_data` -/
theorem write_sample_count_eq (ops : FOps) (c : Option UInt64) :
    write_sample_count ops c = .ok (c.getD 0, ops.ofU64 (c.getD 0)) := by
  cases c <;> rfl

/-- `convert::read::sample_count` -/
theorem read_sample_count_eq (t : V2.Track) : read_sample_count t = .ok (readSampleCount t) := by
  unfold read_sample_count readSampleCount
  rw [I64_eq_zero]
  by_cases h : t.samples = 0 <;> simp [h, Cv.i64ToU64]

/-- `convert::read::bpm` -/
theorem read_bpm_eq (ops : FOps) (a : Option F) (b : Option UInt64) : read_bpm ops a b = .ok (readBpm ops a b) := by
  cases a <;> rfl

/-! ### `convert::write::bpm`: the range guard of the source is exactly "the cast is defined" -/

theorem toI64_none_of_nan (b : F) (h : F64.isNaN b = true) : toI64 b = none := by
  unfold F64.isNaN at h
  simp only [Bool.and_eq_true, beq_iff_eq] at h
  unfold toI64
  simp only
  rw [if_pos (by omega)]

/-- at or above `2^63`, or below `-2^63`: the exponent is at least 1086, and at 1086 the magnitude is
`2^63` (resp. more than `2^63` for a negative value) -/
theorem toI64_none_of_key (b : F) (h : F64.key b < -4890909195324358656 ∨ 4890909195324358656 ≤ F64.key b) :
    toI64 b = none := by
  have hx : b.toNat < 18446744073709551616 := b.toNat_lt
  unfold toI64
  simp only
  by_cases he : F64.expOf b ≥ 1087
  · rw [if_pos he]
  · rw [if_neg he]
    by_cases hpos : b.toNat < 9223372036854775808
    · have hk : F64.key b = (b.toNat : Int) := by unfold F64.key; rw [if_pos hpos]
      rw [hk] at h
      have he2 : F64.expOf b = 1086 := by unfold F64.expOf at he ⊢; omega
      have hs : F64.signOf b = false := by unfold F64.signOf; simp; omega
      rw [he2, hs]
      simp only [Bool.false_eq_true, if_false]
      have e : (2 : Nat) ^ (1086 - 1075) = 2048 := by decide
      have hge : (1086 : Nat) ≥ 1075 := by decide
      rw [if_neg (show ¬ (1086 : Nat) < 1023 by decide), if_pos hge, e, if_pos (by omega)]
    · have hk : F64.key b = -((b.toNat : Int) - 9223372036854775808) := by unfold F64.key; rw [if_neg hpos]
      rw [hk] at h
      have he2 : F64.expOf b = 1086 := by unfold F64.expOf at he ⊢; omega
      have hm : 1 ≤ F64.manOf b := by unfold F64.manOf; unfold F64.expOf at he2; omega
      have hs : F64.signOf b = true := by unfold F64.signOf; simp; omega
      rw [he2, hs]
      simp only [if_true]
      have e : (2 : Nat) ^ (1086 - 1075) = 2048 := by decide
      have hge : (1086 : Nat) ≥ 1075 := by decide
      rw [if_neg (show ¬ (1086 : Nat) < 1023 by decide), if_pos hge, e, if_pos (by omega)]

theorem key_min : F64.key (0xc3e0000000000000 : F) = -4890909195324358656 := by decide
theorem key_two63 : F64.key (0x43e0000000000000 : F) = 4890909195324358656 := by decide

theorem toI64_none_of_guard (b : F)
    (h : (F64.le (0xc3e0000000000000 : F) b && F64.lt b (0x43e0000000000000 : F)) = false) : toI64 b = none := by
  by_cases hn : F64.isNaN b = true
  · exact toI64_none_of_nan b hn
  · apply toI64_none_of_key
    unfold F64.le F64.lt at h
    rw [key_min, key_two63] at h
    have hn' : F64.isNaN b = false := by cases hb : F64.isNaN b <;> simp_all
    have h1 : F64.isNaN (0xc3e0000000000000 : F) = false := by decide
    have h2 : F64.isNaN (0x43e0000000000000 : F) = false := by decide
    rw [hn', h1, h2] at h
    simp only [Bool.not_false, Bool.true_and, Bool.and_eq_false_iff, decide_eq_false_iff_not] at h
    omega

theorem toI64_some_of_guard (b : F)
    (h1 : F64.le (0xc3e0000000000000 : F) b = true) (h2 : F64.lt b (0x43e0000000000000 : F) = true) :
    ∃ t, toI64 b = some t := by
  unfold F64.le at h1
  unfold F64.lt at h2
  rw [key_min] at h1
  rw [key_two63] at h2
  simp only [Bool.and_eq_true, Bool.not_eq_true', decide_eq_true_eq] at h1 h2
  obtain ⟨⟨_, hnan⟩, hk1⟩ := h1
  obtain ⟨_, hk2⟩ := h2
  have hx : b.toNat < 18446744073709551616 := b.toNat_lt
  have hm : F64.manOf b < 4503599627370496 := by unfold F64.manOf; exact Nat.mod_lt _ (by decide)
  cases ht : toI64 b with
  | some t => exact ⟨t, rfl⟩
  | none =>
    exfalso
    unfold toI64 at ht
    simp only at ht
    by_cases hpos : b.toNat < 9223372036854775808
    · have hkx : F64.key b = (b.toNat : Int) := by unfold F64.key; rw [if_pos hpos]
      rw [hkx] at hk2
      have hehi : F64.expOf b ≤ 1085 := by unfold F64.expOf; omega
      have hs : F64.signOf b = false := by unfold F64.signOf; simp; omega
      rw [if_neg (by omega), hs] at ht
      simp only [Bool.false_eq_true, if_false] at ht
      split at ht
      · cases ht
      · have hmag : (if F64.expOf b ≥ 1075 then (F64.manOf b + 4503599627370496) * 2 ^ (F64.expOf b - 1075)
            else (F64.manOf b + 4503599627370496) / 2 ^ (1075 - F64.expOf b)) < 9223372036854775808 := by
          split
          · have hp : 2 ^ (F64.expOf b - 1075) ≤ 2 ^ 10 := Nat.pow_le_pow_right (by decide) (by omega)
            have h1 := Nat.mul_le_mul_left (F64.manOf b + 4503599627370496) hp
            omega
          · have := Nat.div_le_self (F64.manOf b + 4503599627370496) (2 ^ (1075 - F64.expOf b))
            omega
        rw [if_neg (by omega)] at ht
        cases ht
    · have hkx : F64.key b = -((b.toNat : Int) - 9223372036854775808) := by unfold F64.key; rw [if_neg hpos]
      rw [hkx] at hk1
      have hehi : F64.expOf b ≤ 1086 := by unfold F64.expOf; omega
      have hs : F64.signOf b = true := by unfold F64.signOf; simp; omega
      have hmag : (if F64.expOf b ≥ 1075 then (F64.manOf b + 4503599627370496) * 2 ^ (F64.expOf b - 1075)
          else (F64.manOf b + 4503599627370496) / 2 ^ (1075 - F64.expOf b)) ≤ 9223372036854775808 := by
        split
        · by_cases he : F64.expOf b = 1086
          · have hm0 : F64.manOf b = 0 := by unfold F64.manOf; unfold F64.expOf at he; omega
            have e : (2 : Nat) ^ (1086 - 1075) = 2048 := by decide
            rw [he, hm0, e]; omega
          · have hp : 2 ^ (F64.expOf b - 1075) ≤ 2 ^ 10 := Nat.pow_le_pow_right (by decide) (by omega)
            have h1 := Nat.mul_le_mul_left (F64.manOf b + 4503599627370496) hp
            have h10 : (2 : Nat) ^ 10 = 1024 := by decide
            rw [h10] at h1
            generalize (F64.manOf b + 4503599627370496) * 2 ^ (F64.expOf b - 1075) = P at h1 ⊢
            apply Nat.le_of_lt      -- (omega loops on `_ ≤ 2^63` with this product; `<` is what holds anyway)
            omega
        · have := Nat.div_le_self (F64.manOf b + 4503599627370496) (2 ^ (1075 - F64.expOf b))
          omega
      rw [if_neg (by omega), hs] at ht
      simp only [if_true] at ht
      split at ht
      · cases ht
      · rw [if_neg (by omega)] at ht
        cases ht

/-- `convert::write::bpm`: `{bpm, in range ? (int64_t) *bpm : nullopt}` — the guard of the source makes
the conversion defined exactly where `toI64` is, so no `ub float_cast_range` and no lost value. -/
theorem write_bpm_eq (v : Option F) : write_bpm v = .ok (writeBpm v) := by
  cases v with
  | none => rfl
  | some b =>
    unfold write_bpm writeBpm
    simp only [Option.isSome_some, Cv.andAlso, if_true, Cv.deref, bind, Res.bind, pure, Option.bind_some]
    by_cases h1 : F64.le (0xc3e0000000000000 : F) b = true
    · by_cases h2 : F64.lt b (0x43e0000000000000 : F) = true
      · obtain ⟨t, ht⟩ := toI64_some_of_guard b h1 h2
        simp only [h1, h2, if_true, Cv.f64ToI64, ht, Option.map_some]
      · have hg := toI64_none_of_guard b (by simp [h2])
        simp only [h1, h2, if_true, Bool.false_eq_true, if_false, hg, Option.map_none]
    · have hg := toI64_none_of_guard b (by simp [h1])
      simp only [h1, Bool.false_eq_true, if_false, hg, Option.map_none]

/-- `convert::write::album_art_id` / `convert::read::album_art_id` (not used by track_impl.cpp) -/
theorem write_album_art_id_eq (a : Option UInt64) : write_album_art_id a = .ok (a.getD 1) := by
  cases a <;> rfl

theorem read_album_art_id_eq (a : UInt64) : read_album_art_id a = .ok (if a = 1 then none else some a) := by
  unfold read_album_art_id Cv.I64.eq
  have h1 : Cv.i64 1 = 1 := by decide
  rw [h1]
  by_cases h : a = 1
  · subst h; rfl
  · have : ¬ s64 a = s64 1 := fun e => h (s64_inj'.mp e)
    simp [h, this]

/-! ### convert_hot_cues.hpp -/

theorem quick_cue_blob_empty_eq : quick_cue_blob_empty = .ok emptyCue := by decide
theorem loop_blob_empty_eq : loop_blob_empty = .ok emptyLoop := by decide

/-- `convert::write::main_cue` -/
theorem write_main_cue_eq (v : Option F) : write_main_cue v = .ok (writeMainCue v) := by
  cases v <;> rfl

/-- `convert::read::main_cue` -/
theorem read_main_cue_eq (v : F) : read_main_cue v = .ok (readMainCue v) := by
  unfold read_main_cue readMainCue
  rw [F64_ne_zero]
  cases F64.isZero v <;> rfl

/-- `convert::write::hot_cue` -/
theorem write_hot_cue_eq (c : Option HotCue) : write_hot_cue c = .ok (writeHotCue c) := by
  cases c with
  | none => unfold write_hot_cue; rw [quick_cue_blob_empty_eq]; rfl
  | some c => rfl

/-- `convert::read::hot_cue` -/
theorem read_hot_cue_eq (q : V2.Cue) : read_hot_cue q = .ok (readHotCue q) := by
  unfold read_hot_cue readHotCue
  have : QUICK_CUE_SAMPLE_OFFSET_EMPTY = negOne := rfl
  rw [this]
  cases F64.eq q.off negOne <;> rfl

/-! the two loops of the vocabulary -/

theorem forPush_ok {α β} (f : α → Res β) (g : α → β) (hf : ∀ a, f a = .ok (g a)) (acc : List β) (xs : List α) :
    Cv.forPush f acc xs = .ok (acc ++ xs.map g) := by
  induction xs generalizing acc with
  | nil => simp [Cv.forPush]
  | cons x r ih =>
    unfold Cv.forPush
    rw [hf x]
    simp only [Res.bind]
    rw [ih]
    simp

theorem whilePushFuel_ok {α} (n : Nat) (e : α) (fuel : Nat) (v : List α) (h : n - v.length ≤ fuel) :
    Cv.whilePushFuel n (.ok e) fuel v = .ok (padTo n e v) := by
  induction fuel generalizing v with
  | zero =>
    unfold Cv.whilePushFuel padTo
    have : n - v.length = 0 := by omega
    rw [this]; simp
  | succ k ih =>
    unfold Cv.whilePushFuel
    by_cases hlt : v.length < n
    · rw [if_pos hlt]
      simp only [Res.bind]
      rw [ih (v ++ [e]) (by simp; omega)]
      unfold padTo
      have : n - v.length = (n - (v ++ [e]).length) + 1 := by simp; omega
      rw [this, List.replicate_succ]
      simp
    · rw [if_neg hlt]
      unfold padTo
      have : n - v.length = 0 := by omega
      rw [this]; simp

theorem whilePush_ok {α} (n : Nat) (e : α) (v : List α) : Cv.whilePush n (.ok e) v = .ok (padTo n e v) :=
  whilePushFuel_ok n e _ v (Nat.le_refl _)

/-- `convert::write::hot_cues`: more than eight ⇒ `hot_cues_overflow`, otherwise padded to eight -/
theorem write_hot_cues_eq (cs : List (Option HotCue)) : write_hot_cues cs = writeHotCues cs := by
  unfold write_hot_cues writeHotCues
  by_cases h : 8 < cs.length
  · simp [h]
  · simp only [h, decide_false, Bool.false_eq_true, if_false]
    have hq : (do let t3 ← quick_cue_blob_empty; pure t3 : Res V2.Cue) = .ok emptyCue := by
      rw [quick_cue_blob_empty_eq]
    have hf : ∀ c, (do let t1 ← write_hot_cue c; pure t1 : Res V2.Cue) = .ok (writeHotCue c) := by
      intro c; rw [write_hot_cue_eq]
    simp only [hq]
    rw [show (fun cue => (do let t1 ← write_hot_cue cue; pure t1 : Res V2.Cue)) = fun c => .ok (writeHotCue c) from funext hf]
    simp only [bind, Res.pure_eq]
    rw [forPush_ok _ writeHotCue (fun _ => rfl)]
    simp only [Res.bind, List.nil_append]
    rw [whilePush_ok]

/-- `convert::read::hot_cues` -/
theorem read_hot_cues_eq (q : V2.Cues) : read_hot_cues q = .ok (readHotCues q) := by
  unfold read_hot_cues readHotCues
  have hf : ∀ c, (do let t1 ← read_hot_cue c; pure t1 : Res (Option HotCue)) = .ok (readHotCue c) := by
    intro c; rw [read_hot_cue_eq]
  rw [show (fun c => (do let t1 ← read_hot_cue c; pure t1 : Res (Option HotCue))) = fun c => .ok (readHotCue c) from funext hf]
  simp only [bind, Res.pure_eq]
  rw [forPush_ok _ readHotCue (fun _ => rfl)]
  simp [Res.bind]

/-! ### convert_loops.hpp -/

/-- `convert::write::loop` -/
theorem write_loop_eq (l : Option LoopV) : write_loop l = .ok (writeLoop l) := by
  cases l with
  | none => unfold write_loop; rw [loop_blob_empty_eq]; rfl
  | some l => rfl

/-- `convert::read::loop` -/
theorem read_loop_eq (l : V2.Loop) : read_loop l = .ok (readLoop l) := by
  unfold read_loop readLoop Cv.u8ToBool
  cases (l.isStart != 0 || l.isEnd != 0) <;> rfl

/-- `convert::write::loops`: more than eight ⇒ `loops_overflow`, otherwise padded to eight, no `extra_data` -/
theorem write_loops_eq (ls : List (Option LoopV)) :
    write_loops ls = (writeLoops ls).bind fun l => .ok ⟨l, []⟩ := by
  unfold write_loops writeLoops
  by_cases h : 8 < ls.length
  · simp [h, Res.bind]
  · simp only [h, decide_false, Bool.false_eq_true, if_false]
    have hq : (do let t3 ← loop_blob_empty; pure t3 : Res V2.Loop) = .ok emptyLoop := by
      rw [loop_blob_empty_eq]
    have hf : ∀ c, (do let t1 ← write_loop c; pure t1 : Res V2.Loop) = .ok (writeLoop c) := by
      intro c; rw [write_loop_eq]
    simp only [hq]
    rw [show (fun l => (do let t1 ← write_loop l; pure t1 : Res V2.Loop)) = fun c => .ok (writeLoop c) from funext hf]
    simp only [bind, Res.pure_eq]
    rw [forPush_ok _ writeLoop (fun _ => rfl)]
    simp only [Res.bind, List.nil_append]
    rw [whilePush_ok]

/-- `convert::read::loops` -/
theorem read_loops_eq (b : Cv.LoopsBlob) : read_loops b = .ok (readLoops b.loops) := by
  unfold read_loops readLoops
  have hf : ∀ c, (do let t1 ← read_loop c; pure t1 : Res (Option LoopV)) = .ok (readLoop c) := by
    intro c; rw [read_loop_eq]
  rw [show (fun l => (do let t1 ← read_loop l; pure t1 : Res (Option LoopV))) = fun c => .ok (readLoop c) from funext hf]
  simp only [bind, Res.pure_eq]
  rw [forPush_ok _ readLoop (fun _ => rfl)]
  simp [Res.bind]

/-! ### convert_beatgrid.hpp -/

/-- `convert::read::beatgrid_marker` -/
theorem read_beatgrid_marker_eq (m : V2.Marker) : read_beatgrid_marker m = .ok ⟨trunc32 m.beatNo, m.off⟩ := by
  unfold read_beatgrid_marker
  rw [i64ToI32_eq]; rfl

/-- `convert::read::beatgrid_markers` -/
theorem read_beatgrid_markers_eq (g : List V2.Marker) : read_beatgrid_markers g = .ok (readGridMarkers g) := by
  unfold read_beatgrid_markers readGridMarkers
  have hf : ∀ c, (do let t1 ← read_beatgrid_marker c; pure t1 : Res GMarker) = .ok ⟨trunc32 c.beatNo, c.off⟩ := by
    intro c; rw [read_beatgrid_marker_eq]
  rw [show (fun marker => (do let t1 ← read_beatgrid_marker marker; pure t1 : Res GMarker)) =
      fun c => .ok ⟨trunc32 c.beatNo, c.off⟩ from funext hf]
  simp only [bind, Res.pure_eq]
  have key := forPush_ok (fun c : V2.Marker => (Res.ok (⟨trunc32 c.beatNo, c.off⟩ : GMarker)))
    (fun m => ⟨trunc32 m.beatNo, m.off⟩) (fun _ => rfl) [] g
  rw [key]
  simp [Res.bind]

/-! `write::beatgrid_markers` walks the grid once and corrects the previous blob's `number_of_beats` through a
reference to `converted.back()`; the hand model `writeGridMarkers` looks one marker ahead.  The loop invariant:
after the prefix `pre`, `converted = writeGridMarkers pre`. -/

theorem wg_cons2 (a b : GMarker) (r : List GMarker) :
    writeGridMarkers (a :: b :: r) =
      ⟨a.off, sext32 a.index, u32OfInt (s32 b.index - s64 (sext32 a.index)), 0⟩ :: writeGridMarkers (b :: r) := by
  rw [writeGridMarkers]

theorem wg_snoc (pre : List GMarker) (p m : GMarker) :
    ∃ X, writeGridMarkers (pre ++ [p]) = X ++ [⟨p.off, sext32 p.index, 0, 0⟩] ∧
      writeGridMarkers (pre ++ [p, m]) =
        X ++ [⟨p.off, sext32 p.index, u32OfInt (s32 m.index - s64 (sext32 p.index)), 0⟩, ⟨m.off, sext32 m.index, 0, 0⟩] := by
  induction pre with
  | nil => exact ⟨[], by simp [writeGridMarkers], by simp [writeGridMarkers]⟩
  | cons a t ih =>
    obtain ⟨X, h1, h2⟩ := ih
    cases t with
    | nil =>
      refine ⟨⟨a.off, sext32 a.index, u32OfInt (s32 p.index - s64 (sext32 a.index)), 0⟩ :: X, ?_, ?_⟩
      · simp only [List.cons_append, List.nil_append] at h1 ⊢; rw [wg_cons2, h1]
      · simp only [List.cons_append, List.nil_append] at h2 ⊢; rw [wg_cons2, h2]
    | cons c t' =>
      refine ⟨⟨a.off, sext32 a.index, u32OfInt (s32 c.index - s64 (sext32 a.index)), 0⟩ :: X, ?_, ?_⟩
      · simp only [List.cons_append] at h1 ⊢; rw [wg_cons2, h1]
      · simp only [List.cons_append] at h2 ⊢; rw [wg_cons2, h2]

theorem s64_sext32 (x : UInt32) : s64 (sext32 x) = s32 x := by
  unfold sext32
  have hx := x.toNat_lt
  have : -2147483648 ≤ s32 x ∧ s32 x < 2147483648 := by unfold s32; split <;> omega
  exact s64_u64OfInt _ (by omega) (by omega)

theorem s32_range (x : UInt32) : -2147483648 ≤ s32 x ∧ s32 x < 2147483648 := by
  have hx := x.toNat_lt
  unfold s32; split <;> omega

/-- the invariant is kept by any loop body that does what the source's does on `writeGridMarkers pre` -/
theorem forFold_grid (f : List V2.Marker → GMarker → Res (List V2.Marker))
    (hf : ∀ pre m, f (writeGridMarkers pre) m = .ok (writeGridMarkers (pre ++ [m]))) (pre rest : List GMarker) :
    Cv.forFold f (writeGridMarkers pre) rest = .ok (writeGridMarkers (pre ++ rest)) := by
  induction rest generalizing pre with
  | nil => simp [Cv.forFold]
  | cons m r ih =>
    unfold Cv.forFold
    rw [hf pre m]
    simp only [Res.bind]
    rw [ih (pre ++ [m])]
    simp

/-- the distance written through the reference: `static_cast<int32_t>(iter->index - prev.beat_number)`, an
`int64_t` subtraction of two values of `int` range — never `ub signed_overflow` -/
theorem grid_distance (mi pi : UInt32) :
    Cv.I64.sub (sext32 mi) (sext32 pi) = .ok (u64OfInt (s32 mi - s32 pi)) ∧
      Cv.i64ToI32 (u64OfInt (s32 mi - s32 pi)) = u32OfInt (s32 mi - s64 (sext32 pi)) := by
  have h1 := s32_range mi
  have h2 := s32_range pi
  constructor
  · unfold Cv.I64.sub Cv.I64.chk
    rw [s64_sext32, s64_sext32, if_neg (by omega)]
  · unfold Cv.i64ToI32
    rw [s64_u64OfInt _ (by omega) (by omega), s64_sext32]

/-- `convert::write::beatgrid_markers` -/
theorem write_beatgrid_markers_eq (g : List GMarker) : write_beatgrid_markers g = .ok (writeGridMarkers g) := by
  unfold write_beatgrid_markers
  simp only [bind, Res.pure_eq]
  have key : ∀ F : List V2.Marker → GMarker → Res (List V2.Marker),
      (∀ pre m, F (writeGridMarkers pre) m = .ok (writeGridMarkers (pre ++ [m]))) →
      Cv.forFold F [] g = .ok (writeGridMarkers g) := fun F hF => by
    have h := forFold_grid F hF [] g
    rwa [show writeGridMarkers [] = [] from by simp [writeGridMarkers], List.nil_append] at h
  rw [key _ ?_]
  · simp [Res.bind]
  · intro pre m
    rcases List.eq_nil_or_concat pre with hnil | ⟨pre0, p, hp⟩
    · subst hnil
      simp [writeGridMarkers, Res.bind, i32ToI64_eq, i32_zero]
    · rw [List.concat_eq_append] at hp
      subst hp
      obtain ⟨X, h1, h2⟩ := wg_snoc pre0 p m
      have hd := grid_distance m.index p.index
      have hne : ∀ l : V2.Marker, (X ++ [l]).isEmpty = false := fun l => by cases X <;> rfl
      rw [List.append_assoc, List.singleton_append, h2, h1]
      simp only [hne, Bool.not_false, if_true, Cv.back,
        List.getLast?_append, List.getLast?_singleton, Option.some_or, Res.bind, hd.1, hd.2, Cv.setBack,
        List.dropLast_concat, i32ToI64_eq, i32_zero, List.append_assoc, List.singleton_append, List.cons_append,
        List.nil_append]

/-- `convert::write::beatgrid`: the flag, and the same markers as default and adjusted grid -/
theorem write_beatgrid_eq (g : List GMarker) :
    write_beatgrid g = .ok ((if (writeGridMarkers g).isEmpty then 0 else 1), writeGridMarkers g, writeGridMarkers g) := by
  unfold write_beatgrid
  rw [write_beatgrid_markers_eq]
  simp only [bind, Res.bind, Res.pure_eq]
  cases (writeGridMarkers g).isEmpty <;> rfl

end EngineModel.Gen.ConvertV2
